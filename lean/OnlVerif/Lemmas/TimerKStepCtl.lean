import OnlVerif.Lemmas.TimerKFrame
/-!
# The Timer on the kernel model: kernel steps that run the controller (`Timer.stop`, `Timer.restart` from outside)
-/

set_option linter.unusedSimpArgs false

namespace TimerK
open TimerOnK

variable {auto : Bool} {arg : Int} {cbs : List (Option Op)}
variable {s : KS} {a : A} {q : QEntry ℚ} {rest : List (QEntry ℚ)}

set_option hygiene false in
/-- the fields of `KInv` after a controller burst that ends the controller (`self.proc` untouched) -/
macro "ctl_end_leaf" : tactic => `(tactic| (
  intro hmono
  refine ⟨⟨?_, ?_, ?_, ?_, ?_, ?_, ?_, ?_, ?_, ?_, ?_, ?_, ?_, ?_⟩, ?_⟩
  · exact wf_push1 hwf.1 _ rfl rfl rfl rfl (le_refl _)
  · simp only [A.entries, CPhase.entries, List.nil_append]
    perm_count hrest
  · refine hk.tm.keep (X := [q.ev, a.cp]) (by evkeep) ?_ ?_ (fun _ => hmono)
    · intro e he; have := dph e he; grind
    · intro hm; have := dph _ hm; have hne' : a.cur ≠ a.cp := by grind
      tsimp [hne']
  · intro o ho
    have ho' : a.old = some o := ho
    have hd := dold
    simp only [ho', idsk] at hd
    refine (hk.old o ho').keep (X := [q.ev, a.cp]) (by evkeep) ?_ ?_
    · intro e he; simp only [idsk] at he; grind
    · have hne' : o.p ≠ a.cp := by grind
      tsimp [hne']
  · trivial
  · intro x hx
    simp only [List.mem_append, List.mem_singleton] at hx
    rcases hx with hx | rfl
    · refine (hk.noop x hx).keep (X := [q.ev, a.cp]) (by evkeep) ?_
      have hm := mem_evs_of hx
      grind
    · tsimp [NoopEv, hgc]
  · simp only [idsk]
    grind
  · tsimp [hc0]
  · tsimp [hc1]
  · tsimp [hc2]
  · tsimp [hc3]
  · tsimp [hc4]
  · tsimp [hc5]
  · tsimp [hc6]
  · simp [histOf_push]))

set_option hygiene false in
/-- the fields of `KInv` after a controller burst that ends in the next sleep (`self.proc` untouched) -/
macro "ctl_wait_leaf" : tactic => `(tactic| (
  intro hmono
  refine ⟨⟨?_, ?_, ?_, ?_, ?_, ?_, ?_, ?_, ?_, ?_, ?_, ?_, ?_, ?_⟩, ?_⟩
  · exact wf_push1 hwf.1 _ rfl rfl rfl rfl (by show q.time ≤ q.time + gap; linarith)
  · simp only [A.entries, CPhase.entries]
    perm_count hrest
  · refine hk.tm.keep (X := [q.ev]) (by evkeep) ?_ ?_ (fun _ => hmono)
    · intro e he; have := dph e he; grind
    · intro hm; have := dph _ hm; have hne' : a.cur ≠ a.cp := by grind
      tsimp [hne']
  · intro o ho
    have ho' : a.old = some o := ho
    have hd := dold
    simp only [ho', idsk] at hd
    refine (hk.old o ho').keep (X := [q.ev]) (by evkeep) ?_ ?_
    · intro e he; simp only [idsk] at he; grind
    · have hne' : o.p ≠ a.cp := by grind
      tsimp [hne']
  · refine ⟨?_, ?_, ?_⟩
    · tsimp [EvIs]
    · tsimp
    · exact hpe.keep (X := [q.ev]) (by evkeep) (by simp [hne])
  · intro x hx
    refine (hk.noop x hx).keep (X := [q.ev]) (by evkeep) ?_
    have hm := mem_evs_of hx
    grind
  · simp only [idsk]
    grind
  · tsimp [hc0]
  · tsimp [hc1]
  · tsimp [hc2]
  · tsimp [hc3]
  · tsimp [hc4]
  · tsimp [hc5]
  · tsimp [hc6]
  · simp [histOf_push]))

/-- the controller's `Initialize` event: it sleeps until its first call, or returns at once -/
theorem kstep_ctlInit (fuel : Nat) (hk : KInv s a) {sc : List (ℚ × Op)} (hctl : a.ctl = .init q sc)
    (hg : ∀ x ∈ sc, 0 ≤ x.1) (hp : popMin s.agenda = some (q, rest))
    (hrest : rest.Perm (a.ph.entries ++ (oldEntries a.old ++ a.noop))) :
    ∃ s', step (body auto arg cbs) (fuel + 1) s = .ok s' ∧
      KInv s' (ctlNext q.time s.eid s.events.size a sc) ∧
      s'.now = q.time ∧ histOf s'.trace = histOf s.trace := by
  have hc := hk.ctl
  rw [hctl] at hc
  obtain ⟨hqe, ⟨hkind, hcbs, hout⟩, hproc, hpe⟩ := hc
  obtain ⟨hpk, hpc, hpo⟩ := hpe
  rw [← hqe] at hkind hcbs hout
  have hgs : q.ev < s.events.size := KState.lt_of_cbs hcbs
  have hgc : a.cp < s.events.size := KState.lt_of_cbs hpc
  have hwf := openEvent_wf s q rest hk.wf hp
  have hc0 := hk.c0; have hc1 := hk.c1; have hc2 := hk.c2; have hc3 := hk.c3; have hc4 := hk.c4; have hc5 := hk.c5; have hc6 := hk.c6
  obtain ⟨nph, nold, nctl, nnoop, dph, dold, dctl⟩ := (ids_nodup_iff a).mp hk.nd
  have hlt := hk.idlt
  have hnd := hk.nd
  simp only [idsk, hctl] at hnd hlt nctl dctl dph dold
  have hne : a.cp ≠ q.ev := nctl
  have hmono : ∀ S, step (body auto arg cbs) (fuel + 1) s = .ok S → TrigMono s S :=
    fun S h => step_trigMono _ _ _ _ (by rw [h]; rfl)
  revert hmono
  rw [step_eq _ _ _ _ _ _ hp hcbs]
  simp only [List.foldl, runCb]
  rw [resume_eq _ _ _ _ _ _ (show (openEvent s q rest).proc? a.cp = _ from hproc)]
  simp only [KState.ev] at hkind hcbs hout hpk hpc hpo
  have hpe : EvIs s a.cp .proc [] none := ⟨hpk, hpc, hpo⟩
  cases sc with
  | nil =>
    tsimp [hgs, hgc, hkind, hcbs, hout, Nat.ne_of_lt hgs, Nat.ne_of_lt hgc, hpk, hpc, hpo, hne, Ne.symm hne, ctlNext]
    ctl_end_leaf
  | cons x sc =>
    obtain ⟨gap, op⟩ := x
    have hgap : 0 ≤ gap := (hg (gap, op) (by simp))
    tsimp [hgs, hgc, hkind, hcbs, hout, Nat.ne_of_lt hgs, Nat.ne_of_lt hgc, hpk, hpc, hpo, hne, Ne.symm hne, ctlNext, hgap]
    ctl_wait_leaf

/-- the controller's timeout fires: it calls `stop()`, then sleeps until its next call or returns -/
theorem kstep_ctlStop (fuel : Nat) (hk : KInv s a) {sc : List (ℚ × Op)} (hctl : a.ctl = .wait .stop sc q)
    (hg : ∀ x ∈ sc, 0 ≤ x.1) (hp : popMin s.agenda = some (q, rest))
    (hrest : rest.Perm (a.ph.entries ++ (oldEntries a.old ++ a.noop))) :
    ∃ s', step (body auto arg cbs) (fuel + 1) s = .ok s' ∧
      KInv s' (ctlNext q.time s.eid s.events.size { a with stopped := true, expire := q.time } sc) ∧
      s'.now = q.time ∧ histOf s'.trace = histOf s.trace ++ [.call q.time .stop] := by
  have hc := hk.ctl
  rw [hctl] at hc
  obtain ⟨⟨hkind, hcbs, hout⟩, hproc, hpe⟩ := hc
  obtain ⟨hpk, hpc, hpo⟩ := hpe
  have hgs : q.ev < s.events.size := KState.lt_of_cbs hcbs
  have hgc : a.cp < s.events.size := KState.lt_of_cbs hpc
  have hwf := openEvent_wf s q rest hk.wf hp
  have hc0 := hk.c0; have hc1 := hk.c1; have hc2 := hk.c2; have hc3 := hk.c3; have hc4 := hk.c4; have hc5 := hk.c5; have hc6 := hk.c6
  obtain ⟨nph, nold, nctl, nnoop, dph, dold, dctl⟩ := (ids_nodup_iff a).mp hk.nd
  have hlt := hk.idlt
  have hnd := hk.nd
  simp only [idsk, hctl] at hnd hlt nctl dctl dph dold
  have hne : a.cp ≠ q.ev := nctl
  have hmono : ∀ S, step (body auto arg cbs) (fuel + 1) s = .ok S → TrigMono s S :=
    fun S h => step_trigMono _ _ _ _ (by rw [h]; rfl)
  revert hmono
  rw [step_eq _ _ _ _ _ _ hp hcbs]
  simp only [List.foldl, runCb]
  rw [resume_eq _ _ _ _ _ _ (show (openEvent s q rest).proc? a.cp = _ from hproc)]
  simp only [KState.ev] at hkind hcbs hout hpk hpc hpo
  have hpe : EvIs s a.cp .proc [] none := ⟨hpk, hpc, hpo⟩
  cases sc with
  | nil =>
    tsimp [hgs, hgc, hkind, hcbs, hout, Nat.ne_of_lt hgs, Nat.ne_of_lt hgc, hpk, hpc, hpo, hne, Ne.symm hne, ctlNext]
    ctl_end_leaf
  | cons x sc =>
    obtain ⟨gap, op⟩ := x
    have hgap : 0 ≤ gap := (hg (gap, op) (by simp))
    tsimp [hgs, hgc, hkind, hcbs, hout, Nat.ne_of_lt hgs, Nat.ne_of_lt hgc, hpk, hpc, hpo, hne, Ne.symm hne, ctlNext, hgap]
    ctl_wait_leaf

/-- the controller's timeout fires: it calls `restart(τ)` on a timer whose process has finished (`not is_alive`): the
attributes are written, nothing is started -/
theorem kstep_ctlRestartDead (fuel : Nat) (hk : KInv s a) {sc : List (ℚ × Op)} {tau : ℚ}
    (hctl : a.ctl = .wait (.restart tau) sc q) (hph : a.ph = .dead)
    (hg : ∀ x ∈ sc, 0 ≤ x.1) (hp : popMin s.agenda = some (q, rest))
    (hrest : rest.Perm (a.ph.entries ++ (oldEntries a.old ++ a.noop))) :
    ∃ s', step (body auto arg cbs) (fuel + 1) s = .ok s' ∧
      KInv s' (ctlNext q.time s.eid s.events.size { a with start := q.time, timeout := tau, expire := q.time + tau } sc) ∧
      s'.now = q.time ∧ histOf s'.trace = histOf s.trace ++ [.call q.time (.restart tau)] := by
  have hc := hk.ctl
  rw [hctl] at hc
  obtain ⟨⟨hkind, hcbs, hout⟩, hproc, hpe⟩ := hc
  obtain ⟨hpk, hpc, hpo⟩ := hpe
  have htm := hk.tm
  rw [hph] at htm
  obtain ⟨hdk, od, hdo⟩ := htm
  have hdo' : ((s.events.getD a.cur default).out).isSome = true := by
    have : (s.ev a.cur).out = some od := hdo
    simp only [KState.ev] at this
    rw [this]; rfl
  have hgd : a.cur < s.events.size := KState.lt_of_kind (by rw [hdk]; simp)
  have hgs : q.ev < s.events.size := KState.lt_of_cbs hcbs
  have hgc : a.cp < s.events.size := KState.lt_of_cbs hpc
  have hwf := openEvent_wf s q rest hk.wf hp
  have hc0 := hk.c0; have hc1 := hk.c1; have hc2 := hk.c2; have hc3 := hk.c3; have hc4 := hk.c4; have hc5 := hk.c5; have hc6 := hk.c6
  obtain ⟨nph, nold, nctl, nnoop, dph, dold, dctl⟩ := (ids_nodup_iff a).mp hk.nd
  have hlt := hk.idlt
  have hnd := hk.nd
  simp only [idsk, hctl] at hnd hlt nctl dctl dph dold
  have hne : a.cp ≠ q.ev := nctl
  have hnq : a.cur ≠ q.ev := by
    intro h
    have : (s.ev a.cur).kind = .timeout := by rw [h]; exact hkind
    rw [hdk] at this; cases this
  have hmono : ∀ S, step (body auto arg cbs) (fuel + 1) s = .ok S → TrigMono s S :=
    fun S h => step_trigMono _ _ _ _ (by rw [h]; rfl)
  revert hmono
  rw [step_eq _ _ _ _ _ _ hp hcbs]
  simp only [List.foldl, runCb]
  rw [resume_eq _ _ _ _ _ _ (show (openEvent s q rest).proc? a.cp = _ from hproc)]
  simp only [KState.ev] at hkind hcbs hout hpk hpc hpo hdk
  have hpe : EvIs s a.cp .proc [] none := ⟨hpk, hpc, hpo⟩
  cases sc with
  | nil =>
    tsimp [hgs, hgc, hgd, hkind, hcbs, hout, Nat.ne_of_lt hgs, Nat.ne_of_lt hgc, hpk, hpc, hpo, hne, Ne.symm hne, ctlNext, hc4, hdk, hdo',
      hnq, Ne.symm hnq]
    ctl_end_leaf
  | cons x sc =>
    obtain ⟨gap, op⟩ := x
    have hgap : 0 ≤ gap := (hg (gap, op) (by simp))
    tsimp [hgs, hgc, hgd, hkind, hcbs, hout, Nat.ne_of_lt hgs, Nat.ne_of_lt hgc, hpk, hpc, hpo, hne, Ne.symm hne, ctlNext, hgap, hc4, hdk,
      hdo', hnq, Ne.symm hnq]
    ctl_wait_leaf

/-- the controller's timeout fires: it calls `restart(τ)` on a timer whose process sleeps: the attributes are written,
an `Interruption` is sent to the process (URGENT), a new process is started (`Initialize`, URGENT) and becomes
`self.proc` -/
theorem kstep_ctlRestartAlive (fuel : Nat) (hk : KInv s a) {sc : List (ℚ × Op)} {tau : ℚ} {t : EvId} {qt : QEntry ℚ}
    (hctl : a.ctl = .wait (.restart tau) sc q) (hph : a.ph = .sleep t qt) (hold : a.old = none)
    (hg : ∀ x ∈ sc, 0 ≤ x.1) (hp : popMin s.agenda = some (q, rest))
    (hrest : rest.Perm (a.ph.entries ++ (oldEntries a.old ++ a.noop))) :
    ∃ s', step (body auto arg cbs) (fuel + 1) s = .ok s' ∧
      KInv s' (ctlNext q.time (s.eid + 1 + 1) (s.events.size + 1 + 1 + 1)
        { a with start := q.time, timeout := tau, expire := q.time + tau,
                 old := some ⟨s.events.size, a.cur, t, ⟨q.time, URGENT, s.eid, s.events.size⟩, qt⟩,
                 cur := s.events.size + 1, ph := .init ⟨q.time, URGENT, s.eid + 1, s.events.size + 1 + 1⟩ } sc) ∧
      s'.now = q.time ∧ histOf s'.trace = histOf s.trace ++ [.call q.time (.restart tau)] := by
  have hc := hk.ctl
  rw [hctl] at hc
  obtain ⟨⟨hkind, hcbs, hout⟩, hproc, hpe⟩ := hc
  obtain ⟨hpk, hpc, hpo⟩ := hpe
  have htm := hk.tm
  rw [hph] at htm
  obtain ⟨hqe, hte, hcproc, hce⟩ := htm
  obtain ⟨hck, hcc, hco⟩ := hce
  have hgs : q.ev < s.events.size := KState.lt_of_cbs hcbs
  have hgc : a.cp < s.events.size := KState.lt_of_cbs hpc
  have hgd : a.cur < s.events.size := KState.lt_of_cbs hcc
  have hgt : t < s.events.size := hte.lt
  have hwf := openEvent_wf s q rest hk.wf hp
  have hc0 := hk.c0; have hc1 := hk.c1; have hc2 := hk.c2; have hc3 := hk.c3; have hc4 := hk.c4; have hc5 := hk.c5; have hc6 := hk.c6
  obtain ⟨nph, nold, nctl, nnoop, dph, dold, dctl⟩ := (ids_nodup_iff a).mp hk.nd
  have hlt := hk.idlt
  have hnd := hk.nd
  simp only [idsk, hctl, hph, hold] at hnd hlt nctl dctl dph nph
  have hne : a.cp ≠ q.ev := nctl
  have hnq : a.cur ≠ q.ev := by grind
  have hncp : a.cur ≠ a.cp := by grind
  have hact : ∀ x : EvId, (some a.cp = some x) = (a.cp = x) := fun x => by simp
  simp only [hph, hold, TPhase.entries, oldEntries, List.nil_append, List.singleton_append] at hrest
  rw [step_eq _ _ _ _ _ _ hp hcbs]
  simp only [List.foldl, runCb]
  rw [resume_eq _ _ _ _ _ _ (show (openEvent s q rest).proc? a.cp = _ from hproc)]
  simp only [KState.ev] at hkind hcbs hout hpk hpc hpo hck hcc hco
  have hpe : EvIs s a.cp .proc [] none := ⟨hpk, hpc, hpo⟩
  have hce : EvIs s a.cur .proc [] none := ⟨hck, hcc, hco⟩
  have hF := ne_fresh hgs; have hFc := ne_fresh hgc; have hFd := ne_fresh hgd; have hFt := ne_fresh hgt
  cases sc with
  | nil =>
    tsimp [hgs, hgc, hgd, hkind, hcbs, hout, Nat.ne_of_lt hgs, Nat.ne_of_lt hgc, Nat.ne_of_lt hgd, hpk, hpc, hpo, hne, Ne.symm hne, ctlNext,
      hc4, hc6, hold, oldStat, hck, hco, hnq, Ne.symm hnq, hncp, Ne.symm hncp, hact, hF, hFc, hFd, hFt]
    refine ⟨⟨?_, ?_, ?_, ?_, ?_, ?_, ?_, ?_, ?_, ?_, ?_, ?_, ?_, ?_⟩, ?_⟩
    · exact wf_push3 hwf.1 _ _ _ rfl rfl rfl rfl rfl rfl (le_refl _) (le_refl _) (le_refl _)
    · simp only [A.entries, TPhase.entries, oldEntries, Old.entries, CPhase.entries, List.nil_append]
      perm_count hrest
    · refine ⟨rfl, ?_, ?_, ?_⟩
      · tsimp [EvIs, hF, hFc, hFd, hFt]
      · tsimp [hF, hFc, hFd, hFt]
      · tsimp [EvIs, hF, hFc, hFd, hFt]
    · intro o ho
      simp only [Option.some.injEq] at ho
      subst ho
      refine ⟨rfl, ?_, ?_, hqe, ?_, ?_, ?_⟩
      · tsimp [EvIs, intrExc, hF, hFc, hFd, hFt]
      · tsimp [hF, hFc, hFd, hFt]
      · exact hte.keep (X := [q.ev, a.cp]) (by evkeep) (by grind)
      · have hne2 : a.cur ≠ s.events.size + 1 := Nat.ne_of_lt (Nat.lt_add_right 1 hgd)
        have hcproc' : plookup s.procs a.cur = _ := hcproc
        tsimp [hncp, hFd, hcproc']
      · exact hce.keep (X := [q.ev, a.cp]) (by evkeep) (by grind)
    · trivial
    · intro x hx
      simp only [List.mem_append, List.mem_singleton] at hx
      rcases hx with hx | rfl
      · refine (hk.noop x hx).keep (X := [q.ev, a.cp]) (by evkeep) ?_
        have hm := mem_evs_of hx
        grind
      · tsimp [NoopEv, hgc, hF, hFc, hFd, hFt]
    · simp only [idsk]
      grind
    · tsimp [hc0]
    · tsimp [hc1]
    · tsimp [hc2]
    · tsimp [hc3]
    · tsimp [hc4]
    · tsimp [hc5]
    · tsimp [hc6, oldStat, hold]
    · simp [histOf_push]
  | cons x sc =>
    obtain ⟨gap, op⟩ := x
    have hgap : 0 ≤ gap := (hg (gap, op) (by simp))
    tsimp [hgs, hgc, hgd, hkind, hcbs, hout, Nat.ne_of_lt hgs, Nat.ne_of_lt hgc, Nat.ne_of_lt hgd, hpk, hpc, hpo, hne, Ne.symm hne, ctlNext,
      hc4, hc6, hold, oldStat, hck, hco, hnq, Ne.symm hnq, hncp, Ne.symm hncp, hact, hF, hFc, hFd, hFt, hgap]
    refine ⟨⟨?_, ?_, ?_, ?_, ?_, ?_, ?_, ?_, ?_, ?_, ?_, ?_, ?_, ?_⟩, ?_⟩
    · exact wf_push3 hwf.1 _ _ _ rfl rfl rfl rfl rfl rfl (by show q.time ≤ q.time + gap; linarith) (le_refl _) (le_refl _)
    · simp only [A.entries, TPhase.entries, oldEntries, Old.entries, CPhase.entries, List.nil_append]
      perm_count hrest
    · refine ⟨rfl, ?_, ?_, ?_⟩
      · tsimp [EvIs, hF, hFc, hFd, hFt]
      · tsimp [hF, hFc, hFd, hFt]
      · tsimp [EvIs, hF, hFc, hFd, hFt]
    · intro o ho
      simp only [Option.some.injEq] at ho
      subst ho
      refine ⟨rfl, ?_, ?_, hqe, ?_, ?_, ?_⟩
      · tsimp [EvIs, intrExc, hF, hFc, hFd, hFt]
      · tsimp [hF, hFc, hFd, hFt]
      · exact hte.keep (X := [q.ev]) (by evkeep) (by grind)
      · have hne2 : a.cur ≠ s.events.size + 1 := Nat.ne_of_lt (Nat.lt_add_right 1 hgd)
        have hcproc' : plookup s.procs a.cur = _ := hcproc
        tsimp [hncp, hFd, hcproc']
      · exact hce.keep (X := [q.ev]) (by evkeep) (by grind)
    · refine ⟨?_, ?_, ?_⟩
      · tsimp [EvIs, hF, hFc, hFd, hFt]
      · tsimp [hF, hFc, hFd, hFt]
      · exact hpe.keep (X := [q.ev]) (by evkeep) (by simp [hne])
    · intro x hx
      refine (hk.noop x hx).keep (X := [q.ev]) (by evkeep) ?_
      have hm := mem_evs_of hx
      grind
    · simp only [idsk]
      grind
    · tsimp [hc0]
    · tsimp [hc1]
    · tsimp [hc2]
    · tsimp [hc3]
    · tsimp [hc4]
    · tsimp [hc5]
    · tsimp [hc6, oldStat, hold]
    · simp [histOf_push]

end TimerK
