import OnlVerif.Lemmas.SndKStepPut
/-!
# The TCP sender on the kernel model: kernel steps of the network script (start, end of a burst, its process event)
-/

set_option linter.unusedSimpArgs false

namespace SndK
open SenderOnK TcpSender

/-- the configuration in which a burst of the script starts -/
def aScrRun (a : A) (q : QEntry ℚ) : A := { aTick a q.time with scr := .running, cur := some q.ev }

/-- the popped event resumes the script: the state and configuration at the start of its burst -/
theorem scr_start {s : KS} {a : A} {q : QEntry ℚ} {rest : List (QEntry ℚ)} {k0 : Kind} (hk : KI none s a)
    (hp : popMin s.agenda = some (q, rest)) (hent : a.scr.entries = [q])
    (hev : EvIs s q.ev k0 [.resume 2] okNone) (ow : Owned s q.ev 2) (hpe : EvIs s 2 .proc [] none) (arg : Resume) :
    KI (some 2) (startSt s q rest 2 arg) (aScrRun a q) := by
  have pt : ProcTag s 2 0 := hk.k.pt2
  have fr := startSt_frame s q rest 2 arg
  obtain ⟨k1, _, k3, k4⟩ := hk.k.keepO fr ow pt
  refine ⟨?_, ?_⟩
  · refine hk.k.start hp hev.lt hev.2.2 ?_ rfl rfl rfl rfl rfl rfl rfl rfl (k1 (by omega) (by simp)) ?_
      (fun u hu => (hk.k.pend u hu).avoidO ow) (fun seq hs => k4 seq hs (by omega) (by simp))
    · simp only [Kern.entries, kernOf, aScrRun, aTick]
      rw [hent]
      simp only [SPhase.entries]
      perm_lists
    · exact hpe.keep fr (by simpa using ne_of_cbs hpe.2.1 hev.2.1 (by simp))
  · cells_same hk.c

/-- a burst of the script ends with `yield env.timeout(gap)` -/
theorem scr_sleep_end {s : KS} {a : A} {e : EvId} {gap now : ℚ} {x : Ack} {r : Script} (h : KI (some 2) s a)
    (hph : a.scr = .running) (hcur : a.cur = some e) (hd : 0 ≤ gap) (hw : now = s.now) :
    KI none (sleepSt s 2 gap (.scr (now + gap) (some x) r))
      { a with scr := .wait x r ⟨s.now + gap, NORMAL, s.eid, s.events.size⟩, cur := none } ∧
    ∃ v, ((sleepSt s 2 gap (.scr (now + gap) (some x) r)).ev e).out = some (.ok v) := by
  subst hw
  have pt : ProcTag s 2 0 := h.k.pt2
  have fr := sleepSt_frame s 2 gap (.scr (s.now + gap) (some x) r)
  obtain ⟨k1, _, _, k4⟩ := h.k.keepN fr pt
  have hpe : EvIs s 2 .proc [] none := by
    have := h.k.scr
    simp only [kernOf, hph, ScrEv] at this
    exact this
  obtain ⟨c1, _, v, c3⟩ := h.k.cur_out (κ := kernOf a) hcur
  refine ⟨⟨?_, ?_⟩, v, ?_⟩
  · refine h.k.sleep hd pt rfl ?_ rfl rfl rfl rfl rfl rfl rfl rfl (k1 (by omega)) ?_ (fun seq hs => k4 seq hs (by omega))
    · simp only [Kern.entries, kernOf, hph, SPhase.entries]
      perm_lists
    · have hn := sleepSt_new s 2 gap (.scr (s.now + gap) (some x) r)
      exact ⟨hn.1, hn.2, hpe.keep fr (by simp)⟩
  · cells_same h.c
  · rw [fr.ev e c1 (by simp)]; exact c3

/-- a burst of the script ends with `return` -/
theorem scr_ret_end {s : KS} {a : A} {e : EvId} {pr : ProcRec St} (h : KI (some 2) s a)
    (hph : a.scr = .running) (hcur : a.cur = some e) (htag : tagOf pr.st = 0) :
    KI none (finishSt s 2 pr .none) { a with scr := .ending ⟨s.now + Num.zero, NORMAL, s.eid, 2⟩, cur := none } ∧
    ∃ v, ((finishSt s 2 pr .none).ev e).out = some (.ok v) := by
  have pt : ProcTag s 2 0 := h.k.pt2
  have pt0 : ProcTag s 0 1 := h.k.pt0
  have fr := finishSt_frame s 2 pr .none
  obtain ⟨k1, _, _, k4⟩ := h.k.keepP fr pt
  have hpe : EvIs s 2 .proc [] none := by
    have := h.k.scr
    simp only [kernOf, hph, ScrEv] at this
    exact this
  obtain ⟨c1, c2, v, c3⟩ := h.k.cur_out (κ := kernOf a) hcur
  have hne : e ≠ 2 := ne_of_cbs c2 hpe.2.1 (by simp)
  refine ⟨⟨?_, ?_⟩, v, ?_⟩
  · refine h.k.finish pt htag ?_ rfl rfl rfl rfl rfl rfl rfl rfl
      (k1 (by omega) (by simp)) ?_
      (fun seq hs => k4 seq hs (by omega)
        (by have := ProcTag.ne (show ProcTag s (a.tmp seq) (2 + seq) from h.k.ptm seq hs) pt (by omega)
            simpa [kernOf] using this))
    · simp only [Kern.entries, kernOf, hph, SPhase.entries]
      perm_lists
    · exact ⟨rfl, (finishSt_new s 2 pr .none hpe).1⟩
  · cells_same h.c
  · rw [fr.ev e c1 (by simpa using hne)]; exact c3

/-- the script loop at the end of a burst: it sleeps until the next delivery, or returns -/
theorem scr_loop_end (body : St → Resume → Burst ℚ St) (fuel : Nat) {pr : ProcRec St} {s : KS} {a : A} {e : EvId} {r : Script}
    (h : KI (some 2) s a) (hph : a.scr = .running) (hcur : a.cur = some e) (htag : tagOf pr.st = 0)
    (hok : ScriptOK s.now r) :
    ∃ S ph', TimerK.afterBurst body 2 fuel pr (runBurst 2 (scrLoop s.now r) s) = S ∧
      KI none S { a with scr := ph', cur := none } ∧ (∃ v, (S.ev e).out = some (.ok v)) ∧
      ((r = [] ∧ ph' = .ending ⟨s.now + Num.zero, NORMAL, s.eid, 2⟩) ∨
       (∃ gap x r', r = (gap, x) :: r' ∧ ph' = .wait x r' ⟨s.now + gap, NORMAL, s.eid, s.events.size⟩)) := by
  cases r with
  | nil =>
    obtain ⟨g1, g2⟩ := scr_ret_end (pr := pr) h hph hcur htag
    exact ⟨_, _, afterBurst_ret body 2 fuel pr s _, g1, g2, Or.inl ⟨rfl, rfl⟩⟩
  | cons y r' =>
    obtain ⟨gap, x⟩ := y
    obtain ⟨o1, _, _, _⟩ := hok
    obtain ⟨g1, g2⟩ := scr_sleep_end (x := x) (r := r') (now := s.now) h hph hcur o1 rfl
    exact ⟨_, _, afterBurst_sleep body 2 fuel pr s gap o1 _, g1, g2, Or.inr ⟨gap, x, r', rfl, rfl⟩⟩

/-- the invariants when the phase of the script changes -/
theorem AInv.set_scr {cfg : Cfg} {a : A} (hi : AInv cfg a) (ph' : SPhase) (hnew : ScrA { a with scr := ph' } ph') :
    AInv cfg { a with scr := ph' } :=
  ⟨hi.inv, hi.kind, hi.mss, hi.size, hi.mpos, hi.spos, hi.dvd, hi.tks, hi.nmul, hi.bufle, hi.tkeys, hi.cur,
    hi.run.congr rfl rfl rfl rfl rfl, hnew, hi.pend, fun seq hs => (hi.tm seq hs).congr rfl rfl rfl rfl, hi.putAt⟩

/-- what the script does after a delivery (or at its start): the phase it ends the burst in satisfies `ScrA` -/
theorem scrA_next {a : A} {now : ℚ} {eid : Nat} {e : EvId} {r : Script} {ph' : SPhase} (hok : ScriptOK now r)
    (h : (r = [] ∧ ph' = .ending ⟨now + Num.zero, NORMAL, eid, 2⟩) ∨
       (∃ gap x r', r = (gap, x) :: r' ∧ ph' = .wait x r' ⟨now + gap, NORMAL, eid, e⟩)) : ScrA a ph' := by
  rcases h with ⟨_, rfl⟩ | ⟨gap, x, r', rfl, rfl⟩
  · exact rfl
  · obtain ⟨_, o2, o3, o4⟩ := hok
    exact ⟨rfl, o2, o3, o4⟩

/-- the `Initialize` event of the script: it sleeps until the first delivery (or returns, if there is none) -/
theorem kstep_scrInit {cfg : Cfg} (fuel : Nat) {s : KS} {a : A} {q : QEntry ℚ} {rest : List (QEntry ℚ)} {r : Script}
    (hk : KI none s a) (hiT : AInv cfg (aTick a q.time)) (hp : popMin s.agenda = some (q, rest))
    (hph : a.scr = .init q r) : StepGoal cfg fuel s (aTick a q.time).S a.txs := by
  have hsc := hk.k.scr
  simp only [kernOf, hph, ScrEv] at hsc
  obtain ⟨hqe, hev, hpr, hpe⟩ := hsc
  have hev' : EvIs s q.ev (.init 2) [.resume 2] okNone := hqe ▸ hev
  have ow : Owned s q.ev 2 := Or.inl hev'.1
  have harg : argOf s 2 q.ev .none = .start := by unfold argOf; rw [hev'.1]; simp
  have h1 := scr_start hk hp (by rw [hph]; rfl) hev' ow hpe .start
  have hstep := step_resume (body cfg) fuel hp hev'.2.1 hev'.2.2 hpr
  rw [harg] at hstep
  have hsT : ScrA (aTick a q.time) (.init q r) := by
    have := hiT.scr; rwa [show (aTick a q.time).scr = a.scr from rfl, hph] at this
  have hok : ScriptOK q.time r := by
    have := hsT.2.2
    rwa [show (aTick a q.time).S.now = q.time from rfl] at this
  obtain ⟨S, ph', e1, e2, ⟨v, e3⟩, e4⟩ := scr_loop_end (body cfg) fuel (a := aScrRun a q)
    (pr := { st := .scr q.time none r, target := some 3 }) (e := q.ev) (r := r) h1 rfl rfl rfl hok
  have hS : step (body cfg) (fuel + 1) s = .ok S := by
    have e1' : TimerK.afterBurst (body cfg) 2 fuel { st := .scr q.time none r, target := some 3 }
        (runBurst 2 (body cfg (.scr q.time none r) .start) (startSt s q rest 2 .start)) = S := e1
    rw [hstep, e1']
    exact closeEvent_ok e3
  have hcur : a.cur = none := hiT.cur
  refine ⟨S, { aTick a q.time with scr := ph' }, [], [], hS, ?_, ?_, rfl, by simp [aTick], fun x hx => by cases hx⟩
  · refine e2.congr ?_
    simp only [aScrRun, aTick, hcur]
  · exact hiT.set_scr ph' (scrA_next hok e4)

/-- the process event of the script, once it has returned -/
theorem kstep_scrEnding {cfg : Cfg} (fuel : Nat) {s : KS} {a : A} {q : QEntry ℚ} {rest : List (QEntry ℚ)}
    (hk : KI none s a) (hiT : AInv cfg (aTick a q.time)) (hp : popMin s.agenda = some (q, rest))
    (hph : a.scr = .ending q) : StepGoal cfg fuel s (aTick a q.time).S a.txs := by
  have hsc := hk.k.scr
  simp only [kernOf, hph, ScrEv] at hsc
  obtain ⟨hqe, hev⟩ := hsc
  have pt : ProcTag s 2 0 := hk.k.pt2
  have fr : Frame s (openEvent s q rest) [2] [] := hqe ▸ openEvent_frame s q rest
  obtain ⟨k1, _, _, k4⟩ := hk.k.keepP fr pt
  refine ⟨openEvent s q rest, { aTick a q.time with scr := .done }, [], [], ?_, ⟨?_, ?_⟩, ?_, rfl, by simp [aTick], fun x hx => by cases hx⟩
  · exact step_noop _ _ hp (hqe ▸ hev.2.1) (hqe ▸ hev.2.2)
  · refine hk.k.opened hp ?_ rfl hiT.cur rfl rfl rfl rfl rfl (k1 (by omega) (by simp)) trivial ?_ hk.k.pnd
      (fun seq hs => k4 seq hs (by omega) (by simp))
    · simp only [Kern.entries, kernOf, aTick]
      rw [hph]
      simp only [SPhase.entries]
      perm_lists
    · intro u hu
      exact ⟨hk.k.pend u hu, hqe ▸ ne_of_kind (hk.k.pend u hu).1 pt.1 (by simp)⟩
  · cells_same hk.c
  · exact hiT.set_scr .done trivial

end SndK
