import OnlVerif.Lemmas.DRRKLts
/-!
# The DRR scheduler on the kernel model: every reachable kernel state is the image of an admissible run of the LTS, and
the abstraction function `absDRR` reads the configuration's LTS state off the kernel state
-/

set_option linter.unusedSimpArgs false

namespace DRRK
open DRROnK QEntry MQ
open TimerK (lookup plookup proc?_eq dec_enc)

variable {F : Nat} {flow size : Int → Nat} {cfg : DRR.Cfg ℚ} {Lmax P : Nat}
variable {s : KS} {a : A} {q : QEntry ℚ} {rest : List (QEntry ℚ)}

/-- the kernel state `s` is the sound configuration `a`, whose dict keys, `packets_received` and ghosts are those of the
history -/
structure Inv2 (F : Nat) (flow size : Int → Nat) (cfg : DRR.Cfg ℚ) (Lmax P : Nat) (s : KS) (a : A) : Prop where
  i : Inv F flow size cfg Lmax P s a
  l : LInv flow a (histOf s.trace)
  h : HOK F flow (histOf s.trace)

/-- **one kernel step**: it is `.ok`, keeps the invariant, and is a sequence of actions the LTS accepts from `toM a` to
`toM a'` in which the packets `put` / sent out are those the kernel step reports -/
theorem inv_step_lts (fuel : Nat) (h : Inv2 F flow size cfg Lmax P s a) (hp : popMin s.agenda = some (q, rest)) :
    ∃ s' a' new, step (prog F flow size cfg P) (fuel + 1) s = .ok s' ∧ Inv2 F flow size cfg Lmax P s' a' ∧ a'.mu F + 1 ≤ a.mu F ∧
      AStep F flow size cfg P s.events.size s.eid a q a' new ∧ s'.now = q.time ∧
      histOf s'.trace = histOf s.trace ++ new ∧
      ∃ acts0 acts, acts0.length ≤ 1 ∧ acts.length ≤ 1 ∧ (∀ x ∈ acts0 ++ acts, DRR.ActOk (Lmax : ℚ) x) ∧
        runActs (DRR.sched cfg) (toM cfg.flows flow size a (histOf s.trace) s.now) acts0 =
          .ok (toM cfg.flows flow size a (histOf s.trace) s'.now, [], []) ∧
        runActs (DRR.sched cfg) (toM cfg.flows flow size a (histOf s.trace) s'.now) acts =
          .ok (toM cfg.flows flow size a' (histOf s'.trace) s'.now, putPk flow size new, outPk flow size new) ∧
        runActs (DRR.sched cfg) (toM cfg.flows flow size a (histOf s.trace) s.now) (acts0 ++ acts) =
          .ok (toM cfg.flows flow size a' (histOf s'.trace) s'.now, putPk flow size new, outPk flow size new) := by
  obtain ⟨s', a', new, h1, h2, h3, h4, h5, h6⟩ := inv_step fuel h.i hp
  have hmin := (isMin_of_pop h.i.k hp).1
  obtain ⟨acts0, hlen0, ha0, h0⟩ := lts_advance (size := size) (hist := histOf s.trace) h.i.a hmin
  obtain ⟨⟨acts, hlen, ha, h7⟩, hl'⟩ := lts_step (h.i.a.advance hmin) hmin h.l h4
  have hh' := hok_step (h.i.a.advance hmin) h.h h4
  refine ⟨s', a', new, h1, ⟨h2, by rw [h6]; exact hl', by rw [h6]; exact hh'⟩, h3, h4, h5, h6, acts0, acts, hlen0, hlen, ?_, ?_, ?_, ?_⟩
  · intro x hx
    rcases List.mem_append.mp hx with hx | hx
    · exact ha0 x hx
    · exact ha x hx
  · rw [h5]; exact h0
  · rw [h5, h6]; exact h7
  · rw [h5, h6]
    have := runActs_append _ _ _ _ _ _ _ _ _ _ h0 h7
    simpa using this

theorem toM_a0 (arrivals : List (ℚ × Int)) :
    toM cfg.flows flow size (a0 arrivals) [] 0 = DRR.start cfg 0 := by
  simp only [toM, mst, ctlOf, a0, pcOf, phaseOf, DRR.start, MQ.init, DRR.ctl0, DRR.counts0, dictOf, DRR.Cfg.flows, List.map_map,
    visitsOf, sentOf, forfKeys, parkKeys, keysOf, List.foldl_nil, List.map_nil]
  rfl

theorem initState_now (arrivals : List (ℚ × Int)) : (initState F cfg arrivals : KS).now = 0 := by
  simp [initState, doCall_spawn, zero_eq']

theorem initState_trace (arrivals : List (ℚ × Int)) : (initState F cfg arrivals : KS).trace = #[] := by
  simp [initState, doCall_spawn]

theorem histOf_empty : histOf (#[] : Array (Obs ℚ)) = [] := rfl

/-- **every state reachable by kernel steps is a sound configuration, and the run so far is an admissible run of the LTS**
(packets of at most `Lmax` bytes) from the state of a fresh `DRR` to the configuration's LTS state, in which the packets that
entered are those handed to `put` and the packets that left are those handed to `out.put`, in the order of the trace -/
theorem reach_lts (fuel : Nat) {arrivals : List (ℚ × Int)} (hw : WorkOK flow F size Lmax arrivals) (ht : FlowsOK F cfg)
    (hr : 0 < cfg.rate) (hP : ∃ k, P = k + 1 ∧ Lmax ≤ 1500 * k) {s : KS}
    (h : KReach (prog F flow size cfg P) (fuel + 1) (initState F cfg arrivals) s) :
    ∃ a acts, Inv2 F flow size cfg Lmax P s a ∧ (∀ x ∈ acts, DRR.ActOk (Lmax : ℚ) x) ∧
      runActs (DRR.sched cfg) (DRR.start cfg 0) acts =
        .ok (toM cfg.flows flow size a (histOf s.trace) s.now, putPk flow size (histOf s.trace), outPk flow size (histOf s.trace)) := by
  induction h with
  | init =>
    refine ⟨a0 arrivals, [], ⟨inv_init arrivals hw ht hr hP, ?_, ?_⟩, (by intro x hx; cases hx), ?_⟩
    · rw [initState_trace, histOf_empty]
      exact ⟨rfl, rfl, fun c hc => absurd rfl hc, fun _ _ => rfl⟩
    · rw [initState_trace, histOf_empty]; exact evsOK_nil
    · rw [initState_now, initState_trace, histOf_empty, toM_a0]; rfl
  | @step s s' _ hs ih =>
    obtain ⟨a, acts, hi, hact, hrun⟩ := ih
    cases hp : popMin s.agenda with
    | none => simp [_root_.step, hp, StepResult.state?] at hs
    | some qr =>
      obtain ⟨q, rest⟩ := qr
      obtain ⟨s'', a', new, h1, h2, -, -, -, h6, acts0, acts1, -, -, hact', -, -, h7⟩ := inv_step_lts fuel hi hp
      rw [h1] at hs
      simp only [StepResult.state?, Option.some.injEq] at hs
      subst hs
      refine ⟨a', acts ++ (acts0 ++ acts1), h2, ?_, ?_⟩
      · intro x hx
        rcases List.mem_append.mp hx with hx | hx
        · exact hact x hx
        · exact hact' x hx
      · have := runActs_append _ _ _ _ _ _ _ _ _ _ hrun h7
        rw [this, h6, putPk_append, outPk_append]

/-! ## the abstraction function -/

theorem cellVal_eq (k : Nat) : cellVal s k = TimerK.lookup s.shared k := rfl

/-- an agenda entry is identified by its event -/
theorem entry_of_ev {Q : Nat → ℚ} (hk : KInv flow F Q s a) {q0 : QEntry ℚ} (hq0 : a.run.entries = [q0]) (hev : q0.ev ∈ a.run.ids) :
    ∀ x ∈ s.agenda, x.ev = q0.ev → x = q0 := by
  intro x hx hxe
  have hx' : x ∈ a.entries := hk.ag.subset hx
  obtain ⟨nrun, nsrc, npend, drun, dsrc⟩ := (ids_nodup_iff a).mp hk.nd
  simp only [A.entries, List.mem_append, hq0, List.mem_singleton] at hx'
  rcases hx' with h | h | h
  · exact h
  · exfalso
    have hs := hk.src
    have : x.ev ∈ a.src.ids := by
      cases hsrc : a.src with
      | init q1 arr => rw [hsrc] at hs h; simp only [SPhase.entries, List.mem_singleton] at h; subst h; simp [drrids, hs.1]
      | wait id r q1 => rw [hsrc] at h; simp only [SPhase.entries, List.mem_singleton] at h; subst h; simp [drrids]
      | ending q1 => rw [hsrc] at hs h; simp only [SPhase.entries, List.mem_singleton] at h; subst h; simp [drrids, hs.1]
      | done => rw [hsrc] at h; simp [SPhase.entries] at h
    exact (drun _ hev).1 (hxe ▸ this)
  · exfalso
    simp only [pendEntries, List.mem_map] at h
    obtain ⟨u, hu, rfl⟩ := h
    exact (drun _ hev).2 (hxe ▸ mem_pendIds_of hu)

/-- **the abstraction function reads the configuration's LTS state off the kernel state** -/
theorem absDRR_eq (h : Inv2 F flow size cfg Lmax P s a) :
    absDRR cfg flow size s = toM cfg.flows flow size a (histOf s.trace) s.now := by
  have hk := h.i.k
  have hi := h.i.a
  have ht := hi.table
  have hkeys : keysOf flow (putIds (histOf s.trace)) = a.keys := h.l.keys.symm
  have hlt := hi.keysOK.1
  have hfl : ∀ c ∈ cfg.flows, c < F := fun c hc => (mem_flows ht c).mp hc
  have hpl := hok_parkKeys h.h
  have hfkl := hok_forfKeys h.h
  have hph : absPhase flow size s = (phaseOf flow size a.run, pcOf a.run) := by
    have hr := hk.run
    unfold absPhase
    cases hrun : a.run with
    | init q0 =>
      rw [hrun] at hr
      simp [runProc, hr.2.2.1, phaseOf, pcOf]
    | W g =>
      rw [hrun] at hr
      simp [runProc, hr.2.1, hr.1.2.2, phaseOf, pcOf]
    | K g q0 =>
      rw [hrun] at hr
      simp [runProc, hr.2.2.1, hr.2.1.2.2, phaseOf, pcOf]
    | H g m id q0 =>
      rw [hrun] at hr
      simp [runProc, hr.2.2.1, hr.2.1.2.2, phaseOf, pcOf]
    | S p m id q0 =>
      rw [hrun] at hr
      simp [runProc, hr.2.2.2.2.1, hr.2.2.2.1.2.2, hr.2.2.1, phaseOf, pcOf]
    | F p m id q0 =>
      rw [hrun] at hr
      simp [runProc, hr.2.2.1, hr.2.1.2.2, phaseOf, pcOf]
    | T p t m id q0 =>
      rw [hrun] at hr
      have hdue : dueOf s t = q0.time := by
        unfold dueOf
        have hmem : q0 ∈ s.agenda := hk.ag.symm.subset (mem_run (by simp [hrun, RPhase.entries]))
        have huniq := entry_of_ev hk (q0 := q0) (by simp [hrun, RPhase.entries]) (by simp [hrun, drrids, hr.1])
        cases hf : s.agenda.find? (·.ev == t) with
        | none =>
          have := List.find?_eq_none.mp hf q0 hmem
          simp [hr.1] at this
        | some x =>
          have h1 := List.mem_of_find?_eq_some hf
          have h2 := List.find?_some hf
          simp only [beq_iff_eq] at h2
          rw [huniq x h1 (by rw [h2, hr.1])]
          rfl
      simp [runProc, hr.2.2.2.2.1, hr.2.2.2.1.2.2, hr.2.2.1, hdue, phaseOf, pcOf]
  unfold absDRR toM mst ctlOf
  simp only [hkeys, hph, dictOf]
  congr 1
  · congr 1
    · apply List.map_congr_left
      intro c hc
      have := hk.cells.cd c (hfl c hc)
      simp only [cellTime, cellVal_eq, this, dec_enc, Option.getD_some]
    · apply List.map_congr_left
      intro c hc
      simp only [cellInt, cellVal_eq, hk.cells.cq c (hfl c hc)]
    · apply List.map_congr_left
      intro c hc
      have := hk.cells.cf c (hfkl c hc)
      simp only [cellTime, cellVal_eq, this, dec_enc, Option.getD_some]
  · apply List.map_congr_left
    intro f hf
    have := hk.st f (hlt f hf)
    rw [this]; rfl
  · apply List.map_congr_left
    intro c hc
    have := hk.cells.ch c (hpl c hc)
    simp only [holOf, cellVal_eq, this]
    cases a.hol c <;> rfl
  · apply List.map_congr_left
    intro c hc
    simp only [cellInt, cellVal_eq, hk.cells.cc c (hfl c hc)]
  · apply List.map_congr_left
    intro f hf
    simp only [cellInt, cellVal_eq, hk.cells.cb f (hlt f hf)]
  · show (s.res 0).items.length = a.tokens
    rw [hk.tok]; simp [storeRec]
  · rw [cellVal_eq, hk.cells.c1]
    cases a.cur <;> rfl
  · simp only [cellInt, cellVal_eq, hk.cells.c0]

end DRRK
