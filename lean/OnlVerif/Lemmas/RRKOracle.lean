import OnlVerif.Lemmas.RRKRefine
import Mathlib.Data.List.Nodup
/-!
# The RR scheduler on the kernel model: the put / serve / out history of every run passes the property's oracle

`OInv` relates the state of the oracle (`RROnK.ostep`) after the history so far to the configuration: its waiting queues are
the per-flow stores (plus the packet `run` has taken and not yet printed), its packet in transmission is the sender's, and
what the next `serve` / `out` observation must satisfy is already determined by the phase of `run`.
-/

set_option linter.unusedSimpArgs false

namespace RRK
open RROnK QEntry

variable (F : Nat) (flow size : Int → Nat) (cfg : RR.Cfg ℚ)

/-- the packet `run` has taken from `stores[f]` whose `serve` observation is still to come -/
def heldH (a : A) (f : Nat) : List Int :=
  match a.run with
  | .H _ _ id _ => if flow id = f then [id] else []
  | _ => []

/-- the arrivals the source has still to make -/
def srcFuture (now : ℚ) : SPhase → List (Int × ℚ)
  | .init _ arr => arrivalsFrom now arr
  | .wait id rest q => (id, q.time) :: arrivalsFrom q.time rest
  | _ => []

/-- the `put` observations of a history -/
def obsPuts : List (HEv ℚ) → List (Int × ℚ)
  | [] => []
  | .put id t :: r => (id, t) :: obsPuts r
  | _ :: r => obsPuts r

/-- what the phase of `run` says about the oracle -/
def PhO (now : ℚ) (o : OSt ℚ) : RPhase → Prop
  | .init _ => o.busy = none ∧ ∀ f, f < F → ∀ x ∈ o.waiting f, x.2 = now
  | .W _ => o.busy = none ∧ ∀ f, f < F → ∀ x ∈ o.waiting f, x.2 = now
  | .K _ _ => o.busy = none ∧ ∀ f, f < F → ∀ x ∈ o.waiting f, x.2 = now
  | .H _ i _ _ => o.busy = none ∧ (o.lastOut = some now ∨ ∀ f, f < F → ∀ x ∈ o.waiting f, x.2 = now) ∧
      ∀ j' ∈ skipped cfg.flows.length o.cursor i, ∀ x ∈ o.waiting (cfg.flows.getD j' 0), x.2 = now
  | .S _ i id _ => o.busy = some (id, now) ∧ o.cursor = i + 1
  | .T _ _ i id q => ∃ s0, o.busy = some (id, s0) ∧ q.time = s0 + txTime size cfg.rate id ∧ o.cursor = i + 1
  | .F _ i _ _ => o.busy = none ∧ o.lastOut = some now ∧ o.cursor = i + 1

/-- the oracle has accepted the history and is in the state the configuration stands for -/
structure OInv (arrivals : List (ℚ × Int)) (a : A) (now : ℚ) (hist : List (HEv ℚ)) (o : OSt ℚ) : Prop where
  run : orun F flow size cfg oInit hist = some o
  wq : ∀ f, f < F → (o.waiting f).map (·.1) = heldH flow a f ++ a.items f
  wt : ∀ f, f < F → ∀ x ∈ o.waiting f, x.2 ≤ now
  ph : PhO F size cfg now o a.run
  fut : obsPuts hist ++ srcFuture now a.src = arrivalsFrom 0 arrivals

variable {F flow size cfg}

theorem orun_append (o : OSt ℚ) (l1 l2 : List (HEv ℚ)) :
    orun F flow size cfg o (l1 ++ l2) = (orun F flow size cfg o l1).bind fun o' => orun F flow size cfg o' l2 := by
  induction l1 generalizing o with
  | nil => rfl
  | cons x r ih =>
    simp only [List.cons_append, orun]
    cases ostep F flow size cfg o x with
    | none => rfl
    | some o' => simp [ih]

theorem obsPuts_append (l1 l2 : List (HEv ℚ)) : obsPuts (l1 ++ l2) = obsPuts l1 ++ obsPuts l2 := by
  induction l1 with
  | nil => rfl
  | cons x r ih => cases x <;> simp [obsPuts, ih]

theorem eqT_iff (x y : ℚ) : eqT x y ↔ x = y := by
  unfold eqT
  constructor
  · intro h; exact le_antisymm (not_lt.mp h.2) (not_lt.mp h.1)
  · rintro rfl; exact ⟨lt_irrefl _, lt_irrefl _⟩

theorem srcFuture_srcNext (t : ℚ) (eid ev : Nat) (arr : List (ℚ × Int)) (now : ℚ) :
    srcFuture now (srcNext t eid ev arr) = arrivalsFrom t arr := by
  cases arr with
  | nil => rfl
  | cons x r => obtain ⟨gap, id⟩ := x; rfl

variable {arrivals : List (ℚ × Int)} {a : A} {now : ℚ} {q : QEntry ℚ} {hist : List (HEv ℚ)} {o : OSt ℚ}

/-- a waiting queue whose ids are `[]` is empty -/
theorem waiting_nil (ho : OInv F flow size cfg arrivals a now hist o) {f : Nat} (hf : f < F) (hh : heldH flow a f = [])
    (hi : a.items f = []) : o.waiting f = [] := by
  have := ho.wq f hf
  rw [hh, hi] at this
  exact List.map_eq_nil_iff.mp this

/-- **letting the clock advance to the next entry changes nothing** -/
theorem OInv.advance (hi : AInv flow F cfg a now) (hq : IsMin a q) (ho : OInv F flow size cfg arrivals a now hist o) :
    OInv F flow size cfg arrivals a q.time hist o := by
  rcases eq_or_lt_of_le (hi.now_le hq) with h | h
  · rw [← h]; exact ho
  have hne : ∀ x ∈ a.entries, x.time ≠ now := fun x hx hxt => absurd (hi.time_eq hq hx hxt) (ne_of_gt h)
  have hp := hi.run
  have hph := ho.ph
  refine ⟨ho.run, ho.wq, fun f hf x hx => le_trans (ho.wt f hf x hx) (le_of_lt h), ?_, ?_⟩
  · cases hr : a.run with
    | init q0 => rw [hr] at hp; exact absurd hp.1 (hne q0 (mem_run (by simp [hr, RPhase.entries])))
    | K g q0 => rw [hr] at hp; exact absurd hp.1 (hne q0 (mem_run (by simp [hr, RPhase.entries])))
    | H g i id q0 => rw [hr] at hp; exact absurd hp.1 (hne q0 (mem_run (by simp [hr, RPhase.entries])))
    | S p i id q0 => rw [hr] at hp; exact absurd hp.1 (hne q0 (mem_run (by simp [hr, RPhase.entries])))
    | F p i id q0 => rw [hr] at hp; exact absurd hp.1 (hne q0 (mem_run (by simp [hr, RPhase.entries])))
    | T p t i id q0 => rw [hr] at hph; exact hph
    | W g =>
      rw [hr] at hp hph
      have htk : a.tokens = 0 := by
        by_contra hc
        obtain ⟨u, hu⟩ := hp.2.1 hc
        exact hne u (mem_pend hu) (hi.pend _ hu).1
      refine ⟨hph.1, ?_⟩
      intro f hf x hx
      have := waiting_nil ho hf (by simp [heldH, hr]) (hp.1 htk f hf)
      rw [this] at hx; cases hx
  · have hs := hi.src
    cases hsrc : a.src with
    | init q0 arr => rw [hsrc] at hs; exact absurd hs.1 (hne q0 (mem_src (by simp [hsrc, SPhase.entries])))
    | wait id rest q0 => have := ho.fut; rw [hsrc] at this; exact this
    | ending q0 => have := ho.fut; rw [hsrc] at this; exact this
    | done => have := ho.fut; rw [hsrc] at this; exact this

/-! ## what a hit of the scan means -/

theorem mem_skipped_lt {n c j j' : Nat} (hj : j < n) (h : j' ∈ skipped n c j) : j' < n := by
  unfold skipped at h
  split at h
  · have := List.mem_range'_1.mp h; omega
  · rcases List.mem_append.mp h with h | h
    · have := List.mem_range'_1.mp h; omega
    · have := List.mem_range.mp h; omega

theorem getElem?_drop_sub (l : List Nat) (p j' : Nat) (h : p ≤ j') : (l.drop p)[j' - p]? = l[j']? := by
  rw [List.getElem?_drop]; congr 1; omega

/-- **the decision of `run`**: the entries the cyclic order visits from the resume entry `p` before the entry `j` it serves
are not backlogged -/
theorem loop_hit_skipped {a : A} {flows : List Nat} {p j f : Nat} (h : a.loop F flows p = .hit j f) :
    ∀ j' ∈ skipped flows.length p j, ∀ f', flows[j']? = some f' → ¬ 0 < a.cnt f' := by
  intro j' hj' f' hf'
  unfold A.loop at h
  cases h1 : firstHit a.cnt p (flows.drop p) with
  | some jf =>
    rw [h1] at h
    obtain ⟨j0, f0⟩ := jf
    simp only [LoopEnd.hit.injEq] at h
    obtain ⟨rfl, rfl⟩ := h
    obtain ⟨hle, -, -, g3⟩ := firstHit_spec _ _ _ _ _ h1
    unfold skipped at hj'
    rw [if_pos hle] at hj'
    have hr := List.mem_range'_1.mp hj'
    exact g3 (j' - p) (by omega) f' (by rw [getElem?_drop_sub _ _ _ hr.1]; exact hf')
  | none =>
    rw [h1] at h
    simp only at h
    by_cases ht : a.total F = 0
    · rw [if_pos ht] at h; cases h
    · rw [if_neg ht] at h
      cases h2 : firstHit a.cnt 0 flows with
      | none => rw [h2] at h; cases h
      | some jf =>
        rw [h2] at h
        obtain ⟨j0, f0⟩ := jf
        simp only [LoopEnd.hit.injEq] at h
        obtain ⟨rfl, rfl⟩ := h
        obtain ⟨-, g1, g2, g3⟩ := firstHit_spec _ _ _ _ _ h2
        simp only [Nat.sub_zero] at g1 g3
        have hdrop : ∀ k, p ≤ k → ∀ x, flows[k]? = some x → ¬ 0 < a.cnt x := by
          intro k hk x hx
          exact firstHit_none _ _ _ h1 x (List.mem_of_getElem? (by rw [getElem?_drop_sub _ _ _ hk]; exact hx))
        have hnle : ¬ p ≤ j0 := fun hle => hdrop j0 hle f0 g1 g2
        unfold skipped at hj'
        rw [if_neg hnle] at hj'
        rcases List.mem_append.mp hj' with hm | hm
        · exact hdrop j' (List.mem_range'_1.mp hm).1 f' hf'
        · exact g3 j' (List.mem_range.mp hm) f' hf'

/-! ## every configuration step keeps the oracle's invariant -/

theorem heldH_none {a : A} (h : ∀ g i id q0, a.run ≠ .H g i id q0) (f : Nat) : heldH flow a f = [] := by
  unfold heldH
  cases hr : a.run <;> first | rfl | exact absurd hr (h _ _ _ _)

/-- the new configuration after the server has taken the head of `stores[f]`: the oracle does not move -/
theorem oinv_hit (hi : AInv flow F cfg a q.time) (ho : OInv F flow size cfg arrivals a q.time hist o) {i f : Nat} {id : Int}
    {is : List Int} (hh : ∀ g i id q0, a.run ≠ .H g i id q0) (hbusy : o.busy = none)
    (hwc : o.lastOut = some q.time ∨ ∀ f, f < F → ∀ x ∈ o.waiting f, x.2 = q.time)
    (hsk : ∀ j' ∈ skipped cfg.flows.length o.cursor i, ∀ x ∈ o.waiting (cfg.flows.getD j' 0), x.2 = q.time)
    (hf : f < F) (hit : a.items f = id :: is) :
    OInv F flow size cfg arrivals { a with run := .H n i id ⟨q.time, NORMAL, e, n⟩, items := upd a.items f is } q.time hist o := by
  have hfl : flow id = f := hi.flowOK f hf id (by rw [hit]; simp)
  refine ⟨ho.run, ?_, ho.wt, ⟨hbusy, hwc, hsk⟩, ho.fut⟩
  intro f' hf'
  have := ho.wq f' hf'
  rw [heldH_none hh] at this
  simp only [heldH, hfl]
  by_cases hff : f = f'
  · subst hff
    simp only [if_true, upd_same]
    rw [this, hit]; rfl
  · simp only [hff, if_false, upd_ne _ _ _ _ (Ne.symm hff)]
    exact this

/-- after a transmission the skipped entries are not backlogged: nothing waits there -/
theorem skipped_empty (hi : AInv flow F cfg a q.time) (ho : OInv F flow size cfg arrivals a q.time hist o)
    (hh : ∀ g i id q0, a.run ≠ .H g i id q0) (hheld : a.run.held = none) {p j f : Nat}
    (hs : a.loop F cfg.flows p = .hit j f) :
    ∀ j' ∈ skipped cfg.flows.length p j, ∀ x ∈ o.waiting (cfg.flows.getD j' 0), x.2 = q.time := by
  intro j' hj' x hx
  have hjn : j < cfg.flows.length := (List.getElem?_eq_some_iff.mp (loop_hit_spec hs).1).1
  have hlt := mem_skipped_lt hjn hj'
  have hget : cfg.flows[j']? = some (cfg.flows.getD j' 0) := by
    rw [List.getD_eq_getElem?_getD, List.getElem?_eq_getElem hlt]; rfl
  have hfF : cfg.flows.getD j' 0 < F := (mem_flows hi _).mp (List.mem_of_getElem? hget)
  have hnp := loop_hit_skipped hs j' hj' _ hget
  have h0 := cnt_nonneg hi hfF
  have hc := hi.cntOK _ hfF
  simp only [heldCnt, hheld] at hc
  have hem : a.items (cfg.flows.getD j' 0) = [] := List.eq_nil_of_length_eq_zero (by omega)
  have := waiting_nil ho hfF (heldH_none hh _) hem
  rw [this] at hx; cases hx

/-- the server goes idle (blocks or takes a token) with every store empty: the oracle does not move -/
theorem oinv_idle (ho : OInv F flow size cfg arrivals a q.time hist o) (r : RPhase)
    (hr : (∃ g, r = .W g) ∨ (∃ g q0, r = .K g q0)) (hh : ∀ g i id q0, a.run ≠ .H g i id q0) (hbusy : o.busy = none)
    (hall : (∀ f, f < F → a.items f = []) ∨ ∀ f, f < F → ∀ x ∈ o.waiting f, x.2 = q.time) (tk : Nat) :
    OInv F flow size cfg arrivals { a with run := r, tokens := tk } q.time hist o := by
  have hw : ∀ f, f < F → ∀ x ∈ o.waiting f, x.2 = q.time := by
    rcases hall with h | h
    · intro f hf x hx
      have := waiting_nil ho hf (heldH_none hh f) (h f hf)
      rw [this] at hx; cases hx
    · exact h
  have hH : ∀ f, heldH flow ({ a with run := r, tokens := tk } : A) f = [] := by
    intro f
    rcases hr with ⟨g, rfl⟩ | ⟨g, q0, rfl⟩ <;> rfl
  refine ⟨ho.run, ?_, ho.wt, ?_, ho.fut⟩
  · intro f hf
    rw [hH f, ← heldH_none hh f]
    exact ho.wq f hf
  · rcases hr with ⟨g, rfl⟩ | ⟨g, q0, rfl⟩ <;> exact ⟨hbusy, hw⟩

theorem setQ_same (w : Nat → List (Int × ℚ)) (f : Nat) (l : List (Int × ℚ)) : setQ w f l f = l := by simp [setQ]
theorem setQ_ne (w : Nat → List (Int × ℚ)) (f f' : Nat) (l : List (Int × ℚ)) (h : f' ≠ f) : setQ w f l f' = w f' := by
  simp [setQ, h]

/-- the oracle after a `put` -/
theorem oinv_put (hi : AInv flow F cfg a q.time) (ho : OInv F flow size cfg arrivals a q.time hist o) {id : Int}
    {arr : List (ℚ × Int)} (h : a.src = .wait id arr q) (a' : A) (hrun : a'.run = a.run)
    (hitems : a'.items = upd a.items (flow id) (a.items (flow id) ++ [id])) (eid ev : Nat)
    (hsrc : a'.src = srcNext q.time eid ev arr) :
    ∃ o', OInv F flow size cfg arrivals a' q.time (hist ++ [.put id q.time]) o' := by
  refine ⟨{ o with waiting := setQ o.waiting (flow id) (o.waiting (flow id) ++ [(id, q.time)]) }, ?_, ?_, ?_, ?_, ?_⟩
  · rw [orun_append, ho.run]; rfl
  · intro f hf
    have hH : heldH flow a' f = heldH flow a f := by simp [heldH, hrun]
    rw [hH, hitems]
    by_cases hff : f = flow id
    · subst hff
      simp only [setQ_same, upd_same, List.map_append, List.map_cons, List.map_nil, ho.wq _ hf, List.append_assoc]
    · simp only [setQ_ne _ _ _ _ hff, upd_ne _ _ _ _ hff, ho.wq f hf]
  · intro f hf x hx
    by_cases hff : f = flow id
    · subst hff
      simp only [setQ_same, List.mem_append, List.mem_singleton] at hx
      rcases hx with hx | rfl
      · exact ho.wt _ hf x hx
      · exact le_refl _
    · simp only [setQ_ne _ _ _ _ hff] at hx
      exact ho.wt f hf x hx
  · have hmem : ∀ f, f < F → ∀ x ∈ setQ o.waiting (flow id) (o.waiting (flow id) ++ [(id, q.time)]) f,
        x ∈ o.waiting f ∨ x.2 = q.time := by
      intro f hf x hx
      by_cases hff : f = flow id
      · subst hff
        simp only [setQ_same, List.mem_append, List.mem_singleton] at hx
        rcases hx with hx | rfl
        · exact Or.inl hx
        · exact Or.inr rfl
      · simp only [setQ_ne _ _ _ _ hff] at hx
        exact Or.inl hx
    have hph := ho.ph
    rw [hrun]
    cases hr : a.run with
    | init q0 => rw [hr] at hph; exact ⟨hph.1, fun f hf x hx => (hmem f hf x hx).elim (hph.2 f hf x) (fun h => h)⟩
    | W g => rw [hr] at hph; exact ⟨hph.1, fun f hf x hx => (hmem f hf x hx).elim (hph.2 f hf x) (fun h => h)⟩
    | K g q0 => rw [hr] at hph; exact ⟨hph.1, fun f hf x hx => (hmem f hf x hx).elim (hph.2 f hf x) (fun h => h)⟩
    | H g i id0 q0 =>
      rw [hr] at hph
      obtain ⟨h1, h2, h6⟩ := hph
      have hmem' : ∀ f, ∀ x ∈ setQ o.waiting (flow id) (o.waiting (flow id) ++ [(id, q.time)]) f,
          x ∈ o.waiting f ∨ x.2 = q.time := by
        intro f x hx
        by_cases hff : f = flow id
        · subst hff
          simp only [setQ_same, List.mem_append, List.mem_singleton] at hx
          rcases hx with hx | rfl
          · exact Or.inl hx
          · exact Or.inr rfl
        · simp only [setQ_ne _ _ _ _ hff] at hx
          exact Or.inl hx
      refine ⟨h1, ?_, fun j' hj' x hx => (hmem' _ x hx).elim (h6 j' hj' x) (fun h => h)⟩
      rcases h2 with h2 | h2
      · exact Or.inl h2
      · exact Or.inr (fun f hf x hx => (hmem f hf x hx).elim (h2 f hf x) (fun h => h))
    | S p i0 id0 q0 => rw [hr] at hph; exact hph
    | T p t i0 id0 q0 => rw [hr] at hph; exact hph
    | F p i0 id0 q0 => rw [hr] at hph; exact hph
  · rw [obsPuts_append, hsrc, srcFuture_srcNext]
    have := ho.fut
    rw [h] at this
    simp only [srcFuture] at this
    simp only [obsPuts, List.append_assoc, List.cons_append, List.nil_append]
    exact this

/-- **every configuration step keeps the oracle's invariant**: the observations of the step are accepted -/
theorem oinv_step {a' : A} {new : List (HEv ℚ)} (hi : AInv flow F cfg a q.time)
    (ho : OInv F flow size cfg arrivals a q.time hist o) (hs : AStep F flow size cfg n e a q a' new) :
    ∃ o', OInv F flow size cfg arrivals a' q.time (hist ++ new) o' := by
  have hrun := hi.run
  have hph := ho.ph
  cases hs with
  | runInit h =>
    rw [h] at hph
    have := oinv_idle (size := size) ho (.W n) (Or.inl ⟨n, rfl⟩) (by simp [h]) hph.1 (Or.inr hph.2) a.tokens
    exact ⟨o, by simpa using this⟩
  | wakeHit g j f id is h hs hf hit =>
    rw [h] at hph
    have hsk : ∀ j' ∈ skipped cfg.flows.length o.cursor j, ∀ x ∈ o.waiting (cfg.flows.getD j' 0), x.2 = q.time := by
      intro j' hj' x hx
      have hjn : j < cfg.flows.length := (List.getElem?_eq_some_iff.mp (loop_hit_spec hs).1).1
      have hlt := mem_skipped_lt hjn hj'
      have hget : cfg.flows[j']? = some (cfg.flows.getD j' 0) := by
        rw [List.getD_eq_getElem?_getD, List.getElem?_eq_getElem hlt]; rfl
      exact hph.2 _ ((mem_flows hi _).mp (List.mem_of_getElem? hget)) x hx
    exact ⟨o, by simpa using oinv_hit hi ho (by simp [h]) hph.1 (Or.inr hph.2) hsk hf hit⟩
  | wakeBlock g h hs htk =>
    rw [h] at hph
    have := oinv_idle (size := size) ho (.W n) (Or.inl ⟨n, rfl⟩) (by simp [h]) hph.1 (Or.inr hph.2) a.tokens
    exact ⟨o, by simpa using this⟩
  | wakeTok g t h hs htk =>
    rw [h] at hph
    have := oinv_idle (size := size) ho (.K n ⟨q.time, NORMAL, e, n⟩) (Or.inr ⟨_, _, rfl⟩) (by simp [h]) hph.1 (Or.inr hph.2) t
    exact ⟨o, by simpa using this⟩
  | pktResume g i id h =>
    rw [h] at hph hrun
    obtain ⟨h1, h2, h6⟩ := hph
    have hfid := hrun.2.2.2.1
    have hpos := hrun.2.2.2.2
    have hilt : i < cfg.flows.length := (List.getElem?_eq_some_iff.mp hpos).1
    have hidx : cfg.flows.idxOf (flow id) = i := by
      have hget : cfg.flows[i] = flow id := (List.getElem?_eq_some_iff.mp hpos).2
      rw [← hget]
      exact List.Nodup.idxOf_getElem (flows_nodup hi) i hilt
    have hwq := ho.wq (flow id) hfid
    simp only [heldH, h, if_true, List.singleton_append] at hwq
    have hok : ServeOK F flow cfg.flows o id q.time := by
      refine ⟨by simp [h1], ?_, ⟨by rw [hidx]; exact hilt, ?_⟩, ?_⟩
      · cases hw : o.waiting (flow id) with
        | nil => rw [hw] at hwq; simp at hwq
        | cons x r => rw [hw] at hwq; simp only [List.map_cons, List.cons.injEq] at hwq; simp [hwq.1]
      · rw [hidx]
        intro j' hj' x hx
        rw [h6 j' hj' x hx]
        exact lt_irrefl _
      · rcases h2 with h2 | h2
        · left; rw [h2]; exact (eqT_iff _ _).mpr rfl
        · right; intro f hf x hx; exact (eqT_iff _ _).mpr (h2 f (List.mem_range.mp hf) x hx)
    refine ⟨{ o with waiting := setQ o.waiting (flow id) (o.waiting (flow id)).tail, busy := some (id, q.time),
                     cursor := cfg.flows.idxOf (flow id) + 1 },
      ?_, ?_, ?_, ⟨rfl, by rw [hidx]⟩, ?_⟩
    · rw [orun_append, ho.run]
      simp [orun, ostep, hok]
    · intro f hf
      simp only [heldH, List.nil_append]
      by_cases hff : f = flow id
      · subst hff
        simp only [setQ_same, List.map_tail, hwq, List.tail_cons]
      · simp only [setQ_ne _ _ _ _ hff]
        have := ho.wq f hf
        simp only [heldH, h, Ne.symm hff, if_false, List.nil_append] at this
        exact this
    · intro f hf x hx
      by_cases hff : f = flow id
      · subst hff
        simp only [setQ_same] at hx
        exact ho.wt _ hf x (List.mem_of_mem_tail hx)
      · simp only [setQ_ne _ _ _ _ hff] at hx
        exact ho.wt f hf x hx
    · simpa [obsPuts_append, obsPuts] using ho.fut
  | sendInit p i id h =>
    rw [h] at hph
    refine ⟨o, by simpa using ho.run, ?_, ho.wt, ⟨q.time, hph.1, rfl, hph.2⟩, by simpa using ho.fut⟩
    intro f hf
    have := ho.wq f hf
    simp only [heldH, h] at this
    simpa [heldH] using this
  | sendFire p t i id h =>
    rw [h] at hph
    obtain ⟨s0, hb, hq0, hcur⟩ := hph
    have hok : OutOK size cfg.rate o id q.time := by
      simp only [OutOK, hb, true_and]
      exact (eqT_iff _ _).mpr hq0
    refine ⟨{ o with busy := none, lastOut := some q.time }, ?_, ?_, ho.wt, ⟨rfl, rfl, hcur⟩, ?_⟩
    · rw [orun_append, ho.run]
      simp [orun, ostep, hok]
    · intro f hf
      have := ho.wq f hf
      simp only [heldH, h] at this
      simpa [heldH] using this
    · simpa [obsPuts_append, obsPuts] using ho.fut
  | doneHit p i id0 j f id is h hs hf hit =>
    rw [h] at hph
    have hsk : ∀ j' ∈ skipped cfg.flows.length o.cursor j, ∀ x ∈ o.waiting (cfg.flows.getD j' 0), x.2 = q.time := by
      rw [hph.2.2]
      exact skipped_empty hi ho (by simp [h]) (by simp [h, RPhase.held]) hs
    exact ⟨o, by simpa using oinv_hit hi ho (by simp [h]) hph.1 (Or.inl hph.2.1) hsk hf hit⟩
  | doneBlock p i id0 h hs htk =>
    rw [h] at hph
    have := oinv_idle (size := size) ho (.W n) (Or.inl ⟨n, rfl⟩) (by simp [h]) hph.1
      (Or.inl (empty_of_total_zero hi (by simp [h, RPhase.held]) (loop_idle_total hs))) a.tokens
    exact ⟨o, by simpa using this⟩
  | doneTok p i id0 t h hs htk =>
    rw [h] at hph
    have := oinv_idle (size := size) ho (.K n ⟨q.time, NORMAL, e, n⟩) (Or.inr ⟨_, _, rfl⟩) (by simp [h]) hph.1
      (Or.inl (empty_of_total_zero hi (by simp [h, RPhase.held]) (loop_idle_total hs))) t
    exact ⟨o, by simpa using this⟩
  | srcInit arr h =>
    refine ⟨o, by simpa using ho.run, ho.wq, ho.wt, ho.ph, ?_⟩
    have := ho.fut
    rw [h] at this
    have hs := hi.src
    rw [h] at hs
    simp only [List.append_nil, srcFuture_srcNext]
    simp only [srcFuture] at this
    exact this
  | srcPutTok id arr h htot => exact oinv_put hi ho h _ rfl rfl _ _ rfl
  | srcPutPlain id arr h htot => exact oinv_put hi ho h _ rfl rfl _ _ rfl
  | srcEnd h =>
    refine ⟨o, by simpa using ho.run, ho.wq, ho.wt, ho.ph, ?_⟩
    have := ho.fut
    rw [h] at this
    simpa [srcFuture] using this
  | pendNoop r l1 l2 hpe hno => exact ⟨o, by simpa using ho.run, ho.wq, ho.wt, ho.ph, by simpa using ho.fut⟩
  | pendHand g t l1 l2 hpe h htk =>
    rw [h] at hph
    have := oinv_idle (size := size) ho (.K g ⟨q.time, NORMAL, e, g⟩) (Or.inr ⟨_, _, rfl⟩) (by simp [h]) hph.1 (Or.inr hph.2) t
    refine ⟨o, by simpa using this.run, this.wq, this.wt, this.ph, by simpa using this.fut⟩

end RRK
