import OnlVerif.Lemmas.CondDefs
/-!
# The frame `Fr`: algebra, the leaf updates, and every transformer of the model that is not condition code
-/

namespace Cond
variable {σ : Type}

open Once (lt_of_isCond isCond_congr lt_of_cbs_some ev_default)

theorem ops_congr {s s' : KState ℚ σ} {c : EvId} (h : (s'.ev c).kind = (s.ev c).kind) : ops s' c = ops s c := by
  unfold ops condOps; rw [h]

theorem isAll_congr {s s' : KState ℚ σ} {c : EvId} (h : (s'.ev c).kind = (s.ev c).kind) : isAll s' c = isAll s c := by
  unfold isAll condOps; rw [h]

theorem ops_nil_of_not_cond {s : KState ℚ σ} {c : EvId} (h : isCond s c = false) : ops s c = [] := by
  unfold ops condOps
  unfold isCond at h
  split
  · rename_i hk; rw [hk] at h; cases h
  · rfl

theorem isCond_of_mem_ops {s : KState ℚ σ} {c e : EvId} (h : e ∈ ops s c) : isCond s c = true := by
  cases hc : isCond s c with
  | true => rfl
  | false => rw [ops_nil_of_not_cond hc] at h; cases h

theorem not_mem_of_count_zero {α} [DecidableEq α] {a : α} {l : List α} (h : l.count a = 0) : a ∉ l :=
  fun hm => by have := List.count_pos_iff.mpr hm; omega

namespace Fr

theorem refl (s : KState ℚ σ) : Fr s s :=
  ⟨Nat.le_refl _, fun _ _ => rfl, fun _ _ => Iff.rfl,
   fun e L L' _ h1 h2 cb _ => by rw [h1] at h2; cases h2; rfl,
   fun _ _ h => h, fun _ _ => rfl, fun _ _ => rfl, fun _ _ h => h,
   fun e h1 h2 => absurd (Nat.lt_of_lt_of_le h2 h1) (Nat.lt_irrefl _)⟩

theorem trans {s1 s2 s3 : KState ℚ σ} (h12 : Fr s1 s2) (h23 : Fr s2 s3) : Fr s1 s3 := by
  have lt2 : ∀ e, e < s1.events.size → e < s2.events.size := fun e he => Nat.lt_of_lt_of_le he h12.size_le
  refine ⟨Nat.le_trans h12.size_le h23.size_le, ?_, ?_, ?_, ?_, ?_, ?_, ?_, ?_⟩
  · intro e he; rw [h23.kind e (lt2 e he), h12.kind e he]
  · intro e he; rw [h23.cbsNone e (lt2 e he), h12.cbsNone e he]
  · intro e L L'' he h1 h3 cb hcb
    cases h2 : (s2.ev e).cbs with
    | none => rw [(h12.cbsNone e he).mp h2] at h1; cases h1
    | some L' => rw [h23.cbsCount e L' L'' (lt2 e he) h2 h3 cb hcb, h12.cbsCount e L L' he h1 h2 cb hcb]
  · intro e o h; exact h23.out e o (h12.out e o h)
  · intro c hc
    have hlt := lt_of_isCond s1 c hc
    have hc2 : isCond s2 c = true := by rw [isCond_congr (h12.kind c hlt)]; exact hc
    rw [h23.outC c hc2, h12.outC c hc]
  · intro e he; rw [h23.count e (lt2 e he), h12.count e he]
  · intro e he h; exact h23.defused e (lt2 e he) (h12.defused e he h)
  · intro e h1 h3
    by_cases h2 : e < s2.events.size
    · obtain ⟨hc, L, hL, hp⟩ := h12.fresh e h1 h2
      refine ⟨by rw [isCond_congr (h23.kind e h2)]; exact hc, ?_⟩
      cases h3c : (s3.ev e).cbs with
      | none => rw [(h23.cbsNone e h2).mp h3c] at hL; cases hL
      | some L' =>
        refine ⟨L', rfl, ?_⟩
        intro cb hcb
        cases hpc : plainCb cb with
        | true => rfl
        | false =>
          have := h23.cbsCount e L L' h2 hL h3c cb hpc
          have h0 : L.count cb = 0 := by
            apply List.count_eq_zero.mpr
            intro hm; have := hp cb hm; rw [hpc] at this; cases this
          rw [h0] at this
          exact absurd hcb (not_mem_of_count_zero this)
    · exact h23.fresh e (Nat.le_of_not_lt h2) h3

/-- the event table is untouched -/
theorem of_events {s s' : KState ℚ σ} (h : s'.events = s.events) : Fr s s' := by
  have hev : ∀ e, s'.ev e = s.ev e := fun e => by simp [KState.ev, h]
  have hc : ∀ e, isCond s' e = isCond s e := fun e => isCond_congr (by rw [hev])
  refine ⟨by rw [h], fun e _ => by rw [hev], fun e _ => by rw [hev], ?_, fun e o ho => by rw [hev]; exact ho,
    fun c _ => by rw [hev], fun e _ => by rw [hev], fun e _ hd => by rw [hev]; exact hd, ?_⟩
  · intro e L L' _ h1 h2 cb _; rw [hev, h1] at h2; cases h2; rfl
  · intro e h1 h2; rw [h] at h2; exact absurd (Nat.lt_of_lt_of_le h2 h1) (Nat.lt_irrefl _)

/-- one event record is rewritten in a way the invariant cannot see -/
theorem of_setEv (s : KState ℚ σ) (e : EvId) (x : EvRec ℚ) (hk : x.kind = (s.ev e).kind)
    (hn : x.cbs = none ↔ (s.ev e).cbs = none)
    (hcb : ∀ L L', (s.ev e).cbs = some L → x.cbs = some L' → ∀ cb, plainCb cb = false → L'.count cb = L.count cb)
    (ho : ∀ o, (s.ev e).out = some o → x.out = some o)
    (hoc : isCond s e = true → x.out = (s.ev e).out)
    (hcount : x.count = (s.ev e).count)
    (hd : (s.ev e).defused = true → x.defused = true) : Fr s (s.setEv e x) := by
  refine ⟨Nat.le_of_eq (Once.size_setEv s e x).symm, ?_, ?_, ?_, ?_, ?_, ?_, ?_, ?_⟩
  · intro e' _; exact Once.kind_setEv s e e' x hk
  · intro e' _; rw [KState.ev_setEv]; split
    · rename_i h; rw [h.1]; exact hn
    · exact Iff.rfl
  · intro e' L L' _ h1 h2 cb hp
    rw [KState.ev_setEv] at h2
    split at h2
    · rename_i h; rw [h.1] at h1; exact hcb L L' h1 h2 cb hp
    · rw [h1] at h2; cases h2; rfl
  · intro e' o h; rw [KState.ev_setEv]; split
    · rename_i hc; rw [hc.1] at h; exact ho o h
    · exact h
  · intro c hc; rw [KState.ev_setEv]; split
    · rename_i h; rw [h.1] at hc ⊢; exact hoc hc
    · rfl
  · intro e' _; rw [KState.ev_setEv]; split
    · rename_i h; rw [h.1]; exact hcount
    · rfl
  · intro e' _ h; rw [KState.ev_setEv]; split
    · rename_i hc; rw [hc.1] at h; exact hd h
    · exact h
  · intro e' h1 h2; rw [Once.size_setEv] at h2; exact absurd (Nat.lt_of_lt_of_le h2 h1) (Nat.lt_irrefl _)

/-- a fresh record that is not a condition and carries only plain callbacks -/
theorem of_push (s s' : KState ℚ σ) (x : EvRec ℚ) (L : List Cb) (h : s'.events = s.events.push x)
    (hk : ∀ a l, x.kind ≠ .cond a l) (hL : x.cbs = some L) (hp : ∀ cb ∈ L, plainCb cb = true) : Fr s s' := by
  have hev : ∀ e, s'.ev e = if e = s.events.size then x else s.ev e := fun e => by simp only [KState.ev, h, getD_push]
  have hold : ∀ e, e < s.events.size → s'.ev e = s.ev e := fun e he => by rw [hev, if_neg (Nat.ne_of_lt he)]
  have hsz : s'.events.size = s.events.size + 1 := by rw [h]; simp
  refine ⟨by rw [hsz]; exact Nat.le_succ _, fun e he => by rw [hold e he], fun e he => by rw [hold e he], ?_, ?_, ?_,
    fun e he => by rw [hold e he], fun e he hd => by rw [hold e he]; exact hd, ?_⟩
  · intro e L1 L2 he h1 h2 cb _; rw [hold e he, h1] at h2; cases h2; rfl
  · intro e o ho
    have := Once.lt_of_out s e (by rw [ho]; simp)
    rw [hold e this]; exact ho
  · intro c hc; rw [hold c (lt_of_isCond s c hc)]
  · intro e h1 h2
    have : e = s.events.size := by omega
    subst this
    rw [hev, if_pos rfl]
    refine ⟨?_, L, hL, hp⟩
    unfold isCond; rw [hev, if_pos rfl]
    split
    · rename_i a l hh; exact absurd hh (hk a l)
    · rfl

/-! ### the leaves -/

theorem emit (s : KState ℚ σ) (o : Obs ℚ) : Fr s (s.emit o) := of_events rfl
theorem active (s : KState ℚ σ) (a : Option EvId) : Fr s { s with active := a } := of_events rfl
theorem shared (s : KState ℚ σ) (l : List (Nat × Val)) : Fr s { s with shared := l } := of_events rfl
theorem setProc (s : KState ℚ σ) (p : EvId) (r : ProcRec σ) : Fr s (s.setProc p r) := of_events rfl
theorem schedule (s : KState ℚ σ) (e : EvId) (p : Nat) (d : ℚ) : Fr s (s.schedule e p d) := of_events rfl
theorem setRes (s : KState ℚ σ) (r : ResId) (x : ResRec) : Fr s (s.setRes r x) := of_events rfl

theorem defuse (s : KState ℚ σ) (e : EvId) : Fr s (s.defuse e) :=
  of_setEv s e _ rfl Iff.rfl (fun L L' h1 h2 cb _ => by rw [h1] at h2; cases h2; rfl) (fun _ h => h) (fun _ => rfl) rfl
    (fun _ => rfl)

theorem setUsage (s : KState ℚ σ) (e : EvId) : Fr s (s.setUsage e) :=
  of_setEv s e _ rfl Iff.rfl (fun L L' h1 h2 cb _ => by rw [h1] at h2; cases h2; rfl) (fun _ h => h) (fun _ => rfl) rfl
    (fun h => h)

/-- an outcome written to a pending event that is not a condition -/
theorem setOut (s : KState ℚ σ) (e : EvId) (o : Outcome) (ho : (s.ev e).out = none) (hc : isCond s e = false) :
    Fr s (s.setOut e o) :=
  of_setEv s e _ rfl Iff.rfl (fun L L' h1 h2 cb _ => by rw [h1] at h2; cases h2; rfl)
    (fun o' h => by rw [ho] at h; cases h) (fun h => by rw [hc] at h; cases h) rfl (fun h => h)

theorem trigger (s : KState ℚ σ) (e : EvId) (o : Outcome) (ho : (s.ev e).out = none) (hc : isCond s e = false) :
    Fr s (s.trigger e o) := by
  unfold KState.trigger
  exact (setOut s e o ho hc).trans (schedule _ _ _ _)

theorem addCb (s : KState ℚ σ) (e : EvId) (cb : Cb) (hp : plainCb cb = true) : Fr s (s.addCb e cb) := by
  unfold KState.addCb
  refine of_setEv s e _ rfl ?_ ?_ (fun _ h => h) (fun _ => rfl) rfl (fun h => h)
  · simp only [Option.map_eq_none_iff]
  · intro L L' h1 h2 cb' hp'
    simp only [h1, Option.map_some, Option.some.injEq] at h2
    subst h2
    rw [List.count_append, List.count_singleton]
    have : ¬ (cb = cb') := fun hh => by rw [hh, hp'] at hp; cases hp
    simp [this]

theorem eraseCb (s : KState ℚ σ) (e : EvId) (cb : Cb) (hp : plainCb cb = true) : Fr s (s.eraseCb e cb) := by
  unfold KState.eraseCb
  refine of_setEv s e _ rfl ?_ ?_ (fun _ h => h) (fun _ => rfl) rfl (fun h => h)
  · simp only [Option.map_eq_none_iff]
  · intro L L' h1 h2 cb' hp'
    simp only [h1, Option.map_some, Option.some.injEq] at h2
    subst h2
    have : cb' ≠ cb := fun hh => by rw [hh, hp] at hp'; cases hp'
    exact List.count_erase_of_ne this

theorem newEv (s : KState ℚ σ) (x : EvRec ℚ) (L : List Cb) (hk : ∀ a l, x.kind ≠ .cond a l) (hL : x.cbs = some L)
    (hp : ∀ cb ∈ L, plainCb cb = true) : Fr s (s.newEv x).1 :=
  of_push s _ x L rfl hk hL hp

theorem newLabelled (s : KState ℚ σ) (x : EvRec ℚ) (L : List Cb) (hk : ∀ a l, x.kind ≠ .cond a l) (hL : x.cbs = some L)
    (hp : ∀ cb ∈ L, plainCb cb = true) : Fr s (s.newLabelled x).1 :=
  of_push s _ { x with label := s.nlabel + 1 } L rfl hk hL hp

/-! ### interrupts and the resource layer -/

theorem mkInterrupt (s : KState ℚ σ) (p : EvId) (c : Val) : Fr s (_root_.mkInterrupt s p c).1 := by
  unfold _root_.mkInterrupt
  split
  · exact refl s
  · split
    · exact refl s
    · exact (newEv s _ [.intr s.events.size] (fun _ _ h => by cases h) rfl (fun cb h => by
        rw [List.mem_singleton] at h; subst h; rfl)).trans (schedule _ _ _ _)

theorem setUsers (s : KState ℚ σ) (r : ResId) (l : List EvId) : Fr s (s.setUsers r l) := setRes _ _ _
theorem setLevel (s : KState ℚ σ) (r : ResId) (x : Int) : Fr s (s.setLevel r x) := setRes _ _ _
theorem setItems (s : KState ℚ σ) (r : ResId) (l : List Int) : Fr s (s.setItems r l) := setRes _ _ _

theorem preemptStep (s : KState ℚ σ) (r : ResId) (e : EvId) : Fr s (_root_.preemptStep s r e) := by
  unfold _root_.preemptStep
  simp only
  split
  · split
    · exact refl s
    · split
      · split
        · exact (setUsers s r _).trans (mkInterrupt _ _ _)
        · exact setUsers s r _
      · exact refl s
  · exact refl s

theorem prePut (s : KState ℚ σ) (r : ResId) (e : EvId) : Fr s (_root_.prePut s r e) := by
  unfold _root_.prePut
  split
  · exact preemptStep s r e
  · exact refl s

theorem not_cond_of_kind_put {s : KState ℚ σ} {e : EvId} {r : ResId} (h : (s.ev e).kind = .put r) : isCond s e = false := by
  unfold isCond; rw [h]
theorem not_cond_of_kind_get {s : KState ℚ σ} {e : EvId} {r : ResId} (h : (s.ev e).kind = .get r) : isCond s e = false := by
  unfold isCond; rw [h]

/-- a granted put: resource bookkeeping, then the trigger of a pending request -/
theorem applyPut (s : KState ℚ σ) (r : ResId) (e : EvId) (ho : (s.ev e).out = none) (hc : isCond s e = false) :
    Fr s (_root_.applyPut s r e) := by
  have key : ∀ X : KState ℚ σ, Fr s X → (∀ e', X.ev e' = s.ev e') → Fr s (X.trigger e (.ok .none)) := by
    intro X hX hev
    refine hX.trans (trigger X e _ (by rw [hev]; exact ho) ?_)
    rw [isCond_congr (s := s) (by rw [hev])]; exact hc
  have husage : ∀ l, ∀ e', (((s.setUsers r l).setUsage e).ev e').out = (s.ev e').out ∧
      (((s.setUsers r l).setUsage e).ev e').kind = (s.ev e').kind := by
    intro l e'
    unfold KState.setUsage
    exact ⟨Once.out_setEv _ e e' _ rfl, Once.kind_setEv _ e e' _ rfl⟩
  have keyU : ∀ l, Fr s (((s.setUsers r l).setUsage e).trigger e (.ok .none)) := by
    intro l
    refine ((setUsers s r l).trans (setUsage _ e)).trans (trigger _ e _ ?_ ?_)
    · rw [(husage l e).1]; exact ho
    · rw [isCond_congr (s := s) (husage l e).2]; exact hc
  unfold _root_.applyPut
  simp only
  split
  · exact keyU _
  · exact keyU _
  · exact keyU _
  · exact key _ (setLevel s r _) (fun _ => rfl)
  · exact key _ (setItems s r _) (fun _ => rfl)
  · exact key _ (setItems s r _) (fun _ => rfl)
  · exact key _ (setItems s r _) (fun _ => rfl)

theorem takeOut (s : KState ℚ σ) (r : ResId) (e : EvId) (v : Val) :
    Fr s (_root_.takeOut s r e v) ∧ ∀ e', (_root_.takeOut s r e v).ev e' = s.ev e' := by
  unfold _root_.takeOut
  simp only
  split
  · exact ⟨setUsers s r _, fun _ => rfl⟩
  · exact ⟨setUsers s r _, fun _ => rfl⟩
  · exact ⟨setUsers s r _, fun _ => rfl⟩
  · exact ⟨setLevel s r _, fun _ => rfl⟩
  · exact ⟨setItems s r _, fun _ => rfl⟩
  · split
    · exact ⟨setItems s r _, fun _ => rfl⟩
    · exact ⟨refl s, fun _ => rfl⟩
  · split
    · exact ⟨setItems s r _, fun _ => rfl⟩
    · exact ⟨refl s, fun _ => rfl⟩

theorem dropPutQ (s : KState ℚ σ) (r : ResId) (e : EvId) : Fr s (_root_.dropPutQ s r e) := setRes _ _ _
theorem dropGetQ (s : KState ℚ σ) (r : ResId) (e : EvId) : Fr s (_root_.dropGetQ s r e) := setRes _ _ _

/-- **`_trigger_put`** only triggers pending request events -/
theorem scanPut {g : Once.Ghost} (r : ResId) : ∀ (q : List EvId) (s : KState ℚ σ), Once.Inv g s → q.Nodup →
    (∀ e ∈ q, e ∈ (s.res r).putQ) → Fr s (_root_.scanPut r q s)
  | [], s, _, _, _ => refl s
  | e :: rest, s, hi, hnd, hsub => by
    unfold _root_.scanPut
    simp only
    have h0 : Once.Inv g (_root_.prePut s r e) := hi.prePut r e
    have f0 : Fr s (_root_.prePut s r e) := prePut s r e
    have hq0 : ∀ x ∈ e :: rest, x ∈ ((_root_.prePut s r e).res r).putQ := by
      intro x hx; rw [(Once.prePut_queues s r e r).1]; exact hsub x hx
    have he0 := hq0 e List.mem_cons_self
    have hnd' := List.nodup_cons.mp hnd
    have hke := (h0.q.putQ r).2 e he0
    unfold _root_.doPut
    split
    · obtain ⟨X, hX, hXi, hXq, hXs⟩ := Once.applyPut_shape (_root_.prePut s r e) r e
      have f1 : Fr (_root_.prePut s r e) (_root_.applyPut (_root_.prePut s r e) r e) :=
        applyPut _ r e hke.2 (not_cond_of_kind_put hke.1)
      simp only
      rw [hX] at f1 ⊢
      have heX : e ∈ (X.res r).putQ := by rw [hXq]; exact he0
      have hiX := hXi g h0
      have hlt : e < X.events.size := hiX.q.mem_put_lt r e heX
      rw [Once.triggered_trigger X e _ hlt]
      simp only [if_true]
      obtain ⟨h1, h2⟩ := hiX.trigger_dropPut r e (.ok .none) heX
      refine (f0.trans (f1.trans (dropPutQ _ r e))).trans (scanPut r rest _ h1 hnd'.2 ?_)
      intro x hx
      refine h2 x ?_ ?_
      · rw [hXq]; exact hq0 x (List.mem_cons_of_mem _ hx)
      · intro hxe; rw [hxe] at hx; exact hnd'.1 hx
    · simp only
      have : (_root_.prePut s r e).triggered e = false := by
        unfold KState.triggered; rw [hke.2]; rfl
      rw [this]
      simp only [Bool.false_eq_true, if_false]
      exact f0

theorem scanGet {g : Once.Ghost} (r : ResId) : ∀ (q : List EvId) (s : KState ℚ σ), Once.Inv g s → q.Nodup →
    (∀ e ∈ q, e ∈ (s.res r).getQ) → Fr s (_root_.scanGet r q s)
  | [], s, _, _, _ => refl s
  | e :: rest, s, hi, hnd, hsub => by
    unfold _root_.scanGet
    simp only
    have he0 := hsub e List.mem_cons_self
    have hnd' := List.nodup_cons.mp hnd
    have hke := (hi.q.getQ r).2 e he0
    have hnt : s.triggered e = false := by
      unfold KState.triggered; rw [hke.2]; rfl
    unfold _root_.doGet
    split
    · rename_i v hv
      obtain ⟨hTi, hTq, hTs⟩ := Once.takeOut_shape s r e v
      obtain ⟨fT, hTev⟩ := takeOut s r e v
      simp only
      have heX : e ∈ ((_root_.takeOut s r e v).res r).getQ := by rw [hTq]; exact he0
      have hiX := hTi g hi
      have hlt : e < (_root_.takeOut s r e v).events.size := hiX.q.mem_get_lt r e heX
      rw [Once.triggered_trigger _ e _ hlt]
      simp only [if_true]
      obtain ⟨h1, h2⟩ := hiX.trigger_dropGet r e (.ok v) heX
      have f1 : Fr (_root_.takeOut s r e v) ((_root_.takeOut s r e v).trigger e (.ok v)) :=
        trigger _ e _ (by rw [hTev]; exact hke.2) (by
          rw [isCond_congr (s := s) (by rw [hTev])]; exact not_cond_of_kind_get hke.1)
      have hrest : ∀ x ∈ rest, x ∈ ((_root_.dropGetQ ((_root_.takeOut s r e v).trigger e (.ok v)) r e).res r).getQ := by
        intro x hx
        refine h2 x ?_ ?_
        · rw [hTq]; exact hsub x (List.mem_cons_of_mem _ hx)
        · intro hxe; rw [hxe] at hx; exact hnd'.1 hx
      exact (fT.trans (f1.trans (dropGetQ _ r e))).trans (scanGet r rest _ h1 hnd'.2 hrest)
    · simp only
      rw [hnt]
      simp only [Bool.false_eq_true, if_false]
      split
      · exact scanGet r rest s hi hnd'.2 (fun x hx => hsub x (List.mem_cons_of_mem _ hx))
      · exact refl s

theorem triggerPut {g : Once.Ghost} {s : KState ℚ σ} (hi : Once.Inv g s) (r : ResId) : Fr s (_root_.triggerPut s r) :=
  scanPut r _ s hi (hi.q.putQ r).1 (fun _ h => h)

theorem triggerGet {g : Once.Ghost} {s : KState ℚ σ} (hi : Once.Inv g s) (r : ResId) : Fr s (_root_.triggerGet s r) :=
  scanGet r _ s hi (hi.q.getQ r).1 (fun _ h => h)

theorem enqPut (s : KState ℚ σ) (r : ResId) (e : EvId) : Fr s (_root_.enqPut s r e) := setRes _ _ _
theorem enqGet (s : KState ℚ σ) (r : ResId) (e : EvId) : Fr s (_root_.enqGet s r e) := setRes _ _ _

theorem mkPut {g : Once.Ghost} {s : KState ℚ σ} (hi : Once.Inv g s) (r : ResId) (rq : ReqData ℚ) :
    Fr s (_root_.mkPut s r rq).1 := by
  unfold _root_.mkPut
  simp only
  refine ((newLabelled s _ [.trigGet r] (fun _ _ h => by cases h) rfl (fun cb h => by
    rw [List.mem_singleton] at h; subst h; rfl)).trans (enqPut _ r _)).trans (triggerPut (hi.newPut r rq) r)

theorem mkGet {g : Once.Ghost} {s : KState ℚ σ} (hi : Once.Inv g s) (r : ResId) (rq : ReqData ℚ) :
    Fr s (_root_.mkGet s r rq).1 := by
  unfold _root_.mkGet
  simp only
  refine ((newLabelled s _ [.trigPut r] (fun _ _ h => by cases h) rfl (fun cb h => by
    rw [List.mem_singleton] at h; subst h; rfl)).trans (enqGet _ r _)).trans (triggerGet (hi.newGet r rq) r)

theorem cancelReq {g : Once.Ghost} {s : KState ℚ σ} (hi : Once.Inv g s) (e : EvId) : Fr s (_root_.cancelReq s e).1 := by
  unfold _root_.cancelReq
  split
  · exact refl s
  · split
    · split
      · exact (dropPutQ s _ _).trans (triggerPut (hi.dropPutQ _ _) _)
      · exact refl s
    · split
      · exact (dropGetQ s _ _).trans (triggerGet (hi.dropGetQ _ _) _)
      · exact refl s
    · exact refl s

/-! ### every API call except `Condition(...)` -/

theorem not_cond_of_plain {s : KState ℚ σ} {e : EvId} (h : (s.ev e).kind = .plain) : isCond s e = false := by
  unfold isCond; rw [h]

/-- a safe `succeed/fail` that is executed hits a pending plain event -/
theorem userTarget {s : KState ℚ σ} {e : EvId} (_hs : Once.SafeTarget s e) (hd : s.triggered e = true ∨ isCond s e = false)
    (hnt : ¬ s.triggered e = true) : (s.ev e).out = none ∧ isCond s e = false := by
  refine ⟨Once.out_none_of_not_triggered s e hnt, ?_⟩
  rcases hd with h | h
  · exact absurd h hnt
  · exact h

theorem doCall {g : Once.Ghost} {s : KState ℚ σ} (hi : Once.Inv g s) (self : EvId) (c : Call ℚ σ) (hs : Once.SafeCall s c)
    (hd : DomCall s c) (hnc : ∀ a l, c ≠ .cond a l) : Fr s (_root_.doCall s self c).1 := by
  cases c
  case cond a l => exact absurd rfl (hnc a l)
  all_goals simp only [_root_.doCall]
  case timeout d v =>
    split
    · exact refl s
    · exact (newLabelled s _ [] (fun _ _ h => by cases h) rfl (fun cb h => by cases h)).trans (schedule _ _ _ _)
  case event => exact newLabelled s _ [] (fun _ _ h => by cases h) rfl (fun cb h => by cases h)
  case succeed e v =>
    split
    · exact refl s
    · rename_i hnt
      obtain ⟨h1, h2⟩ := userTarget hs hd hnt
      exact trigger s e _ h1 h2
  case fail e x =>
    split
    · exact refl s
    · rename_i hnt
      obtain ⟨h1, h2⟩ := userTarget hs hd hnt
      exact trigger s e _ h1 h2
  case spawn st =>
    exact (((newLabelled s _ [] (fun _ _ h => by cases h) rfl (fun cb h => by cases h)).trans (setProc _ _ _)).trans
      (newEv _ _ [.resume s.events.size] (fun _ _ h => by cases h) rfl (fun cb h => by
        rw [List.mem_singleton] at h; subst h; rfl))).trans (schedule _ _ _ _)
  case interrupt p cause =>
    split
    · exact refl s
    · have := mkInterrupt s p cause
      generalize _root_.mkInterrupt s p cause = r at this ⊢
      obtain ⟨s1, o⟩ := r
      cases o <;> exact this
  case probe e tag =>
    split
    · exact refl s
    · exact addCb s _ _ rfl
  case request r prio pre =>
    split
    · exact refl s
    · exact mkPut hi r _
  case release r req =>
    split
    · exact refl s
    · exact mkGet hi r _
  case cancel e =>
    have := cancelReq hi e
    generalize _root_.cancelReq s e = r at this ⊢
    obtain ⟨s1, o⟩ := r
    cases o <;> exact this
  case cput r a =>
    split
    · exact refl s
    · split
      · exact refl s
      · exact mkPut hi r _
  case cget r a =>
    split
    · exact refl s
    · split
      · exact refl s
      · exact mkGet hi r _
  case sput r it =>
    split
    · exact refl s
    · exact mkPut hi r _
  case sget r f =>
    split
    · exact refl s
    · exact mkGet hi r _
  case log what v => exact emit s _
  case load k => exact refl s
  case store k v => exact shared s _

theorem noteErr (self : EvId) (sr : KState ℚ σ × Reply) : Fr sr.1 (_root_.noteErr self sr) := by
  unfold _root_.noteErr
  split
  · exact emit _ _
  · exact refl _

/-! ### the pieces of `_resume` -/

theorem deliver (s : KState ℚ σ) (p e : EvId) : Fr s (_root_.deliver s p e).1 := by
  show Fr s (deliverSt s p e)
  unfold deliverSt
  split
  · exact (active s _).trans (defuse _ _)
  · exact active s _

theorem finishProc {g : Once.Ghost} {s : KState ℚ σ} (hi : Once.Inv g s) (p : EvId) (pr : ProcRec σ) (o : Outcome)
    (hg : g.run = some p) : Fr s (_root_.finishProc s p pr o) := by
  obtain ⟨h1, h2, _⟩ := hi.c.pend p (Or.inr hg)
  unfold _root_.finishProc
  refine (((trigger s p o h1 ?_).trans (emit _ _)).trans (setProc _ _ _)).trans (active _ _)
  unfold isCond; rw [h2]

theorem register (s s' : KState ℚ σ) (p e' : EvId) (h : _root_.register s p e' = some s') : Fr s s' := by
  unfold _root_.register at h
  split at h
  · cases h
  · cases h
    exact (addCb s _ _ rfl).trans (active _ _)

end Fr
end Cond
