import OnlVerif.Lemmas.StrandStep
/-!
# Two concrete runs (non-vacuity of the global "never strand a request" theorems)

`Demo.res*`: two processes compete for a capacity-1 `Resource` (request, hold 5 time units, release).
`Demo.con*`: on `Container(capacity=10, init=7)` one process issues `put(5)` (blocked), a second one `put(1)` (queued
behind it); at time 1 the first cancels its request.
The states are computed by the model itself (`step`); facts about them are checked by kernel evaluation.
-/

namespace Demo

abbrev St := Nat × EvId

/-- request the resource, hold it for 5 time units, release it -/
def resProg : Nat → EvId → Burst ℚ St
  | 0, _ => .call (.request 0 0 true) fun rp => match rp with
      | .ev e => .yield e (1, e)
      | _ => .ret .none
  | 1, rq => .call (.timeout 5 .none) fun rp => match rp with
      | .ev t => .yield t (2, rq)
      | _ => .ret .none
  | 2, rq => .call (.release 0 rq) fun rp => match rp with
      | .ev e => .yield e (3, rq)
      | _ => .ret .none
  | _, _ => .ret .none

def resBody : St → Resume → Burst ℚ St := fun st _ => resProg st.1 st.2

/-- a fresh environment with one capacity-1 `Resource`, after two `env.process(...)` calls -/
def resS0 : KState ℚ St :=
  [Call.spawn (0, 0), Call.spawn (0, 0)].foldl (fun s c => (doCall s 0 c).1)
    { now := 0, resources := #[{ kind := .resource, capacity := some 1 }] }

def next (body : St → Resume → Burst ℚ St) (s : KState ℚ St) : KState ℚ St := ((step body 3 s).state?).getD s

/-- after three kernel steps: the first process holds the slot and sleeps, the second waits in the queue -/
def resS3 : KState ℚ St := next resBody (next resBody (next resBody resS0))

theorem noTrig_cont (k : Reply → Burst ℚ St)
    (hk : ∀ rp, (∃ e st, k rp = .yield e st) ∨ (∃ v, k rp = .ret v)) : ∀ rp, NoTrigCalls (k rp) := by
  intro rp
  rcases hk rp with ⟨e, st, h⟩ | ⟨v, h⟩ <;> rw [h]
  · exact NoTrigCalls.yield e st
  · exact NoTrigCalls.ret v

theorem resBody_noTrig : ∀ st rs, NoTrigCalls (resBody st rs) := by
  intro st rs
  obtain ⟨pc, rq⟩ := st
  show NoTrigCalls (resProg pc rq)
  match pc with
  | 0 =>
    refine NoTrigCalls.call _ _ (by intro e v h; cases h) (by intro e v h; cases h) (noTrig_cont _ ?_)
    intro rp; cases rp <;> first | exact Or.inl ⟨_, _, rfl⟩ | exact Or.inr ⟨_, rfl⟩
  | 1 =>
    refine NoTrigCalls.call _ _ (by intro e v h; cases h) (by intro e v h; cases h) (noTrig_cont _ ?_)
    intro rp; cases rp <;> first | exact Or.inl ⟨_, _, rfl⟩ | exact Or.inr ⟨_, rfl⟩
  | 2 =>
    refine NoTrigCalls.call _ _ (by intro e v h; cases h) (by intro e v h; cases h) (noTrig_cont _ ?_)
    intro rp; cases rp <;> first | exact Or.inl ⟨_, _, rfl⟩ | exact Or.inr ⟨_, rfl⟩
  | n + 3 => exact NoTrigCalls.ret _

theorem next_reach (body : St → Resume → Burst ℚ St) (hb : ∀ st rs, NoTrigCalls (body st rs)) (s0 s : KState ℚ St)
    (h : DReach body 3 s0 s) (hs : ((step body 3 s).state?).isSome = true) : DReach body 3 s0 (next body s) := by
  refine DReach.step h (stepDom_of_noTrig body hb 3 s) ?_
  unfold next
  cases hst : (step body 3 s).state? with
  | none => rw [hst] at hs; cases hs
  | some s' => rfl

/-- decidable form of `AboutToAdvance` -/
def advB (s : KState ℚ St) : Bool :=
  match popMin s.agenda with
  | none => true
  | some (q, _) => decide (s.now < q.time)

theorem advance_of_advB (s : KState ℚ St) (h : advB s = true) : AboutToAdvance s := by
  intro q rest hq
  unfold advB at h
  rw [hq] at h
  simpa using h

theorem resS0_sinv : SInv resS0 := by
  have base : SInv ({ now := 0, resources := #[{ kind := .resource, capacity := some 1 }] } : KState ℚ St) := by
    apply sinv_init
    intro r
    match r with
    | 0 => exact ⟨rfl, rfl, rfl⟩
    | n + 1 => simp [default]
  exact doCall_sinv (doCall_sinv base 0 (Call.spawn (0, 0)) trivial) 0 (Call.spawn (0, 0)) trivial

theorem resS3_reach : DReach resBody 3 resS0 resS3 := by
  refine next_reach _ resBody_noTrig _ _ (next_reach _ resBody_noTrig _ _ (next_reach _ resBody_noTrig _ _ DReach.init ?_) ?_) ?_
  · decide +kernel
  · decide +kernel
  · decide +kernel

theorem resS3_advance : AboutToAdvance resS3 := advance_of_advB _ (by decide +kernel)

theorem resS3_queue : (resS3.res 0).putQ.length = 1 ∧ isResKind (resS3.res 0).kind = true := by decide +kernel

/-! ### Container: a blocked `put(5)`, a `put(1)` behind it, then the `put(5)` is cancelled -/

def conProg : Nat → EvId → Burst ℚ St
  | 0, _ => .call (.cput 0 5) fun rp => match rp with
      | .ev e => .call (.timeout 1 .none) fun rp2 => match rp2 with
          | .ev t => .yield t (1, e)
          | _ => .ret .none
      | _ => .ret .none
  | 1, rq => .call (.cancel rq) fun _ => .ret .none
  | 10, _ => .call (.cput 0 1) fun rp => match rp with
      | .ev e => .yield e (11, e)
      | _ => .ret .none
  | _, _ => .ret .none

def conBody : St → Resume → Burst ℚ St := fun st _ => conProg st.1 st.2

def conS0 : KState ℚ St :=
  [Call.spawn (0, 0), Call.spawn (10, 0)].foldl (fun s c => (doCall s 0 c).1)
    { now := 0, resources := #[{ kind := .container, capacity := some 10, level := 7 }] }

/-- both puts are queued, the only agenda entry is the timeout at 1: the clock is about to advance -/
def conS2 : KState ℚ St := next conBody (next conBody conS0)

/-- four steps later (the cancel at time 1 and the events it triggered have been processed) -/
def conS6 : KState ℚ St := next conBody (next conBody (next conBody (next conBody conS2)))

theorem conBody_noTrig : ∀ st rs, NoTrigCalls (conBody st rs) := by
  intro st rs
  obtain ⟨pc, rq⟩ := st
  show NoTrigCalls (conProg pc rq)
  unfold conProg
  split
  · refine NoTrigCalls.call _ _ (by intro e v h; cases h) (by intro e v h; cases h) ?_
    intro rp
    cases rp <;> first
      | exact NoTrigCalls.ret _
      | (refine NoTrigCalls.call _ _ (by intro e v h; cases h) (by intro e v h; cases h) (noTrig_cont _ ?_)
         intro rp2; cases rp2 <;> first | exact Or.inl ⟨_, _, rfl⟩ | exact Or.inr ⟨_, rfl⟩)
  · exact NoTrigCalls.call _ _ (by intro e v h; cases h) (by intro e v h; cases h) (fun _ => NoTrigCalls.ret _)
  · refine NoTrigCalls.call _ _ (by intro e v h; cases h) (by intro e v h; cases h) (noTrig_cont _ ?_)
    intro rp; cases rp <;> first | exact Or.inl ⟨_, _, rfl⟩ | exact Or.inr ⟨_, rfl⟩
  · exact NoTrigCalls.ret _

theorem conS0_sinv : SInv conS0 := by
  have base : SInv ({ now := 0, resources := #[{ kind := .container, capacity := some 10, level := 7 }] } : KState ℚ St) := by
    apply sinv_init
    intro r
    match r with
    | 0 => exact ⟨rfl, rfl, rfl⟩
    | n + 1 => simp [default]
  exact doCall_sinv (doCall_sinv base 0 (Call.spawn (0, 0)) trivial) 0 (Call.spawn (10, 0)) trivial

theorem conS2_reach : DReach conBody 3 conS0 conS2 := by
  refine next_reach _ conBody_noTrig _ _ (next_reach _ conBody_noTrig _ _ DReach.init ?_) ?_
  · decide +kernel
  · decide +kernel

theorem conS6_reach : DReach conBody 3 conS0 conS6 := by
  refine next_reach _ conBody_noTrig _ _ (next_reach _ conBody_noTrig _ _ (next_reach _ conBody_noTrig _ _
    (next_reach _ conBody_noTrig _ _ conS2_reach ?_) ?_) ?_) ?_
  · decide +kernel
  · decide +kernel
  · decide +kernel
  · decide +kernel

theorem conS2_advance : AboutToAdvance conS2 := advance_of_advB _ (by decide +kernel)
theorem conS6_advance : AboutToAdvance conS6 := advance_of_advB _ (by decide +kernel)

/-- before the cancel: two puts queued, level 7; afterwards: queue empty, level 8 (the `put(1)` went through at the
instant of the cancel) -/
theorem conS_facts : (conS2.res 0).putQ.length = 2 ∧ (conS2.res 0).level = 7 ∧
    (conS6.res 0).putQ.length = 0 ∧ (conS6.res 0).level = 8 := by decide +kernel

end Demo
