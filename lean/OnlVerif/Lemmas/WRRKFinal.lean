import OnlVerif.Lemmas.WRRKOracle
/-!
# The WRR scheduler on the kernel model: the full invariant along runs, and what holds when `run()` has returned
-/

set_option linter.unusedSimpArgs false

namespace WRRK
open WRROnK QEntry MQ

variable {F : Nat} {flow size : Int → Nat} {cfg : WRR.Cfg ℚ} {arrivals : List (ℚ × Int)}
variable {s : KS} {a : A} {q : QEntry ℚ} {rest : List (QEntry ℚ)}

/-- the kernel state is a sound configuration, the run so far is an LTS run, the history passes the oracle -/
structure Inv3 (F : Nat) (flow size : Int → Nat) (cfg : WRR.Cfg ℚ) (arrivals : List (ℚ × Int)) (s : KS) (a : A) : Prop where
  i : Inv2 F flow cfg s a
  o : ∃ o, OInv F flow size cfg arrivals a s.now (histOf s.trace) o

theorem inv3_step (fuel : Nat) (h : Inv3 F flow size cfg arrivals s a) (hp : popMin s.agenda = some (q, rest)) :
    ∃ s' a', _root_.step (prog F flow size cfg) (fuel + 1) s = .ok s' ∧ Inv3 F flow size cfg arrivals s' a' ∧
      a'.mu F + 1 ≤ a.mu F := by
  obtain ⟨s', a', new, h1, h2, h3, h4, h5, h6, -⟩ := inv_step_lts (size := size) fuel h.i hp
  have hmin := (isMin_of_pop h.i.i.k hp).1
  obtain ⟨o, ho⟩ := h.o
  obtain ⟨o', ho'⟩ := oinv_step (h.i.i.a.advance hmin) (ho.advance h.i.i.a hmin) h4
  exact ⟨s', a', h1, ⟨h2, o', by rw [h5, h6]; exact ho'⟩, h3⟩

theorem inv3_init (hw : WorkOK flow F arrivals) (ht : FlowsOK F cfg) (hr : 0 < cfg.rate) :
    Inv3 F flow size cfg arrivals (initState F arrivals) (a0 arrivals) := by
  refine ⟨⟨inv_init arrivals hw ht hr, ?_⟩, oInit, ?_⟩
  · rw [initState_trace]; exact ⟨rfl, rfl⟩
  · rw [initState_trace, initState_now]
    refine ⟨rfl, fun f _ => rfl, ?_, ⟨rfl, ?_, rfl, rfl⟩, rfl⟩
    · intro f _ x hx; simp [oInit] at hx
    · intro f _ x hx; simp [oInit] at hx

/-- **every state reachable by kernel steps satisfies the full invariant** -/
theorem reach_inv3 (fuel : Nat) (hw : WorkOK flow F arrivals) (ht : FlowsOK F cfg) (hr : 0 < cfg.rate)
    (h : KReach (prog F flow size cfg) (fuel + 1) (initState F arrivals) s) : ∃ a, Inv3 F flow size cfg arrivals s a := by
  induction h with
  | init => exact ⟨a0 arrivals, inv3_init hw ht hr⟩
  | @step s s' _ hs ih =>
    obtain ⟨a, hi⟩ := ih
    cases hp : popMin s.agenda with
    | none => simp [_root_.step, hp, StepResult.state?] at hs
    | some qr =>
      obtain ⟨q, rest⟩ := qr
      obtain ⟨s'', a', h1, h2, -⟩ := inv3_step fuel hi hp
      rw [h1] at hs
      simp only [StepResult.state?, Option.some.injEq] at hs
      subst hs
      exact ⟨a', h2⟩

/-- with an empty agenda everything has been served -/
theorem inv3_final (h : Inv3 F flow size cfg arrivals s a) (he : s.agenda = []) :
    ∃ o, orun F flow size cfg oInit (histOf s.trace) = some o ∧ drained F o = true ∧
      obsPuts (histOf s.trace) = arrivalsFrom 0 arrivals ∧
      (∀ c, heldC (WRR.sched cfg) (toM cfg.flows flow size a s.now) c = []) := by
  have hag := h.i.i.k.ag
  rw [he] at hag
  have hent : a.entries = [] := List.Perm.eq_nil hag.symm
  simp only [A.entries, List.append_eq_nil_iff, pendEntries, List.map_eq_nil_iff] at hent
  obtain ⟨hro, hsr, hpe⟩ := hent
  obtain ⟨o, ho⟩ := h.o
  have hi := h.i.i.a
  cases hrun : a.run with
  | init q0 => simp [hrun, RPhase.entries] at hro
  | K g q0 => simp [hrun, RPhase.entries] at hro
  | H g m jj id q0 => simp [hrun, RPhase.entries] at hro
  | S p m jj id q0 => simp [hrun, RPhase.entries] at hro
  | T p t m jj id q0 => simp [hrun, RPhase.entries] at hro
  | F p m jj id q0 => simp [hrun, RPhase.entries] at hro
  | W g =>
    cases hsrc : a.src with
    | init q0 arr => simp [hsrc, SPhase.entries] at hsr
    | wait id arr q0 => simp [hsrc, SPhase.entries] at hsr
    | ending q0 => simp [hsrc, SPhase.entries] at hsr
    | done =>
      have hp := hi.run
      rw [hrun] at hp
      have htk : a.tokens = 0 := by
        by_contra hc
        obtain ⟨u, hu⟩ := hp.2.1 hc
        rw [hpe] at hu; cases hu
      have hit := hp.1 htk
      have hph := ho.ph
      rw [hrun] at hph
      have hw : ∀ f, f < F → o.waiting f = [] := fun f hf => waiting_nil ho hf (by simp [heldH, hrun]) (hit f hf)
      refine ⟨o, ho.run, ?_, ?_, ?_⟩
      · simp only [drained, hph.1, Option.isSome_none, Bool.and_eq_true, List.all_eq_true, List.mem_range]
        exact ⟨rfl, fun f hf => by rw [hw f hf]; rfl⟩
      · have := ho.fut
        rw [hsrc] at this
        simpa [srcFuture] using this
      · intro c
        have hst : storeOf (toM cfg.flows flow size a s.now).stores c = [] := by
          by_cases hc : c < F
          · rw [storeOf_toM hi s.now c hc, hit c hc]; rfl
          · simp only [storeOf, lookupD, toM, lookup_dictOf]
            have : c ∉ a.keys := fun hk => hc (hi.keysOK.1 c hk)
            simp [this]
        simp only [heldC, inHand, toM, phaseOf, hrun, lookupD, MQ.lookup, List.filter_nil, List.nil_append]
        exact hst

/-- **`run()` returns** (with the full invariant) -/
theorem run_returns3 (fuel : Nat) (s0 : KS) : ∀ (n : Nat) (s : KS) (a : A), Inv3 F flow size cfg arrivals s a → a.mu F < n →
    KReach (prog F flow size cfg) (fuel + 1) s0 s →
    ∃ sF aF, runLoop (prog F flow size cfg) (fuel + 1) none n s = .returned .none sF ∧
      Inv3 F flow size cfg arrivals sF aF ∧ sF.agenda = [] ∧ KReach (prog F flow size cfg) (fuel + 1) s0 sF
  | 0, _, _, _, hmu, _ => absurd hmu (Nat.not_lt_zero _)
  | n + 1, s, a, h, hmu, hre => by
    cases hp : popMin s.agenda with
    | none =>
      refine ⟨s, a, ?_, h, popMin_none hp, hre⟩
      simp [runLoop, _root_.step, hp]
    | some qr =>
      obtain ⟨q, rest⟩ := qr
      obtain ⟨s', a', h1, h2, h3⟩ := inv3_step fuel h hp
      have := run_returns3 fuel s0 n s' a' h2 (by omega) (KReach.step hre (by rw [h1]; rfl))
      simpa [runLoop, h1] using this

/-- the entry and iteration at which a burst of `run` resumes its loops: the next iteration of the visit in progress, or the
top -/
def resumeAt : RPhase → Nat × Nat
  | .S _ m jj _ _ => (m, jj + 1)
  | .T _ _ m jj _ _ => (m, jj + 1)
  | .F _ m jj _ _ => (m, jj + 1)
  | _ => (0, 0)

/-- a configuration step in which `run` takes a packet is a decision of the loops: the packet is the head of the store of
entry `m'` of `weights`, within its weight; either it is the next iteration of the visit in progress, or that visit is over
(allowance used up or store empty) and the store of every entry the cyclic order visits before `m'` is empty before the
step -/
theorem astep_decision {n e : Nat} {a' : A} {new : List (HEv ℚ)} {now : ℚ} (hi : AInv flow F cfg a now)
    (hs : AStep F flow size cfg n e a q a' new) {g : EvId} {m' jj' : Nat} {id : Int} {q' : QEntry ℚ}
    (h' : a'.run = .H g m' jj' id q') (hn : ∀ g m jj id q0, a.run ≠ .H g m jj id q0) :
    (∃ w, cfg.weights[m']? = some (flow id, w) ∧ jj' < w) ∧ (∃ is, a.items (flow id) = id :: is) ∧
      ((m' = (resumeAt a.run).1 ∧ jj' = (resumeAt a.run).2) ∨
        (jj' = 0 ∧
          (∀ f0 w0, cfg.weights[(resumeAt a.run).1]? = some (f0, w0) → w0 ≤ (resumeAt a.run).2 ∨ a.items f0 = []) ∧
          ∀ j' ∈ skipped cfg.weights.length ((resumeAt a.run).1 + 1) m', ∀ e, cfg.weights[j']? = some e → a.items e.1 = [])) := by
  have key : ∀ {m0 j0 m1 j1 f0 : Nat} {id0 : Int} {is0 : List Int}, a.run.held = none →
      a.loop F cfg.weights m0 j0 = .hit m1 j1 f0 → f0 < F → a.items f0 = id0 :: is0 → m1 = m' → j1 = jj' → id0 = id →
      (∃ w, cfg.weights[m']? = some (flow id, w) ∧ jj' < w) ∧ (∃ is, a.items (flow id) = id :: is) ∧
        ((m' = m0 ∧ jj' = j0) ∨
          (jj' = 0 ∧ (∀ f0 w0, cfg.weights[m0]? = some (f0, w0) → w0 ≤ j0 ∨ a.items f0 = []) ∧
            ∀ j' ∈ skipped cfg.weights.length (m0 + 1) m', ∀ e, cfg.weights[j']? = some e → a.items e.1 = [])) := by
    intro m0 j0 m1 j1 f0 id0 is0 hheld hs0 hf0 hit0 hm hj hid
    subst hm hj hid
    have hfl : flow id0 = f0 := hi.flowOK f0 hf0 id0 (by rw [hit0]; simp)
    have hempty : ∀ f', f' < F → ¬ 0 < a.cnt f' → a.items f' = [] := by
      intro f' hfF hnp
      have h0 := cnt_nonneg hi hfF
      have hc := hi.cntOK _ hfF
      simp only [heldCnt, hheld] at hc
      exact List.eq_nil_of_length_eq_zero (by omega)
    refine ⟨by rw [hfl]; exact (loop_hit_spec hs0).1, ⟨is0, by rw [hfl]; exact hit0⟩, ?_⟩
    rcases loop_hit_cases hs0 with hc | ⟨hj, -, hov, hsk⟩
    · exact Or.inl hc
    · refine Or.inr ⟨hj, ?_, ?_⟩
      · intro f1 w1 h1
        rcases hov f1 w1 h1 with h2 | h2
        · exact Or.inl h2
        · exact Or.inr (hempty f1 (entry_lt hi (List.mem_of_getElem? h1)) h2)
      · intro j' hj' e1 he1
        have hin := List.mem_of_getElem? he1
        exact hempty e1.1 (entry_lt hi hin) (fun hp => hsk j' hj' e1 he1 ⟨hi.table.2 e1 hin, hp⟩)
  cases hs with
  | wakeHit g0 m1 j1 f0 id0 is0 h hs0 hf0 hit0 =>
    simp only [RPhase.H.injEq] at h'
    have := key (by simp [h, RPhase.held]) hs0 hf0 hit0 h'.2.1 h'.2.2.1 h'.2.2.2.1
    simpa [resumeAt, h] using this
  | doneHit p m0 j0 id1 m1 j1 f0 id0 is0 h hs0 hf0 hit0 =>
    simp only [RPhase.H.injEq] at h'
    have := key (by simp [h, RPhase.held]) hs0 hf0 hit0 h'.2.1 h'.2.2.1 h'.2.2.2.1
    simpa [resumeAt, h] using this
  | runInit h => cases h'
  | wakeBlock g0 h hs0 htk => cases h'
  | wakeTok g0 t h hs0 htk => cases h'
  | pktResume g0 m0 j0 id0 h => cases h'
  | sendInit p m0 j0 id0 h => cases h'
  | sendFire p t m0 j0 id0 h => cases h'
  | doneBlock p m0 j0 id0 h hs0 htk => cases h'
  | doneTok p m0 j0 id0 t h hs0 htk => cases h'
  | srcInit arr h => exact absurd h' (hn _ _ _ _ _)
  | srcPutTok id0 arr h htot => exact absurd h' (hn _ _ _ _ _)
  | srcPutPlain id0 arr h htot => exact absurd h' (hn _ _ _ _ _)
  | srcEnd h => exact absurd h' (hn _ _ _ _ _)
  | pendNoop r l1 l2 hpe hno => exact absurd h' (hn _ _ _ _ _)
  | pendHand g0 t l1 l2 hpe h htk => cases h'

end WRRK
