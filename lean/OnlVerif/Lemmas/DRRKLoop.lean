import OnlVerif.Lemmas.DRRKBurst
/-!
# The DRR scheduler on the kernel model: the nested loops of `DRR.run` executed by the kernel model are `A.burst`
-/

set_option linter.unusedSimpArgs false

namespace DRRK
open DRROnK
open TimerK (lookup plookup afterBurst resume_eq step_eq dec_enc lookup_store)

/-- the program a burst of `run` ends with -/
def endProg : LoopEnd → Burst ℚ St
  | .get m c => runTake m c
  | .send m _ id _ => .call (.store cCur (.int id)) fun _ => runServe id m
  | .idle => runWait
  | .hang => .raise hangErr

/-- where a piece of the loops goes on -/
def tgt (next : Burst ℚ St) : Option LoopEnd → Burst ℚ St
  | some e => endProg e
  | none => next

variable {F : Nat} {Q : Nat → ℚ} {flow size : Int → Nat} {p : EvId}

theorem upd_upd_self {β : Type} (g : Nat → β) (c : Nat) (v w : β) (h : g c = w) : upd (upd g c v) c w = g := by
  funext x
  by_cases hx : x = c
  · subst hx; simp [h]
  · simp [upd_ne _ _ _ _ hx]

/-- **the inner `while` at its test** -/
theorem reaches_innerAt {a : A} {L : LS} {H0 : List (HEv ℚ)} {S : KS} {t : ℚ} (hnow : S.now = t)
    (hc : Cells F Q S.shared (finA a L none)) (hH : histOf S.trace = H0 ++ L.evs)
    {c : Nat} (hcF : c < F) (hfl : ∀ id, a.hol c = some id → flow id = c) (next : Burst ℚ St) (m : Nat) :
    Reaches F Q p S (DRROnK.innerAt flow size next m c) (tgt next (innerAt size a.ccnt a.hol t m c L).2)
      (finA a (innerAt size a.ccnt a.hol t m c L).1 (innerAt size a.ccnt a.hol t m c L).2)
      (H0 ++ (innerAt size a.ccnt a.hol t m c L).1.evs) := by
  have hd : lookup S.shared (cDef c) = TimeCell.enc (L.dfc c) := hc.cd c hcF
  have hn : lookup S.shared (cCls c) = .int (a.ccnt c) := hc.cq c hcF
  have hh : lookup S.shared (cHol c) = optVal (a.hol c) := hc.ch c hcF
  refine Reaches.of_eq (mid := ?mid) ?h ?_
  case h => rw [DRROnK.innerAt, rb_loadTime p _ _ _ S hd, rb_loadKey p _ _ _ S hn]
  unfold innerAt
  by_cases hcond : Num.zero < L.dfc c ∧ 0 < a.ccnt c
  · simp only [hcond, and_self, if_true]
    cases hhol : a.hol c with
    | none =>
      rw [hhol] at hh
      refine Reaches.of_eq (mid := runTake m c) ?_ (Reaches.refl hc hH)
      simp [runBurst_call, doCall_load, noteErr, hh, optVal]
    | some id =>
      rw [hhol] at hh
      have hfid := hfl id hhol
      have hc1 := hc.setHol c none
      refine Reaches.via ((cHol c, optVal none) :: S.shared.filter (·.1 != cHol c)) S.trace
        (mid := gotPkt flow size next m c id) ?_ ?_
      · simp [runBurst_call, doCall_load, doCall_store, noteErr, hh, optVal, wc]
      have hd1 : lookup ((cHol c, optVal none) :: S.shared.filter (·.1 != cHol c)) (cDef c) = TimeCell.enc (L.dfc c) :=
        hc1.cd c hcF
      refine Reaches.of_eq (mid := ?mid2) ?h2 ?_
      case h2 => rw [gotPkt, rb_loadTime p _ _ _ _ hd1]
      by_cases hle : (Num.ofNat (size id) : ℚ) ≤ L.dfc c
      · simp only [hle, if_true, hfid, tgt, endProg]
        exact Reaches.refl hc1 (by simpa using hH)
      · simp only [hle, if_false, hfid, if_true, tgt]
        have hh1 := hc1.ch c hcF
        have hc2 := hc1.setHol c (some id)
        refine Reaches.via
          ((cHol c, optVal (some id)) :: ((cHol c, optVal none) :: S.shared.filter (·.1 != cHol c)).filter (·.1 != cHol c))
          (S.trace.push (.log p "park" (.int id) S.now)) (mid := next) ?_ ?_
        · simp [runBurst_call, doCall_load, doCall_store, doCall_log, noteErr, optVal, wc, lookup_store]
        refine Reaches.refl ?_ ?_
        · refine hc2.congr rfl rfl rfl rfl rfl rfl ?_ rfl
          show a.hol = upd (upd a.hol c none) c (some id)
          exact (upd_upd_self _ _ _ _ hhol).symm
        · simp [histOf_push, hH, hnow]
  · simp only [hcond, if_false, tgt]
    exact Reaches.refl hc hH

/-- **the head of the `for` body**: the quantum is added to the credit of a backlogged class -/
theorem reaches_visitAdd {a : A} {L : LS} {H0 : List (HEv ℚ)} {S : KS} {t : ℚ} (hnow : S.now = t)
    (hc : Cells F Q S.shared (finA a L none)) (hH : histOf S.trace = H0 ++ L.evs)
    {c : Nat} (hcF : c < F) (onEnd : Burst ℚ St) (m w : Nat) (rest : List (Nat × Nat)) :
    Reaches F Q p S (DRROnK.visitFrom flow size onEnd m ((c, w) :: rest))
      (DRROnK.innerAt flow size (DRROnK.visitFrom flow size onEnd (m + 1) rest) m c)
      (finA a (visitAdd Q a.ccnt t c L) none) (H0 ++ (visitAdd Q a.ccnt t c L).evs) := by
  have hd : lookup S.shared (cDef c) = TimeCell.enc (L.dfc c) := hc.cd c hcF
  have hn : lookup S.shared (cCls c) = .int (a.ccnt c) := hc.cq c hcF
  have hq : lookup S.shared (cQuant c) = TimeCell.enc (Q c) := hc.cu c hcF
  refine Reaches.of_eq (mid := ?mid) ?h ?_
  case h => rw [DRROnK.visitFrom, rb_loadKey p _ _ _ S hn]
  unfold visitAdd
  by_cases hpos : 0 < a.ccnt c
  · simp only [hpos, if_true]
    refine Reaches.via ((cDef c, TimeCell.enc (L.dfc c + Q c)) :: S.shared.filter (·.1 != cDef c))
      ((S.trace.push (.log p "visit" (.int (c : Int)) S.now)).push (.log p "credit" (TimeCell.enc (L.dfc c + Q c)) S.now))
      (mid := DRROnK.innerAt flow size (DRROnK.visitFrom flow size onEnd (m + 1) rest) m c) ?_ ?_
    · rw [rb_loadTime p _ _ _ S hd, rb_loadTime p _ _ _ S hq, rb_store, rb_log_int, rb_log_enc]
      rfl
    · refine Reaches.refl (hc.setDef c (L.dfc c + Q c)) ?_
      simp [histOf_push, hH, hnow]
  · simp only [hpos, if_false]
    exact Reaches.refl hc hH

/-- **the `for` loop** -/
theorem reaches_visitFrom {a : A} {H0 : List (HEv ℚ)} {t : ℚ} (onEnd : Burst ℚ St) :
    ∀ (ws' : List (Nat × Nat)) (m : Nat) (L : LS) (S : KS), S.now = t →
      Cells F Q S.shared (finA a L none) → histOf S.trace = H0 ++ L.evs →
      (∀ e ∈ ws', e.1 < F) → (∀ e ∈ ws', ∀ id, a.hol e.1 = some id → flow id = e.1) →
      Reaches F Q p S (DRROnK.visitFrom flow size onEnd m ws')
        (tgt onEnd (visitFrom Q size a.ccnt a.hol t m ws' L).2)
        (finA a (visitFrom Q size a.ccnt a.hol t m ws' L).1 (visitFrom Q size a.ccnt a.hol t m ws' L).2)
        (H0 ++ (visitFrom Q size a.ccnt a.hol t m ws' L).1.evs)
  | [], m, L, S, _, hc, hH, _, _ => by
    simp only [visitFrom, DRROnK.visitFrom, tgt]
    exact Reaches.refl hc hH
  | (c, w) :: rest, m, L, S, hnow, hc, hH, hF, hfl => by
    have hcF : c < F := hF (c, w) List.mem_cons_self
    refine (reaches_visitAdd (flow := flow) (size := size) hnow hc hH hcF onEnd m w rest).trans ?_
    intro sh tr hc1 hH1
    have h2 := reaches_innerAt (p := p) (flow := flow) (size := size) (S := wc S sh tr) (t := t) (by simpa using hnow) hc1 hH1 hcF
      (hfl (c, w) List.mem_cons_self) (DRROnK.visitFrom flow size onEnd (m + 1) rest) m
    rw [visitFrom]
    cases hr : innerAt size a.ccnt a.hol t m c (visitAdd Q a.ccnt t c L) with
    | mk L' oe =>
      rw [hr] at h2
      cases oe with
      | some e => exact h2
      | none =>
        refine h2.trans ?_
        intro sh2 tr2 hc2 hH2
        exact reaches_visitFrom onEnd rest (m + 1) L' (wc (wc S sh tr) sh2 tr2) (by simpa using hnow) hc2 hH2
          (fun e he => hF e (List.mem_cons_of_mem _ he)) (fun e he => hfl e (List.mem_cons_of_mem _ he))

/-- **`while self.total_packets > 0`** with `k` passes allowed -/
theorem reaches_passes {a : A} {H0 : List (HEv ℚ)} {t : ℚ} (ws : List (Nat × Nat)) (hF : ∀ e ∈ ws, e.1 < F)
    (hfl : ∀ e ∈ ws, ∀ id, a.hol e.1 = some id → flow id = e.1) :
    ∀ (k : Nat) (L : LS) (S : KS), S.now = t → Cells F Q S.shared (finA a L none) → histOf S.trace = H0 ++ L.evs →
      Reaches F Q p S (DRROnK.passes F flow size ws k) (endProg (passes Q size a.ccnt a.hol t (a.total F) ws k L).2)
        (finA a (passes Q size a.ccnt a.hol t (a.total F) ws k L).1 (some (passes Q size a.ccnt a.hol t (a.total F) ws k L).2))
        (H0 ++ (passes Q size a.ccnt a.hol t (a.total F) ws k L).1.evs)
  | 0, L, S, _, hc, hH => by
    simp only [passes, DRROnK.passes, endProg]
    exact Reaches.refl hc hH
  | k + 1, L, S, hnow, hc, hH => by
    refine Reaches.of_eq (mid := ?mid) ?h ?_
    case h => rw [DRROnK.passes, rb_total p F a.cnt S _ hc.cc]
    rw [passes]
    show Reaches F Q p S (if 0 < a.total F then _ else _) _ _ _
    by_cases hpos : 0 < a.total F
    · simp only [hpos, if_true]
      have h1 := reaches_visitFrom (p := p) (flow := flow) (size := size) (DRROnK.passes F flow size ws k) ws 0 L S hnow hc hH hF hfl
      cases hr : visitFrom Q size a.ccnt a.hol t 0 ws L with
      | mk L' oe =>
        rw [hr] at h1
        cases oe with
        | some e => exact h1
        | none =>
          refine h1.trans ?_
          intro sh tr hc1 hH1
          exact reaches_passes ws hF hfl k L' (wc S sh tr) (by simpa using hnow) hc1 hH1
    · simp only [hpos, if_false]
      by_cases hz : a.total F = 0
      · have hz' : sumFrom a.cnt 0 F = 0 := hz
        simp only [hz, hz', if_true, endProg]
        exact Reaches.refl hc hH
      · have hz' : ¬ sumFrom a.cnt 0 F = 0 := hz
        simp only [hz, hz', if_false, endProg]
        exact Reaches.refl hc hH

/-- the rest of the burst after a piece of the `for` loop -/
theorem reaches_thenPasses {a : A} {H0 : List (HEv ℚ)} {t : ℚ} (ws : List (Nat × Nat)) (hF : ∀ e ∈ ws, e.1 < F)
    (hfl : ∀ e ∈ ws, ∀ id, a.hol e.1 = some id → flow id = e.1) (P : Nat) {S : KS} (hnow : S.now = t) {prog : Burst ℚ St}
    (r : LS × Option LoopEnd)
    (h : Reaches F Q p S prog (tgt (DRROnK.passes F flow size ws P) r.2) (finA a r.1 r.2) (H0 ++ r.1.evs)) :
    Reaches F Q p S prog (endProg (thenPasses Q size a.ccnt a.hol t (a.total F) ws P r).2)
      (finA a (thenPasses Q size a.ccnt a.hol t (a.total F) ws P r).1 (some (thenPasses Q size a.ccnt a.hol t (a.total F) ws P r).2))
      (H0 ++ (thenPasses Q size a.ccnt a.hol t (a.total F) ws P r).1.evs) := by
  obtain ⟨L', oe⟩ := r
  cases oe with
  | some e => exact h
  | none =>
    refine h.trans ?_
    intro sh tr hc1 hH1
    exact reaches_passes ws hF hfl P L' (wc S sh tr) (by simpa using hnow) hc1 hH1

/-! ## whole bursts -/

/-- the program of a burst of `run` -/
def entryProg (F : Nat) (flow size : Int → Nat) (ws : List (Nat × Nat)) (P : Nat) : Entry → Burst ℚ St
  | .top => DRROnK.passes F flow size ws P
  | .got m id => resumeGot F flow size ws P m id
  | .done m id => resumeDone F flow size ws P m id

/-- what a burst needs of its entry point: the entry of `class_count` exists; a packet taken from a store belongs to the
class of the entry, which has no parked head -/
def EntryOK (flow : Int → Nat) (a : A) (ws : List (Nat × Nat)) : Entry → Prop
  | .top => True
  | .got m id => ∃ w rest, ws.drop m = (flow id, w) :: rest ∧ a.hol (flow id) = none
  | .done m id => ∃ w rest, ws.drop m = (flow id, w) :: rest

theorem upd_upd {β : Type} (g : Nat → β) (c : Nat) (v w : β) : upd (upd g c v) c w = upd g c w := by
  funext x
  by_cases hx : x = c
  · subst hx; simp
  · simp [upd_ne _ _ _ _ hx]

theorem finA_self (a : A) : finA a ⟨a.dfc, []⟩ none = a := rfl

theorem reaches_burst_top {a : A} {H0 : List (HEv ℚ)} {S : KS} {t : ℚ} (hnow : S.now = t) (hc : Cells F Q S.shared a)
    (hH : histOf S.trace = H0) (ws : List (Nat × Nat)) (hF : ∀ e ∈ ws, e.1 < F)
    (hfl : ∀ e ∈ ws, ∀ id, a.hol e.1 = some id → flow id = e.1) (P : Nat) :
    Reaches F Q p S (entryProg F flow size ws P .top) (endProg (a.burst F Q size ws P t .top).fin)
      (a.burst F Q size ws P t .top).a (H0 ++ (a.burst F Q size ws P t .top).evs) := by
  have := reaches_passes (p := p) (flow := flow) (size := size) (a := a) (H0 := H0) (t := t) ws hF hfl P ⟨a.dfc, []⟩ S hnow hc
    (by simpa using hH)
  simpa [A.burst, finish, entryProg] using this

theorem reaches_burst_got {a : A} {H0 : List (HEv ℚ)} {S : KS} {t : ℚ} (hnow : S.now = t) (hc : Cells F Q S.shared a)
    (hH : histOf S.trace = H0) (ws : List (Nat × Nat)) (hF : ∀ e ∈ ws, e.1 < F)
    (hfl : ∀ e ∈ ws, ∀ id, a.hol e.1 = some id → flow id = e.1) (P m : Nat) (id : Int) {w : Nat} {rest : List (Nat × Nat)}
    (hws : ws.drop m = (flow id, w) :: rest) (hhol : a.hol (flow id) = none) :
    Reaches F Q p S (entryProg F flow size ws P (.got m id)) (endProg (a.burst F Q size ws P t (.got m id)).fin)
      (a.burst F Q size ws P t (.got m id)).a (H0 ++ (a.burst F Q size ws P t (.got m id)).evs) := by
  have hcF : flow id < F := hF (flow id, w) (List.mem_of_mem_drop (by rw [hws]; exact List.mem_cons_self))
  have hd : lookup S.shared (cDef (flow id)) = TimeCell.enc (a.dfc (flow id)) := hc.cd _ hcF
  have hh : lookup S.shared (cHol (flow id)) = optVal (a.hol (flow id)) := hc.ch _ hcF
  rw [hhol] at hh
  simp only [entryProg, resumeGot, A.burst, hws]
  refine Reaches.of_eq (mid := ?mid) ?h ?_
  case h => rw [gotPkt, rb_loadTime p _ _ _ S hd]
  by_cases hle : (Num.ofNat (size id) : ℚ) ≤ a.dfc (flow id)
  · simp only [hle, if_true, endProg, List.append_nil]
    exact Reaches.refl hc hH
  · simp only [hle, if_false, if_true]
    have hc1 := hc.setHol (flow id) (some id)
    have hrest : ∀ e ∈ rest, e ∈ ws := fun e he => List.mem_of_mem_drop (by rw [hws]; exact List.mem_cons_of_mem _ he)
    have hfl1 : ∀ e ∈ ws, ∀ id', upd a.hol (flow id) (some id) e.1 = some id' → flow id' = e.1 := by
      intro e he id' h
      by_cases hec : e.1 = flow id
      · rw [hec, upd_same] at h
        cases h; exact hec.symm
      · rw [upd_ne _ _ _ _ hec] at h
        exact hfl e he id' h
    refine Reaches.via ((cHol (flow id), optVal (some id)) :: S.shared.filter (·.1 != cHol (flow id)))
      (S.trace.push (.log p "park" (.int id) S.now))
      (mid := DRROnK.visitFrom flow size (DRROnK.passes F flow size ws P) (m + 1) rest) ?_ ?_
    · simp [runBurst_call, doCall_load, doCall_store, doCall_log, noteErr, optVal, wc, hh]
    · simp only [finish]
      rw [← List.append_assoc]
      refine reaches_thenPasses (a := { a with hol := upd a.hol (flow id) (some id) }) (H0 := H0 ++ [.park id t]) ws hF hfl1 P
        (S := wc S ((cHol (flow id), optVal (some id)) :: S.shared.filter (·.1 != cHol (flow id)))
          (S.trace.push (.log p "park" (.int id) S.now))) (by simpa using hnow) _ ?_
      exact reaches_visitFrom (a := { a with hol := upd a.hol (flow id) (some id) }) (H0 := H0 ++ [.park id t]) _ rest (m + 1)
        ⟨a.dfc, []⟩ (wc S ((cHol (flow id), optVal (some id)) :: S.shared.filter (·.1 != cHol (flow id)))
          (S.trace.push (.log p "park" (.int id) S.now))) (by simpa using hnow) hc1 (by simp [histOf_push, hH, hnow])
        (fun e he => hF e (hrest e he)) (fun e he => hfl1 e (hrest e he))

/-- the bookkeeping after a transmission -/
theorem reaches_book {a : A} {H0 : List (HEv ℚ)} {S : KS} {t : ℚ} (hnow : S.now = t) (hc : Cells F Q S.shared a)
    (hH : histOf S.trace = H0) {c : Nat} (hcF : c < F) (id : Int) (next : Burst ℚ St) :
    Reaches F Q p S
      (addKeyInt (cCls c) (-1) <|
        loadTime (cDef c) fun d =>
        .call (.store (cDef c) (TimeCell.enc (d - Num.ofNat (size id)))) fun _ =>
        .call (.log "done" (.int id)) fun _ =>
        .call (.log "credit" (TimeCell.enc (d - Num.ofNat (size id)))) fun _ =>
        loadKey (cCls c) fun n =>
        if n = 0 then
          loadTime (cForf c) fun g =>
          .call (.store (cForf c) (TimeCell.enc (g + (d - Num.ofNat (size id))))) fun _ =>
          .call (.store (cDef c) (TimeCell.enc (Num.zero : ℚ))) fun _ =>
          .call (.log "reset" (.int c)) fun _ =>
          .call (.log "credit" (TimeCell.enc (Num.zero : ℚ))) fun _ => next
        else next)
      next (a.book size c id) (H0 ++ bookEvs a c id t) := by
  have hn : lookup S.shared (cCls c) = .int (a.ccnt c) := hc.cq c hcF
  have hc1 := hc.setCls c (a.ccnt c + -1)
  have hc2 := hc1.setDef c (a.dfc c - Num.ofNat (size id))
  refine Reaches.addKeyInt hn (Reaches.loadTime (x := a.dfc c) (by simpa using hc1.cd c hcF) ?_)
  refine Reaches.store (Reaches.logInt (Reaches.logEnc ?_))
  simp only [wc_wc, wc_shared, wc_trace, wc_now]
  refine Reaches.loadKey (n := a.ccnt c + -1) (by simpa using hc2.cq c hcF) ?_
  unfold A.book bookEvs
  by_cases hz : a.ccnt c + -1 = 0
  · simp only [if_pos hz]
    have hc3 := hc2.setForf c (a.forf c + (a.dfc c - Num.ofNat (size id)))
    have hc4 := hc3.setDef c 0
    refine Reaches.loadTime (x := a.forf c) (by simpa using hc2.cf c hcF) ?_
    refine Reaches.store (Reaches.store (Reaches.logInt (Reaches.logEnc ?_)))
    simp only [wc_wc, wc_shared, wc_trace, wc_now, zero_eq']
    refine Reaches.refl (hc4.congr rfl rfl rfl rfl rfl ?_ rfl rfl) ?_
    · exact (upd_upd _ _ _ _).symm
    · simp [histOf_push, hH, hnow]
  · simp only [if_neg hz]
    refine Reaches.refl hc2 ?_
    simp [histOf_push, hH, hnow]

theorem reaches_burst_done {a : A} {H0 : List (HEv ℚ)} {S : KS} {t : ℚ} (hnow : S.now = t) (hc : Cells F Q S.shared a)
    (hH : histOf S.trace = H0) (ws : List (Nat × Nat)) (hF : ∀ e ∈ ws, e.1 < F)
    (hfl : ∀ e ∈ ws, ∀ id, a.hol e.1 = some id → flow id = e.1) (P m : Nat) (id : Int) {w : Nat} {rest : List (Nat × Nat)}
    (hws : ws.drop m = (flow id, w) :: rest) :
    Reaches F Q p S (entryProg F flow size ws P (.done m id)) (endProg (a.burst F Q size ws P t (.done m id)).fin)
      (a.burst F Q size ws P t (.done m id)).a (H0 ++ (a.burst F Q size ws P t (.done m id)).evs) := by
  have hmem : (flow id, w) ∈ ws := List.mem_of_mem_drop (by rw [hws]; exact List.mem_cons_self)
  have hcF : flow id < F := hF _ hmem
  have hrest : ∀ e ∈ rest, e ∈ ws := fun e he => List.mem_of_mem_drop (by rw [hws]; exact List.mem_cons_of_mem _ he)
  have hhol : (a.book size (flow id) id).hol = a.hol := by unfold A.book; split <;> rfl
  have hfl1 : ∀ e ∈ ws, ∀ id', (a.book size (flow id) id).hol e.1 = some id' → flow id' = e.1 := by
    rw [hhol]; exact hfl
  simp only [entryProg, resumeDone, A.burst, hws]
  by_cases hz : a.ccnt (flow id) + -1 = 0
  all_goals
    refine Reaches.of_eq (mid := ?mid) ?h ?_
    case h => rfl
    simp only [finish]
    rw [← List.append_assoc]
    refine reaches_thenPasses (a := a.book size (flow id) id) (H0 := H0 ++ bookEvs a (flow id) id t) ws hF hfl1 P hnow _ ?_
    refine (reaches_book (size := size) hnow hc hH hcF id _).trans ?_
    intro sh tr hc1 hH1
    have h2 := reaches_innerAt (p := p) (flow := flow) (size := size) (a := a.book size (flow id) id)
      (L := ⟨(a.book size (flow id) id).dfc, []⟩) (H0 := H0 ++ bookEvs a (flow id) id t) (S := wc S sh tr) (t := t)
      (by simpa using hnow) hc1 (by simpa using hH1) hcF (hfl1 _ hmem)
      (DRROnK.visitFrom flow size (DRROnK.passes F flow size ws P) (m + 1) rest) m
    cases hr : innerAt size (a.book size (flow id) id).ccnt (a.book size (flow id) id).hol t m (flow id)
        ⟨(a.book size (flow id) id).dfc, []⟩ with
    | mk L' oe =>
      rw [hr] at h2
      cases oe with
      | some e => exact h2
      | none =>
        refine h2.trans ?_
        intro sh2 tr2 hc2 hH2
        exact reaches_visitFrom _ rest (m + 1) L' _ (by simpa using hnow) hc2 hH2 (fun e he => hF e (hrest e he))
          (fun e he => hfl1 e (hrest e he))

/-- **a burst of `DRR.run` executed by the kernel model is `A.burst`**: from a state whose attribute cells are those of `a`,
the program of the burst runs into the program of its end (`endProg`) in a state that differs only by the attribute cells —
now those of the configuration `A.burst` computes — and by the observations `A.burst` lists -/
theorem reaches_burst {a : A} {H0 : List (HEv ℚ)} {S : KS} {t : ℚ} (hnow : S.now = t) (hc : Cells F Q S.shared a)
    (hH : histOf S.trace = H0) (ws : List (Nat × Nat)) (hF : ∀ e ∈ ws, e.1 < F)
    (hfl : ∀ e ∈ ws, ∀ id, a.hol e.1 = some id → flow id = e.1) (P : Nat) (en : Entry) (hen : EntryOK flow a ws en) :
    Reaches F Q p S (entryProg F flow size ws P en) (endProg (a.burst F Q size ws P t en).fin)
      (a.burst F Q size ws P t en).a (H0 ++ (a.burst F Q size ws P t en).evs) := by
  cases en with
  | top => exact reaches_burst_top hnow hc hH ws hF hfl P
  | got m id =>
    obtain ⟨w, rest, hws, hhol⟩ := hen
    exact reaches_burst_got hnow hc hH ws hF hfl P m id hws hhol
  | done m id =>
    obtain ⟨w, rest, hws⟩ := hen
    exact reaches_burst_done hnow hc hH ws hF hfl P m id hws

end DRRK
