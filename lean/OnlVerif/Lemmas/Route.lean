import Mathlib.Data.List.Basic
import Mathlib.Data.List.Nodup
import Mathlib.Tactic.Linarith
import OnlVerif.Net.Route
/-! # Lemmas about the dispatch models (`OnlVerif/Net/Route.lean`) -/

namespace Route

/-! ### association lists -/

theorem dget_dset {κ β : Type} [DecidableEq κ] (d : List (κ × β)) (k k' : κ) (v : β) :
    dget (dset d k v) k' = if k = k' then some v else dget d k' := by
  induction d with
  | nil => simp [dset, dget]
  | cons x r ih =>
    obtain ⟨a, b⟩ := x
    by_cases h : a = k
    · subst h
      by_cases h' : a = k' <;> simp [dset, dget, h']
    · by_cases h' : a = k'
      · subst h'
        have : ¬ k = a := fun e => h e.symm
        simp [dset, dget, h, this]
      · simp [dset, dget, h, h', ih]

theorem dget_dset_self {κ β : Type} [DecidableEq κ] (d : List (κ × β)) (k : κ) (v : β) :
    dget (dset d k v) k = some v := by simp [dget_dset]

theorem dget_dset_ne {κ β : Type} [DecidableEq κ] (d : List (κ × β)) (k k' : κ) (v : β) (h : k ≠ k') :
    dget (dset d k v) k' = dget d k' := by simp [dget_dset, h]

theorem dget_isSome_dset {κ β : Type} [DecidableEq κ] (d : List (κ × β)) (k k' : κ) (v : β)
    (h : (dget d k).isSome) : (dget (dset d k v) k').isSome = (dget d k').isSome := by
  rw [dget_dset]
  by_cases e : k = k'
  · subst e; simp [h]
  · simp [e]

theorem dget_map {κ β γ : Type} [DecidableEq κ] (d : List (κ × β)) (f : β → γ) (k : κ) :
    dget (d.map fun x => (x.1, f x.2)) k = (dget d k).map f := by
  induction d with
  | nil => simp [dget]
  | cons x r ih =>
    obtain ⟨a, b⟩ := x
    by_cases h : a = k <;> simp [dget, h, ih]

theorem dget_mem {κ β : Type} [DecidableEq κ] (d : List (κ × β)) (k : κ) (v : β) (h : dget d k = some v) :
    (k, v) ∈ d := by
  induction d with
  | nil => simp [dget] at h
  | cons x r ih =>
    obtain ⟨a, b⟩ := x
    by_cases e : a = k
    · subst e; simp [dget] at h; subst h; exact List.mem_cons_self
    · simp [dget, e] at h; exact List.mem_cons_of_mem _ (ih h)

/-- Python indexing with a non-negative index is plain list indexing -/
theorem pyIndex_nonneg {α : Type} (l : List α) (i : Int) (h : 0 ≤ i) : pyIndex l i = l[i.toNat]? := by
  simp [pyIndex, h]

theorem pyIndex_natCast {α : Type} (l : List α) (i : Nat) : pyIndex l (i : Int) = l[i]? := by
  simp [pyIndex]

/-! ### at most one delivery -/

theorem toDefault_length (d : Option Dev) (p : Pkt) : (toDefault d p).length ≤ 1 := by
  cases d <;> simp [toDefault]

theorem toDefault_ref (d : Option Dev) (p : Pkt) : ∀ x ∈ toDefault d p, x.2 = p.ref := by
  cases d <;> simp [toDefault]

theorem FlowDemux.put_atMostOne (c : FlowDemuxCfg) (p : Pkt) (l : List Delivery) (h : FlowDemux.put c p = .ok l) :
    l.length ≤ 1 ∧ ∀ x ∈ l, x.2 = p.ref := by
  unfold FlowDemux.put at h
  split at h
  · split at h
    · cases h; simp
    · cases h
  · cases h; exact ⟨toDefault_length _ _, toDefault_ref _ _⟩

theorem FIBDemux.lookup_atMostOne (outs : List Dev) (fib : List (Int × Int)) (d : Option Dev) (p : Pkt) :
    (FIBDemux.lookup outs fib d p).length ≤ 1 ∧ ∀ x ∈ FIBDemux.lookup outs fib d p, x.2 = p.ref := by
  unfold FIBDemux.lookup
  split
  · exact ⟨toDefault_length _ _, toDefault_ref _ _⟩
  · split
    · exact ⟨toDefault_length _ _, toDefault_ref _ _⟩
    · simp

theorem FIBDemux.put_atMostOne (c : FIBDemuxCfg) (p : Pkt) (l : List Delivery) (h : FIBDemux.put c p = .ok l) :
    l.length ≤ 1 ∧ ∀ x ∈ l, x.2 = p.ref := by
  unfold FIBDemux.put at h
  split at h
  · cases h
  · split at h
    · cases h; simp
    · cases h
      unfold FIBDemux.viaTable
      split
      · exact ⟨toDefault_length _ _, toDefault_ref _ _⟩
      · exact ⟨toDefault_length _ _, toDefault_ref _ _⟩
      · exact FIBDemux.lookup_atMostOne _ _ _ _

/-! ### the FIBDemux rules -/

theorem FIBDemux.put_end (c : FIBDemuxCfg) (fib : List (Int × Int)) (p : Pkt) (d : Dev) (hfib : c.fib = some fib)
    (hd : dget c.ends p.flowId = some d) : FIBDemux.put c p = .ok [(d, p.ref)] := by
  simp [FIBDemux.put, hfib, hd]

theorem FIBDemux.put_table (c : FIBDemuxCfg) (fib : List (Int × Int)) (p : Pkt) (outs : List Dev) (port : Int) (d : Dev)
    (hfib : c.fib = some fib) (houts : c.outs = some outs) (hends : dget c.ends p.flowId = none)
    (hport : dget fib p.flowId = some port) (h0 : 0 ≤ port) (hd : outs[port.toNat]? = some d) :
    FIBDemux.put c p = .ok [(d, p.ref)] := by
  have hne : outs ≠ [] := by
    intro e; rw [e] at hd; simp at hd
  obtain ⟨o, os, rfl⟩ := List.exists_cons_of_ne_nil hne
  simp [FIBDemux.put, hfib, hends, FIBDemux.viaTable, houts, FIBDemux.lookup, hport, pyIndex_nonneg _ _ h0, hd]

/-- an unknown flow goes to the default output — whatever the output list is (`None` and `[]` included) -/
theorem FIBDemux.put_unknown (c : FIBDemuxCfg) (fib : List (Int × Int)) (p : Pkt)
    (hfib : c.fib = some fib) (hends : dget c.ends p.flowId = none) (hnone : dget fib p.flowId = none) :
    FIBDemux.put c p = .ok (match c.default with
      | some d => [(d, p.ref)]
      | none => []) := by
  simp only [FIBDemux.put, hfib, hends, FIBDemux.viaTable]
  cases c.outs with
  | none => cases c.default <;> rfl
  | some outs =>
    cases outs with
    | nil => cases c.default <;> rfl
    | cons o os =>
      simp only [FIBDemux.lookup, hnone]
      cases c.default <;> rfl

/-- without output devices every flow that has no end device goes to the default output -/
theorem FIBDemux.put_noOutputs (c : FIBDemuxCfg) (fib : List (Int × Int)) (p : Pkt)
    (hfib : c.fib = some fib) (hends : dget c.ends p.flowId = none) (houts : c.outs = none ∨ c.outs = some []) :
    FIBDemux.put c p = .ok (match c.default with
      | some d => [(d, p.ref)]
      | none => []) := by
  simp only [FIBDemux.put, hfib, hends, FIBDemux.viaTable]
  rcases houts with h | h <;> rw [h] <;> cases c.default <;> rfl

/-! ### switch configuration -/

theorem setEnds_static (ends : List (Int × Dev)) (c : FIBDemuxCfg) :
    (ends.foldl (fun c (fd : Int × Dev) => c.setEnd fd.1 fd.2) c).outs = c.outs ∧
    (ends.foldl (fun c (fd : Int × Dev) => c.setEnd fd.1 fd.2) c).default = c.default ∧
    (ends.foldl (fun c (fd : Int × Dev) => c.setEnd fd.1 fd.2) c).fib = c.fib := by
  induction ends generalizing c with
  | nil => simp
  | cons x r ih =>
    simp only [List.foldl_cons]
    have := ih (c.setEnd x.1 x.2)
    simpa [FIBDemuxCfg.setEnd] using this

theorem FairPacketSwitch.mk_ok (n : Nat) (server : String) (c : FIBDemuxCfg) (h : FairPacketSwitch.mk n server = .ok c) :
    c.outs = some (List.range n) ∧ c.default = none ∧ c.ends = [] ∧ c.fib = none := by
  unfold FairPacketSwitch.mk at h
  split at h
  · cases h
  · cases h; simp

/-! ### Hub -/

theorem Hub.put_eq (c : HubCfg) (p : Pkt) :
    Hub.put c p = (c.filter fun e => e.eid ≠ p.src).map fun e => (e.out, p.ref) := by
  induction c with
  | nil => simp [Hub.put]
  | cons e r ih =>
    by_cases h : e.eid = p.src <;> simp [Hub.put, h, ih]

/-- the configuration the constructor loop builds, as a plain recursion -/
def Hub.spec (ports : List (Option Dev)) : Nat → List (Nat × Dev) → HubCfg
  | _, [] => []
  | i, (eid, dev) :: r => { eid, dev, port := Hub.portAt ports i } :: Hub.spec ports (i + 1) r

theorem Hub.addAll_eq (ports : List (Option Dev)) (i : Nat) (eps : List (Nat × Dev)) (c : HubCfg) :
    Hub.addAll ports i eps c = c ++ Hub.spec ports i eps := by
  induction eps generalizing i c with
  | nil => simp [Hub.addAll, Hub.spec]
  | cons x r ih =>
    obtain ⟨e, d⟩ := x
    simp [Hub.addAll, Hub.spec, ih, Hub.addEndpoint]

theorem Hub.spec_length (ports : List (Option Dev)) (i : Nat) (eps : List (Nat × Dev)) :
    (Hub.spec ports i eps).length = eps.length := by
  induction eps generalizing i with
  | nil => simp [Hub.spec]
  | cons x r ih => obtain ⟨e, d⟩ := x; simp [Hub.spec, ih]

theorem Hub.spec_get (ports : List (Option Dev)) (i : Nat) (eps : List (Nat × Dev)) (j : Nat) (e : Nat × Dev)
    (h : eps[j]? = some e) :
    (Hub.spec ports i eps)[j]? = some { eid := e.1, dev := e.2, port := Hub.portAt ports (i + j) } := by
  induction eps generalizing i j with
  | nil => simp at h
  | cons x r ih =>
    obtain ⟨e', d'⟩ := x
    cases j with
    | zero => simp at h; subst h; simp [Hub.spec]
    | succ j =>
      simp at h
      have := ih (i + 1) j h
      have e : i + 1 + j = i + (j + 1) := by omega
      rw [e] at this
      simp [Hub.spec, this]

/-! ### Splitters -/

theorem giveCopies_devs (ref : PktRef) (fresh : Nat) (outs : List (Option Dev)) :
    (giveCopies ref fresh outs).map (·.1) = outs.filterMap id := by
  induction outs generalizing fresh with
  | nil => simp [giveCopies]
  | cons o r ih =>
    cases o with
    | none => simp [giveCopies, ih]
    | some d => simp [giveCopies, ih]

theorem giveCopies_fresh (ref : PktRef) (fresh : Nat) (outs : List (Option Dev)) :
    ∀ x ∈ giveCopies ref fresh outs, x.2.id = ref.id ∧ fresh ≤ x.2.copy := by
  induction outs generalizing fresh with
  | nil => simp [giveCopies]
  | cons o r ih =>
    cases o with
    | none => simpa [giveCopies] using ih fresh
    | some d =>
      intro x hx
      simp only [giveCopies, List.mem_cons] at hx
      rcases hx with rfl | hx
      · simp
      · have := ih (fresh + 1) x hx
        exact ⟨this.1, by omega⟩

theorem giveCopies_nodup (ref : PktRef) (fresh : Nat) (outs : List (Option Dev)) :
    ((giveCopies ref fresh outs).map (·.2)).Nodup := by
  induction outs generalizing fresh with
  | nil => simp [giveCopies]
  | cons o r ih =>
    cases o with
    | none => simpa [giveCopies] using ih fresh
    | some d =>
      simp only [giveCopies, List.map_cons, List.nodup_cons]
      refine ⟨?_, ih (fresh + 1)⟩
      intro hm
      obtain ⟨x, hx, he⟩ := List.mem_map.mp hm
      have := (giveCopies_fresh ref (fresh + 1) r x hx).2
      rw [he] at this
      simp at this

theorem giveOriginal_devs (o : Option Dev) (p : Pkt) : (giveOriginal o p).map (·.1) = [o].filterMap id := by
  cases o <;> simp [giveOriginal]

theorem giveOriginal_ref (o : Option Dev) (p : Pkt) : ∀ x ∈ giveOriginal o p, x.2 = p.ref := by
  cases o <;> simp [giveOriginal]

/-- all objects a splitter hands out are pairwise different objects -/
theorem split_refs_nodup (o : Option Dev) (rest : List (Option Dev)) (p : Pkt) (fresh : Nat) (hf : p.ref.copy < fresh) :
    ((giveOriginal o p ++ giveCopies p.ref fresh rest).map (·.2)).Nodup := by
  rw [List.map_append, List.nodup_append]
  refine ⟨?_, giveCopies_nodup _ _ _, ?_⟩
  · cases o <;> simp [giveOriginal]
  · intro a ha b hb
    obtain ⟨x, hx, rfl⟩ := List.mem_map.mp ha
    obtain ⟨y, hy, rfl⟩ := List.mem_map.mp hb
    have h1 := giveOriginal_ref o p x hx
    have h2 := (giveCopies_fresh p.ref fresh rest y hy).2
    intro e
    rw [h1] at e
    rw [← e] at h2
    omega

/-! ### heap -/

theorem splitHeap_notMem (h : Heap) (orig : PktRef) (l : List Delivery) (r : PktRef) (hr : r ∉ l.map (·.2)) :
    (splitHeap h orig l).objs r = h.objs r ∧ ∀ w, (splitHeap h orig l).tabs (r, w) = h.tabs (r, w) := by
  induction l generalizing h with
  | nil => exact ⟨rfl, fun _ => rfl⟩
  | cons x rest ih =>
    obtain ⟨d, r'⟩ := x
    simp only [List.map_cons, List.mem_cons, not_or] at hr
    simp only [splitHeap]
    obtain ⟨i1, i2⟩ := ih (if r' = orig then h else h.copyPkt orig r') hr.2
    by_cases e : r' = orig
    · simp only [if_pos e] at i1 i2 ⊢; exact ⟨i1, i2⟩
    · simp only [if_neg e] at i1 i2 ⊢
      refine ⟨?_, ?_⟩
      · rw [i1]; unfold Heap.copyPkt
        cases h.objs orig with
        | none => rfl
        | some o => simp [hr.1]
      · intro w; rw [i2]; unfold Heap.copyPkt
        cases h.objs orig with
        | none => rfl
        | some o => simp [hr.1]

/-- **after a splitter dispatch every delivered object has the original's field values, owns its two tables, and those
tables hold what the original's held** (the original owning its tables to begin with) -/
theorem splitHeap_spec (h : Heap) (orig : PktRef) (o : Obj) (l : List Delivery)
    (ho : h.objs orig = some o) (hown : ∀ w, o.tab w = (orig, w)) (hn : (l.map (·.2)).Nodup) :
    ∀ x ∈ l, (splitHeap h orig l).objs x.2 = some { hdr := o.hdr, tab := fun w => (x.2, w) } ∧
      ∀ w, (splitHeap h orig l).tabs (x.2, w) = h.tabs (orig, w) := by
  induction l generalizing h with
  | nil => simp
  | cons y rest ih =>
    obtain ⟨d, r⟩ := y
    simp only [List.map_cons, List.nodup_cons] at hn
    intro x hx
    simp only [splitHeap]
    have oeq : (⟨o.hdr, fun w => (orig, w)⟩ : Obj) = o := by
      cases o with
      | mk hdr tab => simp only [Obj.mk.injEq, true_and]; funext w; exact (hown w).symm
    by_cases e : r = orig
    · subst e
      simp only [if_true]
      rcases List.mem_cons.mp hx with rfl | hx
      · obtain ⟨n1, n2⟩ := splitHeap_notMem h r rest r hn.1
        simp only at n1 n2 ⊢
        rw [n1, ho, oeq]
        exact ⟨rfl, n2⟩
      · exact ih h ho hn.2 x hx
    · simp only [if_neg e]
      have ho' : (h.copyPkt orig r).objs orig = some o := by
        have : ¬ orig = r := fun h' => e h'.symm
        simp [Heap.copyPkt, ho, this]
      have ht' : ∀ w, (h.copyPkt orig r).tabs (orig, w) = h.tabs (orig, w) := by
        intro w
        have : ¬ orig = r := fun h' => e h'.symm
        simp [Heap.copyPkt, ho, this]
      rcases List.mem_cons.mp hx with rfl | hx
      · obtain ⟨n1, n2⟩ := splitHeap_notMem (h.copyPkt orig r) orig rest r hn.1
        simp only at n1 n2 ⊢
        refine ⟨?_, ?_⟩
        · rw [n1]; simp [Heap.copyPkt, ho]
        · intro w; rw [n2]; simp [Heap.copyPkt, ho, hown]
      · obtain ⟨i1, i2⟩ := ih (h.copyPkt orig r) ho' hn.2 x hx
        exact ⟨i1, fun w => by rw [i2, ht']⟩

/-- rebinding a field of one object does not touch another object, nor any table -/
theorem Heap.setField_other (h : Heap) (r r' : PktRef) (f : Nat) (v : Int) (hne : r' ≠ r) :
    (h.setField r f v).objs r' = h.objs r' ∧ (h.setField r f v).tabs = h.tabs := by
  simp [Heap.setField, hne]

/-- an in-place table write through object `x` is invisible through object `y` when their tables are different dicts -/
theorem Heap.tabWrite_other (h : Heap) (x y : PktRef) (ox oy : Obj) (hx : h.objs x = some ox) (hy : h.objs y = some oy)
    (w w' : Tab) (hne : ox.tab w ≠ oy.tab w') (k k' : Nat) (v : Int) :
    (h.tabWrite x w k v).readTab y w' k' = h.readTab y w' k' ∧ ∀ f, (h.tabWrite x w k v).readField y f = h.readField y f := by
  have hne' : ¬ oy.tab w' = ox.tab w := fun e => hne e.symm
  simp [Heap.tabWrite, Heap.readTab, Heap.readField, hx, hy, hne']

end Route
