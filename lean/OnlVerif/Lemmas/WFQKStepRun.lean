import OnlVerif.Lemmas.WFQKCells
/-!
# The WFQ scheduler on the kernel model: kernel steps that run `WFQ.run` and `send_packet`

Each lemma executes `Environment.step` of the kernel model symbolically on a state with configuration `a` whose next
agenda entry belongs to the server (its `Initialize`, the `StoreGet` it waits for, the `Initialize` / timeout / `Process`
event of its sender), and shows that the resulting state has the configuration the lemma names.
-/

set_option linter.unusedSimpArgs false
set_option linter.unnecessarySimpa false

namespace WFQK
open WFQOnK
open TimerK (lookup plookup afterBurst resume_eq step_eq)

variable {N scale F : Nat} {flow size : Int → Nat} {cfg : WfqCfg ℚ}
variable {s : KS} {a : A} {q : QEntry ℚ} {rest : List (QEntry ℚ)}

theorem txTime_nonneg_k {rate : ℚ} (hrate : 0 < rate) (id : Int) : 0 ≤ txTime size rate id := by
  unfold txTime
  rw [Num.ofNat_rat]
  exact div_nonneg (Nat.cast_nonneg _) (le_of_lt hrate)

/-- a resumption starts with the attribute cells of the state before the step -/
theorem burst_shared (s : KS) (q : QEntry ℚ) (rest : List (QEntry ℚ)) (p e : EvId) (r : Resume) (t : ℚ) :
    ((deliverSt (openEvent s q rest) p e).emit (.resumed p r t)).shared = s.shared := by
  unfold deliverSt
  split <;> rfl

/-! ## the two ways a burst of `WFQ.run` ends: it takes the least packet, or blocks -/

set_option hygiene false in
/-- `KInv` of the configuration in which `run` blocks on the empty store -/
macro "leaf_block" e0:term : tactic => `(tactic| (
  refine ⟨⟨?_, ?_, ?_, ?_, ?_, ?_, ?_, ?_, ?_, ?_, ?_, ?_, ?_, ?_, ?_, ?_, ?_⟩, ?_⟩
  · exact wf_same hwf.1 rfl rfl rfl
  · simp only [A.entries, RPhase.entries, List.nil_append]
    exact hrest
  · ssimp [hrsz]
  · ssimp [KState.res, getD_setIfInBounds, RPhase.getQ, hrsz, hit, A.afterDone]
  · refine ⟨?_, ?_, ?_⟩
    · ssimp [EvIs]
    · ssimp
    · ssimp [EvIs, hpk, hpc, hpo, Nat.ne_of_lt h0lt, h0e, Ne.symm h0e]
  · refine (hk.keep_src_pend [$e0] (by evkeep) ?_ ?_).1
    · intro e he; simp only [List.mem_singleton]; rintro rfl; exact he.elim de.1 de.2
    · intro e he
      have : e ≠ 0 := by rintro rfl; exact d0.1 he
      ssimp [this]
  · refine (hk.keep_src_pend [$e0] (by evkeep) ?_ ?_).2
    · intro e he; simp only [List.mem_singleton]; rintro rfl; exact he.elim de.1 de.2
    · intro e he
      have : e ≠ 0 := by rintro rfl; exact d0.1 he
      ssimp [this]
  · have hnd := hk.nd
    simp only [wfqids, hph, A.afterDone] at hnd ⊢
    grind
  · exact hcs.c0
  · exact hcs.c1
  · exact hcs.cvt
  · exact hcs.cl
  · exact hcs.cc
  · exact hcs.cb
  · exact hcs.cf
  · exact hcs.ck
  · exact hcs.cact
  · simp [histOf_push]))

/-! ## the start of `run` -/

/-- the `Initialize` event of `run`: the store is empty, it blocks on it -/
theorem kstep_runInit (fuel : Nat) (hk : KInv N scale size cfg.rate F s a) (hph : a.run = .init q) (hit : a.items = [])
    (hp : popMin s.agenda = some (q, rest)) (hrest : rest.Perm (a.src.entries ++ a.pend)) :
    ∃ s', step (prog F flow size cfg N scale) (fuel + 1) s = .ok s' ∧
      KInv N scale size cfg.rate F s' { a with run := .W s.events.size } ∧
      s'.now = q.time ∧ histOf s'.trace = histOf s.trace ++ [.get q.time] := by
  have hr := hk.run
  rw [hph] at hr
  obtain ⟨hqe, ⟨hkind, hcbs, hout⟩, hproc0, ⟨hpk, hpc, hpo⟩⟩ := hr
  have hgs : 1 < s.events.size := KState.lt_of_cbs hcbs
  have hwf := openEvent_wf s q rest hk.wf hp
  have hlt := hk.idlt
  have hst := hk.st
  have hrsz := hk.rsz
  rw [hph, hit] at hst
  simp only [KState.res, RPhase.getQ, List.map_nil] at hst
  rw [step_eq _ _ _ _ _ _ hp (hqe ▸ hcbs)]
  simp only [List.foldl, runCb]
  rw [resume_eq _ _ _ _ _ _ (show (openEvent s q rest).proc? 0 = _ from hproc0)]
  simp only [KState.ev] at hkind hcbs hout hpk hpc hpo
  have hsz : 0 < s.resources.size := by rw [hrsz]; omega
  ssimp [hqe, hgs, hkind, hcbs, hout, Nat.ne_of_lt hgs, doCall_sget_miss (r := 0), hst, hsz]
  obtain ⟨nrun, nsrc, npend, drun, dsrc⟩ := (ids_nodup_iff a).mp hk.nd
  simp only [hph, wfqids] at nrun drun hlt
  obtain ⟨d0, de⟩ := drun
  have h0e : ¬ 0 = 1 := by decide
  have h0lt := hlt.1
  have hcs := hk.cells
  leaf_block 1

set_option hygiene false in
/-- `KInv` of the configuration in which `run` has taken the least packet `w` from the store; `e0` = the event just processed -/
macro "leaf_hit" e0:term : tactic => `(tactic| (
  refine ⟨⟨?_, ?_, ?_, ?_, ?_, ?_, ?_, ?_, ?_, ?_, ?_, ?_, ?_, ?_, ?_, ?_, ?_⟩, ?_⟩
  · exact wf_push1 hwf.1 _ rfl rfl rfl rfl (le_refl _)
  · simp only [A.entries, RPhase.entries, List.singleton_append]
    exact List.Perm.cons _ hrest
  · ssimp [hrsz]
  · ssimp [KState.res, getD_setIfInBounds, RPhase.getQ, hrsz, A.afterDone]
  · refine ⟨rfl, ?_, ?_, ?_⟩
    · ssimp [EvIs]
    · ssimp
    · ssimp [EvIs, hpk, hpc, hpo, Nat.ne_of_lt h0lt, h0e, Ne.symm h0e]
  · refine (hk.keep_src_pend [$e0] (by evkeep) ?_ ?_).1
    · intro e he; simp only [List.mem_singleton]; rintro rfl; exact he.elim de.1 de.2
    · intro e he
      have : e ≠ 0 := by rintro rfl; exact d0.1 he
      ssimp [this]
  · refine (hk.keep_src_pend [$e0] (by evkeep) ?_ ?_).2
    · intro e he; simp only [List.mem_singleton]; rintro rfl; exact he.elim de.1 de.2
    · intro e he
      have : e ≠ 0 := by rintro rfl; exact d0.1 he
      ssimp [this]
  · have hnd := hk.nd
    simp only [wfqids, hph, A.afterDone] at hnd ⊢
    grind
  · exact hcs.c0
  · exact hcs.c1
  · exact hcs.cvt
  · exact hcs.cl
  · exact hcs.cc
  · exact hcs.cb
  · exact hcs.cf
  · exact hcs.ck
  · exact hcs.cact
  · simp [histOf_push]))

/-! ## the end of a transmission: the `Process` event of the sender is processed, `run` goes on -/

/-- packets are waiting: `run` asks the store and is handed the least one at once -/
theorem kstep_doneHit (fuel : Nat) (hk : KInv N scale size cfg.rate F s a) {p : EvId} {id0 : Int} (hph : a.run = .F p id0 q)
    {w : PutRec} (hw : IsLeast N scale a.items w)
    (hinj : ∀ x ∈ a.items, codeOf N scale x = codeOf N scale w → x = w)
    (hcfg : CfgOK F cfg) (hfid : flow id0 < F) (hfs : a.fset = true) (hws : a.ws F cfg ≠ 0) {n : Int}
    (hcls : a.cls (flow id0) = some n) (hact : n - 1 = 0 → a.act (flow id0) = true)
    (hp : popMin s.agenda = some (q, rest)) (hrest : rest.Perm (a.src.entries ++ a.pend)) :
    ∃ s', step (prog F flow size cfg N scale) (fuel + 1) s = .ok s' ∧
      KInv N scale size cfg.rate F s' { a.afterDone F flow cfg q.time id0 with
        run := .H s.events.size w ⟨q.time, NORMAL, s.eid, s.events.size⟩, items := a.items.erase w } ∧
      s'.now = q.time ∧
      histOf s'.trace = histOf s.trace ++ [.done (a.afterDone F flow cfg q.time id0).vtime, .get q.time] := by
  have hr := hk.run
  rw [hph] at hr
  obtain ⟨hqe, ⟨hkind, hcbs, hout⟩, hproc0, ⟨hpk, hpc, hpo⟩⟩ := hr
  have hgs : p < s.events.size := KState.lt_of_cbs hcbs
  have hwf := openEvent_wf s q rest hk.wf hp
  have hlt := hk.idlt
  have hst := hk.st
  have hrsz := hk.rsz
  rw [hph] at hst
  simp only [KState.res, RPhase.getQ] at hst
  rw [step_eq _ _ _ _ _ _ hp (hqe ▸ hcbs)]
  simp only [List.foldl, runCb]
  rw [resume_eq _ _ _ _ _ _ (show (openEvent s q rest).proc? 0 = _ from hproc0)]
  simp only [prog]
  obtain ⟨sh, heq, hcs⟩ := runBurst_runDone (flow := flow) (cfg := cfg) 0
    ((deliverSt (openEvent s q rest) 0 q.ev).emit
      (.resumed 0 (resumeArg (openEvent s q rest) 0 q.ev) (deliverSt (openEvent s q rest) 0 q.ev).now))
    a q.time id0 (by rw [burst_shared]; exact hk.cells) hcfg hfid hfs hws hcls hact
  rw [heq]
  clear heq
  simp only [KState.ev] at hkind hcbs hout hpk hpc hpo
  have hsz : 0 < s.resources.size := by rw [hrsz]; omega
  ssimp [hqe, hgs, hkind, hcbs, hout, Nat.ne_of_lt hgs,
    doCall_sget_hit (r := 0) (m := codeOf N scale w) (its := a.items.map (codeOf N scale)), hst, hsz,
    listMin_codes hw, erase_codes hinj]
  obtain ⟨nrun, nsrc, npend, drun, dsrc⟩ := (ids_nodup_iff a).mp hk.nd
  simp only [hph, wfqids] at nrun drun hlt
  obtain ⟨d0, de⟩ := drun
  have h0e : ¬ 0 = p := nrun
  have h0lt := hlt.1
  leaf_hit p

/-- nothing is waiting: `run` blocks on the store -/
theorem kstep_doneBlock (fuel : Nat) (hk : KInv N scale size cfg.rate F s a) {p : EvId} {id0 : Int} (hph : a.run = .F p id0 q)
    (hit : a.items = [])
    (hcfg : CfgOK F cfg) (hfid : flow id0 < F) (hfs : a.fset = true) (hws : a.ws F cfg ≠ 0) {n : Int}
    (hcls : a.cls (flow id0) = some n) (hact : n - 1 = 0 → a.act (flow id0) = true)
    (hp : popMin s.agenda = some (q, rest)) (hrest : rest.Perm (a.src.entries ++ a.pend)) :
    ∃ s', step (prog F flow size cfg N scale) (fuel + 1) s = .ok s' ∧
      KInv N scale size cfg.rate F s' { a.afterDone F flow cfg q.time id0 with run := .W s.events.size } ∧
      s'.now = q.time ∧
      histOf s'.trace = histOf s.trace ++ [.done (a.afterDone F flow cfg q.time id0).vtime, .get q.time] := by
  have hr := hk.run
  rw [hph] at hr
  obtain ⟨hqe, ⟨hkind, hcbs, hout⟩, hproc0, ⟨hpk, hpc, hpo⟩⟩ := hr
  have hgs : p < s.events.size := KState.lt_of_cbs hcbs
  have hwf := openEvent_wf s q rest hk.wf hp
  have hlt := hk.idlt
  have hst := hk.st
  have hrsz := hk.rsz
  rw [hph, hit] at hst
  simp only [KState.res, RPhase.getQ, List.map_nil] at hst
  rw [step_eq _ _ _ _ _ _ hp (hqe ▸ hcbs)]
  simp only [List.foldl, runCb]
  rw [resume_eq _ _ _ _ _ _ (show (openEvent s q rest).proc? 0 = _ from hproc0)]
  simp only [prog]
  obtain ⟨sh, heq, hcs⟩ := runBurst_runDone (flow := flow) (cfg := cfg) 0
    ((deliverSt (openEvent s q rest) 0 q.ev).emit
      (.resumed 0 (resumeArg (openEvent s q rest) 0 q.ev) (deliverSt (openEvent s q rest) 0 q.ev).now))
    a q.time id0 (by rw [burst_shared]; exact hk.cells) hcfg hfid hfs hws hcls hact
  rw [heq]
  clear heq
  simp only [KState.ev] at hkind hcbs hout hpk hpc hpo
  have hsz : 0 < s.resources.size := by rw [hrsz]; omega
  ssimp [hqe, hgs, hkind, hcbs, hout, Nat.ne_of_lt hgs, doCall_sget_miss (r := 0), hst, hsz]
  obtain ⟨nrun, nsrc, npend, drun, dsrc⟩ := (ids_nodup_iff a).mp hk.nd
  simp only [hph, wfqids] at nrun drun hlt
  obtain ⟨d0, de⟩ := drun
  have h0e : ¬ 0 = p := nrun
  have h0lt := hlt.1
  leaf_block p

/-! ## a transmission -/

/-- the `StoreGet` is processed: `run` has the item, decodes the packet and spawns `send_packet(packet)` -/
theorem kstep_pktResume (fuel : Nat) (hk : KInv N scale size cfg.rate F s a) {g : EvId} {w : PutRec} (hph : a.run = .H g w q)
    (hdec : itemPkt N (codeOf N scale w) = w.1) (hlast : a.last = q.time)
    (hp : popMin s.agenda = some (q, rest)) (hrest : rest.Perm (a.src.entries ++ a.pend)) :
    ∃ s', step (prog F flow size cfg N scale) (fuel + 1) s = .ok s' ∧
      KInv N scale size cfg.rate F s' { a with run := .S s.events.size w.1 ⟨q.time, URGENT, s.eid, s.events.size + 1⟩ } ∧
      s'.now = q.time ∧ histOf s'.trace = histOf s.trace ++ [.serve w.1 q.time] := by
  have hr := hk.run
  rw [hph] at hr
  obtain ⟨hqe, ⟨hkind, hcbs, hout⟩, hproc0, ⟨hpk, hpc, hpo⟩⟩ := hr
  have hgs : g < s.events.size := KState.lt_of_cbs hcbs
  have hwf := openEvent_wf s q rest hk.wf hp
  have hlt := hk.idlt
  have hst := hk.st
  have hrsz := hk.rsz
  rw [hph] at hst
  simp only [KState.res, RPhase.getQ] at hst
  rw [step_eq _ _ _ _ _ _ hp (hqe ▸ hcbs)]
  simp only [List.foldl, runCb]
  rw [triggerPut_none (openEvent s q rest) 0 [] _ hst]
  rw [resume_eq _ _ _ _ _ _ (show (openEvent s q rest).proc? 0 = _ from hproc0)]
  simp only [KState.ev] at hkind hcbs hout hpk hpc hpo
  obtain ⟨nrun, nsrc, npend, drun, dsrc⟩ := (ids_nodup_iff a).mp hk.nd
  simp only [hph, wfqids] at nrun drun hlt
  obtain ⟨d0, de⟩ := drun
  have h0e : ¬ 0 = g := nrun
  have h0lt := hlt.1
  have hne0 : ¬ s.events = #[] := by intro h; rw [h] at h0lt; simp at h0lt
  have hcl : lookup s.shared cLast = TimeCell.enc q.time := by rw [← hlast]; exact hk.cl
  ssimp [hqe, hgs, hkind, hcbs, hout, Nat.ne_of_lt hgs, TimerK.ne_fresh hgs, TimerK.ne_fresh h0lt, hdec, hcl]
  refine ⟨⟨?_, ?_, ?_, ?_, ?_, ?_, ?_, ?_, ?_, ?_, ?_, ?_, ?_, ?_, ?_, ?_, ?_⟩, ?_⟩
  · exact wf_push1 hwf.1 _ rfl rfl rfl rfl (le_refl _)
  · simp only [A.entries, RPhase.entries, List.singleton_append]
    exact List.Perm.cons _ hrest
  · exact hrsz
  · exact hst
  · refine ⟨rfl, ?_, ?_, ?_, ?_, ?_⟩
    · ssimp [EvIs, hne0]
    · ssimp [hne0]
    · have : s.events.size < s.events.size + 1 + 1 := by omega
      ssimp [EvIs, hne0, this]
    · ssimp [Ne.symm (Nat.ne_of_lt h0lt), hne0]
    · ssimp [EvIs, hpk, hpc, hpo, Nat.ne_of_lt h0lt, h0e, Ne.symm h0e, hne0, TimerK.ne_fresh h0lt]
  · refine (hk.keep_src_pend [g] (by evkeep) ?_ ?_).1
    · intro e he; simp only [List.mem_singleton]; rintro rfl; exact he.elim de.1 de.2
    · intro e he
      have h1 : e ≠ 0 := by rintro rfl; exact d0.1 he
      have h2 : e ≠ s.events.size := Nat.ne_of_lt (hlt.2.2 e (Or.inl he))
      ssimp [h1, h2]
  · refine (hk.keep_src_pend [g] (by evkeep) ?_ ?_).2
    · intro e he; simp only [List.mem_singleton]; rintro rfl; exact he.elim de.1 de.2
    · intro e he
      have h1 : e ≠ 0 := by rintro rfl; exact d0.1 he
      have h2 : e ≠ s.events.size := Nat.ne_of_lt (hlt.2.2 e (Or.inl he))
      ssimp [h1, h2]
  · have hnd := hk.nd
    simp only [wfqids, hph, A.afterDone] at hnd ⊢
    grind
  · ssimp [hk.c0]
  · ssimp [hk.c1]
  · ssimp [hk.cvt]
  · ssimp [hk.cl]
  · intro f' hf'; ssimp [hk.cc f' hf']
  · intro f' hf'; ssimp [hk.cb f' hf']
  · intro f' hf'; ssimp [hk.cf f' hf']
  · intro f' hf'; ssimp [hk.ck f' hf']
  · intro f' hf'; ssimp [hk.cact f' hf']
  · simp [histOf_push]

/-- the `Initialize` event of the sender: `current_packet = packet`, then it sleeps for `8·size/rate` -/
theorem kstep_sendInit (fuel : Nat) (hrate : 0 < cfg.rate) (hk : KInv N scale size cfg.rate F s a) {p : EvId} {id : Int}
    (hph : a.run = .S p id q)
    (hp : popMin s.agenda = some (q, rest)) (hrest : rest.Perm (a.src.entries ++ a.pend)) :
    ∃ s', step (prog F flow size cfg N scale) (fuel + 1) s = .ok s' ∧
      KInv N scale size cfg.rate F s' { a with run := .T p s.events.size id ⟨q.time + txTime size cfg.rate id, NORMAL, s.eid, s.events.size⟩,
                                               cur := some id } ∧
      s'.now = q.time ∧ histOf s'.trace = histOf s.trace := by
  have hr := hk.run
  rw [hph] at hr
  obtain ⟨hqe, ⟨hkind, hcbs, hout⟩, hproc, ⟨hpk, hpc, hpo⟩, hproc0, hp0⟩ := hr
  have hgs : p + 1 < s.events.size := KState.lt_of_cbs hcbs
  have hwf := openEvent_wf s q rest hk.wf hp
  have hlt := hk.idlt
  have hd := txTime_nonneg_k (size := size) hrate id
  rw [step_eq _ _ _ _ _ _ hp (hqe ▸ hcbs)]
  simp only [List.foldl, runCb]
  rw [resume_eq _ _ _ _ _ _ (show (openEvent s q rest).proc? p = _ from hproc)]
  simp only [KState.ev] at hkind hcbs hout hpk hpc hpo
  ssimp [hqe, hgs, hkind, hcbs, hout, Nat.ne_of_lt hgs, hd]
  obtain ⟨nrun, nsrc, npend, drun, dsrc⟩ := (ids_nodup_iff a).mp hk.nd
  simp only [hph, wfqids] at nrun drun hlt
  obtain ⟨⟨h0p, h0p1⟩, hpp1⟩ := nrun
  obtain ⟨d0, dp, dp1⟩ := drun
  refine ⟨⟨?_, ?_, ?_, ?_, ?_, ?_, ?_, ?_, ?_, ?_, ?_, ?_, ?_, ?_, ?_, ?_, ?_⟩, ?_⟩
  · exact wf_push1 hwf.1 _ rfl rfl rfl rfl (by show q.time ≤ q.time + txTime size cfg.rate id; linarith)
  · simp only [A.entries, RPhase.entries, List.singleton_append]
    exact List.Perm.cons _ hrest
  · exact hk.rsz
  · have := hk.st; rw [hph] at this; exact this
  · refine ⟨rfl, ?_, ?_, ?_, ?_, ?_⟩
    · ssimp [EvIs]
    · ssimp
    · ssimp [EvIs, hpk, hpc, hpo, Nat.ne_of_lt (Nat.lt_of_succ_lt hgs)]
    · ssimp [h0p]
      exact hproc0
    · exact hp0.keep (X := [p + 1]) (by evkeep) (by simpa using h0p1)
  · refine (hk.keep_src_pend [p + 1] (by evkeep) ?_ ?_).1
    · intro e he; simp only [List.mem_singleton]; rintro rfl; exact he.elim dp1.1 dp1.2
    · intro e he
      have : e ≠ p := by rintro rfl; exact dp.1 he
      ssimp [this]
  · refine (hk.keep_src_pend [p + 1] (by evkeep) ?_ ?_).2
    · intro e he; simp only [List.mem_singleton]; rintro rfl; exact he.elim dp1.1 dp1.2
    · intro e he
      have : e ≠ p := by rintro rfl; exact dp.1 he
      ssimp [this]
  · have hnd := hk.nd
    simp only [wfqids, hph, A.afterDone] at hnd ⊢
    grind
  · ssimp [hk.c0]
  · ssimp [curVal]
  · ssimp [hk.cvt]
  · ssimp [hk.cl]
  · intro f hf; ssimp [hk.cc f hf]
  · intro f hf; ssimp [hk.cb f hf]
  · intro f hf; ssimp [hk.cf f hf]
  · intro f hf; ssimp [hk.ck f hf]
  · intro f hf; ssimp [hk.cact f hf]
  · simp [histOf_push]

/-- the sender's timeout: the counters go down, `out.put(packet)`, `current_packet = None`; the generator returns and its
process event is triggered -/
theorem kstep_sendFire (fuel : Nat) (hk : KInv N scale size cfg.rate F s a) {p t : EvId} {id : Int} (hph : a.run = .T p t id q)
    (hfid : flow id < F)
    (hp : popMin s.agenda = some (q, rest)) (hrest : rest.Perm (a.src.entries ++ a.pend)) :
    ∃ s', step (prog F flow size cfg N scale) (fuel + 1) s = .ok s' ∧
      KInv N scale size cfg.rate F s' { a with run := .F p id ⟨q.time, NORMAL, s.eid, p⟩,
                                               cnt := upd a.cnt (flow id) (a.cnt (flow id) + -1),
                                               byt := upd a.byt (flow id) (a.byt (flow id) + -(size id : Int)), cur := none } ∧
      s'.now = q.time ∧ histOf s'.trace = histOf s.trace ++ [.out id q.time] := by
  have hr := hk.run
  rw [hph] at hr
  obtain ⟨hqe, ⟨hkind, hcbs, hout⟩, hproc, ⟨hpk, hpc, hpo⟩, hproc0, hp0⟩ := hr
  have hgs : t < s.events.size := KState.lt_of_cbs hcbs
  have hgp : p < s.events.size := KState.lt_of_cbs hpc
  have hwf := openEvent_wf s q rest hk.wf hp
  have hlt := hk.idlt
  have hcc := hk.cc (flow id) hfid
  have hcb := hk.cb (flow id) hfid
  rw [step_eq _ _ _ _ _ _ hp (hqe ▸ hcbs)]
  simp only [List.foldl, runCb]
  rw [resume_eq _ _ _ _ _ _ (show (openEvent s q rest).proc? p = _ from hproc)]
  simp only [KState.ev] at hkind hcbs hout hpk hpc hpo
  obtain ⟨nrun, nsrc, npend, drun, dsrc⟩ := (ids_nodup_iff a).mp hk.nd
  simp only [hph, wfqids] at nrun drun hlt
  obtain ⟨⟨h0p, h0t⟩, hpt⟩ := nrun
  obtain ⟨d0, dp, dt⟩ := drun
  ssimp [hqe, hgs, hgp, hkind, hcbs, hout, hpk, hpc, hpo, Nat.ne_of_lt hgs, Nat.ne_of_lt hgp, hcc, hcb, hpt, Ne.symm hpt]
  refine ⟨⟨?_, ?_, ?_, ?_, ?_, ?_, ?_, ?_, ?_, ?_, ?_, ?_, ?_, ?_, ?_, ?_, ?_⟩, ?_⟩
  · exact wf_push1 hwf.1 _ rfl rfl rfl rfl (le_refl _)
  · simp only [A.entries, RPhase.entries, List.singleton_append]
    exact List.Perm.cons _ hrest
  · exact hk.rsz
  · have := hk.st; rw [hph] at this; exact this
  · refine ⟨rfl, ?_, ?_, ?_⟩
    · ssimp [EvIs, hgs, hgp, hpk, hpc, hpt, Ne.symm hpt]
    · ssimp [h0p]
      exact hproc0
    · exact hp0.keep (X := [t, p]) (by evkeep) (by simp; exact ⟨h0t, h0p⟩)
  · refine (hk.keep_src_pend [t, p] (by evkeep) ?_ ?_).1
    · intro e he; simp only [List.mem_cons, List.not_mem_nil, or_false, not_or]
      exact ⟨by rintro rfl; exact he.elim dt.1 dt.2, by rintro rfl; exact he.elim dp.1 dp.2⟩
    · intro e he
      have : e ≠ p := by rintro rfl; exact dp.1 he
      ssimp [this]
  · refine (hk.keep_src_pend [t, p] (by evkeep) ?_ ?_).2
    · intro e he; simp only [List.mem_cons, List.not_mem_nil, or_false, not_or]
      exact ⟨by rintro rfl; exact he.elim dt.1 dt.2, by rintro rfl; exact he.elim dp.1 dp.2⟩
    · intro e he
      have : e ≠ p := by rintro rfl; exact dp.1 he
      ssimp [this]
  · have hnd := hk.nd
    simp only [wfqids, hph, A.afterDone] at hnd ⊢
    grind
  · ssimp [hk.c0]
  · ssimp [curVal]
  · ssimp [hk.cvt]
  · ssimp [hk.cl]
  · intro f hf
    by_cases hff : f = flow id
    · subst hff; ssimp
    · ssimp [hff, Ne.symm hff, upd_ne, hk.cc f hf]
  · intro f hf
    by_cases hff : f = flow id
    · subst hff; ssimp
    · ssimp [hff, Ne.symm hff, upd_ne, hk.cb f hf]
  · intro f hf; ssimp [hk.cf f hf]
  · intro f hf; ssimp [hk.ck f hf]
  · intro f hf; ssimp [hk.cact f hf]
  · simp [histOf_push]

end WFQK
