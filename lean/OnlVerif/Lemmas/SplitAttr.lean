import Lean.Meta.Tactic.Simp.RegisterCommand
/-! # The simp set `kstrip`: "erasing `StopSimulation.callback`s commutes with this function" (C03, stage 2) -/

/-- lemmas of the form `f (s.stripBy P) = (f s).stripBy P` / `read (s.stripBy P) = read s` -/
register_simp_attr kstrip

/-- lemmas that push the sentinel transformation `c.T q` and the renamings toward the leaves (C03, stage 3) -/
register_simp_attr ksent
