import OnlVerif.Lemmas.GenScalar
import OnlVerif.Lemmas.TcpSink
import OnlVerif.Generated.Sink
/-!
# Bridge between the *generated* `TCPSink` fragments and the hand-written sink model (`Tcp/Sink.lean`)

`Generated/Sink.lean` is rewritten from `onl/packet/tcp_sink.py` on every `./check C16`: `TCPSink.put` (the cumulative-ACK
decision and its effects) and the body of the range-merge loop of `packet_arrived`, which sees the local list `merge_stats`
through its last element (`Gen.MergeObj`).  The frame around the loop body (`append [packet_id, packet_id + size]`, `sort()`,
`merge_stats = []`, `for start, end in self.recv_buffer`, `self.recv_buffer = merge_stats`) is checked structurally by the
translator; its meaning — run the body over the ranges, every `append` makes the previous last element final — is
`GenSink.genMerge` below.  The model has ranges over `Nat`, the generated code Python ints (`Int`).
-/

namespace GenSink
open TcpSink

abbrev castR (r : Range) : Int × Int := ((r.1 : Int), (r.2 : Int))

/-- `merge_stats` seen through its last element (`none` = empty list), `k` appends so far -/
def mergeObj (cur : Option Range) (k : Nat) : Gen.MergeObj ℚ :=
  match cur with
  | none => { nonempty := false, last_start := 0, last_end := 0, eff_append := k }
  | some c => { nonempty := true, last_start := c.1, last_end := c.2, eff_append := k }

/-- the `for` loop over the *generated* body: the ranges that end up in `merge_stats`, in order.  An iteration that
appended made the previous last element (if any) final; at the end the last element is final. -/
def genMerge (o : Gen.MergeObj ℚ) : List Range → List (Int × Int)
  | [] => if o.nonempty then [(o.last_start, o.last_end)] else []
  | r :: rest =>
    if (Gen.TCPSink.merge_step o r.1 r.2).eff_append = o.eff_append + 1 ∧ o.nonempty = true then
      (o.last_start, o.last_end) :: genMerge (Gen.TCPSink.merge_step o r.1 r.2) rest
    else genMerge (Gen.TCPSink.merge_step o r.1 r.2) rest

theorem step_extend (cur r : Range) (k : Nat) (h : r.1 ≤ cur.2) :
    Gen.TCPSink.merge_step (mergeObj (some cur) k) r.1 r.2 = mergeObj (some (cur.1, max cur.2 r.2)) k := by
  have h' : (r.1 : Int) ≤ (cur.2 : Int) := by exact_mod_cast h
  unfold Gen.TCPSink.merge_step mergeObj
  simp only [h', and_self, if_true, Gen.MergeObj.mk.injEq, true_and, and_true]
  push_cast
  rfl

theorem step_append (cur : Option Range) (r : Range) (k : Nat) (h : ∀ c, cur = some c → ¬ r.1 ≤ c.2) :
    Gen.TCPSink.merge_step (mergeObj cur k) r.1 r.2 = mergeObj (some r) (k + 1) := by
  unfold Gen.TCPSink.merge_step mergeObj
  cases cur with
  | none => simp
  | some c =>
    have h' : ¬ (r.1 : Int) ≤ (c.2 : Int) := by
      have := h c rfl
      intro hc; apply this; exact_mod_cast hc
    simp [h']

theorem genMerge_from (l : List Range) : ∀ (cur : Range) (k : Nat),
    genMerge (mergeObj (some cur) k) l = (mergeFrom cur l).map castR := by
  induction l with
  | nil => intro cur k; simp [genMerge, mergeObj, mergeFrom, castR]
  | cons r rest ih =>
    intro cur k
    unfold genMerge mergeFrom
    by_cases h : r.1 ≤ cur.2
    · rw [step_extend cur r k h, if_pos h, ih]
      have : ¬ ((mergeObj (some (cur.1, max cur.2 r.2)) k).eff_append = (mergeObj (some cur) k).eff_append + 1 ∧
          (mergeObj (some cur) k).nonempty = true) := by simp [mergeObj]
      rw [if_neg this]
    · rw [step_append (some cur) r k (by intro c hc; cases hc; exact h), if_neg h, ih]
      have : ((mergeObj (some r) (k + 1)).eff_append = (mergeObj (some cur) k).eff_append + 1 ∧
          (mergeObj (some cur) k).nonempty = true) := by simp [mergeObj]
      rw [if_pos this]
      simp [mergeObj, castR]

/-- **the loop over the generated body computes the model's `mergeAll`** -/
theorem genMerge_eq (l : List Range) : genMerge (mergeObj none 0) l = (mergeAll l).map castR := by
  cases l with
  | nil => simp [genMerge, mergeObj, mergeAll]
  | cons r rest =>
    unfold genMerge mergeAll
    rw [step_append none r 0 (by intro c hc; cases hc), genMerge_from]
    have : ¬ ((mergeObj (some r) (0 + 1)).eff_append = (mergeObj none 0).eff_append + 1 ∧ (mergeObj none 0).nonempty = true) := by
      simp [mergeObj]
    rw [if_neg this]

/-! ### `put` -/

def sinkObj (nse ack : Int) (e1 e2 e3 e4 e5 : Nat) : Gen.SinkObj ℚ :=
  { next_seq_expected := nse, out := true, ack := ack, eff_super_put := e1, eff_packet_arrived := e2, eff_make_ack := e3,
    eff_set_ack := e4, eff_out_put := e5, raised := 0 }

theorem put_eq (r : Range) (rest : List Range) (nse ack : Int) (e1 e2 e3 e4 e5 : Nat) :
    ∃ a, ackOf (r :: rest) = .ok a ∧
      Gen.TCPSink.put (sinkObj nse ack e1 e2 e3 e4 e5) r.1 r.2 = sinkObj a a (e1 + 1) (e2 + 1) (e3 + 1) (e4 + 1) (e5 + 1) := by
  refine ⟨_, rfl, ?_⟩
  unfold Gen.TCPSink.put sinkObj
  by_cases h : r.1 = 0
  · simp [h]
  · have : ¬ (r.1 : Int) = 0 := by exact_mod_cast h
    simp [h, this]

end GenSink
