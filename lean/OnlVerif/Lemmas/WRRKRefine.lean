import OnlVerif.Lemmas.WRRKLts
/-!
# The WRR scheduler on the kernel model: every reachable kernel state is the image of an admissible run of the LTS, and
the abstraction function `absWRR` reads the configuration's LTS state off the kernel state
-/

set_option linter.unusedSimpArgs false

namespace WRRK
open WRROnK QEntry MQ
open TimerK (lookup plookup proc?_eq)

variable {F : Nat} {flow size : Int → Nat} {cfg : WRR.Cfg ℚ}
variable {s : KS} {a : A} {q : QEntry ℚ} {rest : List (QEntry ℚ)}

/-- the kernel state `s` is the sound configuration `a`, whose dict keys and `packets_received` are those of the history -/
structure Inv2 (F : Nat) (flow : Int → Nat) (cfg : WRR.Cfg ℚ) (s : KS) (a : A) : Prop where
  i : Inv F flow cfg s a
  l : LInv flow a (histOf s.trace)

/-- **one kernel step**: it is `.ok`, keeps the invariant, and is a sequence of actions the LTS accepts from `toM a` to
`toM a'` in which the packets `put` / sent out are those the kernel step reports -/
theorem inv_step_lts (fuel : Nat) (h : Inv2 F flow cfg s a) (hp : popMin s.agenda = some (q, rest)) :
    ∃ s' a' new, step (prog F flow size cfg) (fuel + 1) s = .ok s' ∧ Inv2 F flow cfg s' a' ∧ a'.mu F + 1 ≤ a.mu F ∧
      AStep F flow size cfg s.events.size s.eid a q a' new ∧ s'.now = q.time ∧
      histOf s'.trace = histOf s.trace ++ new ∧
      ∃ acts, runActs (WRR.sched cfg) (toM cfg.flows flow size a s.now) acts =
        .ok (toM cfg.flows flow size a' s'.now, putPk flow size new, outPk flow size new) := by
  obtain ⟨s', a', new, h1, h2, h3, h4, h5, h6⟩ := inv_step (size := size) fuel h.i hp
  have hmin := (isMin_of_pop h.i.k hp).1
  obtain ⟨acts0, h0⟩ := lts_advance (size := size) h.i.a hmin
  obtain ⟨acts, h7⟩ := lts_step (h.i.a.advance hmin) hmin h.l.nodup h.l.recv_nonneg h4
  refine ⟨s', a', new, h1, ⟨h2, by rw [h6]; exact linv_step h.l h4⟩, h3, h4, h5, h6, acts0 ++ acts, ?_⟩
  rw [h5]
  have := runActs_append _ _ _ _ _ _ _ _ _ _ h0 h7
  simpa using this

theorem toM_a0 (arrivals : List (ℚ × Int)) : toM cfg.flows flow size (a0 arrivals) 0 = MQ.init (WRR.Pc.at 0 0) 0 [] := rfl

theorem initState_now (arrivals : List (ℚ × Int)) : (initState F arrivals : KS).now = 0 := by
  simp [initState, doCall_spawn, zero_eq']

theorem initState_trace (arrivals : List (ℚ × Int)) : (initState F arrivals : KS).trace = #[] := by
  simp [initState, doCall_spawn]

/-- **every state reachable by kernel steps is a sound configuration, and the run so far is an admissible run of the LTS**
from the state of a fresh `SP` to the configuration's LTS state, in which the packets that entered are those handed to `put`
and the packets that left are those handed to `out.put`, in the order of the trace -/
theorem reach_lts (fuel : Nat) {arrivals : List (ℚ × Int)} (hw : WorkOK flow F arrivals) (ht : FlowsOK F cfg)
    (hr : 0 < cfg.rate) {s : KS} (h : KReach (prog F flow size cfg) (fuel + 1) (initState F arrivals) s) :
    ∃ a acts, Inv2 F flow cfg s a ∧
      runActs (WRR.sched cfg) (MQ.init (WRR.Pc.at 0 0) 0 []) acts =
        .ok (toM cfg.flows flow size a s.now, putPk flow size (histOf s.trace), outPk flow size (histOf s.trace)) := by
  induction h with
  | init =>
    refine ⟨a0 arrivals, [], ⟨inv_init arrivals hw ht hr, ?_⟩, ?_⟩
    · rw [initState_trace]; exact ⟨rfl, rfl⟩
    · rw [initState_now, initState_trace, toM_a0]; rfl
  | @step s s' _ hs ih =>
    obtain ⟨a, acts, hi, hrun⟩ := ih
    cases hp : popMin s.agenda with
    | none => simp [_root_.step, hp, StepResult.state?] at hs
    | some qr =>
      obtain ⟨q, rest⟩ := qr
      obtain ⟨s'', a', new, h1, h2, -, -, -, h6, acts', h7⟩ := inv_step_lts (size := size) fuel hi hp
      rw [h1] at hs
      simp only [StepResult.state?, Option.some.injEq] at hs
      subst hs
      refine ⟨a', acts ++ acts', h2, ?_⟩
      have := runActs_append _ _ _ _ _ _ _ _ _ _ hrun h7
      rw [this, h6, putPk_append, outPk_append]

/-! ## the abstraction function -/

theorem putsOf_eq_putIds (tr : Array (Obs ℚ)) : (putsOf tr).map (·.1) = putIds (histOf tr) := by
  unfold putsOf logsOf histOf
  induction tr.toList with
  | nil => rfl
  | cons o r ih =>
    cases o with
    | log p w v t =>
      cases v with
      | int i =>
        by_cases h1 : w = "put"
        · subst h1
          simp [List.filterMap_cons, obsOf, histOf1, putIds, ih]
        · by_cases h2 : w = "serve"
          · subst h2; simpa [List.filterMap_cons, obsOf, histOf1, putIds] using ih
          · by_cases h3 : w = "out"
            · subst h3; simpa [List.filterMap_cons, obsOf, histOf1, putIds] using ih
            · simpa [List.filterMap_cons, obsOf, histOf1, h1, h2, h3] using ih
      | none =>
        by_cases h1 : w = "idle"
        · subst h1; simpa [List.filterMap_cons, obsOf, histOf1, putIds] using ih
        · simpa [List.filterMap_cons, obsOf, histOf1, h1] using ih
      | str _ => simpa [List.filterMap_cons, obsOf, histOf1] using ih
      | ev _ => simpa [List.filterMap_cons, obsOf, histOf1] using ih
      | cv _ => simpa [List.filterMap_cons, obsOf, histOf1] using ih
      | preempted _ _ _ => simpa [List.filterMap_cons, obsOf, histOf1] using ih
      | frozen _ => simpa [List.filterMap_cons, obsOf, histOf1] using ih
    | resumed => simpa [List.filterMap_cons, obsOf, histOf1] using ih
    | probe => simpa [List.filterMap_cons, obsOf, histOf1] using ih
    | callErr => simpa [List.filterMap_cons, obsOf, histOf1] using ih
    | ended => simpa [List.filterMap_cons, obsOf, histOf1] using ih

theorem cellVal_eq (k : Nat) : cellVal s k = TimerK.lookup s.shared k := rfl

/-- an agenda entry is identified by its event -/
theorem entry_of_ev (hk : KInv flow F s a) {q0 : QEntry ℚ} (hq0 : a.run.entries = [q0]) (hev : q0.ev ∈ a.run.ids) :
    ∀ x ∈ s.agenda, x.ev = q0.ev → x = q0 := by
  intro x hx hxe
  have hx' : x ∈ a.entries := hk.ag.subset hx
  obtain ⟨nrun, nsrc, npend, drun, dsrc⟩ := (ids_nodup_iff a).mp hk.nd
  simp only [A.entries, List.mem_append, hq0, List.mem_singleton] at hx'
  rcases hx' with h | h | h
  · exact h
  · exfalso
    have hs := hk.src
    have : x.ev ∈ a.src.ids := by
      cases hsrc : a.src with
      | init q1 arr => rw [hsrc] at hs h; simp only [SPhase.entries, List.mem_singleton] at h; subst h; simp [wrrids, hs.1]
      | wait id r q1 => rw [hsrc] at h; simp only [SPhase.entries, List.mem_singleton] at h; subst h; simp [wrrids]
      | ending q1 => rw [hsrc] at hs h; simp only [SPhase.entries, List.mem_singleton] at h; subst h; simp [wrrids, hs.1]
      | done => rw [hsrc] at h; simp [SPhase.entries] at h
    exact (drun _ hev).1 (hxe ▸ this)
  · exfalso
    simp only [pendEntries, List.mem_map] at h
    obtain ⟨u, hu, rfl⟩ := h
    exact (drun _ hev).2 (hxe ▸ mem_pendIds_of hu)

theorem mem_keysOf (ids : List Int) (id : Int) (h : id ∈ ids) : flow id ∈ keysOf flow ids := by
  have : ∀ (ids : List Int) (acc : List Nat), (flow id ∈ acc ∨ id ∈ ids) → flow id ∈ ids.foldl (fun l i => addKey l (flow i)) acc := by
    intro ids
    induction ids with
    | nil => intro acc h; rcases h with h | h; exact h; cases h
    | cons x r ih =>
      intro acc h
      simp only [List.foldl_cons]
      apply ih
      rcases h with h | h
      · exact Or.inl ((mem_addKey _ _ _).mpr (Or.inl h))
      · rcases List.mem_cons.mp h with rfl | h
        · exact Or.inl ((mem_addKey _ _ _).mpr (Or.inr rfl))
        · exact Or.inr h
  exact this ids [] (Or.inr h)

theorem foldl_addKey_flow (kc : List Nat) : ∀ (ids : List Int), (∀ id ∈ ids, flow id ∈ kc) →
    ids.foldl (fun l id => addKey l (flow id)) kc = kc
  | [], _ => rfl
  | x :: r, h => by
    simp only [List.foldl_cons, addKey_of_mem _ _ (h x List.mem_cons_self)]
    exact foldl_addKey_flow kc r (fun y hy => h y (List.mem_cons_of_mem _ hy))

/-- **the abstraction function reads the configuration's LTS state off the kernel state** -/
theorem absWRR_eq (h : Inv2 F flow cfg s a) : absWRR cfg.weights flow size s = toM cfg.flows flow size a s.now := by
  have hk := h.i.k
  have hi := h.i.a
  have hkeys : keysOf flow ((putsOf s.trace).map (·.1)) = a.keys := by rw [putsOf_eq_putIds, h.l.keys]
  have hlt := h.i.a.keysOK.1
  have hstart : started s = (match a.run with | .init _ => false | _ => true) := by
    have hr := hk.run
    unfold started
    cases hrun : a.run <;> rw [hrun] at hr
    · simp [runProc, hr.2.2.1]
    · simp [runProc, hr.2.1]
    · simp [runProc, hr.2.2.1]
    · simp [runProc, hr.2.2.1]
    · simp [runProc, hr.2.2.2.2.1]
    · simp [runProc, hr.2.2.2.2.1]
    · simp [runProc, hr.2.2.1]
  have hfil : (cfg.weights.filter fun e => 0 < e.2) = cfg.weights :=
    List.filter_eq_self.mpr (fun e he => by simpa using hi.table.2 e he)
  have hckeys : countKeys cfg.weights (started s) flow ((putsOf s.trace).map (·.1)) = ckeys cfg.flows a.run := by
    rw [putsOf_eq_putIds, hstart]
    unfold countKeys
    rw [hfil]
    have hnd := flows_nodup hi
    have hall : ∀ id ∈ putIds (histOf s.trace), flow id ∈ cfg.flows := by
      intro id hid
      have : flow id ∈ a.keys := by rw [h.l.keys]; exact mem_keysOf _ _ hid
      exact (mem_flows hi _).mpr (hlt _ this)
    cases hrun : a.run with
    | init q0 =>
      have hr := hi.run
      rw [hrun] at hr
      have hrecv := h.l.recv
      rw [hr.2.2.2.2.2.2.2] at hrecv
      have : putIds (histOf s.trace) = [] := List.eq_nil_of_length_eq_zero (by exact_mod_cast hrecv.symm)
      simp [this]
    | W g => simp only [if_true, foldl_addKey_nil _ hnd, ckeys_W]; exact foldl_addKey_flow _ _ hall
    | K g q0 => simp only [if_true, foldl_addKey_nil _ hnd, ckeys_K]; exact foldl_addKey_flow _ _ hall
    | H g m jj id q0 => simp only [if_true, foldl_addKey_nil _ hnd, ckeys_H]; exact foldl_addKey_flow _ _ hall
    | S p m jj id q0 => simp only [if_true, foldl_addKey_nil _ hnd, ckeys_S]; exact foldl_addKey_flow _ _ hall
    | T p t m jj id q0 => simp only [if_true, foldl_addKey_nil _ hnd, ckeys_T]; exact foldl_addKey_flow _ _ hall
    | F p m jj id q0 => simp only [if_true, foldl_addKey_nil _ hnd, ckeys_F]; exact foldl_addKey_flow _ _ hall
  have hph : absPhase flow size s = (phaseOf flow size a.run, ctlOf a.run) := by
    have hr := hk.run
    unfold absPhase
    cases hrun : a.run with
    | init q0 =>
      rw [hrun] at hr
      simp [runProc, hr.2.2.1, phaseOf, ctlOf]
    | W g =>
      rw [hrun] at hr
      simp [runProc, hr.2.1, hr.1.2.2, phaseOf, ctlOf]
    | K g q0 =>
      rw [hrun] at hr
      simp [runProc, hr.2.2.1, hr.2.1.2.2, phaseOf, ctlOf]
    | H g m jj id q0 =>
      rw [hrun] at hr
      simp [runProc, hr.2.2.1, hr.2.1.2.2, phaseOf, ctlOf]
    | S p m jj id q0 =>
      rw [hrun] at hr
      simp [runProc, hr.2.2.2.2.1, hr.2.2.2.1.2.2, hr.2.2.1, phaseOf, ctlOf]
    | F p m jj id q0 =>
      rw [hrun] at hr
      simp [runProc, hr.2.2.1, hr.2.1.2.2, phaseOf, ctlOf]
    | T p t m jj id q0 =>
      rw [hrun] at hr
      have hdue : dueOf s t = q0.time := by
        unfold dueOf
        have hmem : q0 ∈ s.agenda := hk.ag.symm.subset (mem_run (by simp [hrun, RPhase.entries]))
        have huniq := entry_of_ev hk (q0 := q0) (by simp [hrun, RPhase.entries]) (by simp [hrun, wrrids, hr.1])
        cases hf : s.agenda.find? (·.ev == t) with
        | none =>
          have := List.find?_eq_none.mp hf q0 hmem
          simp [hr.1] at this
        | some x =>
          have h1 := List.mem_of_find?_eq_some hf
          have h2 := List.find?_some hf
          simp only [beq_iff_eq] at h2
          rw [huniq x h1 (by rw [h2, hr.1])]
          rfl
      simp [runProc, hr.2.2.2.2.1, hr.2.2.2.1.2.2, hr.2.2.1, hdue, phaseOf, ctlOf]
  have hltc : ∀ f ∈ ckeys cfg.flows a.run, f < F := by
    intro f hf
    cases hrun : a.run <;> rw [hrun] at hf
    · simp at hf
    all_goals exact (mem_flows hi f).mp hf
  unfold absWRR toM
  simp only [hkeys, hckeys, hph, dictOf]
  congr 1
  · apply List.map_congr_left
    intro f hf
    have := hk.st f (hlt f hf)
    rw [this]; rfl
  · apply List.map_congr_left
    intro f hf
    simp only [cellInt, cellVal_eq, hk.cc f (hltc f hf)]
  · apply List.map_congr_left
    intro f hf
    simp only [cellInt, cellVal_eq, hk.cb f (hlt f hf)]
  · show (s.res 0).items.length = a.tokens
    rw [hk.tok]; simp [storeRec]
  · rw [cellVal_eq, hk.c1]
    cases a.cur <;> rfl
  · simp only [cellInt, cellVal_eq, hk.c0]

end WRRK
