import OnlVerif.Lemmas.SchedDRR
/-!
# DRR: the credit of every class stays within `[0, quantum + Lmax)`

`Credit` is the inductive invariant: credits are non-negative; the class whose visit is in progress has less than
`quantum + Lmax`; every other class has credit 0 or a parked head-of-line packet larger than its credit; a class
without backlog has no credit; the packet being sent was affordable.
-/

namespace DRR
open MQ

/-! ### dictionary keys -/

theorem keys_setKey_present {β : Type} (m : List (Nat × β)) (c : Nat) (v v0 : β) (h : lookup m c = some v0) :
    (setKey m c v).map (·.1) = m.map (·.1) := by
  induction m with
  | nil => simp [lookup] at h
  | cons a r ih =>
    obtain ⟨k1, v1⟩ := a
    by_cases hk : k1 = c
    · simp [setKey, hk]
    · simp only [lookup, hk, if_false] at h
      simp [setKey, hk, ih h]

theorem lookup_of_getElem {β : Type} (m : List (Nat × β)) (hn : (m.map (·.1)).Nodup) (i c : Nat) (v : β)
    (h : m[i]? = some (c, v)) : lookup m c = some v := by
  induction m generalizing i with
  | nil => simp at h
  | cons a r ih =>
    obtain ⟨k1, v1⟩ := a
    simp only [List.map_cons, List.nodup_cons] at hn
    cases i with
    | zero =>
      simp only [List.getElem?_cons_zero, Option.some.injEq, Prod.mk.injEq] at h
      obtain ⟨rfl, rfl⟩ := h
      simp [lookup]
    | succ j =>
      simp only [List.getElem?_cons_succ] at h
      have hmem : c ∈ r.map (·.1) := by
        have := List.mem_of_getElem? h
        exact List.mem_map.mpr ⟨(c, v), this, rfl⟩
      have hne : k1 ≠ c := fun hx => hn.1 (hx ▸ hmem)
      simp only [lookup, hne, if_false]
      exact ih hn.2 j h

theorem keyAt_setKey (k : Ctl ℚ) (c : Nat) (v v0 : Int) (h : lookup k.classCount c = some v0) (i : Nat) :
    keyAt { k with classCount := setKey k.classCount c v } i = keyAt k i := by
  simp only [keyAt]
  rw [← List.getElem?_map, ← List.getElem?_map, keys_setKey_present _ _ _ _ h]

/-! ### the invariant -/

/-- the class whose visit is in progress -/
def curKey (k : Ctl ℚ) : Option Nat :=
  match k.pc with
  | .inner i => keyAt k i
  | .gotPkt i => keyAt k i
  | .sent i => keyAt k i
  | _ => none

/-- `p` is the packet of the sender process -/
def inTx (s : St) (p : MPkt) : Prop := s.phase = .spawned p ∨ (∃ d, s.phase = .sending p d) ∨ s.phase = .finished p

structure Credit (cfg : Cfg ℚ) (L : ℚ) (s : St) : Prop where
  nodup : (s.ctl.classCount.map (·.1)).Nodup
  nonneg : ∀ cls d, lookup s.ctl.deficit cls = some d → 0 ≤ d
  visited : ∀ cls d q, lookup s.ctl.deficit cls = some d → curKey s.ctl = some cls → quantum cfg cls = some q → d < q + L
  resting : ∀ cls d, lookup s.ctl.deficit cls = some d → curKey s.ctl ≠ some cls →
    d ≤ 0 ∨ ∃ p, lookupD s.hol cls none = some p ∧ d < p.size
  forgot : ∀ cls n d, lookup s.ctl.classCount cls = some n → lookup s.ctl.deficit cls = some d → n ≤ 0 → d ≤ 0
  afford : ∀ i p cls d, s.ctl.pc = .sent i → inTx s p → keyAt s.ctl i = some cls → lookup s.ctl.deficit cls = some d →
    (p.size : ℚ) ≤ d
  holSmall : ∀ c p, lookupD s.hol c none = some p → (p.size : ℚ) ≤ L
  handKey : ∀ c p i, s.phase = .pktHanded c p → s.ctl.pc = .gotPkt i → keyAt s.ctl i = some c
  txClass : ∀ i p, s.ctl.pc = .sent i → inTx s p → classOf cfg p.flow = keyAt s.ctl i ∧ (p.size : ℚ) ≤ L

variable (cfg : Cfg ℚ) (L : ℚ)

/-- a move that changes neither credits, counts, parked packets nor the class in progress -/
theorem credit_move (s s' : St) (h : Credit cfg L s)
    (h1 : s'.ctl.deficit = s.ctl.deficit) (h2 : s'.ctl.classCount = s.ctl.classCount) (h3 : s'.hol = s.hol)
    (h4 : curKey s'.ctl = curKey s.ctl)
    (h5 : ∀ i p, s'.ctl.pc = .sent i → inTx s' p → s.ctl.pc = .sent i ∧ inTx s p)
    (h6 : ∀ c p i, s'.phase = .pktHanded c p → s'.ctl.pc = .gotPkt i → keyAt s'.ctl i = some c) : Credit cfg L s' := by
  refine ⟨by rw [h2]; exact h.nodup, by rw [h1]; exact h.nonneg, ?_, ?_, by rw [h1, h2]; exact h.forgot, ?_,
    by rw [h3]; exact h.holSmall, h6, ?_⟩
  · rw [h1, h4]; exact h.visited
  · rw [h1, h3, h4]; exact h.resting
  · intro i p cls d hpc htx hk hd
    obtain ⟨hpc', htx'⟩ := h5 i p hpc htx
    have hk' : keyAt s.ctl i = some cls := by simpa [keyAt, h2] using hk
    exact h.afford i p cls d hpc' htx' hk' (by rw [← h1]; exact hd)
  · intro i p hpc htx
    obtain ⟨hpc', htx'⟩ := h5 i p hpc htx
    have := h.txClass i p hpc' htx'
    simpa [keyAt, h2] using this

variable (hL : 0 < L) (hq : ∀ cls q, quantum cfg cls = some q → 0 < q)
include hL hq

/-- a burst of the loop keeps the invariant -/
theorem dsettles_credit (s s' : St) (hs : DSettles cfg s s') (h : Credit cfg L s) : Credit cfg L s' := by
  induction hs with
  | topGo s s' hpc ht _ ih =>
    apply ih
    exact credit_move cfg L s _ h rfl rfl rfl (by simp [curKey, hpc]) (fun i p hx _ => (by cases hx)) (fun c p i _ hx => (by cases hx))
  | topBlock s hpc ht =>
    have hb : ∀ (t : St), (blockOnToken t).ctl = t.ctl ∧ (blockOnToken t).hol = t.hol ∧
        ((blockOnToken t).phase = .waitToken ∨ (blockOnToken t).phase = .tokenHanded) := by
      intro t; unfold blockOnToken; split
      · exact ⟨rfl, rfl, Or.inr rfl⟩
      · exact ⟨rfl, rfl, Or.inl rfl⟩
    obtain ⟨e1, e2, e3⟩ := hb { s with ctl := { s.ctl with pc := .top } }
    refine credit_move cfg L s _ h (by rw [e1]) (by rw [e1]) (by rw [e2]) (by rw [e1]; simp [curKey, hpc]) ?_ ?_
    · intro i p hx _; rw [e1] at hx; cases hx
    · intro c p i hx _; rcases e3 with e3 | e3 <;> rw [e3] at hx <;> cases hx
  | topSpin s s' hpc ht ht0 _ ih =>
    apply ih
    exact credit_move cfg L s _ h rfl rfl rfl (by simp [curKey, hpc]) (fun i p hx _ => (by cases hx)) (fun c p i _ hx => (by cases hx))
  | roundEnd s i s' hpc hnone _ ih =>
    apply ih
    exact credit_move cfg L s _ h rfl rfl rfl (by simp [curKey, hpc]) (fun i p hx _ => (by cases hx)) (fun c p i _ hx => (by cases hx))
  | visitAdd s i cls n d q s' hpc hcc hn hd hqq _ ih =>
    apply ih
    have hck : curKey s.ctl = none := by simp [curKey, hpc]
    have hkey : keyAt s.ctl i = some cls := by simp [keyAt, hcc]
    have hcn : lookup s.ctl.classCount cls = some n := lookup_of_getElem _ h.nodup i cls n hcc
    refine ⟨h.nodup, ?_, ?_, ?_, ?_, fun i p cls d hx => (by cases hx), h.holSmall, fun c p i _ hx => (by cases hx), fun i p hx => (by cases hx)⟩
    · intro c d' hd'
      simp only [addQuantum] at hd'
      by_cases hc : c = cls
      · subst hc
        rw [lookup_setKey_same] at hd'; cases hd'
        have := h.nonneg c d hd; have := hq c q hqq; linarith
      · rw [lookup_setKey_ne _ _ _ _ hc] at hd'; exact h.nonneg c d' hd'
    · intro c d' q' hd' hk hq'
      simp only [curKey, keyAt, addQuantum] at hk
      have hc : c = cls := by
        have : keyAt s.ctl i = some c := hk
        rw [hkey] at this; exact (Option.some.inj this).symm
      subst hc
      simp only [addQuantum] at hd'
      rw [lookup_setKey_same] at hd'; cases hd'
      rw [hqq] at hq'; cases hq'
      rcases h.resting c d hd (by rw [hck]; simp) with h1 | ⟨p, hp, h1⟩
      · linarith
      · have := h.holSmall c p hp; linarith
    · intro c d' hd' hk
      simp only [curKey, keyAt, addQuantum] at hk
      have hc : c ≠ cls := fun hx => hk (by rw [hx]; exact hkey)
      simp only [addQuantum] at hd'
      rw [lookup_setKey_ne _ _ _ _ hc] at hd'
      exact h.resting c d' hd' (by rw [hck]; simp)
    · intro c n' d' hn' hd' hle
      simp only [addQuantum] at hn' hd'
      by_cases hc : c = cls
      · subst hc
        rw [hcn] at hn'; cases hn'; omega
      · rw [lookup_setKey_ne _ _ _ _ hc] at hd'
        exact h.forgot c n' d' hn' hd' hle
  | visitSkip s i cls n s' hpc hcc hn _ ih =>
    apply ih
    have hck : curKey s.ctl = none := by simp [curKey, hpc]
    have hkey : keyAt s.ctl i = some cls := by simp [keyAt, hcc]
    refine ⟨h.nodup, h.nonneg, ?_, ?_, h.forgot, fun i p cls d hx => (by cases hx), h.holSmall, fun c p i _ hx => (by cases hx), fun i p hx => (by cases hx)⟩
    · intro c d q hd hk hqq
      rcases h.resting c d hd (by rw [hck]; simp) with h1 | ⟨p, hp, h1⟩
      · have := hq c q hqq; linarith
      · have := h.holSmall c p hp; have := hq c q hqq; linarith
    · intro c d hd hk
      exact h.resting c d hd (by rw [hck]; simp)
  | innerExit s i cls n d s' hpc hcc hd hcond _ ih =>
    apply ih
    have hkey : keyAt s.ctl i = some cls := by simp [keyAt, hcc]
    have hck : curKey s.ctl = some cls := by simp [curKey, hpc, hkey]
    have hcn : lookup s.ctl.classCount cls = some n := lookup_of_getElem _ h.nodup i cls n hcc
    refine ⟨h.nodup, h.nonneg, ?_, ?_, h.forgot, fun i p cls d hx => (by cases hx), h.holSmall, fun c p i _ hx => (by cases hx), fun i p hx => (by cases hx)⟩
    · intro c d' q _ hk; simp [curKey] at hk
    · intro c d' hd' _
      by_cases hc : c = cls
      · subst hc
        rw [hd] at hd'; cases hd'
        left
        by_cases hdp : 0 < d
        · have : ¬ 0 < n := fun hx => hcond ⟨hdp, hx⟩
          exact h.forgot c n d hcn hd (not_lt.mp this)
        · exact not_lt.mp hdp
      · exact h.resting c d' hd' (by rw [hck]; simpa using fun hx => hc hx.symm)
  | innerGet s i cls n d s' hpc hcc hd hdp hnp hhol hg =>
    have hkey : keyAt s.ctl i = some cls := by simp [keyAt, hcc]
    unfold issueGet at hg
    split at hg
    · simp only [Except.ok.injEq] at hg
      subst hg
      refine credit_move cfg L s _ h rfl rfl rfl (by simp [curKey, hpc, keyAt]) (fun i p hx _ => (by cases hx)) ?_
      intro c p i' hph hx
      cases hph; cases hx
      exact hkey
    · cases hg
  | takeSend s i cls n d p hpc hcc hd hdp hnp hhol hcl hle =>
    have hkey : keyAt s.ctl i = some cls := by simp [keyAt, hcc]
    have hck : curKey s.ctl = some cls := by simp [curKey, hpc, hkey]
    refine ⟨h.nodup, h.nonneg, ?_, ?_, h.forgot, ?_, ?_, fun c p i hx _ => (by cases hx), ?_⟩
    rotate_right
    · intro i' p' hx htx
      cases hx
      have hp' : p' = p := by
        rcases htx with h1 | ⟨_, h1⟩ | h1 <;> simp [spawn] at h1
        exact h1.symm
      subst hp'
      exact ⟨by rw [hcl]; exact hkey.symm, h.holSmall cls p' hhol⟩
    · intro c d' q hd' hk hqq
      have hk' : keyAt s.ctl i = some c := hk
      exact h.visited c d' q hd' (by rw [hck, ← hkey]; exact hk') hqq
    · intro c d' hd' hk
      have hc : c ≠ cls := by
        intro hx; apply hk; simp [curKey, spawn, keyAt, hcc, hx]
      rcases h.resting c d' hd' (by rw [hck]; simpa using fun hx => hc hx.symm) with h1 | ⟨p', hp', h1⟩
      · exact Or.inl h1
      · exact Or.inr ⟨p', by simpa [spawn, lookupD_setKey_ne _ _ _ _ _ hc] using hp', h1⟩
    · intro i' p' c d' hx htx hk hd'
      cases hx
      have hp' : p' = p := by
        rcases htx with h1 | ⟨_, h1⟩ | h1 <;> simp [spawn] at h1
        exact h1.symm
      subst hp'
      have : c = cls := by
        have : keyAt s.ctl i = some c := by simpa [spawn, keyAt] using hk
        rw [hkey] at this; exact (Option.some.inj this).symm
      subst this
      have : d' = d := by
        have : lookup s.ctl.deficit c = some d' := hd'
        rw [hd] at this; exact (Option.some.inj this).symm
      subst this
      exact hle
    · intro c p' hp'
      simp only [spawn, lookupD_setKey] at hp'
      split at hp'
      · cases hp'
      · exact h.holSmall c p' hp'
  | takePark s i cls n d p s' hpc hcc hd hdp hnp hhol hcl hle _ ih =>
    apply ih
    have hkey : keyAt s.ctl i = some cls := by simp [keyAt, hcc]
    have hck : curKey s.ctl = some cls := by simp [curKey, hpc, hkey]
    have hl : ∀ c', lookupD (setKey (setKey s.hol cls none) cls (some p)) c' none = lookupD s.hol c' none := by
      intro c'
      simp only [lookupD_setKey]
      split
      · rename_i hc; rw [hc, hhol]
      · rfl
    refine ⟨h.nodup, h.nonneg, ?_, ?_, h.forgot, fun i p cls d hx => (by cases hx), ?_, fun c p i _ hx => (by cases hx), fun i p hx => (by cases hx)⟩
    · intro c d' q _ hk; simp [curKey] at hk
    · intro c d' hd' _
      show d' ≤ 0 ∨ ∃ p', lookupD (setKey (setKey s.hol cls none) cls (some p)) c none = some p' ∧ d' < p'.size
      rw [hl]
      by_cases hc : c = cls
      · subst hc
        have : d' = d := by
          have : lookup s.ctl.deficit c = some d' := hd'
          rw [hd] at this; exact (Option.some.inj this).symm
        subst this
        exact Or.inr ⟨p, hhol, not_le.mp hle⟩
      · exact h.resting c d' hd' (by rw [hck]; simpa using fun hx => hc hx.symm)
    · intro c p' hp'
      have : lookupD s.hol c none = some p' := by rw [← hl]; exact hp'
      exact h.holSmall c p' this

/-- a step keeps the invariant, provided the packet the loop holds is not larger than `L` -/
theorem dtrans_credit (s s' : St) (a : MAct ℚ) (o : MOut ℚ) (ht : DTrans cfg s a s' o) (h : Credit cfg L s)
    (hsz : ∀ c p, s.phase = .pktHanded c p → (p.size : ℚ) ≤ L) : Credit cfg L s' := by
  cases ht with
  | init _ hp hs =>
    apply dsettles_credit cfg L hL hq _ s' hs
    exact credit_move cfg L s _ h rfl rfl rfl rfl
      (fun i p _ htx => (by rcases htx with h1 | ⟨_, h1⟩ | h1 <;> cases h1)) (fun c p i hx _ => (by cases hx))
  | put p cls n hcl hn =>
    have hph : ∀ (t : St), (enqueue (countIn (postToken t) p) cls p).phase = t.phase ∧
        (enqueue (countIn (postToken t) p) cls p).ctl = t.ctl ∧ (enqueue (countIn (postToken t) p) cls p).hol = t.hol := by
      intro t; unfold postToken; split <;> exact ⟨rfl, rfl, rfl⟩
    obtain ⟨e1, e2, e3⟩ := hph { s with ctl := { s.ctl with classCount := setKey s.ctl.classCount cls (n + 1) } }
    have hka : ∀ i, keyAt ({ s.ctl with classCount := setKey s.ctl.classCount cls (n + 1) } : Ctl ℚ) i = keyAt s.ctl i :=
      keyAt_setKey s.ctl cls (n + 1) n hn
    have hck : curKey ({ s.ctl with classCount := setKey s.ctl.classCount cls (n + 1) } : Ctl ℚ) = curKey s.ctl := by
      simp only [curKey]; split <;> simp only [hka]
    refine ⟨?_, ?_, ?_, ?_, ?_, ?_, ?_, ?_, ?_⟩
    rotate_right
    · rw [e2]
      intro i q hpc htx
      rw [hka]
      exact h.txClass i q hpc (by simpa [inTx, e1] using htx)
    · rw [e2]; show (List.map (·.1) (setKey s.ctl.classCount cls (n + 1))).Nodup
      rw [keys_setKey_present _ _ _ _ hn]; exact h.nodup
    · rw [e2]; exact h.nonneg
    · rw [e2, hck]; exact h.visited
    · rw [e2, e3, hck]; exact h.resting
    · rw [e2]
      intro c n' d hn' hd hle
      by_cases hc : c = cls
      · subst hc
        have : lookup (setKey s.ctl.classCount c (n + 1)) c = some n' := hn'
        rw [lookup_setKey_same] at this; cases this
        exact h.forgot c n d hn hd (by omega)
      · have : lookup (setKey s.ctl.classCount cls (n + 1)) c = some n' := hn'
        rw [lookup_setKey_ne _ _ _ _ hc] at this
        exact h.forgot c n' d this hd hle
    · rw [e2]
      intro i q c d hpc htx hk hd
      rw [hka] at hk
      exact h.afford i q c d hpc (by simpa [inTx, e1] using htx) hk hd
    · rw [e3]; exact h.holSmall
    · rw [e2, e1]
      intro c q i hx hpc
      rw [hka]; exact h.handKey c q i hx hpc
  | tokenHandoff n hp htk =>
    exact credit_move cfg L s _ h rfl rfl rfl rfl
      (fun i p _ htx => (by rcases htx with h1 | ⟨_, h1⟩ | h1 <;> cases h1)) (fun c p i hx _ => (by cases hx))
  | wake _ hp hs =>
    apply dsettles_credit cfg L hL hq _ s' hs
    exact credit_move cfg L s _ h rfl rfl rfl rfl
      (fun i p _ htx => (by rcases htx with h1 | ⟨_, h1⟩ | h1 <;> cases h1)) (fun c p i hx _ => (by cases hx))
  | resumeSend cls p i d hp hpc hd hcl hle =>
    have hkey := h.handKey cls p i hp hpc
    have hck : curKey s.ctl = some cls := by simp [curKey, hpc, hkey]
    refine ⟨h.nodup, h.nonneg, ?_, ?_, h.forgot, ?_, h.holSmall, fun c p i hx _ => (by cases hx), ?_⟩
    rotate_right
    · intro i' p' hx htx
      cases hx
      have hp' : p' = p := by
        rcases htx with h1 | ⟨_, h1⟩ | h1 <;> simp [spawn] at h1
        exact h1.symm
      subst hp'
      exact ⟨by rw [hcl]; exact hkey.symm, hsz cls p' hp⟩
    · intro c d' q hd' hk hqq
      have hk' : keyAt s.ctl i = some c := hk
      exact h.visited c d' q hd' (by rw [hck, ← hkey]; exact hk') hqq
    · intro c d' hd' hk
      have hne : curKey s.ctl ≠ some c := by
        rw [hck]; intro hx; apply hk
        show keyAt s.ctl i = some c
        rw [hkey]; exact hx
      exact h.resting c d' hd' hne
    · intro i' p' c d' hx htx hk hd'
      cases hx
      have hp' : p' = p := by
        rcases htx with h1 | ⟨_, h1⟩ | h1 <;> simp [spawn] at h1
        exact h1.symm
      subst hp'
      have : c = cls := by
        have : keyAt s.ctl i = some c := by simpa [spawn, keyAt] using hk
        rw [hkey] at this; exact (Option.some.inj this).symm
      subst this
      have : d' = d := by
        have : lookup s.ctl.deficit c = some d' := hd'
        rw [hd] at this; exact (Option.some.inj this).symm
      subst this
      exact hle
  | resumePark cls p i d _ hp hpc hd hcl hle hnone hs =>
    apply dsettles_credit cfg L hL hq _ s' hs
    have hkey := h.handKey cls p i hp hpc
    have hck : curKey s.ctl = some cls := by simp [curKey, hpc, hkey]
    refine ⟨h.nodup, h.nonneg, ?_, ?_, h.forgot, fun i p cls d hx => (by cases hx), ?_, fun c p i hx _ => (by cases hx), fun i p hx => (by cases hx)⟩
    · intro c d' q _ hk; simp [curKey] at hk
    · intro c d' hd' _
      show d' ≤ 0 ∨ ∃ p', lookupD (setKey s.hol cls (some p)) c none = some p' ∧ d' < p'.size
      by_cases hc : c = cls
      · subst hc
        have : d' = d := by
          have : lookup s.ctl.deficit c = some d' := hd'
          rw [hd] at this; exact (Option.some.inj this).symm
        subst this
        exact Or.inr ⟨p, by rw [lookupD_setKey_same], not_le.mp hle⟩
      · rw [lookupD_setKey_ne _ _ _ _ _ hc]
        exact h.resting c d' hd' (by rw [hck]; simpa using fun hx => hc hx.symm)
    · intro c p' hp'
      have hp'' : lookupD (setKey s.hol cls (some p)) c none = some p' := hp'
      rw [lookupD_setKey] at hp''
      split at hp''
      · cases hp''; exact hsz cls p hp
      · exact h.holSmall c p' hp''
  | sendInit p hp =>
    refine credit_move cfg L s _ h rfl rfl rfl rfl ?_ (fun c p i hx _ => (by cases hx))
    intro i q hpc htx
    refine ⟨hpc, ?_⟩
    have : q = p := by
      rcases htx with h1 | ⟨_, h1⟩ | h1 <;> simp at h1
      exact h1.1.symm
    subst this
    exact Or.inl hp
  | sendFire p due hp hnow =>
    refine credit_move cfg L s _ h rfl rfl rfl rfl ?_ (fun c p i hx _ => (by cases hx))
    intro i q hpc htx
    refine ⟨hpc, ?_⟩
    have : q = p := by
      rcases htx with h1 | ⟨_, h1⟩ | h1 <;> simp at h1
      exact h1.symm
    subst this
    exact Or.inr (Or.inl ⟨due, hp⟩)
  | sendDone p i cls n d _ hp hpc hcc hd hs =>
    apply dsettles_credit cfg L hL hq _ s' hs
    have hkey : keyAt s.ctl i = some cls := by simp [keyAt, hcc]
    have hck : curKey s.ctl = some cls := by simp [curKey, hpc, hkey]
    have hcn : lookup s.ctl.classCount cls = some n := lookup_of_getElem _ h.nodup i cls n hcc
    have hle : (p.size : ℚ) ≤ d := h.afford i p cls d hpc (Or.inr (Or.inr hp)) hkey hd
    have hd0 := h.nonneg cls d hd
    -- the three fields `book` touches
    have hcc' : (book s.ctl cls d n p).classCount = setKey s.ctl.classCount cls (n - 1) := by
      unfold book; split <;> rfl
    have hdef' : (book s.ctl cls d n p).deficit =
        setKey s.ctl.deficit cls (if n - 1 = 0 then 0 else d - p.size) := by
      unfold book; split
      · show setKey s.ctl.deficit cls Num.zero = setKey s.ctl.deficit cls 0
        rw [zero_eq']
      · rfl
    have hka : ∀ j, keyAt ({ book s.ctl cls d n p with pc := Pc.inner i } : Ctl ℚ) j = keyAt s.ctl j := by
      intro j
      simp only [keyAt, hcc']
      rw [← List.getElem?_map, ← List.getElem?_map, keys_setKey_present _ _ _ _ hcn]
    refine ⟨?_, ?_, ?_, ?_, ?_, fun i p cls d hx => (by cases hx), h.holSmall, fun c p i hx _ => (by cases hx), fun i p hx => (by cases hx)⟩
    · show (List.map (·.1) (book s.ctl cls d n p).classCount).Nodup
      rw [hcc', keys_setKey_present _ _ _ _ hcn]; exact h.nodup
    · intro c d' hd'
      have hd'' : lookup (book s.ctl cls d n p).deficit c = some d' := hd'
      rw [hdef'] at hd''
      by_cases hc : c = cls
      · subst hc
        rw [lookup_setKey_same] at hd''; cases hd''
        split
        · exact le_refl 0
        · linarith
      · rw [lookup_setKey_ne _ _ _ _ hc] at hd''; exact h.nonneg c d' hd''
    · intro c d' q hd' hk hqq
      have hk' : keyAt s.ctl i = some c := by
        have : keyAt ({ book s.ctl cls d n p with pc := Pc.inner i } : Ctl ℚ) i = some c := hk
        rw [hka] at this; exact this
      have hc : c = cls := by rw [hkey] at hk'; exact (Option.some.inj hk').symm
      subst hc
      have hd'' : lookup (book s.ctl c d n p).deficit c = some d' := hd'
      rw [hdef', lookup_setKey_same] at hd''; cases hd''
      have := h.visited c d q hd hck hqq
      split
      · linarith
      · have : (0 : ℚ) ≤ p.size := Nat.cast_nonneg _
        linarith
    · intro c d' hd' hk
      have hc : c ≠ cls := by
        intro hx; apply hk
        show keyAt ({ book s.ctl cls d n p with pc := Pc.inner i } : Ctl ℚ) i = some c
        rw [hka, hx]; exact hkey
      have hd'' : lookup (book s.ctl cls d n p).deficit c = some d' := hd'
      rw [hdef', lookup_setKey_ne _ _ _ _ hc] at hd''
      exact h.resting c d' hd'' (by rw [hck]; simpa using fun hx => hc hx.symm)
    · intro c n' d' hn' hd' hle'
      have hn'' : lookup (book s.ctl cls d n p).classCount c = some n' := hn'
      have hd'' : lookup (book s.ctl cls d n p).deficit c = some d' := hd'
      rw [hcc'] at hn''; rw [hdef'] at hd''
      by_cases hc : c = cls
      · subst hc
        rw [lookup_setKey_same] at hn'' hd''; cases hn''; cases hd''
        split
        · exact le_refl 0
        · rename_i hz
          have : d ≤ 0 := h.forgot c n d hcn hd (by omega)
          have : (0 : ℚ) ≤ p.size := Nat.cast_nonneg _
          linarith
      · rw [lookup_setKey_ne _ _ _ _ hc] at hn'' hd''
        exact h.forgot c n' d' hn'' hd'' hle'
  | tickIdle t h1 h2 h3 =>
    exact credit_move cfg L s _ h rfl rfl rfl rfl
      (fun i p _ htx => (by rcases htx with h1 | ⟨_, h1⟩ | h1 <;> simp [h2] at h1)) (fun c p i hx _ => (by simp [h2] at hx))
  | tickBusy t p due h1 h2 h3 =>
    exact credit_move cfg L s _ h rfl rfl rfl rfl (fun i q hpc htx => ⟨hpc, htx⟩) (fun c p i hx _ => (by simp [h2] at hx))
  | sample inc => exact h

end DRR
