import Lean.Meta.Tactic.Simp.RegisterCommand
/-! simp sets used to execute the kernel model symbolically on the token-bucket program (`tbk`) and to take the list of the
events of a configuration apart (`tbids`) -/
register_simp_attr tbk
register_simp_attr tbids
