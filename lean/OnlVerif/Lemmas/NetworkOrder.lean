import OnlVerif.Lemmas.NetworkThm
/-!
# Order along chains of order-preserving nodes

`Link n sel a b`: the wiring sends every selected packet (`sel`: a flow, a source, …) that `a` forwards to `b`, and nobody else
sends selected packets to `b`.  Then (`link_inv`) in every reachable state the selected packets handed to `b` are, in order,
exactly the selected packets `a` forwarded.  `chain_order` composes this with the per-node order preservation along a chain.
-/

namespace Net
variable {ι π κ : Type} [DecidableEq ι] [DecidableEq π] [DecidableEq κ]

structure Link (n : Wiring ι π κ) (sel : π → Bool) (a b : ι) : Prop where
  /-- every selected packet `a` forwards goes to `b` -/
  fwd_to : ∀ p, sel p = true → n.next a p = .node b
  /-- only `a` forwards selected packets to `b` -/
  only_from : ∀ c p, sel p = true → n.next c p = .node b → c = a

/-- no source injects selected packets at `b` -/
def NoInject (es : List (GEv ι π)) (sel : π → Bool) (b : ι) : Prop :=
  ∀ p o, GEv.inject b p o ∈ es → sel p = false

/-- the selected packets node `c` has forwarded are, in order, among the selected packets handed to it -/
def OrderPreserving (g : GState ι π) (sel : π → Bool) (c : ι) : Prop :=
  ((g.recs (.out c)).filter sel).Sublist ((g.recs (.inn c)).filter sel)

/-- `R` holds between consecutive nodes of `a :: l` -/
def ChainOK (R : ι → ι → Prop) : ι → List ι → Prop
  | _, [] => True
  | a, b :: l => R a b ∧ ChainOK R b l

/-- the last node of `a :: l` -/
def lastOf : ι → List ι → ι
  | a, [] => a
  | _, b :: l => lastOf b l

theorem recs_arrive_inn (g : GState ι π) (d : Dest ι) (p : π) (o : Outcome) (b : ι) :
    (g.arrive d p o).recs (.inn b) = if d = .node b then g.recs (.inn b) ++ [p] else g.recs (.inn b) := by
  cases d with
  | sink k => cases o <;> simp [GState.arrive, recs_app]
  | node c =>
    cases o <;>
      simp only [GState.arrive, recs_app, reduceCtorEq, if_false, Slot.inn.injEq, Dest.node.injEq] <;>
      (by_cases h : b = c
       · subst h; simp
       · have : ¬ c = b := fun e => h e.symm
         simp [h, this])

theorem recs_arrive_out (g : GState ι π) (d : Dest ι) (p : π) (o : Outcome) (a : ι) :
    (g.arrive d p o).recs (.out a) = g.recs (.out a) := by
  cases d <;> cases o <;> simp [GState.arrive, recs_app]

theorem filter_snoc (sel : π → Bool) (l : List π) (p : π) :
    (l ++ [p]).filter sel = if sel p = true then l.filter sel ++ [p] else l.filter sel := by
  rw [List.filter_append]
  by_cases h : sel p = true <;> simp [h]

/-- one legal step keeps "handed to `b` = forwarded by `a`" on the selected packets -/
theorem link_step (n : Wiring ι π κ) (sel : π → Bool) (a b : ι) (hl : Link n sel a b) (g : GState ι π) (e : GEv ι π)
    (hinj : ∀ p o, e = GEv.inject b p o → sel p = false)
    (h : (g.recs (.inn b)).filter sel = (g.recs (.out a)).filter sel) :
    ((apply n g e).recs (.inn b)).filter sel = ((apply n g e).recs (.out a)).filter sel := by
  cases e with
  | inject a' p o =>
    simp only [apply, recs_arrive_inn, recs_arrive_out, recs_with_injected, Dest.node.injEq]
    by_cases hab : a' = b
    · subst hab
      rw [if_pos rfl, filter_snoc, hinj p o rfl]
      simpa using h
    · rw [if_neg hab]; exact h
  | fwd c p o =>
    simp only [apply, recs_arrive_inn, recs_arrive_out, recs_app, recs_del, reduceCtorEq, if_false, Slot.out.injEq]
    by_cases hs : sel p = true
    · by_cases hca : a = c
      · subst hca
        rw [if_pos (hl.fwd_to p hs), if_pos rfl, filter_snoc, filter_snoc, if_pos hs, if_pos hs, h]
      · have : ¬ n.next c p = .node b := fun e => hca (hl.only_from c p hs e).symm
        rw [if_neg this, if_neg hca]; exact h
    · have hf : ∀ l : List π, (l ++ [p]).filter sel = l.filter sel := by
        intro l; rw [filter_snoc, if_neg hs]
      split <;> split <;> simp only [hf, h]
  | drop c p r =>
    simp only [apply, recs_app, recs_del, reduceCtorEq, if_false]; exact h
  | copy c p q =>
    simp only [apply, recs_app, reduceCtorEq, if_false, recs_with_copies]; exact h
  | tau c => exact h

theorem link_inv (n : Wiring ι π κ) (sel : π → Bool) (a b : ι) (hl : Link n sel a b) (es : List (GEv ι π))
    (hni : NoInject es sel b) (g0 g : GState ι π) (hr : run n g0 es = .ok g)
    (h : (g0.recs (.inn b)).filter sel = (g0.recs (.out a)).filter sel) :
    (g.recs (.inn b)).filter sel = (g.recs (.out a)).filter sel := by
  induction es generalizing g0 with
  | nil => simp only [run, Except.ok.injEq] at hr; subst hr; exact h
  | cons e es ih =>
    simp only [run] at hr
    split at hr
    · cases hr
    · rename_i g1 h1
      have hg1 : g1 = apply n g0 e := by
        unfold step at h1
        split at h1
        · cases h1
        · simp only [Except.ok.injEq] at h1; exact h1.symm
      refine ih (fun p o hm => hni p o (List.mem_cons_of_mem _ hm)) g1 hr ?_
      rw [hg1]
      exact link_step n sel a b hl g0 e (fun p o he => hni p o (by rw [he]; exact List.mem_cons_self)) h

theorem chain_order (n : Wiring ι π κ) (sel : π → Bool) (es : List (GEv ι π)) (g : GState ι π)
    (hr : run n {} es = .ok g) (chain : List ι) (a0 : ι)
    (hc : ChainOK (fun a b => Link n sel a b ∧ NoInject es sel b ∧ OrderPreserving g sel a) a0 chain) :
    ((g.recs (.inn (lastOf a0 chain))).filter sel).Sublist ((g.recs (.inn a0)).filter sel) := by
  induction chain generalizing a0 with
  | nil => exact List.Sublist.refl _
  | cons b rest ih =>
    obtain ⟨⟨hl, hni, ho⟩, hrest⟩ := hc
    have h1 := ih b hrest
    have h2 := link_inv n sel a0 b hl es hni {} g hr rfl
    show ((g.recs (.inn (lastOf b rest))).filter sel).Sublist _
    exact h1.trans (h2 ▸ ho)

end Net
