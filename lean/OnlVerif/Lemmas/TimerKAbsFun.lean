import OnlVerif.Lemmas.TimerKRun
/-!
# The Timer on the kernel model: the executable abstraction function reads the configuration's LTS state off the kernel state
-/

set_option linter.unusedSimpArgs false

namespace TimerK
open TimerOnK QEntry
open Timer (CbOp PStat UEv)

variable {auto : Bool} {arg : Int} {s : KS} {a : A}

theorem findSome?_none_of {α β} (f : α → Option β) (l : List α) (h : ∀ x ∈ l, f x = none) : l.findSome? f = none := by
  induction l with
  | nil => rfl
  | cons x xs ih =>
    rw [List.findSome?_cons, h x (by simp)]
    exact ih fun y hy => h y (by simp [hy])

theorem findSome?_unique {α β} (f : α → Option β) (l : List α) (v : β) (hx : ∃ x ∈ l, f x = some v)
    (h : ∀ y ∈ l, f y = none ∨ f y = some v) : l.findSome? f = some v := by
  induction l with
  | nil => obtain ⟨x, hx, _⟩ := hx; cases hx
  | cons y ys ih =>
    rw [List.findSome?_cons]
    rcases h y (by simp) with hy | hy
    · rw [hy]
      refine ih ?_ (fun z hz => h z (by simp [hz]))
      obtain ⟨x, hx1, hx2⟩ := hx
      rcases List.mem_cons.mp hx1 with rfl | hx1
      · rw [hy] at hx2; cases hx2
      · exact ⟨x, hx1, hx2⟩
    · rw [hy]

/-- what the agenda scan of `victimOf` sees in an entry -/
def vicF (s : KS) (q : QEntry ℚ) : Option EvId :=
  match (s.ev q.ev).kind with
  | .intr p => some p
  | _ => none

theorem vicF_of_kind {q : QEntry ℚ} {k : Kind} (h : (s.ev q.ev).kind = k) (hk : ∀ p, k ≠ .intr p) : vicF s q = none := by
  unfold vicF
  rw [h]
  cases k <;> first | rfl | exact absurd rfl (hk _)

/-- the `Interruption` in the agenda is the one of the configuration -/
theorem victimOf_eq (hk : KInv s a) : victimOf s = a.old.map (·.p) := by
  have hf : ∀ x ∈ a.entries, x ∈ oldEntries a.old ∨ vicF s x = none := by
    intro x hx
    simp only [A.entries, List.mem_append] at hx
    rcases hx with hx | hx | hx | hx
    · right
      have htm := hk.tm
      cases hph : a.ph with
      | init q0 =>
        rw [hph] at htm hx
        simp only [TPhase.entries, List.mem_singleton] at hx; subst hx
        have h' : (s.ev x.ev).kind = Kind.init a.cur := by rw [htm.1]; exact htm.2.1.1
        exact vicF_of_kind h' (by intro p h; cases h)
      | sleep t q0 =>
        rw [hph] at htm hx
        simp only [TPhase.entries, List.mem_singleton] at hx; subst hx
        have h' : (s.ev x.ev).kind = Kind.timeout := by rw [htm.1]; exact htm.2.1.1
        exact vicF_of_kind h' (by intro p h; cases h)
      | dead => rw [hph] at hx; simp [TPhase.entries] at hx
    · exact Or.inl hx
    · right
      have hc := hk.ctl
      cases hctl : a.ctl with
      | init q0 sc =>
        rw [hctl] at hc hx
        simp only [CPhase.entries, List.mem_singleton] at hx; subst hx
        have h' : (s.ev x.ev).kind = Kind.init a.cp := by rw [hc.1]; exact hc.2.1.1
        exact vicF_of_kind h' (by intro p h; cases h)
      | wait op sc q0 =>
        rw [hctl] at hc hx
        simp only [CPhase.entries, List.mem_singleton] at hx; subst hx
        have h' : (s.ev x.ev).kind = Kind.timeout := hc.1.1
        exact vicF_of_kind h' (by intro p h; cases h)
      | done => rw [hctl] at hx; simp [CPhase.entries] at hx
    · right
      obtain ⟨-, -, hkd⟩ := hk.noop x hx
      rcases hkd with hkd | hkd
      · exact vicF_of_kind hkd (by intro p h; cases h)
      · exact vicF_of_kind hkd (by intro p h; cases h)
  show s.agenda.findSome? (vicF s) = _
  cases ho : a.old with
  | none =>
    refine findSome?_none_of _ _ ?_
    intro x hx
    rcases hf x (hk.ag.subset hx) with h | h
    · simp [ho, oldEntries] at h
    · exact h
  | some o =>
    obtain ⟨h1, h2, -, h4, h5, -⟩ := hk.old o ho
    have hqi : vicF s o.qi = some o.p := by
      unfold vicF
      rw [h1, h2.1]
    refine findSome?_unique _ _ o.p ⟨o.qi, hk.ag.symm.subset (mem_old (by simp [ho, oldEntries, Old.entries])), hqi⟩ ?_
    intro y hy
    rcases hf y (hk.ag.subset hy) with h | h
    · simp only [ho, oldEntries, Old.entries, List.mem_cons, List.not_mem_nil, or_false] at h
      rcases h with rfl | rfl
      · exact Or.inr hqi
      · have h' : (s.ev o.qt.ev).kind = Kind.timeout := by rw [h4]; exact h5.1
        exact Or.inl (vicF_of_kind h' (by intro p h; cases h))
    · exact Or.inl h

theorem cellVal_eq (k : Nat) : cellVal s k = lookup s.shared k := rfl

theorem statOf_cur (hk : KInv s a) : statOf s a.cur = a.ph.stat := by
  have htm := hk.tm
  unfold statOf
  cases hph : a.ph with
  | init q0 =>
    rw [hph] at htm
    simp [htm.2.2.2.2.2, htm.2.2.1, TPhase.stat]
  | sleep t q0 =>
    rw [hph] at htm
    simp [htm.2.2.2.2.2, htm.2.2.1, TPhase.stat]
  | dead =>
    rw [hph] at htm
    obtain ⟨-, o, ho⟩ := htm
    simp [ho, TPhase.stat]

theorem statOf_old (hk : KInv s a) {o : Old} (ho : a.old = some o) : statOf s o.p = .sleeping o.qt.time := by
  obtain ⟨-, -, -, -, -, h6, h7⟩ := hk.old o ho
  unfold statOf
  simp [h7.2.2, h6]

/-- **the abstraction function reads the configuration's LTS state off the kernel state** -/
theorem absTimer_eq (hk : KInv s a) : absTimer auto arg s = toT auto arg a s.now := by
  have hn : cellNat s cStarted = a.dead.length + (oldStat a.old).length + 1 := by
    unfold cellNat
    rw [cellVal_eq, show cStarted = 6 from rfl, hk.c6]
    exact Int.toNat_natCast _
  have hcur : cellVal s cProc = .ev a.cur := hk.c4
  have hst : (cellNat s cStopped != 0) = a.stopped := by
    unfold cellNat
    rw [cellVal_eq, show cStopped = 0 from rfl, hk.c0]
    cases a.stopped <;> simp
  have h1 : cellTime s cExpire = a.expire := by
    unfold cellTime; rw [cellVal_eq, show cExpire = 1 from rfl, hk.c1, dec_enc]; rfl
  have h2 : cellTime s cTimeout = a.timeout := by
    unfold cellTime; rw [cellVal_eq, show cTimeout = 2 from rfl, hk.c2, dec_enc]; rfl
  have h3 : cellTime s cStart = a.start := by
    unfold cellTime; rw [cellVal_eq, show cStart = 3 from rfl, hk.c3, dec_enc]; rfl
  unfold absTimer toT
  simp only [hn, hcur, hst, h1, h2, h3, victimOf_eq hk, statOf_cur hk, A.nprev]
  have hrep : List.replicate a.dead.length (PStat.finished : PStat ℚ) = a.dead.map fun _ => PStat.finished := by
    rw [List.map_const']
  cases ho : a.old with
  | none =>
    simp only [oldStat, List.length_nil, Nat.add_zero, Nat.add_sub_cancel, Option.map_none, Option.toList_none, List.map_nil,
      List.nil_append, Nat.sub_zero, hrep]
    cases hph : a.ph <;> rfl
  | some o =>
    simp only [oldStat, List.length_singleton, Nat.add_sub_cancel, Option.map_some, Option.toList_some, List.map_cons, List.map_nil,
      hrep, statOf_old hk ho, List.singleton_append]
    have e2 : a.dead.length + 1 + 1 - 2 = a.dead.length := by omega
    rw [e2]
    cases hph : a.ph <;> rfl

end TimerK
