import OnlVerif.Lemmas.SplitRename
import OnlVerif.Lemmas.KernelRel
/-!
# The state of a run that carries a `run(until=t)` sentinel (C03, stage 3): the transformation `T`

`c.T queued s` is the state of the split run that corresponds to the state `s` of the uninterrupted run: one extra
(sentinel) event record at index `c.u`, every event id renamed by `shAt c.u`, the `eid` counter one ahead, and — while
the sentinel is queued — one extra agenda entry `(c.t, URGENT, c.eid0, c.u)` at its insertion-stable position.
This file: the definition, the reads, and the leaf updates.  `Inv c s` (`c.u ≤ events.size`, `c.eid0 ≤ eid`) holds for
every state after the split; it is monotone along every transformer of the model (`Grow.krel`).
-/

variable {σ : Type}

structure SplitCfg (σ : Type) where
  /-- index of the sentinel record = `events.size` at the split -/
  u : Nat
  upos : 0 < u
  /-- value of the `eid` counter at the split = `eid` of the sentinel's agenda entry -/
  eid0 : Nat
  /-- the `until` time -/
  t : ℚ
  /-- renaming of the event ids kept in local process states -/
  rσ : σ → σ

namespace SplitCfg
variable (c : SplitCfg σ)

def ρ : EvId → EvId := shAt c.u

theorem ρ_inj : ∀ a b, c.ρ a = c.ρ b → a = b := fun _ _ h => shAt_inj c.u h
theorem ρ_zero : c.ρ 0 = 0 := shAt_of_lt c.upos
theorem ρ_ne_u (e : Nat) : c.ρ e ≠ c.u := shAt_ne c.u e
theorem ρ_ge {e : EvId} (h : c.u ≤ e) : c.ρ e = e + 1 := shAt_of_ge h
theorem ρ_lt {e : EvId} (h : e < c.u) : c.ρ e = e := shAt_of_lt h

def rnEntry (q : QEntry ℚ) : QEntry ℚ :=
  { q with ev := c.ρ q.ev, eid := if c.eid0 ≤ q.eid then q.eid + 1 else q.eid }

def sentEntry : QEntry ℚ := { time := c.t, prio := URGENT, eid := c.eid0, ev := c.u }

/-- the sentinel entry sits behind every entry pushed after it and in front of every entry pushed before it -/
def insSent : List (QEntry ℚ) → List (QEntry ℚ)
  | [] => [c.sentEntry]
  | x :: xs => if x.eid < c.eid0 then c.sentEntry :: (x :: xs).map c.rnEntry else c.rnEntry x :: insSent xs

def agT (queued : Bool) (l : List (QEntry ℚ)) : List (QEntry ℚ) := if queued then c.insSent l else l.map c.rnEntry

/-- the sentinel's record: while queued it carries the stop; once popped it is processed (dead) -/
def deadRec (queued : Bool) : EvRec ℚ :=
  { kind := .sentinel, cbs := if queued then some [.stop] else none, out := some (.ok .none) }

def T (queued : Bool) (s : KState ℚ σ) : KState ℚ σ :=
  { now := s.now
    agenda := c.agT queued s.agenda
    eid := s.eid + 1
    events := (s.events.map (rnRec c.ρ)).insertIdxIfInBounds c.u (deadRec queued)
    procs := s.procs.map (fun pr => (c.ρ pr.1, rnProc c.ρ c.rσ pr.2))
    active := s.active.map c.ρ
    trace := s.trace.map (rnObs c.ρ)
    shared := s.shared.map (fun kv => (kv.1, rnVal c.ρ kv.2))
    resources := s.resources.map (rnRes c.ρ)
    nlabel := s.nlabel }

structure Inv (s : KState ℚ σ) : Prop where
  size : c.u ≤ s.events.size
  eid : c.eid0 ≤ s.eid

end SplitCfg

/-- the counters only grow -/
def Grow (s s' : KState ℚ σ) : Prop := s.eid ≤ s'.eid ∧ s.events.size ≤ s'.events.size

theorem Grow.krel : KRel (Grow (σ := σ)) where
  refl _ := ⟨Nat.le_refl _, Nat.le_refl _⟩
  trans h1 h2 := ⟨Nat.le_trans h1.1 h2.1, Nat.le_trans h1.2 h2.2⟩
  emit _ _ := ⟨Nat.le_refl _, Nat.le_refl _⟩
  active _ _ := ⟨Nat.le_refl _, Nat.le_refl _⟩
  shared _ _ := ⟨Nat.le_refl _, Nat.le_refl _⟩
  setProc _ _ _ := ⟨Nat.le_refl _, Nat.le_refl _⟩
  newEv _ _ _ := ⟨Nat.le_refl _, by simp [KState.newEv]⟩
  newLabelled _ _ _ := ⟨Nat.le_refl _, by simp [KState.newLabelled]⟩
  newReq _ _ _ _ _ := ⟨Nat.le_refl _, by simp [KState.newLabelled]⟩
  schedule _ _ _ _ _ _ := ⟨Nat.le_succ _, Nat.le_refl _⟩
  setOut _ _ _ := ⟨Nat.le_refl _, by simp [KState.setOut, KState.setEv]⟩
  defuse _ _ := ⟨Nat.le_refl _, by simp [KState.defuse, KState.setEv]⟩
  bumpCount _ _ := ⟨Nat.le_refl _, by simp [KState.bumpCount, KState.setEv]⟩
  setUsage _ _ := ⟨Nat.le_refl _, by simp [KState.setUsage, KState.setEv]⟩
  eraseCb _ _ _ := ⟨Nat.le_refl _, by simp [KState.eraseCb, KState.setEv]⟩
  addCb _ _ _ _ := ⟨Nat.le_refl _, by simp [KState.addCb, KState.setEv]⟩
  eraseUser _ _ _ := ⟨Nat.le_refl _, Nat.le_refl _⟩
  addUser _ _ _ _ _ := ⟨Nat.le_refl _, Nat.le_refl _⟩
  addLevel _ _ _ _ _ := ⟨Nat.le_refl _, Nat.le_refl _⟩
  subLevel _ _ _ _ _ := ⟨Nat.le_refl _, Nat.le_refl _⟩
  addItem _ _ _ _ _ := ⟨Nat.le_refl _, Nat.le_refl _⟩
  tailItems _ _ := ⟨Nat.le_refl _, Nat.le_refl _⟩
  eraseItem _ _ _ := ⟨Nat.le_refl _, Nat.le_refl _⟩
  dropPutQ _ _ _ := ⟨Nat.le_refl _, Nat.le_refl _⟩
  dropGetQ _ _ _ := ⟨Nat.le_refl _, Nat.le_refl _⟩
  enqPut _ _ _ _ := ⟨Nat.le_refl _, Nat.le_refl _⟩
  enqGet _ _ _ _ := ⟨Nat.le_refl _, Nat.le_refl _⟩

theorem SplitCfg.Inv.mono {c : SplitCfg σ} {s s' : KState ℚ σ} (h : c.Inv s) (g : Grow s s') : c.Inv s' :=
  ⟨Nat.le_trans h.size g.2, Nat.le_trans h.eid g.1⟩

/-! ## reads -/

namespace SplitCfg
variable (c : SplitCfg σ) (q : Bool) (s : KState ℚ σ)

theorem rnRec_default (ρ : EvId → EvId) : rnRec ρ (default : EvRec ℚ) = default := rfl
theorem rnRes_default (ρ : EvId → EvId) : rnRes ρ (default : ResRec) = default := rfl

theorem getElem?_T (h : c.Inv s) (j : Nat) :
    (c.T q s).events[j]? =
      if j < c.u then (s.events[j]?).map (rnRec c.ρ)
      else if j = c.u then some (deadRec q) else (s.events[j - 1]?).map (rnRec c.ρ) := by
  have hs : c.u ≤ (s.events.map (rnRec c.ρ)).size := by simp; exact h.size
  show ((s.events.map (rnRec c.ρ)).insertIdxIfInBounds c.u (deadRec q))[j]? = _
  unfold Array.insertIdxIfInBounds
  rw [dif_pos hs, Array.getElem?_insertIdx hs]
  simp only [Array.getElem?_map, Array.size_map]
  have hsz := h.size
  split
  · rfl
  · split
    · rename_i h1 h2; rw [if_pos (by omega)]
    · rfl

theorem size_T (h : c.Inv s) : (c.T q s).events.size = s.events.size + 1 := by
  have hs : c.u ≤ (s.events.map (rnRec c.ρ)).size := by simp; exact h.size
  show ((s.events.map (rnRec c.ρ)).insertIdxIfInBounds c.u (deadRec q)).size = _
  unfold Array.insertIdxIfInBounds
  rw [dif_pos hs, Array.size_insertIdx hs, Array.size_map]

theorem ev_T (h : c.Inv s) (e : Nat) : (c.T q s).ev (c.ρ e) = rnRec c.ρ (s.ev e) := by
  simp only [KState.ev, Array.getD_eq_getD_getElem?, c.getElem?_T q s h]
  by_cases he : e < c.u
  · rw [c.ρ_lt he, if_pos he]
    cases s.events[e]? <;> rfl
  · have hge : c.u ≤ e := Nat.not_lt.mp he
    rw [c.ρ_ge hge, if_neg (by omega), if_neg (by omega), Nat.add_sub_cancel]
    cases s.events[e]? <;> rfl

theorem ev_T_u (h : c.Inv s) : (c.T q s).ev c.u = deadRec q := by
  simp only [KState.ev, Array.getD_eq_getD_getElem?, c.getElem?_T q s h, Nat.lt_irrefl, if_false, if_true]
  rfl

theorem ρ_size (h : c.Inv s) : c.ρ s.events.size = s.events.size + 1 := c.ρ_ge h.size

theorem res_T (r : ResId) : (c.T q s).res r = rnRes c.ρ (s.res r) := by
  show (s.resources.map (rnRes c.ρ)).getD r default = rnRes c.ρ (s.resources.getD r default)
  simp only [Array.getD_eq_getD_getElem?, Array.getElem?_map]
  cases s.resources[r]? <;> rfl

theorem proc?_T (p : Nat) : (c.T q s).proc? (c.ρ p) = (s.proc? p).map (rnProc c.ρ c.rσ) := by
  show ((s.procs.map (fun pr => (c.ρ pr.1, rnProc c.ρ c.rσ pr.2))).find? (·.1 == c.ρ p)).map (·.2) = _
  unfold KState.proc?
  induction s.procs with
  | nil => rfl
  | cons x xs ih =>
    simp only [List.map_cons, List.find?_cons]
    by_cases hx : x.1 = p
    · simp [hx]
    · have : c.ρ x.1 ≠ c.ρ p := fun h => hx (c.ρ_inj _ _ h)
      have h1 : (c.ρ x.1 == c.ρ p) = false := by simpa using this
      have h2 : (x.1 == p) = false := by simpa using hx
      rw [h1, h2]
      exact ih

theorem now_T : (c.T q s).now = s.now := rfl
theorem eid_T : (c.T q s).eid = s.eid + 1 := rfl
theorem nlabel_T : (c.T q s).nlabel = s.nlabel := rfl
theorem active_T : (c.T q s).active = s.active.map c.ρ := rfl

theorem out_T (h : c.Inv s) (e : Nat) : ((c.T q s).ev (c.ρ e)).out = (s.ev e).out.map (rnOutcome c.ρ) := by
  rw [c.ev_T q s h]; rfl
theorem kind_T (h : c.Inv s) (e : Nat) : ((c.T q s).ev (c.ρ e)).kind = rnKind c.ρ (s.ev e).kind := by
  rw [c.ev_T q s h]; rfl
theorem cbs_T (h : c.Inv s) (e : Nat) : ((c.T q s).ev (c.ρ e)).cbs = (s.ev e).cbs.map (·.map (rnCb c.ρ)) := by
  rw [c.ev_T q s h]; rfl
theorem defused_T (h : c.Inv s) (e : Nat) : ((c.T q s).ev (c.ρ e)).defused = (s.ev e).defused := by
  rw [c.ev_T q s h]; rfl
theorem count_T (h : c.Inv s) (e : Nat) : ((c.T q s).ev (c.ρ e)).count = (s.ev e).count := by
  rw [c.ev_T q s h]; rfl
theorem label_T (h : c.Inv s) (e : Nat) : ((c.T q s).ev (c.ρ e)).label = (s.ev e).label := by
  rw [c.ev_T q s h]; rfl
theorem req_T (h : c.Inv s) (e : Nat) : ((c.T q s).ev (c.ρ e)).req = (s.ev e).req.map (rnReq c.ρ) := by
  rw [c.ev_T q s h]; rfl
theorem triggered_T (h : c.Inv s) (e : Nat) : (c.T q s).triggered (c.ρ e) = s.triggered e := by
  unfold KState.triggered; rw [c.out_T q s h]; cases (s.ev e).out <;> rfl
theorem processed_T (h : c.Inv s) (e : Nat) : (c.T q s).processed (c.ρ e) = s.processed e := by
  unfold KState.processed; rw [c.cbs_T q s h]; cases (s.ev e).cbs <;> rfl

/-! ## leaf updates -/

theorem T_setEv (h : c.Inv s) (e : Nat) (r : EvRec ℚ) :
    (c.T q s).setEv (c.ρ e) (rnRec c.ρ r) = c.T q (s.setEv e r) := by
  have h' : c.Inv (s.setEv e r) := ⟨by simp [KState.setEv]; exact h.size, h.eid⟩
  have hsz := h.size
  have hev : ((c.T q s).setEv (c.ρ e) (rnRec c.ρ r)).events = (c.T q (s.setEv e r)).events := by
    apply Array.ext_getElem?
    intro j
    show ((c.T q s).events.setIfInBounds (c.ρ e) (rnRec c.ρ r))[j]? = _
    rw [Array.getElem?_setIfInBounds, c.getElem?_T q _ h', c.getElem?_T q s h, c.size_T q s h]
    show _ = if j < c.u then ((s.events.setIfInBounds e r)[j]?).map _ else if j = c.u then _ else ((s.events.setIfInBounds e r)[j - 1]?).map _
    simp only [Array.getElem?_setIfInBounds]
    by_cases he : e < c.u
    · rw [c.ρ_lt he]
      by_cases hj : j < c.u
      · simp only [hj, if_true]
        by_cases hej : e = j
        · subst hej
          simp only [if_true]
          split <;> split <;> first | rfl | omega
        · simp only [hej, if_false]
      · simp only [hj, if_false]
        have : ¬ e = j := by omega
        simp only [this, if_false]
        by_cases hju : j = c.u
        · simp only [hju, if_true]
        · simp only [hju, if_false]
          have : ¬ e = j - 1 := by omega
          simp only [this, if_false]
    · have hge : c.u ≤ e := Nat.not_lt.mp he
      rw [c.ρ_ge hge]
      by_cases hj : j < c.u
      · simp only [hj, if_true]
        have h1 : ¬ e + 1 = j := by omega
        have h2 : ¬ e = j := by omega
        simp only [h1, h2, if_false]
      · simp only [hj, if_false]
        by_cases hju : j = c.u
        · have h1 : ¬ e + 1 = j := by omega
          simp only [hju, if_true, h1, if_false]
          have : ¬ e + 1 = c.u := by omega
          simp only [this, if_false]
        · simp only [hju, if_false]
          by_cases hej : e + 1 = j
          · subst hej
            simp only [Nat.add_sub_cancel, if_true]
            split <;> split <;> first | rfl | omega
          · have : ¬ e = j - 1 := by omega
            simp only [hej, this, if_false]
  show ({ (c.T q s) with events := _ } : KState ℚ σ) = _
  rw [show (c.T q s).events.setIfInBounds (c.ρ e) (rnRec c.ρ r) = (c.T q (s.setEv e r)).events from hev]
  rfl

theorem T_push (h : c.Inv s) (r : EvRec ℚ) :
    (c.T q s).events.push (rnRec c.ρ r) =
      ((s.events.push r).map (rnRec c.ρ)).insertIdxIfInBounds c.u (deadRec q) := by
  have hs : c.u ≤ (s.events.map (rnRec c.ρ)).size := by simp; exact h.size
  have hs' : c.u ≤ ((s.events.push r).map (rnRec c.ρ)).size := by simp; have := h.size; omega
  apply Array.ext_getElem?
  intro j
  rw [Array.getElem?_push, c.getElem?_T q s h, c.size_T q s h]
  unfold Array.insertIdxIfInBounds
  rw [dif_pos hs', Array.getElem?_insertIdx hs']
  simp only [Array.getElem?_map, Array.getElem?_push, Array.size_map, Array.size_push]
  have hsz := h.size
  by_cases hj : j < c.u
  · have : ¬ j = s.events.size + 1 := by omega
    have h2 : ¬ j = s.events.size := by omega
    simp only [hj, if_true, this, h2, if_false]
  · simp only [hj, if_false]
    by_cases hju : j = c.u
    · subst hju
      have : ¬ c.u = s.events.size + 1 := by omega
      simp only [this, if_true, if_false]
      rw [if_pos (by omega)]
    · simp only [hju, if_false]
      by_cases hjs : j = s.events.size + 1
      · have : j - 1 = s.events.size := by omega
        simp only [hjs, this, if_true, Option.map_some]
        simp
      · have : ¬ j - 1 = s.events.size := by omega
        simp only [hjs, this, if_false]

theorem T_newEv (h : c.Inv s) (r : EvRec ℚ) :
    (c.T q s).newEv (rnRec c.ρ r) = (c.T q (s.newEv r).1, c.ρ (s.newEv r).2) := by
  unfold KState.newEv
  simp only [c.size_T q s h, c.ρ_size s h, c.T_push q s h]
  rfl

theorem T_newLabelled (h : c.Inv s) (r : EvRec ℚ) :
    (c.T q s).newLabelled (rnRec c.ρ r) = (c.T q (s.newLabelled r).1, c.ρ (s.newLabelled r).2) := by
  unfold KState.newLabelled
  have := c.T_push q s h { r with label := s.nlabel + 1 }
  simp only [c.size_T q s h, c.ρ_size s h]
  show (({ (c.T q s) with events := (c.T q s).events.push (rnRec c.ρ { r with label := s.nlabel + 1 }), nlabel := s.nlabel + 1 } : KState ℚ σ), _) = _
  rw [this]
  rfl

theorem agT_cons (x : QEntry ℚ) (l : List (QEntry ℚ)) (h : c.eid0 ≤ x.eid) :
    c.agT q (x :: l) = c.rnEntry x :: c.agT q l := by
  unfold agT
  cases q
  · rfl
  · simp only [if_true]
    rw [insSent, if_neg (by omega)]

theorem T_schedule (h : c.Inv s) (e : Nat) (p : Nat) (d : ℚ) :
    (c.T q s).schedule (c.ρ e) p d = c.T q (s.schedule e p d) := by
  have : c.agT q ({ time := s.now + d, prio := p, eid := s.eid, ev := e } :: s.agenda) =
      { time := s.now + d, prio := p, eid := s.eid + 1, ev := c.ρ e } :: c.agT q s.agenda := by
    rw [c.agT_cons q _ _ h.eid]
    unfold rnEntry
    simp only [h.eid, if_true]
  unfold KState.schedule T
  simp only [this]

theorem T_emit (o : Obs ℚ) : (c.T q s).emit (rnObs c.ρ o) = c.T q (s.emit o) := by
  unfold KState.emit T
  simp only [Array.map_push]

theorem T_setProc (p : Nat) (r : ProcRec σ) :
    (c.T q s).setProc (c.ρ p) (rnProc c.ρ c.rσ r) = c.T q (s.setProc p r) := by
  unfold KState.setProc T
  simp only [List.map_cons, List.filter_map]
  congr 3
  apply List.filter_congr
  intro x _
  by_cases hx : x.1 = p
  · simp [hx]
  · have : c.ρ x.1 ≠ c.ρ p := fun h => hx (c.ρ_inj _ _ h)
    show (c.ρ x.1 != c.ρ p) = (x.1 != p)
    rw [Bool.eq_iff_iff]
    simp only [bne_iff_ne, ne_eq]
    exact ⟨fun _ => hx, fun _ => this⟩

theorem T_setRes (r : ResId) (x : ResRec) : (c.T q s).setRes r (rnRes c.ρ x) = c.T q (s.setRes r x) := by
  show ({ c.T q s with resources := (s.resources.map (rnRes c.ρ)).setIfInBounds r (rnRes c.ρ x) } : KState ℚ σ) = _
  rw [← Array.map_setIfInBounds]
  rfl

theorem T_withActive (a : Option EvId) :
    ({ c.T q s with active := a.map c.ρ } : KState ℚ σ) = c.T q { s with active := a } := rfl

theorem T_withShared (l : List (Nat × Val)) :
    ({ c.T q s with shared := l.map (fun kv => (kv.1, rnVal c.ρ kv.2)) } : KState ℚ σ) = c.T q { s with shared := l } := rfl

end SplitCfg

/-! ## the simp set `ksent`

Orientation: `c.T q` and the renamings are pushed *inward* through updates (`c.T q (s.setOut e o)` becomes
`(c.T q s).setOut (c.ρ e) (rnOutcome c.ρ o)`); reads of `c.T q s` are expressed by reads of `s`. -/

attribute [ksent] List.map_cons List.map_nil List.map_append Option.map_some Option.map_none List.length_map

namespace SplitCfg
section inv
variable {c : SplitCfg σ} {s : KState ℚ σ}

theorem Inv.of_eq {s' : KState ℚ σ} (h : c.Inv s) (h1 : s'.events.size = s.events.size) (h2 : s'.eid = s.eid) : c.Inv s' :=
  ⟨h1 ▸ h.size, h2 ▸ h.eid⟩

@[ksent] theorem Inv.setEv (h : c.Inv s) (e : Nat) (r : EvRec ℚ) : c.Inv (s.setEv e r) :=
  h.of_eq (by simp [KState.setEv]) rfl
@[ksent] theorem Inv.setOut (h : c.Inv s) (e : Nat) (o : Outcome) : c.Inv (s.setOut e o) := h.setEv _ _
@[ksent] theorem Inv.defuse (h : c.Inv s) (e : Nat) : c.Inv (s.defuse e) := h.setEv _ _
@[ksent] theorem Inv.bumpCount (h : c.Inv s) (e : Nat) : c.Inv (s.bumpCount e) := h.setEv _ _
@[ksent] theorem Inv.setUsage (h : c.Inv s) (e : Nat) : c.Inv (s.setUsage e) := h.setEv _ _
@[ksent] theorem Inv.eraseCb (h : c.Inv s) (e : Nat) (cb : Cb) : c.Inv (s.eraseCb e cb) := h.setEv _ _
@[ksent] theorem Inv.addCb (h : c.Inv s) (e : Nat) (cb : Cb) : c.Inv (s.addCb e cb) := h.setEv _ _
@[ksent] theorem Inv.schedule (h : c.Inv s) (e p : Nat) (d : ℚ) : c.Inv (s.schedule e p d) :=
  ⟨h.size, Nat.le_succ_of_le h.eid⟩
@[ksent] theorem Inv.trigger (h : c.Inv s) (e : Nat) (o : Outcome) : c.Inv (s.trigger e o) := (h.setOut e o).schedule _ _ _
@[ksent] theorem Inv.newEv (h : c.Inv s) (r : EvRec ℚ) : c.Inv (s.newEv r).1 :=
  ⟨by simp [KState.newEv]; exact Nat.le_succ_of_le h.size, h.eid⟩
@[ksent] theorem Inv.newLabelled (h : c.Inv s) (r : EvRec ℚ) : c.Inv (s.newLabelled r).1 :=
  ⟨by simp [KState.newLabelled]; exact Nat.le_succ_of_le h.size, h.eid⟩
@[ksent] theorem Inv.emit (h : c.Inv s) (o : Obs ℚ) : c.Inv (s.emit o) := h.of_eq rfl rfl
@[ksent] theorem Inv.setProc (h : c.Inv s) (p : Nat) (r : ProcRec σ) : c.Inv (s.setProc p r) := h.of_eq rfl rfl
@[ksent] theorem Inv.setRes (h : c.Inv s) (r : ResId) (x : ResRec) : c.Inv (s.setRes r x) := h.of_eq rfl rfl
@[ksent] theorem Inv.setUsers (h : c.Inv s) (r : ResId) (l : List EvId) : c.Inv (s.setUsers r l) := h.of_eq rfl rfl
@[ksent] theorem Inv.setLevel (h : c.Inv s) (r : ResId) (x : Int) : c.Inv (s.setLevel r x) := h.of_eq rfl rfl
@[ksent] theorem Inv.setItems (h : c.Inv s) (r : ResId) (l : List Int) : c.Inv (s.setItems r l) := h.of_eq rfl rfl
@[ksent] theorem Inv.setPutQ (h : c.Inv s) (r : ResId) (l : List EvId) : c.Inv (s.setPutQ r l) := h.of_eq rfl rfl
@[ksent] theorem Inv.setGetQ (h : c.Inv s) (r : ResId) (l : List EvId) : c.Inv (s.setGetQ r l) := h.of_eq rfl rfl
@[ksent] theorem Inv.withActive (h : c.Inv s) (a : Option EvId) : c.Inv ({ s with active := a } : KState ℚ σ) := h.of_eq rfl rfl
@[ksent] theorem Inv.withShared (h : c.Inv s) (l : List (Nat × Val)) : c.Inv ({ s with shared := l } : KState ℚ σ) :=
  h.of_eq rfl rfl

end inv

variable (c : SplitCfg σ) (q : Bool) (s : KState ℚ σ)

/-! reads -/
@[ksent] theorem r_now : (c.T q s).now = s.now := rfl
@[ksent] theorem r_eid : (c.T q s).eid = s.eid + 1 := rfl
@[ksent] theorem r_nlabel : (c.T q s).nlabel = s.nlabel := rfl
@[ksent] theorem r_active : (c.T q s).active = s.active.map c.ρ := rfl
@[ksent] theorem r_size (h : c.Inv s) : (c.T q s).events.size = s.events.size + 1 := c.size_T q s h
@[ksent] theorem r_ρ_size (h : c.Inv s) : c.ρ s.events.size = s.events.size + 1 := c.ρ_size s h
@[ksent] theorem r_ρ_size1 (h : c.Inv s) : c.ρ (s.events.size + 1) = s.events.size + 1 + 1 := c.ρ_ge (Nat.le_succ_of_le h.size)
@[ksent] theorem r_ρ_zero : c.ρ 0 = 0 := c.ρ_zero
@[ksent] theorem r_ev (h : c.Inv s) (e : Nat) : (c.T q s).ev (c.ρ e) = rnRec c.ρ (s.ev e) := c.ev_T q s h e
@[ksent] theorem r_res (r : ResId) : (c.T q s).res r = rnRes c.ρ (s.res r) := c.res_T q s r
@[ksent] theorem r_proc? (p : Nat) : (c.T q s).proc? (c.ρ p) = (s.proc? p).map (rnProc c.ρ c.rσ) := c.proc?_T q s p
@[ksent] theorem r_triggered (h : c.Inv s) (e : Nat) : (c.T q s).triggered (c.ρ e) = s.triggered e := c.triggered_T q s h e
@[ksent] theorem r_processed (h : c.Inv s) (e : Nat) : (c.T q s).processed (c.ρ e) = s.processed e := c.processed_T q s h e
@[ksent] theorem r_active_eq (p : Nat) : (Option.map c.ρ s.active == some (c.ρ p)) = (s.active == some p) := by
  cases s.active with
  | none => rfl
  | some a =>
    rw [Bool.eq_iff_iff]
    simp only [Option.map_some, beq_iff_eq, Option.some.injEq]
    exact ⟨fun h => c.ρ_inj _ _ h, fun h => by rw [h]⟩
@[ksent] theorem r_shared_find (k : Nat) :
    ((c.T q s).shared.find? (·.1 == k)).map (·.2) = ((s.shared.find? (·.1 == k)).map (·.2)).map (rnVal c.ρ) := by
  show ((s.shared.map (fun kv => (kv.1, rnVal c.ρ kv.2))).find? (·.1 == k)).map (·.2) = _
  induction s.shared with
  | nil => rfl
  | cons x xs ih =>
    simp only [List.map_cons, List.find?_cons]
    cases x.1 == k
    · exact ih
    · rfl
@[ksent] theorem r_shared_filter (k : Nat) :
    (c.T q s).shared.filter (·.1 != k) = (s.shared.filter (·.1 != k)).map (fun kv => (kv.1, rnVal c.ρ kv.2)) := by
  show (s.shared.map (fun kv => (kv.1, rnVal c.ρ kv.2))).filter (·.1 != k) = _
  rw [List.filter_map]
  rfl

@[ksent] theorem r_erase (l : List EvId) (a : EvId) : (l.erase a).map c.ρ = (l.map c.ρ).erase (c.ρ a) :=
  (map_erase_inj c.ρ_inj l a).symm
@[ksent] theorem r_contains (l : List EvId) (a : EvId) : (l.map c.ρ).contains (c.ρ a) = l.contains a :=
  map_contains_inj c.ρ_inj l a
@[ksent] theorem r_eraseCb (l : List Cb) (a : Cb) : (l.erase a).map (rnCb c.ρ) = (l.map (rnCb c.ρ)).erase (rnCb c.ρ a) :=
  (mapCb_erase_inj c.ρ_inj l a).symm
@[ksent] theorem r_containsCb (l : List Cb) (a : Cb) : (l.map (rnCb c.ρ)).contains (rnCb c.ρ a) = l.contains a :=
  mapCb_contains_inj c.ρ_inj l a
omit c q s in
@[ksent] theorem r_tail {α β : Type} (f : α → β) (l : List α) : l.tail.map f = (l.map f).tail := by
  cases l <;> rfl

/-! updates, inward -/
@[ksent] theorem i_ite (p : Prop) [Decidable p] (a b : KState ℚ σ) :
    c.T q (if p then a else b) = if p then c.T q a else c.T q b := apply_ite _ _ _ _

@[ksent] theorem i_setEv (h : c.Inv s) (e : Nat) (r : EvRec ℚ) :
    c.T q (s.setEv e r) = (c.T q s).setEv (c.ρ e) (rnRec c.ρ r) := (c.T_setEv q s h e r).symm
@[ksent] theorem i_setOut (h : c.Inv s) (e : Nat) (o : Outcome) :
    c.T q (s.setOut e o) = (c.T q s).setOut (c.ρ e) (rnOutcome c.ρ o) := by
  unfold KState.setOut
  rw [← c.T_setEv q s h, c.ev_T q s h]
  rfl
@[ksent] theorem i_defuse (h : c.Inv s) (e : Nat) : c.T q (s.defuse e) = (c.T q s).defuse (c.ρ e) := by
  unfold KState.defuse
  rw [← c.T_setEv q s h, c.ev_T q s h]
  rfl
@[ksent] theorem i_bumpCount (h : c.Inv s) (e : Nat) : c.T q (s.bumpCount e) = (c.T q s).bumpCount (c.ρ e) := by
  unfold KState.bumpCount
  rw [← c.T_setEv q s h, c.ev_T q s h]
  rfl
@[ksent] theorem i_setUsage (h : c.Inv s) (e : Nat) : c.T q (s.setUsage e) = (c.T q s).setUsage (c.ρ e) := by
  unfold KState.setUsage
  rw [← c.T_setEv q s h, c.ev_T q s h]
  show _ = (c.T q s).setEv (c.ρ e) _
  congr 1
  simp only [rnRec, Option.map_map]
  rfl
@[ksent] theorem i_eraseCb (h : c.Inv s) (e : Nat) (cb : Cb) :
    c.T q (s.eraseCb e cb) = (c.T q s).eraseCb (c.ρ e) (rnCb c.ρ cb) := by
  unfold KState.eraseCb
  rw [← c.T_setEv q s h, c.ev_T q s h]
  congr 1
  simp only [rnRec, Option.map_map]
  congr 2
  funext l
  exact (mapCb_erase_inj c.ρ_inj l cb).symm
@[ksent] theorem i_addCb (h : c.Inv s) (e : Nat) (cb : Cb) :
    c.T q (s.addCb e cb) = (c.T q s).addCb (c.ρ e) (rnCb c.ρ cb) := by
  unfold KState.addCb
  rw [← c.T_setEv q s h, c.ev_T q s h]
  congr 1
  simp only [rnRec, Option.map_map]
  congr 2
  funext l
  simp [Function.comp]
@[ksent] theorem i_schedule (h : c.Inv s) (e p : Nat) (d : ℚ) :
    c.T q (s.schedule e p d) = (c.T q s).schedule (c.ρ e) p d := (c.T_schedule q s h e p d).symm
@[ksent] theorem i_trigger (h : c.Inv s) (e : Nat) (o : Outcome) :
    c.T q (s.trigger e o) = (c.T q s).trigger (c.ρ e) (rnOutcome c.ρ o) := by
  unfold KState.trigger
  rw [c.i_schedule q _ (h.setOut e o), c.i_setOut q s h]
@[ksent] theorem i_newEv (h : c.Inv s) (r : EvRec ℚ) : c.T q (s.newEv r).1 = ((c.T q s).newEv (rnRec c.ρ r)).1 := by
  rw [c.T_newEv q s h]
@[ksent] theorem i_newLabelled (h : c.Inv s) (r : EvRec ℚ) :
    c.T q (s.newLabelled r).1 = ((c.T q s).newLabelled (rnRec c.ρ r)).1 := by
  rw [c.T_newLabelled q s h]
@[ksent] theorem i_emit (o : Obs ℚ) : c.T q (s.emit o) = (c.T q s).emit (rnObs c.ρ o) := (c.T_emit q s o).symm
@[ksent] theorem i_setProc (p : Nat) (r : ProcRec σ) :
    c.T q (s.setProc p r) = (c.T q s).setProc (c.ρ p) (rnProc c.ρ c.rσ r) := (c.T_setProc q s p r).symm
@[ksent] theorem i_setRes (r : ResId) (x : ResRec) : c.T q (s.setRes r x) = (c.T q s).setRes r (rnRes c.ρ x) :=
  (c.T_setRes q s r x).symm
@[ksent] theorem i_setUsers (r : ResId) (l : List EvId) : c.T q (s.setUsers r l) = (c.T q s).setUsers r (l.map c.ρ) := by
  unfold KState.setUsers
  rw [c.i_setRes, c.res_T]
  rfl
@[ksent] theorem i_setLevel (r : ResId) (x : Int) : c.T q (s.setLevel r x) = (c.T q s).setLevel r x := by
  unfold KState.setLevel
  rw [c.i_setRes, c.res_T]
  rfl
@[ksent] theorem i_setItems (r : ResId) (l : List Int) : c.T q (s.setItems r l) = (c.T q s).setItems r l := by
  unfold KState.setItems
  rw [c.i_setRes, c.res_T]
  rfl
@[ksent] theorem i_setPutQ (r : ResId) (l : List EvId) : c.T q (s.setPutQ r l) = (c.T q s).setPutQ r (l.map c.ρ) := by
  unfold KState.setPutQ
  rw [c.i_setRes, c.res_T]
  rfl
@[ksent] theorem i_setGetQ (r : ResId) (l : List EvId) : c.T q (s.setGetQ r l) = (c.T q s).setGetQ r (l.map c.ρ) := by
  unfold KState.setGetQ
  rw [c.i_setRes, c.res_T]
  rfl
@[ksent] theorem i_withActive (a : Option EvId) :
    c.T q ({ s with active := a } : KState ℚ σ) = { c.T q s with active := a.map c.ρ } := rfl
@[ksent] theorem i_withShared (l : List (Nat × Val)) :
    c.T q ({ s with shared := l } : KState ℚ σ) = { c.T q s with shared := l.map (fun kv => (kv.1, rnVal c.ρ kv.2)) } := rfl

end SplitCfg
