import OnlVerif.Lemmas.Scalar
import OnlVerif.Net.Fifo
/-!
# Generic theorems about FifoServer devices: conservation, FIFO, exactly-once, drain

They hold for every device record `d : Dev ℚ δ` whose functions do not change packet ids
(`IdPreserving d`), for **every** action sequence the LTS accepts.
-/

namespace Fifo
variable {δ : Type}

/-- the device functions hand back the packet they were given (they may recolour / restamp it) -/
structure IdPreserving (d : Dev ℚ δ) : Prop where
  admitPkt : ∀ s now w p, (d.admitPkt s now w p).2.2.id = p.id
  onResume : ∀ s now x y p, (d.onResume s now x y p).2.1.id = p.id
  onFire : ∀ s now k p, (d.onFire s now k p).2.1.id = p.id

/-- ids of the packets the server holds outside the store -/
def inHand (s : FState ℚ δ) : List Nat :=
  (match s.handed with | some p => [p.id] | none => []) ++ (match s.tx with | some (p, _, _) => [p.id] | none => [])

/-- ids of everything held by the device, oldest first -/
def held (s : FState ℚ δ) : List Nat := inHand s ++ s.items.map (·.id)

/-- ids that entered (accepted) and ids that left (forwarded or lost), in order, along one accepted step -/
def entered (a : FAct ℚ) (o : FOut ℚ) : List Nat :=
  match a, o with
  | .put p, .accepted => [p.id]
  | _, _ => []

def left (o : FOut ℚ) : List Nat :=
  match o with
  | .depart p => [p.id]
  | .lost p => [p.id]
  | _ => []

/-- the server is in exactly one place of its loop -/
def Shape (s : FState ℚ δ) : Prop :=
  (s.started = false → s.getPending = false ∧ s.handed = none ∧ s.tx = none) ∧
  (s.started = true → (s.getPending = true ∧ s.handed = none ∧ s.tx = none) ∨
                       (s.getPending = false ∧ s.handed.isSome ∧ s.tx = none) ∨
                       (s.getPending = false ∧ s.handed = none ∧ s.tx.isSome))

/-- the server loop issues a get while holding nothing: afterwards exactly the store content is held -/
theorem issueGet_ok (s : FState ℚ δ) (hst : s.started = true) (hg : s.getPending = false) (hh : s.handed = none)
    (ht : s.tx = none) : held (issueGet s) = s.items.map (·.id) ∧ Shape (issueGet s) := by
  unfold issueGet
  cases hi : s.items with
  | nil => simp [held, inHand, hh, ht, Shape, hst]
  | cons p rest => simp [held, inHand, ht, Shape, hst, hg]

/-- **One step conserves packets**: what was held plus what entered = what left plus what is held now,
as *lists* (so order is preserved and nothing is duplicated). -/
theorem step_conserves (d : Dev ℚ δ) (hd : IdPreserving d) (s s' : FState ℚ δ) (a : FAct ℚ) (o : FOut ℚ)
    (hsh : Shape s) (h : step d s a = .ok (s', o)) :
    held s ++ entered a o = left o ++ held s' ∧ Shape s' := by
  cases a with
  | init =>
    simp only [step] at h
    split at h
    · cases h
    · rename_i hst
      simp only [Except.ok.injEq, Prod.mk.injEq] at h
      obtain ⟨rfl, rfl⟩ := h
      have hs0 := hsh.1 (by simpa using hst)
      have := issueGet_ok { s with started := true } rfl hs0.1 hs0.2.1 hs0.2.2
      refine ⟨?_, this.2⟩
      rw [this.1]
      simp [held, inHand, hs0.2.1, hs0.2.2, entered, left]
  | put p =>
    simp only [step] at h
    split at h
    · simp only [Except.ok.injEq, Prod.mk.injEq] at h
      obtain ⟨rfl, rfl⟩ := h
      refine ⟨?_, ?_⟩
      · simp [held, inHand, entered, left, hd.admitPkt]
      · exact hsh
    · simp only [Except.ok.injEq, Prod.mk.injEq] at h
      obtain ⟨rfl, rfl⟩ := h
      exact ⟨by simp [held, inHand, entered, left], hsh⟩
  | handoff =>
    simp only [step] at h
    split at h
    · rename_i hg
      split at h
      · rename_i p rest hi
        simp only [Except.ok.injEq, Prod.mk.injEq] at h
        obtain ⟨rfl, rfl⟩ := h
        have hst : s.started = true := by
          by_contra hc
          have := hsh.1 (by simpa using hc)
          rw [this.1] at hg; cases hg
        rcases hsh.2 hst with h1 | h1 | h1
        · refine ⟨by simp [held, inHand, h1.2.1, h1.2.2, hi, entered, left], ?_⟩
          simp [Shape, hst, h1.2.2]
        · rw [h1.1] at hg; cases hg
        · rw [h1.1] at hg; cases hg
      · cases h
    · cases h
  | resume x y =>
    simp only [step] at h
    split at h
    · cases h
    · rename_i p hp
      have hst : s.started = true := by
        by_contra hc
        have := hsh.1 (by simpa using hc)
        rw [this.2.1] at hp; cases hp
      have hsh' : s.getPending = false ∧ s.tx = none := by
        rcases hsh.2 hst with h1 | h1 | h1
        · rw [h1.2.1] at hp; cases hp
        · exact ⟨h1.1, h1.2.2⟩
        · rw [h1.2.1] at hp; cases hp
      generalize hr : d.onResume s.dev s.now x y p = r at h
      have hid : r.2.1.id = p.id := by rw [← hr]; exact hd.onResume _ _ _ _ _
      unfold proceed at h
      split at h
      · simp only [Except.ok.injEq, Prod.mk.injEq] at h
        obtain ⟨rfl, rfl⟩ := h
        have := issueGet_ok { s with handed := none, dev := d.onDone r.1 r.2.1, tx := none } hst hsh'.1 rfl rfl
        refine ⟨?_, this.2⟩
        rw [this.1]
        simp [held, inHand, hp, hsh'.2, entered, left, hid]
      · simp only [Except.ok.injEq, Prod.mk.injEq] at h
        obtain ⟨rfl, rfl⟩ := h
        have := issueGet_ok { s with handed := none, dev := d.onDone r.1 r.2.1, tx := none } hst hsh'.1 rfl rfl
        refine ⟨?_, this.2⟩
        rw [this.1]
        simp [held, inHand, hp, hsh'.2, entered, left, hid]
      · simp only [Except.ok.injEq, Prod.mk.injEq] at h
        obtain ⟨rfl, rfl⟩ := h
        refine ⟨by simp [held, inHand, hp, hsh'.2, entered, left, hid], ?_⟩
        simp [Shape, hst, hsh'.1]
      · cases h
  | fire =>
    simp only [step] at h
    split at h
    · cases h
    · rename_i p due k htx
      split at h
      · cases h
      · split at h
        · cases h
        · have hst : s.started = true := by
            by_contra hc
            have := hsh.1 (by simpa using hc)
            rw [this.2.2] at htx; cases htx
          have hsh' : s.getPending = false ∧ s.handed = none := by
            rcases hsh.2 hst with h1 | h1 | h1
            · rw [h1.2.2] at htx; cases htx
            · rw [h1.2.2] at htx; cases htx
            · exact ⟨h1.1, h1.2.1⟩
          generalize hr : d.onFire s.dev s.now k p = r at h
          have hid : r.2.1.id = p.id := by rw [← hr]; exact hd.onFire _ _ _ _
          unfold proceed at h
          split at h
          · simp only [Except.ok.injEq, Prod.mk.injEq] at h
            obtain ⟨rfl, rfl⟩ := h
            have := issueGet_ok { s with tx := none, dev := d.onDone r.1 r.2.1 } hst hsh'.1 hsh'.2 rfl
            refine ⟨?_, this.2⟩
            rw [this.1]
            simp [held, inHand, htx, hsh'.2, entered, left, hid]
          · simp only [Except.ok.injEq, Prod.mk.injEq] at h
            obtain ⟨rfl, rfl⟩ := h
            have := issueGet_ok { s with tx := none, dev := d.onDone r.1 r.2.1 } hst hsh'.1 hsh'.2 rfl
            refine ⟨?_, this.2⟩
            rw [this.1]
            simp [held, inHand, htx, hsh'.2, entered, left, hid]
          · simp only [Except.ok.injEq, Prod.mk.injEq] at h
            obtain ⟨rfl, rfl⟩ := h
            refine ⟨by simp [held, inHand, htx, hsh'.2, entered, left, hid], ?_⟩
            simp [Shape, hst, hsh'.1, hsh'.2]
          · cases h
  | tick t =>
    simp only [step] at h
    split at h
    · cases h
    · split at h
      · cases h
      · split at h
        · cases h
        · split at h
          · cases h
          · split at h
            · split at h
              · cases h
              · simp only [Except.ok.injEq, Prod.mk.injEq] at h
                obtain ⟨rfl, rfl⟩ := h
                exact ⟨by simp [held, inHand, entered, left], hsh⟩
            · simp only [Except.ok.injEq, Prod.mk.injEq] at h
              obtain ⟨rfl, rfl⟩ := h
              exact ⟨by simp [held, inHand, entered, left], hsh⟩

/-- run an action sequence; the result collects (entered, left) id lists in order -/
def runActs (d : Dev ℚ δ) : FState ℚ δ → List (FAct ℚ) → Except String (FState ℚ δ × List Nat × List Nat)
  | s, [] => .ok (s, [], [])
  | s, a :: as =>
    match step d s a with
    | .error m => .error m
    | .ok (s1, o) =>
      match runActs d s1 as with
      | .error m => .error m
      | .ok (s2, ins, outs) => .ok (s2, entered a o ++ ins, left o ++ outs)

/-- **Conservation and order over whole runs**: for every admissible action sequence,
held-before ++ entered = left ++ held-after, as lists of packet ids. -/
theorem run_conserves (d : Dev ℚ δ) (hd : IdPreserving d) (as : List (FAct ℚ)) (s s' : FState ℚ δ)
    (ins outs : List Nat) (hsh : Shape s) (h : runActs d s as = .ok (s', ins, outs)) :
    held s ++ ins = outs ++ held s' ∧ Shape s' := by
  induction as generalizing s ins outs with
  | nil =>
    simp only [runActs, Except.ok.injEq, Prod.mk.injEq] at h
    obtain ⟨rfl, rfl, rfl⟩ := h
    exact ⟨by simp, hsh⟩
  | cons a as ih =>
    simp only [runActs] at h
    split at h
    · cases h
    · rename_i s1 o h1
      split at h
      · cases h
      · rename_i s2 ins2 outs2 h2
        simp only [Except.ok.injEq, Prod.mk.injEq] at h
        obtain ⟨rfl, rfl, rfl⟩ := h
        have c1 := step_conserves d hd s s1 a o hsh h1
        have c2 := ih s1 ins2 outs2 c1.2 h2
        refine ⟨?_, c2.2⟩
        calc held s ++ (entered a o ++ ins2) = (held s ++ entered a o) ++ ins2 := by rw [List.append_assoc]
          _ = (left o ++ held s1) ++ ins2 := by rw [c1.1]
          _ = left o ++ (held s1 ++ ins2) := by rw [List.append_assoc]
          _ = left o ++ (outs2 ++ held s2) := by rw [c2.1]
          _ = left o ++ outs2 ++ held s2 := by rw [List.append_assoc]

/-- the initial state of a device -/
def init (dev : δ) (t0 : ℚ) : FState ℚ δ := { now := t0, dev := dev }

theorem init_shape (dev : δ) (t0 : ℚ) : Shape (init dev t0) := by simp [Shape, init]

theorem init_held (dev : δ) (t0 : ℚ) : held (init dev t0) = [] := by simp [held, inHand, init]

/-- a state in which the clock may advance and no timeout is outstanding -/
def Quiescent (s : FState ℚ δ) : Prop :=
  s.started = true ∧ s.handed = none ∧ s.tx = none ∧ ¬ (s.getPending = true ∧ s.items ≠ [])

/-- **Drain**: at quiescence nothing is held. -/
theorem quiescent_held_empty (s : FState ℚ δ) (hsh : Shape s) (hq : Quiescent s) : held s = [] := by
  obtain ⟨hst, hh, htx, hni⟩ := hq
  rcases hsh.2 hst with h1 | h1 | h1
  · have : s.items = [] := by
      by_contra hc
      exact hni ⟨h1.1, hc⟩
    simp [held, inHand, hh, htx, this]
  · rw [hh] at h1; simp at h1
  · rw [htx] at h1; simp at h1

/-- `tick` is admissible exactly in states where nothing is triggered-but-unprocessed and no timeout would be passed -/
theorem tick_ok_iff (d : Dev ℚ δ) (s : FState ℚ δ) (t : ℚ) :
    (∃ s' o, step d s (.tick t) = .ok (s', o)) ↔
      s.now ≤ t ∧ s.started = true ∧ s.handed = none ∧ ¬ (s.getPending = true ∧ s.items ≠ []) ∧
      (∀ p due k, s.tx = some (p, due, k) → t ≤ due) := by
  simp only [step]
  constructor
  · rintro ⟨s', o, h⟩
    split at h
    · cases h
    · rename_i h1
      split at h
      · cases h
      · rename_i h2
        split at h
        · cases h
        · rename_i h3
          split at h
          · cases h
          · rename_i h4
            refine ⟨not_lt.mp h1, by simpa using h2, by simpa using h3, ?_, ?_⟩
            · intro hc; apply h4; simp [hc.1, hc.2]
            · intro p due k htx
              rw [htx] at h
              simp only at h
              split at h
              · cases h
              · rename_i h5; exact not_lt.mp h5
  · rintro ⟨h1, h2, h3, h4, h5⟩
    rw [if_neg (not_lt.mpr h1)]
    simp only [h2, h3, Bool.not_true, Bool.false_eq_true, if_false, Option.isSome_none]
    have : ¬ ((s.getPending && !s.items.isEmpty) = true) := by
      intro hc
      simp only [Bool.and_eq_true, Bool.not_eq_true', List.isEmpty_eq_false_iff] at hc
      exact h4 ⟨hc.1, hc.2⟩
    rw [if_neg this]
    cases htx : s.tx with
    | none => exact ⟨_, _, rfl⟩
    | some x =>
      obtain ⟨p, due, k⟩ := x
      simp only
      rw [if_neg (not_lt.mpr (h5 p due k htx))]
      exact ⟨_, _, rfl⟩

end Fifo
