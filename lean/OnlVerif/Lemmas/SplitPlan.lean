import OnlVerif.Lemmas.SplitWFClosed
import OnlVerif.Lemmas.SplitSimTime
/-!
# Split plans: chaining `step()`, `run(until=event)` and `run(until=number)` pieces (C03)

A *split plan* is a list of pieces `step n | untilEvent e | untilTime t`; `execPlan` runs them one after the other on the
model and stops at the first piece that does not return normally.

Every numeric stop inserts one sentinel record and shifts the later ids by one.  The state of the split run after several
numeric stops is `stackT cs s` — the transformations `c.T false` of the stops made so far (latest first) applied to the
state `s` of the uninterrupted run — up to the clock (a numeric stop leaves the clock at its `until` time; the next step
overwrites it).  This file proves that each kind of piece, run from such a state, ends in such a state again
(`stepN_stack`, `untilEvent_stack`, `untilTime_stack`) and chains them (`execPlan_stack`).

All invariants are taken from the *uninterrupted* run (`WS`, `ScopedRun`) and carried over to the split run by `ws_T`.
-/

variable {σ : Type}

/-- one piece of a split plan -/
inductive Piece where
  /-- `n` calls of `step()` -/
  | step (n : Nat)
  /-- `run(until=e)` for an event `e` (an id of the split run) -/
  | untilEvent (e : EvId)
  /-- `run(until=t)` for a number `t` -/
  | untilTime (t : ℚ)

/-- run one piece; `some s'` iff it returned normally (in state `s'`) -/
def Piece.run (body : σ → Resume → Burst ℚ σ) (fuel budget : Nat) : Piece → KState ℚ σ → Option (KState ℚ σ)
  | .step n, s =>
    match stepN body fuel n s with
    | .ok s' => some s'
    | _ => none
  | .untilEvent e, s =>
    match runUntilEvent body fuel budget e s with
    | .returned _ s' => some s'
    | _ => none
  | .untilTime t, s =>
    match runUntilTime body fuel budget t s with
    | .returned _ s' => some s'
    | _ => none

/-- **execute a split plan**: the pieces one after the other, stopping (`none`) at the first piece that raises (or
exhausts the step budget of the model) -/
def execPlan (body : σ → Resume → Burst ℚ σ) (fuel budget : Nat) : List Piece → KState ℚ σ → Option (KState ℚ σ)
  | [], s => some s
  | p :: ps, s => (p.run body fuel budget s).bind (execPlan body fuel budget ps)

def Piece.isTime : Piece → Bool
  | .untilTime _ => true
  | _ => false

/-- the number of numeric stops of a plan -/
def numStops (plan : List Piece) : Nat := (plan.filter Piece.isTime).length

/-- the transformations of the numeric stops made so far (latest first), applied to a state of the uninterrupted run -/
def stackT : List (SplitCfg σ) → KState ℚ σ → KState ℚ σ
  | [], s => s
  | c :: cs, s => c.T false (stackT cs s)

/-- the renaming accumulated by the numeric stops made so far -/
def stackρ : List (SplitCfg σ) → EvId → EvId
  | [], e => e
  | c :: cs, e => c.ρ (stackρ cs e)

/-- every stop of the stack was made at an index / `eid` that exists in the state below it, and renames local states as
the `IdSt` says -/
def StackOK (I : IdSt σ) : List (SplitCfg σ) → KState ℚ σ → Prop
  | [], _ => True
  | c :: cs, s => c.u ≤ s.events.size + cs.length ∧ c.eid0 ≤ s.eid + cs.length ∧ c.rσ = I.rn c.u ∧ StackOK I cs s

/-- the results of a step of the split run that correspond to a result of the uninterrupted run -/
def mapStack (cs : List (SplitCfg σ)) (r : StepResult ℚ σ) : StepResult ℚ σ :=
  cs.foldr (fun c r => c.mapT false r) r

theorem numStops_step (n : Nat) (ps : List Piece) : numStops (.step n :: ps) = numStops ps := rfl
theorem numStops_event (e : EvId) (ps : List Piece) : numStops (.untilEvent e :: ps) = numStops ps := rfl
theorem numStops_time (t : ℚ) (ps : List Piece) : numStops (.untilTime t :: ps) = numStops ps + 1 := rfl

namespace SplitPlan
open SplitWF
variable {I : IdSt σ}

theorem _root_.StackOK.mono {cs : List (SplitCfg σ)} {s s' : KState ℚ σ} (h : StackOK I cs s) (g : Grow s s') : StackOK I cs s' := by
  induction cs with
  | nil => trivial
  | cons c cs ih =>
    obtain ⟨h1, h2, h3, h4⟩ := h
    exact ⟨Nat.le_trans h1 (Nat.add_le_add_right g.2 _), Nat.le_trans h2 (Nat.add_le_add_right g.1 _), h3, ih h4⟩

theorem size_stackT (cs : List (SplitCfg σ)) (s : KState ℚ σ) (h : StackOK I cs s) :
    (stackT cs s).events.size = s.events.size + cs.length ∧ (stackT cs s).eid = s.eid + cs.length := by
  induction cs with
  | nil => exact ⟨rfl, rfl⟩
  | cons c cs ih =>
    obtain ⟨h1, h2, _, h4⟩ := h
    obtain ⟨i1, i2⟩ := ih h4
    have hi : c.Inv (stackT cs s) := ⟨by rw [i1]; exact h1, by rw [i2]; exact h2⟩
    refine ⟨?_, ?_⟩
    · show (c.T false (stackT cs s)).events.size = _
      rw [c.size_T false _ hi, i1, List.length_cons, Nat.add_assoc]
    · show (stackT cs s).eid + 1 = _
      rw [i2, List.length_cons, Nat.add_assoc]

theorem inv_stackT (c : SplitCfg σ) (cs : List (SplitCfg σ)) (s : KState ℚ σ) (h : StackOK I (c :: cs) s) :
    c.Inv (stackT cs s) := by
  obtain ⟨h1, h2, _, h4⟩ := h
  obtain ⟨i1, i2⟩ := size_stackT cs s h4
  exact ⟨by rw [i1]; exact h1, by rw [i2]; exact h2⟩

theorem ws_stackT (cs : List (SplitCfg σ)) (s : KState ℚ σ) (hw : WS I s) (h : StackOK I cs s) : WS I (stackT cs s) := by
  induction cs with
  | nil => exact hw
  | cons c cs ih => exact ws_T c false (ih h.2.2.2) (inv_stackT c cs s h) h.2.2.1

theorem mapStack_ok (cs : List (SplitCfg σ)) (s : KState ℚ σ) : mapStack cs (.ok s) = .ok (stackT cs s) := by
  induction cs with
  | nil => rfl
  | cons c cs ih =>
    show c.mapT false (mapStack cs (.ok s)) = _
    rw [ih]; rfl

theorem mapStack_not_ok (cs : List (SplitCfg σ)) (r : StepResult ℚ σ) (h : ∀ s, r ≠ .ok s) : ∀ S, mapStack cs r ≠ .ok S := by
  induction cs with
  | nil => exact h
  | cons c cs ih =>
    intro S hc
    have : c.mapT false (mapStack cs r) = .ok S := hc
    cases hm : mapStack cs r with
    | ok s1 => exact ih s1 hm
    | stopped o s1 => rw [hm] at this; cases this
    | crash x s1 => rw [hm] at this; cases this
    | empty => rw [hm] at this; cases this

theorem grow_of_kreach (body : σ → Resume → Burst ℚ σ) (fuel : Nat) {s s' : KState ℚ σ} (hr : KReach body fuel s s') :
    Grow s s' := by
  induction hr with
  | init => exact Grow.krel.refl _
  | step _ hs ih =>
    rw [← st?_eq_state?] at hs
    exact Grow.krel.trans ih (SplitCfg.grow_step body fuel _ _ hs)

/-! ## the clock -/

theorem stepN_withNow (body : σ → Resume → Burst ℚ σ) (fuel n : Nat) (X : KState ℚ σ) (x : ℚ) :
    stepN body fuel (n + 1) { X with now := x } = stepN body fuel (n + 1) X := by
  rw [stepN_succ, stepN_succ]
  rfl

/-- the run-level hypothesis does not read the clock (a step overwrites it before anything reads it) -/
theorem simAlong_withNow (c : SplitCfg σ) (body : σ → Resume → Burst ℚ σ) (fuel : Nat) (X : KState ℚ σ) (x : ℚ)
    (h : c.SimAlong body fuel { X with now := x }) : c.SimAlong body fuel X := by
  intro j sj hj
  cases j with
  | zero =>
    cases hj
    exact (h 0 { X with now := x } rfl : c.SimStep body fuel { X with now := x })
  | succ j =>
    rw [← stepN_withNow body fuel j X x] at hj
    exact h (j + 1) sj hj

theorem SimAlong.tailN {c : SplitCfg σ} {body : σ → Resume → Burst ℚ σ} {fuel : Nat} : ∀ (k : Nat) {s sk : KState ℚ σ},
    c.SimAlong body fuel s → stepN body fuel k s = .ok sk → c.SimAlong body fuel sk := by
  intro k s sk h hk j sj hj
  apply h (k + j) sj
  rw [stepN_add_ok body fuel k j s sk hk]
  exact hj

/-- **the run-level id-opacity hypothesis of a stack of stops**: for every stop `c` of the stack, the continuation of the
run from the state below it is id-opaque for the renaming of `c` -/
def StackSim (body : σ → Resume → Burst ℚ σ) (fuel : Nat) : List (SplitCfg σ) → KState ℚ σ → Prop
  | [], _ => True
  | c :: cs, s => c.SimAlong body fuel (stackT cs s) ∧ StackSim body fuel cs s

/-- a program that is id-opaque at every split index satisfies the run-level hypothesis of every stack -/
theorem stackSim_of_bodySim (body : σ → Resume → Burst ℚ σ) (fuel : Nat)
    (hB : ∀ u, 0 < u → BodySim (shAt u) (I.rn u) body) : ∀ (cs : List (SplitCfg σ)) (s : KState ℚ σ), StackOK I cs s →
    StackSim body fuel cs s
  | [], _, _ => trivial
  | c :: cs, s, h => by
    refine ⟨c.simAlong_of_bodySim body ?_ fuel _, stackSim_of_bodySim body fuel hB cs s h.2.2.2⟩
    rw [h.2.2.1]
    exact hB c.u c.upos

section lockstep
variable (body : σ → Resume → Burst ℚ σ) (fuel : Nat)

/-- **one step through the whole stack**: the split run does the step of the uninterrupted run, renamed once per stop -/
theorem step_stackT (cs : List (SplitCfg σ)) (s : KState ℚ σ) (hw : WS I s) (h : StackOK I cs s)
    (hsim : StackSim body fuel cs s) : step body fuel (stackT cs s) = mapStack cs (step body fuel s) := by
  induction cs with
  | nil => rfl
  | cons c cs ih =>
    have hi := inv_stackT c cs s h
    have hwX := ws_stackT cs s hw h.2.2.2
    show step body fuel (c.T false (stackT cs s)) = c.mapT false (mapStack cs (step body fuel s))
    rw [c.step_T_false_run body fuel _ hi (c.stepFuelOK_of_wf body fuel _ (condWF_of_ws hwX) (buildAlloc_of_ws hwX))
      (hsim.1 0 _ rfl), ih h.2.2.2 hsim.2]

/-- the hypothesis of a stack is kept by a normal step of the uninterrupted run -/
theorem stackSim_step (cs : List (SplitCfg σ)) (s s1 : KState ℚ σ) (hw : WS I s) (h : StackOK I cs s)
    (hsim : StackSim body fuel cs s) (hs : step body fuel s = .ok s1) : StackSim body fuel cs s1 := by
  induction cs with
  | nil => trivial
  | cons c cs ih =>
    refine ⟨?_, ih h.2.2.2 hsim.2⟩
    have hst : step body fuel (stackT cs s) = .ok (stackT cs s1) := by
      rw [step_stackT body fuel cs s hw h.2.2.2 hsim.2, hs, mapStack_ok]
    exact SplitCfg.SimAlong.tail c hsim.1 hst

/-- **`n` normal steps of the split run are `n` normal steps of the uninterrupted run**, to the corresponding state -/
theorem stepN_stackT (cs : List (SplitCfg σ)) : ∀ (n : Nat) (s S' : KState ℚ σ), WS I s → ScopedRun I body fuel s →
    StackOK I cs s → StackSim body fuel cs s → stepN body fuel n (stackT cs s) = .ok S' →
    ∃ s', stepN body fuel n s = .ok s' ∧ S' = stackT cs s' ∧ StackSim body fuel cs s'
  | 0, s, S', _, _, _, hsim, h => by cases h; exact ⟨s, rfl, rfl, hsim⟩
  | n + 1, s, S', hw, hS, hok, hsim, h => by
    rw [stepN_succ, step_stackT body fuel cs s hw hok hsim] at h
    rw [stepN_succ]
    cases hs : step body fuel s with
    | ok s1 =>
      rw [hs, mapStack_ok] at h
      have hr : KReach body fuel s s1 := KReach.step KReach.init (by rw [hs]; rfl)
      exact stepN_stackT cs n s1 S' (ws_reach body fuel s s1 hw hS hr) (hS.tail hr)
        (hok.mono (grow_of_kreach body fuel hr)) (stackSim_step body fuel cs s s1 hw hok hsim hs) h
    | stopped o s1 =>
      rw [hs] at h
      cases hm : mapStack cs (.stopped o s1) with
      | ok S1 => exact absurd hm (mapStack_not_ok cs _ (by intro s hc; cases hc) S1)
      | stopped o' S1 => rw [hm] at h; cases h
      | crash x S1 => rw [hm] at h; cases h
      | empty => rw [hm] at h; cases h
    | crash x s1 =>
      rw [hs] at h
      cases hm : mapStack cs (.crash x s1) with
      | ok S1 => exact absurd hm (mapStack_not_ok cs _ (by intro s hc; cases hc) S1)
      | stopped o' S1 => rw [hm] at h; cases h
      | crash x S1 => rw [hm] at h; cases h
      | empty => rw [hm] at h; cases h
    | empty =>
      rw [hs] at h
      cases hm : mapStack cs .empty with
      | ok S1 => exact absurd hm (mapStack_not_ok cs _ (by intro s hc; cases hc) S1)
      | stopped o' S1 => rw [hm] at h; cases h
      | crash x S1 => rw [hm] at h; cases h
      | empty => rw [hm] at h; cases h

end lockstep

theorem sortedAg_stepN (body : σ → Resume → Burst ℚ σ) (fuel : Nat) : ∀ (n : Nat) (s s' : KState ℚ σ), SortedAg s →
    stepN body fuel n s = .ok s' → SortedAg s'
  | 0, s, s', hs, h => by cases h; exact hs
  | n + 1, s, s', hs, h => by
    rw [stepN_succ] at h
    cases hst : step body fuel s with
    | ok s1 =>
      rw [hst] at h
      exact sortedAg_stepN body fuel n s1 s' (SplitCfg.sortedAg_step body fuel s s1 hs (by rw [hst]; rfl)) h
    | stopped o s1 => rw [hst] at h; cases h
    | crash x s1 => rw [hst] at h; cases h
    | empty => rw [hst] at h; cases h

/-- the state of the split run: the stack of stops applied to a state of the uninterrupted run, with any clock -/
def splitState (cs : List (SplitCfg σ)) (s : KState ℚ σ) (x : ℚ) : KState ℚ σ := { stackT cs s with now := x }

theorem splitState_self (cs : List (SplitCfg σ)) (s : KState ℚ σ) : splitState cs s (stackT cs s).now = stackT cs s := rfl

theorem ws_splitState (cs : List (SplitCfg σ)) (s : KState ℚ σ) (x : ℚ) (hw : WS I s) (h : StackOK I cs s) :
    WS I (splitState cs s x) := ws_withNow (ws_stackT cs s hw h) x

/-- **the run-level id-opacity hypothesis of a plan execution**: at each numeric stop — made in the state `S` of the split
run — the continuation of the run from `S` *without the stop* is id-opaque for the renaming of that stop (`SimAlong`).
Implied by `BodySim` at the split indices (`planSim_of_bodySim`); for a concrete terminating run it is a finite conjunction of
equations between the calls, values and local states the program produces on the original and on the renamed inputs. -/
def PlanSim (I : IdSt σ) (body : σ → Resume → Burst ℚ σ) (fuel budget : Nat) : List Piece → KState ℚ σ → Prop
  | [], _ => True
  | p :: ps, S =>
    (match p with
      | .untilTime t => ∀ hpos : 0 < S.events.size, (SplitCfg.at S hpos t (I.rn S.events.size)).SimAlong body fuel S
      | _ => True) ∧
    match p.run body fuel budget S with
    | some S1 => PlanSim I body fuel budget ps S1
    | none => True

theorem planSim_of_bodySim (body : σ → Resume → Burst ℚ σ) (fuel budget : Nat)
    (hB : ∀ u, 0 < u → BodySim (shAt u) (I.rn u) body) : ∀ (plan : List Piece) (S : KState ℚ σ), PlanSim I body fuel budget plan S
  | [], _ => trivial
  | p :: ps, S => by
    refine ⟨?_, ?_⟩
    · cases p with
      | untilTime t => exact fun hpos => SplitCfg.simAlong_of_bodySim (SplitCfg.at S hpos t (I.rn S.events.size)) body (hB _ hpos) fuel S
      | step n => trivial
      | untilEvent e => trivial
    · cases p.run body fuel budget S with
      | none => trivial
      | some S1 => exact planSim_of_bodySim body fuel budget hB ps S1

section pieces
variable (body : σ → Resume → Burst ℚ σ) (fuel : Nat)

/-- what is known about a state `s` of the uninterrupted run and the state `S` of the split run that corresponds to it -/
structure Rel (I : IdSt σ) (body : σ → Resume → Burst ℚ σ) (fuel : Nat) (cs : List (SplitCfg σ)) (s S : KState ℚ σ) : Prop where
  ws : WS I s
  safe : ScopedRun I body fuel s
  ok : StackOK I cs s
  sim : StackSim body fuel cs s
  eq : ∃ x, S = splitState cs s x
  sorted : SortedAg S
  nostop : AllStopFree S

theorem Rel.wsS {cs : List (SplitCfg σ)} {s S : KState ℚ σ} (r : Rel I body fuel cs s S) : WS I S := by
  obtain ⟨x, rfl⟩ := r.eq
  exact ws_splitState cs s x r.ws r.ok

/-- **`step()` pieces** -/
theorem stepN_stack (cs : List (SplitCfg σ)) (n : Nat) (s S S' : KState ℚ σ) (r : Rel I body fuel cs s S)
    (h : stepN body fuel n S = .ok S') : ∃ s', stepN body fuel n s = .ok s' ∧ Rel I body fuel cs s' S' := by
  obtain ⟨x, rfl⟩ := r.eq
  have hsorted := sortedAg_stepN body fuel n _ S' r.sorted h
  have hns := stepN_stopFree _ body fuel n _ S' r.nostop h
  cases n with
  | zero =>
    cases h
    exact ⟨s, rfl, r⟩
  | succ n =>
    have h' : stepN body fuel (n + 1) (stackT cs s) = .ok S' := by
      rw [← stepN_withNow body fuel n (stackT cs s) x]; exact h
    obtain ⟨s', h1, rfl, hsim'⟩ := stepN_stackT body fuel cs (n + 1) s S' r.ws r.safe r.ok r.sim h'
    have hr := kreach_of_stepN body fuel (n + 1) s s' h1
    exact ⟨s', h1, ⟨ws_reach body fuel s s' r.ws r.safe hr, r.safe.tail hr, r.ok.mono (grow_of_kreach body fuel hr), hsim',
      ⟨_, (splitState_self cs s').symm⟩, hsorted, hns⟩⟩

/-- **`run(until=event)` pieces** -/
theorem untilEvent_stack (cs : List (SplitCfg σ)) (budget : Nat) (e : EvId) (s S S' : KState ℚ σ) (v : Val)
    (r : Rel I body fuel cs s S) (h : runUntilEvent body fuel budget e S = .returned v S') :
    ∃ K s', stepN body fuel K s = .ok s' ∧ Rel I body fuel cs s' S' := by
  by_cases hp : S.processed e = true
  · have : S' = S := by
      unfold runUntilEvent at h
      rw [if_pos hp] at h
      split at h <;> cases h <;> rfl
    subst this
    exact ⟨0, s, rfl, r⟩
  · have hp' : S.processed e = false := by simpa using hp
    obtain ⟨k, _, h1, _⟩ := runUntilEvent_transparent body fuel budget e S S' v r.nostop hp' h
    obtain ⟨s', h2, r'⟩ := stepN_stack body fuel cs (k + 1) s S S' r h1
    exact ⟨k + 1, s', h2, r'⟩

/-- **`run(until=number)` pieces**: one more stop on the stack -/
theorem untilTime_stack (cs : List (SplitCfg σ)) (budget : Nat) (t : ℚ) (s S S' : KState ℚ σ) (v : Val)
    (r : Rel I body fuel cs s S) (hpos : 0 < s.events.size)
    (hsimS : ∀ hposS : 0 < S.events.size, (SplitCfg.at S hposS t (I.rn S.events.size)).SimAlong body fuel S)
    (h : runUntilTime body fuel budget t S = .returned v S') :
    v = .none ∧ ∃ K s' c, stepN body fuel K s = .ok s' ∧ Rel I body fuel (c :: cs) s' S' ∧ S'.now = t ∧
      c.u = S.events.size ∧ c.t = t := by
  have hwS := r.wsS
  obtain ⟨x, hS⟩ := r.eq
  have hsz := size_stackT cs s r.ok
  have hSsize : S.events.size = s.events.size + cs.length := by rw [hS]; exact hsz.1
  have hSeid : S.eid = s.eid + cs.length := by rw [hS]; exact hsz.2
  have hposS : 0 < S.events.size := by rw [hSsize]; exact Nat.lt_of_lt_of_le hpos (Nat.le_add_right _ _)
  have hlt : S.now < t := by
    apply Classical.byContradiction
    intro hc
    unfold runUntilTime at h
    rw [if_pos (not_lt.mp hc)] at h
    cases h
  let c : SplitCfg σ := SplitCfg.at S hposS t (I.rn S.events.size)
  have hclosed : c.Closed S := closed_of_ws c hwS r.sorted rfl rfl rfl
  have hfuel : c.FuelAlong body fuel S := by
    intro j Sj hj
    obtain ⟨sj, _, rj⟩ := stepN_stack body fuel cs j s S Sj r hj
    have := rj.wsS
    exact c.stepFuelOK_of_wf body fuel Sj (condWF_of_ws this) (buildAlloc_of_ws this)
  obtain ⟨hv, k, Sk, _, h1, h2, _, _, hsimk, hns', _, _⟩ :=
    c.runUntilTime_transparent_run body fuel budget S S' v rfl rfl hlt hclosed r.sorted r.nostop (hsimS hposS) hfuel h
  obtain ⟨sk, h3, rk⟩ := stepN_stack body fuel cs k s S Sk r h1
  obtain ⟨xk, hSk⟩ := rk.eq
  have hg : Grow s sk := grow_of_kreach body fuel (kreach_of_stepN body fuel k s sk h3)
  have hsimk' : c.SimAlong body fuel (stackT cs sk) := by
    rw [hSk] at hsimk
    exact simAlong_withNow c body fuel _ xk hsimk
  refine ⟨hv, k, sk, c, h3, ⟨rk.ws, rk.safe, ⟨?_, ?_, rfl, rk.ok⟩, ⟨hsimk', rk.sim⟩, ⟨t, ?_⟩, ?_, hns'⟩, ?_, rfl, rfl⟩
  · show S.events.size ≤ _
    rw [hSsize]; exact Nat.add_le_add_right hg.2 _
  · show S.eid ≤ _
    rw [hSeid]; exact Nat.add_le_add_right hg.1 _
  · rw [h2, hSk]; rfl
  · rw [h2]
    exact sortedAg_withNow (sortedAg_T_false c rk.sorted) _
  · rw [h2]; rfl

/-- **the whole plan**, under the run-level hypothesis `PlanSim` -/
theorem execPlan_stack (budget : Nat) : ∀ (plan : List Piece) (cs : List (SplitCfg σ)) (s S S' : KState ℚ σ),
    Rel I body fuel cs s S → 0 < s.events.size → PlanSim I body fuel budget plan S →
    execPlan body fuel budget plan S = some S' →
    ∃ K s' cs', stepN body fuel K s = .ok s' ∧ Rel I body fuel cs' s' S' ∧ cs'.length = cs.length + numStops plan
  | [], cs, s, S, S', r, _, _, h => by
    cases h
    exact ⟨0, s, cs, rfl, r, rfl⟩
  | p :: ps, cs, s, S, S', r, hpos, hPS, h => by
    unfold execPlan at h
    obtain ⟨hP1, hP2⟩ := hPS
    cases hp : p.run body fuel budget S with
    | none => rw [hp] at h; cases h
    | some S1 =>
      rw [hp] at h hP2
      simp only [Option.bind_some] at h
      simp only at hP2
      have hgrow : ∀ K s1, stepN body fuel K s = .ok s1 → 0 < s1.events.size := fun K s1 hk =>
        Nat.lt_of_lt_of_le hpos (grow_of_kreach body fuel (kreach_of_stepN body fuel K s s1 hk)).2
      cases p with
      | step n =>
        have h1 : stepN body fuel n S = .ok S1 := by
          simp only [Piece.run] at hp
          cases hq : stepN body fuel n S with
          | ok S2 => rw [hq] at hp; cases hp; rfl
          | stopped o S2 => rw [hq] at hp; cases hp
          | crash x S2 => rw [hq] at hp; cases hp
          | empty => rw [hq] at hp; cases hp
        obtain ⟨s1, h2, r1⟩ := stepN_stack body fuel cs n s S S1 r h1
        obtain ⟨K, s', cs', h3, r', hl⟩ := execPlan_stack budget ps cs s1 S1 S' r1 (hgrow n s1 h2) hP2 h
        exact ⟨n + K, s', cs', by rw [stepN_add_ok body fuel n K s s1 h2]; exact h3, r', by
          rw [hl, numStops_step]⟩
      | untilEvent e =>
        have h1 : ∃ v, runUntilEvent body fuel budget e S = .returned v S1 := by
          simp only [Piece.run] at hp
          cases hq : runUntilEvent body fuel budget e S with
          | returned v S2 => rw [hq] at hp; cases hp; exact ⟨v, rfl⟩
          | raised x S2 => rw [hq] at hp; cases hp
          | outOfFuel S2 => rw [hq] at hp; cases hp
        obtain ⟨v, h1⟩ := h1
        obtain ⟨K1, s1, h2, r1⟩ := untilEvent_stack body fuel cs budget e s S S1 v r h1
        obtain ⟨K, s', cs', h3, r', hl⟩ := execPlan_stack budget ps cs s1 S1 S' r1 (hgrow K1 s1 h2) hP2 h
        exact ⟨K1 + K, s', cs', by rw [stepN_add_ok body fuel K1 K s s1 h2]; exact h3, r', by
          rw [hl, numStops_event]⟩
      | untilTime t =>
        have h1 : ∃ v, runUntilTime body fuel budget t S = .returned v S1 := by
          simp only [Piece.run] at hp
          cases hq : runUntilTime body fuel budget t S with
          | returned v S2 => rw [hq] at hp; cases hp; exact ⟨v, rfl⟩
          | raised x S2 => rw [hq] at hp; cases hp
          | outOfFuel S2 => rw [hq] at hp; cases hp
        obtain ⟨v, h1⟩ := h1
        obtain ⟨_, K1, s1, c, h2, r1, _⟩ := untilTime_stack body fuel cs budget t s S S1 v r hpos hP1 h1
        obtain ⟨K, s', cs', h3, r', hl⟩ := execPlan_stack budget ps (c :: cs) s1 S1 S' r1 (hgrow K1 s1 h2) hP2 h
        exact ⟨K1 + K, s', cs', by rw [stepN_add_ok body fuel K1 K s s1 h2]; exact h3, r', by
          rw [hl, numStops_time, List.length_cons]; omega⟩

end pieces

end SplitPlan
