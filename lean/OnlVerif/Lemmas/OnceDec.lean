import OnlVerif.Lemmas.OnceRun
/-!
# The domain hypothesis is decidable; finite runs

`SafeStep body fuel s` can be evaluated for a concrete program and state (`decide +kernel`), and a run that ends
(empty agenda) after `N` steps satisfies `SafeRun` as soon as its `N` states satisfy `SafeStep`.
-/

namespace Once
variable {σ : Type}

instance instDecSafeTarget (s : KState ℚ σ) (e : EvId) : Decidable (SafeTarget s e) := by
  unfold SafeTarget; exact inferInstance

instance instDecSafeCall (s : KState ℚ σ) : (c : Call ℚ σ) → Decidable (SafeCall s c)
  | .succeed e _ => inferInstanceAs (Decidable (SafeTarget s e))
  | .fail e _ => inferInstanceAs (Decidable (SafeTarget s e))
  | .timeout _ _ => isTrue trivial
  | .event => isTrue trivial
  | .spawn _ => isTrue trivial
  | .interrupt _ _ => isTrue trivial
  | .probe _ _ => isTrue trivial
  | .cond _ _ => isTrue trivial
  | .request _ _ _ => isTrue trivial
  | .release _ _ => isTrue trivial
  | .cancel _ => isTrue trivial
  | .cput _ _ => isTrue trivial
  | .cget _ _ => isTrue trivial
  | .sput _ _ => isTrue trivial
  | .sget _ _ => isTrue trivial
  | .log _ _ => isTrue trivial
  | .load _ => isTrue trivial
  | .store _ _ => isTrue trivial

instance instDecSafeYield (s : KState ℚ σ) (self e : EvId) : Decidable (SafeYield s self e) := by
  unfold SafeYield; exact inferInstance

def SafeBurst.dec (self : EvId) : (b : Burst ℚ σ) → (s : KState ℚ σ) → Decidable (SafeBurst self b s)
  | .call c k, s => @instDecidableAnd _ _ (instDecSafeCall s c) (SafeBurst.dec self (k _) _)
  | .yield e _, s => instDecSafeYield s self e
  | .ret _, _ => isTrue trivial
  | .raise _, _ => isTrue trivial

instance (self : EvId) (b : Burst ℚ σ) (s : KState ℚ σ) : Decidable (SafeBurst self b s) := SafeBurst.dec self b s

def SafeResume.dec (body : σ → Resume → Burst ℚ σ) (p : EvId) : (fuel : Nat) → (e : EvId) → (s : KState ℚ σ) →
    Decidable (SafeResume body p fuel e s)
  | 0, _, _ => isTrue trivial
  | fuel + 1, e, s => by
    unfold SafeResume
    split
    · exact isTrue trivial
    · refine @instDecidableAnd _ _ inferInstance ?_
      split
      · split
        · exact isTrue trivial
        · exact SafeResume.dec body p fuel _ _
      · exact isTrue trivial

instance (body : σ → Resume → Burst ℚ σ) (p : EvId) (fuel : Nat) (e : EvId) (s : KState ℚ σ) :
    Decidable (SafeResume body p fuel e s) := SafeResume.dec body p fuel e s

instance (body : σ → Resume → Burst ℚ σ) (fuel : Nat) (iv p : EvId) (s : KState ℚ σ) : Decidable (SafeIntr body fuel iv p s) := by
  unfold SafeIntr
  split
  · exact isTrue trivial
  · split
    · exact isTrue trivial
    · split <;> exact inferInstance

instance instDecSafeCb (body : σ → Resume → Burst ℚ σ) (fuel : Nat) (e : EvId) (s : KState ℚ σ) : (cb : Cb) → Decidable (SafeCb body fuel e s cb)
  | .resume p => inferInstanceAs (Decidable (SafeResume body p fuel e s))
  | .intr iv => by
    simp only [SafeCb]
    split
    · exact inferInstance
    · exact isTrue trivial
  | .probe _ => isTrue trivial
  | .stop => isTrue trivial
  | .check _ => isTrue trivial
  | .build _ => isTrue trivial
  | .trigPut _ => isTrue trivial
  | .trigGet _ => isTrue trivial

def SafeCbs.dec (body : σ → Resume → Burst ℚ σ) (fuel : Nat) (e : EvId) : (cbs : List Cb) → (l : LoopSt ℚ σ) → Decidable (SafeCbs body fuel e cbs l)
  | [], _ => isTrue trivial
  | cb :: cbs, l => @instDecidableAnd _ _ (instDecSafeCb body fuel e l.s cb) (SafeCbs.dec body fuel e cbs _)

instance (body : σ → Resume → Burst ℚ σ) (fuel : Nat) (s : KState ℚ σ) : Decidable (SafeStep body fuel s) := by
  unfold SafeStep
  split
  · exact isTrue trivial
  · split
    · exact isTrue trivial
    · exact SafeCbs.dec body fuel _ _ _


/-! ## `NoHangStep` is decidable as well -/

def NoHangResume.dec (body : σ → Resume → Burst ℚ σ) (p : EvId) : (fuel : Nat) → (e : EvId) → (s : KState ℚ σ) →
    Decidable (NoHangResume body p fuel e s)
  | 0, _, _ => isFalse (fun h => h)
  | fuel + 1, e, s => by
    unfold NoHangResume
    split
    · exact isTrue trivial
    · split
      · split
        · exact isTrue trivial
        · exact NoHangResume.dec body p fuel _ _
      · exact isTrue trivial

instance (body : σ → Resume → Burst ℚ σ) (p : EvId) (fuel : Nat) (e : EvId) (s : KState ℚ σ) :
    Decidable (NoHangResume body p fuel e s) := NoHangResume.dec body p fuel e s

instance (body : σ → Resume → Burst ℚ σ) (fuel : Nat) (iv p : EvId) (s : KState ℚ σ) : Decidable (NoHangIntr body fuel iv p s) := by
  unfold NoHangIntr
  split
  · exact isTrue trivial
  · split
    · exact isTrue trivial
    · split <;> exact inferInstance

instance instDecNoHangCb (body : σ → Resume → Burst ℚ σ) (fuel : Nat) (e : EvId) (s : KState ℚ σ) :
    (cb : Cb) → Decidable (NoHangCb body fuel e s cb)
  | .resume p => inferInstanceAs (Decidable (NoHangResume body p fuel e s))
  | .intr iv => by
    simp only [NoHangCb]
    split
    · exact inferInstance
    · exact isTrue trivial
  | .probe _ => isTrue trivial
  | .stop => isTrue trivial
  | .check _ => isTrue trivial
  | .build _ => isTrue trivial
  | .trigPut _ => isTrue trivial
  | .trigGet _ => isTrue trivial

def NoHangCbs.dec (body : σ → Resume → Burst ℚ σ) (fuel : Nat) (e : EvId) : (cbs : List Cb) → (l : LoopSt ℚ σ) →
    Decidable (NoHangCbs body fuel e cbs l)
  | [], _ => isTrue trivial
  | cb :: cbs, l => @instDecidableAnd _ _ (instDecNoHangCb body fuel e l.s cb) (NoHangCbs.dec body fuel e cbs _)

instance (body : σ → Resume → Burst ℚ σ) (fuel : Nat) (s : KState ℚ σ) : Decidable (NoHangStep body fuel s) := by
  unfold NoHangStep
  split
  · exact isTrue trivial
  · split
    · exact isTrue trivial
    · exact NoHangCbs.dec body fuel _ _ _

/-! ## runs that end -/

/-- the state after `n` steps (`none`: the run has ended before) -/
def iter (body : σ → Resume → Burst ℚ σ) (fuel : Nat) : Nat → KState ℚ σ → Option (KState ℚ σ)
  | 0, s => some s
  | n + 1, s => (iter body fuel n s).bind fun x => (step body fuel x).state?

theorem reach_iter {body : σ → Resume → Burst ℚ σ} {fuel : Nat} {s0 s : KState ℚ σ} (hr : KReach body fuel s0 s) :
    ∃ n, iter body fuel n s0 = some s := by
  induction hr with
  | init => exact ⟨0, rfl⟩
  | step _ hs ih =>
    obtain ⟨n, hn⟩ := ih
    exact ⟨n + 1, by simp only [iter, hn, Option.bind_some]; exact hs⟩

theorem iter_none_of_le {body : σ → Resume → Burst ℚ σ} {fuel : Nat} {s0 : KState ℚ σ} {N : Nat}
    (h : iter body fuel N s0 = none) : ∀ n, N ≤ n → iter body fuel n s0 = none := by
  intro n hn
  induction n with
  | zero =>
    have : N = 0 := Nat.le_zero.mp hn
    subst this; exact h
  | succ n ih =>
    by_cases hN : N = n + 1
    · subst hN; exact h
    · have : N ≤ n := by omega
      simp only [iter, ih this, Option.bind_none]

/-- what has to be evaluated for a run that ends within `N` steps -/
def SafeUpTo (body : σ → Resume → Burst ℚ σ) (fuel : Nat) (s0 : KState ℚ σ) (N : Nat) : Prop :=
  (iter body fuel N s0).isNone = true ∧
  ∀ n, n < N → match iter body fuel n s0 with
    | some s => SafeStep body fuel s
    | none => True

instance (body : σ → Resume → Burst ℚ σ) (fuel : Nat) (s0 : KState ℚ σ) (N : Nat) : Decidable (SafeUpTo body fuel s0 N) := by
  unfold SafeUpTo
  refine @instDecidableAnd _ _ inferInstance (@Nat.decidableBallLT N _ (fun n _ => ?_))
  split
  · exact inferInstance
  · exact isTrue trivial

/-- **a run that ends after `N` steps, each of them safe, is a safe run** -/
theorem SafeUpTo.safeRun {body : σ → Resume → Burst ℚ σ} {fuel : Nat} {s0 : KState ℚ σ} {N : Nat}
    (h : SafeUpTo body fuel s0 N) : SafeRun body fuel s0 := by
  intro s hr
  obtain ⟨n, hn⟩ := reach_iter hr
  have hend : iter body fuel N s0 = none := by
    cases hc : iter body fuel N s0 with
    | none => rfl
    | some x => have := h.1; rw [hc] at this; cases this
  by_cases hlt : n < N
  · have := h.2 n hlt
    rw [hn] at this
    exact this
  · have := iter_none_of_le hend n (by omega)
    rw [hn] at this; cases this

/-- the same for "never out of fuel" -/
def NoHangUpTo (body : σ → Resume → Burst ℚ σ) (fuel : Nat) (s0 : KState ℚ σ) (N : Nat) : Prop :=
  (iter body fuel N s0).isNone = true ∧
  ∀ n, n < N → match iter body fuel n s0 with
    | some s => NoHangStep body fuel s
    | none => True

instance (body : σ → Resume → Burst ℚ σ) (fuel : Nat) (s0 : KState ℚ σ) (N : Nat) : Decidable (NoHangUpTo body fuel s0 N) := by
  unfold NoHangUpTo
  refine @instDecidableAnd _ _ inferInstance (@Nat.decidableBallLT N _ (fun n _ => ?_))
  split
  · exact inferInstance
  · exact isTrue trivial

theorem NoHangUpTo.noHangRun {body : σ → Resume → Burst ℚ σ} {fuel : Nat} {s0 : KState ℚ σ} {N : Nat}
    (h : NoHangUpTo body fuel s0 N) : NoHangRun body fuel s0 := by
  intro s hr
  obtain ⟨n, hn⟩ := reach_iter hr
  have hend : iter body fuel N s0 = none := by
    cases hc : iter body fuel N s0 with
    | none => rfl
    | some x => have := h.1; rw [hc] at this; cases this
  by_cases hlt : n < N
  · have := h.2 n hlt
    rw [hn] at this
    exact this
  · have := iter_none_of_le hend n (by omega)
    rw [hn] at this; cases this

end Once
