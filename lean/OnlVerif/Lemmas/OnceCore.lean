import OnlVerif.Lemmas.OnceAccess
import Mathlib.Data.List.Count
/-! # The core invariant `InvC` under each shape of state change -/

namespace Once
variable {σ : Type}

/-- two states the core invariant cannot tell apart -/
structure SameC (s s' : KState ℚ σ) : Prop where
  agenda : s'.agenda = s.agenda
  size : s'.events.size = s.events.size
  kind : ∀ e, (s'.ev e).kind = (s.ev e).kind
  cbs : ∀ e, (s'.ev e).cbs = (s.ev e).cbs
  out : ∀ e, (s'.ev e).out = (s.ev e).out
  proc : ∀ p, s'.proc? p = s.proc? p

theorem SameC.of_events {s s' : KState ℚ σ} (ha : s'.agenda = s.agenda) (he : s'.events = s.events)
    (hp : s'.procs = s.procs) : SameC s s' := by
  have hev : ∀ e, s'.ev e = s.ev e := fun e => by simp [KState.ev, he]
  exact ⟨ha, by rw [he], fun e => by rw [hev], fun e => by rw [hev], fun e => by rw [hev],
    fun p => by simp [KState.proc?, hp]⟩

/-- an update of one event record in fields the invariant does not look at -/
theorem SameC.of_setEv (s : KState ℚ σ) (e : EvId) (x : EvRec ℚ) (hk : x.kind = (s.ev e).kind)
    (hc : x.cbs = (s.ev e).cbs) (ho : x.out = (s.ev e).out) : SameC s (s.setEv e x) :=
  ⟨rfl, size_setEv s e x, fun e' => kind_setEv s e e' x hk, fun e' => cbs_setEv s e e' x hc,
    fun e' => out_setEv s e e' x ho, fun _ => rfl⟩

theorem InvC.congr {g : Ghost} {s s' : KState ℚ σ} (hi : InvC g s) (h : SameC s s') : InvC g s' := by
  have hcond : ∀ c, isCond s' c = isCond s c := fun c => isCond_congr (h.kind c)
  refine ⟨?_, ?_, ?_, ?_, ?_, ?_, ?_, ?_, ?_, ?_, hi.rem_intr, hi.rem_count⟩
  · rw [h.agenda]; exact hi.ag_distinct
  · intro q hq; rw [h.agenda] at hq; rw [h.out, h.cbs]; exact hi.ag_live q hq
  · intro e he hc; rw [h.size] at he; rw [h.cbs] at hc; rw [h.out]; exact hi.done_trig e he hc
  · intro p pr hp; rw [h.proc] at hp; rw [h.kind]; exact hi.procs p pr hp
  · intro e L p hL hm; rw [h.cbs] at hL; rw [h.out, h.kind]
    obtain ⟨h1, ⟨pr, h2, h3⟩, h4, h5⟩ := hi.reg e L p hL hm
    exact ⟨h1, ⟨pr, by rw [h.proc]; exact h2, h3⟩, h4, h5⟩
  · intro e L iv hL hm; rw [h.cbs] at hL; exact hi.intr e L iv hL hm
  · intro e L c hL hm; rw [h.cbs] at hL; rw [hcond]; exact hi.check e L c hL hm
  · intro p hp
    obtain ⟨h1, h2, h3⟩ := hi.pend p hp
    refine ⟨by rw [h.out]; exact h1, by rw [h.kind]; exact h2, ?_⟩
    intro e L hL; rw [h.cbs] at hL; exact h3 e L hL
  · intro p hp; rw [h.size, h.kind]; exact hi.pend_intr p hp
  · intro c hc; rw [hcond]; exact hi.rem_check c hc

/-! ### the agenda gets one more entry -/

theorem InvC.sched {g : Ghost} {s s' : KState ℚ σ} (hi : InvC g s) (q : QEntry ℚ)
    (ha : s'.agenda = q :: s.agenda) (hsz : s'.events.size = s.events.size) (hev : ∀ e, s'.ev e = s.ev e)
    (hp : ∀ p, s'.proc? p = s.proc? p)
    (hnew : ∀ b ∈ s.agenda, b.ev ≠ q.ev) (ho : (s.ev q.ev).out ≠ none) (hc : (s.ev q.ev).cbs ≠ none) :
    InvC g s' := by
  have hs : SameC s { s' with agenda := s.agenda } :=
    ⟨rfl, hsz, fun e => by show (s'.ev e).kind = _; rw [hev], fun e => by show (s'.ev e).cbs = _; rw [hev],
      fun e => by show (s'.ev e).out = _; rw [hev], hp⟩
  have h0 : InvC g { s' with agenda := s.agenda } := hi.congr hs
  refine ⟨?_, ?_, h0.done_trig, h0.procs, h0.reg, h0.intr, h0.check, h0.pend, h0.pend_intr, h0.rem_check,
    h0.rem_intr, h0.rem_count⟩
  · rw [ha, List.pairwise_cons]
    exact ⟨fun b hb => (hnew b hb).symm, hi.ag_distinct⟩
  · intro b hb
    rw [ha] at hb
    rw [hev]
    rcases List.mem_cons.mp hb with rfl | hb
    · exact ⟨ho, hc⟩
    · exact hi.ag_live b hb

theorem InvC.schedule {g : Ghost} {s : KState ℚ σ} (hi : InvC g s) (e : EvId) (p : Nat) (d : ℚ)
    (ho : (s.ev e).out ≠ none) (hc : (s.ev e).cbs ≠ none) (hnew : ∀ b ∈ s.agenda, b.ev ≠ e) :
    InvC g (s.schedule e p d) :=
  hi.sched { time := s.now + d, prio := p, eid := s.eid, ev := e } rfl rfl (fun _ => rfl) (fun _ => rfl) hnew ho hc

/-- a triggered event is not in the agenda twice: an untriggered one is not in it at all -/
theorem InvC.not_in_agenda {g : Ghost} {s : KState ℚ σ} (hi : InvC g s) (e : EvId) (h : (s.ev e).out = none) :
    ∀ b ∈ s.agenda, b.ev ≠ e := by
  intro b hb hbe
  exact (hi.ag_live b hb).1 (by rw [hbe]; exact h)

/-! ### outcomes only appear, and not on process events -/

theorem InvC.modOut {g : Ghost} {s s' : KState ℚ σ} (hi : InvC g s)
    (ha : s'.agenda = s.agenda) (hsz : s'.events.size = s.events.size)
    (hk : ∀ e, (s'.ev e).kind = (s.ev e).kind) (hc : ∀ e, (s'.ev e).cbs = (s.ev e).cbs)
    (hp : ∀ p, s'.proc? p = s.proc? p)
    (hmono : ∀ e, (s.ev e).out ≠ none → (s'.ev e).out ≠ none)
    (hnew : ∀ e, (s.ev e).out = none → (s'.ev e).out ≠ none →
      (s.ev e).kind ≠ .proc ∨ (Unreg s e ∧ Cb.resume e ∉ g.rem ∧ g.run ≠ some e)) : InvC g s' := by
  have hcond : ∀ c, isCond s' c = isCond s c := fun c => isCond_congr (hk c)
  have hkeep : ∀ p, (s.ev p).out = none → (s.ev p).kind = .proc →
      ((∃ e L, (s.ev e).cbs = some L ∧ Cb.resume p ∈ L) ∨ Cb.resume p ∈ g.rem ∨ g.run = some p) → (s'.ev p).out = none := by
    intro p h1 h2 h4
    by_contra h3
    rcases hnew p h1 h3 with h | ⟨hu, hr, hn⟩
    · exact h h2
    · rcases h4 with ⟨e, L, hL, hm⟩ | h4 | h4
      · exact hu e L hL hm
      · exact hr h4
      · exact hn h4
  refine ⟨?_, ?_, ?_, ?_, ?_, ?_, ?_, ?_, ?_, ?_, hi.rem_intr, hi.rem_count⟩
  · rw [ha]; exact hi.ag_distinct
  · intro q hq; rw [ha] at hq; rw [hc]; exact ⟨hmono _ (hi.ag_live q hq).1, (hi.ag_live q hq).2⟩
  · intro e he hce; rw [hsz] at he; rw [hc] at hce; exact hmono _ (hi.done_trig e he hce)
  · intro p pr hpp; rw [hp] at hpp; rw [hk]; exact hi.procs p pr hpp
  · intro e L p hL hm; rw [hc] at hL; rw [hk]
    obtain ⟨h1, ⟨pr, h2, h3⟩, h4, h5⟩ := hi.reg e L p hL hm
    exact ⟨hkeep p h1 (hi.procs p pr h2) (Or.inl ⟨e, L, hL, hm⟩), ⟨pr, by rw [hp]; exact h2, h3⟩, h4, h5⟩
  · intro e L iv hL hm; rw [hc] at hL; exact hi.intr e L iv hL hm
  · intro e L c hL hm; rw [hc] at hL; rw [hcond]; exact hi.check e L c hL hm
  · intro p hpp
    obtain ⟨h1, h2, h3⟩ := hi.pend p hpp
    refine ⟨hkeep p h1 h2 (Or.inr hpp), by rw [hk]; exact h2, ?_⟩
    intro e L hL; rw [hc] at hL; exact h3 e L hL
  · intro p hpp; rw [hsz, hk]; exact hi.pend_intr p hpp
  · intro c hcc; rw [hcond]; exact hi.rem_check c hcc

theorem InvC.setOut {g : Ghost} {s : KState ℚ σ} (hi : InvC g s) (e : EvId) (o : Outcome)
    (h : (s.ev e).out = none → (s.ev e).kind ≠ .proc) : InvC g (s.setOut e o) := by
  refine hi.modOut rfl (size_setEv _ _ _) (fun e' => kind_setEv s e e' _ rfl) (fun e' => cbs_setEv s e e' _ rfl)
    (fun _ => rfl) ?_ ?_
  · intro e' h1
    rw [out_setOut]; split
    · simp
    · exact h1
  · intro e' h1 h2
    rw [out_setOut] at h2
    split at h2
    · rename_i hc; rw [hc.1] at h1 ⊢; exact Or.inl (h h1)
    · exact absurd h1 h2

/-- `trigger` of an existing, untriggered event that is not a process -/
theorem InvC.trigger {g : Ghost} {s : KState ℚ σ} (hi : InvC g s) (e : EvId) (o : Outcome)
    (hlt : e < s.events.size) (ho : (s.ev e).out = none) (hk : (s.ev e).kind ≠ .proc) :
    InvC g (s.trigger e o) := by
  unfold KState.trigger
  have h1 := hi.setOut e o (fun _ => hk)
  refine h1.schedule e NORMAL Num.zero ?_ ?_ ?_
  · rw [out_setOut, if_pos ⟨rfl, hlt⟩]; simp
  · have : ((s.setOut e o).ev e).cbs = (s.ev e).cbs := cbs_setEv s e e _ rfl
    rw [this]
    intro hc; exact hi.done_trig e hlt hc ho
  · exact hi.not_in_agenda e ho

/-! ### callback lists change, but not in their `_resume` entries -/

theorem InvC.modCbs {g : Ghost} {s s' : KState ℚ σ} (hi : InvC g s)
    (ha : s'.agenda = s.agenda) (hsz : s'.events.size = s.events.size)
    (hk : ∀ e, (s'.ev e).kind = (s.ev e).kind) (ho : ∀ e, (s'.ev e).out = (s.ev e).out)
    (hp : ∀ p, s'.proc? p = s.proc? p)
    (hN : ∀ e, (s'.ev e).cbs = none ↔ (s.ev e).cbs = none)
    (hL : ∀ e L', (s'.ev e).cbs = some L' → ∃ L, (s.ev e).cbs = some L ∧
      (∀ p, Cb.resume p ∈ L' → Cb.resume p ∈ L ∧ L'.count (.resume p) = L.count (.resume p)) ∧
      (∀ iv, Cb.intr iv ∈ L' → Cb.intr iv ∈ L) ∧
      (∀ c, Cb.check c ∈ L' → Cb.check c ∈ L ∨ isCond s c = true)) : InvC g s' := by
  have hcond : ∀ c, isCond s' c = isCond s c := fun c => isCond_congr (hk c)
  refine ⟨?_, ?_, ?_, ?_, ?_, ?_, ?_, ?_, ?_, ?_, hi.rem_intr, hi.rem_count⟩
  · rw [ha]; exact hi.ag_distinct
  · intro q hq; rw [ha] at hq; rw [ho]
    exact ⟨(hi.ag_live q hq).1, fun h => (hi.ag_live q hq).2 ((hN _).mp h)⟩
  · intro e he hce; rw [hsz] at he; rw [ho]; exact hi.done_trig e he ((hN e).mp hce)
  · intro p pr hpp; rw [hp] at hpp; rw [hk]; exact hi.procs p pr hpp
  · intro e L' p hL' hm
    obtain ⟨L, hLs, hr, _, _⟩ := hL e L' hL'
    obtain ⟨h1, ⟨pr, h2, h3⟩, h4, h5⟩ := hi.reg e L p hLs (hr p hm).1
    exact ⟨by rw [ho]; exact h1, ⟨pr, by rw [hp]; exact h2, h3⟩, by rw [(hr p hm).2]; exact h4, by rw [hk]; exact h5⟩
  · intro e L' iv hL' hm
    obtain ⟨L, hLs, _, hiv, _⟩ := hL e L' hL'
    exact hi.intr e L iv hLs (hiv iv hm)
  · intro e L' c hL' hm
    obtain ⟨L, hLs, _, _, hch⟩ := hL e L' hL'
    rw [hcond]
    rcases hch c hm with h | h
    · exact hi.check e L c hLs h
    · exact h
  · intro p hpp
    obtain ⟨h1, h2, h3⟩ := hi.pend p hpp
    refine ⟨by rw [ho]; exact h1, by rw [hk]; exact h2, ?_⟩
    intro e L' hL' hm
    obtain ⟨L, hLs, hr, _, _⟩ := hL e L' hL'
    exact h3 e L hLs (hr p hm).1
  · intro p hpp; rw [hsz, hk]; exact hi.pend_intr p hpp
  · intro c hcc; rw [hcond]; exact hi.rem_check c hcc

/-- `callbacks.append(cb)` for a callback that is not a `_resume`, not an `_interrupt`, and a `_check` only of a condition -/
theorem InvC.addCb {g : Ghost} {s : KState ℚ σ} (hi : InvC g s) (e : EvId) (cb : Cb)
    (h1 : ∀ p, cb ≠ .resume p) (h2 : ∀ iv, cb ≠ .intr iv) (h3 : ∀ c, cb = .check c → isCond s c = true) :
    InvC g (s.addCb e cb) := by
  unfold KState.addCb
  refine hi.modCbs rfl (size_setEv _ _ _) (fun e' => kind_setEv s e e' _ rfl) (fun e' => out_setEv s e e' _ rfl)
    (fun _ => rfl) ?_ ?_
  · intro e'
    have := cbs_addCb s e e' cb
    unfold KState.addCb at this
    rw [this]
    split
    · rename_i h; subst h; cases (s.ev e').cbs <;> simp
    · exact Iff.rfl
  · intro e' L' hL'
    have := cbs_addCb s e e' cb
    unfold KState.addCb at this
    rw [this] at hL'
    split at hL'
    · rename_i h; subst h
      cases hc : (s.ev e').cbs with
      | none => rw [hc] at hL'; simp at hL'
      | some L =>
        rw [hc] at hL'
        simp only [Option.map_some, Option.some.injEq] at hL'
        subst hL'
        refine ⟨L, rfl, ?_, ?_, ?_⟩
        · intro p hm
          have hne : Cb.resume p ≠ cb := fun h => h1 p h.symm
          refine ⟨?_, ?_⟩
          · rcases List.mem_append.mp hm with h | h
            · exact h
            · exact absurd (List.mem_singleton.mp h) hne
          · rw [List.count_append, List.count_singleton]
            have : (cb == Cb.resume p) = false := by simpa using fun h => hne h.symm
            simp [this]
        · intro iv hm
          rcases List.mem_append.mp hm with h | h
          · exact h
          · exact absurd (List.mem_singleton.mp h).symm (h2 iv)
        · intro c hm
          rcases List.mem_append.mp hm with h | h
          · exact Or.inl h
          · exact Or.inr (h3 c (List.mem_singleton.mp h).symm)
    · exact ⟨L', hL', fun p hm => ⟨hm, rfl⟩, fun iv hm => hm, fun c hm => Or.inl hm⟩

/-- `callbacks.remove(cb)` for a callback that is not a `_resume` -/
theorem InvC.eraseCb_other {g : Ghost} {s : KState ℚ σ} (hi : InvC g s) (e : EvId) (cb : Cb)
    (h1 : ∀ p, cb ≠ .resume p) : InvC g (s.eraseCb e cb) := by
  unfold KState.eraseCb
  refine hi.modCbs rfl (size_setEv _ _ _) (fun e' => kind_setEv s e e' _ rfl) (fun e' => out_setEv s e e' _ rfl)
    (fun _ => rfl) ?_ ?_
  · intro e'
    have := cbs_eraseCb s e e' cb
    unfold KState.eraseCb at this
    rw [this]
    split
    · rename_i h; subst h; cases (s.ev e').cbs <;> simp
    · exact Iff.rfl
  · intro e' L' hL'
    have := cbs_eraseCb s e e' cb
    unfold KState.eraseCb at this
    rw [this] at hL'
    split at hL'
    · rename_i h; subst h
      cases hc : (s.ev e').cbs with
      | none => rw [hc] at hL'; simp at hL'
      | some L =>
        rw [hc] at hL'
        simp only [Option.map_some, Option.some.injEq] at hL'
        subst hL'
        refine ⟨L, rfl, ?_, ?_, ?_⟩
        · intro p hm
          have hne : Cb.resume p ≠ cb := fun h => h1 p h.symm
          exact ⟨List.mem_of_mem_erase hm, List.count_erase_of_ne hne⟩
        · intro iv hm; exact List.mem_of_mem_erase hm
        · intro c hm; exact Or.inl (List.mem_of_mem_erase hm)
    · exact ⟨L', hL', fun p hm => ⟨hm, rfl⟩, fun iv hm => hm, fun c hm => Or.inl hm⟩

/-! ### a fresh event record -/

theorem InvC.push {g : Ghost} {s s' : KState ℚ σ} (hi : InvC g s) (rec : EvRec ℚ) (L0 : List Cb)
    (ha : s'.agenda = s.agenda) (hsz : s'.events.size = s.events.size + 1)
    (hev : ∀ e, s'.ev e = if e = s.events.size then rec else s.ev e)
    (hp : ∀ p, s'.proc? p = s.proc? p)
    (hc : rec.cbs = some L0)
    (hres : ∀ p, Cb.resume p ∈ L0 → (s.ev p).out = none ∧ (∃ pr, s.proc? p = some pr ∧ pr.target = some s.events.size) ∧
      L0.count (.resume p) = 1 ∧ rec.kind ≠ .intr p ∧ Cb.resume p ∉ g.rem ∧ g.run ≠ some p)
    (hintr : ∀ iv, Cb.intr iv ∈ L0 → iv = s.events.size)
    (hcheck : ∀ c, Cb.check c ∉ L0) : InvC g s' := by
  have hold : ∀ e, e < s.events.size → s'.ev e = s.ev e := fun e he => by rw [hev, if_neg (Nat.ne_of_lt he)]
  have hnew : s'.ev s.events.size = rec := by rw [hev, if_pos rfl]
  have hproc_lt : ∀ p, (s.ev p).kind = .proc → p < s.events.size := fun p h => lt_of_proc s p h
  have hcond : ∀ c, isCond s c = true → isCond s' c = true := by
    intro c h
    rw [isCond_congr (s' := s') (s := s) (by rw [hold c (lt_of_isCond s c h)])]; exact h
  refine ⟨?_, ?_, ?_, ?_, ?_, ?_, ?_, ?_, ?_, ?_, hi.rem_intr, hi.rem_count⟩
  · rw [ha]; exact hi.ag_distinct
  · intro q hq; rw [ha] at hq
    have := hi.ag_live q hq
    rw [hold _ (lt_of_cbs s _ this.2)]; exact this
  · intro e he hce
    by_cases h : e = s.events.size
    · subst h; rw [hnew, hc] at hce; cases hce
    · have : e < s.events.size := by omega
      rw [hold e this] at hce ⊢; exact hi.done_trig e this hce
  · intro p pr hpp; rw [hp] at hpp
    have := hi.procs p pr hpp
    rw [hold p (hproc_lt p this)]; exact this
  · intro e L p hL hm
    by_cases h : e = s.events.size
    · subst h
      rw [hnew, hc] at hL; cases hL
      obtain ⟨h1, ⟨pr, h2, h3⟩, h4, h5, _⟩ := hres p hm
      have hpl := hproc_lt p (hi.procs p pr h2)
      exact ⟨by rw [hold p hpl]; exact h1, ⟨pr, by rw [hp]; exact h2, h3⟩, h4, by rw [hnew]; exact h5⟩
    · rw [hev e, if_neg h] at hL ⊢
      obtain ⟨h1, ⟨pr, h2, h3⟩, h4, h5⟩ := hi.reg e L p hL hm
      have hpl := hproc_lt p (hi.procs p pr h2)
      exact ⟨by rw [hold p hpl]; exact h1, ⟨pr, by rw [hp]; exact h2, h3⟩, h4, h5⟩
  · intro e L iv hL hm
    by_cases h : e = s.events.size
    · subst h; rw [hnew, hc] at hL; cases hL; exact hintr iv hm
    · rw [hev, if_neg h] at hL; exact hi.intr e L iv hL hm
  · intro e L c hL hm
    by_cases h : e = s.events.size
    · subst h; rw [hnew, hc] at hL; cases hL; exact absurd hm (hcheck c)
    · rw [hev, if_neg h] at hL; exact hcond c (hi.check e L c hL hm)
  · intro p hpp
    obtain ⟨h1, h2, h3⟩ := hi.pend p hpp
    have hpl := hproc_lt p h2
    refine ⟨by rw [hold p hpl]; exact h1, by rw [hold p hpl]; exact h2, ?_⟩
    intro e L hL hm
    by_cases h : e = s.events.size
    · subst h; rw [hnew, hc] at hL; cases hL
      obtain ⟨_, _, _, _, h5, h6⟩ := hres p hm
      rcases hpp with hpp | hpp
      · exact h5 hpp
      · exact h6 hpp
    · rw [hev, if_neg h] at hL; exact h3 e L hL hm
  · intro p hpp
    have := hi.pend_intr p hpp
    rw [hold _ this.1, hsz]; exact ⟨Nat.lt_succ_of_lt this.1, this.2⟩
  · intro c hcc; exact hcond c (hi.rem_check c hcc)

theorem InvC.newEv {g : Ghost} {s : KState ℚ σ} (hi : InvC g s) (rec : EvRec ℚ) (L0 : List Cb)
    (hc : rec.cbs = some L0)
    (hres : ∀ p, Cb.resume p ∈ L0 → (s.ev p).out = none ∧ (∃ pr, s.proc? p = some pr ∧ pr.target = some s.events.size) ∧
      L0.count (.resume p) = 1 ∧ rec.kind ≠ .intr p ∧ Cb.resume p ∉ g.rem ∧ g.run ≠ some p)
    (hintr : ∀ iv, Cb.intr iv ∈ L0 → iv = s.events.size)
    (hcheck : ∀ c, Cb.check c ∉ L0) : InvC g (s.newEv rec).1 :=
  hi.push rec L0 rfl (by simp [KState.newEv]) (fun e => KState.ev_newEv s rec e) (fun _ => rfl) hc hres hintr hcheck

/-- a labelled fresh event whose callback list holds no `_resume`, `_interrupt` or `_check` -/
theorem InvC.newLabelled {g : Ghost} {s : KState ℚ σ} (hi : InvC g s) (rec : EvRec ℚ) (L0 : List Cb)
    (hc : rec.cbs = some L0) (hres : ∀ p, Cb.resume p ∉ L0) (hintr : ∀ iv, Cb.intr iv ∉ L0)
    (hcheck : ∀ c, Cb.check c ∉ L0) : InvC g (s.newLabelled rec).1 :=
  hi.push { rec with label := s.nlabel + 1 } L0 rfl (by simp [KState.newLabelled])
    (fun e => KState.ev_newLabelled s rec e) (fun _ => rfl) hc (fun p hm => absurd hm (hres p))
    (fun iv hm => absurd hm (hintr iv)) hcheck

/-! ### a process record changes -/

theorem InvC.setProc {g : Ghost} {s : KState ℚ σ} (hi : InvC g s) (p : EvId) (pr : ProcRec σ)
    (hk : (s.ev p).kind = .proc)
    (ht : ∀ e L, (s.ev e).cbs = some L → Cb.resume p ∈ L → pr.target = some e) : InvC g (s.setProc p pr) := by
  refine ⟨hi.ag_distinct, hi.ag_live, hi.done_trig, ?_, ?_, hi.intr, hi.check, hi.pend, hi.pend_intr, hi.rem_check,
    hi.rem_intr, hi.rem_count⟩
  · intro p' pr' hpp
    rw [proc?_setProc] at hpp
    split at hpp
    · rename_i h; subst h; exact hk
    · exact hi.procs p' pr' hpp
  · intro e L p' hL hm
    obtain ⟨h1, ⟨pr', h2, h3⟩, h4, h5⟩ := hi.reg e L p' hL hm
    refine ⟨h1, ?_, h4, h5⟩
    show ∃ x, (s.setProc p pr).proc? p' = some x ∧ _
    rw [proc?_setProc]
    by_cases h : p' = p
    · subst h; rw [if_pos rfl]; exact ⟨pr, rfl, ht e L hL hm⟩
    · rw [if_neg h]; exact ⟨pr', h2, h3⟩

/-! ### the ghost changes -/

theorem InvC.ghost {g g' : Ghost} {s : KState ℚ σ} (hi : InvC g s)
    (hrem : ∀ cb, cb ∈ g'.rem → cb ∈ g.rem) (hcount : ∀ p, g'.rem.count (.resume p) ≤ 1) (he0 : g'.e0 = g.e0)
    (hrun : ∀ p, g'.run = some p → (s.ev p).out = none ∧ (s.ev p).kind = .proc ∧ Unreg s p) : InvC g' s := by
  refine ⟨hi.ag_distinct, hi.ag_live, hi.done_trig, hi.procs, hi.reg, hi.intr, hi.check, ?_, ?_, ?_, ?_, hcount⟩
  · intro p hp
    rcases hp with hp | hp
    · exact hi.pend p (Or.inl (hrem _ hp))
    · exact hrun p hp
  · intro p hp; rw [he0]; exact hi.pend_intr p (hrem _ hp)
  · intro c hc; exact hi.rem_check c (hrem _ hc)
  · intro iv hv; rw [he0]; exact hi.rem_intr iv (hrem _ hv)

end Once
