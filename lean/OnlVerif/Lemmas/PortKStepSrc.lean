import OnlVerif.Lemmas.PortKFrame
/-!
# The Port on the kernel model: kernel steps that run the source (`Port.put`) and the store's own events
-/

set_option linter.unusedSimpArgs false

namespace PortK
open PortOnK

variable {size : Int → Nat} {rate : ℚ} {ql : Option Int}
variable {s : KS} {a : A} {q : QEntry ℚ} {rest : List (QEntry ℚ)}

/-- the source's `Initialize` event, nothing to send: the generator returns, its process event is triggered -/
theorem kstep_srcInitEnd (fuel : Nat) (hk : KInv s a) (hsrc : a.src = .init q [])
    (hp : popMin s.agenda = some (q, rest)) (hrest : rest.Perm (a.port.entries ++ a.pend.toList)) :
    ∃ s', step (body size rate ql) (fuel + 1) s = .ok s' ∧
      KInv s' { a with src := .ending ⟨q.time, NORMAL, s.eid, 2⟩ } ∧
      s'.now = q.time ∧ outsOf s'.trace = outsOf s.trace := by
  have hsk := hk.src
  rw [hsrc] at hsk
  obtain ⟨hqe, ⟨hkind, hcbs, hout⟩, hproc, ⟨hpk, hpc, hpo⟩⟩ := hsk
  have hcbs0 := hcbs
  have hgs : 3 < s.events.size := KState.lt_of_cbs hcbs
  have hres := hk.res
  have hrsz := hk.rsz
  have hwf := openEvent_wf s q rest hk.wf hp
  have hc0 := hk.c0; have hc1 := hk.c1; have hc2 := hk.c2; have hc3 := hk.c3; have hc4 := hk.c4
  rw [step_eq _ _ _ _ _ _ hp (hqe ▸ hcbs)]
  simp only [List.foldl, runCb]
  rw [resume_eq _ _ _ _ _ _ (show (openEvent s q rest).proc? 2 = _ from hproc)]
  simp only [KState.ev, KState.res] at hkind hcbs hout hres hpk hpc hpo
  ksimp [hqe, hgs, hkind, hcbs, hout, hres, hrsz, Nat.ne_of_lt hgs, hpk, hpc, hpo]
  have hfr : ∀ x < s.events.size, (∀ c, (s.ev x).cbs = some c → c ∉ [[Cb.resume 2], []]) → x ≠ 3 ∧ x ≠ 2 := by
    intro x _ hc
    refine ⟨?_, ?_⟩
    · rintro rfl; exact hc _ hcbs0 (by simp)
    · rintro rfl; exact hc _ (by simpa [KState.ev] using hpc) (by simp)
  refine ⟨⟨?_, ?_, hrsz, hres, ?_, ?_, ?_, ?_, ?_, ?_, ?_, ?_⟩, ?_⟩
  · exact wf_push1 hwf.1 _ rfl rfl rfl rfl (le_refl _)
  · refine (List.Perm.cons _ hrest).trans ?_
    simp only [A.entries, SPhase.entries, List.singleton_append]
    exact List.perm_middle.symm
  · refine PortEv.frame hk.port (evFrame_of [[.resume 2], []] ?_) (by decide) (by decide) (by ksimp)
    intro x hx hc; ksimp [Nat.ne_of_lt hx, (hfr x hx hc).1, (hfr x hx hc).2]
  · refine ⟨rfl, ?_⟩
    have : (2 : ℕ) < s.events.size := by omega
    ksimp [EvIs, this, hpk, hpc]
  · refine pend_frame hk.pend (evFrame_of [[.resume 2], []] ?_) (by decide)
    intro x hx hc; ksimp [Nat.ne_of_lt hx, (hfr x hx hc).1, (hfr x hx hc).2]
  · ksimp [hc0]
  · ksimp [hc1]
  · ksimp [hc2]
  · ksimp [hc3]
  · ksimp [hc4]
  · simp [outsOf_push]

/-- the source's `Initialize` event: it sleeps until the first arrival -/
theorem kstep_srcInitWait (fuel : Nat) {gap : ℚ} {id : Int} {arr : List (ℚ × Int)} (hk : KInv s a)
    (hsrc : a.src = .init q ((gap, id) :: arr)) (hgap : 0 ≤ gap)
    (hp : popMin s.agenda = some (q, rest)) (hrest : rest.Perm (a.port.entries ++ a.pend.toList)) :
    ∃ s', step (body size rate ql) (fuel + 1) s = .ok s' ∧
      KInv s' { a with src := .wait id arr ⟨q.time + gap, NORMAL, s.eid, s.events.size⟩ } ∧
      s'.now = q.time ∧ outsOf s'.trace = outsOf s.trace := by
  have hsk := hk.src
  rw [hsrc] at hsk
  obtain ⟨hqe, ⟨hkind, hcbs, hout⟩, hproc, ⟨hpk, hpc, hpo⟩⟩ := hsk
  have hcbs0 := hcbs
  have hgs : 3 < s.events.size := KState.lt_of_cbs hcbs
  have hres := hk.res
  have hrsz := hk.rsz
  have hwf := openEvent_wf s q rest hk.wf hp
  have hc0 := hk.c0; have hc1 := hk.c1; have hc2 := hk.c2; have hc3 := hk.c3; have hc4 := hk.c4
  rw [step_eq _ _ _ _ _ _ hp (hqe ▸ hcbs)]
  simp only [List.foldl, runCb]
  rw [resume_eq _ _ _ _ _ _ (show (openEvent s q rest).proc? 2 = _ from hproc)]
  simp only [KState.ev, KState.res] at hkind hcbs hout hres hpk hpc hpo
  ksimp [hqe, hgs, hkind, hcbs, hout, hres, hrsz, Nat.ne_of_lt hgs, hpk, hpc, hpo, hgap]
  have hfr : ∀ x < s.events.size, (∀ c, (s.ev x).cbs = some c → c ∉ [[Cb.resume 2]]) → x ≠ 3 := by
    intro x _ hc; rintro rfl; exact hc _ hcbs0 (by simp)
  have h2 : (2 : ℕ) < s.events.size := by omega
  refine ⟨⟨?_, ?_, hrsz, hres, ?_, ?_, ?_, ?_, ?_, ?_, ?_, ?_⟩, ?_⟩
  · exact wf_push1 hwf.1 _ rfl rfl rfl rfl (by show q.time ≤ q.time + gap; linarith)
  · refine (List.Perm.cons _ hrest).trans ?_
    simp only [A.entries, SPhase.entries, List.singleton_append]
    exact List.perm_middle.symm
  · refine PortEv.frame hk.port (evFrame_of [[.resume 2]] ?_) (by decide) (by decide) (by ksimp)
    frame_ev hfr
  · refine ⟨?_, ?_, ?_⟩
    · ksimp [EvIs]
    · ksimp
    · ksimp [EvIs, Nat.ne_of_lt h2, hpk, hpc, hpo]
  · refine pend_frame hk.pend (evFrame_of [[.resume 2]] ?_) (by decide)
    frame_ev hfr
  · ksimp [hc0]
  · ksimp [hc1]
  · ksimp [hc2]
  · ksimp [hc3]
  · ksimp [hc4]
  · simp [outsOf_push]

/-- the process event of the finished source is processed: nothing happens -/
theorem kstep_srcEnd (fuel : Nat) (hk : KInv s a) (hsrc : a.src = .ending q)
    (hp : popMin s.agenda = some (q, rest)) (hrest : rest.Perm (a.port.entries ++ a.pend.toList)) :
    ∃ s', step (body size rate ql) (fuel + 1) s = .ok s' ∧ KInv s' { a with src := .done } ∧
      s'.now = q.time ∧ outsOf s'.trace = outsOf s.trace := by
  have hsk := hk.src
  rw [hsrc] at hsk
  obtain ⟨hqe, ⟨hkind, hcbs, hout⟩⟩ := hsk
  have hcbs0 := hcbs
  have hgs : 2 < s.events.size := KState.lt_of_cbs hcbs
  have hres := hk.res
  have hrsz := hk.rsz
  have hwf := openEvent_wf s q rest hk.wf hp
  have hc0 := hk.c0; have hc1 := hk.c1; have hc2 := hk.c2; have hc3 := hk.c3; have hc4 := hk.c4
  rw [step_eq _ _ _ _ _ _ hp (hqe ▸ hcbs)]
  simp only [KState.ev, KState.res] at hkind hcbs hout hres
  ksimp [hqe, hgs, hkind, hcbs, hout, hres, hrsz]
  have hfr : ∀ x < s.events.size, (∀ c, (s.ev x).cbs = some c → c ∉ [([] : List Cb)]) → x ≠ 2 := by
    intro x _ hc; rintro rfl; exact hc _ hcbs0 (by simp)
  refine ⟨wf_same hwf.1 rfl rfl rfl, ?_, hrsz, hres, ?_, trivial, ?_, hc0, hc1, hc2, hc3, hc4⟩
  · simpa [A.entries, SPhase.entries] using hrest
  · refine PortEv.frame hk.port (evFrame_of [[]] ?_) (by decide) (by decide) rfl
    frame_ev hfr
  · refine pend_frame hk.pend (evFrame_of [[]] ?_) (by decide)
    frame_ev hfr

/-- the last arrival: the source's timeout fires, `Port.put(packet)`, the generator returns -/
theorem kstep_srcPutEnd (fuel : Nat) {id : Int} (hk : KInv s a) (hsrc : a.src = .wait id [] q) (hn : a.pend = none)
    (hacc : refuses ql (a.bytes + (size id : Int)) = false)
    (hp : popMin s.agenda = some (q, rest)) (hrest : rest.Perm (a.port.entries ++ a.pend.toList)) :
    ∃ s', step (body size rate ql) (fuel + 1) s = .ok s' ∧
      KInv s' { a with src := .ending ⟨q.time, NORMAL, s.eid + 1, 2⟩,
                       pend := some ⟨q.time, NORMAL, s.eid, s.events.size⟩, items := a.items ++ [id],
                       bytes := a.bytes + (size id : Int), recv := a.recv + 1, putIds := a.putIds ++ [id],
                       accIds := a.accIds ++ [id] } ∧
      s'.now = q.time ∧ outsOf s'.trace = outsOf s.trace := by
  have hsk := hk.src
  rw [hsrc] at hsk
  obtain ⟨⟨hkind, hcbs, hout⟩, hproc, ⟨hpk, hpc, hpo⟩⟩ := hsk
  have hcbs0 := hcbs
  have hpc0 := hpc
  have hgs : q.ev < s.events.size := KState.lt_of_cbs hcbs
  have h2 : (2 : ℕ) < s.events.size := KState.lt_of_cbs hpc
  have hne2 : q.ev ≠ 2 := by rintro h; rw [h] at hkind; rw [hkind] at hpk; cases hpk
  have hres := hk.res
  have hrsz := hk.rsz
  have hwf := openEvent_wf s q rest hk.wf hp
  have hc0 := hk.c0; have hc1 := hk.c1; have hc2 := hk.c2; have hc3 := hk.c3; have hc4 := hk.c4
  rw [step_eq _ _ _ _ _ _ hp hcbs]
  simp only [List.foldl, runCb]
  rw [resume_eq _ _ _ _ _ _ (show (openEvent s q rest).proc? 2 = _ from hproc)]
  simp only [KState.ev, KState.res] at hkind hcbs hout hres hpk hpc hpo
  ksimp [hgs, hkind, hcbs, hout, hres, hrsz, Nat.ne_of_lt hgs, Nat.ne_of_lt h2, hne2, Ne.symm hne2, hpk, hpc, hpo, hc0, hc1, h2, hacc]
  have hfr : ∀ x < s.events.size, (∀ c, (s.ev x).cbs = some c → c ∉ [[Cb.resume 2], []]) → x ≠ q.ev ∧ x ≠ 2 := by
    intro x _ hc
    refine ⟨?_, ?_⟩
    · rintro rfl; exact hc _ hcbs0 (by simp)
    · rintro rfl; exact hc _ hpc0 (by simp)
  refine ⟨⟨?_, ?_, ?_, ?_, ?_, ?_, ?_, ?_, ?_, ?_, ?_, ?_⟩, ?_⟩
  · exact wf_push2 hwf.1 _ _ rfl rfl rfl rfl rfl (le_refl _) (le_refl _)
  · rw [hn] at hrest
    simp only [A.entries, SPhase.entries, Option.toList, List.append_nil] at hrest ⊢
    refine ((List.Perm.cons _ hrest).cons _).trans ?_
    exact (List.perm_append_comm (l₁ := [_, _]) (l₂ := a.port.entries))
  · ksimp [hrsz]
  · ksimp [hrsz]
  · refine PortEv.frame hk.port (evFrame_of [[.resume 2], []] ?_) (by decide) (by decide) (by ksimp)
    intro x hx hc; ksimp [Nat.ne_of_lt hx, (hfr x hx hc).1, (hfr x hx hc).2]
  · refine ⟨rfl, ?_⟩
    ksimp [EvIs, h2, Nat.lt_succ_of_lt h2, hpk, hpc, Nat.ne_of_lt h2, Ne.symm hne2]
  · intro u hu
    simp only [Option.some.injEq] at hu
    subst hu
    ksimp [EvIs, Nat.ne_of_gt h2]
  · ksimp
  · ksimp
  · ksimp [hc2]
  · ksimp [hc3]
  · ksimp [hc4]
  · simp [outsOf_push]

/-- an arrival: the source's timeout fires, `Port.put(packet)`, then it sleeps until the next arrival -/
theorem kstep_srcPutWait (fuel : Nat) {id id' : Int} {gap : ℚ} {arr : List (ℚ × Int)} (hk : KInv s a)
    (hsrc : a.src = .wait id ((gap, id') :: arr) q) (hn : a.pend = none) (hgap : 0 ≤ gap)
    (hacc : refuses ql (a.bytes + (size id : Int)) = false)
    (hp : popMin s.agenda = some (q, rest)) (hrest : rest.Perm (a.port.entries ++ a.pend.toList)) :
    ∃ s', step (body size rate ql) (fuel + 1) s = .ok s' ∧
      KInv s' { a with src := .wait id' arr ⟨q.time + gap, NORMAL, s.eid + 1, s.events.size + 1⟩,
                       pend := some ⟨q.time, NORMAL, s.eid, s.events.size⟩, items := a.items ++ [id],
                       bytes := a.bytes + (size id : Int), recv := a.recv + 1, putIds := a.putIds ++ [id],
                       accIds := a.accIds ++ [id] } ∧
      s'.now = q.time ∧ outsOf s'.trace = outsOf s.trace := by
  have hsk := hk.src
  rw [hsrc] at hsk
  obtain ⟨⟨hkind, hcbs, hout⟩, hproc, ⟨hpk, hpc, hpo⟩⟩ := hsk
  have hcbs0 := hcbs
  have hgs : q.ev < s.events.size := KState.lt_of_cbs hcbs
  have h2 : (2 : ℕ) < s.events.size := KState.lt_of_cbs hpc
  have hne2 : q.ev ≠ 2 := by rintro h; rw [h] at hkind; rw [hkind] at hpk; cases hpk
  have hres := hk.res
  have hrsz := hk.rsz
  have hwf := openEvent_wf s q rest hk.wf hp
  have hc0 := hk.c0; have hc1 := hk.c1; have hc2 := hk.c2; have hc3 := hk.c3; have hc4 := hk.c4
  rw [step_eq _ _ _ _ _ _ hp hcbs]
  simp only [List.foldl, runCb]
  rw [resume_eq _ _ _ _ _ _ (show (openEvent s q rest).proc? 2 = _ from hproc)]
  simp only [KState.ev, KState.res] at hkind hcbs hout hres hpk hpc hpo
  ksimp [hgs, hkind, hcbs, hout, hres, hrsz, Nat.ne_of_lt hgs, Nat.ne_of_lt h2, hne2, Ne.symm hne2, hpk, hpc, hpo, hc0, hc1, h2,
    hgap, Nat.ne_of_lt (Nat.lt_succ_of_lt hgs), hacc]
  have hfr : ∀ x < s.events.size, (∀ c, (s.ev x).cbs = some c → c ∉ [[Cb.resume 2]]) → x ≠ q.ev := by
    intro x _ hc; rintro rfl; exact hc _ hcbs0 (by simp)
  refine ⟨⟨?_, ?_, ?_, ?_, ?_, ?_, ?_, ?_, ?_, ?_, ?_, ?_⟩, ?_⟩
  · exact wf_push2 hwf.1 _ _ rfl rfl rfl rfl rfl (by show q.time ≤ q.time + gap; linarith) (le_refl _)
  · rw [hn] at hrest
    simp only [A.entries, SPhase.entries, Option.toList, List.append_nil] at hrest ⊢
    refine ((List.Perm.cons _ hrest).cons _).trans ?_
    exact (List.perm_append_comm (l₁ := [_, _]) (l₂ := a.port.entries))
  · ksimp [hrsz]
  · ksimp [hrsz]
  · refine PortEv.frame hk.port (evFrame_of [[.resume 2]] ?_) (by decide) (by decide) (by ksimp)
    frame_ev hfr
  · refine ⟨?_, ?_, ?_⟩
    · ksimp [EvIs]
    · ksimp
    · have h2' : (2 : ℕ) ≠ s.events.size + 1 := by omega
      ksimp [EvIs, Nat.ne_of_lt h2, h2', Ne.symm hne2, hpk, hpc, hpo]
  · intro u hu
    simp only [Option.some.injEq] at hu
    subst hu
    ksimp [EvIs]
  · ksimp
  · ksimp
  · ksimp [hc2]
  · ksimp [hc3]
  · ksimp [hc4]
  · simp [outsOf_push]

/-- the last arrival is refused: the source's timeout fires, `Port.put` counts a drop, the generator returns -/
theorem kstep_srcDropEnd (fuel : Nat) {id : Int} (hk : KInv s a) (hsrc : a.src = .wait id [] q)
    (hdrop : refuses ql (a.bytes + (size id : Int)) = true)
    (hp : popMin s.agenda = some (q, rest)) (hrest : rest.Perm (a.port.entries ++ a.pend.toList)) :
    ∃ s', step (body size rate ql) (fuel + 1) s = .ok s' ∧
      KInv s' { a with src := .ending ⟨q.time, NORMAL, s.eid, 2⟩, recv := a.recv + 1, putIds := a.putIds ++ [id],
                       dropped := a.dropped + 1 } ∧
      s'.now = q.time ∧ outsOf s'.trace = outsOf s.trace := by
  have hsk := hk.src
  rw [hsrc] at hsk
  obtain ⟨⟨hkind, hcbs, hout⟩, hproc, ⟨hpk, hpc, hpo⟩⟩ := hsk
  have hcbs0 := hcbs
  have hpc0 := hpc
  have hgs : q.ev < s.events.size := KState.lt_of_cbs hcbs
  have h2 : (2 : ℕ) < s.events.size := KState.lt_of_cbs hpc
  have hne2 : q.ev ≠ 2 := by rintro h; rw [h] at hkind; rw [hkind] at hpk; cases hpk
  have hres := hk.res
  have hrsz := hk.rsz
  have hwf := openEvent_wf s q rest hk.wf hp
  have hc0 := hk.c0; have hc1 := hk.c1; have hc2 := hk.c2; have hc3 := hk.c3; have hc4 := hk.c4
  rw [step_eq _ _ _ _ _ _ hp hcbs]
  simp only [List.foldl, runCb]
  rw [resume_eq _ _ _ _ _ _ (show (openEvent s q rest).proc? 2 = _ from hproc)]
  simp only [KState.ev, KState.res] at hkind hcbs hout hres hpk hpc hpo
  ksimp [hgs, hkind, hcbs, hout, hres, hrsz, Nat.ne_of_lt hgs, Nat.ne_of_lt h2, hne2, Ne.symm hne2, hpk, hpc, hpo, hc0, hc1, hc4,
    h2, hdrop]
  have hfr : ∀ x < s.events.size, (∀ c, (s.ev x).cbs = some c → c ∉ [[Cb.resume 2], []]) → x ≠ q.ev ∧ x ≠ 2 := by
    intro x _ hc
    refine ⟨?_, ?_⟩
    · rintro rfl; exact hc _ hcbs0 (by simp)
    · rintro rfl; exact hc _ hpc0 (by simp)
  refine ⟨⟨?_, ?_, hrsz, hres, ?_, ?_, ?_, ?_, ?_, ?_, ?_, ?_⟩, ?_⟩
  · exact wf_push1 hwf.1 _ rfl rfl rfl rfl (le_refl _)
  · refine (List.Perm.cons _ hrest).trans ?_
    simp only [A.entries, SPhase.entries, List.singleton_append]
    exact List.perm_middle.symm
  · refine PortEv.frame hk.port (evFrame_of [[.resume 2], []] ?_) (by decide) (by decide) (by ksimp)
    intro x hx hc; ksimp [Nat.ne_of_lt hx, (hfr x hx hc).1, (hfr x hx hc).2]
  · refine ⟨rfl, ?_⟩
    ksimp [EvIs, h2, hpk, hpc, Ne.symm hne2]
  · refine pend_frame hk.pend (evFrame_of [[.resume 2], []] ?_) (by decide)
    intro x hx hc; ksimp [Nat.ne_of_lt hx, (hfr x hx hc).1, (hfr x hx hc).2]
  · ksimp [hc0]
  · ksimp
  · ksimp [hc2]
  · ksimp [hc3]
  · ksimp
  · simp [outsOf_push]

/-- an arrival is refused: the source's timeout fires, `Port.put` counts a drop, the source sleeps until the next one -/
theorem kstep_srcDropWait (fuel : Nat) {id id' : Int} {gap : ℚ} {arr : List (ℚ × Int)} (hk : KInv s a)
    (hsrc : a.src = .wait id ((gap, id') :: arr) q) (hgap : 0 ≤ gap)
    (hdrop : refuses ql (a.bytes + (size id : Int)) = true)
    (hp : popMin s.agenda = some (q, rest)) (hrest : rest.Perm (a.port.entries ++ a.pend.toList)) :
    ∃ s', step (body size rate ql) (fuel + 1) s = .ok s' ∧
      KInv s' { a with src := .wait id' arr ⟨q.time + gap, NORMAL, s.eid, s.events.size⟩, recv := a.recv + 1,
                       putIds := a.putIds ++ [id], dropped := a.dropped + 1 } ∧
      s'.now = q.time ∧ outsOf s'.trace = outsOf s.trace := by
  have hsk := hk.src
  rw [hsrc] at hsk
  obtain ⟨⟨hkind, hcbs, hout⟩, hproc, ⟨hpk, hpc, hpo⟩⟩ := hsk
  have hcbs0 := hcbs
  have hgs : q.ev < s.events.size := KState.lt_of_cbs hcbs
  have h2 : (2 : ℕ) < s.events.size := KState.lt_of_cbs hpc
  have hne2 : q.ev ≠ 2 := by rintro h; rw [h] at hkind; rw [hkind] at hpk; cases hpk
  have hres := hk.res
  have hrsz := hk.rsz
  have hwf := openEvent_wf s q rest hk.wf hp
  have hc0 := hk.c0; have hc1 := hk.c1; have hc2 := hk.c2; have hc3 := hk.c3; have hc4 := hk.c4
  rw [step_eq _ _ _ _ _ _ hp hcbs]
  simp only [List.foldl, runCb]
  rw [resume_eq _ _ _ _ _ _ (show (openEvent s q rest).proc? 2 = _ from hproc)]
  simp only [KState.ev, KState.res] at hkind hcbs hout hres hpk hpc hpo
  ksimp [hgs, hkind, hcbs, hout, hres, hrsz, Nat.ne_of_lt hgs, Nat.ne_of_lt h2, hne2, Ne.symm hne2, hpk, hpc, hpo, hc0, hc1, hc4,
    h2, hgap, hdrop]
  have hfr : ∀ x < s.events.size, (∀ c, (s.ev x).cbs = some c → c ∉ [[Cb.resume 2]]) → x ≠ q.ev := by
    intro x _ hc; rintro rfl; exact hc _ hcbs0 (by simp)
  refine ⟨⟨?_, ?_, hrsz, hres, ?_, ?_, ?_, ?_, ?_, ?_, ?_, ?_⟩, ?_⟩
  · exact wf_push1 hwf.1 _ rfl rfl rfl rfl (by show q.time ≤ q.time + gap; linarith)
  · refine (List.Perm.cons _ hrest).trans ?_
    simp only [A.entries, SPhase.entries, List.singleton_append]
    exact List.perm_middle.symm
  · refine PortEv.frame hk.port (evFrame_of [[.resume 2]] ?_) (by decide) (by decide) (by ksimp)
    frame_ev hfr
  · refine ⟨?_, ?_, ?_⟩
    · ksimp [EvIs]
    · ksimp
    · ksimp [EvIs, Nat.ne_of_lt h2, Ne.symm hne2, hpk, hpc, hpo]
  · refine pend_frame hk.pend (evFrame_of [[.resume 2]] ?_) (by decide)
    frame_ev hfr
  · ksimp [hc0]
  · ksimp
  · ksimp [hc2]
  · ksimp [hc3]
  · ksimp
  · simp [outsOf_push]

/-- the `StorePut` event is processed (`_trigger_get`): nobody waits, or the waiting server finds the store empty -/
theorem kstep_putIdle (fuel : Nat) (hk : KInv s a) (hpe : a.pend = some q) (hw : a.port.getQ = [] ∨ a.items = [])
    (hp : popMin s.agenda = some (q, rest)) (hrest : rest.Perm (a.port.entries ++ a.src.entries)) :
    ∃ s', step (body size rate ql) (fuel + 1) s = .ok s' ∧ KInv s' { a with pend := none } ∧
      s'.now = q.time ∧ outsOf s'.trace = outsOf s.trace := by
  obtain ⟨hkind, hcbs, hout⟩ := hk.pend q hpe
  have hcbs0 := hcbs
  have hgs : q.ev < s.events.size := KState.lt_of_cbs hcbs
  have hres := hk.res
  have hrsz := hk.rsz
  have hwf := openEvent_wf s q rest hk.wf hp
  have hc0 := hk.c0; have hc1 := hk.c1; have hc2 := hk.c2; have hc3 := hk.c3; have hc4 := hk.c4
  have htg : triggerGet (openEvent s q rest) 0 = openEvent s q rest := by
    cases hport : a.port with
    | W g =>
      have hpk := hk.port
      rw [hport] at hpk
      have hit : a.items = [] := by
        rcases hw with hw | hw
        · simp [hport, PPhase.getQ] at hw
        · exact hw
      have hne : g ≠ q.ev := by
        rintro rfl
        have := hpk.1.2.1
        rw [hcbs] at this
        cases this
      refine triggerGet_empty _ g ?_ ?_ ?_ ?_
      · show (s.res 0).kind = .store; rw [hres]; rfl
      · show (s.res 0).getQ = [g]; rw [hres, hport]; rfl
      · show (s.res 0).items = []; rw [hres, hit]; rfl
      · have := hpk.1.2.2
        simp only [KState.ev] at this
        ksimp [hne, this]
    | init q0 => exact triggerGet_none _ (by show (s.res 0).getQ = []; rw [hres, hport]; rfl)
    | H g i q0 => exact triggerGet_none _ (by show (s.res 0).getQ = []; rw [hres, hport]; rfl)
    | T t i q0 => exact triggerGet_none _ (by show (s.res 0).getQ = []; rw [hres, hport]; rfl)
  rw [step_eq _ _ _ _ _ _ hp hcbs]
  simp only [List.foldl, runCb]
  rw [htg]
  simp only [KState.ev, KState.res] at hkind hcbs hout hres
  ksimp [hgs, hkind, hcbs, hout, hres, hrsz]
  have hfr : ∀ x < s.events.size, (∀ c, (s.ev x).cbs = some c → c ∉ [[Cb.trigGet 0]]) → x ≠ q.ev := by
    intro x _ hc; rintro rfl; exact hc _ hcbs0 (by simp)
  refine ⟨wf_same hwf.1 rfl rfl rfl, ?_, hrsz, hres, ?_, ?_, ?_, hc0, hc1, hc2, hc3, hc4⟩
  · simpa [A.entries] using hrest
  · refine PortEv.frame hk.port (evFrame_of [[.trigGet 0]] ?_) (by decide) (by decide) rfl
    frame_ev hfr
  · refine SrcEv.frame hk.src (evFrame_of [[.trigGet 0]] ?_) (by decide) (by decide) rfl
    frame_ev hfr
  · intro u hu; cases hu

/-- the `StorePut` event is processed (`_trigger_get`): the head item is handed to the waiting server, whose
`StoreGet` event is triggered -/
theorem kstep_putHand (fuel : Nat) {g : EvId} {i : Int} {is : List Int} (hk : KInv s a) (hpe : a.pend = some q)
    (hport : a.port = .W g) (hit : a.items = i :: is)
    (hp : popMin s.agenda = some (q, rest)) (hrest : rest.Perm (a.port.entries ++ a.src.entries)) :
    ∃ s', step (body size rate ql) (fuel + 1) s = .ok s' ∧
      KInv s' { a with pend := none, port := .H g i ⟨q.time, NORMAL, s.eid, g⟩, items := is } ∧
      s'.now = q.time ∧ outsOf s'.trace = outsOf s.trace := by
  obtain ⟨hkind, hcbs, hout⟩ := hk.pend q hpe
  have hcbs0 := hcbs
  have hgs : q.ev < s.events.size := KState.lt_of_cbs hcbs
  have hres := hk.res
  have hrsz := hk.rsz
  have hwf := openEvent_wf s q rest hk.wf hp
  have hc0 := hk.c0; have hc1 := hk.c1; have hc2 := hk.c2; have hc3 := hk.c3; have hc4 := hk.c4
  have hpk := hk.port
  rw [hport] at hpk
  obtain ⟨⟨hgk, hgc, hgo⟩, hproc⟩ := hpk
  have hgc0 := hgc
  have hgg : g < s.events.size := KState.lt_of_cbs hgc
  have hne : g ≠ q.ev := by
    rintro rfl
    rw [hcbs] at hgc
    cases hgc
  rw [step_eq _ _ _ _ _ _ hp hcbs]
  simp only [List.foldl, runCb]
  rw [triggerGet_hand (openEvent s q rest) g i is hrsz (by simpa [openEvent] using hgg)
    (by show (s.res 0).kind = .store; rw [hres]; rfl) (by show (s.res 0).getQ = [g]; rw [hres, hport]; rfl)
    (by show (s.res 0).items = i :: is; rw [hres, hit]; rfl)]
  simp only [KState.ev, KState.res] at hkind hcbs hout hres hgk hgc hgo
  ksimp [hgs, hgg, hkind, hcbs, hout, hres, hrsz, hne, Ne.symm hne, hgk, hgc, hgo]
  have hfr : ∀ x < s.events.size, (∀ c, (s.ev x).cbs = some c → c ∉ [[Cb.trigGet 0], [Cb.trigPut 0, Cb.resume 0]]) →
      x ≠ q.ev ∧ x ≠ g := by
    intro x _ hc
    refine ⟨?_, ?_⟩
    · rintro rfl; exact hc _ hcbs0 (by simp)
    · rintro rfl; exact hc _ hgc0 (by simp)
  refine ⟨?_, ?_, ?_, ?_, ?_, ?_, ?_, hc0, hc1, hc2, hc3, hc4⟩
  · exact wf_push1 hwf.1 _ rfl rfl rfl rfl (le_refl _)
  · rw [hport] at hrest
    simp only [A.entries, PPhase.entries, Option.toList, List.append_nil, List.nil_append, List.singleton_append] at hrest ⊢
    exact List.Perm.cons _ hrest
  · ksimp [hrsz]
  · ksimp [hrsz, hport, hit, PPhase.getQ]
  · refine ⟨rfl, ?_, hproc⟩
    ksimp [EvIs, hgg, hne, hgs, hgk, hgc]
  · refine SrcEv.frame hk.src (evFrame_of [[.trigGet 0], [.trigPut 0, .resume 0]] ?_) (by decide) (by decide) rfl
    intro x hx hc; ksimp [Nat.ne_of_lt hx, (hfr x hx hc).1, (hfr x hx hc).2]
  · intro u hu; cases hu

end PortK
