import OnlVerif.Lemmas.ConserveDefs
/-!
# The domain predicate `stepOK` is decidable

so that, for a concrete program and state, membership in the domain of the conservation theorems can be evaluated
(`decide +kernel`).
-/

variable {σ : Type}

namespace Conserve

instance callOK.dec (s : KState ℚ σ) (c : Call ℚ σ) : Decidable (callOK s c) := by
  cases c <;> unfold callOK <;> infer_instance

def burstOK.dec (self : EvId) : (b : Burst ℚ σ) → (s : KState ℚ σ) → Decidable (burstOK self b s)
  | .call c k, s =>
    have := burstOK.dec self (k (doCall s self c).2) (noteErr self (doCall s self c))
    inferInstanceAs (Decidable (callOK s c ∧ burstOK self (k (doCall s self c).2) (noteErr self (doCall s self c))))
  | .yield _ _, _ => isTrue trivial
  | .ret _, _ => isTrue trivial
  | .raise _, _ => isTrue trivial

instance (self : EvId) (b : Burst ℚ σ) (s : KState ℚ σ) : Decidable (burstOK self b s) := burstOK.dec self b s

def resumeOK.dec (body : σ → Resume → Burst ℚ σ) (p : EvId) : (fuel : Nat) → (e : EvId) → (s : KState ℚ σ) →
    Decidable (resumeOK body p fuel e s)
  | 0, _, _ => isTrue trivial
  | fuel + 1, e, s => by
    unfold resumeOK
    cases s.proc? p with
    | none => exact isTrue trivial
    | some pr =>
      simp only
      refine @instDecidableAnd _ _ inferInstance ?_
      cases (runBurst p (body pr.st (deliver s p e).2) ((deliver s p e).1.emit (.resumed p (deliver s p e).2 (deliver s p e).1.now))).2 with
      | yielded e' st' =>
        simp only
        cases register ((runBurst p (body pr.st (deliver s p e).2) ((deliver s p e).1.emit (.resumed p (deliver s p e).2 (deliver s p e).1.now))).1.setProc p { st := st', target := some e' }) p e' with
        | some _ => exact isTrue trivial
        | none => exact resumeOK.dec body p fuel e' _
      | returned _ => exact isTrue trivial
      | raised _ => exact isTrue trivial

instance (body : σ → Resume → Burst ℚ σ) (p : EvId) (fuel : Nat) (e : EvId) (s : KState ℚ σ) :
    Decidable (resumeOK body p fuel e s) := resumeOK.dec body p fuel e s

instance (body : σ → Resume → Burst ℚ σ) (fuel : Nat) (iv p : EvId) (s : KState ℚ σ) :
    Decidable (deliverInterruptOK body fuel iv p s) := by
  unfold deliverInterruptOK
  split
  · exact isTrue trivial
  · split
    · exact isTrue trivial
    · split <;> infer_instance

instance (body : σ → Resume → Burst ℚ σ) (fuel : Nat) (e : EvId) (l : LoopSt ℚ σ) (cb : Cb) :
    Decidable (runCbOK body fuel e l cb) := by
  cases cb with
  | resume p => exact inferInstanceAs (Decidable (resumeOK body p fuel e l.s))
  | intr iv =>
    show Decidable (match (l.s.ev iv).kind with
      | .intr p => deliverInterruptOK body fuel iv p l.s
      | _ => True)
    split <;> infer_instance
  | _ => exact isTrue trivial

def foldOK.dec (body : σ → Resume → Burst ℚ σ) (fuel : Nat) (e : EvId) : (cbs : List Cb) → (l : LoopSt ℚ σ) →
    Decidable (foldOK body fuel e cbs l)
  | [], _ => isTrue trivial
  | cb :: cbs, l =>
    have := foldOK.dec body fuel e cbs (runCb body fuel e l cb)
    inferInstanceAs (Decidable (runCbOK body fuel e l cb ∧ foldOK body fuel e cbs (runCb body fuel e l cb)))

instance (body : σ → Resume → Burst ℚ σ) (fuel : Nat) (e : EvId) (cbs : List Cb) (l : LoopSt ℚ σ) :
    Decidable (foldOK body fuel e cbs l) := foldOK.dec body fuel e cbs l

instance (body : σ → Resume → Burst ℚ σ) (fuel : Nat) (s : KState ℚ σ) : Decidable (stepOK body fuel s) := by
  unfold stepOK
  split
  · exact isTrue trivial
  · split <;> infer_instance

end Conserve
