import OnlVerif.Lemmas.TRKAbs
/-!
# The two-rate token bucket on the kernel model: every configuration step keeps `AInv` and lowers the step bound
-/

set_option linter.unusedSimpArgs false

namespace TRK
open TwoRateOnK QEntry

variable {size : Int → Nat} {cfg : TrCfg ℚ}
variable {a : A} {now : ℚ} {q : QEntry ℚ} {n e : Nat}

theorem due_of_run (hi : AInv cfg a q.time) (a' : A) (hsrc : a'.src = a.src) (hpend : a'.pend = a.pend)
    (hrun : ∀ x ∈ a'.run.entries, q.time ≤ x.time) : ∀ x ∈ a'.entries, q.time ≤ x.time := by
  intro x hx
  simp only [A.entries, List.mem_append] at hx
  rcases hx with hx | hx | hx
  · exact hrun x hx
  · exact hi.due x (mem_src (hsrc ▸ hx))
  · rw [hpend] at hx
    exact hi.due x (mem_pend hx)

/-- with PIR the peak bucket holds a number -/
def PkOK (cfg : TrCfg ℚ) (pk : Option ℚ) : Prop := ∀ k, TwoRate.pirOn cfg = some k → ∃ pl, pk = some pl

theorem pk_of_wait (hgood : TwoRate.Good cfg) {id : Int} {dt cm : ℚ} {pk : Option ℚ}
    (h : verdictA size cfg a now id = .ok (.wait dt cm pk)) : PkOK cfg pk := by
  intro k hk
  rcases verdict_wait_cases hgood h with ⟨k', b, pl, -, -, -, -, -, -, -, rfl⟩ | ⟨hk1, -⟩
  · exact ⟨_, rfl⟩
  · rw [hk1] at hk; cases hk

theorem pk_of_emit {id : Int} {cm : ℚ} {col : Nat} {pk : Option ℚ}
    (h : verdictA size cfg a now id = .ok (.emit col cm pk)) : PkOK cfg pk := by
  intro k hk
  rcases verdict_emit_cases h with ⟨k', b, pl, -, -, -, -, -, -, -, rfl⟩ | ⟨k', b, pl, -, -, -, -, -, -, -, rfl⟩ | ⟨hk1, -⟩
  · exact ⟨_, rfl⟩
  · exact ⟨_, rfl⟩
  · rw [hk1] at hk; cases hk

theorem pk_afterWait (cm : ℚ) (pk : Option ℚ) : PkOK cfg (afterWait cfg cm pk).2.2 := by
  intro k hk
  simp [afterWait, hk]

theorem dt_of_wait (hgood : TwoRate.Good cfg) {id : Int} {dt cm : ℚ} {pk : Option ℚ}
    (h : verdictA size cfg a now id = .ok (.wait dt cm pk)) : 0 ≤ dt := by
  rcases verdict_wait_cases hgood h with ⟨k', b, pl, -, -, -, -, hd, rfl, -, -⟩ | ⟨-, -, hd, rfl, -, -⟩ <;> exact hd

/-- a step of the shaper that leaves the store alone: it sleeps -/
theorem ainv_sleep (hi : AInv cfg a q.time) (r : RPhase) (cm up : ℚ) (pk : Option ℚ) (hr : RunA a q.time r)
    (hdue : ∀ x ∈ r.entries, q.time ≤ x.time) (hpk : PkOK cfg pk) :
    AInv cfg { a with run := r, commit := cm, peak := pk, upd := up } q.time :=
  ⟨hr, hi.src, hi.pend, due_of_run hi _ rfl rfl hdue, hi.its, hi.good, hpk⟩

/-- the shaper forwards its packet and blocks on the empty store -/
theorem ainv_miss (hi : AInv cfg a q.time) (cm up : ℚ) (pk : Option ℚ) (sn : Int) (hit : a.items = []) (hpk : PkOK cfg pk) :
    AInv cfg { a with run := .W n q.time, commit := cm, peak := pk, upd := up, sent := sn } q.time :=
  ⟨⟨le_refl _, fun i h => (by rw [hit] at h; cases h), fun h => absurd hit h⟩, hi.src, hi.pend,
    due_of_run hi _ rfl rfl (by simp [RPhase.entries]), hi.its, hi.good, hpk⟩

/-- the shaper forwards its packet and takes the next one -/
theorem ainv_hit (hi : AInv cfg a q.time) (cm up : ℚ) (pk : Option ℚ) (sn : Int) {i : Int} {is : List Int}
    (hit : a.items = i :: is) (hpk : PkOK cfg pk) :
    AInv cfg { a with run := .H n i ⟨q.time, NORMAL, e, n⟩ q.time, items := is, commit := cm, peak := pk, upd := up,
                      sent := sn } q.time := by
  obtain ⟨h1, h2, h3⟩ := hi.its i (by rw [hit]; simp)
  refine ⟨⟨rfl, rfl, max_eq_left h3, h1, h2⟩, hi.src, hi.pend, due_of_run hi _ rfl rfl (by simp [RPhase.entries]), ?_,
    hi.good, hpk⟩
  intro j hj
  exact hi.its j (by rw [hit]; exact List.mem_cons_of_mem _ hj)

theorem mu_miss (r : RPhase) (hr : 1 ≤ r.mu) (hrun : a.run = r) (cm up : ℚ) (pk : Option ℚ) (sn : Int) :
    ({ a with run := RPhase.W n q.time, commit := cm, peak := pk, upd := up, sent := sn } : A).mu + 1 ≤ a.mu := by
  have h0 : (RPhase.W n q.time).mu = 0 := rfl
  rw [← hrun] at hr
  simp only [A.mu, h0]
  omega

theorem mu_hit (r : RPhase) (hr : 1 ≤ r.mu) (hrun : a.run = r) (cm up : ℚ) (pk : Option ℚ) (sn : Int) {i : Int}
    {is : List Int} (hit : a.items = i :: is) :
    ({ a with run := RPhase.H n i ⟨q.time, NORMAL, e, n⟩ q.time, items := is, commit := cm, peak := pk, upd := up,
              sent := sn } : A).mu + 1 ≤ a.mu := by
  have h0 : (RPhase.H n i ⟨q.time, NORMAL, e, n⟩ q.time).mu = 2 := rfl
  rw [← hrun] at hr
  simp only [A.mu, h0, hit, List.length_cons]
  omega

theorem ctOf_append (a : A) (x : ℚ) (id : Int) (h : id.toNat < a.cts.length) :
    ({ a with cts := a.cts ++ [x] } : A).ctOf id = a.ctOf id := by
  simp only [A.ctOf, List.getD_eq_getElem?_getD, List.getElem?_append_left h]

theorem ctOf_new (a : A) (x : ℚ) : ({ a with cts := a.cts ++ [x] } : A).ctOf (a.cts.length : Int) = x := by
  simp [A.ctOf, List.getD_eq_getElem?_getD]

theorem srcNext_ok (a' : A) (hg : GapsOK arr) (t : ℚ) (eid ev next : Nat) (hn : next = a'.cts.length) :
    SrcA a' t (srcNext t eid ev next arr) ∧ (∀ x ∈ (srcNext t eid ev next arr).entries, t ≤ x.time) ∧
    (srcNext t eid ev next arr).mu ≤ 5 * arr.length + 1 := by
  cases arr with
  | nil => exact ⟨⟨rfl, rfl⟩, by simp [srcNext, SPhase.entries], by simp [srcNext, SPhase.mu]⟩
  | cons gap r =>
    have h1 := hg gap (by simp)
    refine ⟨⟨rfl, fun y hy => hg y (List.mem_cons_of_mem _ hy), hn⟩, ?_, by simp [srcNext, SPhase.mu]; omega⟩
    simp only [srcNext, SPhase.entries, List.mem_singleton]
    rintro y rfl
    show t ≤ t + gap
    linarith

/-- **every configuration step is sound**: it keeps `AInv` and lowers the bound on the steps still to come -/
theorem astep_sound {a' : A} {new : List (HEv ℚ)} (hi0 : AInv cfg a now) (hq : IsMin a q)
    (hs : AStep size cfg n e a q a' new) : AInv cfg a' q.time ∧ a'.mu + 1 ≤ a.mu := by
  have hi := hi0.advance hq
  have hrun := hi.run
  cases hs with
  | runInit h =>
    rw [h] at hrun
    have := ainv_miss (n := n) hi a.commit a.upd a.peak a.sent hrun.2.2.1 hi.pk
    exact ⟨this, mu_miss (n := n) _ (by simp [RPhase.mu]) h _ _ _ _⟩
  | serveWait g id t0 dt cm pk h hdec =>
    rw [h] at hrun
    have hd := dt_of_wait hi.good hdec
    refine ⟨ainv_sleep hi _ _ _ _ ⟨rfl, hrun.2.2.2.1, hrun.2.2.2.2⟩
      (by simp only [RPhase.entries, List.mem_singleton]; rintro x rfl; show q.time ≤ q.time + _; linarith)
      (pk_of_wait hi.good hdec), ?_⟩
    simp only [A.mu, h, RPhase.mu]; omega
  | serveOutMiss g id t0 cm col pk h hdec hit =>
    exact ⟨ainv_miss hi _ _ _ _ hit (pk_of_emit hdec), mu_miss _ (by simp [RPhase.mu]) h _ _ _ _⟩
  | serveOutHit g id t0 cm col pk i is h hdec hit =>
    exact ⟨ainv_hit hi _ _ _ _ hit (pk_of_emit hdec), mu_hit _ (by simp [RPhase.mu]) h _ _ _ _ hit⟩
  | tokOutMiss t id h hit =>
    exact ⟨ainv_miss hi _ _ _ _ hit (pk_afterWait _ _), mu_miss _ (by simp [RPhase.mu]) h _ _ _ _⟩
  | tokOutHit t id i is h hit =>
    exact ⟨ainv_hit hi _ _ _ _ hit (pk_afterWait _ _), mu_hit _ (by simp [RPhase.mu]) h _ _ _ _ hit⟩
  | srcInit arr h =>
    have hs := hi.src
    rw [h] at hs
    obtain ⟨h1, h2, h3⟩ := srcNext_ok (arr := arr) { a with src := srcNext q.time e n 0 arr } hs.2.2.1 q.time e n 0
      (by simp [hs.2.2.2])
    refine ⟨⟨hi.run, h1, hi.pend, ?_, hi.its, hi.good, hi.pk⟩, ?_⟩
    · intro x hx
      simp only [A.entries, List.mem_append] at hx
      rcases hx with hx | hx | hx
      · exact hi.due x (mem_run hx)
      · exact h2 x hx
      · exact hi.due x (mem_pend hx)
    · have hm : (SPhase.init q arr).mu = 5 * arr.length + 2 := rfl
      simp only [A.mu, h, hm]; omega
  | srcPut next arr h =>
    have hs := hi.src
    rw [h] at hs
    obtain ⟨hqp, hgaps, hnext⟩ := hs
    obtain ⟨h1, h2, h3⟩ := srcNext_ok (arr := arr)
      { a with src := srcNext q.time (e + 1) (n + 1) (next + 1) arr, pend := a.pend ++ [⟨q.time, NORMAL, e, n⟩],
               items := a.items ++ [(next : Int)], cts := a.cts ++ [q.time] } hgaps q.time (e + 1) (n + 1) (next + 1)
      (by simp [hnext])
    have hct : ∀ id : Int, id.toNat < a.cts.length → ({ a with cts := a.cts ++ [q.time] } : A).ctOf id = a.ctOf id :=
      fun id hid => ctOf_append a q.time id hid
    have hnew : ({ a with cts := a.cts ++ [q.time] } : A).ctOf (next : Int) = q.time := by rw [hnext]; exact ctOf_new a q.time
    refine ⟨⟨?_, h1, ?_, ?_, ?_, hi.good, hi.pk⟩, ?_⟩
    · cases hr : a.run with
      | init q0 =>
        rw [hr] at hrun
        exact (hi.not_prio_lt hq (mem_run (by simp [hr, RPhase.entries])) hrun.1 (by rw [hrun.2.1, hqp]; decide)).elim
      | W g t0 =>
        rw [hr] at hrun
        refine ⟨hrun.1, ?_, fun _ => by simp⟩
        intro i hi'
        rcases List.mem_append.mp hi' with hi' | hi'
        · have := hi.its i hi'
          show ({ a with cts := a.cts ++ [q.time] } : A).ctOf i = q.time
          rw [hct i this.2.1]; exact hrun.2.1 i hi'
        · simp only [List.mem_singleton] at hi'
          rw [hi']; exact hnew
      | H g id q0 t0 =>
        rw [hr] at hrun
        obtain ⟨g1, g2, g3, g4, g5⟩ := hrun
        refine ⟨g1, g2, ?_, g4, by simp; omega⟩
        show max t0 (({ a with cts := a.cts ++ [q.time] } : A).ctOf id) = q.time
        rw [hct id g5]; exact g3
      | T1 t id q0 => rw [hr] at hrun; exact ⟨hrun.1, hrun.2.1, by simp; have := hrun.2.2; omega⟩
    · intro u hu
      rcases List.mem_append.mp hu with hu | hu
      · exact hi.pend u hu
      · simp only [List.mem_singleton] at hu; rw [hu]; exact ⟨rfl, rfl⟩
    · intro x hx
      simp only [A.entries, List.mem_append] at hx
      rcases hx with hx | hx | hx | hx
      · exact hi.due x (mem_run hx)
      · exact h2 x hx
      · exact hi.due x (mem_pend hx)
      · simp only [List.mem_singleton] at hx; rw [hx]
    · intro i hi'
      rcases List.mem_append.mp hi' with hi' | hi'
      · obtain ⟨g1, g2, g3⟩ := hi.its i hi'
        refine ⟨g1, by simp; omega, ?_⟩
        show ({ a with cts := a.cts ++ [q.time] } : A).ctOf i ≤ q.time
        rw [hct i g2]; exact g3
      · simp only [List.mem_singleton] at hi'
        subst hi'
        refine ⟨Int.natCast_nonneg _, by simp [hnext], ?_⟩
        show ({ a with cts := a.cts ++ [q.time] } : A).ctOf (next : Int) ≤ q.time
        rw [hnew]
    · have hm : (SPhase.wait next arr q).mu = 5 * arr.length + 6 := rfl
      simp only [A.mu, h, hm, List.length_append, List.length_singleton]; omega
  | srcEnd h =>
    refine ⟨⟨hi.run, trivial, hi.pend, ?_, hi.its, hi.good, hi.pk⟩, ?_⟩
    · intro x hx
      simp only [A.entries, List.mem_append, SPhase.entries, List.not_mem_nil, false_or] at hx
      rcases hx with hx | hx
      · exact hi.due x (mem_run hx)
      · exact hi.due x (mem_pend hx)
    · have hm : (SPhase.ending q).mu = 1 := rfl
      have hm' : SPhase.done.mu = 0 := rfl
      simp only [A.mu, h, hm, hm']; omega
  | pendNoop l1 l2 hpe hno =>
    have hsub : ∀ u ∈ l1 ++ l2, u ∈ a.pend := by
      intro u hu
      rw [hpe]
      rcases List.mem_append.mp hu with h | h
      · exact List.mem_append_left _ h
      · exact List.mem_append_right _ (List.mem_cons_of_mem _ h)
    refine ⟨⟨?_, hi.src, fun u hu => hi.pend u (hsub u hu), ?_, hi.its, hi.good, hi.pk⟩, ?_⟩
    · cases hr : a.run with
      | init q0 =>
        rw [hr] at hrun
        rw [hrun.2.2.2.1] at hpe
        simp at hpe
      | W g t0 =>
        rw [hr] at hrun
        have hit : a.items = [] := by
          by_contra hc
          exact hno ⟨⟨g, t0, hr⟩, hc⟩
        exact ⟨hrun.1, hrun.2.1, fun hc => absurd hit hc⟩
      | H g id q0 t0 => rw [hr] at hrun; exact hrun
      | T1 t id q0 => rw [hr] at hrun; exact hrun
    · intro x hx
      simp only [A.entries, List.mem_append] at hx
      rcases hx with hx | hx | hx
      · exact hi.due x (mem_run hx)
      · exact hi.due x (mem_src hx)
      · exact hi.due x (mem_pend (hsub x (List.mem_append.mpr hx)))
    · simp only [A.mu, hpe, List.length_append, List.length_cons]; omega
  | pendHand g t0 i is l1 l2 hpe h hit =>
    have hsub : ∀ u ∈ l1 ++ l2, u ∈ a.pend := by
      intro u hu
      rw [hpe]
      rcases List.mem_append.mp hu with h | h
      · exact List.mem_append_left _ h
      · exact List.mem_append_right _ (List.mem_cons_of_mem _ h)
    rw [h] at hrun
    obtain ⟨g1, g2, g3⟩ := hi.its i (by rw [hit]; simp)
    have hct := hrun.2.1 i (by rw [hit]; simp)
    refine ⟨⟨⟨rfl, rfl, by show max t0 (a.ctOf i) = q.time; rw [hct]; exact max_eq_right hrun.1, g1, g2⟩, hi.src, fun u hu => hi.pend u (hsub u hu), ?_, ?_,
      hi.good, hi.pk⟩, ?_⟩
    · intro x hx
      simp only [A.entries, List.mem_append, RPhase.entries, List.mem_singleton] at hx
      rcases hx with rfl | hx | hx
      · exact le_refl _
      · exact hi.due x (mem_src hx)
      · exact hi.due x (mem_pend (hsub x (List.mem_append.mpr hx)))
    · intro j hj
      exact hi.its j (by rw [hit]; exact List.mem_cons_of_mem _ hj)
    · simp only [A.mu, h, hpe, hit, RPhase.mu, List.length_append, List.length_cons]; omega

end TRK
