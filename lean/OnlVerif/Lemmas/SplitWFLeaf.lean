import OnlVerif.Lemmas.SplitWFDefs
import OnlVerif.Lemmas.OnceAccess
/-!
# Well-scoped states: monotonicity of the bound, and the leaf updates (C03, stage 3)

`SB I n s` is a pure bound ("every id mentioned in `s` is `< n`"): it is monotone in `n`, and every leaf update of the model
keeps it as long as the ids it writes are `< n`.
-/

variable {σ : Type}

namespace SplitWF

/-! ## monotonicity -/

theorem valBelow.mono {n m : Nat} {v : Val} (h : valBelow n v) (hnm : n ≤ m) : valBelow m v := by
  cases v <;> simp only [valBelow] at h ⊢
  case ev e => exact Nat.lt_of_lt_of_le h hnm
  case cv keys => intro k hk; exact Nat.lt_of_lt_of_le (h k hk) hnm
  case preempted b r res => exact ⟨fun p hp => Nat.lt_of_lt_of_le (h.1 p hp) hnm, Nat.lt_of_lt_of_le h.2 hnm⟩

theorem excBelow.mono {n m : Nat} {x : Exc} (h : excBelow n x) (hnm : n ≤ m) : excBelow m x :=
  fun v hv => (h v hv).mono hnm

theorem outBelow.mono {n m : Nat} {o : Outcome} (h : outBelow n o) (hnm : n ≤ m) : outBelow m o := by
  cases o with
  | ok v => exact valBelow.mono h hnm
  | fail x => exact excBelow.mono h hnm

theorem cbBelow.mono {n m : Nat} {cb : Cb} (h : cbBelow n cb) (hnm : n ≤ m) : cbBelow m cb := by
  cases cb <;> simp only [cbBelow] at h ⊢ <;> exact Nat.lt_of_lt_of_le h hnm

theorem kindBelow.mono {n m i : Nat} {k : Kind} (h : kindBelow n i k) (hnm : n ≤ m) : kindBelow m i k := by
  cases k <;> simp only [kindBelow] at h ⊢ <;> first | exact Nat.lt_of_lt_of_le h hnm | exact h

theorem reqBelow.mono {n m : Nat} {rq : ReqData ℚ} (h : reqBelow n rq) (hnm : n ≤ m) : reqBelow m rq :=
  ⟨fun p hp => Nat.lt_of_lt_of_le (h.1 p hp) hnm, Nat.lt_of_lt_of_le h.2 hnm⟩

theorem recBelow.mono {n m i : Nat} {r : EvRec ℚ} (h : recBelow n i r) (hnm : n ≤ m) : recBelow m i r :=
  ⟨h.kind.mono hnm, fun l hl cb hcb => (h.cbs l hl cb hcb).mono hnm, fun o ho => (h.out o ho).mono hnm,
    fun rq hrq => (h.req rq hrq).mono hnm⟩

theorem resBelow.mono {n m : Nat} {x : ResRec} (h : resBelow n x) (hnm : n ≤ m) : resBelow m x :=
  ⟨fun e he => Nat.lt_of_lt_of_le (h.putQ e he) hnm, fun e he => Nat.lt_of_lt_of_le (h.getQ e he) hnm,
    fun e he => Nat.lt_of_lt_of_le (h.users e he) hnm⟩

theorem resumeBelow.mono {n m : Nat} {r : Resume} (h : resumeBelow n r) (hnm : n ≤ m) : resumeBelow m r := by
  cases r with
  | start => trivial
  | value v => exact valBelow.mono h hnm
  | exc x => exact excBelow.mono h hnm

theorem replyBelow.mono {n m : Nat} {r : Reply} (h : replyBelow n r) (hnm : n ≤ m) : replyBelow m r := by
  cases r with
  | ev e => exact Nat.lt_of_lt_of_le h hnm
  | unit => trivial
  | err x => exact excBelow.mono h hnm
  | val v => exact valBelow.mono h hnm

theorem obsBelow.mono {n m : Nat} {o : Obs ℚ} (h : obsBelow n o) (hnm : n ≤ m) : obsBelow m o := by
  cases o <;> simp only [obsBelow] at h ⊢
  case resumed p r t => exact ⟨Nat.lt_of_lt_of_le h.1 hnm, h.2.mono hnm⟩
  case log p w v t => exact ⟨Nat.lt_of_lt_of_le h.1 hnm, h.2.mono hnm⟩
  case probe tag e o t => exact ⟨Nat.lt_of_lt_of_le h.1 hnm, h.2.mono hnm⟩
  case callErr p x t => exact ⟨Nat.lt_of_lt_of_le h.1 hnm, h.2.mono hnm⟩
  case ended p o t => exact ⟨Nat.lt_of_lt_of_le h.1 hnm, h.2.mono hnm⟩

theorem termBelow.mono {I : IdSt σ} {n m : Nat} {t : Term σ} (h : termBelow I n t) (hnm : n ≤ m) : termBelow I m t := by
  cases t with
  | yielded e st => exact ⟨Nat.lt_of_lt_of_le h.1 hnm, I.mono h.2 hnm⟩
  | returned v => exact valBelow.mono h hnm
  | raised x => exact excBelow.mono h hnm

variable {I : IdSt σ} {n : Nat} {s : KState ℚ σ}

theorem SB.mono {m : Nat} (h : SB I n s) (hnm : n ≤ m) : SB I m s where
  events i := (h.events i).mono hnm
  agenda q hq := Nat.lt_of_lt_of_le (h.agenda q hq) hnm
  procs pr hpr := ⟨Nat.lt_of_lt_of_le (h.procs pr hpr).1 hnm,
    fun t ht => Nat.lt_of_lt_of_le ((h.procs pr hpr).2.1 t ht) hnm, I.mono (h.procs pr hpr).2.2 hnm⟩
  active p hp := Nat.lt_of_lt_of_le (h.active p hp) hnm
  trace o ho := (h.trace o ho).mono hnm
  shared kv hkv := (h.shared kv hkv).mono hnm
  resources r := (h.resources r).mono hnm

theorem WS.of_le {s' : KState ℚ σ} (h : SB I n s') (hn : n ≤ s'.events.size) : WS I s' := h.mono hn

theorem recBelow_default (n i : Nat) : recBelow n i (default : EvRec ℚ) :=
  ⟨trivial, fun l hl => (by cases hl), fun o ho => (by cases ho), fun rq hrq => (by cases hrq)⟩

/-! ## simple values are below every bound -/

theorem excBelow_runtimeErr (n : Nat) (m : String) : excBelow n (runtimeErr m) := by
  intro v hv
  simp only [runtimeErr, List.mem_singleton] at hv
  subst hv; trivial

theorem excBelow_valueErr (n : Nat) (m : String) : excBelow n (valueErr m) := by
  intro v hv
  simp only [valueErr, List.mem_singleton] at hv
  subst hv; trivial

theorem excBelow_attrErr (n : Nat) : excBelow n attrErr := by
  intro v hv
  simp [attrErr] at hv

/-! ## leaf updates of the event table -/

theorem SB.setEv (h : SB I n s) (e : EvId) (r : EvRec ℚ) (hr : recBelow n e r) : SB I n (s.setEv e r) where
  events i := by
    rw [KState.ev_setEv]
    split
    · rename_i hc; rw [hc.1]; exact hr
    · exact h.events i
  agenda := h.agenda
  procs := h.procs
  active := h.active
  trace := h.trace
  shared := h.shared
  resources := h.resources

theorem SB.setOut (h : SB I n s) (e : EvId) (o : Outcome) (ho : outBelow n o) : SB I n (s.setOut e o) :=
  h.setEv e _ ⟨(h.events e).kind, (h.events e).cbs, fun o' ho' => by cases ho'; exact ho, (h.events e).req⟩

theorem SB.defuse (h : SB I n s) (e : EvId) : SB I n (s.defuse e) :=
  h.setEv e _ ⟨(h.events e).kind, (h.events e).cbs, (h.events e).out, (h.events e).req⟩

theorem SB.bumpCount (h : SB I n s) (e : EvId) : SB I n (s.bumpCount e) :=
  h.setEv e _ ⟨(h.events e).kind, (h.events e).cbs, (h.events e).out, (h.events e).req⟩

theorem SB.setUsage (h : SB I n s) (e : EvId) : SB I n (s.setUsage e) := by
  refine h.setEv e _ ⟨(h.events e).kind, (h.events e).cbs, (h.events e).out, ?_⟩
  intro rq hrq
  cases hq : (s.ev e).req with
  | none => simp only [hq, Option.map_none] at hrq; cases hrq
  | some rq0 =>
    simp only [hq, Option.map_some, Option.some.injEq] at hrq
    subst hrq
    exact (h.events e).req rq0 hq

theorem SB.eraseCb (h : SB I n s) (e : EvId) (cb : Cb) : SB I n (s.eraseCb e cb) := by
  refine h.setEv e _ ⟨(h.events e).kind, ?_, (h.events e).out, (h.events e).req⟩
  intro l hl cb' hcb'
  cases hc : (s.ev e).cbs with
  | none => simp only [hc, Option.map_none] at hl; cases hl
  | some l0 =>
    simp only [hc, Option.map_some, Option.some.injEq] at hl
    subst hl
    exact (h.events e).cbs l0 hc cb' (List.mem_of_mem_erase hcb')

theorem SB.addCb (h : SB I n s) (e : EvId) (cb : Cb) (hcb : cbBelow n cb) : SB I n (s.addCb e cb) := by
  unfold KState.addCb
  refine h.setEv e _ ⟨(h.events e).kind, ?_, (h.events e).out, (h.events e).req⟩
  intro l hl cb' hcb'
  cases hc : (s.ev e).cbs with
  | none => simp only [hc, Option.map_none] at hl; cases hl
  | some l0 =>
    simp only [hc, Option.map_some, Option.some.injEq] at hl
    subst hl
    rcases List.mem_append.mp hcb' with hm | hm
    · exact (h.events e).cbs l0 hc cb' hm
    · rw [List.mem_singleton] at hm; subst hm; exact hcb

/-- a fresh record at index `events.size` -/
theorem SB.newEv (h : SB I n s) (r : EvRec ℚ) (hr : recBelow n s.events.size r) : SB I n (s.newEv r).1 where
  events i := by
    rw [KState.ev_newEv]
    split
    · rename_i hc; rw [hc]; exact hr
    · exact h.events i
  agenda := h.agenda
  procs := h.procs
  active := h.active
  trace := h.trace
  shared := h.shared
  resources := h.resources

theorem SB.newLabelled (h : SB I n s) (r : EvRec ℚ) (hr : recBelow n s.events.size r) : SB I n (s.newLabelled r).1 where
  events i := by
    rw [KState.ev_newLabelled]
    split
    · rename_i hc; rw [hc]; exact ⟨hr.kind, hr.cbs, hr.out, hr.req⟩
    · exact h.events i
  agenda := h.agenda
  procs := h.procs
  active := h.active
  trace := h.trace
  shared := h.shared
  resources := h.resources

/-! ## agenda, trace, processes, resources, bookkeeping -/

theorem SB.schedule (h : SB I n s) (e : EvId) (p : Nat) (d : ℚ) (he : e < n) : SB I n (s.schedule e p d) where
  events := h.events
  agenda q hq := by
    rcases List.mem_cons.mp hq with rfl | hq
    · exact he
    · exact h.agenda q hq
  procs := h.procs
  active := h.active
  trace := h.trace
  shared := h.shared
  resources := h.resources

theorem SB.scheduleAt (h : SB I n s) (e : EvId) (p : Nat) (t : ℚ) (he : e < n) : SB I n (s.scheduleAt e p t) where
  events := h.events
  agenda q hq := by
    rcases List.mem_cons.mp hq with rfl | hq
    · exact he
    · exact h.agenda q hq
  procs := h.procs
  active := h.active
  trace := h.trace
  shared := h.shared
  resources := h.resources

theorem SB.trigger (h : SB I n s) (e : EvId) (o : Outcome) (he : e < n) (ho : outBelow n o) : SB I n (s.trigger e o) :=
  (h.setOut e o ho).schedule e _ _ he

theorem SB.emit (h : SB I n s) (o : Obs ℚ) (ho : obsBelow n o) : SB I n (s.emit o) where
  events := h.events
  agenda := h.agenda
  procs := h.procs
  active := h.active
  trace o' ho' := by
    have : o' ∈ s.trace.toList ++ [o] := by simpa [KState.emit] using ho'
    rcases List.mem_append.mp this with hm | hm
    · exact h.trace o' hm
    · rw [List.mem_singleton] at hm; subst hm; exact ho
  shared := h.shared
  resources := h.resources

theorem SB.setProc (h : SB I n s) (p : EvId) (r : ProcRec σ) (hp : p < n) (ht : ∀ t, r.target = some t → t < n)
    (hs : I.below n r.st) : SB I n (s.setProc p r) where
  events := h.events
  agenda := h.agenda
  procs pr hpr := by
    rcases List.mem_cons.mp hpr with rfl | hm
    · exact ⟨hp, ht, hs⟩
    · exact h.procs pr (List.mem_of_mem_filter hm)
  active := h.active
  trace := h.trace
  shared := h.shared
  resources := h.resources

theorem SB.withActive (h : SB I n s) (a : Option EvId) (ha : ∀ p, a = some p → p < n) :
    SB I n ({ s with active := a } : KState ℚ σ) where
  events := h.events
  agenda := h.agenda
  procs := h.procs
  active := ha
  trace := h.trace
  shared := h.shared
  resources := h.resources

theorem SB.withShared (h : SB I n s) (l : List (Nat × Val)) (hl : ∀ kv ∈ l, valBelow n kv.2) :
    SB I n ({ s with shared := l } : KState ℚ σ) where
  events := h.events
  agenda := h.agenda
  procs := h.procs
  active := h.active
  trace := h.trace
  shared := hl
  resources := h.resources

theorem SB.setRes (h : SB I n s) (r : ResId) (x : ResRec) (hx : resBelow n x) : SB I n (s.setRes r x) where
  events := h.events
  agenda := h.agenda
  procs := h.procs
  active := h.active
  trace := h.trace
  shared := h.shared
  resources r' := by
    rw [KState.res_setRes]
    split
    · exact hx
    · exact h.resources r'

theorem SB.setUsers (h : SB I n s) (r : ResId) (l : List EvId) (hl : ∀ e ∈ l, e < n) : SB I n (s.setUsers r l) :=
  h.setRes r _ ⟨(h.resources r).putQ, (h.resources r).getQ, hl⟩
theorem SB.setLevel (h : SB I n s) (r : ResId) (x : Int) : SB I n (s.setLevel r x) :=
  h.setRes r _ ⟨(h.resources r).putQ, (h.resources r).getQ, (h.resources r).users⟩
theorem SB.setItems (h : SB I n s) (r : ResId) (l : List Int) : SB I n (s.setItems r l) :=
  h.setRes r _ ⟨(h.resources r).putQ, (h.resources r).getQ, (h.resources r).users⟩
theorem SB.setPutQ (h : SB I n s) (r : ResId) (l : List EvId) (hl : ∀ e ∈ l, e < n) : SB I n (s.setPutQ r l) :=
  h.setRes r _ ⟨hl, (h.resources r).getQ, (h.resources r).users⟩
theorem SB.setGetQ (h : SB I n s) (r : ResId) (l : List EvId) (hl : ∀ e ∈ l, e < n) : SB I n (s.setGetQ r l) :=
  h.setRes r _ ⟨(h.resources r).putQ, hl, (h.resources r).users⟩

/-! ## reading ids back from a bounded state -/

theorem SB.reqOf (h : SB I n s) (e : EvId) (hn : 0 < n) : reqBelow n (reqOf s e) := by
  unfold _root_.reqOf
  cases hq : (s.ev e).req with
  | none => exact ⟨fun p hp => (by cases hp), hn⟩
  | some rq => exact (h.events e).req rq hq

theorem SB.out_below (h : SB I n s) (e : EvId) (o : Outcome) (ho : (s.ev e).out = some o) : outBelow n o :=
  (h.events e).out o ho

/-- an index whose record is not the default record is allocated -/
theorem lt_size_of_req (s : KState ℚ σ) (e : EvId) (rq : ReqData ℚ) (h : (s.ev e).req = some rq) : e < s.events.size := by
  apply Classical.byContradiction
  intro hc
  rw [Once.ev_default s e hc] at h
  cases h

end SplitWF
