import OnlVerif.Lemmas.TcpLiveRun
/-!
# Paths with delay: invariant and vocabulary (C16)

`TInv n L`: the loop invariant `LInv` of the untimed projection, one delivery instant per packet in flight, none in
the past.  Every step of `TLoop.TStep`/`TBStep` keeps it (each is a step of the untimed loop).
-/

open TcpScalar TcpSender TcpSink TcpLoop Sender

namespace TcpLive

variable {n : Nat}

/-! ## the clock moves only in `tick` -/

theorem step_now_eq {s s' : Sender ℚ} {a : Act ℚ} {outs : List (Tx ℚ)} (h : SInv n s) (hnt : ∀ t, a ≠ .tick t)
    (ha : ∀ x, a = .ack x → AckOk s x) (hs : s.step a = .ok s' outs) : s'.now = s.now := by
  cases a with
  | wake fuel => exact (wake_spec h hs).2.now
  | handoff => obtain ⟨_, _, rfl, _⟩ := handoff_spec hs; rfl
  | fire q => obtain ⟨_, _, _, _, _, _, _, rfl, _⟩ := fire_spec h.inv hs; rfl
  | tick t => exact absurd rfl (hnt t)
  | ack x =>
    cases ack_cases h.inv (ha x rfl) hs with
    | stale _ e1 _ => subst e1; rfl
    | early _ _ e1 _ => subst e1; rfl
    | dup _ _ _ _ _ _ _ e1 _ _ => subst e1; rfl
    | new _ _ _ e1 _ _ _ => subst e1; rfl

theorem drop_data_step {l l' : Loop ℚ} {i : Nat} (hs : l.step (.dropData i) = some l') :
    i < l.data.length ∧ l'.snd = l.snd ∧ l'.sink = l.sink ∧ l'.data = l.data.eraseIdx i ∧ l'.acks = l.acks := by
  unfold Loop.step at hs
  simp only at hs
  split_ifs at hs with hi
  injection hs with hs
  subst hs
  exact ⟨hi, rfl, rfl, rfl, rfl⟩

theorem drop_ack_step {l l' : Loop ℚ} {i : Nat} (hs : l.step (.dropAck i) = some l') :
    i < l.acks.length ∧ l'.snd = l.snd ∧ l'.sink = l.sink ∧ l'.data = l.data ∧ l'.acks = l.acks.eraseIdx i := by
  unfold Loop.step at hs
  simp only at hs
  split_ifs at hs with hi
  injection hs with hs
  subst hs
  exact ⟨hi, rfl, rfl, rfl, rfl⟩

/-! ## the invariant -/

structure TInv (n : Nat) (L : TLoop ℚ) : Prop where
  inv : LInv n L.l
  dlen : L.dT.length = L.l.data.length
  alen : L.aT.length = L.l.acks.length
  dge : ∀ d ∈ L.dT, L.l.snd.now ≤ d
  age : ∀ d ∈ L.aT, L.l.snd.now ≤ d

theorem TInv_init {s : Sender ℚ} (f : Fresh n s) : TInv n (TLoop.init s) :=
  ⟨LInv_init f, rfl, rfl, fun d hd => by simp [TLoop.init] at hd, fun d hd => by simp [TLoop.init] at hd⟩

theorem TInv_step {L L' : TLoop ℚ} (h : TInv n L) (hs : TLoop.TStep L L') : TInv n L' := by
  cases hs with
  | burst a ts hnt hst hlen hts =>
    have hi := LInv_step h.inv hst
    obtain ⟨s', outs, hack, hss, f1, f2, f3, f4⟩ := own_step hst
    have hnow : s'.now = L.l.snd.now :=
      step_now_eq h.inv.s hnt (fun x e => by subst e; simp [Loop.isAck] at hack) hss
    refine ⟨hi, by simp only [List.length_append]; exact hlen, by show L.aT.length = _; rw [f4]; exact h.alen, ?_, ?_⟩
    · intro d hd
      show _ ≤ d
      rcases List.mem_append.mp hd with e | e
      · rw [f1, hnow]; exact h.dge d e
      · exact hts d e
    · intro d hd
      show _ ≤ d
      rw [f1, hnow]; exact h.age d hd
  | tick t hst hlt hd ha _ =>
    have hi := LInv_step h.inv hst
    obtain ⟨s', outs, _, hss, f1, f2, f3, f4⟩ := own_step hst
    obtain ⟨_, _, _, _, rfl, rfl⟩ := tick_spec hss
    refine ⟨hi, ?_, ?_, ?_, ?_⟩
    · show L.dT.length = _
      rw [f3, List.append_nil]; exact h.dlen
    · show L.aT.length = _
      rw [f4]; exact h.alen
    · intro d hdm
      show _ ≤ d
      rw [f1]; exact hd d hdm
    · intro d hdm
      show _ ≤ d
      rw [f1]; exact ha d hdm
  | deliver t hst ht =>
    have hi := LInv_step h.inv hst
    obtain ⟨tx, rest, p, hd, _, f1, f2, f3, f4⟩ := deliver_step h.inv hst
    refine ⟨hi, ?_, ?_, ?_, ?_⟩
    · show L.dT.tail.length = _
      rw [f3, List.length_tail, h.dlen, hd]; simp
    · show (L.aT ++ [t]).length = _
      rw [f4]; simp [h.alen]
    · intro d hdm
      show _ ≤ d
      rw [f1]; exact h.dge d (List.mem_of_mem_tail hdm)
    · intro d hdm
      show _ ≤ d
      rw [f1]
      rcases List.mem_append.mp hdm with e | e
      · exact h.age d e
      · simp only [List.mem_singleton] at e; subst e; exact ht
  | ackArrive ts hst hlen hts =>
    have hi := LInv_step h.inv hst
    obtain ⟨x, rest, s', outs, hd, hss, f1, f2, f3, f4⟩ := ack_step hst
    have ox := h.inv.acks x (by rw [hd]; exact List.mem_cons_self)
    have hnow : s'.now = L.l.snd.now :=
      step_now_eq h.inv.s (fun t e => by cases e) (fun y e => by injection e with e; subst e; exact (ox.good h.inv).ok) hss
    refine ⟨hi, by simp only [List.length_append]; exact hlen, ?_, ?_, ?_⟩
    · show L.aT.tail.length = _
      rw [f4, List.length_tail, h.alen, hd]; simp
    · intro d hdm
      show _ ≤ d
      rcases List.mem_append.mp hdm with e | e
      · rw [f1, hnow]; exact h.dge d e
      · exact hts d e
    · intro d hdm
      show _ ≤ d
      rw [f1, hnow]; exact h.age d (List.mem_of_mem_tail hdm)

theorem TInv_bstep {x y : Nat × TLoop ℚ} (hb : TLoop.TBStep x y) (h : TInv n x.2) : TInv n y.2 := by
  cases hb with
  | step hs => exact TInv_step h hs
  | @dropData k L l' i hs =>
    have hi := LInv_step h.inv hs
    obtain ⟨hlt, f1, f2, f3, f4⟩ := drop_data_step hs
    refine ⟨hi, ?_, ?_, ?_, ?_⟩
    · show (L.dT.eraseIdx i).length = _
      rw [f3, List.length_eraseIdx, List.length_eraseIdx, h.dlen]
    · show L.aT.length = _
      rw [f4]; exact h.alen
    · intro d hdm
      show _ ≤ d
      rw [f1]; exact h.dge d (List.mem_of_mem_eraseIdx hdm)
    · intro d hdm
      show _ ≤ d
      rw [f1]; exact h.age d hdm
  | @dropAck k L l' i hs =>
    have hi := LInv_step h.inv hs
    obtain ⟨hlt, f1, f2, f3, f4⟩ := drop_ack_step hs
    refine ⟨hi, ?_, ?_, ?_, ?_⟩
    · show L.dT.length = _
      rw [f3]; exact h.dlen
    · show (L.aT.eraseIdx i).length = _
      rw [f4, List.length_eraseIdx, List.length_eraseIdx, h.alen]
    · intro d hdm
      show _ ≤ d
      rw [f1]; exact h.dge d hdm
    · intro d hdm
      show _ ≤ d
      rw [f1]; exact h.age d (List.mem_of_mem_eraseIdx hdm)

end TcpLive
