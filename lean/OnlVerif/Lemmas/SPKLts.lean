import OnlVerif.Lemmas.SPKRun
import OnlVerif.Lemmas.MultiQueueRun
import Mathlib.Algebra.BigOperators.Group.List.Basic
/-!
# The SP scheduler on the kernel model: every configuration step is accepted by the MultiQueueServer LTS

`toM a now` is the LTS state (`Net/MultiQueue.lean` with the record `SP.sched`) a configuration stands for.  For each
constructor of `AStep` the LTS accepts the corresponding action (`init`, `put`, `tokenHandoff`, `wake`, `pktResume`,
`sendInit`, `sendFire`, `sendDone`, or nothing) from `toM a` to `toM a'`; and the clock advance is an accepted `tick`.
-/

set_option linter.unusedSimpArgs false

namespace SPK
open SPOnK QEntry MQ

/-! ## Python dicts whose keys are the flows seen so far -/

section dict
variable {β : Type}

/-- the dict with keys `keys` (in this order) and values `g` -/
def dictOf (keys : List Nat) (g : Nat → β) : List (Nat × β) := keys.map fun f => (f, g f)

theorem lookup_dictOf (keys : List Nat) (g : Nat → β) (f : Nat) :
    MQ.lookup (dictOf keys g) f = if f ∈ keys then some (g f) else none := by
  induction keys with
  | nil => simp [dictOf, MQ.lookup]
  | cons k r ih =>
    simp only [dictOf, List.map_cons, MQ.lookup, List.mem_cons]
    by_cases hk : k = f
    · subst hk; simp
    · have : ¬ f = k := fun h => hk h.symm
      simp only [hk, if_false, this, false_or]
      exact ih

theorem addKey_cons_ne (k f : Nat) (r : List Nat) (h : k ≠ f) : addKey (k :: r) f = k :: addKey r f := by
  unfold addKey
  have : (k :: r).contains f = r.contains f := by
    simp only [List.contains_cons]
    have : (f == k) = false := by simpa using fun h' => h h'.symm
    simp [this]
  rw [this]
  split <;> rfl

theorem addKey_of_mem (keys : List Nat) (f : Nat) (h : f ∈ keys) : addKey keys f = keys := by
  unfold addKey
  simp [h]

theorem addKey_of_not_mem (keys : List Nat) (f : Nat) (h : f ∉ keys) : addKey keys f = keys ++ [f] := by
  unfold addKey
  simp [h]

theorem setKey_dictOf (keys : List Nat) (hn : keys.Nodup) (g : Nat → β) (f : Nat) (v : β) :
    MQ.setKey (dictOf keys g) f v = dictOf (addKey keys f) (upd g f v) := by
  induction keys with
  | nil => simp [dictOf, MQ.setKey, addKey]
  | cons k r ih =>
    have hk := List.nodup_cons.mp hn
    by_cases hkf : k = f
    · subst hkf
      rw [addKey_of_mem _ _ List.mem_cons_self]
      simp only [dictOf, List.map_cons, MQ.setKey, if_true, upd_same, List.cons.injEq, true_and]
      apply List.map_congr_left
      intro x hx
      have : x ≠ k := fun h => hk.1 (h ▸ hx)
      rw [upd_ne _ _ _ _ this]
    · rw [addKey_cons_ne _ _ _ hkf]
      simp only [dictOf, List.map_cons, MQ.setKey, hkf, if_false, upd_ne _ _ _ _ hkf, List.cons.injEq, true_and]
      exact ih hk.2

theorem bump_dictOf (keys : List Nat) (hn : keys.Nodup) (c : Nat → Int) (f : Nat) (d : Int) (h0 : f ∉ keys → c f = 0) :
    MQ.bump (dictOf keys c) f d = dictOf (addKey keys f) (upd c f (c f + d)) := by
  induction keys with
  | nil => simp [dictOf, MQ.bump, addKey, h0 (by simp)]
  | cons k r ih =>
    have hk := List.nodup_cons.mp hn
    by_cases hkf : k = f
    · subst hkf
      rw [addKey_of_mem _ _ List.mem_cons_self]
      simp only [dictOf, List.map_cons, MQ.bump, if_true, upd_same, List.cons.injEq, true_and]
      apply List.map_congr_left
      intro x hx
      have : x ≠ k := fun h => hk.1 (h ▸ hx)
      rw [upd_ne _ _ _ _ this]
    · rw [addKey_cons_ne _ _ _ hkf]
      simp only [dictOf, List.map_cons, MQ.bump, hkf, if_false, upd_ne _ _ _ _ hkf, List.cons.injEq, true_and]
      exact ih hk.2 (fun h => h0 (by simp [h, Ne.symm hkf]))

theorem total_dictOf (keys : List Nat) (c : Nat → Int) : MQ.total (dictOf keys c) = (keys.map c).sum := by
  induction keys with
  | nil => rfl
  | cons k r ih => simp only [dictOf, List.map_cons, MQ.total, List.sum_cons] at ih ⊢; rw [ih]

theorem sumFrom_succ_right (c : Nat → Int) : ∀ (n f : Nat), sumFrom c f (n + 1) = sumFrom c f n + c (f + n)
  | 0, f => by simp [sumFrom]
  | n + 1, f => by
    have := sumFrom_succ_right c n (f + 1)
    simp only [sumFrom] at this ⊢
    rw [this, show f + 1 + n = f + (n + 1) by omega]
    ring

/-- `sum(queue_count.values())` over the keys is the sum over all flows when the other counters are 0 -/
theorem total_eq (c : Nat → Int) : ∀ (F : Nat) (keys : List Nat), keys.Nodup → (∀ f ∈ keys, f < F) →
    (∀ f, f < F → f ∉ keys → c f = 0) → MQ.total (dictOf keys c) = sumFrom c 0 F
  | 0, keys, _, hlt, _ => by
    cases keys with
    | nil => rfl
    | cons k r => exact absurd (hlt k List.mem_cons_self) (Nat.not_lt_zero _)
  | F + 1, keys, hn, hlt, h0 => by
    rw [sumFrom_succ_right, Nat.zero_add]
    by_cases hF : F ∈ keys
    · have hp := List.perm_cons_erase hF
      have ih := total_eq c F (keys.erase F) (hn.erase F)
        (fun f hf => by
          have h1 := hlt f (List.mem_of_mem_erase hf)
          have h2 : f ≠ F := fun h => (List.Nodup.mem_erase_iff hn).mp hf |>.1 h
          omega)
        (fun f hf hne => h0 f (by omega) (fun h => hne ((List.Nodup.mem_erase_iff hn).mpr ⟨by omega, h⟩)))
      rw [total_dictOf] at ih ⊢
      rw [(hp.map c).sum_eq, List.map_cons, List.sum_cons, ih]
      ring
    · have ih := total_eq c F keys hn
        (fun f hf => by
          have h1 := hlt f hf
          have h2 : f ≠ F := fun h => hF (h ▸ hf)
          omega)
        (fun f hf hne => h0 f (by omega) hne)
      rw [ih, h0 F (by omega) hF]
      ring

end dict

/-! ## the LTS state of a configuration -/

section toM
variable (flow size : Int → Nat)

def ctlOf : RPhase → SP.Pc
  | .H _ i _ _ => .got i
  | .S _ _ _ => .sent
  | .T _ _ _ _ => .sent
  | .F _ _ _ => .sent
  | _ => .scan 0

def phaseOf : RPhase → Phase ℚ
  | .init _ => .idle
  | .W _ => .waitToken
  | .K _ _ => .tokenHanded
  | .H _ _ id _ => .pktHanded (flow id) (pktOf flow size id)
  | .S _ id _ => .spawned (pktOf flow size id)
  | .T _ _ id q => .sending (pktOf flow size id) q.time
  | .F _ id _ => .finished (pktOf flow size id)

/-- **the LTS state a configuration stands for** -/
def toM (a : A) (now : ℚ) : MQState ℚ SP.Pc :=
  { now := now
    ctl := ctlOf a.run
    stores := dictOf a.keys fun f => (a.items f).map (pktOf flow size)
    hol := []
    queueCount := dictOf a.keys a.cnt
    queueBytes := dictOf a.keys a.byt
    tokens := a.tokens
    phase := phaseOf flow size a.run
    currentPacket := a.cur.map (pktOf flow size)
    received := a.recv.toNat }

end toM

variable {F : Nat} {flow size : Int → Nat} {cfg : SP.Cfg ℚ}
variable {a : A} {now : ℚ} {q : QEntry ℚ}

theorem storeOf_toM (hi : AInv flow F cfg a now) (t : ℚ) (f : Nat) (hf : f < F) :
    storeOf (toM flow size a t).stores f = (a.items f).map (pktOf flow size) := by
  simp only [storeOf, lookupD, toM, lookup_dictOf]
  by_cases hk : f ∈ a.keys
  · simp [hk]
  · simp [hk, (hi.keysOK.2 f hf hk).1]

theorem total_toM (hi : AInv flow F cfg a now) (hn : a.keys.Nodup) (t : ℚ) :
    MQ.total (toM flow size a t).queueCount = a.total F :=
  total_eq a.cnt F a.keys hn hi.keysOK.1 (fun f hf hk => (hi.keysOK.2 f hf hk).2.1)

/-- a flow with a waiting or counted packet is a key -/
theorem mem_keys_of_items (hi : AInv flow F cfg a now) {f : Nat} (hf : f < F) (h : a.items f ≠ []) : f ∈ a.keys := by
  by_contra hk
  exact h (hi.keysOK.2 f hf hk).1

/-! ## the scan of the LTS loop -/

theorem touch_sp (s : MQState ℚ SP.Pc) : touch (SP.sched cfg) s = s := rfl
theorem sched_micro : (SP.sched cfg).micro = SP.micro cfg := rfl

/-- one move of the LTS loop of `SP` (no counter is read by name, so `touch` does nothing) -/
theorem settle_goto (n : Nat) (s : MQState ℚ SP.Pc) (k : SP.Pc) (h : SP.micro cfg s.ctl (view s) = .goto k) :
    settle (SP.sched cfg) (n + 1) s = settle (SP.sched cfg) n { s with ctl := k } := by
  simp only [settle, touch_sp, sched_micro, h]

theorem settle_get (n : Nat) (s : MQState ℚ SP.Pc) (c : Nat) (k : SP.Pc) (h : SP.micro cfg s.ctl (view s) = .get c k) :
    settle (SP.sched cfg) (n + 1) s = issueGet { s with ctl := k } c := by
  simp only [settle, touch_sp, sched_micro, h]

theorem settle_block (n : Nat) (s : MQState ℚ SP.Pc) (k : SP.Pc) (h : SP.micro cfg s.ctl (view s) = .block k) :
    settle (SP.sched cfg) (n + 1) s = .ok (blockOnToken { s with ctl := k }) := by
  simp only [settle, touch_sp, sched_micro, h]

/-- the `for` loop of the LTS (`SP.micro` under `settle`) from entry `i`: it stops at the first entry with a positive
priority and a non-empty store, or goes on to `endPass` -/
theorem settle_scan (ln : Nat → Nat) (m : Nat) : ∀ (suffix : List (Nat × Int)) (i : Nat) (s : MQState ℚ SP.Pc),
    (SP.table cfg).drop i = suffix → (∀ x ∈ suffix, (storeOf s.stores x.1).length = ln x.1) →
    settle (SP.sched cfg) (suffix.length + 1 + m) { s with ctl := .scan i } =
      match firstHit ln i suffix with
      | some (j, f) => issueGet { s with ctl := .got j } f
      | none => settle (SP.sched cfg) m { s with ctl := .endPass }
  | [], i, s, hd, _ => by
    have hnone : (SP.table cfg)[i]? = none := by
      rw [List.getElem?_eq_none_iff]
      exact List.drop_eq_nil_iff.mp hd
    simp only [List.length_nil, Nat.zero_add, firstHit]
    rw [show 1 + m = m + 1 by omega, settle_goto m _ .endPass (by simp only [SP.micro, hnone])]
  | (f, pr) :: rest, i, s, hd, hl => by
    have hsome : (SP.table cfg)[i]? = some (f, pr) := by
      have := congrArg List.head? hd
      simpa [List.head?_drop] using this
    have hd' : (SP.table cfg).drop (i + 1) = rest := by
      have := congrArg List.tail hd
      simpa [List.tail_drop] using this
    have ih := settle_scan ln m rest (i + 1) s hd' (fun x hx => hl x (List.mem_cons_of_mem _ hx))
    have hlen := hl (f, pr) List.mem_cons_self
    simp only [List.length_cons]
    rw [show rest.length + 1 + 1 + m = (rest.length + 1 + m) + 1 by omega]
    simp only [firstHit]
    by_cases hpr : 0 < pr
    · simp only [hpr, if_true]
      by_cases hz : ln f = 0
      · have : (storeOf s.stores f).length = 0 := by rw [hlen, hz]
        rw [settle_goto _ _ (.scan (i + 1)) (by simp only [SP.micro, hsome, view, hpr, if_true, this])]
        simp only [hz, if_true]
        exact ih
      · have : ¬ (storeOf s.stores f).length = 0 := by rw [hlen]; exact hz
        rw [settle_get _ _ f (.got i) (by simp only [SP.micro, hsome, view, hpr, if_true, this, if_false])]
        simp only [hz, if_false]
    · rw [settle_goto _ _ (.scan (i + 1)) (by simp only [SP.micro, hsome, hpr, if_false])]
      simp only [hpr, if_false]
      exact ih

/-! ## runs of the LTS -/

theorem length_insertDesc (x : Nat × Int) (l : List (Nat × Int)) : (SP.insertDesc x l).length = l.length + 1 := by
  induction l with
  | nil => rfl
  | cons b r ih =>
    simp only [SP.insertDesc]
    split
    · simp [ih]
    · simp

theorem length_table : (SP.table cfg).length = cfg.prios.length := by
  unfold SP.table
  induction cfg.prios with
  | nil => rfl
  | cons x r ih => simp [SP.sortDesc, length_insertDesc, ih]

/-- accepted runs compose -/
theorem runActs_append (sc : Sched ℚ SP.Pc) (as bs : List (MAct ℚ)) (s s1 s2 : MQState ℚ SP.Pc)
    (i1 o1 i2 o2 : List MPkt) (h1 : runActs sc s as = .ok (s1, i1, o1)) (h2 : runActs sc s1 bs = .ok (s2, i2, o2)) :
    runActs sc s (as ++ bs) = .ok (s2, i1 ++ i2, o1 ++ o2) := by
  induction as generalizing s i1 o1 with
  | nil =>
    simp only [runActs, Except.ok.injEq, Prod.mk.injEq] at h1
    obtain ⟨rfl, rfl, rfl⟩ := h1
    simpa using h2
  | cons x xs ih =>
    simp only [runActs, List.cons_append] at h1 ⊢
    split at h1
    · cases h1
    · rename_i s' o hst
      split at h1
      · cases h1
      · rename_i s'' ins outs hr
        simp only [Except.ok.injEq, Prod.mk.injEq] at h1
        obtain ⟨rfl, rfl, rfl⟩ := h1
        rw [ih s' ins outs hr]
        simp

/-- what the LTS side of a configuration step delivers: an accepted action sequence into the new configuration's LTS
state, with the packets that entered and left -/
def LtsOK (flow size : Int → Nat) (cfg : SP.Cfg ℚ) (a : A) (t : ℚ) (a' : A) (ins outs : List MPkt) : Prop :=
  ∃ acts, runActs (SP.sched cfg) (toM flow size a t) acts = .ok (toM flow size a' t, ins, outs)

theorem ltsOK_nothing {a' : A} {t : ℚ} (h : toM flow size a' t = toM flow size a t) : LtsOK flow size cfg a t a' [] [] :=
  ⟨[], by rw [h]; rfl⟩

/-- the packet an action brings in / an output sends out -/
def insOf : MAct ℚ → List MPkt
  | .put p => [p]
  | _ => []
def outOf : MOut ℚ → List MPkt
  | .depart p => [p]
  | _ => []

theorem ltsOK_one {a' : A} {t : ℚ} (act : MAct ℚ) (o : MOut ℚ)
    (h : MQ.step (SP.sched cfg) (toM flow size a t) act = .ok (toM flow size a' t, o)) :
    LtsOK flow size cfg a t a' (insOf act) (outOf o) := by
  refine ⟨[act], ?_⟩
  simp only [runActs, h]
  cases act <;> cases o <;> rfl

/-! ### the three ways a burst of the loop ends -/

/-- the loop, scanning from the top with enough fuel -/
theorem settle_top (hi : AInv flow F cfg a now) (S : MQState ℚ SP.Pc) (t : ℚ) (hst : S.stores = (toM flow size a t).stores)
    (m : Nat) :
    settle (SP.sched cfg) (cfg.prios.length + 1 + m) { S with ctl := .scan 0 } =
      match a.scan (SP.table cfg) with
      | some (j, f) => issueGet { S with ctl := .got j } f
      | none => settle (SP.sched cfg) m { S with ctl := .endPass } := by
  rw [← length_table]
  exact settle_scan (fun f => (a.items f).length) m (SP.table cfg) 0 S (by simp) (fun x hx => by
    rw [hst, storeOf_toM hi t x.1 (table_lt hi.table x hx)]
    simp)

theorem upd_map (items : Nat → List Int) (f : Nat) (is : List Int) (g : Int → MPkt) :
    upd (fun f' => (items f').map g) f (is.map g) = fun f' => (upd items f is f').map g := by
  funext f'
  by_cases h : f' = f
  · subst h; simp
  · simp [upd_ne _ _ _ _ h]

variable {n e : Nat} {t : ℚ}

/-- the loop takes the head of `stores[f]` -/
theorem issueGet_toM (hi : AInv flow F cfg a now) (hn : a.keys.Nodup) {i f : Nat} {id : Int} {is : List Int} (hf : f < F)
    (hit : a.items f = id :: is) (q' : QEntry ℚ) (g : EvId) :
    issueGet { toM flow size a t with phase := .running, ctl := .got i } f =
      .ok (toM flow size { a with run := .H g i id q', items := upd a.items f is } t) := by
  have hfl : flow id = f := hi.flowOK f hf id (by rw [hit]; simp)
  have hk : f ∈ a.keys := mem_keys_of_items hi hf (by rw [hit]; simp)
  have hs : storeOf (toM flow size a t).stores f = pktOf flow size id :: is.map (pktOf flow size) := by
    rw [storeOf_toM hi t f hf, hit]; rfl
  have hs' : storeOf ({ toM flow size a t with phase := Phase.running, ctl := SP.Pc.got i } : MQState ℚ SP.Pc).stores f =
      pktOf flow size id :: is.map (pktOf flow size) := hs
  simp only [issueGet, hs']
  congr 1
  simp only [toM, ctlOf, phaseOf, hfl, setKey_dictOf _ hn, addKey_of_mem _ _ hk, upd_map]

/-- the loop blocks on the wake-up store or takes a token that is there -/
theorem blockOnToken_toM_zero (htk : a.tokens = 0) (g : EvId) (c : Option Int) :
    blockOnToken { toM flow size a t with phase := .running, ctl := .scan 0 } = toM flow size { a with run := .W g } t := by
  simp only [blockOnToken, toM, htk, ctlOf, phaseOf]

theorem blockOnToken_toM_succ {k : Nat} (htk : a.tokens = k + 1) (g : EvId) (q' : QEntry ℚ) :
    blockOnToken { toM flow size a t with phase := .running, ctl := .scan 0 } =
      toM flow size { a with run := .K g q', tokens := k } t := by
  simp only [blockOnToken, toM, htk, ctlOf, phaseOf]

/-- at `if self.total_packets == 0`: the burst ends by blocking / taking a token, or goes on scanning from the top -/
theorem settle_endPass_zero (hi : AInv flow F cfg a now) (hn : a.keys.Nodup) (htot : a.total F = 0) (m : Nat) :
    settle (SP.sched cfg) (m + 1) { toM flow size a t with phase := .running, ctl := .endPass } =
      .ok (blockOnToken { toM flow size a t with phase := .running, ctl := .scan 0 }) := by
  have ht : MQ.total ({ toM flow size a t with phase := Phase.running, ctl := SP.Pc.endPass } : MQState ℚ SP.Pc).queueCount = 0 := by
    show MQ.total (toM flow size a t).queueCount = 0
    rw [total_toM hi hn t, htot]
  rw [settle_block m _ (.scan 0) (by simp only [SP.micro, view, ht, if_true])]

theorem settle_endPass_pos (hi : AInv flow F cfg a now) (hn : a.keys.Nodup) (htot : a.total F ≠ 0) (m : Nat) :
    settle (SP.sched cfg) (m + 1) { toM flow size a t with phase := .running, ctl := .endPass } =
      settle (SP.sched cfg) m { toM flow size a t with phase := .running, ctl := .scan 0 } := by
  have ht : ¬ MQ.total ({ toM flow size a t with phase := Phase.running, ctl := SP.Pc.endPass } : MQState ℚ SP.Pc).queueCount = 0 := by
    show ¬ MQ.total (toM flow size a t).queueCount = 0
    rw [total_toM hi hn t]; exact htot
  rw [settle_goto m _ (.scan 0) (by simp only [SP.micro, view, ht, if_false])]

/-- the scan from the top of a running loop -/
theorem settle_scan0 (hi : AInv flow F cfg a now) (m : Nat) :
    settle (SP.sched cfg) (cfg.prios.length + 1 + m) { toM flow size a t with phase := .running, ctl := .scan 0 } =
      match a.scan (SP.table cfg) with
      | some (j, f) => issueGet { toM flow size a t with phase := .running, ctl := .got j } f
      | none => settle (SP.sched cfg) m { toM flow size a t with phase := .running, ctl := .endPass } :=
  settle_top hi { toM flow size a t with phase := .running } t rfl m

/-- the history events of a step as LTS inputs / outputs -/
def putPk (flow size : Int → Nat) : List (HEv ℚ) → List MPkt
  | [] => []
  | .put id _ :: r => pktOf flow size id :: putPk flow size r
  | _ :: r => putPk flow size r

def outPk (flow size : Int → Nat) : List (HEv ℚ) → List MPkt
  | [] => []
  | .out id _ :: r => pktOf flow size id :: outPk flow size r
  | _ :: r => outPk flow size r

theorem txTime_eq (id : Int) : MQ.txTime (SP.sched cfg) (pktOf flow size id) = SPOnK.txTime size cfg.rate id := rfl

/-- **every configuration step is accepted by the LTS** -/
theorem lts_step {a' : A} {new : List (HEv ℚ)} (hi : AInv flow F cfg a q.time) (hn : a.keys.Nodup) (hrecv : 0 ≤ a.recv)
    (hs : AStep F flow size cfg n e a q a' new) :
    LtsOK flow size cfg a q.time a' (putPk flow size new) (outPk flow size new) := by
  have hrun := hi.run
  have hfuel : 2 * cfg.prios.length + 6 = cfg.prios.length + 1 + (cfg.prios.length + 4 + 1) := by omega
  have hfuel' : 2 * cfg.prios.length + 6 = (cfg.prios.length + 1 + (cfg.prios.length + 3 + 1)) + 1 := by omega
  cases hs with
  | runInit h =>
    rw [h] at hrun
    obtain ⟨-, -, htk, -, hit, hcn, -⟩ := hrun
    have hscan : a.scan (SP.table cfg) = none := firstHit_all_zero _ (fun f => by simp [hit f]) _ _
    have htot : a.total F = 0 := sumFrom_all_zero _ _ _ (fun j _ _ => hcn j)
    refine ltsOK_one .init .nothing ?_
    have hph : (toM flow size a q.time).phase = .idle := by simp [toM, phaseOf, h]
    have hctl : ({ toM flow size a q.time with phase := Phase.running } : MQState ℚ SP.Pc) =
        { toM flow size a q.time with phase := .running, ctl := .scan 0 } := by simp [toM, ctlOf, h]
    simp only [MQ.step, hph, resumeLoop, SP.sched, hctl]
    show withOut _ (settle (SP.sched cfg) (2 * cfg.prios.length + 6) _) = _
    rw [hfuel, settle_scan0 hi, hscan]
    simp only
    rw [settle_endPass_zero hi hn htot, blockOnToken_toM_zero htk n none]
    rfl
  | wakeHit g i f id is h hs hf hit =>
    refine ltsOK_one .wake .nothing ?_
    have hph : (toM flow size a q.time).phase = .tokenHanded := by simp [toM, phaseOf, h]
    have hctl : ({ toM flow size a q.time with phase := Phase.running } : MQState ℚ SP.Pc) =
        { toM flow size a q.time with phase := .running, ctl := .scan 0 } := by simp [toM, ctlOf, h]
    simp only [MQ.step, hph, resumeLoop, SP.sched, hctl]
    show withOut _ (settle (SP.sched cfg) (2 * cfg.prios.length + 6) _) = _
    rw [hfuel, settle_scan0 hi, hs]
    simp only
    rw [issueGet_toM hi hn hf hit]
    rfl
  | wakeBlock g h hs htk =>
    have htot : a.total F = 0 := total_zero_of_empty hi (by simp [h, RPhase.held]) (scan_none_empty hi hs)
    refine ltsOK_one .wake .nothing ?_
    have hph : (toM flow size a q.time).phase = .tokenHanded := by simp [toM, phaseOf, h]
    have hctl : ({ toM flow size a q.time with phase := Phase.running } : MQState ℚ SP.Pc) =
        { toM flow size a q.time with phase := .running, ctl := .scan 0 } := by simp [toM, ctlOf, h]
    simp only [MQ.step, hph, resumeLoop, SP.sched, hctl]
    show withOut _ (settle (SP.sched cfg) (2 * cfg.prios.length + 6) _) = _
    rw [hfuel, settle_scan0 hi, hs]
    simp only
    rw [settle_endPass_zero hi hn htot, blockOnToken_toM_zero htk n none]
    rfl
  | wakeTok g t h hs htk =>
    have htot : a.total F = 0 := total_zero_of_empty hi (by simp [h, RPhase.held]) (scan_none_empty hi hs)
    refine ltsOK_one .wake .nothing ?_
    have hph : (toM flow size a q.time).phase = .tokenHanded := by simp [toM, phaseOf, h]
    have hctl : ({ toM flow size a q.time with phase := Phase.running } : MQState ℚ SP.Pc) =
        { toM flow size a q.time with phase := .running, ctl := .scan 0 } := by simp [toM, ctlOf, h]
    simp only [MQ.step, hph, resumeLoop, SP.sched, hctl]
    show withOut _ (settle (SP.sched cfg) (2 * cfg.prios.length + 6) _) = _
    rw [hfuel, settle_scan0 hi, hs]
    simp only
    rw [settle_endPass_zero hi hn htot, blockOnToken_toM_succ htk n _]
    rfl
  | pktResume g i id h =>
    refine ltsOK_one .pktResume .nothing ?_
    have hph : (toM flow size a q.time).phase = .pktHanded (flow id) (pktOf flow size id) := by simp [toM, phaseOf, h]
    have hc : (toM flow size a q.time).ctl = .got i := by simp [toM, ctlOf, h]
    simp only [MQ.step, hph, doPktResume, SP.sched, SP.onPkt, hc, spawn]
    simp only [toM, ctlOf, phaseOf, h, Bool.false_eq_true, if_false]
  | sendInit p id h =>
    refine ltsOK_one .sendInit (.started (pktOf flow size id) (q.time + SPOnK.txTime size cfg.rate id)) ?_
    have hph : (toM flow size a q.time).phase = .spawned (pktOf flow size id) := by simp [toM, phaseOf, h]
    simp only [MQ.step, hph, txTime_eq]
    simp only [toM, ctlOf, phaseOf, h, Option.map_some]
  | sendFire p t id h =>
    rw [h] at hrun
    obtain ⟨-, hcur, hfid⟩ := hrun
    have hheld : a.run.held = some id := by simp [h, RPhase.held]
    have hk : flow id ∈ a.keys := by
      by_contra hk
      have h1 := (hi.keysOK.2 _ hfid hk).2.1
      have h2 := hi.cntOK _ hfid
      simp only [heldCnt, hheld, if_true] at h2
      omega
    have hdue : q.time = (⟨q.time, NORMAL, e, p⟩ : QEntry ℚ).time := rfl
    have hq : a.run = .T p t id q := h
    refine ltsOK_one .sendFire (.depart (pktOf flow size id)) ?_
    have hph : (toM flow size a q.time).phase = .sending (pktOf flow size id) q.time := by simp [toM, phaseOf, h]
    have hnow : (toM flow size a q.time).now = q.time := rfl
    simp only [MQ.step, hph, hnow, lt_irrefl, if_false, countOut]
    simp only [toM, ctlOf, phaseOf, h, pktOf, bump_dictOf _ hn _ _ _ (fun h0 => absurd hk h0), addKey_of_mem _ _ hk, Option.map_none]
  | doneHit p id0 i f id is h htot hs hf hit =>
    refine ltsOK_one .sendDone .nothing ?_
    have hph : (toM flow size a q.time).phase = .finished (pktOf flow size id0) := by simp [toM, phaseOf, h]
    have hc : (toM flow size a q.time).ctl = .sent := by simp [toM, ctlOf, h]
    simp only [MQ.step, hph, doSendDone, SP.sched, SP.onDone, hc, resumeLoop]
    show withOut _ (settle (SP.sched cfg) (2 * cfg.prios.length + 6) _) = _
    rw [hfuel', settle_endPass_pos hi hn htot, settle_scan0 hi, hs]
    simp only
    rw [issueGet_toM hi hn hf hit]
    rfl
  | doneBlock p id0 h htot htk =>
    refine ltsOK_one .sendDone .nothing ?_
    have hph : (toM flow size a q.time).phase = .finished (pktOf flow size id0) := by simp [toM, phaseOf, h]
    have hc : (toM flow size a q.time).ctl = .sent := by simp [toM, ctlOf, h]
    simp only [MQ.step, hph, doSendDone, SP.sched, SP.onDone, hc, resumeLoop]
    show withOut _ (settle (SP.sched cfg) (2 * cfg.prios.length + 6) _) = _
    rw [hfuel', settle_endPass_zero hi hn htot, blockOnToken_toM_zero htk n none]
    rfl
  | doneTok p id0 t h htot htk =>
    refine ltsOK_one .sendDone .nothing ?_
    have hph : (toM flow size a q.time).phase = .finished (pktOf flow size id0) := by simp [toM, phaseOf, h]
    have hc : (toM flow size a q.time).ctl = .sent := by simp [toM, ctlOf, h]
    simp only [MQ.step, hph, doSendDone, SP.sched, SP.onDone, hc, resumeLoop]
    show withOut _ (settle (SP.sched cfg) (2 * cfg.prios.length + 6) _) = _
    rw [hfuel', settle_endPass_zero hi hn htot, blockOnToken_toM_succ htk n _]
    rfl
  | srcInit arr h => exact ltsOK_nothing rfl
  | srcPutTok id arr h htot =>
    have hs := hi.src
    rw [h] at hs
    obtain ⟨-, ⟨hfid, -⟩, -⟩ := hs
    have hst := storeOf_toM (size := size) hi q.time (flow id) hfid
    have h0c : flow id ∉ a.keys → a.cnt (flow id) = 0 := fun hk => (hi.keysOK.2 _ hfid hk).2.1
    have h0b : flow id ∉ a.keys → a.byt (flow id) = 0 := fun hk => (hi.keysOK.2 _ hfid hk).2.2
    have hrc : (a.recv + 1).toNat = a.recv.toNat + 1 := by omega
    have hnd' : (addKey a.keys (flow id)).Nodup := by
      by_cases hk : flow id ∈ a.keys
      · rw [addKey_of_mem _ _ hk]; exact hn
      · rw [addKey_of_not_mem _ _ hk]
        exact List.nodup_append.mpr ⟨hn, by simp, by
          intro x hx y hy hxy
          simp only [List.mem_singleton] at hy
          exact hk (hy ▸ hxy ▸ hx)⟩
    have hkm : flow id ∈ addKey a.keys (flow id) := (mem_addKey _ _ _).mpr (Or.inr rfl)
    show LtsOK flow size cfg a q.time _ (insOf (.put (pktOf flow size id))) (outOf .accepted)
    refine ltsOK_one (.put (pktOf flow size id)) .accepted ?_
    have ht : MQ.total (toM flow size a q.time).queueCount = 0 := by rw [total_toM hi hn]; exact htot
    have ht' : MQ.total ({ toM flow size a q.time with ctl := (toM flow size a q.time).ctl } : MQState ℚ SP.Pc).queueCount = 0 := ht
    have hst' : storeOf (dictOf a.keys fun f => List.map (pktOf flow size) (a.items f)) (flow id) =
        List.map (pktOf flow size) (a.items (flow id)) := hst
    simp only [MQ.step, MQ.doPut, SP.sched, postToken, ht', if_true, countIn, enqueue]
    simp only [toM, pktOf, hst', setKey_dictOf _ hn, bump_dictOf _ hn _ _ _ h0c, bump_dictOf _ hn _ _ _ h0b, hrc]
    congr 3
    rw [← upd_map]
    simp [pktOf]
  | srcPutPlain id arr h htot =>
    have hs := hi.src
    rw [h] at hs
    obtain ⟨-, ⟨hfid, -⟩, -⟩ := hs
    have hst := storeOf_toM (size := size) hi q.time (flow id) hfid
    have h0c : flow id ∉ a.keys → a.cnt (flow id) = 0 := fun hk => (hi.keysOK.2 _ hfid hk).2.1
    have h0b : flow id ∉ a.keys → a.byt (flow id) = 0 := fun hk => (hi.keysOK.2 _ hfid hk).2.2
    have hrc : (a.recv + 1).toNat = a.recv.toNat + 1 := by omega
    have hnd' : (addKey a.keys (flow id)).Nodup := by
      by_cases hk : flow id ∈ a.keys
      · rw [addKey_of_mem _ _ hk]; exact hn
      · rw [addKey_of_not_mem _ _ hk]
        exact List.nodup_append.mpr ⟨hn, by simp, by
          intro x hx y hy hxy
          simp only [List.mem_singleton] at hy
          exact hk (hy ▸ hxy ▸ hx)⟩
    have hkm : flow id ∈ addKey a.keys (flow id) := (mem_addKey _ _ _).mpr (Or.inr rfl)
    show LtsOK flow size cfg a q.time _ (insOf (.put (pktOf flow size id))) (outOf .accepted)
    refine ltsOK_one (.put (pktOf flow size id)) .accepted ?_
    have ht : ¬ MQ.total (toM flow size a q.time).queueCount = 0 := by rw [total_toM hi hn]; exact htot
    have ht' : ¬ MQ.total ({ toM flow size a q.time with ctl := (toM flow size a q.time).ctl } : MQState ℚ SP.Pc).queueCount = 0 := ht
    have hst' : storeOf (dictOf a.keys fun f => List.map (pktOf flow size) (a.items f)) (flow id) =
        List.map (pktOf flow size) (a.items (flow id)) := hst
    simp only [MQ.step, MQ.doPut, SP.sched, postToken, ht', if_false, countIn, enqueue]
    simp only [toM, pktOf, hst', setKey_dictOf _ hn, bump_dictOf _ hn _ _ _ h0c, bump_dictOf _ hn _ _ _ h0b, hrc]
    congr 3
    rw [← upd_map]
    simp [pktOf]
  | srcEnd h => exact ltsOK_nothing rfl
  | pendNoop r l1 l2 hpe hno => exact ltsOK_nothing rfl
  | pendHand g t l1 l2 hpe h htk =>
    refine ltsOK_one .tokenHandoff .nothing ?_
    have hph : (toM flow size a q.time).phase = .waitToken := by simp [toM, phaseOf, h]
    have htk' : (toM flow size a q.time).tokens = t + 1 := htk
    simp only [MQ.step, hph, htk']
    simp only [toM, ctlOf, phaseOf, h]

/-! ## the clock -/

/-- the LTS accepts the clock advance to the next entry -/
theorem lts_tick (hi : AInv flow F cfg a now) (hq : IsMin a q) (h : now < q.time) :
    MQ.step (SP.sched cfg) (toM flow size a now) (.tick q.time) = .ok (toM flow size a q.time, .nothing) := by
  have hne : ∀ x ∈ a.entries, x.time ≠ now := fun x hx hxt => absurd (hi.time_eq hq hx hxt) (ne_of_gt h)
  have hp := hi.run
  have hnlt : ¬ q.time < now := not_lt.mpr (le_of_lt h)
  cases hr : a.run with
  | init q0 => rw [hr] at hp; exact absurd hp.1 (hne q0 (mem_run (by simp [hr, RPhase.entries])))
  | K g q0 => rw [hr] at hp; exact absurd hp.1 (hne q0 (mem_run (by simp [hr, RPhase.entries])))
  | H g i id q0 => rw [hr] at hp; exact absurd hp.1 (hne q0 (mem_run (by simp [hr, RPhase.entries])))
  | S p id q0 => rw [hr] at hp; exact absurd hp.1 (hne q0 (mem_run (by simp [hr, RPhase.entries])))
  | F p id q0 => rw [hr] at hp; exact absurd hp.1 (hne q0 (mem_run (by simp [hr, RPhase.entries])))
  | T p t id q0 =>
    have h2 : ¬ q0.time < q.time := not_lt.mpr (not_keyLt_time (hq.2 q0 (mem_run (by simp [hr, RPhase.entries]))))
    simp [MQ.step, doTick, toM, phaseOf, ctlOf, hr, hnlt, h2]
  | W g =>
    rw [hr] at hp
    have htk : a.tokens = 0 := by
      by_contra hc
      obtain ⟨u, hu⟩ := hp.2.1 hc
      exact hne u (mem_pend hu) (hi.pend _ hu).1
    simp [MQ.step, doTick, toM, phaseOf, ctlOf, hr, hnlt, htk]

/-- zero or one `tick` brings the LTS to the instant of the next entry -/
theorem lts_advance (hi : AInv flow F cfg a now) (hq : IsMin a q) :
    ∃ acts, runActs (SP.sched cfg) (toM flow size a now) acts = .ok (toM flow size a q.time, [], []) := by
  rcases eq_or_lt_of_le (hi.now_le hq) with h | h
  · exact ⟨[], by rw [← h]; rfl⟩
  · refine ⟨[.tick q.time], ?_⟩
    simp only [runActs, lts_tick hi hq h]
    rfl

/-! ## what the LTS side needs of a configuration besides `AInv`: the dict keys and `packets_received` -/

/-- the ids handed to `put` so far -/
def putIds : List (HEv ℚ) → List Int
  | [] => []
  | .put id _ :: r => id :: putIds r
  | _ :: r => putIds r

theorem putIds_append (l1 l2 : List (HEv ℚ)) : putIds (l1 ++ l2) = putIds l1 ++ putIds l2 := by
  induction l1 with
  | nil => rfl
  | cons x r ih => cases x <;> simp [putIds, ih]

theorem putPk_append (l1 l2 : List (HEv ℚ)) : putPk flow size (l1 ++ l2) = putPk flow size l1 ++ putPk flow size l2 := by
  induction l1 with
  | nil => rfl
  | cons x r ih => cases x <;> simp [putPk, ih]

theorem outPk_append (l1 l2 : List (HEv ℚ)) : outPk flow size (l1 ++ l2) = outPk flow size l1 ++ outPk flow size l2 := by
  induction l1 with
  | nil => rfl
  | cons x r ih => cases x <;> simp [outPk, ih]

structure LInv (flow : Int → Nat) (a : A) (hist : List (HEv ℚ)) : Prop where
  keys : a.keys = keysOf flow (putIds hist)
  recv : a.recv = ((putIds hist).length : Nat)

theorem keysOf_append (ids : List Int) (id : Int) : keysOf flow (ids ++ [id]) = addKey (keysOf flow ids) (flow id) := by
  simp [keysOf, List.foldl_append]

theorem addKey_nodup (l : List Nat) (k : Nat) (h : l.Nodup) : (addKey l k).Nodup := by
  by_cases hk : k ∈ l
  · rw [addKey_of_mem _ _ hk]; exact h
  · rw [addKey_of_not_mem _ _ hk]
    exact List.nodup_append.mpr ⟨h, by simp, by
      intro x hx y hy hxy
      simp only [List.mem_singleton] at hy
      exact hk (hy ▸ hxy ▸ hx)⟩

theorem keysOf_nodup (ids : List Int) : (keysOf flow ids).Nodup := by
  have : ∀ (ids : List Int) (acc : List Nat), acc.Nodup → (ids.foldl (fun l id => addKey l (flow id)) acc).Nodup := by
    intro ids
    induction ids with
    | nil => intro acc h; exact h
    | cons x r ih => intro acc h; exact ih _ (addKey_nodup _ _ h)
  exact this ids [] List.nodup_nil

theorem LInv.nodup {hist : List (HEv ℚ)} (h : LInv flow a hist) : a.keys.Nodup := by
  rw [h.keys]; exact keysOf_nodup _

theorem LInv.recv_nonneg {hist : List (HEv ℚ)} (h : LInv flow a hist) : 0 ≤ a.recv := by
  rw [h.recv]; exact Int.natCast_nonneg _

theorem linv_step {a' : A} {hist new : List (HEv ℚ)} (h : LInv flow a hist) (hs : AStep F flow size cfg n e a q a' new) :
    LInv flow a' (hist ++ new) := by
  cases hs <;> first
    | exact ⟨by simpa [putIds_append, putIds] using h.keys, by simpa [putIds_append, putIds] using h.recv⟩
    | (refine ⟨?_, ?_⟩
       · show addKey a.keys _ = _
         rw [putIds_append, h.keys]
         simp only [putIds]
         rw [keysOf_append]
       · show a.recv + 1 = _
         rw [putIds_append, h.recv]
         simp [putIds])

end SPK
