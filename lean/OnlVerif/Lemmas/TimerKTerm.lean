import OnlVerif.Lemmas.TimerKRun
/-!
# The Timer on the kernel model: a one-shot timer's run ends

With `auto_restart = False` every configuration step uses up one unit of a step budget computed from the configuration
(`A.mu`): the controller's remaining calls (at most six kernel steps each: the call, the `Interruption`, the orphaned
timeout, the old process event, the new `Initialize`, …), the callback entries that can still re-arm the timer, the
entries with nothing left to do.  So `run()` returns, and by then nothing is pending.
-/

set_option linter.unusedSimpArgs false

namespace TimerK
open TimerOnK QEntry
open Timer (CbOp)

variable {arg : Int} {cbs : List (Option Op)} {T : ℚ}

def TPhase.mu (r : Nat) : TPhase → Nat
  | .init _ => r + 3
  | .sleep _ _ => r + 2
  | .dead => 0

def CPhase.mu : CPhase → Nat
  | .init _ sc => 6 * sc.length + 2
  | .wait _ sc _ => 6 * sc.length + 7
  | .done => 0

/-- number of kernel steps a configuration of a one-shot timer still needs (`n` = length of the callback script) -/
def A.mu (n : Nat) (a : A) : Nat :=
  a.ph.mu (n - a.fired) + 3 * (oldStat a.old).length + a.ctl.mu + a.noop.length

theorem ctlNext_mu (n : Nat) (now : ℚ) (eid e : Nat) (b : A) (sc : List (ℚ × Op)) :
    (ctlNext now eid e b sc).mu n + 5 =
      b.ph.mu (n - b.fired) + 3 * (oldStat b.old).length + (6 * sc.length + 6) + b.noop.length := by
  cases sc with
  | nil => simp [ctlNext, A.mu, CPhase.mu]; omega
  | cons x sc => obtain ⟨gap, op⟩ := x; simp [ctlNext, A.mu, CPhase.mu]; omega

/-- **a one-shot timer: every configuration step uses one unit of the budget** -/
theorem astep_mu {a a' : A} {q : QEntry ℚ} {hist new : List (HEv ℚ)} (hi : AInv false cbs T a q.time hist)
    (hs : AStep false cbs a q a' new) : a'.mu cbs.length + 1 ≤ a.mu cbs.length := by
  cases hs with
  | tmInit eid n hph hold => simp [A.mu, hph, hold, TPhase.mu, oldStat]; omega
  | intr eid o hold hq => simp [A.mu, hold, oldStat]; omega
  | noop l1 l2 hq => simp [A.mu, hq]; omega
  | ctlInit eid n sc hctl =>
    have := ctlNext_mu cbs.length q.time eid n a sc
    simp only [A.mu, hctl, CPhase.mu] at this ⊢
    omega
  | ctlStop eid n sc hctl =>
    have := ctlNext_mu cbs.length q.time eid n { a with stopped := true, expire := q.time } sc
    simp only [A.mu, hctl, CPhase.mu] at this ⊢
    omega
  | ctlRestartDead eid n sc tau hctl hph =>
    have := ctlNext_mu cbs.length q.time eid n { a with start := q.time, timeout := tau, expire := q.time + tau } sc
    simp only [A.mu, hctl, CPhase.mu] at this ⊢
    omega
  | ctlRestartAlive eid n sc tau t qt hctl hph hold =>
    have := ctlNext_mu cbs.length q.time (eid + 1 + 1) (n + 1 + 1 + 1)
      { a with start := q.time, timeout := tau, expire := q.time + tau,
               old := some ⟨n, a.cur, t, ⟨q.time, URGENT, eid, n⟩, qt⟩,
               cur := n + 1, ph := .init ⟨q.time, URGENT, eid + 1, n + 1 + 1⟩ } sc
    simp only [A.mu, hctl, hph, hold, CPhase.mu, TPhase.mu, oldStat, List.length_nil, List.length_singleton] at this ⊢
    omega
  | wakeDead eid t hph hold hcont =>
    have hf : (wakeCells false cbs q.time a).fired ≥ a.fired := by
      unfold wakeCells fireA rearm
      rcases Bool.eq_false_or_eq_true a.stopped with hst | hst
      · simp [hst]
      · rcases hcb : cbAt cbs (a.fired : Int) with _ | (_ | tau) <;> simp [hst, cbCells]
    obtain ⟨-, -, -, f4, -, f6, -⟩ := wakeCells_frame (auto := false) (cbs := cbs) q.time a
    simp only [A.mu, hph, hold, TPhase.mu, f4, f6, List.length_append, List.length_singleton, oldStat, List.length_nil]
    omega
  | wakeSleep eid n t hph hold hcont =>
    -- a one-shot timer sleeps again only after a `restart` from its callback, which uses up an entry of the script
    have hp := hi.ph
    rw [hph] at hp
    obtain ⟨-, hexp, -⟩ := hp
    obtain ⟨-, -, -, f4, -, f6, f7⟩ := wakeCells_frame (auto := false) (cbs := cbs) q.time a
    have key : (wakeCells false cbs q.time a).fired = a.fired + 1 ∧ a.fired < cbs.length := by
      revert hcont
      unfold wakeCells fireA rearm
      rcases Bool.eq_false_or_eq_true a.stopped with hst | hst
      · simp only [hst, if_true]
        intro h; exact absurd h (not_lt.mpr hexp)
      · rcases hcb : cbAt cbs (a.fired : Int) with _ | (_ | tau) <;>
          simp only [hst, cbCells, Bool.false_eq_true, if_false]
        · intro h; exact absurd h (not_lt.mpr hexp)
        · intro h; exact absurd h (lt_irrefl _)
        · intro _
          refine ⟨trivial, ?_⟩
          unfold cbAt at hcb
          rw [List.getD_eq_getElem?_getD, Int.toNat_natCast] at hcb
          by_contra hge
          rw [List.getElem?_eq_none (Nat.le_of_not_lt hge)] at hcb
          cases hcb
    simp only [A.mu, hph, hold, TPhase.mu, f4, f6, f7, oldStat, List.length_nil, key.1]
    omega

/-- **a one-shot timer's `run()` returns**: with more step budget than the configuration needs, `runLoop` ends with an
empty agenda -/
theorem run_returns_oneshot (hcbs : CbsOK cbs) (fuel : Nat) : ∀ (n : Nat) (s : KS) (a : A), Inv false cbs T s a →
    a.mu cbs.length < n →
    ∃ sF aF, runLoop (body false arg cbs) (fuel + 1) none n s = .returned .none sF ∧ Inv false cbs T sF aF ∧ sF.agenda = []
  | 0, _, _, _, hmu => absurd hmu (Nat.not_lt_zero _)
  | n + 1, s, a, h, hmu => by
    cases hp : popMin s.agenda with
    | none =>
      refine ⟨s, a, ?_, h, popMin_none hp⟩
      simp [runLoop, step, hp]
    | some qr =>
      obtain ⟨q, rest⟩ := qr
      obtain ⟨s', a', new, h1, h2, h3, h4, h5⟩ := kstep (arg := arg) fuel h.k h.a hp
      have hmin := (isMin_of_pop h.k hp).1
      obtain ⟨g1, -⟩ := astep_sound (arg := arg) hcbs h.a hmin h3
      have hdec := astep_mu (h.a.advance hmin) h3
      have hinv : Inv false cbs T s' a' := ⟨h2, by rw [h4, h5]; exact g1⟩
      have := run_returns_oneshot hcbs fuel n s' a' hinv (by omega)
      simpa [runLoop, h1] using this

end TimerK
