import Mathlib.Tactic.Ring
import OnlVerif.Lemmas.StampInv
import OnlVerif.Net.Sched.WFQ
/-!
# The functions of the WFQ model, characterised

`put_spec`, `done_spec` decompose an accepted `WFQ.put` / `WFQ.done` into its literal Python steps;
`put_ok`, `done_ok` show that they do not raise once every lookup hits.
-/

namespace WFQ
open Stamp

/-- weight of class `k` (0 when the class has none) -/
def wOf (w : List (Nat × ℚ)) (k : Nat) : ℚ := (lookup w k).getD 0

/-- `Σ_{k ∈ l} w_k` -/
def wSum (w : List (Nat × ℚ)) (l : List Nat) : ℚ := (l.map (wOf w)).sum

theorem weightSum_spec (w : List (Nat × ℚ)) (l : List Nat) (acc x : ℚ) (h : weightSum w l acc = .ok x) :
    x = acc + wSum w l ∧ ∀ k ∈ l, (lookup w k).isSome := by
  induction l generalizing acc with
  | nil =>
    simp only [weightSum, Except.ok.injEq] at h
    simp [wSum, h]
  | cons k ks ih =>
    simp only [weightSum] at h
    split at h
    · cases h
    · rename_i v hv
      obtain ⟨h1, h2⟩ := ih _ h
      refine ⟨?_, ?_⟩
      · rw [h1]; simp [wSum, wOf, hv]; ring
      · intro k' hk'
        rcases List.mem_cons.mp hk' with rfl | hk'
        · simp [hv]
        · exact h2 k' hk'

theorem weightSum_ok (w : List (Nat × ℚ)) (l : List Nat) (acc : ℚ) (h : ∀ k ∈ l, (lookup w k).isSome) :
    weightSum w l acc = .ok (acc + wSum w l) := by
  induction l generalizing acc with
  | nil => simp [weightSum, wSum]
  | cons k ks ih =>
    have hk := h k (by simp)
    obtain ⟨v, hv⟩ := Option.isSome_iff_exists.mp hk
    simp only [weightSum, hv]
    rw [ih _ (fun k' hk' => h k' (List.mem_cons_of_mem _ hk'))]
    simp [wSum, wOf, hv]; ring

theorem wSum_pos (w : List (Nat × ℚ)) (l : List Nat) (hl : l ≠ []) (h : ∀ k ∈ l, 0 < wOf w k) : 0 < wSum w l := by
  induction l with
  | nil => exact absurd rfl hl
  | cons k ks ih =>
    simp only [wSum, List.map_cons, List.sum_cons]
    have h1 := h k (by simp)
    by_cases hks : ks = []
    · subst hks; simpa using h1
    · have := ih hks (fun k' hk' => h k' (List.mem_cons_of_mem _ hk'))
      simp only [wSum] at this
      linarith

/-- `reset_vtime` sets the finish time of every class that has a weight to 0 and leaves the others alone -/
theorem lookup_zeroFinish (fin w : List (Nat × ℚ)) (k : Nat) :
    lookup (zeroFinish fin w) k = if (lookup w k).isSome then some 0 else lookup fin k := by
  induction w generalizing fin with
  | nil => simp [zeroFinish, lookup]
  | cons x r ih =>
    obtain ⟨a, b⟩ := x
    simp only [zeroFinish, ih, lookup_setKey, lookup, zero_eq_q]
    by_cases h1 : a = k
    · subst h1; simp
    · have : ¬ k = a := fun h => h1 h.symm
      simp [h1, this]

theorem mem_insertAsc (c : Nat) (l : List Nat) (x : Nat) : x ∈ insertAsc c l ↔ x = c ∨ x ∈ l := by
  induction l with
  | nil => simp [insertAsc]
  | cons y ys ih =>
    simp only [insertAsc]
    split
    · simp
    · split
      · rename_i h; subst h; simp
      · simp only [List.mem_cons, ih]
        constructor
        · rintro (h | h | h)
          · exact Or.inr (Or.inl h)
          · exact Or.inl h
          · exact Or.inr (Or.inr h)
        · rintro (h | h | h)
          · exact Or.inr (Or.inl h)
          · exact Or.inl h
          · exact Or.inr (Or.inr h)

theorem insertAsc_ne_nil (c : Nat) (l : List Nat) : insertAsc c l ≠ [] := by
  intro h
  have := (mem_insertAsc c l c).mpr (Or.inl rfl)
  rw [h] at this
  simp at this

theorem sorted_insertAsc (c : Nat) (l : List Nat) (h : l.Pairwise (· < ·)) : (insertAsc c l).Pairwise (· < ·) := by
  induction l with
  | nil => simp [insertAsc]
  | cons y ys ih =>
    simp only [insertAsc]
    have hy := List.pairwise_cons.mp h
    split
    · rename_i hc
      refine List.pairwise_cons.mpr ⟨?_, h⟩
      intro z hz
      rcases List.mem_cons.mp hz with rfl | hz
      · exact hc
      · exact lt_trans hc (hy.1 z hz)
    · split
      · exact h
      · rename_i h1 h2
        refine List.pairwise_cons.mpr ⟨?_, ih hy.2⟩
        intro z hz
        rcases (mem_insertAsc c ys z).mp hz with rfl | hz
        · omega
        · exact hy.1 z hz

/-! ### `put` -/

theorem advance_spec (c : WfqCfg ℚ) (st st1 : WfqSt ℚ) (now : ℚ) (total : Int) (h : advance c st now total = .ok st1) :
    (total = 0 ∧ st1 = resetVtime c st) ∨
    (total ≠ 0 ∧ (∀ k ∈ st.active, (lookup c.weights k).isSome) ∧ wSum c.weights st.active ≠ 0 ∧
      st1 = { st with vtime := st.vtime + (now - st.lastTime) / wSum c.weights st.active }) := by
  unfold advance at h
  split at h
  · rename_i he
    simp only [Except.ok.injEq] at h
    exact Or.inl ⟨he, h.symm⟩
  · rename_i he
    unfold updateVtime at h
    split at h
    · cases h
    · rename_i ws hws
      obtain ⟨h1, h2⟩ := weightSum_spec _ _ _ _ hws
      rw [zero_eq_q, zero_add] at h1
      split at h
      · cases h
      · rename_i hz
        simp only [Except.ok.injEq] at h
        refine Or.inr ⟨he, h2, ?_, ?_⟩
        · rw [← h1]; intro hc; apply hz; rw [hc, zero_eq_q]; simp [Num.eqb]
        · rw [← h1]; exact h.symm

theorem updateVtime_spec (c : WfqCfg ℚ) (st st1 : WfqSt ℚ) (now : ℚ) (h : updateVtime c st now = .ok st1) :
    (∀ k ∈ st.active, (lookup c.weights k).isSome) ∧ wSum c.weights st.active ≠ 0 ∧
      st1 = { st with vtime := st.vtime + (now - st.lastTime) / wSum c.weights st.active } := by
  unfold updateVtime at h
  split at h
  · cases h
  · rename_i ws hws
    obtain ⟨h1, h2⟩ := weightSum_spec _ _ _ _ hws
    rw [zero_eq_q, zero_add] at h1
    split at h
    · cases h
    · rename_i hz
      simp only [Except.ok.injEq] at h
      refine ⟨h2, ?_, ?_⟩
      · rw [← h1]; intro hc; apply hz; rw [hc, zero_eq_q]; simp [Num.eqb]
      · rw [← h1]; exact h.symm

theorem updateVtime_ok (c : WfqCfg ℚ) (st : WfqSt ℚ) (now : ℚ) (h1 : ∀ k ∈ st.active, (lookup c.weights k).isSome)
    (h2 : wSum c.weights st.active ≠ 0) :
    updateVtime c st now = .ok { st with vtime := st.vtime + (now - st.lastTime) / wSum c.weights st.active } := by
  unfold updateVtime
  rw [weightSum_ok _ _ _ h1, zero_eq_q, zero_add]
  simp only
  have : ¬ Num.eqb (wSum c.weights st.active) (0 : ℚ) = true := by
    rw [Num.eqb_iff]; exact h2
  rw [if_neg this]

/-- `max(F, V) + 8·size/(rate·w)` -/
theorem stampOf_eq (c : WfqCfg ℚ) (f v w : ℚ) (size : Nat) :
    stampOf c f v w size = max f v + 8 * (size : ℚ) / (c.rate * w) := by
  unfold stampOf
  rw [Num.pymax_eq]
  show max f v + ((size * 8 : ℕ) : ℚ) / (c.rate * w) = _
  push_cast
  ring

/-- an accepted `put`, step by step -/
theorem put_spec (c : WfqCfg ℚ) (st st' : WfqSt ℚ) (now : ℚ) (total : Int) (F : ℚ) (p : SPkt)
    (h : put c st now total p = .ok (st', F)) :
    ∃ k st1 f w, lookup c.flow2class p.flow = some k ∧ advance c st now total = .ok st1 ∧ lookup st1.finish k = some f ∧
      lookup c.weights k = some w ∧ c.rate * w ≠ 0 ∧ F = stampOf c f st1.vtime w p.size ∧ st' = commit st1 k F now := by
  unfold put at h
  split at h
  · cases h
  · rename_i k hk
    split at h
    · cases h
    · rename_i st1 ha
      unfold stampPut at h
      split at h
      · cases h
      · rename_i f hf
        split at h
        · cases h
        · rename_i w hw
          split at h
          · cases h
          · rename_i hz
            simp only [Except.ok.injEq, Prod.mk.injEq] at h
            obtain ⟨rfl, rfl⟩ := h
            refine ⟨k, st1, f, w, hk, ha, hf, hw, ?_, rfl, rfl⟩
            intro hc; apply hz; rw [hc, zero_eq_q]; simp [Num.eqb]

theorem put_ok (c : WfqCfg ℚ) (st st1 : WfqSt ℚ) (now : ℚ) (total : Int) (p : SPkt) (k : Nat) (f w : ℚ)
    (hk : lookup c.flow2class p.flow = some k) (ha : advance c st now total = .ok st1) (hf : lookup st1.finish k = some f)
    (hw : lookup c.weights k = some w) (hz : c.rate * w ≠ 0) :
    put c st now total p = .ok (commit st1 k (stampOf c f st1.vtime w p.size) now, stampOf c f st1.vtime w p.size) := by
  unfold put
  simp only [hk, ha]
  unfold stampPut
  simp only [hf, hw]
  have : ¬ Num.eqb (c.rate * w) (Num.zero : ℚ) = true := by
    rw [zero_eq_q, Num.eqb_iff]; exact hz
  rw [if_neg this]

/-! ### the bookkeeping after a transmission -/

theorem leave_spec (st st2 : WfqSt ℚ) (k : Nat) (h : leave st k = .ok st2) :
    ∃ n, lookup st.classCount k = some n ∧
      ((n - 1 = 0 ∧ k ∈ st.active ∧
          st2 = { st with classCount := setKey st.classCount k (n - 1), active := st.active.filter (· ≠ k) }) ∨
       (n - 1 ≠ 0 ∧ st2 = { st with classCount := setKey st.classCount k (n - 1) })) := by
  unfold leave at h
  split at h
  · cases h
  · rename_i n hn
    refine ⟨n, hn, ?_⟩
    split at h
    · rename_i h0
      split at h
      · rename_i hc
        simp only [Except.ok.injEq] at h
        exact Or.inl ⟨h0, by simpa using hc, h.symm⟩
      · cases h
    · rename_i h0
      simp only [Except.ok.injEq] at h
      exact Or.inr ⟨h0, h.symm⟩

theorem leave_ok (st : WfqSt ℚ) (k : Nat) (n : Int) (hn : lookup st.classCount k = some n)
    (hm : n - 1 = 0 → k ∈ st.active) : ∃ st2, leave st k = .ok st2 := by
  unfold leave
  simp only [hn]
  by_cases h0 : n - 1 = 0
  · rw [if_pos h0]
    have : st.active.contains k = true := by simpa using hm h0
    rw [if_pos this]
    exact ⟨_, rfl⟩
  · rw [if_neg h0]
    exact ⟨_, rfl⟩

/-- an accepted bookkeeping burst, step by step -/
theorem done_spec (c : WfqCfg ℚ) (st st' : WfqSt ℚ) (now : ℚ) (p : SPkt) (h : done c st now p = .ok st') :
    ∃ st1 k st2, updateVtime c st now = .ok st1 ∧ lookup c.flow2class p.flow = some k ∧ leave st1 k = .ok st2 ∧
      st' = settle c st2 now := by
  unfold done at h
  split at h
  · cases h
  · rename_i st1 h1
    split at h
    · cases h
    · rename_i k hk
      split at h
      · cases h
      · rename_i st2 h2
        simp only [Except.ok.injEq] at h
        exact ⟨st1, k, st2, h1, hk, h2, h.symm⟩

theorem done_ok (c : WfqCfg ℚ) (st st1 st2 : WfqSt ℚ) (now : ℚ) (p : SPkt) (k : Nat)
    (h1 : updateVtime c st now = .ok st1) (hk : lookup c.flow2class p.flow = some k) (h2 : leave st1 k = .ok st2) :
    done c st now p = .ok (settle c st2 now) := by
  unfold done
  simp only [h1, hk, h2]

theorem settle_active (c : WfqCfg ℚ) (st : WfqSt ℚ) (now : ℚ) : (settle c st now).active = st.active := by
  unfold settle; split <;> rfl

theorem settle_classCount (c : WfqCfg ℚ) (st : WfqSt ℚ) (now : ℚ) : (settle c st now).classCount = st.classCount := by
  unfold settle; split <;> rfl

theorem settle_lastTime (c : WfqCfg ℚ) (st : WfqSt ℚ) (now : ℚ) : (settle c st now).lastTime = now := by
  unfold settle; split <;> rfl

end WFQ
