import Mathlib.Tactic.Linarith
import Mathlib.Tactic.Ring
import Mathlib.Order.Lattice
import OnlVerif.Lemmas.FifoAux
import OnlVerif.Net.Wire
/-! # Invariants of the Wire model -/

namespace Wire
open Fifo

@[simp] theorem dev_admit (c : WireCfg ℚ) : (dev c).admitPkt = admitPkt := rfl
@[simp] theorem dev_onResume (c : WireCfg ℚ) : (dev c).onResume = onResume c := rfl
@[simp] theorem dev_onFire (c : WireCfg ℚ) : (dev c).onFire = onFire := rfl
@[simp] theorem dev_onDone (c : WireCfg ℚ) : (dev c).onDone = onDone := rfl

/-- the three outcomes of `Wire.run` when it gets a packet -/
theorem onResume_cases (c : WireCfg ℚ) (d : WireSt ℚ) (now x y : ℚ) (p : Pkt ℚ) :
    (lostNow c x = true ∧ onResume c d now x y p = (logLost d now p, p, .lose)) ∨
    (lostNow c x = false ∧ now - p.ctime < y ∧
      onResume c d now x y p = (setD d y, p, .wait (y - (now - p.ctime)))) ∨
    (lostNow c x = false ∧ ¬ (now - p.ctime < y) ∧ onResume c d now x y p = (logOut (setD d y) now p, p, .emit)) := by
  unfold onResume queued
  by_cases hl : lostNow c x = true
  · left; exact ⟨hl, by rw [if_pos hl]⟩
  · right
    have hl' : lostNow c x = false := by simpa using hl
    by_cases hq : now - p.ctime < y
    · left; exact ⟨hl', hq, by rw [if_neg hl, if_pos hq]⟩
    · right; exact ⟨hl', hq, by rw [if_neg hl, if_neg hq]⟩

theorem idPreserving (c : WireCfg ℚ) : IdPreserving (dev c) := by
  refine ⟨?_, ?_, ?_⟩
  · intro s now w p; rfl
  · intro s now x y p
    rcases onResume_cases c s now x y p with ⟨_, h⟩ | ⟨_, _, h⟩ | ⟨_, _, h⟩ <;> simp only [dev_onResume, h]
  · intro s now k p; rfl

/-- arrival instants of the packet(s) the server holds outside the store -/
def inHandA (s : FState ℚ (WireSt ℚ)) : List ℚ :=
  (match s.handed with | some p => [p.ctime] | none => []) ++ (match s.tx with | some (p, _, _) => [p.ctime] | none => [])

/-- arrival instants of every packet ever accepted, oldest first: those that left, those in hand, those waiting -/
def arrSeq (s : FState ℚ (WireSt ℚ)) : List ℚ :=
  s.dev.log.reverse.map (·.a) ++ inHandA s ++ s.items.map (·.ctime)

/-- the ghost log is a chain: each record's `prev` is the instant its predecessor left, and it left at
`max(a, prev)` when discarded, at `max(a + d, max(a, prev))` when forwarded -/
def Chain (t0 : ℚ) : ℚ → List (WireRec ℚ) → Prop
  | last, [] => last = t0
  | last, e :: r => last = e.t ∧ Chain t0 e.prev r ∧
      e.t = (if e.lost then max e.a e.prev else max (e.a + e.d) (max e.a e.prev))

structure Core (t0 : ℚ) (s : FState ℚ (WireSt ℚ)) : Prop where
  fresh : s.started = false → s.now = t0
  t0le : t0 ≤ s.now
  doneLe : s.dev.lastDone ≤ s.now
  taken : ∀ p, s.handed = some p → s.now = max p.ctime s.dev.lastDone
  pend : s.getPending = true → ∀ p ∈ s.items, p.ctime = s.now
  due : ∀ p due k, s.tx = some (p, due, k) → due = max (p.ctime + s.dev.curD) (max p.ctime s.dev.lastDone)
  chain : Chain t0 s.dev.lastDone s.dev.log
  sorted : (arrSeq s).Pairwise (· ≤ ·)
  bound : ∀ x ∈ arrSeq s, t0 ≤ x ∧ x ≤ s.now

structure Inv (t0 : ℚ) (s : FState ℚ (WireSt ℚ)) : Prop where
  shape : Shape s
  core : Core t0 s

theorem init_inv (t0 : ℚ) : Inv t0 (Fifo.init (st0 t0) t0) := by
  refine ⟨Fifo.init_shape _ _, ?_⟩
  refine ⟨fun _ => rfl, le_refl _, le_refl _, ?_, ?_, ?_, rfl, ?_, ?_⟩
  · intro p h; simp [Fifo.init] at h
  · intro h; simp [Fifo.init] at h
  · intro p due k h; simp [Fifo.init] at h
  · simp [arrSeq, inHandA, Fifo.init, st0]
  · intro x hx; simp [arrSeq, inHandA, Fifo.init, st0] at hx

/-- the server issues its next `get` right after finishing with a packet (or when it starts) -/
theorem issueGet_core (t0 : ℚ) (s : FState ℚ (WireSt ℚ)) (hst : s.started = true) (hg : s.getPending = false)
    (hh : s.handed = none) (htx : s.tx = none) (hkey : s.dev.lastDone = s.now ∨ s.now = t0) (h : Core t0 s) :
    Core t0 (issueGet s) := by
  rcases issueGet_cases s with ⟨p, rest, hi, he⟩ | ⟨hi, he⟩
  · rw [he]
    have hseq : arrSeq { s with items := rest, handed := some p } = arrSeq s := by
      simp [arrSeq, inHandA, hh, htx, hi]
    have hp := h.bound p.ctime (by simp [arrSeq, hi])
    refine ⟨fun hc => by simp [hst] at hc, h.t0le, h.doneLe, ?_, ?_, ?_, h.chain, ?_, ?_⟩
    · intro q hq
      simp only [Option.some.injEq] at hq
      subst hq
      show s.now = max p.ctime s.dev.lastDone
      rcases hkey with hk | hk
      · rw [hk]; exact (max_eq_right hp.2).symm
      · have h1 : p.ctime = s.now := le_antisymm hp.2 (hk ▸ hp.1)
        rw [h1]; exact (max_eq_left h.doneLe).symm
    · intro hc; simp [hg] at hc
    · intro q due k hq; simp [htx] at hq
    · rw [hseq]; exact h.sorted
    · rw [hseq]; exact h.bound
  · rw [he]
    have hseq : arrSeq { s with getPending := true } = arrSeq s := rfl
    refine ⟨fun hc => by simp [hst] at hc, h.t0le, h.doneLe, ?_, ?_, ?_, h.chain, ?_, ?_⟩
    · intro q hq; simp [hh] at hq
    · intro _ q hq; simp [hi] at hq
    · intro q due k hq; simp [htx] at hq
    · rw [hseq]; exact h.sorted
    · rw [hseq]; exact h.bound

/-- the packet in hand leaves at `now` (forwarded or discarded): the log grows, the arrival sequence is unchanged -/
theorem leave_core (t0 : ℚ) (s : FState ℚ (WireSt ℚ)) (p : Pkt ℚ) (d' : WireSt ℚ) (lost : Bool)
    (h : Core t0 s) (hin : inHandA s = [p.ctime]) (hlast : d'.lastDone = s.now)
    (hlog : d'.log = { id := p.id, a := p.ctime, d := d'.curD, prev := s.dev.lastDone, t := s.now, lost := lost } :: s.dev.log)
    (ht : s.now = (if lost then max p.ctime s.dev.lastDone else max (p.ctime + d'.curD) (max p.ctime s.dev.lastDone))) :
    Core t0 { s with handed := none, tx := none, dev := d' } ∧ d'.lastDone = s.now := by
  have h1 : inHandA { s with handed := none, tx := none, dev := d' } = [] := by simp [inHandA]
  have hseq : arrSeq { s with handed := none, tx := none, dev := d' } = arrSeq s := by
    unfold arrSeq
    rw [h1, hin]
    dsimp only
    rw [hlog]
    simp
  refine ⟨⟨h.fresh, h.t0le, ?_, ?_, h.pend, ?_, ?_, ?_, ?_⟩, hlast⟩
  · show d'.lastDone ≤ s.now
    rw [hlast]
  · intro q hq; simp at hq
  · intro q due k hq; simp at hq
  · show Chain t0 d'.lastDone d'.log
    rw [hlast, hlog]
    exact ⟨rfl, h.chain, ht⟩
  · rw [hseq]; exact h.sorted
  · rw [hseq]; exact h.bound

theorem inHandA_handed {s : FState ℚ (WireSt ℚ)} (hsh : Shape s) {p : Pkt ℚ} (hp : s.handed = some p) :
    inHandA s = [p.ctime] := by
  have := shape_of_handed hsh hp
  simp [inHandA, hp, this.2.2]

theorem inHandA_tx {s : FState ℚ (WireSt ℚ)} (hsh : Shape s) {p : Pkt ℚ} {due : ℚ} {k : Nat} (hp : s.tx = some (p, due, k)) :
    inHandA s = [p.ctime] := by
  have := shape_of_tx hsh hp
  simp [inHandA, hp, this.2.2]

/-- every accepted step keeps the wire invariant -/
theorem step_inv (c : WireCfg ℚ) (t0 : ℚ) (s s' : FState ℚ (WireSt ℚ)) (a : FAct ℚ) (o : FOut ℚ)
    (hi : Inv t0 s) (hstep : step (dev c) s a = .ok (s', o)) : Inv t0 s' := by
  have hshape : Shape s' := (step_conserves (dev c) (idPreserving c) s s' a o hi.shape hstep).2
  refine ⟨hshape, ?_⟩
  have hc := hi.core
  have ht := step_trans (dev c) s s' a o hstep
  clear hstep hshape
  cases ht with
  | init h =>
    have h0 := hi.shape.1 h
    have hc' : Core t0 { s with started := true } :=
      ⟨fun hx => by simp at hx, hc.t0le, hc.doneLe, hc.taken, hc.pend, hc.due, hc.chain, hc.sorted, hc.bound⟩
    exact issueGet_core t0 _ rfl h0.1 h0.2.1 h0.2.2 (Or.inr (hc.fresh h)) hc'
  | putAcc p h =>
    simp only [dev_admit, admitPkt]
    have hseq : arrSeq { s with dev := { s.dev with packetsRec := s.dev.packetsRec + 1 },
                                items := s.items ++ [{ p with ctime := s.now }] } = arrSeq s ++ [s.now] := by
      simp [arrSeq, inHandA]
    refine ⟨hc.fresh, hc.t0le, hc.doneLe, hc.taken, ?_, hc.due, hc.chain, ?_, ?_⟩
    · intro hg q hq
      simp only [List.mem_append, List.mem_singleton] at hq
      rcases hq with hq | hq
      · exact hc.pend hg q hq
      · rw [hq]
    · rw [hseq]
      refine List.pairwise_append.mpr ⟨hc.sorted, List.pairwise_singleton _ _, ?_⟩
      intro x hx y hy
      simp only [List.mem_singleton] at hy
      rw [hy]; exact (hc.bound x hx).2
    · rw [hseq]
      intro x hx
      simp only [List.mem_append, List.mem_singleton] at hx
      rcases hx with hx | hx
      · exact hc.bound x hx
      · rw [hx]
        exact ⟨hc.t0le, le_refl _⟩
  | putDrop p h => simp [dev_admit, admitPkt] at h
  | handoff p rest hg hit =>
    have h1 := shape_of_pending hi.shape hg
    have hseq : arrSeq { s with items := rest, handed := some p, getPending := false } = arrSeq s := by
      simp [arrSeq, inHandA, h1.2.1, h1.2.2, hit]
    refine ⟨hc.fresh, hc.t0le, hc.doneLe, ?_, ?_, ?_, hc.chain, ?_, ?_⟩
    · intro q hq
      simp only [Option.some.injEq] at hq
      subst hq
      have : p.ctime = s.now := hc.pend hg p (by simp [hit])
      show s.now = max p.ctime s.dev.lastDone
      rw [this]; exact (max_eq_left hc.doneLe).symm
    · intro hx; simp at hx
    · intro q due k hq; simp [h1.2.2] at hq
    · rw [hseq]; exact hc.sorted
    · rw [hseq]; exact hc.bound
  | resumeEmit x y p hp hn =>
    simp only [dev_onResume, dev_onDone, onDone] at hn ⊢
    have hsh := shape_of_handed hi.shape hp
    rcases onResume_cases c s.dev s.now x y p with ⟨_, he⟩ | ⟨_, _, he⟩ | ⟨_, hq, he⟩
    · rw [he] at hn; cases hn
    · rw [he] at hn; cases hn
    · rw [he]
      dsimp only
      have hl := leave_core t0 s p (logOut (setD s.dev y) s.now p) false hc (inHandA_handed hi.shape hp) rfl rfl (by
        simp only [Bool.false_eq_true, if_false]
        show s.now = max (p.ctime + y) (max p.ctime s.dev.lastDone)
        rw [← hc.taken p hp]
        have : p.ctime + y ≤ s.now := by linarith [not_lt.mp hq]
        exact (max_eq_right this).symm)
      exact issueGet_core t0 _ hsh.1 hsh.2.1 rfl rfl (Or.inl hl.2) hl.1
  | resumeLose x y p hp hn =>
    simp only [dev_onResume, dev_onDone, onDone] at hn ⊢
    have hsh := shape_of_handed hi.shape hp
    rcases onResume_cases c s.dev s.now x y p with ⟨_, he⟩ | ⟨_, _, he⟩ | ⟨_, hq, he⟩
    · rw [he]
      dsimp only
      have hl := leave_core t0 s p (logLost s.dev s.now p) true hc (inHandA_handed hi.shape hp) rfl rfl (by
        simp only [if_true]
        exact hc.taken p hp)
      exact issueGet_core t0 _ hsh.1 hsh.2.1 rfl rfl (Or.inl hl.2) hl.1
    · rw [he] at hn; cases hn
    · rw [he] at hn; cases hn
  | resumeWait x y p dt hp hn =>
    simp only [dev_onResume] at hn ⊢
    have hsh := shape_of_handed hi.shape hp
    rcases onResume_cases c s.dev s.now x y p with ⟨_, he⟩ | ⟨_, hq, he⟩ | ⟨_, hq, he⟩
    · rw [he] at hn; cases hn
    · rw [he] at hn ⊢
      simp only [Next.wait.injEq] at hn
      subst hn
      dsimp only
      have hseq : arrSeq { s with handed := none, dev := setD s.dev y, tx := some (p, s.now + (y - (s.now - p.ctime)), 0) } = arrSeq s := by
        simp [arrSeq, inHandA, hp, hsh.2.2, setD]
      refine ⟨hc.fresh, hc.t0le, hc.doneLe, ?_, hc.pend, ?_, hc.chain, ?_, ?_⟩
      · intro q hq'; simp at hq'
      · intro q due k hq'
        simp only [Option.some.injEq, Prod.mk.injEq] at hq'
        obtain ⟨rfl, rfl, _⟩ := hq'
        show s.now + (y - (s.now - p.ctime)) = max (p.ctime + y) (max p.ctime s.dev.lastDone)
        rw [← hc.taken p hp]
        have : s.now ≤ p.ctime + y := by linarith
        rw [max_eq_left this]; ring
      · rw [hseq]; exact hc.sorted
      · rw [hseq]; exact hc.bound
    · rw [he] at hn; cases hn
  | fireEmit p due k htx hnow hn =>
    simp only [dev_onFire, dev_onDone, onDone, onFire] at hn ⊢
    have hsh := shape_of_tx hi.shape htx
    have hl := leave_core t0 s p (logOut s.dev s.now p) false hc (inHandA_tx hi.shape htx) rfl rfl (by
      simp only [Bool.false_eq_true, if_false]
      rw [hnow]; exact hc.due p due k htx)
    have hcore := issueGet_core t0 { s with handed := none, tx := none, dev := logOut s.dev s.now p } hsh.1 hsh.2.1 rfl rfl
      (Or.inl hl.2) hl.1
    have hs : ({ s with handed := none, tx := none, dev := logOut s.dev s.now p } : FState ℚ (WireSt ℚ)) =
        { s with tx := none, dev := logOut s.dev s.now p } := by
      cases s; simp only at hsh ⊢; simp [hsh.2.2]
    rw [hs] at hcore
    exact hcore
  | fireLose p due k htx hnow hn => simp [dev, onFire] at hn
  | fireWait p due k dt htx hnow hn => simp [dev, onFire] at hn
  | tick t h1 h2 h3 h4 h5 =>
    have hseq : arrSeq { s with now := t } = arrSeq s := rfl
    refine ⟨fun hx => by simp [h2] at hx, le_trans hc.t0le h1, le_trans hc.doneLe h1, ?_, ?_, hc.due, hc.chain, ?_, ?_⟩
    · intro q hq; simp [h3] at hq
    · intro hg q hq
      exfalso
      exact h4 ⟨hg, List.ne_nil_of_mem hq⟩
    · rw [hseq]; exact hc.sorted
    · rw [hseq]; intro x hx; exact ⟨(hc.bound x hx).1, le_trans (hc.bound x hx).2 h1⟩

/-- the invariant holds after every accepted action sequence -/
theorem run_inv (c : WireCfg ℚ) (t0 : ℚ) (as : List (FAct ℚ)) (s s' : FState ℚ (WireSt ℚ)) (ins outs : List Nat)
    (hi : Inv t0 s) (h : runActs (dev c) s as = .ok (s', ins, outs)) : Inv t0 s' :=
  run_induct (dev c) (Inv t0) (fun s a s' o h1 h2 => step_inv c t0 s s' a o h1 h2) as s s' ins outs hi h

/-! ### what the ghost log says -/

/-- the instant of the latest *delivery* recorded in a log (newest first); `t0` if none -/
def prevDeliv (t0 : ℚ) : List (WireRec ℚ) → ℚ
  | [] => t0
  | e :: r => if e.lost then prevDeliv t0 r else e.t

theorem chain_suffix (t0 : ℚ) (l1 l2 : List (WireRec ℚ)) (last : ℚ) (h : Chain t0 last (l1 ++ l2)) :
    ∃ last', Chain t0 last' l2 := by
  induction l1 generalizing last with
  | nil => exact ⟨last, h⟩
  | cons e r ih => exact ih e.prev h.2.1

theorem chain_mem (t0 : ℚ) (l : List (WireRec ℚ)) (last : ℚ) (h : Chain t0 last l) (e : WireRec ℚ) (he : e ∈ l) :
    e.t = (if e.lost then max e.a e.prev else max (e.a + e.d) (max e.a e.prev)) := by
  induction l generalizing last with
  | nil => cases he
  | cons e' r ih =>
    rcases List.mem_cons.mp he with rfl | hr
    · exact h.2.2
    · exact ih e'.prev h.2.1 hr

/-- **a discarded packet delays nobody**: for a packet arriving no earlier than everything in the log, waiting for
the server to finish with its predecessors is waiting for the latest *delivery* -/
theorem chain_max (t0 a : ℚ) (l : List (WireRec ℚ)) (last : ℚ) (h : Chain t0 last l) (ha : ∀ e ∈ l, e.a ≤ a) :
    max a last = max a (prevDeliv t0 l) := by
  induction l generalizing last with
  | nil => rw [show last = t0 from h]; rfl
  | cons e r ih =>
    obtain ⟨hlast, hch, ht⟩ := h
    have hr := ih e.prev hch (fun e' he' => ha e' (List.mem_cons_of_mem _ he'))
    have hea := ha e List.mem_cons_self
    by_cases hl : e.lost = true
    · simp only [prevDeliv, hl, if_true] at ht ⊢
      rw [hlast, ht, ← max_assoc, max_eq_left hea, hr]
    · simp only [prevDeliv, hl, Bool.false_eq_true, if_false] at ht ⊢
      rw [hlast]

/-- arrivals are logged in arrival order -/
theorem log_sorted (t0 : ℚ) (s : FState ℚ (WireSt ℚ)) (h : Core t0 s) (newer older : List (WireRec ℚ)) (e : WireRec ℚ)
    (hlog : s.dev.log = newer ++ e :: older) : ∀ e' ∈ older, e'.a ≤ e.a := by
  have h1 : (s.dev.log.reverse.map (·.a)).Pairwise (· ≤ ·) := by
    have := h.sorted
    unfold arrSeq at this
    rw [List.append_assoc] at this
    exact (List.pairwise_append.mp this).1
  rw [hlog] at h1
  simp only [List.reverse_append, List.reverse_cons, List.map_append, List.map_cons, List.map_nil, List.append_assoc] at h1
  intro e' he'
  have h2 := (List.pairwise_append.mp h1).2.2
  exact h2 e'.a (by simp only [List.mem_map, List.mem_reverse]; exact ⟨e', he', rfl⟩) e.a (by simp)

/-- how one step changes the log: a forwarded / discarded packet is recorded with the current instant -/
def LogStep (s s' : FState ℚ (WireSt ℚ)) (o : FOut ℚ) : Prop :=
  match o with
  | .depart q => ∃ e, s'.dev.log = e :: s.dev.log ∧ e.lost = false ∧ e.id = q.id ∧ e.a = q.ctime ∧ e.t = s.now ∧ e.d = s'.dev.curD
  | .lost q => ∃ e, s'.dev.log = e :: s.dev.log ∧ e.lost = true ∧ e.id = q.id ∧ e.a = q.ctime ∧ e.t = s.now
  | _ => s'.dev.log = s.dev.log

theorem log_step (c : WireCfg ℚ) (s s' : FState ℚ (WireSt ℚ)) (a : FAct ℚ) (o : FOut ℚ)
    (hstep : step (dev c) s a = .ok (s', o)) : LogStep s s' o := by
  unfold LogStep
  have ht := step_trans (dev c) s s' a o hstep
  clear hstep
  cases ht with
  | init h => simp only [issueGet_dev']
  | putAcc p h => rfl
  | putDrop p h => rfl
  | handoff p rest hg hit => rfl
  | resumeEmit x y p hp hn =>
    simp only [dev_onResume, dev_onDone, onDone, issueGet_dev'] at hn ⊢
    rcases onResume_cases c s.dev s.now x y p with ⟨_, he⟩ | ⟨_, _, he⟩ | ⟨_, hq, he⟩
    · rw [he] at hn; cases hn
    · rw [he] at hn; cases hn
    · rw [he]; exact ⟨_, rfl, rfl, rfl, rfl, rfl, rfl⟩
  | resumeLose x y p hp hn =>
    simp only [dev_onResume, dev_onDone, onDone, issueGet_dev'] at hn ⊢
    rcases onResume_cases c s.dev s.now x y p with ⟨_, he⟩ | ⟨_, _, he⟩ | ⟨_, hq, he⟩
    · rw [he]; exact ⟨_, rfl, rfl, rfl, rfl, rfl⟩
    · rw [he] at hn; cases hn
    · rw [he] at hn; cases hn
  | resumeWait x y p dt hp hn =>
    simp only [dev_onResume] at hn ⊢
    rcases onResume_cases c s.dev s.now x y p with ⟨_, he⟩ | ⟨_, _, he⟩ | ⟨_, hq, he⟩
    · rw [he] at hn; cases hn
    · rw [he]; rfl
    · rw [he] at hn; cases hn
  | fireEmit p due k htx hnow hn =>
    simp only [dev_onFire, dev_onDone, onDone, onFire, issueGet_dev']
    exact ⟨_, rfl, rfl, rfl, rfl, rfl, rfl⟩
  | fireLose p due k htx hnow hn => simp [dev, onFire] at hn
  | fireWait p due k dt htx hnow hn => simp [dev, onFire] at hn
  | tick t h1 h2 h3 h4 h5 => rfl

/-- the delay on record for the packet in hand is the one drawn when the server took it: a `resume x y` that does not
lose the packet sets it to `y`; no other step changes it -/
theorem curD_step (c : WireCfg ℚ) (s s' : FState ℚ (WireSt ℚ)) (a : FAct ℚ) (o : FOut ℚ)
    (hstep : step (dev c) s a = .ok (s', o)) :
    (∀ x y, a = .resume x y → lostNow c x = false → s'.dev.curD = y) ∧
    ((∀ x y, a ≠ .resume x y) → s'.dev.curD = s.dev.curD) := by
  have ht := step_trans (dev c) s s' a o hstep
  clear hstep
  cases ht with
  | init h => exact ⟨fun _ _ hx => (by cases hx), fun _ => (by rw [issueGet_dev'])⟩
  | putAcc p h => exact ⟨fun _ _ hx => (by cases hx), fun _ => rfl⟩
  | putDrop p h => exact ⟨fun _ _ hx => (by cases hx), fun _ => rfl⟩
  | handoff p rest hg hit => exact ⟨fun _ _ hx => (by cases hx), fun _ => rfl⟩
  | resumeEmit x y p hp hn =>
    refine ⟨?_, fun hx => absurd rfl (hx x y)⟩
    intro x' y' hx hl
    cases hx
    simp only [dev_onResume, dev_onDone, onDone, issueGet_dev'] at hn ⊢
    rcases onResume_cases c s.dev s.now x y p with ⟨hl', _⟩ | ⟨_, _, he⟩ | ⟨_, hq, he⟩
    · rw [hl] at hl'; cases hl'
    · rw [he] at hn; cases hn
    · rw [he]; rfl
  | resumeLose x y p hp hn =>
    refine ⟨?_, fun hx => absurd rfl (hx x y)⟩
    intro x' y' hx hl
    cases hx
    simp only [dev_onResume] at hn
    rcases onResume_cases c s.dev s.now x y p with ⟨hl', _⟩ | ⟨_, _, he⟩ | ⟨_, hq, he⟩
    · rw [hl] at hl'; cases hl'
    · rw [he] at hn; cases hn
    · rw [he] at hn; cases hn
  | resumeWait x y p dt hp hn =>
    refine ⟨?_, fun hx => absurd rfl (hx x y)⟩
    intro x' y' hx hl
    cases hx
    simp only [dev_onResume] at hn ⊢
    rcases onResume_cases c s.dev s.now x y p with ⟨hl', _⟩ | ⟨_, _, he⟩ | ⟨_, hq, he⟩
    · rw [hl] at hl'; cases hl'
    · rw [he]; rfl
    · rw [he] at hn; cases hn
  | fireEmit p due k htx hnow hn =>
    refine ⟨fun _ _ hx => (by cases hx), fun _ => ?_⟩
    simp only [dev_onFire, dev_onDone, onDone, onFire, issueGet_dev']
    rfl
  | fireLose p due k htx hnow hn => simp [dev, onFire] at hn
  | fireWait p due k dt htx hnow hn => simp [dev, onFire] at hn
  | tick t h1 h2 h3 h4 h5 => exact ⟨fun _ _ hx => (by cases hx), fun _ => rfl⟩

/-- the loss test of `Wire.run` -/
theorem lostNow_iff (c : WireCfg ℚ) (x : ℚ) : lostNow c x = true ↔ ∃ r, lossOn c = some r ∧ x < r := by
  unfold lostNow
  cases h : lossOn c with
  | none => simp
  | some r => simp

/-- `loss_rate` is truthy: set and not zero -/
theorem lossOn_iff (c : WireCfg ℚ) (r : ℚ) : lossOn c = some r ↔ c.lossRate = some r ∧ r ≠ 0 := by
  unfold lossOn Num.optOn Num.truthy
  cases h : c.lossRate with
  | none => simp
  | some v =>
    have hz : (Num.zero : ℚ) = 0 := zero_eq'
    simp only [hz, Bool.or_eq_true, decide_eq_true_eq, Option.some.injEq]
    constructor
    · intro h1
      split at h1
      · rename_i h2
        simp only [Option.some.injEq] at h1
        subst h1
        refine ⟨rfl, ?_⟩
        rcases h2 with h2 | h2
        · exact ne_of_lt h2
        · exact ne_of_gt h2
      · cases h1
    · rintro ⟨rfl, h2⟩
      rw [if_pos (lt_or_gt_of_ne h2)]

/-- the loss rate is `None` or zero (`not self.loss_rate`) -/
def NoLoss (c : WireCfg ℚ) : Prop := c.lossRate = none ∨ c.lossRate = some 0

theorem noLoss_lostNow (c : WireCfg ℚ) (hc : NoLoss c) (x : ℚ) : lostNow c x = false := by
  by_contra h
  obtain ⟨r, hr, _⟩ := (lostNow_iff c x).mp (by simpa using h)
  obtain ⟨h1, h2⟩ := (lossOn_iff c r).mp hr
  rcases hc with hc | hc
  · rw [hc] at h1; cases h1
  · rw [hc] at h1; simp only [Option.some.injEq] at h1; exact h2 h1.symm

end Wire

/-! ## Cable -/

namespace Cable
open Fifo

/-- run a cable through a sequence of cable actions -/
def run (c : WireCfg ℚ) : St ℚ → List (CableAct ℚ) → Except String (St ℚ)
  | s, [] => .ok s
  | s, a :: as =>
    match Cable.step c s a with
    | .error m => .error m
    | .ok (s1, _) => run c s1 as

/-- what wire 1 sees of a cable run: its own actions and the clock -/
def proj1 : List (CableAct ℚ) → List (FAct ℚ)
  | [] => []
  | .w1 a :: r => a :: proj1 r
  | .w2 _ :: r => proj1 r
  | .tick t :: r => .tick t :: proj1 r

/-- what wire 2 sees -/
def proj2 : List (CableAct ℚ) → List (FAct ℚ)
  | [] => []
  | .w1 _ :: r => proj2 r
  | .w2 a :: r => a :: proj2 r
  | .tick t :: r => .tick t :: proj2 r

theorem step_w1 (c : WireCfg ℚ) (s s' : St ℚ) (a : FAct ℚ) (o : FOut ℚ) (h : Cable.step c s (.w1 a) = .ok (s', o)) :
    s'.2 = s.2 ∧ Fifo.step (Wire.dev c) s.1 a = .ok (s'.1, o) := by
  simp only [Cable.step] at h
  split at h
  · cases h
  · split at h
    · rename_i h1
      simp only [Except.ok.injEq, Prod.mk.injEq] at h
      obtain ⟨rfl, rfl⟩ := h
      exact ⟨rfl, h1⟩
    · cases h

theorem step_w2 (c : WireCfg ℚ) (s s' : St ℚ) (a : FAct ℚ) (o : FOut ℚ) (h : Cable.step c s (.w2 a) = .ok (s', o)) :
    s'.1 = s.1 ∧ Fifo.step (Wire.dev c) s.2 a = .ok (s'.2, o) := by
  simp only [Cable.step] at h
  split at h
  · cases h
  · split at h
    · rename_i h1
      simp only [Except.ok.injEq, Prod.mk.injEq] at h
      obtain ⟨rfl, rfl⟩ := h
      exact ⟨rfl, h1⟩
    · cases h

theorem step_tick (c : WireCfg ℚ) (s s' : St ℚ) (t : ℚ) (o : FOut ℚ) (h : Cable.step c s (.tick t) = .ok (s', o)) :
    (∃ o1, Fifo.step (Wire.dev c) s.1 (.tick t) = .ok (s'.1, o1)) ∧
    (∃ o2, Fifo.step (Wire.dev c) s.2 (.tick t) = .ok (s'.2, o2)) := by
  simp only [Cable.step] at h
  split at h
  · rename_i s1 o1 s2 o2 h1 h2
    simp only [Except.ok.injEq, Prod.mk.injEq] at h
    obtain ⟨rfl, rfl⟩ := h
    exact ⟨⟨o1, h1⟩, ⟨o2, h2⟩⟩
  · cases h
  · cases h

end Cable
