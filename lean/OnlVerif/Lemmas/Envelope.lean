import Mathlib.Tactic.Linarith
import Mathlib.Tactic.Ring
import Mathlib.Tactic.FieldSimp
import Mathlib.Algebra.Order.Field.Rat
/-!
# Token-bucket envelopes over a debit log (pure list / ℚ lemmas)

A debit log is a list of `(instant, size)` records, **newest first**.  `Conforms B r l` is the (r, B) envelope
over *every* contiguous stretch of the log: for a stretch that starts with record `ei` (older) and ends with `ej`
(newer), `size_i + … + size_j ≤ max(B, size_i) + r·(t_j − t_i)/8`.  `Cred` is the telescoping invariant that
carries it: the current token level counts as one more, not yet debited, packet.
-/

namespace Envelope

/-- total size of a stretch of the log -/
def bytes (l : List (ℚ × ℕ)) : ℚ := (l.map (fun e => (e.2 : ℚ))).sum

@[simp] theorem bytes_nil : bytes [] = 0 := rfl
@[simp] theorem bytes_cons (e : ℚ × ℕ) (l : List (ℚ × ℕ)) : bytes (e :: l) = e.2 + bytes l := by
  simp [bytes]

/-- with `lvl` tokens in the bucket at `upd`, every stretch from a record `ei` up to the newest record, plus the
tokens still there, fits the envelope that starts at `ei` -/
def Cred (B r lvl upd : ℚ) (l : List (ℚ × ℕ)) : Prop :=
  ∀ mid ei older, l = mid ++ ei :: older → bytes mid + ei.2 + lvl ≤ max B ei.2 + r * (upd - ei.1) / 8

/-- every stretch `ei … ej` of the log fits the (r, B) envelope -/
def Conforms (B r : ℚ) (l : List (ℚ × ℕ)) : Prop :=
  ∀ newer ej mid ei older, l = newer ++ ej :: (mid ++ ei :: older) →
    ej.2 + bytes mid + ei.2 ≤ max B ei.2 + r * (ej.1 - ei.1) / 8

theorem cred_nil (B r lvl upd : ℚ) : Cred B r lvl upd [] := by
  intro mid ei older h
  cases mid <;> cases h

theorem conforms_nil (B r : ℚ) : Conforms B r [] := by
  intro newer ej mid ei older h
  cases newer <;> cases h

/-- the level may change by at most the tokens credited for the elapsed time (refill with or without a cap,
emptying a bucket, letting time pass) -/
theorem cred_advance {B r lvl upd lvl' upd' : ℚ} {l : List (ℚ × ℕ)} (h : Cred B r lvl upd l)
    (hl : lvl' ≤ lvl + r * (upd' - upd) / 8) : Cred B r lvl' upd' l := by
  intro mid ei older hd
  have := h mid ei older hd
  have e : r * (upd' - ei.1) / 8 = r * (upd - ei.1) / 8 + r * (upd' - upd) / 8 := by ring
  rw [e]; linarith

/-- a packet of `s` bytes is debited at `upd` from a level that does not exceed `max(B, s)` -/
theorem cred_push {B r lvl upd : ℚ} {l : List (ℚ × ℕ)} (s : ℕ) (h : Cred B r lvl upd l) (hl : lvl ≤ max B s) :
    Cred B r (lvl - s) upd ((upd, s) :: l) := by
  intro mid ei older hd
  rcases List.cons_eq_append_iff.mp hd with ⟨rfl, h2⟩ | ⟨mid', rfl, h2⟩
  · cases h2
    simp only [bytes_nil, sub_self, mul_zero, zero_div, add_zero]
    linarith
  · have := h mid' ei older h2
    simp only [bytes_cons]
    linarith

/-- … and if the level covered it, every stretch ending with the new record conforms -/
theorem conforms_push {B r lvl upd : ℚ} {l : List (ℚ × ℕ)} (s : ℕ) (hc : Conforms B r l) (h : Cred B r lvl upd l)
    (hs : (s : ℚ) ≤ lvl) : Conforms B r ((upd, s) :: l) := by
  intro newer ej mid ei older hd
  rcases List.cons_eq_append_iff.mp hd with ⟨rfl, h2⟩ | ⟨newer', rfl, h2⟩
  · cases h2
    have := h mid ei older rfl
    linarith
  · exact hc newer' ej mid ei older h2

/-! ### one bucket `(B, r)` with level `lvl` last updated at `upd`, seen at `now ≥ upd` -/

/-- refill: `min(B, lvl + r·(now − upd)/8)` -/
theorem bucket_refill {B r lvl upd now : ℚ} {l : List (ℚ × ℕ)} (h : Cred B r lvl upd l) :
    Cred B r (min B (lvl + r * (now - upd) / 8)) now l :=
  cred_advance h (min_le_right _ _)

/-- the level is lowered (a bucket is emptied) and / or time passes without credit -/
theorem bucket_lower {B r lvl upd lvl' now : ℚ} {l : List (ℚ × ℕ)} (h : Cred B r lvl upd l) (hr : 0 ≤ r)
    (hu : upd ≤ now) (hl : lvl' ≤ lvl) : Cred B r lvl' now l := by
  refine cred_advance h ?_
  have : 0 ≤ r * (now - upd) / 8 := div_nonneg (mul_nonneg hr (by linarith)) (by norm_num)
  linarith

/-- refill at `now`, then debit a packet the refilled level covers -/
theorem bucket_debit {B r lvl upd now : ℚ} {l : List (ℚ × ℕ)} (s : ℕ) (h : Cred B r lvl upd l) (hc : Conforms B r l)
    (hs : (s : ℚ) ≤ min B (lvl + r * (now - upd) / 8)) :
    Cred B r (min B (lvl + r * (now - upd) / 8) - s) now ((now, s) :: l) ∧ Conforms B r ((now, s) :: l) :=
  ⟨cred_push s (bucket_refill h) (le_trans (min_le_left _ _) (le_max_left _ _)),
   conforms_push s hc (bucket_refill h) hs⟩

/-- the wait for exactly the missing tokens is over at `now = upd + (s − lvl)·8/r`: debit, the bucket is empty -/
theorem bucket_wait_debit {B r lvl upd now : ℚ} {l : List (ℚ × ℕ)} (s : ℕ) (h : Cred B r lvl upd l) (hc : Conforms B r l)
    (hr : 0 < r) (hn : now = upd + ((s : ℚ) - lvl) * 8 / r) :
    Cred B r 0 now ((now, s) :: l) ∧ Conforms B r ((now, s) :: l) := by
  have hr' : r ≠ 0 := ne_of_gt hr
  have hfull : (s : ℚ) ≤ lvl + r * (now - upd) / 8 := by
    have e : now - upd = ((s : ℚ) - lvl) * 8 / r := by linarith
    rw [e]
    have : r * (((s : ℚ) - lvl) * 8 / r) / 8 = (s : ℚ) - lvl := by field_simp
    rw [this]; linarith
  have h1 : Cred B r (s : ℚ) now l := cred_advance h hfull
  have h2 := cred_push s h1 (le_max_right _ _)
  rw [sub_self] at h2
  exact ⟨h2, conforms_push s hc h1 (le_refl _)⟩

/-- a stretch of one record conforms trivially -/
theorem single_conforms (B : ℚ) (s : ℕ) : (s : ℚ) ≤ max B s := le_max_right _ _

/-- consecutive records of a departure log (newest first) are at least `8·size/peak` apart -/
def Spaced (pk : ℚ) (l : List (ℚ × ℕ)) : Prop :=
  ∀ newer e2 e1 older, l = newer ++ e2 :: e1 :: older → e1.1 + (e2.2 : ℚ) * 8 / pk ≤ e2.1

theorem spaced_nil (pk : ℚ) : Spaced pk [] := by
  intro newer e2 e1 older h
  cases newer <;> cases h

theorem spaced_push {pk : ℚ} {l : List (ℚ × ℕ)} (t : ℚ) (s : ℕ) (h : Spaced pk l)
    (hl : ∀ e, l.head? = some e → e.1 + (s : ℚ) * 8 / pk ≤ t) : Spaced pk ((t, s) :: l) := by
  intro newer e2 e1 older hd
  rcases List.cons_eq_append_iff.mp hd with ⟨rfl, h2⟩ | ⟨newer', rfl, h2⟩
  · cases h2
    exact hl e1 rfl
  · exact h newer' e2 e1 older h2

end Envelope
