import OnlVerif.Lemmas.TcpLiveDecr
import OnlVerif.Lemmas.TcpLiveQuiet
import Mathlib.Logic.Relation
/-!
# Fair runs of the closed loop terminate, and only in the complete state (C16)

* enabledness: in a state that is not quiescent some fair action is accepted (`fair_progress`);
* well-foundedness: every fair step decreases `mu` (`TcpLiveDecr.lean`), so fair runs are finite (`fair_acc`), also
  when interleaved with at most `k` losses (`bstep_acc`);
* hence from every state satisfying the invariant a loss-free run reaches the complete state (`can_complete`).
-/

open TcpScalar TcpSender TcpSink TcpLoop Sender

namespace AL
variable {β : Type}

theorem get?_of_mem_nodup {k : Nat} {v : β} : ∀ {l : List (Nat × β)}, (keys l).Nodup → (k, v) ∈ l → get? k l = some v := by
  intro l
  induction l with
  | nil => intro _ h; simp at h
  | cons x rest ih =>
    intro hn hm
    obtain ⟨k', v'⟩ := x
    have hn' := List.nodup_cons.mp hn
    unfold get?
    rcases List.mem_cons.mp hm with e | e
    · injection e with e1 e2
      subst e1 e2
      simp
    · have hk : k ∈ keys rest := mem_keys_of_mem e
      have : k' ≠ k := fun c => hn'.1 (c ▸ hk)
      simp only [this, if_false]
      exact ih hn'.2 e

end AL

namespace TcpLive

variable {n : Nat} {l : Loop ℚ}

/-! ## enabledness -/

theorem ackStep_ok {s : Sender ℚ} {x : AckIn ℚ} (h : Inv s) (hok : AckOk s x) : ∃ s' outs, s.ackStep x = .ok s' outs := by
  rcases Nat.lt_trichotomy x.ackno s.last_ack with hst | hd | hd
  · exact ⟨_, _, ackStep_stale s x hok hst⟩
  · rcases Nat.lt_trichotomy s.dupack 2 with h2 | h2 | h2
    · exact ⟨_, _, ackStep_early s x hok hd h2⟩
    · exact ⟨_, _, ackStep_third s x hok hd h2⟩
    · exact ⟨_, _, ackStep_more s x hok hd (by omega)⟩
  · obtain ⟨T, S, r, _⟩ := ackStep_new_spec s x h.cc h.keys h.nodup hok hd
    exact ⟨_, _, r⟩

theorem runLoop_total (fuel : Nat) : ∀ (s : Sender ℚ) (acc : List (Tx ℚ)), SInv n s → n - s.next_seq < fuel →
    ∃ s' outs, runLoop fuel s acc = .ok s' outs := by
  induction fuel with
  | zero => intro s acc _ hf; omega
  | succ fuel ih =>
    intro s acc h hf
    unfold runLoop
    rcases sendStep_cases h with ⟨_, e⟩ | ⟨hd, _, e⟩ | ⟨_, _, e⟩
    · rw [e]; exact ⟨_, _, rfl⟩
    · rw [e]
      simp only
      apply ih _ _ (sinv_sent h hd)
      have := h.mpos
      show n - (s.next_seq + s.mss) < fuel
      omega
    · rw [e]; exact ⟨_, _, rfl⟩

theorem exists_min_wake : ∀ T : List (Nat × TimerRec ℚ), T ≠ [] → ∃ kv ∈ T, ∀ kv' ∈ T, kv.2.wake ≤ kv'.2.wake := by
  intro T
  induction T with
  | nil => intro h; exact absurd rfl h
  | cons x rest ih =>
    intro _
    by_cases hr : rest = []
    · subst hr
      exact ⟨x, List.mem_cons_self, fun kv' hkv' => by simp at hkv'; subst hkv'; exact le_refl _⟩
    · obtain ⟨m, hm, hmin⟩ := ih hr
      by_cases hx : x.2.wake ≤ m.2.wake
      · refine ⟨x, List.mem_cons_self, fun kv' hkv' => ?_⟩
        rcases List.mem_cons.mp hkv' with e | e
        · subst e; exact le_refl _
        · exact le_trans hx (hmin kv' e)
      · refine ⟨m, List.mem_cons_of_mem _ hm, fun kv' hkv' => ?_⟩
        rcases List.mem_cons.mp hkv' with e | e
        · subst e; exact le_of_lt (not_le.mp hx)
        · exact hmin kv' e

/-- **no fair deadlock**: while the kernel has something left to do, some fair action is accepted -/
theorem fair_progress (h : LInv n l) (hq : ¬ l.Quiescent) : ∃ a l', Loop.Fair l a ∧ l.step a = some l' := by
  by_cases hd : l.data = []
  swap
  · -- a delivery
    obtain ⟨tx, rest, hd'⟩ := List.exists_cons_of_ne_nil hd
    obtain ⟨hsep', _⟩ := packetArrived_spec l.sink tx.seq tx.size h.sink
    obtain ⟨p, hn, _⟩ := ackOf_isPrefix _ hsep' (packetArrived_ne_nil l.sink tx.seq tx.size)
    have hput : TcpSink.put l.sink tx.seq tx.size = (packetArrived l.sink tx.seq tx.size, .ok p) := by
      unfold TcpSink.put; simp only [hn]
    have : ∃ l', l.step .deliver = some l' := by
      unfold Loop.step
      simp only [hd', hput]
      exact ⟨_, rfl⟩
    obtain ⟨l', hs⟩ := this
    exact ⟨_, l', .deliver, hs⟩
  by_cases ha : l.acks = []
  swap
  · -- an ACK arrival
    obtain ⟨x, rest, ha'⟩ := List.exists_cons_of_ne_nil ha
    have ox := h.acks x (by rw [ha']; exact List.mem_cons_self)
    obtain ⟨s', outs, r⟩ := ackStep_ok h.s.inv (ox.good h).ok
    have r' : l.snd.step (.ack x) = .ok s' outs := r
    have : ∃ l', l.step .ackArrive = some l' := by
      unfold Loop.step
      simp only [ha', r']
      exact ⟨_, rfl⟩
    obtain ⟨l', hs⟩ := this
    exact ⟨_, l', .ackArrive, hs⟩
  by_cases hp : l.snd.proc = .runnable
  · -- `run` resumes
    obtain ⟨s', outs, r⟩ := runLoop_total (n + 1) l.snd [] h.s (by omega)
    have r' : l.snd.step (.wake (n + 1)) = .ok s' outs := by
      show l.snd.wakeStep (n + 1) = _
      unfold Sender.wakeStep
      rw [if_pos hp]; exact r
    have : ∃ l', l.step (.own (.wake (n + 1))) = some l' := by
      unfold Loop.step
      simp only [Loop.isAck, Bool.false_eq_true, if_false, r']
      exact ⟨_, rfl⟩
    obtain ⟨l', hs⟩ := this
    exact ⟨_, l', .wake _, hs⟩
  by_cases hh : l.snd.proc = .blocked ∧ l.snd.tokens > 0
  · -- a token is handed over
    have r' : l.snd.step .handoff = .ok { l.snd with tokens := l.snd.tokens - 1, proc := .runnable } [] := by
      show l.snd.handoffStep = _
      unfold Sender.handoffStep
      rw [if_pos hh]
    have : ∃ l', l.step (.own .handoff) = some l' := by
      unfold Loop.step
      simp only [Loop.isAck, Bool.false_eq_true, if_false, r']
      exact ⟨_, rfl⟩
    obtain ⟨l', hs⟩ := this
    exact ⟨_, l', .handoff, hs⟩
  -- a timer: due now, or the clock advances to the earliest
  have hT : l.snd.timers ≠ [] := by
    intro hT
    apply hq
    exact ⟨hd, ha, fun kv hkv => by rw [hT] at hkv; simp at hkv, hp, hh⟩
  obtain ⟨m, hm, hmin⟩ := exists_min_wake l.snd.timers hT
  obtain ⟨ml, me, mn⟩ := h.s.live m hm
  have hget : AL.get? m.1 l.snd.timers = some m.2 := AL.get?_of_mem_nodup h.s.inv.nodup hm
  by_cases hdue : m.2.wake = l.snd.now
  · obtain ⟨s', outs, r⟩ := fire_enabled hget ⟨ml, hdue, by rw [← me, hdue]; exact lt_irrefl _⟩
    have r' : l.snd.step (.fire m.1) = .ok s' outs := r
    have : ∃ l', l.step (.own (.fire m.1)) = some l' := by
      unfold Loop.step
      simp only [Loop.isAck, Bool.false_eq_true, if_false, r']
      exact ⟨_, rfl⟩
    obtain ⟨l', hs⟩ := this
    exact ⟨_, l', .fire _, hs⟩
  · have hlt : l.snd.now < m.2.wake := lt_of_le_of_ne mn (Ne.symm hdue)
    have hov : l.snd.overdue m.2.wake = false := by
      unfold Sender.overdue
      rw [List.any_eq_false]
      intro kv hkv
      have := hmin kv hkv
      simp only [Bool.and_eq_true, decide_eq_true_eq, not_and, not_lt]
      intro _; exact this
    have r' : l.snd.step (.tick m.2.wake) = .ok { l.snd with now := m.2.wake } [] := by
      show l.snd.tickStep m.2.wake = _
      unfold Sender.tickStep
      rw [if_neg (not_lt.mpr hlt.le), if_neg hp, if_neg hh, hov]
      simp
    have : ∃ l', l.step (.own (.tick m.2.wake)) = some l' := by
      unfold Loop.step
      simp only [Loop.isAck, Bool.false_eq_true, if_false, r']
      exact ⟨_, rfl⟩
    obtain ⟨l', hs⟩ := this
    exact ⟨_, l', .tick _ hd ha hlt ⟨m, hm, ml, (eqb_iff _ _).mpr rfl⟩, hs⟩

/-! ## fair runs are finite -/

theorem fair_acc (h : LInv n l) : Acc (fun b a => Loop.FairStep a b) l := by
  have key : ∀ m : Nat × Nat × Nat × Nat × Nat, ∀ l : Loop ℚ, LInv n l → mu n l = m → Acc (fun b a => Loop.FairStep a b) l := by
    intro m
    induction m using lt5_wf.induction with
    | _ m ih =>
      intro l h e
      refine Acc.intro _ fun l' hstep => ?_
      obtain ⟨a, hf, hs⟩ := hstep
      exact ih (mu n l') (e ▸ fair_decreases h hf hs) l' (LInv_step h hs) rfl
  exact key _ l h rfl

/-- fair runs interleaved with at most `k` losses are finite -/
theorem bstep_acc (k : Nat) : ∀ l : Loop ℚ, LInv n l → Acc (fun b a => Loop.BStep a b) (k, l) := by
  induction k with
  | zero =>
    intro l h
    have hacc := fair_acc h
    induction hacc with
    | intro l _ ih =>
      refine Acc.intro _ fun y hy => ?_
      generalize hx : ((0 : Nat), l) = x at hy
      cases hy with
      | fair hf =>
        injection hx with e1 e2; subst e1 e2
        obtain ⟨a, hfa, hs⟩ := hf
        exact ih _ ⟨a, hfa, hs⟩ (LInv_step h hs)
      | dropData i hs => injection hx with e1 e2; omega
      | dropAck i hs => injection hx with e1 e2; omega
  | succ k ihk =>
    intro l h
    have hacc := fair_acc h
    induction hacc with
    | intro l _ ih =>
      refine Acc.intro _ fun y hy => ?_
      generalize hx : (k + 1, l) = x at hy
      cases hy with
      | fair hf =>
        injection hx with e1 e2; subst e1 e2
        obtain ⟨a, hfa, hs⟩ := hf
        exact ih _ ⟨a, hfa, hs⟩ (LInv_step h hs)
      | dropData i hs =>
        injection hx with e1 e2
        have e1' := Nat.succ.inj e1
        subst e1' e2
        exact ihk _ (LInv_step h hs)
      | dropAck i hs =>
        injection hx with e1 e2
        have e1' := Nat.succ.inj e1
        subst e1' e2
        exact ihk _ (LInv_step h hs)

/-- an accessible point starts no infinite descending sequence -/
theorem no_infinite_of_acc {α : Type} {r : α → α → Prop} {x : α} (hacc : Acc r x) :
    ¬ ∃ f : Nat → α, f 0 = x ∧ ∀ i, r (f (i + 1)) (f i) := by
  induction hacc with
  | intro x _ ih =>
    rintro ⟨f, f0, hf⟩
    exact ih (f 1) (f0 ▸ hf 0) ⟨fun i => f (i + 1), rfl, fun i => hf (i + 1)⟩

/-! ## no dead end -/

theorem fair_noDrop {a : LAct ℚ} (hf : Loop.Fair l a) : a.noDrop = true := by
  cases hf <;> rfl

/-- **from every state satisfying the invariant a loss-free run reaches the complete state** -/
theorem can_complete (h : LInv n l) :
    ∃ acts l', (∀ a ∈ acts, a.noDrop = true) ∧ l.run acts = some l' ∧ l'.Quiescent ∧ l'.Complete n := by
  have hacc := fair_acc h
  induction hacc with
  | intro l _ ih =>
    by_cases hq : l.Quiescent
    · exact ⟨[], l, fun a ha => by simp at ha, rfl, hq, quiescent_complete h hq⟩
    · obtain ⟨a, l1, hf, hs⟩ := fair_progress h hq
      obtain ⟨acts, l', h1, h2, h3, h4⟩ := ih l1 ⟨a, hf, hs⟩ (LInv_step h hs)
      refine ⟨a :: acts, l', ?_, ?_, h3, h4⟩
      · intro b hb
        rcases List.mem_cons.mp hb with e | e
        · subst e; exact fair_noDrop hf
        · exact h1 b e
      · unfold Loop.run
        simp only [hs]
        exact h2

/-! ## runs with a loss budget -/

theorem bstep_LInv {x y : Nat × Loop ℚ} (hb : Loop.BStep x y) (h : LInv n x.2) : LInv n y.2 := by
  cases hb with
  | fair hf => obtain ⟨a, _, hs⟩ := hf; exact LInv_step h hs
  | dropData i hs => exact LInv_step h hs
  | dropAck i hs => exact LInv_step h hs

theorem breach_LInv {x y : Nat × Loop ℚ} (hr : Relation.ReflTransGen Loop.BStep x y) (h : LInv n x.2) : LInv n y.2 := by
  induction hr with
  | refl => exact h
  | tail _ hb ih => exact bstep_LInv hb ih

/-- a budgeted fair run is a run of the closed loop -/
theorem breach_lreach {x y : Nat × Loop ℚ} (hr : Relation.ReflTransGen Loop.BStep x y) : LReach x.2 y.2 := by
  induction hr with
  | refl => exact .init
  | tail _ hb ih =>
    cases hb with
    | fair hf => obtain ⟨a, _, hs⟩ := hf; exact .step ih hs
    | dropData i hs => exact .step ih hs
    | dropAck i hs => exact .step ih hs

/-- a run that cannot continue has reached a quiescent state -/
theorem stuck_quiescent {k : Nat} (h : LInv n l) (hstuck : ∀ y, ¬ Loop.BStep (k, l) y) : l.Quiescent := by
  by_contra hq
  obtain ⟨a, l', hf, hs⟩ := fair_progress h hq
  exact hstuck (k, l') (.fair ⟨a, hf, hs⟩)

/-- and conversely a quiescent state allows no further step, whatever the budget -/
theorem quiescent_stuck {k : Nat} (hq : l.Quiescent) : ∀ y, ¬ Loop.BStep (k, l) y := by
  intro y hb
  generalize hx : (k, l) = x at hb
  cases hb with
  | fair hf =>
    injection hx with e1 e2; subst e1 e2
    obtain ⟨a, hfa, hs⟩ := hf
    cases hfa with
    | tick t hd ha hlt hex =>
      obtain ⟨kv, hkv, hl, _⟩ := hex
      have := hq.2.2.1 kv hkv
      rw [hl] at this
      cases this
    | wake fuel => rw [quiescent_no_event hq _ (fun t e => by cases e)] at hs; cases hs
    | handoff => rw [quiescent_no_event hq _ (fun t e => by cases e)] at hs; cases hs
    | fire q => rw [quiescent_no_event hq _ (fun t e => by cases e)] at hs; cases hs
    | deliver => rw [quiescent_no_event hq _ (fun t e => by cases e)] at hs; cases hs
    | ackArrive => rw [quiescent_no_event hq _ (fun t e => by cases e)] at hs; cases hs
  | dropData i hs =>
    injection hx with e1 e2; subst e2
    rw [quiescent_no_event hq _ (fun t e => by cases e)] at hs; cases hs
  | dropAck i hs =>
    injection hx with e1 e2; subst e2
    rw [quiescent_no_event hq _ (fun t e => by cases e)] at hs; cases hs

/-- the Boolean test is sound -/
theorem fairB_sound {a : LAct ℚ} (h : Loop.fairB l a = true) : Loop.Fair l a := by
  cases a with
  | own act =>
    cases act with
    | wake f => exact .wake f
    | handoff => exact .handoff
    | fire q => exact .fire q
    | ack x => simp [Loop.fairB] at h
    | tick t =>
      simp only [Loop.fairB, Bool.and_eq_true, List.isEmpty_iff, decide_eq_true_eq, List.any_eq_true] at h
      obtain ⟨⟨⟨h1, h2⟩, h3⟩, kv, hkv, h4, h5⟩ := h
      exact .tick t h1 h2 h3 ⟨kv, hkv, h4, h5⟩
  | deliver => exact .deliver
  | ackArrive => exact .ackArrive
  | dropData i => simp [Loop.fairB] at h
  | dropAck i => simp [Loop.fairB] at h

theorem runB_sound : ∀ (acts : List (LAct ℚ)) (k : Nat) (l : Loop ℚ) (y : Nat × Loop ℚ),
    Loop.runB k l acts = some y → Relation.ReflTransGen Loop.BStep (k, l) y := by
  intro acts
  induction acts with
  | nil =>
    intro k l y h
    simp only [Loop.runB] at h
    injection h with h
    subst h
    exact .refl
  | cons a rest ih =>
    intro k l y h
    unfold Loop.runB at h
    cases hs : l.step a with
    | none => rw [hs] at h; cases h
    | some l' =>
      rw [hs] at h
      simp only at h
      by_cases hf : Loop.fairB l a = true
      · rw [if_pos hf] at h
        exact Relation.ReflTransGen.head (.fair ⟨a, fairB_sound hf, hs⟩) (ih _ _ _ h)
      · rw [if_neg hf] at h
        by_cases hdr : Loop.isDrop a = true
        · rw [if_pos hdr] at h
          cases k with
          | zero => cases h
          | succ k =>
            simp only at h
            cases a with
            | dropData i => exact Relation.ReflTransGen.head (.dropData i hs) (ih _ _ _ h)
            | dropAck i => exact Relation.ReflTransGen.head (.dropAck i hs) (ih _ _ _ h)
            | own act => simp [Loop.isDrop] at hdr
            | deliver => simp [Loop.isDrop] at hdr
            | ackArrive => simp [Loop.isDrop] at hdr
        · rw [if_neg hdr] at h
          cases h

end TcpLive
