import OnlVerif.Lemmas.WireKDefs
import OnlVerif.Lemmas.TimerKAbs
/-!
# The Wire on the kernel model: configuration steps (no kernel terms here)

`AStep a q a' new`: processing the agenda entry `q` takes the configuration `a` to `a'` and the wire forwards `new`.
The clock can advance to the next entry without changing anything else (`AInv.advance`).
-/

set_option linter.unusedSimpArgs false

namespace WireK
open WireOnK QEntry

variable (cfg : WireCfg ℚ) (losses delays : List ℚ)

/-- **one kernel step, seen on configurations**: the agenda entry `q` is processed; `outs` are forwarded; `lf` = the ids of
the packets that leave the wire in this step, forwarded or dropped -/
inductive AStep : A → QEntry ℚ → A → List (Int × ℚ) → List Int → Prop
  | wireInit (a : A) (q : QEntry ℚ) (g : EvId) (h : a.wire = .init q) :
      AStep a q { a with wire := .W g q.time 0 0 } [] []
  | srcInitEnd (a : A) (q q' : QEntry ℚ) (h : a.src = .init q []) (ht : q'.time = q.time) (hp : q'.prio = NORMAL) :
      AStep a q { a with src := .ending q' } [] []
  | srcInitWait (a : A) (q q' : QEntry ℚ) (gap : ℚ) (rest : List ℚ)
      (h : a.src = .init q (gap :: rest)) (ht : q'.time = q.time + gap) (hp : q'.prio = NORMAL) :
      AStep a q { a with src := .wait 0 rest q' } [] []
  | srcPutEnd (a : A) (q u q' : QEntry ℚ) (next : Nat) (h : a.src = .wait next [] q) (hn : a.pend = none)
      (hu : u.time = q.time ∧ u.prio = NORMAL) (ht : q'.time = q.time ∧ q'.prio = NORMAL) :
      AStep a q { a with src := .ending q', pend := some u, items := a.items ++ [(next : Int)], cts := a.cts ++ [q.time] } [] []
  | srcPutWait (a : A) (q u q' : QEntry ℚ) (next : Nat) (gap : ℚ) (rest : List ℚ)
      (h : a.src = .wait next (gap :: rest) q) (hn : a.pend = none)
      (hu : u.time = q.time ∧ u.prio = NORMAL) (ht : q'.time = q.time + gap ∧ q'.prio = NORMAL) (ho : u.eid < q'.eid) :
      AStep a q { a with src := .wait (next + 1) rest q', pend := some u, items := a.items ++ [(next : Int)],
                         cts := a.cts ++ [q.time] } [] []
  | putIdle (a : A) (q : QEntry ℚ) (h : a.pend = some q) (hw : a.wire.getQ = [] ∨ a.items = []) :
      AStep a q { a with pend := none } [] []
  | putHand (a : A) (q q' : QEntry ℚ) (g : EvId) (t0 : ℚ) (nl nd : Nat) (i : Int) (is : List Int) (h : a.pend = some q)
      (hw : a.wire = .W g t0 nl nd) (hi : a.items = i :: is) (ht : q'.time = q.time ∧ q'.prio = NORMAL) :
      AStep a q { a with pend := none, wire := .H g i q' t0 nl nd, items := is } [] []
  | serveLostIdle (a : A) (q : QEntry ℚ) (g g' : EvId) (id : Int) (t0 : ℚ) (nl nd : Nat) (h : a.wire = .H g id q t0 nl nd)
      (hl : isLost cfg (draw losses nl) = true) (hi : a.items = []) :
      AStep a q { a with wire := .W g' q.time (nlNext cfg nl) nd } [] [id]
  | serveLostNext (a : A) (q q' : QEntry ℚ) (g g' : EvId) (id : Int) (t0 : ℚ) (nl nd : Nat) (i : Int) (is : List Int)
      (h : a.wire = .H g id q t0 nl nd) (hl : isLost cfg (draw losses nl) = true) (hi : a.items = i :: is)
      (ht : q'.time = q.time ∧ q'.prio = NORMAL) :
      AStep a q { a with wire := .H g' i q' q.time (nlNext cfg nl) nd, items := is } [] [id]
  | serveWait (a : A) (q q' : QEntry ℚ) (g t : EvId) (id : Int) (t0 : ℚ) (nl nd : Nat) (h : a.wire = .H g id q t0 nl nd)
      (hl : isLost cfg (draw losses nl) = false) (hw : q.time - a.ctOf id < draw delays nd)
      (ht : q'.time = q.time + (draw delays nd - (q.time - a.ctOf id)) ∧ q'.prio = NORMAL) :
      AStep a q { a with wire := .T t id q' (nlNext cfg nl) (nd + 1) } [] []
  | serveOutIdle (a : A) (q : QEntry ℚ) (g g' : EvId) (id : Int) (t0 : ℚ) (nl nd : Nat) (h : a.wire = .H g id q t0 nl nd)
      (hl : isLost cfg (draw losses nl) = false) (hw : ¬ q.time - a.ctOf id < draw delays nd) (hi : a.items = []) :
      AStep a q { a with wire := .W g' q.time (nlNext cfg nl) (nd + 1) } [(id, q.time)] [id]
  | serveOutNext (a : A) (q q' : QEntry ℚ) (g g' : EvId) (id : Int) (t0 : ℚ) (nl nd : Nat) (i : Int) (is : List Int)
      (h : a.wire = .H g id q t0 nl nd) (hl : isLost cfg (draw losses nl) = false)
      (hw : ¬ q.time - a.ctOf id < draw delays nd) (hi : a.items = i :: is) (ht : q'.time = q.time ∧ q'.prio = NORMAL) :
      AStep a q { a with wire := .H g' i q' q.time (nlNext cfg nl) (nd + 1), items := is } [(id, q.time)] [id]
  | fireIdle (a : A) (q : QEntry ℚ) (t g : EvId) (id : Int) (nl nd : Nat) (h : a.wire = .T t id q nl nd) (hi : a.items = []) :
      AStep a q { a with wire := .W g q.time nl nd } [(id, q.time)] [id]
  | fireNext (a : A) (q q' : QEntry ℚ) (t g : EvId) (id : Int) (nl nd : Nat) (i : Int) (is : List Int)
      (h : a.wire = .T t id q nl nd) (hi : a.items = i :: is) (ht : q'.time = q.time ∧ q'.prio = NORMAL) :
      AStep a q { a with wire := .H g i q' q.time nl nd, items := is } [(id, q.time)] [id]
  | srcEnd (a : A) (q : QEntry ℚ) (h : a.src = .ending q) : AStep a q { a with src := .done } [] []

variable {cfg losses delays}

/-! ## agenda entries of a configuration -/

theorem mem_wire {a : A} {x : QEntry ℚ} (h : x ∈ a.wire.entries) : x ∈ a.entries := by
  simp [A.entries, h]

theorem mem_src {a : A} {x : QEntry ℚ} (h : x ∈ a.src.entries) : x ∈ a.entries := by
  simp [A.entries, h]

theorem mem_pend {a : A} {x : QEntry ℚ} (h : a.pend = some x) : x ∈ a.entries := by
  simp [A.entries, h]

/-- `q` is a minimal entry of the configuration: what `popMin` returns -/
def IsMin (a : A) (q : QEntry ℚ) : Prop := q ∈ a.entries ∧ ∀ x ∈ a.entries, ¬ KeyLt x q

variable {arrivals : List ℚ} {a : A} {now : ℚ} {outs : List (Int × ℚ)} {q : QEntry ℚ}

theorem AInv.now_le (hi : AInv cfg losses delays arrivals a now outs) (hq : IsMin a q) : now ≤ q.time := hi.due q hq.1

theorem AInv.time_eq (hi : AInv cfg losses delays arrivals a now outs) (hq : IsMin a q) {x : QEntry ℚ} (hx : x ∈ a.entries)
    (hxt : x.time = now) : q.time = now :=
  le_antisymm (hxt ▸ not_keyLt_time (hq.2 x hx)) (hi.due q hq.1)

theorem AInv.not_prio_lt (hi : AInv cfg losses delays arrivals a now outs) (hq : IsMin a q) {x : QEntry ℚ} (hx : x ∈ a.entries)
    (hxt : x.time = now) (hp : x.prio < q.prio) : False :=
  hq.2 x hx (TimerK.keyLt_of_now hxt (hi.now_le hq) (Or.inr (Or.inl hp)))

theorem AInv.not_eid_lt (hi : AInv cfg losses delays arrivals a now outs) (hq : IsMin a q) {x : QEntry ℚ} (hx : x ∈ a.entries)
    (hxt : x.time = now) (hp : x.prio = q.prio) (he : x.eid < q.eid) : False :=
  hq.2 x hx (TimerK.keyLt_of_now hxt (hi.now_le hq) (Or.inr (Or.inr ⟨hp, he⟩)))

/-- the packets still to come do not depend on `now` once the clock can advance -/
theorem future_advance (hi : AInv cfg losses delays arrivals a now outs) (hq : IsMin a q) :
    a.src.future q.time = a.src.future now := by
  have hs := hi.src
  cases hsrc : a.src with
  | init q0 arr =>
    rw [hsrc] at hs
    have : q.time = now := hi.time_eq hq (mem_src (by simp [hsrc, SPhase.entries])) hs.1
    rw [this]
  | wait next rest q0 => rfl
  | ending q0 => rfl
  | done => rfl

/-- **letting the clock advance to the next entry changes nothing else** -/
theorem AInv.advance (hi : AInv cfg losses delays arrivals a now outs) (hq : IsMin a q) :
    AInv cfg losses delays arrivals a q.time outs := by
  rcases eq_or_lt_of_le (hi.now_le hq) with h | h
  · rw [← h]; exact hi
  have hne : ∀ x ∈ a.entries, x.time ≠ now := fun x hx hxt => absurd (hi.time_eq hq hx hxt) (ne_of_gt h)
  have hpn : a.pend = none := by
    cases hp : a.pend with
    | none => rfl
    | some u => exact absurd (hi.pend u hp).1 (hne u (mem_pend hp))
  refine ⟨?_, ?_, ?_, hi.idle, ?_, ?_, ?_⟩
  · have hp := hi.wire
    cases hw : a.wire with
    | init q0 => rw [hw] at hp; exact absurd hp.1 (hne q0 (mem_wire (by simp [hw, WPhase.entries])))
    | W g t0 nl nd =>
      rw [hw] at hp
      refine ⟨le_trans hp.1 (le_of_lt h), ?_⟩
      intro i hi'
      exfalso
      have := hi.idle (by simp [hw, WPhase.idle]) (List.ne_nil_of_mem hi')
      rw [hpn] at this; cases this
    | H g id q0 t0 nl nd => rw [hw] at hp; exact absurd hp.1 (hne q0 (mem_wire (by simp [hw, WPhase.entries])))
    | T t id q0 nl nd => rw [hw] at hp; exact hp
  · have hs := hi.src
    cases hsrc : a.src with
    | init q0 arr => rw [hsrc] at hs; exact absurd hs.1 (hne q0 (mem_src (by simp [hsrc, SPhase.entries])))
    | wait next rest q0 => rw [hsrc] at hs; exact hs
    | ending q0 => rw [hsrc] at hs; exact absurd hs.1 (hne q0 (mem_src (by simp [hsrc, SPhase.entries])))
    | done => trivial
  · intro u hu; rw [hpn] at hu; cases hu
  · intro x hx; exact not_keyLt_time (hq.2 x hx)
  · intro i hi'
    obtain ⟨h1, h2, h3⟩ := hi.its i hi'
    exact ⟨h1, h2, le_trans h3 (le_of_lt h)⟩
  · rw [← hi.ghost]
    congr 1
    unfold pred A.waiting
    rw [future_advance hi hq]

end WireK
