import OnlVerif.Lemmas.VCKRefine
import OnlVerif.Lemmas.VCKOracle
/-!
# The VirtualClock scheduler on the kernel model: the full invariant along runs, and what holds when `run()` has returned
-/

set_option linter.unusedSimpArgs false

namespace VCK
open VCOnK QEntry Stamp

variable {N scale F : Nat} {flow size : Int → Nat} {cfg : VcCfg ℚ} {arrivals : List (ℚ × Int)}
variable {s : KS} {a : A} {q : QEntry ℚ} {rest : List (QEntry ℚ)}

/-! ## the arrivals still to come -/

/-- the `put`s the source will still make: packet and instant -/
def remaining : SPhase → List (Int × ℚ)
  | .init q arr => arrivalsFrom q.time arr
  | .wait id rest q => (id, q.time) :: arrivalsFrom q.time rest
  | _ => []

/-- the `put`s so far followed by those still to come are the workload -/
def PInv (arrivals : List (ℚ × Int)) (a : A) : Prop :=
  (a.puts.map fun w => (w.1, w.2.1)) ++ remaining a.src = arrivalsFrom 0 arrivals

theorem remaining_srcNext (t : ℚ) (e n : Nat) (arr : List (ℚ × Int)) : remaining (srcNext t e n arr) = arrivalsFrom t arr := by
  cases arr with
  | nil => rfl
  | cons x r => obtain ⟨g, i⟩ := x; rfl

theorem pinv_step {a' : A} {n e : Nat} {new : List (HEv ℚ)} (hp : PInv arrivals a)
    (h : AStep N scale flow size cfg n e a q a' new) : PInv arrivals a' := by
  unfold PInv at hp ⊢
  cases h with
  | runInit h0 => exact hp
  | pktResume g w h0 => exact hp
  | sendInit p id h0 => exact hp
  | sendFire p t id h0 => exact hp
  | doneHit p id0 w h0 hw => exact hp
  | doneBlock p id0 h0 hit => exact hp
  | srcInit arr h0 =>
    rw [h0] at hp
    show _ ++ remaining (srcNext q.time e n arr) = _
    rw [remaining_srcNext]
    exact hp
  | srcPut id arr h0 =>
    rw [h0] at hp
    show List.map _ (a.puts ++ [putRec flow cfg a q.time id]) ++ remaining (srcNext q.time (e + 1) (n + 1) arr) = _
    rw [remaining_srcNext, List.map_append, List.append_assoc]
    exact hp
  | srcEnd h0 =>
    rw [h0] at hp
    simpa [remaining] using hp
  | pendNoop l1 l2 hpe hno => exact hp
  | pendHand g w l1 l2 hpe h0 hw => exact hp

/-! ## the full invariant -/

/-- the kernel state is a sound configuration, the run so far is an LTS run, the history passes the oracle, the `put`s so far
are a prefix of the workload -/
structure Inv3 (N scale F : Nat) (flow size : Int → Nat) (cfg : VcCfg ℚ) (arrivals : List (ℚ × Int)) (s : KS) (a : A) :
    Prop where
  i : Inv N scale F flow cfg s a
  o : ∃ o, orun flow size cfg oInit (histOf s.trace) = some o ∧ OInv flow size cfg a s.now o
  p : PInv arrivals a

theorem entries_eid (hk : KInv N scale F s a) : ∀ x ∈ a.entries, x.eid < s.eid :=
  fun x hx => hk.wf.eid_lt x (hk.ag.symm.subset hx)

theorem inv3_step (fuel : Nat) (h : Inv3 N scale F flow size cfg arrivals s a) (hp : popMin s.agenda = some (q, rest)) :
    ∃ s' a', _root_.step (prog flow size cfg N scale) (fuel + 1) s = .ok s' ∧ Inv3 N scale F flow size cfg arrivals s' a' ∧
      a'.mu + 1 ≤ a.mu := by
  obtain ⟨s', a', new, h1, h2, h3, h4, h5, h6, -⟩ := inv_step_lts (size := size) fuel h.i hp
  have hmin := (isMin_of_pop h.i.k hp).1
  obtain ⟨o, hr, ho⟩ := h.o
  obtain ⟨o', hr', ho'⟩ := oracle_step_hist (h.i.ai.advance hmin) hmin (entries_eid h.i.k) hr
    (oinv_advance h.i.ai hmin ho) h4
  exact ⟨s', a', h1, ⟨h2, ⟨o', by rw [h6]; exact hr', by rw [h5]; exact ho'⟩, pinv_step h.p h4⟩, h3⟩

theorem inv3_init (hc : CfgOK F cfg) (hg : GridOK scale cfg arrivals) (hw : WorkOK N scale F flow arrivals) :
    Inv3 N scale F flow size cfg arrivals (initState F cfg arrivals) (a0 arrivals) := by
  obtain ⟨-, h2, h3⟩ := kinv_init (N := N) (scale := scale) hc arrivals
  refine ⟨inv_init hc hg hw, ⟨oInit, ?_, ?_⟩, ?_⟩
  · rw [h3]; rfl
  · rw [h2]; exact oinv_init arrivals
  · show _ ++ arrivalsFrom _ arrivals = _
    simp [a0]

/-- **every state reachable by kernel steps satisfies the full invariant** -/
theorem reach_inv3 (fuel : Nat) (hc : CfgOK F cfg) (hg : GridOK scale cfg arrivals) (hw : WorkOK N scale F flow arrivals)
    (h : KReach (prog flow size cfg N scale) (fuel + 1) (initState F cfg arrivals) s) :
    ∃ a, Inv3 N scale F flow size cfg arrivals s a := by
  induction h with
  | init => exact ⟨a0 arrivals, inv3_init hc hg hw⟩
  | @step s s' _ hs ih =>
    obtain ⟨a, hi⟩ := ih
    cases hp : popMin s.agenda with
    | none => simp [_root_.step, hp, StepResult.state?] at hs
    | some qr =>
      obtain ⟨q, rest⟩ := qr
      obtain ⟨s'', a', h1, h2, -⟩ := inv3_step fuel hi hp
      rw [h1] at hs
      simp only [StepResult.state?, Option.some.injEq] at hs
      subst hs
      exact ⟨a', h2⟩

/-- `run()` returns, with the full invariant -/
theorem run_returns3 (fuel : Nat) (s0 : KS) : ∀ (n : Nat) (s : KS) (a : A), Inv3 N scale F flow size cfg arrivals s a →
    a.mu < n → KReach (prog flow size cfg N scale) (fuel + 1) s0 s →
    ∃ sF aF, runLoop (prog flow size cfg N scale) (fuel + 1) none n s = .returned .none sF ∧
      Inv3 N scale F flow size cfg arrivals sF aF ∧ sF.agenda = [] ∧ KReach (prog flow size cfg N scale) (fuel + 1) s0 sF
  | 0, _, _, _, hmu, _ => absurd hmu (Nat.not_lt_zero _)
  | n + 1, s, a, h, hmu, hre => by
    cases hp : popMin s.agenda with
    | none =>
      refine ⟨s, a, ?_, h, popMin_none hp, hre⟩
      simp [_root_.runLoop, _root_.step, hp]
    | some qr =>
      obtain ⟨q, rest⟩ := qr
      obtain ⟨s', a', h1, h2, h3⟩ := inv3_step fuel h hp
      have := run_returns3 fuel s0 n s' a' h2 (by omega) (KReach.step hre (by rw [h1]; rfl))
      simpa [_root_.runLoop, h1] using this

/-- with an empty agenda everything has been served -/
theorem inv3_final (h : Inv3 N scale F flow size cfg arrivals s a) (he : s.agenda = []) :
    ∃ o, orun flow size cfg oInit (histOf s.trace) = some o ∧ drained o = true ∧
      putsOf s.trace = arrivalsFrom 0 arrivals ∧ held (toM flow size cfg a s.now) = [] := by
  have hag := h.i.k.ag
  rw [he] at hag
  have hent : a.entries = [] := List.Perm.eq_nil (hag.symm)
  obtain ⟨o, hr, ho⟩ := h.o
  refine ⟨o, hr, oinv_final h.i.ai ho hent, ?_, ?_⟩
  · have hp := h.p
    unfold PInv at hp
    have hsrc : a.src = .done := by
      simp only [A.entries, List.append_eq_nil_iff] at hent
      cases hs : a.src with
      | done => rfl
      | init q0 arr => rw [hs] at hent; simp [SPhase.entries] at hent
      | wait id r q0 => rw [hs] at hent; simp [SPhase.entries] at hent
      | ending q0 => rw [hs] at hent; simp [SPhase.entries] at hent
    rw [hsrc] at hp
    simp only [remaining, List.append_nil] at hp
    rw [putsOf_linv h.i.l, hp]
  · simp only [A.entries, List.append_eq_nil_iff] at hent
    have hrun := h.i.ai.run
    cases hr' : a.run with
    | W g =>
      rw [hr'] at hrun
      have hit : a.items = [] := by
        by_contra hne
        exact hrun.1 hne hent.2.2
      simp [held, inHand, waiting, toM, hr', hit]
    | init q0 => rw [hr'] at hent; simp [RPhase.entries] at hent
    | H g w q0 => rw [hr'] at hent; simp [RPhase.entries] at hent
    | S p id q0 => rw [hr'] at hent; simp [RPhase.entries] at hent
    | T p t id q0 => rw [hr'] at hent; simp [RPhase.entries] at hent
    | F p id q0 => rw [hr'] at hent; simp [RPhase.entries] at hent

end VCK
