import OnlVerif.Lemmas.SndKRun3
/-!
# The TCP sender on the kernel model: kernel steps of `run` (LTS action `wake`; its process event once it has returned)
-/

set_option linter.unusedSimpArgs false

namespace SndK
open SenderOnK TcpSender

/-- the configuration in which a burst of `run` starts -/
def aRunRun (a : A) (q : QEntry ℚ) : A := { aTick a q.time with run := .running, cur := some q.ev }

/-- the popped event resumes `run`: the state and configuration at the start of its burst -/
theorem run_start {s : KS} {a : A} {q : QEntry ℚ} {rest : List (QEntry ℚ)} {k0 : Kind} {c0 : List Cb} {v : Val}
    (hk : KI none s a) (hp : popMin s.agenda = some (q, rest)) (hent : a.run.entries = [q]) (hgq : a.run.getQ = [])
    (hev : EvIs s q.ev k0 c0 (some (.ok v))) (ow : Owned s q.ev 0) (hpe : EvIs s 0 .proc [] none) (arg : Resume) :
    KI (some 0) (startSt s q rest 0 arg) (aRunRun a q) := by
  have pt : ProcTag s 0 1 := hk.k.pt0
  have fr := startSt_frame s q rest 0 arg
  obtain ⟨_, k2, _, k4⟩ := hk.k.keepO fr ow pt
  refine ⟨?_, ?_⟩
  · refine hk.k.start hp hev.lt hev.2.2 ?_ rfl rfl rfl ?_ rfl rfl rfl rfl ?_ (k2 (by omega) (by simp))
      (fun u hu => (hk.k.pend u hu).avoidO ow) (fun seq hs => k4 seq hs (by omega) (by simp))
    · simp only [Kern.entries, kernOf, aRunRun, aTick]
      rw [hent]
      simp only [RPhase.entries]
      perm_lists
    · show RPhase.getQ .running = a.run.getQ
      rw [hgq]; rfl
    · have hne : (0 : EvId) ≠ q.ev := by
        rcases ow with ow | ⟨ow, _⟩ | ⟨ow, _⟩ <;> exact ne_of_kind hpe.1 ow (by simp)
      exact hpe.keep fr (by simpa using hne)
  · cells_same hk.c

/-- the sending loop starts under `ARun` -/
theorem ARun.of_inv {cfg : Cfg} {a : A} (hi : AInv cfg a) (q : QEntry ℚ) (ht : q.time = a.S.now) (hproc : a.S.proc = .runnable) :
    ARun cfg (aRunRun a q) := by
  have e : aTick a q.time = a := by rw [ht]; rfl
  unfold aRunRun
  rw [e]
  exact ⟨hi.inv, hi.kind, hi.mss, hi.size, hi.mpos, hi.spos, hi.dvd, hi.tks, hi.nmul, hi.bufle, hi.tkeys, hproc,
    hi.scr.congr rfl, hi.pend, fun seq hs => (hi.tm seq hs).congr rfl rfl rfl rfl, hi.putAt⟩

theorem fuel_ok (size next mss : Nat) : (size - next) / mss + 1 ≤ size + 2 := by
  have h1 : (size - next) / mss ≤ size - next := Nat.div_le_self _ _
  omega

/-- the `Initialize` event of `run`: the first resumption (LTS action `wake`) -/
theorem kstep_runInit {cfg : Cfg} (fuel : Nat) {s : KS} {a : A} {q : QEntry ℚ} {rest : List (QEntry ℚ)}
    (hk : KI none s a) (hiT : AInv cfg (aTick a q.time)) (hp : popMin s.agenda = some (q, rest))
    (hph : a.run = .init q) : StepGoal cfg fuel s (aTick a q.time).S a.txs := by
  have hre := hk.k.run
  simp only [kernOf, hph, RunEv] at hre
  obtain ⟨hqe, hev, hpr, hpe⟩ := hre
  have hev' : EvIs s q.ev (.init 0) [.resume 0] okNone := hqe ▸ hev
  have ow : Owned s q.ev 0 := Or.inl hev'.1
  have harg : argOf s 0 q.ev .none = .start := by unfold argOf; rw [hev'.1]; simp
  have h1 := run_start hk hp (by rw [hph]; rfl) (by rw [hph]; rfl) hev' ow hpe .start
  have hstep := step_resume (body cfg) fuel hp hev'.2.1 hev'.2.2 hpr
  rw [harg] at hstep
  have hrT : RunA (aTick a q.time) (.init q) := by
    have := hiT.run; rwa [show (aTick a q.time).run = a.run from rfl, hph] at this
  have hr1 : ARun cfg (aRunRun (aTick a q.time) q) := ARun.of_inv hiT q rfl hrT.2.2
  obtain ⟨S, a', new, e1, e2, ⟨v, e3⟩, e4, e5, e6⟩ := frag_run (cfg := cfg) fuel (e := q.ev)
    (pr := { st := .runStart q.time, target := some 1 }) rfl (cfg.size + 2) _ (aRunRun a q) [] h1 hr1 rfl rfl
    (fuel_ok _ _ _)
  have hS : step (body cfg) (fuel + 1) s = .ok S := by
    have e1' : TimerK.afterBurst (body cfg) 0 fuel { st := .runStart q.time, target := some 1 }
        (runBurst 0 (body cfg (.runStart q.time) .start) (startSt s q rest 0 .start)) = S := e1
    rw [hstep, e1']
    exact closeEvent_ok e3
  refine ⟨S, a', [.wake (cfg.size + 2)], new, hS, e2, e6, ?_, e5,
    fun x hx => by simp only [List.mem_singleton] at hx; subst hx; trivial⟩
  apply runLts_one
  show Sender.wakeStep _ _ = _
  unfold Sender.wakeStep
  rw [if_pos hrT.2.2]
  rw [List.nil_append] at e4
  exact e4

/-- `Environment.step` on a served `get` of the wake-up store: `_trigger_put` finds no pending `put`, then `_resume` -/
theorem step_resume_get (body : St → Resume → Burst ℚ St) (fuel : Nat) {s : KS} {q : QEntry ℚ} {rest : List (QEntry ℚ)}
    {p : EvId} {pr : ProcRec St} {v : Val} {gq : List EvId} {its : List Int} (hp : popMin s.agenda = some (q, rest))
    (hc : (s.ev q.ev).cbs = some [.trigPut 0, .resume p]) (ho : (s.ev q.ev).out = some (.ok v)) (hpr : s.proc? p = some pr)
    (hres : s.res 0 = storeRec gq its) :
    step body (fuel + 1) s =
      closeEvent { s := (TimerK.afterBurst body p fuel pr
        (runBurst p (body pr.st (argOf s p q.ev v)) (startSt s q rest p (argOf s p q.ev v)))) } q.ev := by
  have hlt : q.ev < s.events.size := KState.lt_of_cbs hc
  obtain ⟨_, h2, h3⟩ := openEvent_cur s q rest hlt
  rw [TimerK.step_eq _ _ _ _ _ _ hp hc]
  simp only [List.foldl, runCb]
  have htp : triggerPut (openEvent s q rest) 0 = openEvent s q rest :=
    triggerPut_none _ 0 gq its (show (openEvent s q rest).resources.getD 0 default = _ from hres)
  rw [htp]
  rw [TimerK.resume_eq _ _ _ _ _ _ (show (openEvent s q rest).proc? p = some pr from hpr)]
  have e1 : resumeArg (openEvent s q rest) p q.ev = argOf s p q.ev v := by
    unfold resumeArg argOf
    rw [h2, ho, h3]
  have e2 : deliverSt (openEvent s q rest) p q.ev = { openEvent s q rest with active := some p } := by
    unfold deliverSt
    rw [h2, ho]
  rw [e1, e2]
  rfl

/-- the `get` of `run` has been served: `run` resumes (LTS action `wake`) -/
theorem kstep_runHanded {cfg : Cfg} (fuel : Nat) {s : KS} {a : A} {q : QEntry ℚ} {rest : List (QEntry ℚ)} {g : EvId} {t0 : ℚ}
    (hk : KI none s a) (hiT : AInv cfg (aTick a q.time)) (hp : popMin s.agenda = some (q, rest))
    (hph : a.run = .handed g t0 q) : StepGoal cfg fuel s (aTick a q.time).S a.txs := by
  have hre := hk.k.run
  simp only [kernOf, hph, RunEv] at hre
  obtain ⟨hqe, hev, hpr, hpe⟩ := hre
  have hev' : EvIs s q.ev (.get 0) [.trigPut 0, .resume 0] (some (.ok (.int 1))) := hqe ▸ hev
  have ow : Owned s q.ev 0 := Or.inr (Or.inr ⟨hev'.1, rfl⟩)
  have harg : argOf s 0 q.ev (.int 1) = .value (.int 1) := by unfold argOf; rw [hev'.1]; simp
  have h1 := run_start hk hp (by rw [hph]; rfl) (by rw [hph]; rfl) hev' ow hpe (.value (.int 1))
  have hstep := step_resume_get (body cfg) fuel hp hev'.2.1 hev'.2.2 hpr hk.k.tok
  rw [harg] at hstep
  have hrT : RunA (aTick a q.time) (.handed g t0 q) := by
    have := hiT.run; rwa [show (aTick a q.time).run = a.run from rfl, hph] at this
  have hr1 : ARun cfg (aRunRun (aTick a q.time) q) := ARun.of_inv hiT q rfl hrT.2.2.1
  have hmax : Num.pymax t0 a.putAt = q.time := hrT.2.2.2
  obtain ⟨S, a', new, e1, e2, ⟨v, e3⟩, e4, e5, e6⟩ := frag_run (cfg := cfg) fuel (e := q.ev)
    (pr := { st := .runGet t0, target := some g }) rfl (cfg.size + 2) _ (aRunRun a q) [] h1 hr1 rfl rfl
    (fuel_ok _ _ _)
  have hS : step (body cfg) (fuel + 1) s = .ok S := by
    have e1' : TimerK.afterBurst (body cfg) 0 fuel { st := .runGet t0, target := some g }
        (runBurst 0 (body cfg (.runGet t0) (.value (.int 1))) (startSt s q rest 0 (.value (.int 1)))) = S := by
      show TimerK.afterBurst (body cfg) 0 fuel _
        (runBurst 0 (loadTime cPutAt fun tp => sndRun cfg (Num.pymax t0 tp) (cfg.size + 2)) _) = S
      rw [rb_loadTime h1.c.putAt]
      show TimerK.afterBurst (body cfg) 0 fuel _ (runBurst 0 (sndRun cfg (Num.pymax t0 a.putAt) (cfg.size + 2)) _) = S
      rw [hmax]
      exact e1
    rw [hstep, e1']
    exact closeEvent_ok e3
  refine ⟨S, a', [.wake (cfg.size + 2)], new, hS, e2, e6, ?_, e5,
    fun x hx => by simp only [List.mem_singleton] at hx; subst hx; trivial⟩
  apply runLts_one
  show Sender.wakeStep _ _ = _
  unfold Sender.wakeStep
  rw [if_pos hrT.2.2.1]
  rw [List.nil_append] at e4
  exact e4

/-- the process event of `run`, once it has returned -/
theorem kstep_runEnding {cfg : Cfg} (fuel : Nat) {s : KS} {a : A} {q : QEntry ℚ} {rest : List (QEntry ℚ)}
    (hk : KI none s a) (hiT : AInv cfg (aTick a q.time)) (hp : popMin s.agenda = some (q, rest))
    (hph : a.run = .ending q) : StepGoal cfg fuel s (aTick a q.time).S a.txs := by
  have hre := hk.k.run
  simp only [kernOf, hph, RunEv] at hre
  obtain ⟨hqe, hev⟩ := hre
  have pt : ProcTag s 0 1 := hk.k.pt0
  have fr : Frame s (openEvent s q rest) [0] [] := hqe ▸ openEvent_frame s q rest
  obtain ⟨_, k2, _, k4⟩ := hk.k.keepP fr pt
  have hcur := openEvent_cur s q rest (hqe ▸ hev.lt)
  have hrT : RunA (aTick a q.time) (.ending q) := by
    have := hiT.run; rwa [show (aTick a q.time).run = a.run from rfl, hph] at this
  refine ⟨openEvent s q rest, { aTick a q.time with run := .done }, [], [], ?_, ⟨?_, ?_⟩, ?_, rfl, by simp [aTick], fun x hx => by cases hx⟩
  · exact step_noop _ _ hp (hqe ▸ hev.2.1) (hqe ▸ hev.2.2)
  · refine hk.k.opened hp ?_ rfl hiT.cur rfl ?_ rfl rfl rfl ?_ (k2 (by omega) (by simp)) ?_ hk.k.pnd
      (fun seq hs => k4 seq hs (by omega) (by simp))
    · simp only [Kern.entries, kernOf, aTick]
      rw [hph]
      simp only [RPhase.entries]
      perm_lists
    · show RPhase.getQ .done = a.run.getQ
      rw [hph]; rfl
    · show ((openEvent s q rest).ev 0).kind = .proc ∧ ((openEvent s q rest).ev 0).out = okNone
      rw [← hqe]
      exact ⟨hcur.2.2.trans (hqe ▸ hev.1), hcur.2.1.trans (hqe ▸ hev.2.2)⟩
    · intro u hu
      exact ⟨hk.k.pend u hu, hqe ▸ ne_of_kind (hk.k.pend u hu).1 pt.1 (by simp)⟩
  · cells_same hk.c
  · exact ⟨hiT.inv, hiT.kind, hiT.mss, hiT.size, hiT.mpos, hiT.spos, hiT.dvd, hiT.tks, hiT.nmul, hiT.bufle, hiT.tkeys, hiT.cur,
      hrT.1, hiT.scr.congr rfl, hiT.pend, fun seq hs => (hiT.tm seq hs).congr rfl rfl rfl rfl, hiT.putAt⟩

end SndK
