import Mathlib.Tactic.Linarith
import Mathlib.Tactic.Ring
import Mathlib.Tactic.FieldSimp
import Mathlib.Algebra.Order.Field.Rat
import OnlVerif.Lemmas.WFQKAbs
import OnlVerif.Lemmas.StampTrans
/-!
# The WFQ scheduler on the kernel model: every configuration step is accepted by the StampServer LTS

`toM a now` (`WFQKDefs.lean`) is the LTS state (`Net/StampServer.lean` with the record `WFQ.sched cfg`) a configuration
stands for.  For each constructor of `AStep` the LTS accepts the corresponding action (`init`, `put`, `handoff`, `resume`,
`sendInit`, `sendFire`, `sendDone`, or nothing) from `toM a` to `toM a'`; and the clock advance is an accepted `tick`.
(Port of `VCKLts.lean`; what is new is the scheduler record: `WFQ.put` and `WFQ.done` on the stamp state of a configuration.)
-/

set_option linter.unusedSimpArgs false
set_option linter.unusedVariables false

namespace WFQK
open WFQOnK QEntry

/-! ## the integer code of a rational stamp preserves the order on the grid `ℤ / scale` (copy of `StampCodeQ.lean`) -/

section code
variable {N scale : Nat}

theorem code_grid_w (hs : 0 < scale) (k : ℤ) : StampCode.code scale ((k : ℚ) / (scale : ℚ)) = k := by
  have hne : (scale : ℚ) ≠ 0 := by exact_mod_cast (Nat.pos_iff_ne_zero.mp hs)
  show ((k : ℚ) / (scale : ℚ) * (scale : ℚ)).floor = k
  rw [div_mul_cancel₀ _ hne]
  exact Rat.floor_intCast k

/-- a grid point is its code over `scale` -/
theorem OnGrid.eq_code_w {x : ℚ} (hs : 0 < scale) (hx : OnGrid scale x) :
    x = ((StampCode.code scale x : ℤ) : ℚ) / (scale : ℚ) := by
  obtain ⟨k, rfl⟩ := hx
  rw [code_grid_w hs]

theorem code_lt_iff_w {x y : ℚ} (hs : 0 < scale) (hx : OnGrid scale x) (hy : OnGrid scale y) :
    x < y ↔ StampCode.code scale x < StampCode.code scale y := by
  obtain ⟨k, rfl⟩ := hx
  obtain ⟨l, rfl⟩ := hy
  have hpos : (0 : ℚ) < (scale : ℚ) := by exact_mod_cast hs
  rw [code_grid_w hs, code_grid_w hs, div_lt_div_iff_of_pos_right hpos]
  exact Int.cast_lt

theorem code_le_iff_w {x y : ℚ} (hs : 0 < scale) (hx : OnGrid scale x) (hy : OnGrid scale y) :
    x ≤ y ↔ StampCode.code scale x ≤ StampCode.code scale y := by
  rw [← not_lt, ← not_lt, code_lt_iff_w hs hy hx]

theorem code_eq_iff_w {x y : ℚ} (hs : 0 < scale) (hx : OnGrid scale x) (hy : OnGrid scale y) :
    x = y ↔ StampCode.code scale x = StampCode.code scale y := by
  constructor
  · intro h; rw [h]
  · intro h
    rw [hx.eq_code_w hs, hy.eq_code_w hs, h]

/-- `c * N + i` with `0 ≤ i < N` is ordered lexicographically -/
theorem lex_of_le_w {c d i j : ℤ} (hi0 : 0 ≤ i) (hj0 : 0 ≤ j) (hjN : j < N)
    (h : c * (N : ℤ) + i ≤ d * (N : ℤ) + j) : c ≤ d ∧ (c = d → i ≤ j) := by
  constructor
  · by_contra hc
    have hc' : d + 1 ≤ c := by omega
    have : (d + 1) * (N : ℤ) ≤ c * (N : ℤ) := Int.mul_le_mul_of_nonneg_right hc' (by omega)
    have h2 : (d + 1) * (N : ℤ) = d * (N : ℤ) + (N : ℤ) := by ring
    omega
  · intro hcd
    subst hcd
    omega

/-- the integers carried by the `PriorityStore` are ordered by `(stamp, packet number)` -/
theorem stampItem_le_w {x y : ℚ} {i j : ℤ} (hs : 0 < scale) (hx : OnGrid scale x) (hy : OnGrid scale y)
    (hi0 : 0 ≤ i) (hj0 : 0 ≤ j) (hjN : j < N)
    (h : stampItem scale N x i ≤ stampItem scale N y j) : x ≤ y ∧ (x = y → i ≤ j) := by
  obtain ⟨h1, h2⟩ := lex_of_le_w hi0 hj0 hjN h
  exact ⟨(code_le_iff_w hs hx hy).mpr h1, fun hxy => h2 ((code_eq_iff_w hs hx hy).mp hxy)⟩

theorem itemPkt_stampItem_w {x : ℚ} {i : ℤ} (hi0 : 0 ≤ i) (hiN : i < N) : itemPkt N (stampItem scale N x i) = i := by
  unfold itemPkt stampItem
  rw [Int.add_comm, Int.add_mul_emod_self_right]
  exact Int.emod_eq_of_lt hi0 hiN

end code

/-! ## Python dicts whose keys are known -/

section dict
variable {β : Type}

theorem lookup_dictOf (keys : List Nat) (g : Nat → β) (f : Nat) :
    Stamp.lookup (dictOf keys g) f = if f ∈ keys then some (g f) else none := by
  induction keys with
  | nil => simp [dictOf, Stamp.lookup]
  | cons k r ih =>
    simp only [dictOf, List.map_cons, Stamp.lookup, List.mem_cons]
    by_cases hk : k = f
    · subst hk; simp
    · have : ¬ f = k := fun h => hk h.symm
      simp only [hk, if_false, this, false_or]
      exact ih

/-- a dict built over the keys of another one -/
theorem map_keys_eq {γ : Type} (l : List (Nat × γ)) (g : Nat → β) :
    (l.map fun kv => (kv.1, g kv.1)) = dictOf (l.map (·.1)) g := by
  simp [dictOf, List.map_map, Function.comp_def]

theorem lookup_map_keys {γ : Type} (l : List (Nat × γ)) (g : Nat → β) (k : Nat) :
    Stamp.lookup (l.map fun kv => (kv.1, g kv.1)) k = if k ∈ l.map (·.1) then some (g k) else none := by
  rw [map_keys_eq, lookup_dictOf]

theorem mem_keys_of_lookup {γ : Type} (l : List (Nat × γ)) (k : Nat) (v : γ) (h : Stamp.lookup l k = some v) :
    k ∈ l.map (·.1) := by
  induction l with
  | nil => simp [Stamp.lookup] at h
  | cons x r ih =>
    obtain ⟨a, b⟩ := x
    simp only [Stamp.lookup] at h
    by_cases hk : a = k
    · simp [hk]
    · simp only [hk, if_false] at h
      simp [ih h]

theorem addKey_cons_ne (k f : Nat) (r : List Nat) (h : k ≠ f) : addKey (k :: r) f = k :: addKey r f := by
  unfold addKey
  have : (k :: r).contains f = r.contains f := by
    simp only [List.contains_cons]
    have : (f == k) = false := by simpa using fun h' => h h'.symm
    simp [this]
  rw [this]
  split <;> rfl

theorem addKey_of_mem (keys : List Nat) (f : Nat) (h : f ∈ keys) : addKey keys f = keys := by
  unfold addKey
  simp [h]

theorem addKey_of_not_mem (keys : List Nat) (f : Nat) (h : f ∉ keys) : addKey keys f = keys ++ [f] := by
  unfold addKey
  simp [h]

theorem mem_addKey_l (keys : List Nat) (f k : Nat) : k ∈ addKey keys f ↔ k ∈ keys ∨ k = f := by
  by_cases h : f ∈ keys
  · rw [addKey_of_mem _ _ h]
    constructor
    · exact Or.inl
    · rintro (h1 | rfl)
      · exact h1
      · exact h
  · rw [addKey_of_not_mem _ _ h]; simp

theorem setKey_dictOf (keys : List Nat) (hn : keys.Nodup) (g : Nat → β) (f : Nat) (v : β) :
    Stamp.setKey (dictOf keys g) f v = dictOf (addKey keys f) (upd g f v) := by
  induction keys with
  | nil => simp [dictOf, Stamp.setKey, addKey]
  | cons k r ih =>
    have hk := List.nodup_cons.mp hn
    by_cases hkf : k = f
    · subst hkf
      rw [addKey_of_mem _ _ List.mem_cons_self]
      simp only [dictOf, List.map_cons, Stamp.setKey, if_true, upd_same, List.cons.injEq, true_and]
      apply List.map_congr_left
      intro x hx
      have : x ≠ k := fun h => hk.1 (h ▸ hx)
      rw [upd_ne _ _ _ _ this]
    · rw [addKey_cons_ne _ _ _ hkf]
      simp only [dictOf, List.map_cons, Stamp.setKey, hkf, if_false, upd_ne _ _ _ _ hkf, List.cons.injEq, true_and]
      exact ih hk.2

/-- `d[k] = v` on a dict over the keys of `l` when `k` is one of them -/
theorem setKey_map_keys {γ : Type} (l : List (Nat × γ)) (hn : (l.map (·.1)).Nodup) (g : Nat → β) (k : Nat) (v : β)
    (hk : k ∈ l.map (·.1)) :
    Stamp.setKey (l.map fun kv => (kv.1, g kv.1)) k v = l.map fun kv => (kv.1, upd g k v kv.1) := by
  rw [map_keys_eq, map_keys_eq, setKey_dictOf _ hn, addKey_of_mem _ _ hk]

theorem bump_dictOf (keys : List Nat) (hn : keys.Nodup) (c : Nat → Int) (f : Nat) (d : Int) (h0 : f ∉ keys → c f = 0) :
    Stamp.bump (dictOf keys c) f d = dictOf (addKey keys f) (upd c f (c f + d)) := by
  induction keys with
  | nil => simp [dictOf, Stamp.bump, addKey, h0 (by simp)]
  | cons k r ih =>
    have hk := List.nodup_cons.mp hn
    by_cases hkf : k = f
    · subst hkf
      rw [addKey_of_mem _ _ List.mem_cons_self]
      simp only [dictOf, List.map_cons, Stamp.bump, if_true, upd_same, List.cons.injEq, true_and]
      apply List.map_congr_left
      intro x hx
      have : x ≠ k := fun h => hk.1 (h ▸ hx)
      rw [upd_ne _ _ _ _ this]
    · rw [addKey_cons_ne _ _ _ hkf]
      simp only [dictOf, List.map_cons, Stamp.bump, hkf, if_false, upd_ne _ _ _ _ hkf, List.cons.injEq, true_and]
      exact ih hk.2 (fun h => h0 (by simp [h, Ne.symm hkf]))

theorem total_dictOf_l (keys : List Nat) (c : Nat → Int) : Stamp.qcTotal (dictOf keys c) = (keys.map c).sum := by
  induction keys with
  | nil => rfl
  | cons k r ih => simp only [dictOf, List.map_cons, Stamp.qcTotal, List.sum_cons] at ih ⊢; rw [ih]

theorem sumFrom_succ_right_l (c : Nat → Int) : ∀ (n f : Nat), sumFrom c f (n + 1) = sumFrom c f n + c (f + n)
  | 0, f => by simp [sumFrom]
  | n + 1, f => by
    have := sumFrom_succ_right_l c n (f + 1)
    simp only [sumFrom] at this ⊢
    rw [this, show f + 1 + n = f + (n + 1) by omega]
    ring

/-- `sum(queue_count.values())` over the keys is the sum over all flows when the other counters are 0 -/
theorem total_eq_l (c : Nat → Int) : ∀ (F : Nat) (keys : List Nat), keys.Nodup → (∀ f ∈ keys, f < F) →
    (∀ f, f < F → f ∉ keys → c f = 0) → Stamp.qcTotal (dictOf keys c) = sumFrom c 0 F
  | 0, keys, _, hlt, _ => by
    cases keys with
    | nil => rfl
    | cons k r => exact absurd (hlt k List.mem_cons_self) (Nat.not_lt_zero _)
  | F + 1, keys, hn, hlt, h0 => by
    rw [sumFrom_succ_right_l, Nat.zero_add]
    by_cases hF : F ∈ keys
    · have hp := List.perm_cons_erase hF
      have ih := total_eq_l c F (keys.erase F) (hn.erase F)
        (fun f hf => by
          have h1 := hlt f (List.mem_of_mem_erase hf)
          have h2 : f ≠ F := fun h => (List.Nodup.mem_erase_iff hn).mp hf |>.1 h
          omega)
        (fun f hf hne => h0 f (by omega) (fun h => hne ((List.Nodup.mem_erase_iff hn).mpr ⟨by omega, h⟩)))
      rw [total_dictOf_l] at ih ⊢
      rw [(hp.map c).sum_eq, List.map_cons, List.sum_cons, ih]
      ring
    · have ih := total_eq_l c F keys hn
        (fun f hf => by
          have h1 := hlt f hf
          have h2 : f ≠ F := fun h => hF (h ▸ hf)
          omega)
        (fun f hf hne => h0 f (by omega) hne)
      rw [ih, h0 F (by omega) hF]
      ring

end dict

/-! ## the keys of `queue_count` -/

section keys
variable {flow : Int → Nat}

theorem keysOf_append (ids : List Int) (id : Int) : keysOf flow (ids ++ [id]) = addKey (keysOf flow ids) (flow id) := by
  simp [keysOf, List.foldl_append]

theorem addKey_nodup (l : List Nat) (k : Nat) (h : l.Nodup) : (addKey l k).Nodup := by
  by_cases hk : k ∈ l
  · rw [addKey_of_mem _ _ hk]; exact h
  · rw [addKey_of_not_mem _ _ hk]
    exact List.nodup_append.mpr ⟨h, by simp, by
      intro x hx y hy hxy
      simp only [List.mem_singleton] at hy
      exact hk (hy ▸ hxy ▸ hx)⟩

theorem keysOf_nodup (ids : List Int) : (keysOf flow ids).Nodup := by
  have : ∀ (ids : List Int) (acc : List Nat), acc.Nodup → (ids.foldl (fun l id => addKey l (flow id)) acc).Nodup := by
    intro ids
    induction ids with
    | nil => intro acc h; exact h
    | cons x r ih => intro acc h; exact ih _ (addKey_nodup _ _ h)
  exact this ids [] List.nodup_nil

/-- the flow of a packet that has been `put` is a key -/
theorem mem_keysOf_l (ids : List Int) (id : Int) (h : id ∈ ids) : flow id ∈ keysOf flow ids := by
  have : ∀ (ids : List Int) (acc : List Nat), (flow id ∈ acc ∨ id ∈ ids) →
      flow id ∈ ids.foldl (fun l id => addKey l (flow id)) acc := by
    intro ids
    induction ids with
    | nil =>
      intro acc h
      rcases h with h | h
      · exact h
      · simp at h
    | cons x r ih =>
      intro acc h
      simp only [List.foldl_cons]
      apply ih
      rcases h with h | h
      · exact Or.inl ((mem_addKey_l _ _ _).mpr (Or.inl h))
      · rcases List.mem_cons.mp h with rfl | h
        · exact Or.inl ((mem_addKey_l _ _ _).mpr (Or.inr rfl))
        · exact Or.inr h
  exact this ids [] (Or.inr h)

/-- every key is the flow of a packet that has been `put` -/
theorem keysOf_sub (ids : List Int) (k : Nat) (h : k ∈ keysOf flow ids) : ∃ id ∈ ids, flow id = k := by
  have : ∀ (ids : List Int) (acc : List Nat), k ∈ ids.foldl (fun l id => addKey l (flow id)) acc →
      k ∈ acc ∨ ∃ id ∈ ids, flow id = k := by
    intro ids
    induction ids with
    | nil => intro acc h; exact Or.inl h
    | cons x r ih =>
      intro acc h
      simp only [List.foldl_cons] at h
      rcases ih _ h with h1 | ⟨id, hid, hk⟩
      · rcases (mem_addKey_l _ _ _).mp h1 with h2 | h2
        · exact Or.inl h2
        · exact Or.inr ⟨x, List.mem_cons_self, h2.symm⟩
      · exact Or.inr ⟨id, List.mem_cons_of_mem _ hid, hk⟩
  rcases this ids [] h with h1 | h1
  · simp at h1
  · exact h1

theorem A.keys_nodup (a : A) : (a.keys flow).Nodup := keysOf_nodup _

end keys

/-! ## the `PriorityStore` hands out an item with a minimal `(stamp, arrival)` key -/

section pick
variable {N scale F : Nat} {flow size : Int → Nat} {cfg : WfqCfg ℚ} {d1 L : Nat} {a : A} {now : ℚ}

/-- along the `put`s ids increase and arrival instants do not decrease -/
theorem mono_cases {l : List PutRec} (hm : l.Pairwise fun x y => x.1 < y.1 ∧ x.2.1 ≤ y.2.1) {x y : PutRec}
    (hx : x ∈ l) (hy : y ∈ l) (hxy : x.1 ≤ y.1) : x = y ∨ (x.1 < y.1 ∧ x.2.1 ≤ y.2.1) := by
  induction l with
  | nil => simp at hx
  | cons h t ih =>
    obtain ⟨h1, h2⟩ := List.pairwise_cons.mp hm
    rcases List.mem_cons.mp hx with rfl | hx'
    · rcases List.mem_cons.mp hy with rfl | hy'
      · exact Or.inl rfl
      · exact Or.inr (h1 y hy')
    · rcases List.mem_cons.mp hy with rfl | hy'
      · have := (h1 x hx').1
        omega
      · exact ih h2 hx' hy'

theorem takeId_map (l : List PutRec) (w : PutRec) (hw : w ∈ l) (hinj : ∀ x ∈ l, x.1.toNat = w.1.toNat → x = w) :
    Stamp.takeId w.1.toNat (l.map (itemW size flow)) = some (itemW size flow w, (l.erase w).map (itemW size flow)) := by
  induction l with
  | nil => simp at hw
  | cons x xs ih =>
    by_cases hx : x.1.toNat = w.1.toNat
    · have := hinj x List.mem_cons_self hx
      subst this
      simp [Stamp.takeId, itemW, pktOf]
    · have hne : x ≠ w := fun h => hx (by rw [h])
      have hw' : w ∈ xs := by
        rcases List.mem_cons.mp hw with h | h
        · exact absurd h.symm hne
        · exact h
      have hid : ¬ (itemW size flow x).pkt.id = w.1.toNat := hx
      have he : (x :: xs).erase w = x :: xs.erase w := by
        rw [List.erase_cons_tail]
        simpa using hne
      simp only [List.map_cons, Stamp.takeId, hid, if_false, he]
      rw [ih hw' (fun y hy => hinj y (List.mem_cons_of_mem _ hy))]

/-- **what `K`'s `PriorityStore` hands out is accepted by the LTS**: the least integer carries a minimal key -/
theorem pick_least (hi : AInv N scale size F flow cfg d1 L a now) {w : PutRec} (hw : WFQK.IsLeast N scale a.items w) :
    Stamp.pick (a.items.map (itemW size flow)) w.1.toNat =
      .ok (itemW size flow w, (a.items.erase w).map (itemW size flow)) := by
  have hwp : w ∈ a.puts := hi.sub.subset hw.1
  have hsc : 0 < scale := by
    obtain ⟨h1, h2, h3, -⟩ := hi.grid
    rw [h3]; exact Nat.mul_pos h1 h2
  obtain ⟨-, hw0, hwN, -, hwG, -⟩ := hi.putOK w hwp
  apply Stamp.pick_ok_of_min
  · apply takeId_map _ _ hw.1
    intro x hx hxw
    have hxp : x ∈ a.puts := hi.sub.subset hx
    obtain ⟨-, hx0, -, -, -⟩ := hi.putOK x hxp
    have hxe : x.1 = w.1 := by omega
    rcases mono_cases hi.mono hxp hwp (le_of_eq hxe) with h | h
    · exact h
    · omega
  · intro y hy
    obtain ⟨x, hx, rfl⟩ := List.mem_map.mp hy
    have hxp : x ∈ a.puts := hi.sub.subset hx
    obtain ⟨-, hx0, hxN, -, hxG, -⟩ := hi.putOK x hxp
    obtain ⟨h1, h2⟩ := stampItem_le_w hsc hwG hxG hw0 hx0 hxN (hw.2 x hx)
    rintro (h | ⟨h3, h4⟩)
    · exact absurd h (not_lt.mpr h1)
    · have hle : w.1 ≤ x.1 := h2 h3.symm
      have h5 : w.2.1 ≤ x.2.1 := by
        rcases mono_cases hi.mono hwp hxp hle with h | h
        · rw [h]
        · exact h.2
      exact absurd h4 (not_lt.mpr h5)

end pick

/-! ## the scheduler record: weight sums, the active set, `reset_vtime` -/

section sched
variable {F : Nat} {cfg : WfqCfg ℚ}

theorem wOf_of_lookup_l {c : Nat} {x : ℚ} (h : Stamp.lookup cfg.weights c = some x) : wOf cfg c = x := by
  simp [wOf, h]

/-- `weight_sum` of the LTS over the ascending active list is the `wsum` of the configuration -/
theorem weightSum_range'_l (hw : ∀ f, f < F → ∃ n : Nat, 0 < n ∧ Stamp.lookup cfg.weights f = some (n : ℚ)) (act : Nat → Bool) :
    ∀ (n c : Nat) (acc : ℚ), c + n ≤ F →
      WFQ.weightSum cfg.weights ((List.range' c n).filter fun x => act x) acc = .ok (wsum cfg act c n acc)
  | 0, c, acc, _ => by simp [WFQ.weightSum, wsum]
  | n + 1, c, acc, h => by
    obtain ⟨m, -, hm⟩ := hw c (by omega)
    have ih := weightSum_range'_l hw act n (c + 1)
    rw [List.range'_succ]
    by_cases hc : act c = true
    · simp only [List.filter_cons, hc, if_true, WFQ.weightSum, hm, wsum, wOf_of_lookup_l hm]
      exact ih _ (by omega)
    · simp only [List.filter_cons, hc, if_false, wsum, Bool.false_eq_true]
      exact ih _ (by omega)

theorem weightSum_toM (hc : CfgOK F cfg) (act : Nat → Bool) :
    WFQ.weightSum cfg.weights ((List.range F).filter fun x => act x) (Num.zero : ℚ) = .ok (wsum cfg act 0 F 0) := by
  rw [List.range_eq_range', zero_eq']
  exact weightSum_range'_l hc.w act F 0 0 (by omega)

theorem wOf_nonneg_l (hc : CfgOK F cfg) {c : Nat} (h : c < F) : 0 < wOf cfg c := by
  obtain ⟨m, hm0, hm⟩ := hc.w c h
  rw [wOf_of_lookup_l hm]
  exact_mod_cast hm0

theorem wsum_ge_l (hc : CfgOK F cfg) (act : Nat → Bool) : ∀ (n c : Nat) (acc : ℚ), c + n ≤ F → acc ≤ wsum cfg act c n acc
  | 0, c, acc, _ => by simp [wsum]
  | n + 1, c, acc, h => by
    have hw := wOf_nonneg_l hc (show c < F by omega)
    simp only [wsum]
    split
    · exact le_trans (by linarith) (wsum_ge_l hc act n (c + 1) _ (by omega))
    · exact wsum_ge_l hc act n (c + 1) _ (by omega)

theorem wsum_gt_l (hc : CfgOK F cfg) (act : Nat → Bool) {f : Nat} (hf : act f = true) :
    ∀ (n c : Nat) (acc : ℚ), c + n ≤ F → c ≤ f → f < c + n → acc < wsum cfg act c n acc
  | 0, c, acc, _, h1, h2 => by omega
  | n + 1, c, acc, h, h1, h2 => by
    have hw := wOf_nonneg_l hc (show c < F by omega)
    simp only [wsum]
    by_cases hcf : c = f
    · subst hcf
      simp only [hf, if_true]
      exact lt_of_lt_of_le (by linarith) (wsum_ge_l hc act n (c + 1) _ (by omega))
    · split
      · exact lt_trans (by linarith) (wsum_gt_l hc act hf n (c + 1) _ (by omega) (by omega) (by omega))
      · exact wsum_gt_l hc act hf n (c + 1) _ (by omega) (by omega) (by omega)

/-- an active class makes the weight sum positive -/
theorem ws_pos_l (hc : CfgOK F cfg) (act : Nat → Bool) {f : Nat} (hfF : f < F) (hf : act f = true) : 0 < wsum cfg act 0 F 0 :=
  wsum_gt_l hc act hf F 0 0 (by omega) (by omega) (by omega)

/-! ### `active_set` -/

theorem insertAsc_lt (c : Nat) : ∀ (l : List Nat), (∀ x ∈ l, c < x) → WFQ.insertAsc c l = c :: l
  | [], _ => rfl
  | x :: xs, h => by simp [WFQ.insertAsc, h x List.mem_cons_self]

theorem filter_upd_of_lt (act : Nat → Bool) (cls : Nat) (v : Bool) (c n : Nat) (h : cls < c) :
    ((List.range' c n).filter fun x => upd act cls v x) = (List.range' c n).filter fun x => act x := by
  apply List.filter_congr
  intro x hx
  have := (List.mem_range'_1.mp hx).1
  rw [upd_ne _ _ _ _ (by omega)]

theorem insertAsc_filter (act : Nat → Bool) (cls : Nat) : ∀ (n c : Nat), c ≤ cls → cls < c + n →
    WFQ.insertAsc cls ((List.range' c n).filter fun x => act x) = (List.range' c n).filter fun x => upd act cls true x
  | 0, c, h1, h2 => by omega
  | n + 1, c, h1, h2 => by
    rw [List.range'_succ]
    by_cases hcf : c = cls
    · subst hcf
      have hgt : ∀ x ∈ (List.range' (c + 1) n).filter fun x => act x, c < x := by
        intro x hx
        have := (List.mem_range'_1.mp (List.mem_filter.mp hx).1).1
        omega
      simp only [List.filter_cons, upd_same, if_true, filter_upd_of_lt act c true (c + 1) n (by omega)]
      by_cases hc : act c = true
      · simp [hc, WFQ.insertAsc]
      · simp only [hc, Bool.false_eq_true, if_false]
        exact insertAsc_lt _ _ hgt
    · have ih := insertAsc_filter act cls n (c + 1) (by omega) (by omega)
      have h3 : ¬ cls < c := by omega
      have h4 : ¬ cls = c := fun h => hcf h.symm
      simp only [List.filter_cons, upd_ne _ _ _ _ hcf]
      by_cases hc : act c = true
      · simp only [hc, if_true, WFQ.insertAsc, h3, h4, if_false, ih]
      · simp only [hc, Bool.false_eq_true, if_false, ih]

theorem insertAsc_toM (act : Nat → Bool) {cls : Nat} (h : cls < F) :
    WFQ.insertAsc cls ((List.range F).filter fun x => act x) = (List.range F).filter fun x => upd act cls true x := by
  rw [List.range_eq_range']
  exact insertAsc_filter act cls F 0 (by omega) (by omega)

theorem remove_toM (act : Nat → Bool) (cls : Nat) :
    (((List.range F).filter fun x => act x).filter (· ≠ cls)) = (List.range F).filter fun x => upd act cls false x := by
  rw [List.filter_filter]
  apply List.filter_congr
  intro x hx
  by_cases h : x = cls
  · simp [h]
  · simp [h, upd_ne _ _ _ _ h]

theorem contains_toM (act : Nat → Bool) {cls : Nat} (h : cls < F) (ha : act cls = true) :
    ((List.range F).filter fun x => act x).contains cls = true := by
  simp [List.mem_filter, h, ha]

theorem nAct_eq_l (act : Nat → Bool) : ∀ (n c : Nat) (acc : Int),
    nAct act c n acc = acc + (((List.range' c n).filter fun x => act x).length : Int)
  | 0, c, acc => by simp [nAct]
  | n + 1, c, acc => by
    rw [List.range'_succ]
    simp only [nAct, nAct_eq_l act n (c + 1), List.filter_cons]
    by_cases hc : act c = true
    · simp only [hc, if_true, List.length_cons]; push_cast; ring
    · simp only [hc, Bool.false_eq_true, if_false]; ring

theorem isEmpty_toM (act : Nat → Bool) :
    ((List.range F).filter fun x => act x).isEmpty = decide (nAct act 0 F 0 = 0) := by
  rw [nAct_eq_l, ← List.range_eq_range', zero_add]
  cases h : (List.range F).filter fun x => act x with
  | nil => simp
  | cons x xs => simp; omega

/-! ### `reset_vtime` -/

theorem zeroFinish_keys (keys : List Nat) (hn : keys.Nodup) : ∀ (w : List (Nat × ℚ)) (g : Nat → ℚ), (∀ kv ∈ w, kv.1 ∈ keys) →
    WFQ.zeroFinish (dictOf keys g) w = dictOf keys fun k => if k ∈ w.map (·.1) then 0 else g k
  | [], g, _ => by simp [WFQ.zeroFinish]
  | (k, v) :: r, g, h => by
    have hk : k ∈ keys := h (k, v) List.mem_cons_self
    simp only [WFQ.zeroFinish]
    rw [setKey_dictOf _ hn, addKey_of_mem _ _ hk, zeroFinish_keys keys hn r _ (fun kv hkv => h kv (List.mem_cons_of_mem _ hkv))]
    simp only [dictOf]
    apply List.map_congr_left
    intro x hx
    by_cases hxk : x = k
    · subst hxk; simp [zero_eq']
    · rw [upd_ne _ _ _ _ hxk]
      simp only [List.map_cons, List.mem_cons, hxk, false_or]

theorem zeroFinish_fresh : ∀ (w : List (Nat × ℚ)) (ks : List Nat), (ks ++ w.map (·.1)).Nodup →
    WFQ.zeroFinish (dictOf ks fun _ => (0 : ℚ)) w = dictOf (ks ++ w.map (·.1)) fun _ => (0 : ℚ)
  | [], ks, _ => by simp [WFQ.zeroFinish]
  | (k, v) :: r, ks, h => by
    have hks : ks.Nodup := (List.nodup_append.mp h).1
    have hk : k ∉ ks := fun hk => (List.nodup_append.mp h).2.2 k hk k (by simp) rfl
    have hu : upd (fun _ => (0 : ℚ)) k (Num.zero : ℚ) = fun _ => (0 : ℚ) := by
      funext x; simp [upd, zero_eq']
    simp only [WFQ.zeroFinish]
    rw [setKey_dictOf _ hks, addKey_of_not_mem _ _ hk, hu, zeroFinish_fresh r (ks ++ [k]) (by simpa using h)]
    simp

/-- `reset_vtime` leaves `finish_times` with the keys of `weights`, all 0 -/
theorem zeroFinish_toM (hc : CfgOK F cfg) (fset : Bool) (g : Nat → ℚ) :
    WFQ.zeroFinish (if fset then cfg.weights.map fun kv => (kv.1, g kv.1) else []) cfg.weights =
      cfg.weights.map fun kv => (kv.1, (0 : ℚ)) := by
  cases fset with
  | true =>
    simp only [if_true]
    rw [map_keys_eq, zeroFinish_keys _ hc.nodup _ _ (fun kv hkv => List.mem_map.mpr ⟨kv, hkv, rfl⟩)]
    simp only [dictOf, List.map_map]
    apply List.map_congr_left
    intro kv hkv
    have : kv.1 ∈ List.map (fun x => x.1) cfg.weights := List.mem_map.mpr ⟨kv, hkv, rfl⟩
    simp [this]
  | false =>
    have := zeroFinish_fresh cfg.weights [] (by simpa using hc.nodup)
    simp only [dictOf, List.map_nil, List.nil_append, List.map_map] at this
    simpa [Function.comp_def] using this

end sched

/-! ## `WFQ.put` and `WFQ.done` on the stamp state of a configuration -/

section lts
variable {N scale F : Nat} {flow size : Int → Nat} {cfg : WfqCfg ℚ} {d1 L : Nat} {a a' : A} {now t : ℚ} {q : QEntry ℚ}
  {n e : Nat} {new : List (HEv ℚ)}

theorem keys_lt_l (hi : AInv N scale size F flow cfg d1 L a now) : ∀ f ∈ a.keys flow, f < F := by
  intro f hf
  obtain ⟨id, hid, rfl⟩ := keysOf_sub _ _ hf
  obtain ⟨w, hw, rfl⟩ := List.mem_map.mp hid
  exact (hi.putOK w hw).1

theorem total_toM (hi : AInv N scale size F flow cfg d1 L a now) (t : ℚ) :
    Stamp.qcTotal (toM size F flow cfg a t).queueCount = a.total F :=
  total_eq_l a.cnt F (a.keys flow) (keysOf_nodup _) (keys_lt_l hi) (fun f hf hk => ((hi.keysOK f hf).1 hk).1)

theorem eqb_zero_false_l {x : ℚ} (h : x ≠ 0) : Num.eqb x (Num.zero : ℚ) = false := by
  rw [Bool.eq_false_iff]
  intro hc
  rw [Num.eqb_iff, zero_eq'] at hc
  exact h hc

/-- the stamp state of a configuration -/
theorem sch_toM (t : ℚ) : (toM size F flow cfg a t).sch =
    { vtime := a.vtime, lastTime := a.last,
      finish := if a.fset then cfg.weights.map fun kv => (kv.1, a.fin kv.1) else [],
      active := (List.range F).filter fun c => a.act c,
      classCount := dictOf (a.keys flow) fun c => (a.cls c).getD 0 } := rfl

/-- `update_vtime` on the stamp state of a configuration with a non-zero weight sum -/
theorem updateVtime_toM (hc : CfgOK F cfg) (hws : a.ws F cfg ≠ 0) (t : ℚ) (fi : List (Nat × ℚ)) (ccs : List (Nat × Int)) :
    WFQ.updateVtime cfg
        { vtime := a.vtime, lastTime := a.last, finish := fi,
          active := (List.range F).filter fun c => a.act c, classCount := ccs } t =
      .ok { vtime := a.vtime + (t - a.last) / a.ws F cfg, lastTime := a.last, finish := fi,
            active := (List.range F).filter fun c => a.act c, classCount := ccs } := by
  unfold WFQ.updateVtime
  simp only [weightSum_toM hc a.act]
  rw [show wsum cfg a.act 0 F 0 = a.ws F cfg from rfl, eqb_zero_false_l hws]
  simp

/-- the first statement pair of `put` -/
theorem advance_toM (hc : CfgOK F cfg) (hws : a.total F ≠ 0 → a.ws F cfg ≠ 0) (hfs : a.total F ≠ 0 → a.fset = true) (t : ℚ) :
    WFQ.advance cfg (toM size F flow cfg a t).sch t (a.total F) =
      .ok { vtime := a.advV F cfg t, lastTime := a.last,
            finish := cfg.weights.map fun kv => (kv.1, a.advFin F kv.1),
            active := (List.range F).filter fun c => a.act c,
            classCount := dictOf (a.keys flow) fun c => (a.cls c).getD 0 } := by
  rw [sch_toM]
  unfold WFQ.advance
  by_cases h0 : a.total F = 0
  · simp only [h0, if_true, WFQ.resetVtime, zeroFinish_toM hc, A.advV, A.advFin, zero_eq']
  · simp only [h0, if_false, hfs h0, if_true, A.advV, A.advFin]
    exact updateVtime_toM hc (hws h0) t _ _

theorem getD_upd_l (g : Nat → Option Int) (c : Nat) (v : Int) :
    (fun x => (upd g c (some v) x).getD 0) = upd (fun x => (g x).getD 0) c v := by
  funext x
  by_cases h : x = c
  · subst h; simp
  · simp [upd_ne _ _ _ _ h]

/-- `put` of a packet of a configured flow does not raise, and computes what `AStep.srcPut` says -/
theorem put_toM (hi : AInv N scale size F flow cfg d1 L a now) {id : Int} (hf : flow id < F) (t : ℚ)
    (hws : a.total F ≠ 0 → a.ws F cfg ≠ 0) (hfs : a.total F ≠ 0 → a.fset = true) :
    WFQ.put cfg (toM size F flow cfg a t).sch t (a.total F) (pktOf flow size id) =
      .ok ((toM size F flow cfg (a.afterPut size F flow cfg t id) t).sch, (putRec size F flow cfg a t id).2.2) := by
  have hc := hi.cfgOK
  obtain ⟨m, hm0, hm⟩ := hc.w _ hf
  have hk : flow id ∈ cfg.weights.map (·.1) := mem_keys_of_lookup _ _ _ hm
  have hrw : Num.eqb (cfg.rate * (m : ℚ)) (Num.zero : ℚ) = false := by
    apply eqb_zero_false_l
    have : (0 : ℚ) < m := by exact_mod_cast hm0
    exact ne_of_gt (mul_pos hc.rate this)
  unfold WFQ.put
  simp only [pktOf, hc.f2c _ hf, advance_toM hc hws hfs, WFQ.stampPut, lookup_map_keys, hk, if_true, hm, hrw,
    Bool.false_eq_true, if_false, WFQ.commit, setKey_map_keys _ hc.nodup _ _ _ hk,
    setKey_dictOf _ (keysOf_nodup _), insertAsc_toM _ hf, lookup_dictOf]
  by_cases hkk : flow id ∈ keysOf flow (a.puts.map (·.1))
  · simp only [sch_toM, A.afterPut, putRec, wOf_of_lookup_l hm, A.keys, List.map_append, List.map_singleton, keysOf_append,
      getD_upd_l, if_true, hkk, setKey_dictOf _ (keysOf_nodup _)]
  · simp only [sch_toM, A.afterPut, putRec, wOf_of_lookup_l hm, A.keys, List.map_append, List.map_singleton, keysOf_append,
      getD_upd_l, if_true, hkk, if_false, ((hi.keysOK _ hf).1 hkk).2.2, Option.getD_none, setKey_dictOf _ (keysOf_nodup _)]

theorem nItems_nonneg_l (l : List PutRec) (f : Nat) : 0 ≤ nItems flow l f := by
  unfold nItems; exact Int.natCast_nonneg _

theorem ind_nonneg_l (o : Option Int) (f : Nat) : 0 ≤ ind flow o f := by
  unfold ind
  cases o with
  | none => simp
  | some id => simp only; split <;> omega

/-- the class of the packet `run` still holds is active -/
theorem act_of_heldC (hi : AInv N scale size F flow cfg d1 L a now) {id0 : Int} (hh : a.run.heldC = some id0)
    (hf : flow id0 < F) : 1 ≤ (a.cls (flow id0)).getD 0 ∧ a.act (flow id0) = true := by
  have h1 := hi.clsOK _ hf
  have h2 : ind flow a.run.heldC (flow id0) = 1 := by simp [hh, ind]
  have h3 := nItems_nonneg_l (flow := flow) a.items (flow id0)
  have h4 : 1 ≤ (a.cls (flow id0)).getD 0 := by omega
  exact ⟨h4, (hi.actOK _ hf).mpr (by omega)⟩

/-- the bookkeeping of `run` after a transmission does not raise, and computes what `AStep.doneHit/doneBlock` say -/
theorem done_toM (hi : AInv N scale size F flow cfg d1 L a now) {p : EvId} {id0 : Int} {q0 : QEntry ℚ}
    (hr : a.run = .F p id0 q0) (t : ℚ) :
    WFQ.done cfg (toM size F flow cfg a t).sch t (pktOf flow size id0) =
      .ok (toM size F flow cfg (a.afterDone F flow cfg t id0) t).sch := by
  have hc := hi.cfgOK
  have hrun := hi.run
  rw [hr] at hrun
  obtain ⟨-, -, -, hf, w, hw, hwid⟩ := hrun
  obtain ⟨hn1, hact⟩ := act_of_heldC hi (id0 := id0) (by simp [hr, RPhase.heldC]) hf
  have hws : a.ws F cfg ≠ 0 := ne_of_gt (ws_pos_l hc a.act hf hact)
  have hfs : a.fset = true := hi.fsetOK (List.ne_nil_of_mem hw)
  have hk : flow id0 ∈ keysOf flow (a.puts.map (·.1)) := by
    subst hwid
    exact mem_keysOf_l _ _ (List.mem_map.mpr ⟨w, hw, rfl⟩)
  have hzf := zeroFinish_toM hc true a.fin
  simp only [if_true] at hzf
  unfold WFQ.done
  rw [sch_toM, updateVtime_toM hc hws]
  simp only [pktOf, hc.f2c _ hf, WFQ.leave, A.keys, lookup_dictOf, hk, if_true]
  by_cases h0 : (a.cls (flow id0)).getD 0 - 1 = 0
  · simp only [h0, if_true, contains_toM a.act hf hact, remove_toM, WFQ.settle, isEmpty_toM,
      setKey_dictOf _ (keysOf_nodup _), addKey_of_mem _ _ hk]
    by_cases hz : nAct (upd a.act (flow id0) false) 0 F 0 = 0
    · simp only [hz, decide_true, if_true, WFQ.resetVtime, hfs, hzf, sch_toM, A.afterDone, actAfter, h0,
        getD_upd_l, A.keys, zero_eq']
    · simp only [hz, decide_false, Bool.false_eq_true, if_false, hfs, if_true, sch_toM, A.afterDone, actAfter, h0,
        getD_upd_l, A.keys]
  · simp only [h0, if_false, WFQ.settle, isEmpty_toM, setKey_dictOf _ (keysOf_nodup _), addKey_of_mem _ _ hk]
    have hz : ¬ nAct a.act 0 F 0 = 0 := by
      rw [nAct_eq_l, zero_add]
      have : flow id0 ∈ (List.range' 0 F).filter fun x => a.act x := by
        simp [List.mem_filter, List.mem_range'_1, hf, hact]
      have := List.length_pos_of_mem this
      omega
    simp only [hz, decide_false, Bool.false_eq_true, if_false, hfs, if_true, sch_toM, A.afterDone, actAfter, h0,
      getD_upd_l, A.keys]


end lts

section runs
variable {N scale F : Nat} {flow size : Int → Nat} {cfg : WfqCfg ℚ} {d1 L : Nat} {a a' : A} {now t : ℚ} {q : QEntry ℚ}
  {n e : Nat} {new : List (HEv ℚ)}

/-! ## a non-empty scheduler has a non-zero weight sum -/

theorem exists_cnt_of_sum_l (c : Nat → Int) : ∀ (n f : Nat), sumFrom c f n ≠ 0 → ∃ x, f ≤ x ∧ x < f + n ∧ c x ≠ 0
  | 0, f, h => absurd rfl h
  | n + 1, f, h => by
    by_cases hc : c f = 0
    · have h' : sumFrom c (f + 1) n ≠ 0 := by
        intro h0; apply h; simp [sumFrom, hc, h0]
      obtain ⟨x, h1, h2, h3⟩ := exists_cnt_of_sum_l c n (f + 1) h'
      exact ⟨x, by omega, by omega, h3⟩
    · exact ⟨f, le_refl _, by omega, hc⟩

theorem ind_held_le_l (r : RPhase) (f : Nat) : ind flow r.held f ≤ ind flow r.heldC f := by
  cases r with
  | F p id q0 => exact ind_nonneg_l _ _
  | _ => exact le_refl _

theorem ws_ne_zero_of_total (hi : AInv N scale size F flow cfg d1 L a now) (h : a.total F ≠ 0) : a.ws F cfg ≠ 0 := by
  obtain ⟨f, -, hfF, hcf⟩ := exists_cnt_of_sum_l a.cnt F 0 h
  have hfF' : f < F := by omega
  have h1 := hi.cntOK f hfF'
  have h2 := hi.clsOK f hfF'
  have h3 := nItems_nonneg_l (flow := flow) a.items f
  have h4 := ind_nonneg_l (flow := flow) a.run.held f
  have h5 := ind_held_le_l (flow := flow) a.run f
  have hact : a.act f = true := (hi.actOK f hfF').mpr (by omega)
  exact ne_of_gt (ws_pos_l hi.cfgOK a.act hfF' hact)

theorem fset_of_total (hi : AInv N scale size F flow cfg d1 L a now) (h : a.total F ≠ 0) : a.fset = true := by
  obtain ⟨f, -, hfF, hcf⟩ := exists_cnt_of_sum_l a.cnt F 0 h
  have hfF' : f < F := by omega
  apply hi.fsetOK
  intro hp
  apply hcf
  apply ((hi.keysOK f hfF').1 _).1
  simp [hp, keysOf]

/-! ## runs of the LTS -/

/-- what the LTS side of a configuration step delivers: an accepted action sequence into the new configuration's LTS
state, with the packets that entered and left -/
def LtsOK (size : Int → Nat) (F : Nat) (flow : Int → Nat) (cfg : WfqCfg ℚ) (a : A) (t : ℚ) (a' : A) (ins outs : List SPkt) : Prop :=
  ∃ acts, Stamp.runActs (WFQ.sched cfg) (toM size F flow cfg a t) acts = .ok (toM size F flow cfg a' t, ins, outs)

theorem ltsOK_nothing (h : toM size F flow cfg a' t = toM size F flow cfg a t) : LtsOK size F flow cfg a t a' [] [] :=
  ⟨[], by rw [h]; rfl⟩

theorem ltsOK_one (act : StAct ℚ) (o : StOut)
    (h : Stamp.step (WFQ.sched cfg) (toM size F flow cfg a t) act = .ok (toM size F flow cfg a' t, o)) :
    LtsOK size F flow cfg a t a' (Stamp.entered act o) (Stamp.left o) := by
  refine ⟨[act], ?_⟩
  simp only [Stamp.runActs, h, List.append_nil]

theorem issueGet_none {σ : Type} (s : StState ℚ σ) (h : s.items = []) :
    Stamp.issueGet s none = .ok { s with getPending := true } := by
  unfold Stamp.issueGet
  simp only [h]

theorem issueGet_some {σ : Type} (s : StState ℚ σ) (id : Nat) (it : Item ℚ) (rest : List (Item ℚ))
    (h : Stamp.pick s.items id = .ok (it, rest)) :
    Stamp.issueGet s (some id) = .ok { s with items := rest, handed := some it } := by
  cases hitems : s.items with
  | nil => rw [hitems] at h; simp [Stamp.pick, Stamp.takeId] at h
  | cons x xs =>
    rw [hitems] at h
    simp only [Stamp.issueGet, hitems, h]

theorem txTime_eq (id : Int) : Stamp.txTime (WFQ.sched cfg) (pktOf flow size id) = WFQOnK.txTime size cfg.rate id := rfl

theorem txTime_nonneg_l (hr : 0 < cfg.rate) (id : Int) : 0 ≤ WFQOnK.txTime size cfg.rate id := by
  unfold WFQOnK.txTime
  rw [Num.ofNat_rat]
  exact div_nonneg (Nat.cast_nonneg _) (le_of_lt hr)

theorem doPut_toM (hi : AInv N scale size F flow cfg d1 L a now) {id : Int} (hf : flow id < F) (t : ℚ) :
    Stamp.doPut (WFQ.sched cfg) (toM size F flow cfg a t) (pktOf flow size id) =
      .ok (Stamp.enqueue (toM size F flow cfg a t) (toM size F flow cfg (a.afterPut size F flow cfg t id) t).sch
            (putRec size F flow cfg a t id).2.2 (pktOf flow size id), .accepted) := by
  have h : (WFQ.sched cfg).onPut (toM size F flow cfg a t).sch (toM size F flow cfg a t).now
      (Stamp.qcTotal (toM size F flow cfg a t).queueCount) (pktOf flow size id) =
        .ok ((toM size F flow cfg (a.afterPut size F flow cfg t id) t).sch, (putRec size F flow cfg a t id).2.2) := by
    rw [total_toM hi]
    exact put_toM hi hf t (ws_ne_zero_of_total hi) (fset_of_total hi)
  unfold Stamp.doPut
  rw [h]

/-- **every configuration step is accepted by the LTS** -/
theorem ltsOK_step (hi : AInv N scale size F flow cfg d1 L a q.time) (h : AStep N scale size F flow cfg n e a q a' new) :
    LtsOK size F flow cfg a q.time a' (putPk size flow new) (outPk size flow new) := by
  have hrun := hi.run
  cases h with
  | runInit h =>
    rw [h] at hrun
    obtain ⟨-, -, -, hit, -, -⟩ := hrun
    refine ltsOK_one (.init none) .nothing ?_
    have hst : (toM size F flow cfg a q.time).started = false := by simp [toM, h]
    simp only [Stamp.step, Stamp.doInit, hst, Bool.false_eq_true, if_false]
    rw [issueGet_none _ (by simp [toM, hit])]
    simp only [toM, h, hit, A.keys]
  | pktResume g w h =>
    refine ltsOK_one .resume .nothing ?_
    have hh : (toM size F flow cfg a q.time).handed = some (itemW size flow w) := by simp [toM, h]
    simp only [Stamp.step, Stamp.doResume, hh]
    simp only [toM, h, itemW, A.keys]
  | sendInit p id h =>
    refine ltsOK_one .sendInit .nothing ?_
    have hsp : (toM size F flow cfg a q.time).spawned = some (pktOf flow size id) := by simp [toM, h]
    have hr : Num.eqb (WFQ.sched cfg).rate (Num.zero : ℚ) = false := eqb_zero_false_l (ne_of_gt hi.cfgOK.rate)
    have hneg : ¬ WFQOnK.txTime size cfg.rate id < (Num.zero : ℚ) := by
      rw [zero_eq']
      exact not_lt.mpr (txTime_nonneg_l hi.cfgOK.rate id)
    simp only [Stamp.step, Stamp.doSendInit, hsp, hr, Bool.false_eq_true, if_false, hneg, txTime_eq]
    simp only [toM, h, Option.map_some, A.keys]
  | sendFire p t id h =>
    rw [h] at hrun
    obtain ⟨-, hcur, hfid, w, hw, hwid⟩ := hrun
    have hk : flow id ∈ a.keys flow := by
      subst hwid
      exact mem_keysOf_l _ _ (List.mem_map.mpr ⟨w, hw, rfl⟩)
    refine ltsOK_one .sendFire (.depart (pktOf flow size id)) ?_
    have htx : (toM size F flow cfg a q.time).tx = some (pktOf flow size id, q.time) := by simp [toM, h]
    have hnow : (toM size F flow cfg a q.time).now = q.time := rfl
    simp only [Stamp.step, Stamp.doSendFire, htx, hnow, lt_irrefl, if_false, Stamp.release]
    have hk' : addKey (keysOf flow (List.map (fun x => x.1) a.puts)) (flow id) = keysOf flow (List.map (fun x => x.1) a.puts) :=
      addKey_of_mem _ _ hk
    simp only [toM, h, pktOf, A.keys, bump_dictOf _ (keysOf_nodup _) _ _ _ (fun h0 => absurd hk h0), hk', Option.map_none]
  | doneHit p id0 w h hw =>
    refine ltsOK_one (.sendDone (some w.1.toNat)) .nothing ?_
    have hf : (toM size F flow cfg a q.time).fin = some (pktOf flow size id0) := by simp [toM, h]
    have hpk := pick_least hi hw
    have hd : (WFQ.sched cfg).onDone (toM size F flow cfg a q.time).sch (toM size F flow cfg a q.time).now
        (pktOf flow size id0) = _ := done_toM hi h q.time
    simp only [Stamp.step, Stamp.doSendDone, hf, hd]
    rw [issueGet_some _ _ _ _ (by simpa [toM] using hpk)]
    simp only [toM, h, A.keys, A.afterDone]
  | doneBlock p id0 h hit =>
    refine ltsOK_one (.sendDone none) .nothing ?_
    have hf : (toM size F flow cfg a q.time).fin = some (pktOf flow size id0) := by simp [toM, h]
    have hd : (WFQ.sched cfg).onDone (toM size F flow cfg a q.time).sch (toM size F flow cfg a q.time).now
        (pktOf flow size id0) = _ := done_toM hi h q.time
    simp only [Stamp.step, Stamp.doSendDone, hf, hd]
    rw [issueGet_none _ (by simp [toM, hit])]
    simp only [toM, h, A.keys, A.afterDone]
  | srcInit arr h => exact ltsOK_nothing rfl
  | srcPut id arr h =>
    have hs := hi.src
    rw [h] at hs
    obtain ⟨-, hwk, -, -⟩ := hs
    have hfid : flow id < F := (hwk.gap (0, id) List.mem_cons_self).2.1
    have h0c : flow id ∉ a.keys flow → a.cnt (flow id) = 0 := fun hk => ((hi.keysOK _ hfid).1 hk).1
    have h0b : flow id ∉ a.keys flow → a.byt (flow id) = 0 := fun hk => ((hi.keysOK _ hfid).1 hk).2.1
    show LtsOK size F flow cfg a q.time _ (Stamp.entered (.put (pktOf flow size id)) .accepted) (Stamp.left .accepted)
    refine ltsOK_one (.put (pktOf flow size id)) .accepted ?_
    simp only [Stamp.step]
    rw [doPut_toM hi hfid]
    simp only [Stamp.enqueue, toM, A.keys, keysOf_append, putRec, pktOf, bump_dictOf _ (keysOf_nodup _) _ _ _ h0c,
      bump_dictOf _ (keysOf_nodup _) _ _ _ h0b, List.map_append, List.map_singleton, itemW, A.afterPut]
  | srcEnd h => exact ltsOK_nothing rfl
  | pendNoop l1 l2 hpe hno => exact ltsOK_nothing rfl
  | pendHand g w l1 l2 hpe h hw =>
    refine ltsOK_one (.handoff w.1.toNat) .nothing ?_
    have hg : (toM size F flow cfg a q.time).getPending = true := by simp [toM, h]
    have hpk := pick_least hi hw
    have hpk' : Stamp.pick (toM size F flow cfg a q.time).items w.1.toNat = _ := hpk
    simp only [Stamp.step, Stamp.doHandoff, hg, if_true, hpk']
    simp only [toM, h, A.keys]

/-- each configuration step is a (possibly empty) action sequence the LTS accepts, ending in the LTS state of the new
configuration -/
theorem lts_step (hi : AInv N scale size F flow cfg d1 L a q.time) (h : AStep N scale size F flow cfg n e a q a' new) :
    ∃ acts, Stamp.runActs (WFQ.sched cfg) (toM size F flow cfg a q.time) acts =
      .ok (toM size F flow cfg a' q.time, putPk size flow new, outPk size flow new) :=
  ltsOK_step hi h

/-! ## the clock -/

/-- the LTS accepts the clock advance to the next entry -/
theorem lts_tick (hi : AInv N scale size F flow cfg d1 L a now) (hq : IsMin a q) (h : now < q.time) :
    Stamp.step (WFQ.sched cfg) (toM size F flow cfg a now) (.tick q.time) = .ok (toM size F flow cfg a q.time, .nothing) := by
  have hne : ∀ x ∈ a.entries, x.time ≠ now := fun x hx hxt => absurd (hi.time_eq hq hx hxt) (ne_of_gt h)
  have hp := hi.run
  have hok : Stamp.tickOk (toM size F flow cfg a now) q.time = none := by
    rw [Stamp.tickOk_iff]
    cases hr : a.run with
    | init q0 => rw [hr] at hp; exact absurd hp.1 (hne q0 (mem_run (by simp [hr, RPhase.entries])))
    | H g w q0 => rw [hr] at hp; exact absurd hp.1 (hne q0 (mem_run (by simp [hr, RPhase.entries])))
    | S p id q0 => rw [hr] at hp; exact absurd hp.1 (hne q0 (mem_run (by simp [hr, RPhase.entries])))
    | F p id q0 => rw [hr] at hp; exact absurd hp.1 (hne q0 (mem_run (by simp [hr, RPhase.entries])))
    | T p t id q0 =>
      have h2 : q.time ≤ q0.time := not_keyLt_time (hq.2 q0 (mem_run (by simp [hr, RPhase.entries])))
      refine ⟨le_of_lt h, by simp [toM, hr], by simp [toM, hr], by simp [toM, hr], by simp [toM, hr],
        by simp [toM, hr], ?_⟩
      intro p' due htx
      simp only [toM, hr, Option.some.injEq, Prod.mk.injEq] at htx
      rw [← htx.2]; exact h2
    | W g =>
      rw [hr] at hp
      refine ⟨le_of_lt h, by simp [toM, hr], by simp [toM, hr], by simp [toM, hr], by simp [toM, hr], ?_,
        by simp [toM, hr]⟩
      rintro ⟨-, hit⟩
      have hit' : a.items ≠ [] := by
        intro hc; apply hit; simp [toM, hc]
      obtain ⟨u, hu⟩ := List.exists_mem_of_ne_nil _ (hp.1 hit')
      exact hne u (mem_pend hu) (hi.pend _ hu).1
  simp only [Stamp.step, Stamp.doTick, hok]
  rfl

/-- the clock advance to the next entry is an accepted `tick` (or nothing) -/
theorem lts_advance (hi : AInv N scale size F flow cfg d1 L a now) (hq : IsMin a q) :
    ∃ acts, Stamp.runActs (WFQ.sched cfg) (toM size F flow cfg a now) acts = .ok (toM size F flow cfg a q.time, [], []) := by
  rcases eq_or_lt_of_le (hi.now_le hq) with h | h
  · exact ⟨[], by rw [← h]; rfl⟩
  · refine ⟨[.tick q.time], ?_⟩
    simp only [Stamp.runActs, lts_tick hi hq h]
    rfl

/-- the initial configuration stands for the initial LTS state -/
theorem toM_a0 (arrivals : List (ℚ × Int)) : toM size F flow cfg (a0 arrivals) 0 = WFQ.start 0 := by
  simp [toM, a0, WFQ.start, Stamp.init, WFQ.init0, A.keys, keysOf, dictOf, zero_eq']

/-! ## histories -/

theorem putPk_append (l1 l2 : List (HEv ℚ)) : putPk size flow (l1 ++ l2) = putPk size flow l1 ++ putPk size flow l2 := by
  simp [putPk, List.filterMap_append]

theorem outPk_append (l1 l2 : List (HEv ℚ)) : outPk size flow (l1 ++ l2) = outPk size flow l1 ++ outPk size flow l2 := by
  simp [outPk, List.filterMap_append]


end runs

end WFQK
