import OnlVerif.Lemmas.TcpSender
/-!
# The sender of a finite flow: the invariant behind the liveness results of C16

`SInv n s`: the sender invariant `Inv` plus what a flow of `n = k · MSS` bytes adds: `next_seq`, `send_buffer` are
aligned and bounded, `last_ack ≤ next_seq`, **the segment at `last_ack` is under a timer while anything is
outstanding**, **a blocked `run` with no wake-up token pending has something outstanding**, a finished `run` has sent
everything, every timer is live and not overdue, the congestion-control object's MSS is at least the generator's.

Every accepted action keeps it, provided the ACKs are the ones the closed loop delivers (`GoodAck`).
-/

open TcpScalar TcpSpec TcpCC TcpSender Sender

namespace AL
variable {β : Type}

theorem mem_keys_set {k q : Nat} {v : β} {l : List (Nat × β)} : q ∈ keys (set k v l) ↔ q ∈ keys l ∨ q = k := by
  rw [keys_set]
  split_ifs with h
  · constructor
    · exact Or.inl
    · rintro (h1 | h1)
      · exact h1
      · exact h1 ▸ h
  · simp

theorem mem_keys_of_mem {l : List (Nat × β)} {kv : Nat × β} (h : kv ∈ l) : kv.1 ∈ keys l :=
  List.mem_map.mpr ⟨kv, h, rfl⟩

end AL

namespace TcpLive

/-! ## congestion control never touches its `mss` -/

theorem cubic_update_mss (c : CCState ℚ) (now : ℚ) : (TCPCubic.cubic_update c now).mss = c.mss := by
  unfold TCPCubic.cubic_update TCPCubic.cubic_tcp_friendliness
  simp only []
  split_ifs <;> rfl

theorem ackReceived_mss (k : CCKind) (c : CCState ℚ) (rtt now : ℚ) : (CC.ackReceived k c rtt now).mss = c.mss := by
  cases k with
  | reno =>
    show (TCPReno.ack_received c rtt now).mss = c.mss
    unfold TCPReno.ack_received
    split_ifs <;> rfl
  | cubic =>
    show (TCPCubic.ack_received c rtt now).mss = c.mss
    rw [cubic_ack_eq]
    split_ifs
    · rfl
    · simp only []; split_ifs <;> simp [cubic_update_mss]

theorem timerExpired_mss (k : CCKind) (c : CCState ℚ) : (CC.timerExpired k c).mss = c.mss := by
  cases k with
  | reno => rfl
  | cubic => show (TCPCubic.timer_expired c).mss = c.mss; rw [cubic_timer_expired_eq]

theorem ccBeforeNew_mss (s : Sender ℚ) : (ccBeforeNew s).mss = s.cc.mss := by
  unfold ccBeforeNew; split_ifs <;> rfl

/-! ## the invariant -/

structure SInv (n : Nat) (s : Sender ℚ) : Prop where
  inv : Inv s
  size : s.size = some n
  npos : 0 < n
  mpos : 0 < s.mss
  dvd : s.mss ∣ n
  /-- the congestion-control object counts in segments at least as large as the generator's -/
  ccmss : (s.mss : ℚ) ≤ s.cc.mss
  ns_al : s.mss ∣ s.next_seq
  ns_le : s.next_seq ≤ n
  sb : s.send_buffer = s.next_seq ∨ s.send_buffer = s.next_seq + s.mss
  la_le : s.last_ack ≤ s.next_seq
  /-- while anything is outstanding, the first unacknowledged segment is under a timer -/
  tm : s.last_ack < s.next_seq → s.last_ack ∈ AL.keys s.timers
  /-- `run` waits for a wake-up token only while something is outstanding (or a token is already there) -/
  blk : s.proc = .blocked → 0 < s.tokens ∨ s.last_ack < s.next_seq
  finished : s.proc = .finished → s.next_seq = n
  live : ∀ kv ∈ s.timers, kv.2.live = true ∧ kv.2.wake = kv.2.expiry ∧ s.now ≤ kv.2.wake
  tk : ∀ q ∈ AL.keys s.timers, s.mss ∣ q ∧ q < s.next_seq
  /-- timers exist only for segments not below the acknowledged mark -/
  tge : ∀ q ∈ AL.keys s.timers, s.last_ack ≤ q

theorem al_succ {m a b : Nat} (ha : m ∣ a) (hb : m ∣ b) (h : a < b) : a + m ≤ b := by
  obtain ⟨x, rfl⟩ := ha
  obtain ⟨y, rfl⟩ := hb
  have hxy : x < y := by
    by_contra hc
    have := Nat.mul_le_mul_left m (Nat.le_of_not_lt hc)
    omega
  calc m * x + m = m * (x + 1) := by ring
    _ ≤ m * y := Nat.mul_le_mul_left m hxy

variable {n : Nat} {s : Sender ℚ}

theorem flowDone_iff (h : SInv n s) : s.flowDone = true ↔ s.next_seq = n := by
  unfold Sender.flowDone
  rw [h.size]
  have := h.npos; have := h.ns_le
  simp
  omega

theorem refill_eq (h : SInv n s) (hd : s.next_seq < n) : s.refill = { s with send_buffer := s.next_seq + s.mss } := by
  have hp : s.pktSize = s.mss := by
    unfold Sender.pktSize
    rw [h.size]
    have := al_succ h.ns_al h.dvd hd
    have := h.npos
    simp
    omega
  unfold Sender.refill
  rcases h.sb with e | e
  · rw [if_pos (by omega), hp, e]
  · rw [if_neg (by have := h.mpos; omega)]
    cases s
    simp only at e
    subst e
    rfl

/-- the three outcomes of one iteration of the sending loop, for a finite flow -/
theorem sendStep_cases (h : SInv n s) :
    (s.next_seq = n ∧ s.sendStep = .done { s with proc := .finished }) ∨
    (s.next_seq < n ∧ ((s.next_seq : ℚ) + s.mss ≤ s.last_ack + s.cc.cwnd) ∧
      s.sendStep = .sent { s with send_buffer := s.next_seq + s.mss, sent := AL.set s.next_seq s.now s.sent,
                                  next_seq := s.next_seq + s.mss,
                                  timers := AL.set s.next_seq { expiry := s.now + s.est.rto, wake := s.now + s.est.rto, live := true } s.timers }
                         { seq := s.next_seq, size := s.mss, stamp := s.now, kind := .new }) ∨
    (s.next_seq < n ∧ ¬ ((s.next_seq : ℚ) + s.mss ≤ s.last_ack + s.cc.cwnd) ∧
      s.sendStep = .yielded ({ s with send_buffer := s.next_seq + s.mss } : Sender ℚ).getToken) := by
  by_cases hd : s.next_seq = n
  · left
    refine ⟨hd, ?_⟩
    unfold Sender.sendStep
    rw [if_pos ((flowDone_iff h).mpr hd)]
  · right
    have hlt : s.next_seq < n := lt_of_le_of_ne h.ns_le hd
    have hfd : ¬ s.flowDone = true := fun e => hd ((flowDone_iff h).mp e)
    have hg : ({ s with send_buffer := s.next_seq + s.mss } : Sender ℚ).guard = true ↔
        (s.next_seq : ℚ) + s.mss ≤ s.last_ack + s.cc.cwnd := by
      rw [guard_iff]
      unfold InWindow
      simp only [Nat.cast_add, le_min_iff, le_refl, true_and]
    unfold Sender.sendStep
    rw [if_neg hfd]
    simp only [refill_eq h hlt]
    by_cases hw : (s.next_seq : ℚ) + s.mss ≤ s.last_ack + s.cc.cwnd
    · left
      refine ⟨hlt, hw, ?_⟩
      rw [if_pos (hg.mpr hw), emit_ok (by exact h.inv.rto_pos), arm_eq _ _ h.inv.rto_pos]
    · right
      refine ⟨hlt, hw, ?_⟩
      rw [if_neg (fun e => hw (hg.mp e))]

/-- the window is open whenever nothing is outstanding: `cwnd ≥ cc.mss ≥ MSS` -/
theorem window_open (h : SInv n s) (he : s.next_seq ≤ s.last_ack) :
    (s.next_seq : ℚ) + s.mss ≤ s.last_ack + s.cc.cwnd := by
  have h1 := h.ccmss
  have h2 := h.inv.cc.cwnd_ge
  have h3 : (s.next_seq : ℚ) ≤ s.last_ack := by exact_mod_cast he
  linarith

theorem sinv_done (h : SInv n s) (hd : s.next_seq = n) : SInv n ({ s with proc := .finished } : Sender ℚ) :=
  { h with inv := h.inv.transfer rfl rfl rfl rfl rfl h.inv.buf, blk := fun e => (by cases e), finished := fun _ => hd }

theorem sinv_sent (h : SInv n s) (hd : s.next_seq < n) :
    SInv n ({ s with send_buffer := s.next_seq + s.mss, sent := AL.set s.next_seq s.now s.sent,
                     next_seq := s.next_seq + s.mss,
                     timers := AL.set s.next_seq { expiry := s.now + s.est.rto, wake := s.now + s.est.rto, live := true } s.timers } : Sender ℚ) := by
  have hm := h.mpos
  have hle := al_succ h.ns_al h.dvd hd
  have hla := h.la_le
  refine ⟨?_, h.size, h.npos, h.mpos, h.dvd, h.ccmss, ?_, hle, Or.inl rfl, ?_, ?_, ?_, ?_, ?_, ?_, ?_⟩
  · exact ⟨h.inv.cc, AL.keys_set_congr _ _ _ h.inv.keys, AL.nodup_keys_set _ _ _ h.inv.nodup, h.inv.rto_pos,
      h.inv.srtt_pos, h.inv.dev_nonneg, Nat.le_refl _⟩
  · exact Dvd.dvd.add h.ns_al (Nat.dvd_refl _)
  · show s.last_ack ≤ s.next_seq + s.mss
    omega
  · intro _
    show s.last_ack ∈ AL.keys (AL.set _ _ _)
    rw [AL.mem_keys_set]
    by_cases e : s.last_ack < s.next_seq
    · exact Or.inl (h.tm e)
    · exact Or.inr (by omega)
  · intro _
    right
    show s.last_ack < s.next_seq + s.mss
    omega
  · intro e
    have := h.finished e
    omega
  · intro kv hkv
    rcases AL.mem_set hkv with e | e
    · rw [e]
      have := h.inv.rto_pos
      exact ⟨rfl, rfl, by show s.now ≤ s.now + s.est.rto; linarith⟩
    · exact h.live kv e
  · intro q hq
    rcases AL.mem_keys_set.mp hq with e | e
    · obtain ⟨a, b⟩ := h.tk q e
      exact ⟨a, by show q < s.next_seq + s.mss; omega⟩
    · subst e
      exact ⟨h.ns_al, by show s.next_seq < s.next_seq + s.mss; omega⟩
  · intro q hq
    rcases AL.mem_keys_set.mp hq with e | e
    · exact h.tge q e
    · subst e; exact hla

theorem sinv_yield (h : SInv n s) (_hd : s.next_seq < n) (hw : ¬ ((s.next_seq : ℚ) + s.mss ≤ s.last_ack + s.cc.cwnd)) :
    SInv n ({ s with send_buffer := s.next_seq + s.mss } : Sender ℚ).getToken := by
  have hout : s.last_ack < s.next_seq := by
    by_contra hc
    exact hw (window_open h (by omega))
  have base : SInv n ({ s with send_buffer := s.next_seq + s.mss } : Sender ℚ) :=
    { h with inv := h.inv.transfer rfl rfl rfl rfl rfl (Nat.le_add_right _ _), sb := Or.inr rfl }
  unfold Sender.getToken
  split_ifs with ht
  · exact { base with inv := base.inv.transfer rfl rfl rfl rfl rfl base.inv.buf, blk := fun e => (by cases e),
                      finished := fun e => by cases e }
  · exact { base with inv := base.inv.transfer rfl rfl rfl rfl rfl base.inv.buf, blk := fun _ => Or.inr hout,
                      finished := fun e => by cases e }

/-! ## a resumption of `run` -/

theorem getToken_spec (X : Sender ℚ) :
    X.getToken.last_ack = X.last_ack ∧ X.getToken.now = X.now ∧ X.getToken.mss = X.mss ∧ X.getToken.est = X.est ∧
    X.getToken.dupack = X.dupack ∧ X.getToken.cc = X.cc ∧ X.getToken.next_seq = X.next_seq ∧
    X.getToken.timers = X.timers ∧
    2 * X.getToken.tokens + (if X.getToken.proc = .runnable then 1 else 0) < 2 * X.tokens + 1 := by
  by_cases ht : X.tokens > 0
  · have e : X.getToken = { X with tokens := X.tokens - 1, proc := .runnable } := by
      unfold Sender.getToken; rw [if_pos ht]
    rw [e]
    refine ⟨rfl, rfl, rfl, rfl, rfl, rfl, rfl, rfl, ?_⟩
    show 2 * (X.tokens - 1) + (if Proc.runnable = Proc.runnable then 1 else 0) < 2 * X.tokens + 1
    simp only [if_true]
    omega
  · have e : X.getToken = { X with proc := .blocked } := by
      unfold Sender.getToken; rw [if_neg ht]
    rw [e]
    refine ⟨rfl, rfl, rfl, rfl, rfl, rfl, rfl, rfl, ?_⟩
    show 2 * X.tokens + (if Proc.blocked = Proc.runnable then 1 else 0) < 2 * X.tokens + 1
    simp

/-- what one resumption of `run` (`wake`) does: it sends the next `k` segments and stops -/
structure WakeSpec (n : Nat) (s : Sender ℚ) (new : List (Tx ℚ)) (s' : Sender ℚ) : Prop where
  sinv : SInv n s'
  last_ack : s'.last_ack = s.last_ack
  now : s'.now = s.now
  mss : s'.mss = s.mss
  est : s'.est = s.est
  dupack : s'.dupack = s.dupack
  cc : s'.cc = s.cc
  next_seq : s'.next_seq = s.next_seq + new.length * s.mss
  outs : ∀ i (hi : i < new.length), new[i] = { seq := s.next_seq + i * s.mss, size := s.mss, stamp := s.now, kind := .new }
  keys : ∀ q, q ∈ AL.keys s'.timers ↔ q ∈ AL.keys s.timers ∨ ∃ i, i < new.length ∧ q = s.next_seq + i * s.mss
  quiet : new = [] → s'.timers = s.timers
  /-- the process either consumed a token, or blocked, or finished -/
  procm : s.proc = .runnable → 2 * s'.tokens + (if s'.proc = .runnable then 1 else 0) < 2 * s.tokens + 1

theorem runLoop_live (fuel : Nat) : ∀ (s : Sender ℚ) (acc : List (Tx ℚ)), SInv n s →
    ∀ s' outs, runLoop fuel s acc = .ok s' outs → ∃ new, outs = acc ++ new ∧ WakeSpec n s new s' := by
  induction fuel with
  | zero => intro s acc _ s' outs he; cases he
  | succ fuel ih =>
    intro s acc h s' outs he
    unfold runLoop at he
    rcases sendStep_cases h with ⟨hd, e⟩ | ⟨hd, hw, e⟩ | ⟨hd, hw, e⟩
    · rw [e] at he
      injection he with e1 e2
      subst e1 e2
      refine ⟨[], (by simp), sinv_done h hd, rfl, rfl, rfl, rfl, rfl, rfl, (by simp), fun i hi => (by simp at hi), ?_, fun _ => rfl, ?_⟩
      · intro q; simp
      · intro _; simp
    · rw [e] at he
      simp only at he
      obtain ⟨new1, e1, w⟩ := ih _ _ (sinv_sent h hd) s' outs he
      refine ⟨({ seq := s.next_seq, size := s.mss, stamp := s.now, kind := .new } : Tx ℚ) :: new1, (by rw [e1]; simp), w.sinv, w.last_ack, w.now, w.mss, w.est, w.dupack, w.cc, ?_, ?_, ?_, fun e => (by cases e), ?_⟩
      · rw [w.next_seq]
        show s.next_seq + s.mss + new1.length * s.mss = s.next_seq + (new1.length + 1) * s.mss
        rw [Nat.succ_mul]; omega
      · intro i hi
        cases i with
        | zero => simp
        | succ i =>
          have hi' : i < new1.length := by simpa using hi
          simp only [List.getElem_cons_succ]
          rw [w.outs i hi']
          show ({ seq := s.next_seq + s.mss + i * s.mss, size := s.mss, stamp := s.now, kind := .new } : Tx ℚ) = _
          rw [Nat.succ_mul]
          congr 1
          omega
      · intro q
        rw [w.keys q]
        show q ∈ AL.keys (AL.set _ _ _) ∨ (∃ i, i < new1.length ∧ q = s.next_seq + s.mss + i * s.mss) ↔ _
        rw [AL.mem_keys_set]
        constructor
        · rintro ((h1 | h1) | ⟨i, hi, h1⟩)
          · exact Or.inl h1
          · exact Or.inr ⟨0, by simp, by simp [h1]⟩
          · exact Or.inr ⟨i + 1, by simp [hi], by rw [h1, Nat.succ_mul]; omega⟩
        · rintro (h1 | ⟨i, hi, h1⟩)
          · exact Or.inl (Or.inl h1)
          · cases i with
            | zero => exact Or.inl (Or.inr (by simp [h1]))
            | succ i => exact Or.inr ⟨i, by simpa using hi, by rw [h1, Nat.succ_mul]; omega⟩
      · intro hp
        exact w.procm hp
    · rw [e] at he
      injection he with e1 e2
      subst e1 e2
      obtain ⟨g1, g2, g3, g4, g5, g6, g7, g8, g9⟩ := getToken_spec ({ s with send_buffer := s.next_seq + s.mss } : Sender ℚ)
      refine ⟨[], (by simp), sinv_yield h hd hw, g1, g2, g3, g4, g5, g6, (by simpa using g7), fun i hi => (by simp at hi), ?_,
        fun _ => g8, fun _ => g9⟩
      intro q
      rw [g8]
      simp

theorem wake_spec {fuel : Nat} {s' : Sender ℚ} {outs : List (Tx ℚ)} (h : SInv n s) (hs : s.wakeStep fuel = .ok s' outs) :
    s.proc = .runnable ∧ WakeSpec n s outs s' := by
  unfold Sender.wakeStep at hs
  split_ifs at hs with hp
  obtain ⟨new, e, w⟩ := runLoop_live fuel s [] h s' outs hs
  simp only [List.nil_append] at e
  subst e
  exact ⟨hp, w⟩

/-! ## the other bursts, as equations -/

theorem handoff_spec {s' : Sender ℚ} {outs : List (Tx ℚ)} (hs : s.handoffStep = .ok s' outs) :
    s.proc = .blocked ∧ 0 < s.tokens ∧ s' = { s with tokens := s.tokens - 1, proc := .runnable } ∧ outs = [] := by
  unfold Sender.handoffStep at hs
  split_ifs at hs with hc
  injection hs with e1 e2
  exact ⟨hc.1, hc.2, e1.symm, e2.symm⟩

theorem tick_spec {t : ℚ} {s' : Sender ℚ} {outs : List (Tx ℚ)} (hs : s.tickStep t = .ok s' outs) :
    s.now ≤ t ∧ s.proc ≠ .runnable ∧ ¬ (s.proc = .blocked ∧ s.tokens > 0) ∧ s.overdue t = false ∧
    s' = { s with now := t } ∧ outs = [] := by
  unfold Sender.tickStep at hs
  split_ifs at hs with h1 h2 h3 h4
  injection hs with e1 e2
  exact ⟨not_lt.mp h1, h2, h3, by simpa using h4, e1.symm, e2.symm⟩

/-- an accepted `fire`: the timer was due; the window collapses, the segment is retransmitted, the RTO doubles and the
timer is re-armed for it -/
theorem fire_spec {seq : Nat} {s' : Sender ℚ} {outs : List (Tx ℚ)} (h : Inv s) (hs : s.fireStep seq = .ok s' outs) :
    ∃ tr S, AL.get? seq s.timers = some tr ∧ tr.live = true ∧ tr.wake = s.now ∧ ¬ s.now < tr.expiry ∧
      AL.keys S = AL.keys s.sent ∧
      s' = { s with cc := CC.timerExpired s.kind s.cc, sent := S, est := { s.est with rto := s.est.rto * 2 },
                    timers := AL.set seq { expiry := s.now + s.est.rto * 2, wake := s.now + s.est.rto * 2, live := true } s.timers } ∧
      outs = [{ seq := seq, size := s.mss, stamp := s.now, kind := .resend }] := by
  cases ht : AL.get? seq s.timers with
  | none =>
    unfold Sender.fireStep at hs; rw [ht] at hs; cases hs
  | some tr =>
    by_cases hdue : tr.live = true ∧ tr.wake = s.now ∧ ¬ s.now < tr.expiry
    · obtain ⟨S, r, hk, _⟩ := fireStep_spec s seq tr ht hdue
      rw [r] at hs
      injection hs with e1 e2
      have hmem : seq ∈ AL.keys s.sent := h.keys ▸ AL.mem_of_get?_some ht
      have hout := resend_out ({ s with cc := CC.timerExpired s.kind s.cc } : Sender ℚ) seq
      rw [if_pos hmem] at hout
      rw [hout] at e2
      have hpos : 0 < s.est.rto * 2 := by have := h.rto_pos; linarith
      rw [backoff_eq, arm_eq _ _ hpos] at e1
      exact ⟨tr, S, rfl, hdue.1, hdue.2.1, hdue.2.2, hk, e1.symm, e2.symm⟩
    · unfold Sender.fireStep at hs
      rw [ht] at hs
      have hd : (!tr.live || !Num.eqb tr.wake s.now || decide (s.now < tr.expiry)) = true := by
        by_contra hc
        apply hdue
        simp only [Bool.or_eq_true, Bool.not_eq_true', decide_eq_true_eq, not_or, Bool.not_eq_false] at hc
        exact ⟨hc.1.1, (eqb_iff _ _).mp hc.1.2, hc.2⟩
      simp only [hd, if_true] at hs
      cases hs

/-- a due timer can fire -/
theorem fire_enabled {seq : Nat} {tr : TimerRec ℚ} (ht : AL.get? seq s.timers = some tr)
    (hdue : tr.live = true ∧ tr.wake = s.now ∧ ¬ s.now < tr.expiry) : ∃ s' outs, s.fireStep seq = .ok s' outs := by
  obtain ⟨S, r, _⟩ := fireStep_spec s seq tr ht hdue
  exact ⟨_, _, r⟩

/-! ## the ACKs the closed loop delivers -/

/-- what the loop guarantees about the ACK at the head of the ACK path -/
structure GoodAck (s : Sender ℚ) (x : AckIn ℚ) : Prop where
  fid : 10000 ≤ x.fid
  ptime : x.ptime ≤ s.now
  ge : s.last_ack ≤ x.ackno
  le : x.ackno ≤ s.next_seq
  ne : x.pid ≠ x.ackno
  timed : x.ackno < s.next_seq → x.ackno ∈ AL.keys s.timers

theorem GoodAck.ok {x : AckIn ℚ} (g : GoodAck s x) : AckOk s x := ⟨g.fid, g.ptime⟩

/-- the ways an ACK is processed -/
inductive AckCase (s : Sender ℚ) (x : AckIn ℚ) (s' : Sender ℚ) (outs : List (Tx ℚ)) : Prop
  /-- an ACK overtaken by a later cumulative one (`ackno < last_ack`): ignored -/
  | stale : x.ackno < s.last_ack → s' = s → outs = [] → AckCase s x s' outs
  /-- first or second duplicate: counted -/
  | early : x.ackno = s.last_ack → s.dupack < 2 → s' = { s with dupack := s.dupack + 1 } → outs = [] → AckCase s x s' outs
  /-- third or later duplicate: the window is adjusted and `last_ack` is retransmitted when it is outstanding -/
  | dup (c : CCState ℚ) (S : List (Nat × ℚ)) : x.ackno = s.last_ack → 2 ≤ s.dupack → c.mss = s.cc.mss → CCInv s.kind c →
      AL.keys S = AL.keys s.sent →
      s' = { s with dupack := s.dupack + 1, cc := c, sent := S } →
      (outs = [] ∨ (s.last_ack ∈ AL.keys s.sent ∧ outs = [{ seq := s.last_ack, size := s.mss, stamp := s.now, kind := .resend }])) →
      (s.dupack = 2 → s.last_ack ∈ AL.keys s.sent → outs ≠ []) →
      AckCase s x s' outs
  /-- a new ACK -/
  | new (T : List (Nat × TimerRec ℚ)) (S : List (Nat × ℚ)) : x.ackno ≠ s.last_ack →
      s' = { s with dupack := 0, est := TCPPacketGenerator.put_estimator s.est s.now x.ptime, last_ack := x.ackno,
                    cc := CC.ackReceived s.kind (ccBeforeNew s) (TCPPacketGenerator.put_sample_rtt s.now x.ptime) s.now,
                    timers := T, sent := S, tokens := s.tokens + 1 } →
      (∀ q, q ∈ AL.keys T ↔ q ∈ AL.keys s.timers ∧ ¬ (q < x.ackno ∨ q = x.pid)) → (∀ kv ∈ T, kv ∈ s.timers) →
      outs = [] → AckCase s x s' outs

theorem ack_cases {x : AckIn ℚ} {s' : Sender ℚ} {outs : List (Tx ℚ)} (h : Inv s) (hok : AckOk s x)
    (hs : s.ackStep x = .ok s' outs) : AckCase s x s' outs := by
  rcases Nat.lt_trichotomy x.ackno s.last_ack with hst | hd | hd
  · rw [ackStep_stale s x hok hst] at hs
    injection hs with e1 e2
    exact .stale hst e1.symm e2.symm
  · rcases Nat.lt_trichotomy s.dupack 2 with h2 | h2 | h2
    · rw [ackStep_early s x hok hd h2] at hs
      injection hs with e1 e2
      exact .early hd h2 e1.symm e2.symm
    · rw [ackStep_third s x hok hd h2] at hs
      injection hs with e1 e2
      unfold Sender.thirdDup at e1 e2
      obtain ⟨S, hS, hk⟩ := resend_frame
        ({ s with dupack := 3, cc := CongestionControl.consecutive_dupacks_received s.cc } : Sender ℚ) x.ackno
      rw [hS] at e1
      rw [resend_out] at e2
      have e2' : (if s.last_ack ∈ AL.keys s.sent then
          [({ seq := s.last_ack, size := s.mss, stamp := s.now, kind := .resend } : Tx ℚ)] else []) = outs := by
        rw [← hd]; exact e2
      refine .dup (CongestionControl.consecutive_dupacks_received s.cc) S hd (by omega) rfl (inv_third h.cc) hk
        (by rw [← e1, h2]) ?_ ?_
      · rw [← e2']
        split_ifs with hm
        · exact Or.inr ⟨hm, rfl⟩
        · exact Or.inl rfl
      · intro _ hm
        rw [← e2', if_pos hm]
        simp
    · rw [ackStep_more s x hok hd (by omega)] at hs
      injection hs with e1 e2
      unfold Sender.moreDup at e1 e2
      simp only at e1 e2
      obtain ⟨S, hS, hk⟩ := resend_frame
        ({ s with dupack := s.dupack + 1, cc := CongestionControl.more_dupacks_received s.cc } : Sender ℚ) x.ackno
      split_ifs at e1 e2 with hw
      · rw [hS] at e1
        rw [resend_out] at e2
        have e2' : (if s.last_ack ∈ AL.keys s.sent then
            [({ seq := s.last_ack, size := s.mss, stamp := s.now, kind := .resend } : Tx ℚ)] else []) = outs := by
          rw [← hd]; exact e2
        refine .dup (CongestionControl.more_dupacks_received s.cc) S hd (by omega) rfl (inv_more h.cc) hk e1.symm ?_
          (fun e => by omega)
        rw [← e2']
        split_ifs with hm
        · exact Or.inr ⟨hm, rfl⟩
        · exact Or.inl rfl
      · exact .dup (CongestionControl.more_dupacks_received s.cc) s.sent hd (by omega) rfl (inv_more h.cc) rfl e1.symm
          (Or.inl e2.symm) (fun e => by omega)
  · obtain ⟨T, S, r, _, _, hT, hsub⟩ := ackStep_new_spec s x h.cc h.keys h.nodup hok hd
    rw [r] at hs
    injection hs with e1 e2
    exact .new T S (by omega) e1.symm hT hsub e2.symm

/-! ## every accepted action keeps `SInv`; what it does to the numbers the loop invariant talks about -/

structure Eff (n : Nat) (s : Sender ℚ) (a : Act ℚ) (s' : Sender ℚ) (outs : List (Tx ℚ)) : Prop where
  sinv : SInv n s'
  mss : s'.mss = s.mss
  la : s'.last_ack = s.last_ack ∨ ∃ x, a = .ack x ∧ s'.last_ack = x.ackno
  ns : s.next_seq ≤ s'.next_seq
  ns_ack : ∀ x, a = .ack x → s'.next_seq = s.next_seq
  now : s.now ≤ s'.now
  keep : ∀ q ∈ AL.keys s.timers, q ∈ AL.keys s'.timers ∨ ∃ x, a = .ack x ∧ (q < x.ackno ∨ q = x.pid)
  fresh : ∀ q, s.mss ∣ q → s.next_seq ≤ q → q < s'.next_seq → q ∈ AL.keys s'.timers
  outs : ∀ tx ∈ outs, tx.size = s.mss ∧ s.mss ∣ tx.seq ∧ tx.seq < s'.next_seq ∧ tx.stamp ≤ s'.now

theorem eff_wake {fuel : Nat} {s' : Sender ℚ} {outs : List (Tx ℚ)} (h : SInv n s) (hs : s.wakeStep fuel = .ok s' outs) :
    Eff n s (.wake fuel) s' outs := by
  obtain ⟨_, w⟩ := wake_spec h hs
  have hm := h.mpos
  refine ⟨w.sinv, w.mss, Or.inl w.last_ack, (by rw [w.next_seq]; exact Nat.le_add_right _ _), fun x e => (by cases e),
    (by rw [w.now]), fun q hq => Or.inl ((w.keys q).mpr (Or.inl hq)), ?_, ?_⟩
  · intro q hq h1 h2
    rw [w.next_seq] at h2
    obtain ⟨i, hi⟩ := (Nat.dvd_sub hq h.ns_al : s.mss ∣ q - s.next_seq)
    refine (w.keys q).mpr (Or.inr ⟨i, ?_, by rw [Nat.mul_comm] at hi; omega⟩)
    by_contra hc
    have := Nat.mul_le_mul_left s.mss (Nat.le_of_not_lt hc)
    rw [Nat.mul_comm s.mss outs.length] at this
    omega
  · intro tx htx
    obtain ⟨i, hi, rfl⟩ := List.getElem_of_mem htx
    rw [w.outs i hi, w.next_seq, w.now]
    refine ⟨rfl, Dvd.dvd.add h.ns_al (Dvd.intro_left i rfl), ?_, le_refl _⟩
    show s.next_seq + i * s.mss < s.next_seq + outs.length * s.mss
    have := Nat.mul_lt_mul_of_pos_right hi hm
    omega

theorem eff_handoff {s' : Sender ℚ} {outs : List (Tx ℚ)} (h : SInv n s) (hs : s.handoffStep = .ok s' outs) :
    Eff n s .handoff s' outs := by
  obtain ⟨_, _, rfl, rfl⟩ := handoff_spec hs
  refine ⟨{ h with inv := h.inv.transfer rfl rfl rfl rfl rfl h.inv.buf, blk := fun e => (by cases e),
                   finished := fun e => (by cases e) },
    rfl, Or.inl rfl, Nat.le_refl _, fun x e => (by cases e), le_refl _, fun q hq => Or.inl hq, ?_, fun tx htx => by simp at htx⟩
  intro q _ h1 h2
  exact absurd h2 (by show ¬ q < s.next_seq; omega)

theorem eff_tick {t : ℚ} {s' : Sender ℚ} {outs : List (Tx ℚ)} (h : SInv n s) (hs : s.tickStep t = .ok s' outs) :
    Eff n s (.tick t) s' outs := by
  obtain ⟨h1, _, _, h4, rfl, rfl⟩ := tick_spec hs
  refine ⟨{ h with inv := h.inv.transfer rfl rfl rfl rfl rfl h.inv.buf, live := ?_ },
    rfl, Or.inl rfl, Nat.le_refl _, fun x e => (by cases e), h1, fun q hq => Or.inl hq, ?_, fun tx htx => by simp at htx⟩
  · intro kv hkv
    obtain ⟨a, b, _⟩ := h.live kv hkv
    refine ⟨a, b, ?_⟩
    show t ≤ kv.2.wake
    unfold Sender.overdue at h4
    have := (List.any_eq_false.mp h4) kv hkv
    simp only [a, Bool.true_and, decide_eq_true_eq] at this
    exact not_lt.mp this
  · intro q _ h1 h2
    exact absurd h2 (by show ¬ q < s.next_seq; omega)

theorem eff_fire {seq : Nat} {s' : Sender ℚ} {outs : List (Tx ℚ)} (h : SInv n s) (hs : s.fireStep seq = .ok s' outs) :
    Eff n s (.fire seq) s' outs := by
  have hinv := (fireStep_safe h.inv seq).2 _ _ hs
  obtain ⟨tr, S, ht, _, _, _, hk, rfl, rfl⟩ := fire_spec h.inv hs
  have hmem : seq ∈ AL.keys s.timers := AL.mem_of_get?_some ht
  have hkeys : AL.keys (AL.set seq ({ expiry := s.now + s.est.rto * 2, wake := s.now + s.est.rto * 2, live := true } : TimerRec ℚ)
      s.timers) = AL.keys s.timers := AL.keys_set_of_mem _ _ _ hmem
  have hrto := h.inv.rto_pos
  refine ⟨{ h with inv := hinv, ccmss := ?_, tm := ?_, live := ?_, tk := ?_, tge := fun q hq => h.tge q (hkeys ▸ hq) },
    rfl, Or.inl rfl, Nat.le_refl _, fun x e => (by cases e), le_refl _, fun q hq => Or.inl (hkeys ▸ hq), ?_, ?_⟩
  · show (s.mss : ℚ) ≤ (CC.timerExpired s.kind s.cc).mss
    rw [timerExpired_mss]; exact h.ccmss
  · intro e
    show s.last_ack ∈ AL.keys (AL.set _ _ _)
    rw [hkeys]; exact h.tm e
  · intro kv hkv
    rcases AL.mem_set hkv with e | e
    · rw [e]
      exact ⟨rfl, rfl, by show s.now ≤ s.now + s.est.rto * 2; linarith⟩
    · exact h.live kv e
  · intro q hq
    rw [hkeys] at hq
    exact h.tk q hq
  · intro q _ h1 h2
    exact absurd h2 (by show ¬ q < s.next_seq; omega)
  · intro tx htx
    simp only [List.mem_singleton] at htx
    subst htx
    obtain ⟨a, b⟩ := h.tk seq hmem
    exact ⟨rfl, a, b, le_refl _⟩

theorem eff_ack {x : AckIn ℚ} {s' : Sender ℚ} {outs : List (Tx ℚ)} (h : SInv n s) (g : GoodAck s x)
    (hs : s.ackStep x = .ok s' outs) : Eff n s (.ack x) s' outs := by
  have hinv := (ackStep_safe h.inv x g.fid).2 _ _ hs
  have nofresh : ∀ q, s.mss ∣ q → s.next_seq ≤ q → q < s.next_seq → q ∈ AL.keys s'.timers := by
    intro q _ h1 h2; omega
  cases ack_cases h.inv g.ok hs with
  | stale hlt _ _ => exact absurd hlt (Nat.not_lt.mpr g.ge)
  | early hd h2 e1 e2 =>
    subst e1 e2
    exact ⟨{ h with inv := hinv }, rfl, Or.inl rfl, Nat.le_refl _, fun _ _ => rfl, le_refl _, fun q hq => Or.inl hq,
      nofresh, fun tx htx => by simp at htx⟩
  | dup c S hd h2 hc hci hk e1 e2 _ =>
    subst e1
    refine ⟨{ h with inv := hinv, ccmss := (by show (s.mss : ℚ) ≤ c.mss; rw [hc]; exact h.ccmss) }, rfl, Or.inl rfl,
      Nat.le_refl _, fun _ _ => rfl, le_refl _, fun q hq => Or.inl hq, nofresh, ?_⟩
    intro tx htx
    rcases e2 with e2 | ⟨hm, e2⟩
    · subst e2; simp at htx
    · subst e2
      simp only [List.mem_singleton] at htx
      subst htx
      obtain ⟨a, b⟩ := h.tk s.last_ack (h.inv.keys ▸ hm)
      exact ⟨rfl, a, b, le_refl _⟩
  | new T S hd e1 hT hsub e2 =>
    subst e1 e2
    refine ⟨{ h with inv := hinv, ccmss := ?_, la_le := g.le, tm := ?_, blk := fun _ => Or.inl (Nat.succ_pos _),
                     live := fun kv hkv => h.live kv (hsub kv hkv), tk := fun q hq => h.tk q ((hT q).mp hq).1,
                     tge := fun q hq => (by have := ((hT q).mp hq).2; show x.ackno ≤ q; omega) },
      rfl, Or.inr ⟨x, rfl, rfl⟩, Nat.le_refl _, fun _ _ => rfl, le_refl _, ?_, nofresh, fun tx htx => by simp at htx⟩
    · show (s.mss : ℚ) ≤ (CC.ackReceived s.kind (ccBeforeNew s) _ s.now).mss
      rw [ackReceived_mss, ccBeforeNew_mss]; exact h.ccmss
    · intro e
      have e' : x.ackno < s.next_seq := e
      show x.ackno ∈ AL.keys T
      exact (hT _).mpr ⟨g.timed e', fun hc => by rcases hc with hc | hc; exact absurd hc (Nat.lt_irrefl _); exact g.ne hc.symm⟩
    · intro q hq
      by_cases hc : q < x.ackno ∨ q = x.pid
      · exact Or.inr ⟨x, rfl, hc⟩
      · exact Or.inl ((hT q).mpr ⟨hq, hc⟩)

theorem step_eff {a : Act ℚ} {s' : Sender ℚ} {outs : List (Tx ℚ)} (h : SInv n s) (ha : ∀ x, a = .ack x → GoodAck s x)
    (hs : s.step a = .ok s' outs) : Eff n s a s' outs := by
  cases a with
  | wake fuel => exact eff_wake h hs
  | handoff => exact eff_handoff h hs
  | ack x => exact eff_ack h (ha x rfl) hs
  | fire seq => exact eff_fire h hs
  | tick t => exact eff_tick h hs

end TcpLive
