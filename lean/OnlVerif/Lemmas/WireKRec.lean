import OnlVerif.Lemmas.WireKDefs
/-!
# The wire's own arithmetic is the delivery recurrence of C10

`deliv` follows the code: a packet is taken from the store at `g = max(arrival, instant the server became free)`, a lost
one is dropped at once, another one leaves at `g + (d - (g - arrival))` if `g - arrival < d` and at `g` otherwise.  For
arrivals in time order and non-negative delays this is `max(arrival + d, previous delivery)`, and lost packets delay nobody.
-/

namespace WireK
open WireOnK

variable {cfg : WireCfg ℚ} {losses delays : List ℚ}

/-- the instant a packet that is not lost leaves: `max(arrival + d, taken)` -/
theorem leave_eq (g a d : ℚ) (hga : a ≤ g) : (if g - a < d then a + d else g) = max (a + d) g := by
  split
  · rename_i hw
    exact (max_eq_left (by linarith)).symm
  · rename_i hw
    exact (max_eq_right (by linarith)).symm

theorem deliv_future (hd : ∀ k, 0 ≤ draw delays k) (gaps : List ℚ) (hg : GapsOK gaps) :
    ∀ (fr t : ℚ) (prev : Option ℚ) (k nl nd : Nat), (prev = none → fr ≤ t) →
      (∀ p, prev = some p → p ≤ fr ∧ fr ≤ max p t) →
      deliv cfg losses delays fr nl nd (futureOf t k gaps) = deliveries cfg losses delays prev t k nl nd gaps := by
  induction gaps with
  | nil => intro fr t prev k nl nd _ _; simp [futureOf, deliv, deliveries]
  | cons gap rest ih =>
    intro fr t prev k nl nd h1 h2
    have hgap : 0 ≤ gap := hg gap (by simp)
    have hrest : GapsOK rest := fun x hx => hg x (List.mem_cons_of_mem _ hx)
    have hdd := hd nd
    have ih' := ih hrest
    simp only [futureOf, deliv, deliveries]
    by_cases hl : isLost cfg (draw losses nl) = true
    · simp only [hl, if_true]
      refine ih' (max fr (t + gap)) (t + gap) prev (k + 1) (nlNext cfg nl) nd ?_ ?_
      · intro hp
        have := h1 hp
        exact max_le (by linarith) (le_refl _)
      · intro p hp
        obtain ⟨h3, h4⟩ := h2 p hp
        refine ⟨le_trans h3 (le_max_left _ _), max_le ?_ (le_max_right _ _)⟩
        exact le_trans h4 (max_le (le_max_left _ _) (le_trans (by linarith) (le_max_right _ _)))
    · simp only [hl, Bool.false_eq_true, if_false]
      rw [leave_eq _ _ _ (le_max_right fr (t + gap))]
      cases prev with
      | none =>
        have h1' := h1 rfl
        have e : max (t + gap + draw delays nd) (max fr (t + gap)) = t + gap + draw delays nd := by
          rw [max_eq_right (show fr ≤ t + gap by linarith)]
          exact max_eq_left (by linarith)
        simp only [e]
        congr 1
        refine ih' _ _ _ _ _ _ (by intro h; cases h) ?_
        intro p hp
        simp only [Option.some.injEq] at hp
        subst hp
        exact ⟨le_refl _, le_max_left _ _⟩
      | some p =>
        obtain ⟨h3, h4⟩ := h2 p rfl
        have e : max (t + gap + draw delays nd) (max fr (t + gap)) = Num.pymax (t + gap + draw delays nd) p := by
          rw [Num.pymax_eq]
          apply le_antisymm
          · refine max_le (le_max_left _ _) (max_le ?_ (le_trans (by linarith) (le_max_left _ _)))
            exact le_trans h4 (max_le (le_max_right _ _) (le_trans (by linarith) (le_max_left _ _)))
          · exact max_le (le_max_left _ _) (le_trans h3 (le_trans (le_max_left _ _) (le_max_right _ _)))
        simp only [e]
        congr 1
        refine ih' _ _ _ _ _ _ (by intro h; cases h) ?_
        intro p' hp
        simp only [Option.some.injEq] at hp
        subst hp
        exact ⟨le_refl _, le_max_left _ _⟩

/-- **the wire's arithmetic on the whole workload is the delivery recurrence** -/
theorem deliv_eq_deliveries (hd : ∀ k, 0 ≤ draw delays k) (arrivals : List ℚ) (hg : GapsOK arrivals) :
    deliv cfg losses delays 0 0 0 (futureOf 0 0 arrivals) = deliveries cfg losses delays none 0 0 0 0 arrivals :=
  deliv_future hd arrivals hg 0 0 none 0 0 0 (fun _ => le_refl _) (fun p hp => by cases hp)

end WireK
