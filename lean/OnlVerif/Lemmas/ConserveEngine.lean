import OnlVerif.Lemmas.ConserveFrame
/-!
# Conservation / ordering proofs: the engine over atomic resource units

`CRel R`: `R` is reflexive, transitive, implies `Base`, and contains

* `frame`   — every bookkeeping update (`Frame`);
* `alloc`   — a fresh event that is not a request;
* `trigNR`  — an outcome written to an event that is not a request;
* `grantPut`— `_do_put` grants the request at the **head** of the put queue, which leaves the queue;
* `grantGet`— `_do_get` grants a queued get; every queue member in front of it was passed over by the scan of a
              `FilterStore` because nothing matches its filter;
* `newPut` / `newGet` — `Put/Get.__init__`: the request record is created and enqueued;
* `cancelPut` / `cancelGet` — a pending, queued request leaves the queue.

The theorems below show, once, that from a well-formed state `R` relates `s` to `f s` for every transformer `f`
of the model, provided the program does not call `succeed`/`fail` on request events (`callOK … stepOK`).
-/

variable {σ : Type}

namespace Conserve

/-- the kind of a non-request event -/
def nonReqKind : Kind → Bool
  | .put _ => false
  | .get _ => false
  | _ => true

/-- `_do_put` on the head of the queue, granted -/
def grantPutSt (s : KState ℚ σ) (r : ResId) (e : EvId) : KState ℚ σ := dropPutQ (applyPut s r e) r e
/-- `_do_get`, granted with value `v` -/
def grantGetSt (s : KState ℚ σ) (r : ResId) (e : EvId) (v : Val) : KState ℚ σ :=
  dropGetQ ((takeOut s r e v).trigger e (.ok v)) r e
/-- `Put.__init__` up to the scan -/
def newPutSt (s : KState ℚ σ) (r : ResId) (rq : ReqData ℚ) : KState ℚ σ :=
  enqPut (s.newLabelled { kind := .put r, cbs := some [.trigGet r], out := none, req := some rq }).1 r s.events.size
/-- `Get.__init__` up to the scan -/
def newGetSt (s : KState ℚ σ) (r : ResId) (rq : ReqData ℚ) : KState ℚ σ :=
  enqGet (s.newLabelled { kind := .get r, cbs := some [.trigPut r], out := none, req := some rq }).1 r s.events.size

structure CRel (R : KState ℚ σ → KState ℚ σ → Prop) : Prop where
  refl : ∀ s, R s s
  trans : ∀ {s1 s2 s3}, R s1 s2 → R s2 s3 → R s1 s3
  toBase : ∀ {s s'}, R s s' → Base s s'
  frame : ∀ s s', WF s → Frame s s' → R s s'
  alloc : ∀ s s' (x : EvRec ℚ), WF s → s'.events = s.events.push x → nonReqKind x.kind = true →
    (∀ l, x.cbs = some l → ∀ cb ∈ l, cbPlain cb = true) → s'.resources = s.resources → s'.procs = s.procs → R s s'
  trigNR : ∀ s e o, WF s → isReq s e = false → R s (s.setOut e o)
  grantPut : ∀ s r e rest, WF s → (s.res r).putQ = e :: rest → canPut s r e = true → R s (grantPutSt s r e)
  grantGet : ∀ s r e v pre rest, WF s → (s.res r).getQ = pre ++ e :: rest → getItem s r e = some v →
    (∀ a ∈ pre, (s.res r).kind = .fstore ∧ getItem s r a = none) → R s (grantGetSt s r e v)
  newPut : ∀ s r rq, WF s → R s (newPutSt s r rq)
  newGet : ∀ s r rq, WF s → R s (newGetSt s r rq)
  cancelPut : ∀ s r e, WF s → (s.ev e).out = none → (s.ev e).kind = .put r → e ∈ (s.res r).putQ → R s (dropPutQ s r e)
  cancelGet : ∀ s r e, WF s → (s.ev e).out = none → (s.ev e).kind = .get r → e ∈ (s.res r).getQ → R s (dropGetQ s r e)

/-! ## shape of the resource units (concrete) -/

section shape

theorem res_setRes_putQ (s : KState ℚ σ) (r : ResId) (x : ResRec) (h : x.putQ = (s.res r).putQ) (r' : ResId) :
    ((s.setRes r x).res r').putQ = (s.res r').putQ := by
  rw [KState.res_setRes]; split
  · rename_i hc; rw [hc.1]; exact h
  · rfl

theorem res_setRes_getQ (s : KState ℚ σ) (r : ResId) (x : ResRec) (h : x.getQ = (s.res r).getQ) (r' : ResId) :
    ((s.setRes r x).res r').getQ = (s.res r').getQ := by
  rw [KState.res_setRes]; split
  · rename_i hc; rw [hc.1]; exact h
  · rfl

theorem res_setRes_kind (s : KState ℚ σ) (r : ResId) (x : ResRec) (h : x.kind = (s.res r).kind) (r' : ResId) :
    ((s.setRes r x).res r').kind = (s.res r').kind := by
  rw [KState.res_setRes]; split
  · rename_i hc; rw [hc.1]; exact h
  · rfl

theorem applyPut_putQ (s : KState ℚ σ) (r : ResId) (e : EvId) (r' : ResId) :
    ((applyPut s r e).res r').putQ = (s.res r').putQ := by
  unfold applyPut
  simp only
  split <;> simp only [KState.res_trigger, KState.res_setUsage, KState.setUsers, KState.setLevel, KState.setItems] <;>
    exact res_setRes_putQ s r _ (by rfl) r'

theorem applyPut_triggered (s : KState ℚ σ) (r : ResId) (e : EvId) (h : e < s.events.size) :
    (applyPut s r e).triggered e = true := by
  unfold applyPut
  simp only
  split <;> apply KState.triggered_trigger <;>
    simp only [KState.setUsage, KState.esize_setEv, KState.setUsers, KState.setLevel, KState.setItems, KState.events_setRes] <;>
    exact h

theorem grantPutSt_putQ (s : KState ℚ σ) (r : ResId) (e : EvId) (hr : r < s.resources.size) :
    ((grantPutSt s r e).res r).putQ = (s.res r).putQ.erase e := by
  unfold grantPutSt dropPutQ KState.setPutQ
  have hsz : r < (applyPut s r e).resources.size := by
    unfold applyPut
    simp only
    split <;> simp only [KState.trigger, KState.schedule, KState.setOut, KState.setUsage, KState.setEv, KState.setUsers,
      KState.setLevel, KState.setItems, KState.rsize_setRes] <;> exact hr
  rw [KState.res_setRes, if_pos ⟨rfl, hsz⟩, applyPut_putQ]

theorem takeOut_getQ (s : KState ℚ σ) (r : ResId) (e : EvId) (v : Val) (r' : ResId) :
    ((takeOut s r e v).res r').getQ = (s.res r').getQ := by
  unfold takeOut
  simp only
  split
  · exact res_setRes_getQ s r _ (by rfl) r'
  · exact res_setRes_getQ s r _ (by rfl) r'
  · exact res_setRes_getQ s r _ (by rfl) r'
  · exact res_setRes_getQ s r _ (by rfl) r'
  · exact res_setRes_getQ s r _ (by rfl) r'
  · split
    · exact res_setRes_getQ s r _ (by rfl) r'
    · rfl
  · split
    · exact res_setRes_getQ s r _ (by rfl) r'
    · rfl

theorem takeOut_kind (s : KState ℚ σ) (r : ResId) (e : EvId) (v : Val) (r' : ResId) :
    ((takeOut s r e v).res r').kind = (s.res r').kind := by
  unfold takeOut
  simp only
  split
  · exact res_setRes_kind s r _ (by rfl) r'
  · exact res_setRes_kind s r _ (by rfl) r'
  · exact res_setRes_kind s r _ (by rfl) r'
  · exact res_setRes_kind s r _ (by rfl) r'
  · exact res_setRes_kind s r _ (by rfl) r'
  · split
    · exact res_setRes_kind s r _ (by rfl) r'
    · rfl
  · split
    · exact res_setRes_kind s r _ (by rfl) r'
    · rfl

theorem takeOut_esize (s : KState ℚ σ) (r : ResId) (e : EvId) (v : Val) : (takeOut s r e v).events.size = s.events.size := by
  unfold takeOut
  simp only
  split <;> try rfl
  all_goals split <;> rfl

theorem takeOut_rsize (s : KState ℚ σ) (r : ResId) (e : EvId) (v : Val) : (takeOut s r e v).resources.size = s.resources.size := by
  unfold takeOut
  simp only
  split <;> try (simp only [KState.setUsers, KState.setLevel, KState.setItems, KState.rsize_setRes])
  all_goals split <;> simp only [KState.setItems, KState.rsize_setRes]

theorem takeOut_ev (s : KState ℚ σ) (r : ResId) (e : EvId) (v : Val) (e' : EvId) : (takeOut s r e v).ev e' = s.ev e' := by
  unfold takeOut
  simp only
  split <;> try rfl
  all_goals split <;> rfl

theorem grantGetSt_triggered_pre (s : KState ℚ σ) (r : ResId) (e : EvId) (v : Val) (h : e < s.events.size) :
    ((takeOut s r e v).trigger e (.ok v)).triggered e = true :=
  KState.triggered_trigger _ _ _ (by rw [takeOut_esize]; exact h)

theorem grantGetSt_getQ (s : KState ℚ σ) (r : ResId) (e : EvId) (v : Val) (hr : r < s.resources.size) :
    ((grantGetSt s r e v).res r).getQ = (s.res r).getQ.erase e := by
  unfold grantGetSt dropGetQ KState.setGetQ
  have hsz : r < ((takeOut s r e v).trigger e (.ok v)).resources.size := by
    show r < (takeOut s r e v).resources.size
    rw [takeOut_rsize]; exact hr
  rw [KState.res_setRes, if_pos ⟨rfl, hsz⟩, KState.res_trigger, takeOut_getQ]

theorem grantGetSt_kind (s : KState ℚ σ) (r : ResId) (e : EvId) (v : Val) (r' : ResId) :
    ((grantGetSt s r e v).res r').kind = (s.res r').kind := by
  unfold grantGetSt dropGetQ KState.setGetQ
  exact (res_setRes_kind _ r _ (by rfl) r').trans (takeOut_kind s r e v r')

theorem reqOf_setOut (s : KState ℚ σ) (e : EvId) (o : Outcome) (a : EvId) : reqOf (s.setOut e o) a = reqOf s a := by
  unfold reqOf
  rw [KState.ev_setOut]
  split
  · rename_i h; rw [h.1]
  · rfl

theorem reqOf_grantGetSt (s : KState ℚ σ) (r : ResId) (e : EvId) (v : Val) (a : EvId) :
    reqOf (grantGetSt s r e v) a = reqOf s a := by
  have h1 : reqOf (grantGetSt s r e v) a = reqOf ((takeOut s r e v).setOut e (.ok v)) a := rfl
  rw [h1, reqOf_setOut]
  unfold reqOf
  rw [takeOut_ev]

theorem find?_none_of_sublist {α} (p : α → Bool) {l l' : List α} (h : l'.Sublist l) (hn : l.find? p = none) :
    l'.find? p = none := by
  rw [List.find?_eq_none] at hn ⊢
  intro x hx
  exact hn x (h.subset hx)

/-- after a grant in a `FilterStore`, a getter whose filter matched nothing still matches nothing -/
theorem grantGetSt_stillNone (s : KState ℚ σ) (r : ResId) (e : EvId) (v : Val) (a : EvId)
    (hk : (s.res r).kind = .fstore) (hn : getItem s r a = none) (hr : r < s.resources.size) :
    getItem (grantGetSt s r e v) r a = none := by
  have hk' := grantGetSt_kind s r e v r
  unfold getItem at hn ⊢
  simp only [hk', hk, reqOf_grantGetSt] at hn ⊢
  simp only [Option.map_eq_none_iff] at hn ⊢
  have hitems : ((grantGetSt s r e v).res r).items.Sublist (s.res r).items := by
    unfold grantGetSt dropGetQ KState.setGetQ
    have hsz : r < ((takeOut s r e v).trigger e (.ok v)).resources.size := by
      show r < (takeOut s r e v).resources.size
      rw [takeOut_rsize]; exact hr
    rw [KState.res_setRes, if_pos ⟨rfl, hsz⟩, KState.res_trigger]
    show ((takeOut s r e v).res r).items.Sublist _
    unfold takeOut
    simp only [hk]
    split
    · simp only [KState.setItems]
      rw [KState.res_setRes, if_pos ⟨rfl, hr⟩]
      exact List.erase_sublist
    · exact List.Sublist.refl _
  exact find?_none_of_sublist _ hitems hn

end shape

namespace CRel
variable {R : KState ℚ σ → KState ℚ σ → Prop} (K : CRel R)
include K

theorem wf {s s' : KState ℚ σ} (hW : WF s) (h : R s s') : WF s' := (K.toBase h).keepWF hW

/-- sequential composition: the second part may use well-formedness of the intermediate state -/
theorem seq {s s1 s2 : KState ℚ σ} (hW : WF s) (h1 : R s s1) (h2 : WF s1 → R s1 s2) : R s s2 :=
  K.trans h1 (h2 (K.wf hW h1))

theorem schedule (s : KState ℚ σ) (hW : WF s) (e : EvId) (p : Nat) (d : ℚ) : R s (s.schedule e p d) :=
  K.frame _ _ hW (Frame.schedule s e p d)

/-- `succeed`/`fail`/`trigger` of an event that is not a request -/
theorem trigger (s : KState ℚ σ) (hW : WF s) (e : EvId) (o : Outcome) (hn : isReq s e = false) : R s (s.trigger e o) := by
  unfold KState.trigger
  exact K.seq hW (K.trigNR s e o hW hn) (fun hW1 => K.schedule _ hW1 _ _ _)

theorem newLabelled (s : KState ℚ σ) (hW : WF s) (x : EvRec ℚ) (hk : nonReqKind x.kind = true)
    (hc : ∀ l, x.cbs = some l → ∀ cb ∈ l, cbPlain cb = true) : R s (s.newLabelled x).1 :=
  K.alloc s _ { x with label := s.nlabel + 1 } hW rfl hk hc rfl rfl

theorem newEv (s : KState ℚ σ) (hW : WF s) (x : EvRec ℚ) (hk : nonReqKind x.kind = true)
    (hc : ∀ l, x.cbs = some l → ∀ cb ∈ l, cbPlain cb = true) : R s (s.newEv x).1 :=
  K.alloc s _ x hW rfl hk hc rfl rfl

theorem mkInterrupt (s : KState ℚ σ) (hW : WF s) (p : EvId) (c : Val) : R s (mkInterrupt s p c).1 := by
  unfold _root_.mkInterrupt
  split
  · exact K.refl s
  · split
    · exact K.refl s
    · refine K.seq hW (K.newEv s hW _ rfl ?_) (fun hW1 => K.schedule _ hW1 _ _ _)
      intro l hl cb hcb
      simp only [Option.some.injEq] at hl
      subst hl
      rw [List.mem_singleton] at hcb; subst hcb; rfl

theorem preemptStep (s : KState ℚ σ) (hW : WF s) (r : ResId) (e : EvId) : R s (preemptStep s r e) := by
  unfold _root_.preemptStep
  simp only
  split
  · split
    · exact K.refl s
    · split
      · split
        · exact K.seq hW (K.frame _ _ hW (Frame.setUsers s r _)) (fun hW1 => K.mkInterrupt _ hW1 _ _)
        · exact K.frame _ _ hW (Frame.setUsers s r _)
      · exact K.refl s
  · exact K.refl s

theorem prePut (s : KState ℚ σ) (hW : WF s) (r : ResId) (e : EvId) : R s (prePut s r e) := by
  unfold _root_.prePut
  split
  · exact K.preemptStep s hW r e
  · exact K.refl s

/-- **the put scan**: it always works on the head of the queue -/
theorem scanPut (r : ResId) (q : List EvId) (s : KState ℚ σ) (hW : WF s) (hq : (s.res r).putQ = q) :
    R s (scanPut r q s) := by
  induction q generalizing s with
  | nil => exact K.refl s
  | cons e rest ih =>
    have hp : R s (_root_.prePut s r e) := K.prePut s hW r e
    have hWp : WF (_root_.prePut s r e) := K.wf hW hp
    have hqp : ((_root_.prePut s r e).res r).putQ = e :: rest := by rw [(prePut_res s r e r).putQ, hq]
    have hmem : e ∈ ((_root_.prePut s r e).res r).putQ := by rw [hqp]; exact List.mem_cons_self
    have hew := hWp.putQ r e hmem
    have hlt : e < (_root_.prePut s r e).events.size := lt_size_of_kind (by rw [hew.1]; simp)
    have hrs : r < (_root_.prePut s r e).resources.size := lt_rsize_of_putQ (by rw [hqp]; simp)
    unfold _root_.scanPut
    simp only
    unfold _root_.doPut
    by_cases hc : canPut (_root_.prePut s r e) r e = true
    · simp only [hc, if_true, applyPut_triggered _ r e hlt]
      have hg : R (_root_.prePut s r e) (grantPutSt (_root_.prePut s r e) r e) := K.grantPut _ r e rest hWp hqp hc
      have hWg := K.wf hWp hg
      have hqg : ((grantPutSt (_root_.prePut s r e) r e).res r).putQ = rest := by
        rw [grantPutSt_putQ _ r e hrs, hqp]; simp
      exact K.trans hp (K.trans hg (ih _ hWg hqg))
    · have hun : (_root_.prePut s r e).triggered e = false := by
        unfold KState.triggered; rw [hew.2]; rfl
      simp only [hc, hun, Bool.false_eq_true, if_false]
      exact hp

/-- **the get scan**: the members it has passed over belong to a `FilterStore` and match nothing -/
theorem scanGet (r : ResId) (q pre : List EvId) (s : KState ℚ σ) (hW : WF s) (hq : (s.res r).getQ = pre ++ q)
    (hpre : ∀ a ∈ pre, (s.res r).kind = .fstore ∧ getItem s r a = none) : R s (scanGet r q s) := by
  induction q generalizing s pre with
  | nil => exact K.refl s
  | cons e rest ih =>
    have hmem : e ∈ (s.res r).getQ := by rw [hq]; simp
    have hew := hW.getQ r e hmem
    have hlt : e < s.events.size := lt_size_of_kind (by rw [hew.1]; simp)
    have hrs : r < s.resources.size := lt_rsize_of_getQ (by rw [hq]; simp)
    unfold _root_.scanGet
    simp only
    unfold _root_.doGet
    cases hg : getItem s r e with
    | some v =>
      simp only [grantGetSt_triggered_pre s r e v hlt, if_true]
      have hR : R s (grantGetSt s r e v) := K.grantGet s r e v pre rest hW hq hg hpre
      have hWg := K.wf hW hR
      have hnd := hW.getNodup r
      rw [hq] at hnd
      have hnotin : e ∉ pre := by
        intro hin
        have := (List.nodup_append.mp hnd).2.2 e hin e List.mem_cons_self
        exact this rfl
      have hqg : ((grantGetSt s r e v).res r).getQ = pre ++ rest := by
        rw [grantGetSt_getQ s r e v hrs, hq, List.erase_append_right _ hnotin]; simp
      refine K.trans hR (ih pre _ hWg hqg ?_)
      intro a ha
      have := hpre a ha
      exact ⟨by rw [grantGetSt_kind]; exact this.1, grantGetSt_stillNone s r e v a this.1 this.2 hrs⟩
    | none =>
      have hun : s.triggered e = false := by unfold KState.triggered; rw [hew.2]; rfl
      simp only [hun, Bool.false_eq_true, if_false]
      split
      · rename_i hf
        have hk : (s.res r).kind = .fstore := by
          cases hkk : (s.res r).kind <;> rw [hkk] at hf <;> first | rfl | exact absurd hf (by decide)
        refine ih (pre ++ [e]) s hW (by rw [hq]; simp) ?_
        intro a ha
        rcases List.mem_append.mp ha with ha | ha
        · exact hpre a ha
        · rw [List.mem_singleton] at ha; subst ha; exact ⟨hk, hg⟩
      · exact K.refl s

theorem triggerPut (s : KState ℚ σ) (hW : WF s) (r : ResId) : R s (triggerPut s r) := K.scanPut r _ s hW rfl
theorem triggerGet (s : KState ℚ σ) (hW : WF s) (r : ResId) : R s (triggerGet s r) :=
  K.scanGet r _ [] s hW rfl (fun _ h => by cases h)

theorem mkPut (s : KState ℚ σ) (hW : WF s) (r : ResId) (rq : ReqData ℚ) : R s (mkPut s r rq).1 := by
  unfold _root_.mkPut
  simp only
  exact K.seq hW (K.newPut s r rq hW) (fun hW1 => K.triggerPut _ hW1 r)

theorem mkGet (s : KState ℚ σ) (hW : WF s) (r : ResId) (rq : ReqData ℚ) : R s (mkGet s r rq).1 := by
  unfold _root_.mkGet
  simp only
  exact K.seq hW (K.newGet s r rq hW) (fun hW1 => K.triggerGet _ hW1 r)

theorem cancelReq (s : KState ℚ σ) (hW : WF s) (e : EvId) : R s (cancelReq s e).1 := by
  unfold _root_.cancelReq
  split
  · exact K.refl s
  · rename_i ht
    have hout : (s.ev e).out = none := by
      unfold KState.triggered at ht
      cases ho : (s.ev e).out with
      | none => rfl
      | some o => rw [ho] at ht; exact absurd rfl ht
    split
    · rename_i r hk
      split
      · rename_i hc
        exact K.seq hW (K.cancelPut s r e hW hout hk (by simpa using hc)) (fun hW1 => K.triggerPut _ hW1 r)
      · exact K.refl s
    · rename_i r hk
      split
      · rename_i hc
        exact K.seq hW (K.cancelGet s r e hW hout hk (by simpa using hc)) (fun hW1 => K.triggerGet _ hW1 r)
      · exact K.refl s
    · exact K.refl s

theorem condCheck (s : KState ℚ σ) (hW : WF s) (c e : EvId) (hc : isCond s c = true) : R s (condCheck s c e) := by
  unfold _root_.condCheck
  split
  · exact K.refl s
  · have hb : R s (s.bumpCount c) := K.frame _ _ hW (Frame.bumpCount s c)
    have hcb : isCond (s.bumpCount c) c = true := (K.toBase hb).isCond_keep hc
    split
    · have hd : R s ((s.bumpCount c).defuse e) :=
        K.seq hW hb (fun hW1 => K.frame _ _ hW1 (Frame.defuse _ e))
      have hcd : isCond ((s.bumpCount c).defuse e) c = true := (K.toBase hd).isCond_keep hc
      exact K.seq hW hd (fun hW1 => K.trigger _ hW1 _ _ (not_isReq_of_isCond hcd))
    · split
      · exact K.seq hW hb (fun hW1 => K.trigger _ hW1 _ _ (not_isReq_of_isCond hcb))
      · exact hb

theorem eraseCheck (s : KState ℚ σ) (hW : WF s) (c e : EvId) : R s (eraseCheck s c e) := by
  unfold _root_.eraseCheck
  split
  · split
    · exact K.frame _ _ hW (Frame.eraseCb s _ _)
    · exact K.refl s
  · exact K.refl s

/-- a fold whose steps are in `R` from well-formed states -/
theorem foldl {α : Type} (f : KState ℚ σ → α → KState ℚ σ) (P : KState ℚ σ → Prop)
    (hP : ∀ s s', P s → R s s' → P s') (hf : ∀ s a, WF s → P s → R s (f s a)) (l : List α) (s : KState ℚ σ)
    (hW : WF s) (h0 : P s) : R s (l.foldl f s) := by
  induction l generalizing s with
  | nil => exact K.refl s
  | cons a l ih =>
    have h1 := hf s a hW h0
    exact K.trans h1 (ih _ (K.wf hW h1) (hP _ _ h0 h1))

theorem removeChecks (fuel : Nat) (c : EvId) (s : KState ℚ σ) (hW : WF s) : R s (removeChecks fuel c s) := by
  induction fuel generalizing c s with
  | zero => exact K.refl s
  | succ n ih =>
    unfold _root_.removeChecks
    apply K.foldl _ (fun _ => True) (fun _ _ _ _ => trivial) _ _ _ hW trivial
    intro s e hW _
    split
    · exact K.seq hW (K.eraseCheck s hW c e) (fun hW1 => ih _ _ hW1)
    · exact K.eraseCheck s hW c e

theorem condBuild (s : KState ℚ σ) (hW : WF s) (c : EvId) (hc : isCond s c = true) : R s (condBuild s c) := by
  unfold _root_.condBuild
  simp only
  have h1 := K.removeChecks (c + 1) c s hW
  have hc1 : isCond (_root_.removeChecks (c + 1) c s) c = true := (K.toBase h1).isCond_keep hc
  split
  · exact K.seq hW h1 (fun hW1 => K.trigNR _ _ _ hW1 (not_isReq_of_isCond hc1))
  · exact h1

theorem condOpsFold (c : EvId) (ops : List EvId) (t : KState ℚ σ) (hW : WF t) (hc : isCond t c = true) :
    R t (ops.foldl (fun s e => if s.processed e then _root_.condCheck s c e else s.addCb e (.check c)) t) := by
  refine K.foldl _ (fun t => isCond t c = true) (fun t t' hP hR => (K.toBase hR).isCond_keep hP) ?_ ops t hW hc
  intro t e hWt hPt
  split
  · exact K.condCheck t hWt _ _ hPt
  · exact K.frame _ _ hWt (Frame.addCb _ _ _ hPt)

theorem mkCond (s : KState ℚ σ) (hW : WF s) (all : Bool) (ops : List EvId) : R s (mkCond s all ops).1 := by
  unfold _root_.mkCond
  simp only
  have h1 : R s (s.newLabelled { kind := .cond all ops, cbs := some [], out := none }).1 :=
    K.newLabelled s hW _ rfl (fun l hl cb hcb => by simp only [Option.some.injEq] at hl; subst hl; cases hcb)
  have hW1 := K.wf hW h1
  have hc1 : isCond (s.newLabelled { kind := .cond all ops, cbs := some [], out := none }).1 s.events.size = true := by
    unfold isCond
    rw [KState.ev_newLabelled, if_pos rfl]
  split
  · exact K.trans h1 (K.trigger _ hW1 _ _ (not_isReq_of_isCond hc1))
  · have h2 := K.condOpsFold s.events.size ops _ hW1 hc1
    refine K.trans h1 (K.seq hW1 h2 (fun hW2 => K.frame _ _ hW2 (Frame.addCb _ _ _ ?_)))
    exact (K.toBase h2).isCond_keep hc1

theorem doCall (s : KState ℚ σ) (hW : WF s) (self : EvId) (c : Call ℚ σ) (hok : callOK s c) : R s (doCall s self c).1 := by
  cases c <;> simp only [_root_.doCall]
  case timeout d v =>
    split
    · exact K.refl s
    · exact K.seq hW (K.newLabelled s hW _ rfl (fun l hl cb hcb => by simp only [Option.some.injEq] at hl; subst hl; cases hcb))
        (fun hW1 => K.schedule _ hW1 _ _ _)
  case event =>
    exact K.newLabelled s hW _ rfl (fun l hl cb hcb => by simp only [Option.some.injEq] at hl; subst hl; cases hcb)
  case succeed e v => split <;> first | exact K.refl s | exact K.trigger s hW _ _ hok
  case fail e x => split <;> first | exact K.refl s | exact K.trigger s hW _ _ hok
  case spawn st =>
    have h1 : R s (s.newLabelled { kind := .proc, cbs := some [], out := none }).1 :=
      K.newLabelled s hW _ rfl (fun l hl cb hcb => by simp only [Option.some.injEq] at hl; subst hl; cases hcb)
    have hk1 : ((s.newLabelled { kind := .proc, cbs := some [], out := none }).1.ev s.events.size).kind = .proc := by
      rw [KState.ev_newLabelled, if_pos rfl]
    refine K.seq hW h1 (fun hW1 => K.seq hW1 (K.frame _ _ hW1 (Frame.setProc _ _ _ hk1)) (fun hW2 =>
      K.seq hW2 (K.newEv _ hW2 _ rfl ?_) (fun hW3 => K.schedule _ hW3 _ _ _)))
    intro l hl cb hcb
    simp only [Option.some.injEq] at hl
    subst hl
    rw [List.mem_singleton] at hcb; subst hcb; rfl
  case interrupt p cause =>
    split
    · exact K.refl s
    · have := K.mkInterrupt s hW p cause
      generalize _root_.mkInterrupt s p cause = r at this ⊢
      obtain ⟨s1, o⟩ := r
      cases o <;> exact this
  case probe e tag => split <;> first | exact K.refl s | exact K.frame _ _ hW (Frame.addCb s _ _ trivial)
  case cond all ops => exact K.mkCond s hW all ops
  case request r prio pre =>
    split
    · exact K.refl s
    · exact K.mkPut s hW r _
  case release r req =>
    split
    · exact K.refl s
    · exact K.mkGet s hW r _
  case cancel e =>
    have := K.cancelReq s hW e
    generalize _root_.cancelReq s e = r at this ⊢
    obtain ⟨s1, o⟩ := r
    cases o <;> exact this
  case cput r a =>
    split
    · exact K.refl s
    · split
      · exact K.refl s
      · exact K.mkPut s hW r _
  case cget r a =>
    split
    · exact K.refl s
    · split
      · exact K.refl s
      · exact K.mkGet s hW r _
  case sput r it =>
    split
    · exact K.refl s
    · exact K.mkPut s hW r _
  case sget r f =>
    split
    · exact K.refl s
    · exact K.mkGet s hW r _
  case log what v => exact K.frame _ _ hW (Frame.emit s _)
  case load k => exact K.refl s
  case store k v => exact K.frame _ _ hW (Frame.shared s _)

theorem noteErr (self : EvId) (sr : KState ℚ σ × Reply) (hW : WF sr.1) : R sr.1 (noteErr self sr) := by
  unfold _root_.noteErr
  split
  · exact K.frame _ _ hW (Frame.emit _ _)
  · exact K.refl _

theorem runBurst (self : EvId) (b : Burst ℚ σ) (s : KState ℚ σ) (hW : WF s) (hok : burstOK self b s) :
    R s (runBurst self b s).1 := by
  induction b generalizing s with
  | call c k ih =>
    simp only [_root_.runBurst]
    obtain ⟨hc, hrest⟩ := hok
    have h1 := K.doCall s hW self c hc
    have hW1 := K.wf hW h1
    have h2 := K.noteErr self (_root_.doCall s self c) hW1
    exact K.trans (K.trans h1 h2) (ih _ _ (K.wf hW1 h2) hrest)
  | yield e st => exact K.refl s
  | ret v => exact K.refl s
  | raise x => exact K.refl s

theorem deliver (s : KState ℚ σ) (hW : WF s) (p e : EvId) : R s (deliver s p e).1 := by
  show R s (deliverSt s p e)
  unfold deliverSt
  split
  · exact K.seq hW (K.frame _ _ hW (Frame.active s _)) (fun hW1 => K.frame _ _ hW1 (Frame.defuse _ _))
  · exact K.frame _ _ hW (Frame.active s _)

theorem finishProc (s : KState ℚ σ) (hW : WF s) (p : EvId) (pr : ProcRec σ) (o : Outcome)
    (hp : (s.ev p).kind = .proc) : R s (finishProc s p pr o) := by
  unfold _root_.finishProc
  have h1 := K.trigger s hW p o (not_isReq_of_proc hp)
  have hp1 := (K.toBase h1).proc_keep hp
  refine K.seq hW h1 (fun hW1 => K.seq hW1 (K.frame _ _ hW1 (Frame.emit _ _)) (fun hW2 =>
    K.seq hW2 (K.frame _ _ hW2 (Frame.setProc _ _ _ ?_)) (fun hW3 => K.frame _ _ hW3 (Frame.active _ _))))
  exact hp1

theorem register (s s' : KState ℚ σ) (hW : WF s) (p e' : EvId) (h : register s p e' = some s') : R s s' := by
  unfold _root_.register at h
  split at h
  · cases h
  · cases h
    exact K.seq hW (K.frame _ _ hW (Frame.addCb s e' (.resume p) trivial)) (fun hW1 => K.frame _ _ hW1 (Frame.active _ _))

theorem resume (body : σ → Resume → Burst ℚ σ) (p : EvId) (fuel : Nat) (e : EvId) (s : KState ℚ σ) (hW : WF s)
    (hok : resumeOK body p fuel e s) : R s (resume body p fuel e s) := by
  induction fuel generalizing e s with
  | zero => exact K.refl s
  | succ n ih =>
    unfold _root_.resume
    unfold resumeOK at hok
    split
    · exact K.refl s
    · rename_i pr hpr
      simp only [hpr] at hok
      obtain ⟨hbok, hrest⟩ := hok
      simp only
      have hpk : (s.ev p).kind = .proc := hW.procs p pr hpr
      have hd : R s ((_root_.deliver s p e).1.emit (.resumed p (_root_.deliver s p e).2 (_root_.deliver s p e).1.now)) :=
        K.seq hW (K.deliver s hW p e) (fun hW1 => K.frame _ _ hW1 (Frame.emit _ _))
      have hb : R s (_root_.runBurst p (body pr.st (_root_.deliver s p e).2)
          ((_root_.deliver s p e).1.emit (.resumed p (_root_.deliver s p e).2 (_root_.deliver s p e).1.now))).1 :=
        K.seq hW hd (fun hW1 => K.runBurst _ _ _ hW1 hbok)
      have hWb := K.wf hW hb
      have hpb := (K.toBase hb).proc_keep hpk
      split
      · exact K.trans hb (K.finishProc _ hWb _ _ _ hpb)
      · exact K.trans hb (K.finishProc _ hWb _ _ _ hpb)
      · rename_i e' st' hy
        rw [hy] at hrest
        simp only at hrest
        have hsp := K.frame _ _ hWb (Frame.setProc _ p { st := st', target := some e' } hpb)
        have hWs := K.wf hWb hsp
        split
        · rename_i s3 hr
          exact K.trans (K.trans hb hsp) (K.register _ _ hWs _ _ hr)
        · rename_i hr
          rw [hr] at hrest
          exact K.trans (K.trans hb hsp) (ih _ _ hWs hrest)

theorem deliverInterrupt (body : σ → Resume → Burst ℚ σ) (fuel : Nat) (iv p : EvId) (s : KState ℚ σ) (hW : WF s)
    (hok : deliverInterruptOK body fuel iv p s) : R s (deliverInterrupt body fuel iv p s) := by
  unfold _root_.deliverInterrupt
  unfold deliverInterruptOK at hok
  split
  · exact K.refl s
  · rename_i ht
    simp only [ht] at hok
    split
    · exact K.refl s
    · rename_i pr hpr
      simp only [hpr] at hok
      split
      · rename_i t htg
        simp only [htg] at hok
        exact K.seq hW (K.frame _ _ hW (Frame.eraseCb s _ _)) (fun hW1 => K.resume _ _ _ _ _ hW1 hok)
      · rename_i htg
        simp only [htg] at hok
        exact K.resume _ _ _ _ _ hW hok

theorem runCb (body : σ → Resume → Burst ℚ σ) (fuel : Nat) (e : EvId) (l : LoopSt ℚ σ) (cb : Cb) (hW : WF l.s)
    (hcb : CbOK l.s cb) (hok : runCbOK body fuel e l cb) : R l.s (runCb body fuel e l cb).s := by
  unfold _root_.runCb
  simp only
  cases cb with
  | resume p => exact K.resume _ _ _ _ _ hW hok
  | probe tag => exact K.frame _ _ hW (Frame.emit _ _)
  | stop => exact K.refl _
  | intr iv =>
    simp only
    unfold runCbOK at hok
    split
    · rename_i p hk
      simp only [hk] at hok
      exact K.deliverInterrupt _ _ _ _ _ hW hok
    · exact K.refl _
  | check c => exact K.condCheck _ hW _ _ hcb
  | build c => exact K.condBuild _ hW _ hcb
  | trigPut r => exact K.triggerPut _ hW _
  | trigGet r => exact K.triggerGet _ hW _

/-- **The callback loop of a step stays inside `R`.** -/
theorem foldCbs (body : σ → Resume → Burst ℚ σ) (fuel : Nat) (e : EvId) (cbs : List Cb) (l : LoopSt ℚ σ) (hW : WF l.s)
    (hcbs : ∀ cb ∈ cbs, CbOK l.s cb) (hok : foldOK body fuel e cbs l) : R l.s (cbs.foldl (_root_.runCb body fuel e) l).s := by
  induction cbs generalizing l with
  | nil => exact K.refl _
  | cons c cs ih =>
    obtain ⟨h1ok, hrest⟩ := hok
    have h1 := K.runCb body fuel e l c hW (hcbs c List.mem_cons_self) h1ok
    refine K.trans h1 (ih _ (K.wf hW h1) ?_ hrest)
    intro cb hcb
    exact (K.toBase h1).cbOK_keep (hcbs cb (List.mem_cons_of_mem _ hcb))

/-- **One kernel step stays inside `R`**, however it ends. -/
theorem step (body : σ → Resume → Burst ℚ σ) (fuel : Nat) (s s' : KState ℚ σ) (hW : WF s)
    (hok : stepOK body fuel s) (hs : (step body fuel s).state? = some s') : R s s' := by
  unfold _root_.step at hs
  unfold stepOK at hok
  split at hs
  · cases hs
  · rename_i q rest hq
    simp only [hq] at hok
    have ho := K.frame _ _ hW (Frame.openEvent s q rest)
    split at hs
    · cases hs; exact ho
    · rename_i cbs hcbs
      simp only [hcbs] at hok
      rw [closeEvent_state] at hs
      cases hs
      refine K.trans ho (K.foldCbs body fuel q.ev cbs { s := openEvent s q rest } (K.wf hW ho) ?_ hok)
      intro cb hcb
      exact (K.toBase ho).cbOK_keep (hW.cbs q.ev cbs hcbs cb hcb)

/-- **Every state reachable inside the domain is `R`-related to the initial state.** -/
theorem reach (body : σ → Resume → Burst ℚ σ) (fuel : Nat) (s0 s : KState ℚ σ) (hW : WF s0)
    (hr : SafeReach body fuel s0 s) : R s0 s := by
  induction hr with
  | init => exact K.refl _
  | step _ hok hs ih => exact K.trans ih (K.step body fuel _ _ (K.wf hW ih) hok hs)

end CRel

end Conserve
