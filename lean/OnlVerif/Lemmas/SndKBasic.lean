import OnlVerif.Lemmas.SndKDefs
/-!
# The TCP sender on the kernel model: what each kernel call of the program does, and how the attribute macros run

Every lemma rewrites `runBurst` on a macro of `SenderOnK` (an attribute read, an attribute write, a log line) into `runBurst`
on its continuation, in a state given by a *named* state operation (`setCell`, `KState.emit`).
-/

set_option linter.unusedSimpArgs false

namespace SndK
open SenderOnK
open TimerK (lookup dec_enc lookup_store)

/-! ## state operations -/

/-- `Call.store k v` -/
def setCell (s : KS) (k : Nat) (v : Val) : KS := { s with shared := (k, v) :: s.shared.filter (·.1 != k) }

theorem lookup_setCell (s : KS) (k k' : Nat) (v : Val) :
    lookup (setCell s k v).shared k' = if k' = k then v else lookup s.shared k' := lookup_store _ _ _ _

theorem lookup_setCell_ne (s : KS) {k k' : Nat} (v : Val) (h : k' ≠ k) :
    lookup (setCell s k v).shared k' = lookup s.shared k' := by rw [lookup_setCell, if_neg h]

@[simp] theorem lookup_setCell_same (s : KS) (k : Nat) (v : Val) : lookup (setCell s k v).shared k = v := by
  rw [lookup_setCell, if_pos rfl]

@[simp] theorem setCell_now (s : KS) (k : Nat) (v : Val) : (setCell s k v).now = s.now := rfl
@[simp] theorem setCell_agenda (s : KS) (k : Nat) (v : Val) : (setCell s k v).agenda = s.agenda := rfl
@[simp] theorem setCell_eid (s : KS) (k : Nat) (v : Val) : (setCell s k v).eid = s.eid := rfl
@[simp] theorem setCell_events (s : KS) (k : Nat) (v : Val) : (setCell s k v).events = s.events := rfl
@[simp] theorem setCell_procs (s : KS) (k : Nat) (v : Val) : (setCell s k v).procs = s.procs := rfl
@[simp] theorem setCell_active (s : KS) (k : Nat) (v : Val) : (setCell s k v).active = s.active := rfl
@[simp] theorem setCell_trace (s : KS) (k : Nat) (v : Val) : (setCell s k v).trace = s.trace := rfl
@[simp] theorem setCell_resources (s : KS) (k : Nat) (v : Val) : (setCell s k v).resources = s.resources := rfl
@[simp] theorem setCell_ev (s : KS) (k : Nat) (v : Val) (e : EvId) : (setCell s k v).ev e = s.ev e := rfl
@[simp] theorem setCell_proc? (s : KS) (k : Nat) (v : Val) (p : EvId) : (setCell s k v).proc? p = s.proc? p := rfl
@[simp] theorem setCell_res (s : KS) (k : Nat) (v : Val) (r : ResId) : (setCell s k v).res r = s.res r := rfl

/-! ## the calls -/

theorem doCall_load (s : KS) (self : EvId) (k : Nat) : doCall s self (.load k) = (s, .val (lookup s.shared k)) := rfl

theorem doCall_store (s : KS) (self : EvId) (k : Nat) (v : Val) : doCall s self (.store k v) = (setCell s k v, .unit) := rfl

theorem doCall_log_int (s : KS) (self : EvId) (what : String) (i : Int) :
    doCall s self (.log what (.int i)) = (s.emit (.log self what (.int i) s.now), .unit) := rfl

/-! ## running the attribute macros -/

theorem rb_loadNat {s : KS} {k n : Nat} (h : lookup s.shared k = .int n) (p : EvId) (cont : Nat → B ℚ) :
    runBurst p (loadNat k cont) s = runBurst p (cont n) s := by
  simp only [loadNat, runBurst, doCall_load, h, noteErr, Int.toNat_natCast]

theorem rb_loadTime {s : KS} {k : Nat} {x : ℚ} (h : lookup s.shared k = TimeCell.enc x) (p : EvId) (cont : ℚ → B ℚ) :
    runBurst p (loadTime k cont) s = runBurst p (cont x) s := by
  simp only [loadTime, runBurst, doCall_load, h, noteErr, dec_enc]

theorem enc_ne_none (x : ℚ) : (TimeCell.enc x : Val) ≠ .none := by
  show Val.preempted _ _ _ ≠ Val.none
  intro h; cases h

theorem rb_loadOptTime {s : KS} {k : Nat} {o : Option ℚ} (h : lookup s.shared k = optEnc o) (p : EvId)
    (cont : Option ℚ → B ℚ) : runBurst p (loadOptTime k cont) s = runBurst p (cont o) s := by
  cases o with
  | none => simp only [loadOptTime, runBurst, doCall_load, h, noteErr, optEnc]
  | some x =>
    have e : (TimeCell.enc x : Val) = Val.preempted (some (if x.num < 0 then 1 else 0)) x.num.natAbs x.den := rfl
    have d := dec_enc x
    rw [e] at d
    simp only [loadOptTime, runBurst, doCall_load, h, noteErr, optEnc, e, d]

theorem rb_loadFlag_int {s : KS} {k : Nat} {n : Int} (h : lookup s.shared k = .int n) (p : EvId) (cont : Bool → B ℚ) :
    runBurst p (loadFlag k cont) s = runBurst p (cont (n != 0)) s := by
  simp only [loadFlag, runBurst, doCall_load, h, noteErr]

theorem rb_loadFlag_none {s : KS} {k : Nat} (h : lookup s.shared k = .none) (p : EvId) (cont : Bool → B ℚ) :
    runBurst p (loadFlag k cont) s = runBurst p (cont false) s := by
  simp only [loadFlag, runBurst, doCall_load, h, noteErr]

/-- a presence flag: 1 or unset -/
theorem rb_loadFlag {s : KS} {k : Nat} {b : Bool} (h : lookup s.shared k = if b then .int 1 else .none) (p : EvId)
    (cont : Bool → B ℚ) : runBurst p (loadFlag k cont) s = runBurst p (cont b) s := by
  cases b with
  | true => rw [rb_loadFlag_int (n := 1) (by simpa using h)]; rfl
  | false => rw [rb_loadFlag_none (by simpa using h)]

/-- a boolean attribute kept as 0/1 -/
theorem rb_loadFlag_val {s : KS} {k : Nat} {b : Bool} (h : lookup s.shared k = flagVal b) (p : EvId)
    (cont : Bool → B ℚ) : runBurst p (loadFlag k cont) s = runBurst p (cont b) s := by
  cases b with
  | true => rw [rb_loadFlag_int (n := 1) (by simpa [flagVal] using h)]; rfl
  | false => rw [rb_loadFlag_int (n := 0) (by simpa [flagVal] using h)]; rfl

theorem rb_loadProc {s : KS} {k : Nat} {e : EvId} (h : lookup s.shared k = .ev e) (p : EvId) (cont : EvId → B ℚ) :
    runBurst p (loadProc k cont) s = runBurst p (cont e) s := by
  simp only [loadProc, runBurst, doCall_load, h, noteErr]

theorem rb_storeVal (s : KS) (k : Nat) (v : Val) (p : EvId) (cont : B ℚ) :
    runBurst p (storeVal k v cont) s = runBurst p cont (setCell s k v) := by
  simp only [storeVal, runBurst, doCall_store, noteErr]

theorem rb_storeNat (s : KS) (k n : Nat) (p : EvId) (cont : B ℚ) :
    runBurst p (storeNat k n cont) s = runBurst p cont (setCell s k (.int n)) := rb_storeVal _ _ _ _ _

theorem rb_storeTime (s : KS) (k : Nat) (x : ℚ) (p : EvId) (cont : B ℚ) :
    runBurst p (storeTime k x cont) s = runBurst p cont (setCell s k (TimeCell.enc x)) := rb_storeVal _ _ _ _ _

theorem rb_storeFlag (s : KS) (k : Nat) (b : Bool) (p : EvId) (cont : B ℚ) :
    runBurst p (storeFlag k b cont) s = runBurst p cont (setCell s k (flagVal b)) := rb_storeVal _ _ _ _ _

theorem rb_log (s : KS) (p : EvId) (seq : Nat) (k : Reply → B ℚ) :
    runBurst p (.call (.log "tx" (.int seq)) k) s = runBurst p (k .unit) (s.emit (.log p "tx" (.int seq) s.now)) := by
  simp only [runBurst, doCall_log_int, noteErr]


/-! ## timeouts, processes, the wake-up store (explicit result states) -/

theorem getD_set_same (a : Array ResRec) (r : Nat) (x : ResRec) (h : r < a.size) :
    (a.setIfInBounds r x).getD r default = x := by
  rw [getD_setIfInBounds]; simp [h]

@[simp] theorem isStoreKind_store : isStoreKind .store = true := rfl
@[simp] theorem isPrioKind_store : isPrioKind .store = false := rfl
@[simp] theorem store_beq_preemptive : (ResKind.store == ResKind.preemptive) = false := rfl
@[simp] theorem store_beq_fstore : (ResKind.store == ResKind.fstore) = false := rfl

theorem doCall_timeout (s : KS) (self : EvId) (d : ℚ) (v : Val) (hd : 0 ≤ d) :
    doCall s self (.timeout d v) =
      ({ s with
          events := s.events.push { kind := .timeout, cbs := some [], out := some (.ok v), label := s.nlabel + 1 }
          nlabel := s.nlabel + 1
          agenda := { time := s.now + d, prio := NORMAL, eid := s.eid, ev := s.events.size } :: s.agenda
          eid := s.eid + 1 }, .ev s.events.size) := by
  have : ¬ d < Num.zero := by rw [zero_eq']; exact not_lt.mpr hd
  simp [doCall, this, hd, KState.newLabelled, KState.schedule]

/-- `env.process(generator)` -/
theorem doCall_spawn (s : KS) (self : EvId) (st : St) :
    doCall s self (.spawn st) =
      ({ s with
          events := (s.events.push { kind := .proc, cbs := some [], out := none, label := s.nlabel + 1 }).push
                      { kind := .init s.events.size, cbs := some [.resume s.events.size], out := some (.ok .none) }
          nlabel := s.nlabel + 1
          procs := (s.events.size, { st := st, target := some (s.events.size + 1) }) :: s.procs.filter (·.1 != s.events.size)
          agenda := { time := s.now, prio := URGENT, eid := s.eid, ev := s.events.size + 1 } :: s.agenda
          eid := s.eid + 1 }, .ev s.events.size) := by
  simp [doCall, KState.newLabelled, KState.newEv, KState.setProc, KState.schedule, zero_eq']

/-- `store.put(item)` on an unbounded `Store` nobody has a pending `put` on: the item is appended, the `StorePut` event is
triggered at once -/
theorem doCall_sput (s : KS) (self : EvId) (r : ResId) (item : Int) (gq : List EvId) (its : List Int)
    (hsz : r < s.resources.size) (hr : s.resources.getD r default = storeRec gq its) :
    doCall s self (.sput r item) =
      ({ s with
          events := s.events.push { kind := .put r, cbs := some [.trigGet r], out := some (.ok .none), label := s.nlabel + 1,
                                     req := some { res := r, item := item, time := s.now, proc := s.active } }
          nlabel := s.nlabel + 1
          resources := s.resources.setIfInBounds r (storeRec gq (its ++ [item]))
          agenda := { time := s.now, prio := NORMAL, eid := s.eid, ev := s.events.size } :: s.agenda
          eid := s.eid + 1 }, .ev s.events.size) := by
  simp [doCall, hr, storeRec, mkPut, KState.newLabelled, enqPut, KState.setPutQ, KState.setRes, KState.res,
    triggerPut, scanPut, doPut, prePut, canPut, hasRoom, applyPut, KState.setItems, KState.trigger, KState.setOut, KState.schedule,
    KState.setEv, KState.ev, reqOf, KState.triggered, dropPutQ, getD_set_same, hsz, getD_push, getD_setIfInBounds, zero_eq',
    TimerK.push_setIfInBounds_size]

/-- `store.get()` on an empty `Store` nobody waits on: the `StoreGet` event is queued -/
theorem doCall_sget_miss (s : KS) (self : EvId) (r : ResId) (hsz : r < s.resources.size)
    (hr : s.resources.getD r default = storeRec [] []) :
    doCall s self (.sget r 0) =
      ({ s with
          events := s.events.push { kind := .get r, cbs := some [.trigPut r], out := none, label := s.nlabel + 1,
                                     req := some { res := r, time := s.now, proc := s.active } }
          nlabel := s.nlabel + 1
          resources := s.resources.setIfInBounds r (storeRec [s.events.size] []) }, .ev s.events.size) := by
  simp [doCall, hr, storeRec, mkGet, KState.newLabelled, enqGet, KState.setGetQ, KState.setRes, KState.res,
    triggerGet, scanGet, doGet, getItem, KState.triggered, KState.ev, getD_set_same, hsz, getD_push]

/-- `store.get()` on a non-empty `Store`: the head item is handed out at once -/
theorem doCall_sget_hit (s : KS) (self : EvId) (r : ResId) (i : Int) (is : List Int) (hsz : r < s.resources.size)
    (hr : s.resources.getD r default = storeRec [] (i :: is)) :
    doCall s self (.sget r 0) =
      ({ s with
          events := s.events.push { kind := .get r, cbs := some [.trigPut r], out := some (.ok (.int i)),
                                     label := s.nlabel + 1, req := some { res := r, time := s.now, proc := s.active } }
          nlabel := s.nlabel + 1
          resources := s.resources.setIfInBounds r (storeRec [] is)
          agenda := { time := s.now, prio := NORMAL, eid := s.eid, ev := s.events.size } :: s.agenda
          eid := s.eid + 1 }, .ev s.events.size) := by
  simp [doCall, hr, storeRec, mkGet, KState.newLabelled, enqGet, KState.setGetQ, KState.setRes, KState.res,
    triggerGet, scanGet, doGet, getItem, takeOut, KState.setItems, KState.trigger, KState.setOut, KState.schedule,
    KState.setEv, KState.triggered, KState.ev, dropGetQ, getD_set_same, hsz, getD_push, getD_setIfInBounds, zero_eq',
    TimerK.push_setIfInBounds_size]

theorem triggerPut_none (s : KS) (r : ResId) (gq : List EvId) (its : List Int)
    (hr : s.resources.getD r default = storeRec gq its) : triggerPut s r = s := by
  simp [triggerPut, KState.res, hr, storeRec, scanPut]

theorem triggerGet_none (s : KS) (r : ResId) (its : List Int)
    (hr : s.resources.getD r default = storeRec [] its) : triggerGet s r = s := by
  simp [triggerGet, KState.res, hr, storeRec, scanGet]

/-- `_trigger_get` with a waiting `get` and an empty store: nothing happens -/
theorem triggerGet_empty (s : KS) (r : ResId) (g : EvId) (hr : s.resources.getD r default = storeRec [g] [])
    (hg : (s.events.getD g default).out = none) : triggerGet s r = s := by
  simp [-Array.getD_eq_getD_getElem?, triggerGet, KState.res, hr, storeRec, scanGet, doGet, getItem, KState.triggered, KState.ev, hg]

/-- `_trigger_get` with a waiting `get` and an item: the item is handed over, the `StoreGet` event is triggered -/
theorem triggerGet_hand (s : KS) (r : ResId) (g : EvId) (i : Int) (is : List Int) (hsz : r < s.resources.size)
    (hgs : g < s.events.size) (hr : s.resources.getD r default = storeRec [g] (i :: is)) :
    triggerGet s r =
      { s with
          events := s.events.setIfInBounds g { s.events.getD g default with out := some (.ok (.int i)) }
          resources := s.resources.setIfInBounds r (storeRec [] is)
          agenda := { time := s.now, prio := NORMAL, eid := s.eid, ev := g } :: s.agenda
          eid := s.eid + 1 } := by
  simp [-Array.getD_eq_getD_getElem?, hr, storeRec, KState.setGetQ, KState.setRes, KState.res,
    triggerGet, scanGet, doGet, getItem, takeOut, KState.setItems, KState.trigger, KState.setOut, KState.schedule,
    KState.setEv, KState.triggered, KState.ev, dropGetQ, getD_set_same, hsz, hgs, getD_push, getD_setIfInBounds, zero_eq',
    TimerK.push_setIfInBounds_size]

/-- `Process.interrupt` by the process itself is refused -/
theorem doCall_interrupt_self (s : KS) (self p : EvId) (cause : Val) (hk : (s.ev p).kind = .proc)
    (ho : (s.ev p).out = none) (ha : s.active = some p) :
    doCall s self (.interrupt p cause) = (s, .err (runtimeErr "self")) := by
  simp [doCall, hk, mkInterrupt, KState.triggered, ho, ha]

/-! ## observations -/

theorem txsOf_push (tr : Array (Obs ℚ)) (o : Obs ℚ) : txsOf (tr.push o) = txsOf tr ++ (txOf1 o).toList := by
  unfold txsOf
  rw [Array.toList_push, List.filterMap_append]
  cases h : txOf1 o <;> simp [List.filterMap, h]

@[simp] theorem txOf1_resumed (p : EvId) (r : Resume) (t : ℚ) : txOf1 (Obs.resumed p r t) = none := rfl
@[simp] theorem txOf1_ended (p : EvId) (o : Outcome) (t : ℚ) : txOf1 (Obs.ended p o t) = none := rfl
@[simp] theorem txOf1_callErr (p : EvId) (x : Exc) (t : ℚ) : txOf1 (Obs.callErr p x t) = none := rfl

end SndK
