import OnlVerif.Lemmas.SndKStep
/-!
# The TCP sender on the kernel model: the initial state, runs, and the abstraction function
-/

set_option linter.unusedSimpArgs false

namespace SndK
open SenderOnK TcpSender TcpCC
open TimerK (lookup)

/-- the configuration of the initial state -/
def a0 (cfg : Cfg) (cc : CCState ℚ) (rtt : ℚ) (script : Script) : A :=
  { S := Sender.init cfg.kind cc rtt cfg.mss (some cfg.size) 0
    run := .init ⟨0, URGENT, 0, 1⟩
    scr := .init ⟨0, URGENT, 1, 3⟩ script
    pend := []
    tks := []
    tmp := fun _ => 0
    tph := fun _ => .gone
    tmc := fun _ => default
    putAt := 0
    txs := []
    cur := none }

/-- the state before the two processes are created -/
def base0 (cc : CCState ℚ) (rtt : ℚ) : KS :=
  { now := Num.zero, resources := #[storeRes],
    shared := [(cNext, .int 0), (cBuf, .int 0), (cLack, .int 0), (cDup, .int 0),
               (cRtt, TimeCell.enc (est0 rtt).rtt_estimate), (cDev, TimeCell.enc (est0 rtt).est_deviation),
               (cRto, TimeCell.enc (est0 rtt).rto)] ++ ccCells cc ++ [(cPutAt, TimeCell.enc (Num.zero : ℚ))] }

theorem initState_eq (cc : CCState ℚ) (rtt : ℚ) (script : Script) :
    initState cc rtt script = spawnSt (spawnSt (base0 cc rtt) (.runStart Num.zero)) (.scr Num.zero none script) := by
  unfold initState
  simp only [List.foldl, doCall_spawn]
  rfl

theorem lookup_none_of_lt (l : List (Nat × Val)) (n k : Nat) (h : ∀ x ∈ l, x.1 < n) (hk : n ≤ k) : lookup l k = .none := by
  unfold lookup
  have : l.find? (·.1 == k) = none := by
    rw [List.find?_eq_none]
    intro x hx
    have := h x hx
    simp only [beq_iff_eq]
    omega
  rw [this]
  rfl

theorem init_cells_lt (cc : CCState ℚ) (rtt : ℚ) : ∀ x ∈ (base0 cc rtt).shared, x.1 < 24 := by
  intro x hx
  simp only [base0, ccCells, cNext, cBuf, cLack, cDup, cRtt, cDev, cRto, cCC, cPutAt, List.cons_append, List.nil_append,
    List.mem_cons, List.not_mem_nil, or_false] at hx
  rcases hx with rfl | rfl | rfl | rfl | rfl | rfl | rfl | rfl | rfl | rfl | rfl | rfl | rfl | rfl | rfl | rfl | rfl | rfl | rfl |
    rfl | rfl | rfl | rfl | rfl <;> simp

theorem storeRes_eq : storeRes = storeRec [] [] := rfl

/-- **the initial state has the initial configuration** -/
theorem ki_init (cfg : Cfg) (cc : CCState ℚ) (rtt : ℚ) (script : Script) :
    KI none (initState cc rtt script) (a0 cfg cc rtt script) := by
  rw [initState_eq]
  have ev0 : EvIs (spawnSt (spawnSt (base0 cc rtt) (.runStart Num.zero)) (.scr Num.zero none script)) 0 .proc [] none := by
    simp [EvIs, KState.ev, spawnSt, base0]
  have ev1 : EvIs (spawnSt (spawnSt (base0 cc rtt) (.runStart Num.zero)) (.scr Num.zero none script)) 1 (.init 0) [.resume 0]
      okNone := by
    simp [EvIs, KState.ev, spawnSt, base0, okNone]
  have ev2 : EvIs (spawnSt (spawnSt (base0 cc rtt) (.runStart Num.zero)) (.scr Num.zero none script)) 2 .proc [] none := by
    simp [EvIs, KState.ev, spawnSt, base0]
  have ev3 : EvIs (spawnSt (spawnSt (base0 cc rtt) (.runStart Num.zero)) (.scr Num.zero none script)) 3 (.init 2) [.resume 2]
      okNone := by
    simp [EvIs, KState.ev, spawnSt, base0, okNone]
  have pr0 : (spawnSt (spawnSt (base0 cc rtt) (.runStart Num.zero)) (.scr Num.zero none script)).proc? 0 =
      some { st := .runStart Num.zero, target := some 1 } := by
    simp [KState.proc?, spawnSt, base0]
  have pr2 : (spawnSt (spawnSt (base0 cc rtt) (.runStart Num.zero)) (.scr Num.zero none script)).proc? 2 =
      some { st := .scr Num.zero none script, target := some 3 } := by
    simp [KState.proc?, spawnSt, base0]
  refine ⟨⟨rfl, zero_eq', ?_, ?_, by simp [spawnSt, base0], ?_, ⟨rfl, ev1, ?_, ev0⟩, ⟨rfl, ev3, ?_, ev2⟩, ?_, ?_, ?_, ?_, ?_, ?_,
    ?_, ?_, ?_⟩, ?_⟩
  · refine ⟨?_, ?_, ?_⟩
    · intro q hq
      simp only [spawnSt, base0, List.mem_cons, List.not_mem_nil, or_false] at hq
      rcases hq with rfl | rfl <;> exact le_refl _
    · intro q hq
      simp only [spawnSt, base0, List.mem_cons, List.not_mem_nil, or_false] at hq
      rcases hq with rfl | rfl <;> simp [spawnSt, base0]
    · simp [spawnSt, base0]
  · show (spawnSt (spawnSt (base0 cc rtt) (.runStart Num.zero)) (.scr Num.zero none script)).agenda.Perm _
    simp only [Kern.entries, kernOf, a0, RPhase.entries, SPhase.entries, tmEntries, List.flatMap_nil, List.append_nil,
      spawnSt, base0, List.singleton_append, zero_eq']
    exact List.Perm.swap _ _ _
  · simp [KState.res, spawnSt, base0, storeRes_eq, kernOf, a0, RPhase.getQ, Sender.init]
  · simpa [zero_eq'] using pr0
  · simpa [zero_eq'] using pr2
  · intro u hu; cases hu
  · exact List.nodup_nil
  · intro seq hs; cases hs
  · exact ⟨ev0.1, _, pr0, rfl⟩
  · exact ⟨ev2.1, _, pr2, rfl⟩
  · intro seq hs; cases hs
  · exact List.nodup_nil
  · simp [txsOf, spawnSt, base0, kernOf, a0]
  · intro e he; cases he
  · have hsh : (spawnSt (spawnSt (base0 cc rtt) (.runStart Num.zero)) (.scr Num.zero none script)).shared = (base0 cc rtt).shared :=
      rfl
    have hlt := init_cells_lt cc rtt
    refine ⟨?_, ?_, ?_, ?_, ?_, ?_, ?_, ?_, ?_, ?_, ?_, ?_, ?_, ?_, ?_, ?_⟩
    · simp [hsh, base0, lookup, cNext, a0, Sender.init]
    · simp [hsh, base0, lookup, cNext, cBuf, a0, Sender.init]
    · simp [hsh, base0, lookup, cNext, cBuf, cLack, a0, Sender.init]
    · simp [hsh, base0, lookup, cNext, cBuf, cLack, cDup, a0, Sender.init]
    · simp [hsh, base0, lookup, cNext, cBuf, cLack, cDup, cRtt, a0, Sender.init, est0]
    · simp [hsh, base0, lookup, cNext, cBuf, cLack, cDup, cRtt, cDev, a0, Sender.init, est0]
    · simp [hsh, base0, lookup, cNext, cBuf, cLack, cDup, cRtt, cDev, cRto, a0, Sender.init, est0]
    · intro x hx
      rw [hsh]
      simp only [a0, Sender.init, ccCells, List.mem_cons, List.not_mem_nil, or_false] at hx
      rcases hx with rfl | rfl | rfl | rfl | rfl | rfl | rfl | rfl | rfl | rfl | rfl | rfl | rfl | rfl | rfl | rfl <;>
        simp [base0, lookup, ccCells, cNext, cBuf, cLack, cDup, cRtt, cDev, cRto, cCC]
    · simp [hsh, base0, lookup, ccCells, cNext, cBuf, cLack, cDup, cRtt, cDev, cRto, cCC, cPutAt, a0, zero_eq']
    · intro seq
      rw [hsh, lookup_none_of_lt _ 24 _ hlt (by simp [cSent]; omega)]
      rfl
    · intro seq
      rw [hsh, lookup_none_of_lt _ 24 _ hlt (by simp [cTmIn]; omega)]
      rfl
    all_goals (intro seq hs; cases hs)

/-- the initial configuration satisfies the invariants -/
theorem ainv_init (cfg : Cfg) (cc : CCState ℚ) (rtt : ℚ) (script : Script) (hcc : CCInv cfg.kind cc) (hr : 0 < rtt)
    (hm : 0 < cfg.mss) (hs : 0 < cfg.size) (hd : cfg.mss ∣ cfg.size) (hok : ScriptOK 0 script) :
    AInv cfg (a0 cfg cc rtt script) := by
  refine ⟨inv_init cfg.kind cc rtt cfg.mss (some cfg.size) 0 hcc hr, rfl, rfl, rfl, hm, hs, hd, ?_, ⟨0, by simp [a0, Sender.init]⟩,
    Nat.zero_le _, List.Sublist.refl _, rfl, ⟨rfl, rfl, rfl⟩, ⟨rfl, rfl, hok⟩, (fun u hu => by cases hu),
    (fun seq hs' => by cases hs'), le_refl _⟩
  simp [a0, Sender.init, segKeys]

end SndK
