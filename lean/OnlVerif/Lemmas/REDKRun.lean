import OnlVerif.Lemmas.REDKStepPort
import OnlVerif.Lemmas.REDKStepSrc
import OnlVerif.Lemmas.REDKAbsStep
/-!
# Generator → REDPort → sink on the kernel model: every kernel step is a configuration step; whole runs
-/

set_option linter.unusedSimpArgs false

namespace REDK
open REDOnK QEntry

variable {c : Cfg ℚ} {sizes0 : List Nat} {gaps0 : List ℚ}
variable {s : KS} {a : A} {q : QEntry ℚ} {rest : List (QEntry ℚ)}

/-- what `popMin` returns is a minimal entry of the configuration -/
theorem isMin_of_pop (hk : KInv s a) (hp : popMin s.agenda = some (q, rest)) :
    IsMin a q ∧ a.entries.Perm (q :: rest) := by
  have sp := popMin_spec _ _ _ hp
  have hperm : a.entries.Perm (q :: rest) := hk.ag.symm.trans sp.1
  refine ⟨⟨hperm.symm.subset List.mem_cons_self, ?_⟩, hperm⟩
  intro x hx
  rcases List.mem_cons.mp (hperm.subset hx) with rfl | hx
  · exact KeyLt.irrefl _
  · exact sp.2 x hx

/-- **one kernel step = one configuration step** -/
theorem kstep (fuel : Nat) {vs : List (View ℚ)} (hk : KInv s a)
    (hi : AInv c sizes0 gaps0 a s.now vs) (hp : popMin s.agenda = some (q, rest)) :
    ∃ s' a' new, step (body c sizes0) (fuel + 1) s = .ok s' ∧ KInv s' a' ∧ AStep c sizes0 a q a' new ∧
      s'.now = q.time ∧ viewsOf s'.trace = viewsOf s.trace ++ new := by
  obtain ⟨hmin, hperm⟩ := isMin_of_pop hk hp
  have hq := hmin.1
  simp only [A.entries, List.mem_append] at hq
  rcases hq with hq | hq | hq
  · -- an entry of the port process
    have hrest : rest.Perm (a.src.entries ++ a.pend.toList) := by
      cases hport : a.port with
      | W g => simp [hport, PPhase.entries] at hq
      | init q0 =>
        simp only [hport, PPhase.entries, List.mem_singleton] at hq; subst hq
        simp only [A.entries, hport, PPhase.entries, List.singleton_append] at hperm
        exact hperm.cons_inv.symm
      | H g id q0 =>
        simp only [hport, PPhase.entries, List.mem_singleton] at hq; subst hq
        simp only [A.entries, hport, PPhase.entries, List.singleton_append] at hperm
        exact hperm.cons_inv.symm
      | T t id q0 =>
        simp only [hport, PPhase.entries, List.mem_singleton] at hq; subst hq
        simp only [A.entries, hport, PPhase.entries, List.singleton_append] at hperm
        exact hperm.cons_inv.symm
    cases hport : a.port with
    | W g => simp [hport, PPhase.entries] at hq
    | init q0 =>
      simp only [hport, PPhase.entries, List.mem_singleton] at hq; subst hq
      have hpa := hi.port
      rw [hport] at hpa
      obtain ⟨s', h1, h2, h3, h4⟩ := kstep_portInit (c := c) (sizes0 := sizes0) fuel hk hport hpa.2.2.1 hp hrest
      exact ⟨s', _, [], h1, h2, AStep.portInit a q _ hport, h3, by simpa using h4⟩
    | H g id q0 =>
      simp only [hport, PPhase.entries, List.mem_singleton] at hq; subst hq
      by_cases hr : 0 < c.rate
      · obtain ⟨s', h1, h2, h3, h4⟩ := kstep_serve (sizes0 := sizes0) fuel hr hk hport hp hrest
        exact ⟨s', _, [], h1, h2, AStep.serveTx a q _ g _ id hport hr ⟨rfl, rfl⟩, h3, by simpa using h4⟩
      · cases hit : a.items with
        | nil =>
          obtain ⟨s', h1, h2, h3, h4⟩ := kstep_serveNowIdle (sizes0 := sizes0) fuel hr hk hport hit hp hrest
          exact ⟨s', _, _, h1, h2, AStep.serveNowIdle a q g _ id hport hr hit, h3, h4⟩
        | cons i is =>
          obtain ⟨s', h1, h2, h3, h4⟩ := kstep_serveNowNext (sizes0 := sizes0) fuel hr hk hport hit hp hrest
          exact ⟨s', _, _, h1, h2, AStep.serveNowNext a q _ g _ id i is hport hr hit ⟨rfl, rfl⟩, h3, h4⟩
    | T t id q0 =>
      simp only [hport, PPhase.entries, List.mem_singleton] at hq; subst hq
      cases hit : a.items with
      | nil =>
        obtain ⟨s', h1, h2, h3, h4⟩ := kstep_fireIdle (c := c) (sizes0 := sizes0) fuel hk hport hit hp hrest
        exact ⟨s', _, _, h1, h2, AStep.fireIdle a q t _ id hport hit, h3, h4⟩
      | cons i is =>
        obtain ⟨s', h1, h2, h3, h4⟩ := kstep_fireNext (c := c) (sizes0 := sizes0) fuel hk hport hit hp hrest
        exact ⟨s', _, _, h1, h2, AStep.fireNext a q _ t _ id i is hport hit ⟨rfl, rfl⟩, h3, h4⟩
  · -- an entry of the generator process
    have hrest : rest.Perm (a.port.entries ++ a.pend.toList) := by
      have : (q :: (a.port.entries ++ a.pend.toList)).Perm (q :: rest) := by
        refine List.Perm.trans ?_ hperm
        cases hsrc : a.src with
        | done => simp [hsrc, SPhase.entries] at hq
        | init q0 g z u =>
          simp only [hsrc, SPhase.entries, List.mem_singleton] at hq; subst hq
          simp only [A.entries, hsrc, SPhase.entries, List.singleton_append]
          exact List.perm_middle.symm
        | delay q0 g z u =>
          simp only [hsrc, SPhase.entries, List.mem_singleton] at hq; subst hq
          simp only [A.entries, hsrc, SPhase.entries, List.singleton_append]
          exact List.perm_middle.symm
        | wait n z g zs u q0 =>
          simp only [hsrc, SPhase.entries, List.mem_singleton] at hq; subst hq
          simp only [A.entries, hsrc, SPhase.entries, List.singleton_append]
          exact List.perm_middle.symm
        | ending q0 =>
          simp only [hsrc, SPhase.entries, List.mem_singleton] at hq; subst hq
          simp only [A.entries, hsrc, SPhase.entries, List.singleton_append]
          exact List.perm_middle.symm
      exact this.cons_inv.symm
    have hsa := hi.src
    cases hsrc : a.src with
    | done => simp [hsrc, SPhase.entries] at hq
    | init q0 gaps sizes us =>
      simp only [hsrc, SPhase.entries, List.mem_singleton] at hq; subst hq
      rw [hsrc] at hsa
      obtain ⟨s', h1, h2, h3, h4⟩ := kstep_srcInit (c := c) (sizes0 := sizes0) fuel hk hsrc (hsa.1.trans hsa.2.1) hsa.2.2.2.2.1 hp hrest
      exact ⟨s', _, [], h1, h2, AStep.srcInit a q _ gaps sizes us hsrc rfl rfl, h3, by simpa using h4⟩
    | delay q0 gaps sizes us =>
      simp only [hsrc, SPhase.entries, List.mem_singleton] at hq; subst hq
      rw [hsrc] at hsa
      cases hnx : genNext c q.time gaps sizes with
      | none =>
        obtain ⟨s', h1, h2, h3, h4⟩ := kstep_srcDelayEnd (c := c) (sizes0 := sizes0) fuel hk hsrc hnx hp hrest
        exact ⟨s', _, [], h1, h2, AStep.srcDelayEnd a q _ gaps sizes us hsrc hnx ⟨rfl, rfl⟩, h3, by simpa using h4⟩
      | some r =>
        obtain ⟨gap, z, gaps', sizes'⟩ := r
        obtain ⟨hg1, -, -⟩ := emit_genNext_some (c := c) 0 hnx
        have hgap : 0 ≤ gap := hsa.2.1 gap (by rw [hg1]; simp)
        obtain ⟨s', h1, h2, h3, h4⟩ := kstep_srcDelayWait (c := c) (sizes0 := sizes0) fuel hk hsrc hnx hgap hp hrest
        exact ⟨s', _, [], h1, h2, AStep.srcDelayWait a q _ gaps sizes us gap z gaps' sizes' hsrc hnx ⟨rfl, rfl⟩, h3,
          by simpa using h4⟩
    | ending q0 =>
      simp only [hsrc, SPhase.entries, List.mem_singleton] at hq; subst hq
      obtain ⟨s', h1, h2, h3, h4⟩ := kstep_srcEnd (c := c) (sizes0 := sizes0) fuel hk hsrc hp hrest
      exact ⟨s', _, [], h1, h2, AStep.srcEnd a q hsrc, h3, by simpa using h4⟩
    | wait n z gaps sizes us q0 =>
      simp only [hsrc, SPhase.entries, List.mem_singleton] at hq; subst hq
      rw [hsrc] at hsa
      have hn : a.pend = none := by
        cases hpe : a.pend with
        | none => rfl
        | some u =>
          exfalso
          have hu := hi.pend u hpe
          exact hi.not_eid_lt hmin (mem_pend hpe) hu.1 (hu.2.trans hsa.1.symm) (hsa.2.2 u hpe)
      have hgi := hi.gen
      rw [hsrc] at hgi
      have hd : needsDraw c (avgNew c a) = true → us ≠ [] := by
        intro _ hus
        have := hgi.draws
        simp [SPhase.todo, hus] at this
      cases hdq : dropQ c (avgNew c a) (uAtt c (avgNew c a) us) with
      | false =>
        cases hnx : genNext c q.time gaps sizes with
        | none =>
          obtain ⟨s', h1, h2, h3, h4⟩ := kstep_srcAccEnd (c := c) (sizes0 := sizes0) fuel hk hsrc hn hd hdq hnx hp hrest
          exact ⟨s', _, _, h1, h2, AStep.srcAccEnd a q _ _ n z gaps sizes us hsrc hn hd hdq hnx ⟨rfl, rfl⟩ ⟨rfl, rfl⟩, h3, h4⟩
        | some r =>
          obtain ⟨gap, z', gaps', sizes'⟩ := r
          obtain ⟨hg1, -, -⟩ := emit_genNext_some (c := c) 0 hnx
          have hgap : 0 ≤ gap := hsa.2.1 gap (by rw [hg1]; simp)
          obtain ⟨s', h1, h2, h3, h4⟩ :=
            kstep_srcAccWait (c := c) (sizes0 := sizes0) fuel hk hsrc hn hd hdq hnx hgap hp hrest
          exact ⟨s', _, _, h1, h2,
            AStep.srcAccWait a q _ _ n z gaps sizes us gap z' gaps' sizes' hsrc hn hd hdq hnx ⟨rfl, rfl⟩ ⟨rfl, rfl⟩
              (Nat.lt_succ_self _), h3, h4⟩
      | true =>
        cases hnx : genNext c q.time gaps sizes with
        | none =>
          obtain ⟨s', h1, h2, h3, h4⟩ := kstep_srcDropEnd (c := c) (sizes0 := sizes0) fuel hk hsrc hd hdq hnx hp hrest
          exact ⟨s', _, _, h1, h2, AStep.srcDropEnd a q _ n z gaps sizes us hsrc hn hd hdq hnx ⟨rfl, rfl⟩, h3, h4⟩
        | some r =>
          obtain ⟨gap, z', gaps', sizes'⟩ := r
          obtain ⟨hg1, -, -⟩ := emit_genNext_some (c := c) 0 hnx
          have hgap : 0 ≤ gap := hsa.2.1 gap (by rw [hg1]; simp)
          obtain ⟨s', h1, h2, h3, h4⟩ :=
            kstep_srcDropWait (c := c) (sizes0 := sizes0) fuel hk hsrc hd hdq hnx hgap hp hrest
          exact ⟨s', _, _, h1, h2,
            AStep.srcDropWait a q _ n z gaps sizes us gap z' gaps' sizes' hsrc hn hd hdq hnx ⟨rfl, rfl⟩, h3, h4⟩
  · -- the pending `StorePut` event
    have hpe : a.pend = some q := by
      cases hpe : a.pend with
      | none => simp [hpe] at hq
      | some u => simp [hpe] at hq; rw [hq]
    have hrest : rest.Perm (a.port.entries ++ a.src.entries) := by
      have : (q :: (a.port.entries ++ a.src.entries)).Perm (q :: rest) := by
        refine List.Perm.trans ?_ hperm
        simp only [A.entries, hpe, Option.toList]
        rw [← List.append_assoc]
        exact (List.perm_append_comm (l₁ := [q])).trans (by simp)
      exact this.cons_inv.symm
    by_cases hw : ∃ g i is, a.port = .W g ∧ a.items = i :: is
    · obtain ⟨g, i, is, hport, hit⟩ := hw
      obtain ⟨s', h1, h2, h3, h4⟩ := kstep_putHand (c := c) (sizes0 := sizes0) fuel hk hpe hport hit hp hrest
      exact ⟨s', _, [], h1, h2, AStep.putHand a q _ g i is hpe hport hit ⟨rfl, rfl⟩, h3, by simpa using h4⟩
    · have hw' : a.port.getQ = [] ∨ a.items = [] := by
        cases hport : a.port with
        | W g =>
          right
          cases hit : a.items with
          | nil => rfl
          | cons i is => exact absurd ⟨g, i, is, hport, hit⟩ hw
        | init q0 => left; rfl
        | H g i q0 => left; rfl
        | T t i q0 => left; rfl
      obtain ⟨s', h1, h2, h3, h4⟩ := kstep_putIdle (c := c) (sizes0 := sizes0) fuel hk hpe hw' hp hrest
      exact ⟨s', _, [], h1, h2, AStep.putIdle a q hpe hw', h3, by simpa using h4⟩

/-! ## the combined invariant -/

/-- the kernel state `s` of the run is the configuration `a`, and `a` is sound -/
structure Inv (c : Cfg ℚ) (sizes0 : List Nat) (gaps0 : List ℚ) (s : KS) (a : A) : Prop where
  k : KInv s a
  a : AInv c sizes0 gaps0 a s.now (viewsOf s.trace)

/-- **one kernel step**: it is `.ok`, keeps the invariant, uses one unit of the step budget, appends the views `new` to the
trace, is a configuration step, and is a sequence of actions the RED LTS accepts from `toF a` to `toF a'` -/
theorem inv_step (fuel : Nat) (h : Inv c sizes0 gaps0 s a) (hp : popMin s.agenda = some (q, rest)) :
    ∃ s' a' new, step (body c sizes0) (fuel + 1) s = .ok s' ∧ Inv c sizes0 gaps0 s' a' ∧ a'.mu + 1 ≤ a.mu ∧
      viewsOf s'.trace = viewsOf s.trace ++ new ∧ AStep c sizes0 a q a' new ∧ s'.now = q.time ∧
      ∃ acts insI, a'.accIds = a.accIds ++ insI ∧
        Fifo.runActs (Port.dev (cfg c)) (toF c sizes0 a s.now (usV (viewsOf s.trace))) acts =
          .ok (toF c sizes0 a' s'.now (usV (viewsOf s'.trace)), insI.map Int.toNat, (outsV new).map (·.1.toNat)) := by
  obtain ⟨s', a', new, h1, h2, h3, h4, h5⟩ := kstep fuel h.k h.a hp
  obtain ⟨g1, g2, g3⟩ := astep_sound h.a (isMin_of_pop h.k hp).1 h3
  refine ⟨s', a', new, h1, ⟨h2, ?_⟩, g2, h5, h3, h4, ?_⟩
  · rw [h4, h5]; exact g1
  · rw [h4, h5]; exact g3

theorem popMin_none {l : List (QEntry ℚ)} (h : popMin l = none) : l = [] := by
  cases l with
  | nil => rfl
  | cons x xs =>
    unfold popMin at h
    cases hp : popMin xs with
    | none => rw [hp] at h; cases h
    | some mr => rw [hp] at h; simp only at h; split at h <;> cases h

/-- with an empty agenda everything is over -/
theorem inv_final (h : Inv c sizes0 gaps0 s a) (he : s.agenda = []) :
    a.items = [] ∧ a.port.inHand = [] ∧ a.src = .done ∧ a.mu = 0 := by
  have hag := h.k.ag
  rw [he] at hag
  have hent : a.entries = [] := List.Perm.eq_nil hag.symm
  simp only [A.entries, List.append_eq_nil_iff] at hent
  obtain ⟨hpo, hsr, hpe⟩ := hent
  have hpe' : a.pend = none := by
    cases hp : a.pend with
    | none => rfl
    | some u => simp [hp] at hpe
  cases hport : a.port with
  | init q0 => simp [hport, PPhase.entries] at hpo
  | H g id q0 => simp [hport, PPhase.entries] at hpo
  | T t id q0 => simp [hport, PPhase.entries] at hpo
  | W g =>
    cases hsrc : a.src with
    | init q0 g z u => simp [hsrc, SPhase.entries] at hsr
    | delay q0 g z u => simp [hsrc, SPhase.entries] at hsr
    | wait n z g zs u q0 => simp [hsrc, SPhase.entries] at hsr
    | ending q0 => simp [hsrc, SPhase.entries] at hsr
    | done =>
      have hit : a.items = [] := by
        by_contra hc
        have := h.a.idle (by simp [hport, PPhase.idle]) hc
        rw [hpe'] at this; cases this
      refine ⟨hit, rfl, rfl, ?_⟩
      simp [A.mu, hport, hsrc, hpe', hit, PPhase.mu, SPhase.mu]

/-- **`run()` returns**: with more step budget than the configuration needs, `runLoop` ends with an empty agenda -/
theorem run_returns (fuel : Nat) : ∀ (n : Nat) (s : KS) (a : A), Inv c sizes0 gaps0 s a → a.mu < n →
    ∃ sF aF, runLoop (body c sizes0) (fuel + 1) none n s = .returned .none sF ∧ Inv c sizes0 gaps0 sF aF ∧
      sF.agenda = []
  | 0, _, _, _, hmu => absurd hmu (Nat.not_lt_zero _)
  | n + 1, s, a, h, hmu => by
    cases hp : popMin s.agenda with
    | none =>
      refine ⟨s, a, ?_, h, popMin_none hp⟩
      simp [runLoop, step, hp]
    | some qr =>
      obtain ⟨q, rest⟩ := qr
      obtain ⟨s', a', new, h1, h2, h3, -, -⟩ := inv_step fuel h hp
      have := run_returns fuel n s' a' h2 (by omega)
      simpa [runLoop, h1] using this

end REDK
