import OnlVerif.Lemmas.MultiQueueInv
/-!
# MultiQueueServer: every accepted step keeps `Inv` and conserves each class's packets as a list
-/

namespace MQ
variable {κ : Type}

/-- packets that enter class `c` with this action -/
def enteredC (sc : Sched ℚ κ) (a : MAct ℚ) (c : Nat) : List MPkt :=
  match a with
  | .put p => if sc.classOf p.flow = some c then [p] else []
  | _ => []

/-- packets of class `c` that leave with this output -/
def leftC (sc : Sched ℚ κ) (o : MOut ℚ) (c : Nat) : List MPkt :=
  match o with
  | .depart p => if sc.classOf p.flow = some c then [p] else []
  | _ => []

/-- the loop starts a burst holding nothing -/
theorem inv_running (sc : Sched ℚ κ) (s : MQState ℚ κ) (k : κ) (h : Inv sc s) (hh : inHand s = [])
    (hc : s.currentPacket = none) :
    Inv sc { s with phase := Phase.running, ctl := k } ∧
    ∀ c, heldC sc { s with phase := Phase.running, ctl := k } c = heldC sc s c := by
  refine ⟨⟨h.storeClass, h.holClass, ?_, ?_, ?_, ?_, ?_, ?_, ?_, h.holNone⟩, ?_⟩
  · intro c p hp; cases hp
  · intro f; have := h.count f; simp only [W, hh] at this; simpa [W, inHand] using this
  · intro f; have := h.bytes f; simp only [W, hh] at this; simpa [W, inHand] using this
  · have := h.tot; simp only [W, hh] at this; simpa [W, inHand] using this
  · intro h1; cases h1
  · intro p d h1; cases h1
  · intro p h1; rw [hc] at h1; cases h1
  · intro c; simp only [heldC, hh]; simp [inHand]

theorem cur_none_of (sc : Sched ℚ κ) (s : MQState ℚ κ) (h : Inv sc s)
    (hn : inHand s = [] ∨ ∃ c p, s.phase = .pktHanded c p) : s.currentPacket = none := by
  cases hc : s.currentPacket with
  | none => rfl
  | some q =>
    exfalso
    rcases h.curOnly q hc with h1 | ⟨d, h1⟩
    · rcases hn with hn | ⟨c, p, hn⟩
      · simp [inHand, h1] at hn
      · rw [h1] at hn; cases hn
    · rcases hn with hn | ⟨c, p, hn⟩
      · simp [inHand, h1] at hn
      · rw [h1] at hn; cases hn

/-- a burst started from a state in which the loop holds nothing -/
theorem inv_resumeLoop (sc : Sched ℚ κ) (L : Lawful sc) (s s' : MQState ℚ κ) (h : Inv sc s) (hh : inHand s = [])
    (hc : s.currentPacket = none) (hr : resumeLoop sc s = .ok s') :
    Inv sc s' ∧ ∀ c, heldC sc s' c = heldC sc s c := by
  have h1 := inv_running sc s s.ctl h hh hc
  have h2 := settles_inv sc L _ s' (resumeLoop_settles sc s s' hr) rfl h1.1
  exact ⟨h2.1, fun c => by rw [h2.2 c, h1.2 c]⟩

theorem inv_put (sc : Sched ℚ κ) (s : MQState ℚ κ) (p : MPkt) (c : Nat) (k : κ) (h : Inv sc s)
    (hc : sc.classOf p.flow = some c) :
    Inv sc (enqueue (countIn (postToken { s with ctl := k }) p) c p) ∧
    ∀ c', heldC sc (enqueue (countIn (postToken { s with ctl := k }) p) c p) c' =
      heldC sc s c' ++ (if sc.classOf p.flow = some c' then [p] else []) := by
  have hph : (postToken { s with ctl := k }).phase = s.phase := by unfold postToken; split <;> rfl
  have hst : (postToken { s with ctl := k }).stores = s.stores := by unfold postToken; split <;> rfl
  have hhol : (postToken { s with ctl := k }).hol = s.hol := by unfold postToken; split <;> rfl
  have hqc : (postToken { s with ctl := k }).queueCount = s.queueCount := by unfold postToken; split <;> rfl
  have hqb : (postToken { s with ctl := k }).queueBytes = s.queueBytes := by unfold postToken; split <;> rfl
  have hcu : (postToken { s with ctl := k }).currentPacket = s.currentPacket := by unfold postToken; split <;> rfl
  have hW : ∀ w, W w (enqueue (countIn (postToken { s with ctl := k }) p) c p) = W w s + w p := by
    intro w
    have := W_stores_set w s.stores c (storeOf s.stores c ++ [p])
    simp only [W, inHand, enqueue, countIn, hph, hst, hhol, wsum_append, wsum_cons, wsum_nil] at this ⊢
    omega
  refine ⟨⟨?_, ?_, ?_, ?_, ?_, ?_, ?_, ?_, ?_,
    fun hn c' => by simp only [enqueue, countIn, hhol]; exact h.holNone hn c'⟩, ?_⟩
  · intro c' q hq
    simp only [enqueue, countIn, hst, storeOf_setKey] at hq
    split at hq
    · rename_i hcc; subst hcc
      rcases List.mem_append.mp hq with h1 | h1
      · exact h.storeClass c' q h1
      · simp only [List.mem_singleton] at h1; subst h1; exact hc
    · exact h.storeClass c' q hq
  · intro c' q hq; simp only [enqueue, countIn, hhol] at hq; exact h.holClass c' q hq
  · intro c' q hq; simp only [enqueue, countIn, hph] at hq; exact h.handClass c' q hq
  · intro f
    rw [hW]
    simp only [enqueue, countIn, hqc, cnt_bump, h.count f, one]
    by_cases hf : f = p.flow
    · subst hf; simp
    · simp [hf, Ne.symm hf]
  · intro f
    rw [hW]
    simp only [enqueue, countIn, hqb, cnt_bump, h.bytes f, bytesOf]
    by_cases hf : f = p.flow
    · subst hf; simp
    · simp [hf, Ne.symm hf]
  · rw [hW]
    simp only [enqueue, countIn, hqc, total_bump, h.tot]
  · intro h1 h2
    exfalso
    simp only [enqueue, countIn, hph] at h1
    simp only [enqueue, countIn] at h2
    unfold postToken at h2
    split at h2
    · simp at h2
    · rename_i ht
      exact ht (h.wake h1 h2)
  · intro q d h1
    simp only [enqueue, countIn, hph, hcu] at h1 ⊢
    exact h.curTx q d h1
  · intro q h1
    simp only [enqueue, countIn, hph, hcu] at h1 ⊢
    exact h.curOnly q h1
  · intro c'
    simp only [heldC, inHand, enqueue, countIn, hph, hst, hhol, storeOf_setKey, hc]
    by_cases hcc : c' = c
    · subst hcc; simp
    · have : (some c = some c') = False := by simp [Ne.symm hcc]
      simp [hcc, this]

/-- the loop parks the packet it was handed -/
theorem inv_park_fresh (sc : Sched ℚ κ) (s s2 : MQState ℚ κ) (c : Nat) (p : MPkt) (k : κ) (h : Inv sc s)
    (hp : s.phase = .pktHanded c p) (v : View) (hd : sc.onPkt s.ctl v c p = .park k)
    (hpk : park { ({ s with phase := Phase.running } : MQState ℚ κ) with ctl := k } c p = .ok s2) :
    Inv sc s2 ∧ (∀ c', heldC sc s2 c' = heldC sc s c') ∧ s2.phase = .running ∧ s2.currentPacket = none := by
  have hcur : s.currentPacket = none :=
    cur_none_of sc s h (by simp [inHand, hp])
  have hpc := h.handClass c p hp
  unfold park at hpk
  split at hpk
  · cases hpk
  · rename_i hn
    simp only [Except.ok.injEq] at hpk
    subst hpk
    have hn' : lookupD s.hol c none = none := hn
    have hW : ∀ w, W w ({ s with phase := Phase.running, ctl := k, hol := setKey s.hol c (some p) } : MQState ℚ κ) = W w s := by
      intro w
      have := W_hol_set w s.hol c (some p)
      rw [hn'] at this
      simp only [W, inHand, hp, wsum_cons, wsum_nil, wOpt_some, wOpt_none] at this ⊢
      omega
    refine ⟨⟨h.storeClass, ?_, ?_, ?_, ?_, ?_, ?_, ?_, ?_, fun hn => absurd hd (hn _ _ _ _ _)⟩, ?_, rfl, hcur⟩
    · intro c' q hq
      simp only [lookupD_setKey] at hq
      split at hq
      · rename_i hcc; subst hcc; cases hq; exact hpc
      · exact h.holClass c' q hq
    · intro c' q hq; cases hq
    · intro f; exact (hW (one f)).symm ▸ h.count f
    · intro f; exact (hW (bytesOf f)).symm ▸ h.bytes f
    · exact (hW (fun _ => 1)).symm ▸ h.tot
    · intro h1; cases h1
    · intro q d h1; cases h1
    · intro q h1
      have : s.currentPacket = some q := h1
      rw [hcur] at this; cases this
    · intro c'
      simp only [heldC, inHand, hp, lookupD_setKey, List.filter_cons, List.filter_nil, hpc]
      by_cases hcc : c' = c
      · subst hcc; simp [hn']
      · have : (some c = some c') = False := by simp [Ne.symm hcc]
        simp [hcc, this]

/-- **every accepted step keeps the invariant and conserves every class's packets, in order** -/
theorem step_inv (sc : Sched ℚ κ) (L : Lawful sc) (s s' : MQState ℚ κ) (a : MAct ℚ) (o : MOut ℚ)
    (h : Inv sc s) (hs : step sc s a = .ok (s', o)) :
    Inv sc s' ∧ ∀ c, heldC sc s c ++ enteredC sc a c = leftC sc o c ++ heldC sc s' c := by
  have ht := step_trans sc s s' a o hs
  clear hs
  cases ht with
  | init _ hp hr =>
    have hh : inHand s = [] := by simp [inHand, hp]
    have hc := cur_none_of sc s h (by simp [inHand, hp])
    have := inv_resumeLoop sc L s s' h hh hc hr
    exact ⟨this.1, fun c => by simp [enteredC, leftC, this.2 c]⟩
  | put p c k hc hk =>
    have := inv_put sc s p c k h hc
    exact ⟨this.1, fun c' => by simp only [enteredC, leftC, this.2 c', List.nil_append]⟩
  | tokenHandoff n hp htk =>
    refine ⟨⟨h.storeClass, h.holClass, ?_, ?_, ?_, ?_, ?_, ?_, ?_, h.holNone⟩, ?_⟩
    · intro c q hq; cases hq
    · intro f; have := h.count f; simpa [W, inHand, hp] using this
    · intro f; have := h.bytes f; simpa [W, inHand, hp] using this
    · have := h.tot; simpa [W, inHand, hp] using this
    · intro h1; cases h1
    · intro q d h1; cases h1
    · intro q h1
      rcases h.curOnly q h1 with h2 | ⟨d, h2⟩ <;> rw [hp] at h2 <;> cases h2
    · intro c; simp [enteredC, leftC, heldC, inHand, hp]
  | wake _ hp hr =>
    have hh : inHand s = [] := by simp [inHand, hp]
    have hc := cur_none_of sc s h (by simp [inHand, hp])
    have := inv_resumeLoop sc L s s' h hh hc hr
    exact ⟨this.1, fun c => by simp [enteredC, leftC, this.2 c]⟩
  | resumeSend c p e k hp hd =>
    have hcur : s.currentPacket = none :=
      cur_none_of sc s h (by simp [inHand, hp])
    refine ⟨⟨h.storeClass, h.holClass, ?_, ?_, ?_, ?_, ?_, ?_, ?_, h.holNone⟩, ?_⟩
    · intro c' q hq; cases hq
    · intro f; have := h.count f; simpa [W, inHand, hp, spawn] using this
    · intro f; have := h.bytes f; simpa [W, inHand, hp, spawn] using this
    · have := h.tot; simpa [W, inHand, hp, spawn] using this
    · intro h1; cases h1
    · intro q d h1; cases h1
    · intro q h1
      simp only [spawn, hcur] at h1
      split at h1
      · cases h1; exact Or.inl rfl
      · cases h1
    · intro c'; simp [enteredC, leftC, heldC, inHand, hp, spawn]
  | resumePark c p k s2 _ hp hd hpk hr =>
    have h1 := inv_park_fresh sc s s2 c p k h hp _ hd hpk
    have hh : inHand s2 = [] := by simp [inHand, h1.2.2.1]
    have h2 := inv_resumeLoop sc L s2 s' h1.1 hh h1.2.2.2 hr
    exact ⟨h2.1, fun c' => by simp [enteredC, leftC, h2.2 c', h1.2.1 c']⟩
  | sendInit p hp =>
    refine ⟨⟨h.storeClass, h.holClass, ?_, ?_, ?_, ?_, ?_, ?_, ?_, h.holNone⟩, ?_⟩
    · intro c' q hq; cases hq
    · intro f; have := h.count f; simpa [W, inHand, hp] using this
    · intro f; have := h.bytes f; simpa [W, inHand, hp] using this
    · have := h.tot; simpa [W, inHand, hp] using this
    · intro h1; cases h1
    · intro q d h1; cases h1; rfl
    · intro q h1; cases h1; exact Or.inr ⟨_, rfl⟩
    · intro c'; simp [enteredC, leftC, heldC, inHand, hp]
  | sendFire p due hp hnow =>
    have hW : ∀ w, W w ({ countOut s p with currentPacket := none, phase := Phase.finished p } : MQState ℚ κ) + w p = W w s := by
      intro w; simp only [W, inHand, hp, countOut, wsum_cons, wsum_nil]; omega
    refine ⟨⟨h.storeClass, h.holClass, ?_, ?_, ?_, ?_, ?_, ?_, ?_, h.holNone⟩, ?_⟩
    · intro c' q hq; cases hq
    · intro f
      have := hW (one f)
      show cnt (bump s.queueCount p.flow (-1)) f = _
      rw [cnt_bump, h.count f]
      simp only [one] at this ⊢
      by_cases hf : f = p.flow
      · subst hf; simp at this ⊢; omega
      · simp [hf, Ne.symm hf] at this ⊢; omega
    · intro f
      have := hW (bytesOf f)
      show cnt (bump s.queueBytes p.flow (-(p.size : Int))) f = _
      rw [cnt_bump, h.bytes f]
      simp only [bytesOf] at this ⊢
      by_cases hf : f = p.flow
      · subst hf; simp at this ⊢; omega
      · simp [hf, Ne.symm hf] at this ⊢; omega
    · have := hW (fun _ => 1)
      show total (bump s.queueCount p.flow (-1)) = _
      rw [total_bump, h.tot]; omega
    · intro h1; cases h1
    · intro q d h1; cases h1
    · intro q h1; cases h1
    · intro c'
      simp only [enteredC, leftC, heldC, inHand, hp, countOut, List.filter_cons, List.filter_nil, List.append_nil]
      by_cases hc : sc.classOf p.flow = some c' <;> simp [hc]
  | sendDone p k _ hp hk hr =>
    have hh : inHand ({ s with ctl := k } : MQState ℚ κ) = [] := by simp [inHand, hp]
    have hc := cur_none_of sc s h (by simp [inHand, hp])
    have h0 : Inv sc { s with ctl := k } :=
      ⟨h.storeClass, h.holClass, h.handClass, h.count, h.bytes, h.tot, h.wake, h.curTx, h.curOnly, h.holNone⟩
    have := inv_resumeLoop sc L { s with ctl := k } s' h0 hh hc hr
    exact ⟨this.1, fun c => by
      rw [this.2 c]; simp only [enteredC, leftC, List.append_nil, List.nil_append]; rfl⟩
  | tickIdle t h1 h2 h3 =>
    exact ⟨⟨h.storeClass, h.holClass, h.handClass, h.count, h.bytes, h.tot, h.wake, h.curTx, h.curOnly, h.holNone⟩,
      fun c => by simp only [enteredC, leftC, List.append_nil, List.nil_append]; rfl⟩
  | tickBusy t p due h1 h2 h3 =>
    exact ⟨⟨h.storeClass, h.holClass, h.handClass, h.count, h.bytes, h.tot, h.wake, h.curTx, h.curOnly, h.holNone⟩,
      fun c => by simp only [enteredC, leftC, List.append_nil, List.nil_append]; rfl⟩
  | sample inc => exact ⟨h, fun c => by simp [enteredC, leftC]⟩

/-! ### whole runs -/

/-- run an action sequence; the result collects the accepted packets and the departures, in order -/
def runActs (sc : Sched ℚ κ) : MQState ℚ κ → List (MAct ℚ) → Except String (MQState ℚ κ × List MPkt × List MPkt)
  | s, [] => .ok (s, [], [])
  | s, a :: as =>
    match step sc s a with
    | .error m => .error m
    | .ok (s1, o) =>
      match runActs sc s1 as with
      | .error m => .error m
      | .ok (s2, ins, outs) =>
        .ok (s2, (match a with | .put p => [p] | _ => []) ++ ins, (match o with | .depart p => [p] | _ => []) ++ outs)

def ofClass (sc : Sched ℚ κ) (c : Nat) (l : List MPkt) : List MPkt := l.filter (fun p => decide (sc.classOf p.flow = some c))

theorem ofClass_append (sc : Sched ℚ κ) (c : Nat) (l1 l2 : List MPkt) :
    ofClass sc c (l1 ++ l2) = ofClass sc c l1 ++ ofClass sc c l2 := by simp [ofClass]

theorem enteredC_eq (sc : Sched ℚ κ) (a : MAct ℚ) (c : Nat) :
    enteredC sc a c = ofClass sc c (match a with | .put p => [p] | _ => []) := by
  cases a <;> simp [enteredC, ofClass, List.filter_cons]

theorem leftC_eq (sc : Sched ℚ κ) (o : MOut ℚ) (c : Nat) :
    leftC sc o c = ofClass sc c (match o with | .depart p => [p] | _ => []) := by
  cases o <;> simp [leftC, ofClass, List.filter_cons]

/-- **conservation and order over whole runs, per class** -/
theorem run_inv (sc : Sched ℚ κ) (L : Lawful sc) (as : List (MAct ℚ)) (s s' : MQState ℚ κ) (ins outs : List MPkt)
    (h : Inv sc s) (hr : runActs sc s as = .ok (s', ins, outs)) :
    Inv sc s' ∧ ∀ c, heldC sc s c ++ ofClass sc c ins = ofClass sc c outs ++ heldC sc s' c := by
  induction as generalizing s ins outs with
  | nil =>
    simp only [runActs, Except.ok.injEq, Prod.mk.injEq] at hr
    obtain ⟨rfl, rfl, rfl⟩ := hr
    exact ⟨h, fun c => by simp [ofClass]⟩
  | cons a as ih =>
    simp only [runActs] at hr
    split at hr
    · cases hr
    · rename_i s1 o h1
      split at hr
      · cases hr
      · rename_i s2 ins2 outs2 h2
        simp only [Except.ok.injEq, Prod.mk.injEq] at hr
        obtain ⟨rfl, rfl, rfl⟩ := hr
        have c1 := step_inv sc L s s1 a o h h1
        have c2 := ih s1 ins2 outs2 c1.1 h2
        refine ⟨c2.1, fun c => ?_⟩
        have e1 := c1.2 c
        have e2 := c2.2 c
        rw [enteredC_eq, leftC_eq] at e1
        rw [ofClass_append, ofClass_append]
        calc heldC sc s c ++ (ofClass sc c _ ++ ofClass sc c ins2)
            = (heldC sc s c ++ ofClass sc c _) ++ ofClass sc c ins2 := by rw [List.append_assoc]
          _ = (ofClass sc c _ ++ heldC sc s1 c) ++ ofClass sc c ins2 := by rw [e1]
          _ = ofClass sc c _ ++ (heldC sc s1 c ++ ofClass sc c ins2) := by rw [List.append_assoc]
          _ = ofClass sc c _ ++ (ofClass sc c outs2 ++ heldC sc s2 c) := by rw [e2]
          _ = ofClass sc c _ ++ ofClass sc c outs2 ++ heldC sc s2 c := by rw [List.append_assoc]

theorem cnt_zeros (counts : List (Nat × Int)) (hz : ∀ e ∈ counts, e.2 = 0) (f : Nat) : cnt counts f = 0 := by
  induction counts with
  | nil => rfl
  | cons a r ih =>
    obtain ⟨k1, v1⟩ := a
    have hv : v1 = 0 := hz (k1, v1) (by simp)
    have ih' := ih (fun e he => hz e (List.mem_cons_of_mem _ he))
    simp only [cnt, lookup] at ih' ⊢
    split
    · simp [hv]
    · exact ih'

theorem total_zeros (counts : List (Nat × Int)) (hz : ∀ e ∈ counts, e.2 = 0) : total counts = 0 := by
  induction counts with
  | nil => rfl
  | cons a r ih =>
    obtain ⟨k1, v1⟩ := a
    have hv : v1 = 0 := hz (k1, v1) (by simp)
    simp [total, hv, ih (fun e he => hz e (List.mem_cons_of_mem _ he))]

theorem init_inv (sc : Sched ℚ κ) (k : κ) (t0 : ℚ) (counts : List (Nat × Int)) (hz : ∀ e ∈ counts, e.2 = 0) :
    Inv sc (MQ.init k t0 counts) ∧ ∀ c, heldC sc (MQ.init k t0 counts) c = [] := by
  have hcnt := cnt_zeros counts hz
  have htot := total_zeros counts hz
  refine ⟨⟨?_, ?_, ?_, ?_, ?_, ?_, ?_, ?_, ?_, fun _ c => by simp [MQ.init, lookupD, lookup]⟩, ?_⟩
  · intro c p hp; simp [MQ.init, storeOf, lookupD, lookup] at hp
  · intro c p hp; simp [MQ.init, lookupD, lookup] at hp
  · intro c p hp; cases hp
  · intro f; simp [MQ.init, W, inHand, wsumMap, hcnt]
  · intro f; simp [MQ.init, W, inHand, wsumMap, cnt, lookup]
  · simp [MQ.init, W, inHand, wsumMap, htot]
  · intro h1; cases h1
  · intro p d h1; cases h1
  · intro p h1; cases h1
  · intro c; simp [MQ.init, heldC, inHand, storeOf, lookupD, lookup]

end MQ
