import OnlVerif.Lemmas.WRRKDefs
/-!
# The WRR scheduler on the kernel model: what each kernel operation of the program does

Every lemma rewrites an operation applied to an arbitrary state `s` into `{ s with … }` with explicit fields, under
the local facts the operation reads (the store record, the attribute cell).  The generic part (association lists,
`resume`/`step` without duplicated sub-terms) is shared with the Timer (`TimerKBasic.lean`).
-/

set_option linter.unusedSimpArgs false

namespace WRRK
open WRROnK
open TimerK (lookup plookup afterBurst resume_eq step_eq)

theorem getD_set_same (a : Array ResRec) (r : Nat) (x : ResRec) (h : r < a.size) :
    (a.setIfInBounds r x).getD r default = x := by
  rw [getD_setIfInBounds]; simp [h]

@[simp] theorem isStoreKind_store : isStoreKind .store = true := rfl
@[simp] theorem isPrioKind_store : isPrioKind .store = false := rfl
@[simp] theorem store_beq_preemptive : (ResKind.store == ResKind.preemptive) = false := rfl
@[simp] theorem store_beq_fstore : (ResKind.store == ResKind.fstore) = false := rfl

theorem doCall_load (s : KS) (self : EvId) (k : Nat) : doCall s self (.load k) = (s, .val (lookup s.shared k)) := rfl

theorem doCall_store (s : KS) (self : EvId) (k : Nat) (v : Val) :
    doCall s self (.store k v) = ({ s with shared := (k, v) :: s.shared.filter (·.1 != k) }, .unit) := rfl

theorem doCall_log (s : KS) (self : EvId) (what : String) (i : Int) :
    doCall s self (.log what (.int i)) = ({ s with trace := s.trace.push (.log self what (.int i) s.now) }, .unit) := rfl

theorem doCall_log_none (s : KS) (self : EvId) (what : String) :
    doCall s self (.log what .none) = ({ s with trace := s.trace.push (.log self what .none s.now) }, .unit) := rfl

theorem doCall_timeout (s : KS) (self : EvId) (d : ℚ) (v : Val) (hd : 0 ≤ d) :
    doCall s self (.timeout d v) =
      ({ s with
          events := s.events.push { kind := .timeout, cbs := some [], out := some (.ok v), label := s.nlabel + 1 }
          nlabel := s.nlabel + 1
          agenda := { time := s.now + d, prio := NORMAL, eid := s.eid, ev := s.events.size } :: s.agenda
          eid := s.eid + 1 }, .ev s.events.size) := by
  have : ¬ d < Num.zero := by rw [zero_eq']; exact not_lt.mpr hd
  simp [doCall, this, KState.newLabelled, KState.schedule]

/-- `env.process(generator)` -/
theorem doCall_spawn (s : KS) (self : EvId) (st : St) :
    doCall s self (.spawn st) =
      ({ s with
          events := (s.events.push { kind := .proc, cbs := some [], out := none, label := s.nlabel + 1 }).push
                      { kind := .init s.events.size, cbs := some [.resume s.events.size], out := some (.ok .none) }
          nlabel := s.nlabel + 1
          procs := (s.events.size, { st := st, target := some (s.events.size + 1) }) :: s.procs.filter (·.1 != s.events.size)
          agenda := { time := s.now, prio := URGENT, eid := s.eid, ev := s.events.size + 1 } :: s.agenda
          eid := s.eid + 1 }, .ev s.events.size) := by
  simp [doCall, KState.newLabelled, KState.newEv, KState.setProc, KState.schedule, zero_eq']

/-- `store.put(item)` on an unbounded `Store` nobody has a pending `put` on: the item is appended, the `StorePut` event is
triggered at once -/
theorem doCall_sput (s : KS) (self : EvId) (r : ResId) (item : Int) (gq : List EvId) (its : List Int)
    (hsz : r < s.resources.size) (hr : s.resources.getD r default = storeRec gq its) :
    doCall s self (.sput r item) =
      ({ s with
          events := s.events.push { kind := .put r, cbs := some [.trigGet r], out := some (.ok .none), label := s.nlabel + 1,
                                     req := some { res := r, item := item, time := s.now, proc := s.active } }
          nlabel := s.nlabel + 1
          resources := s.resources.setIfInBounds r (storeRec gq (its ++ [item]))
          agenda := { time := s.now, prio := NORMAL, eid := s.eid, ev := s.events.size } :: s.agenda
          eid := s.eid + 1 }, .ev s.events.size) := by
  simp [doCall, hr, storeRec, mkPut, KState.newLabelled, enqPut, KState.setPutQ, KState.setRes, KState.res,
    triggerPut, scanPut, doPut, prePut, canPut, hasRoom, applyPut, KState.setItems, KState.trigger, KState.setOut, KState.schedule,
    KState.setEv, KState.ev, reqOf, KState.triggered, dropPutQ, getD_set_same, hsz, getD_push, getD_setIfInBounds, zero_eq',
    TimerK.push_setIfInBounds_size]

/-- `store.get()` on an empty `Store` nobody waits on: the `StoreGet` event is queued -/
theorem doCall_sget_miss (s : KS) (self : EvId) (r : ResId) (hsz : r < s.resources.size)
    (hr : s.resources.getD r default = storeRec [] []) :
    doCall s self (.sget r 0) =
      ({ s with
          events := s.events.push { kind := .get r, cbs := some [.trigPut r], out := none, label := s.nlabel + 1,
                                     req := some { res := r, time := s.now, proc := s.active } }
          nlabel := s.nlabel + 1
          resources := s.resources.setIfInBounds r (storeRec [s.events.size] []) }, .ev s.events.size) := by
  simp [doCall, hr, storeRec, mkGet, KState.newLabelled, enqGet, KState.setGetQ, KState.setRes, KState.res,
    triggerGet, scanGet, doGet, getItem, KState.triggered, KState.ev, getD_set_same, hsz, getD_push]

/-- `store.get()` on a non-empty `Store`: the head item is handed out at once -/
theorem doCall_sget_hit (s : KS) (self : EvId) (r : ResId) (i : Int) (is : List Int) (hsz : r < s.resources.size)
    (hr : s.resources.getD r default = storeRec [] (i :: is)) :
    doCall s self (.sget r 0) =
      ({ s with
          events := s.events.push { kind := .get r, cbs := some [.trigPut r], out := some (.ok (.int i)),
                                     label := s.nlabel + 1, req := some { res := r, time := s.now, proc := s.active } }
          nlabel := s.nlabel + 1
          resources := s.resources.setIfInBounds r (storeRec [] is)
          agenda := { time := s.now, prio := NORMAL, eid := s.eid, ev := s.events.size } :: s.agenda
          eid := s.eid + 1 }, .ev s.events.size) := by
  simp [doCall, hr, storeRec, mkGet, KState.newLabelled, enqGet, KState.setGetQ, KState.setRes, KState.res,
    triggerGet, scanGet, doGet, getItem, takeOut, KState.setItems, KState.trigger, KState.setOut, KState.schedule,
    KState.setEv, KState.triggered, KState.ev, dropGetQ, getD_set_same, hsz, getD_push, getD_setIfInBounds, zero_eq',
    TimerK.push_setIfInBounds_size]

theorem triggerPut_none (s : KS) (r : ResId) (gq : List EvId) (its : List Int)
    (hr : s.resources.getD r default = storeRec gq its) : triggerPut s r = s := by
  simp [triggerPut, KState.res, hr, storeRec, scanPut]

theorem triggerGet_none (s : KS) (r : ResId) (its : List Int)
    (hr : s.resources.getD r default = storeRec [] its) : triggerGet s r = s := by
  simp [triggerGet, KState.res, hr, storeRec, scanGet]

/-- `_trigger_get` with a waiting `get` and an empty store: nothing happens -/
theorem triggerGet_empty (s : KS) (r : ResId) (g : EvId) (hr : s.resources.getD r default = storeRec [g] [])
    (hg : (s.events.getD g default).out = none) : triggerGet s r = s := by
  simp [-Array.getD_eq_getD_getElem?, triggerGet, KState.res, hr, storeRec, scanGet, doGet, getItem, KState.triggered, KState.ev, hg]

/-- `_trigger_get` with a waiting `get` and an item: the item is handed over, the `StoreGet` event is triggered -/
theorem triggerGet_hand (s : KS) (r : ResId) (g : EvId) (i : Int) (is : List Int) (hsz : r < s.resources.size)
    (hgs : g < s.events.size) (hr : s.resources.getD r default = storeRec [g] (i :: is)) :
    triggerGet s r =
      { s with
          events := s.events.setIfInBounds g { s.events.getD g default with out := some (.ok (.int i)) }
          resources := s.resources.setIfInBounds r (storeRec [] is)
          agenda := { time := s.now, prio := NORMAL, eid := s.eid, ev := g } :: s.agenda
          eid := s.eid + 1 } := by
  simp [-Array.getD_eq_getD_getElem?, hr, storeRec, KState.setGetQ, KState.setRes, KState.res,
    triggerGet, scanGet, doGet, getItem, takeOut, KState.setItems, KState.trigger, KState.setOut, KState.schedule,
    KState.setEv, KState.triggered, KState.ev, dropGetQ, getD_set_same, hsz, hgs, getD_push, getD_setIfInBounds, zero_eq',
    TimerK.push_setIfInBounds_size]

/-! ## the attribute cells are pairwise different -/

@[wrrk] theorem cRecv_ne_cCur : (cRecv = cCur) = False := by
  simp only [cRecv, cCur, eq_iff_iff, iff_false]; omega
@[wrrk] theorem cRecv_ne_cCount (f' : Nat) : (cRecv = cCount f') = False := by
  simp only [cRecv, cCount, eq_iff_iff, iff_false]; omega
@[wrrk] theorem cRecv_ne_cBytes (f' : Nat) : (cRecv = cBytes f') = False := by
  simp only [cRecv, cBytes, eq_iff_iff, iff_false]; omega
@[wrrk] theorem cRecv_ne_cHas (f' : Nat) : (cRecv = cHas f') = False := by
  simp only [cRecv, cHas, eq_iff_iff, iff_false]; omega
@[wrrk] theorem cCur_ne_cRecv : (cCur = cRecv) = False := by
  simp only [cCur, cRecv, eq_iff_iff, iff_false]; omega
@[wrrk] theorem cCur_ne_cCount (f' : Nat) : (cCur = cCount f') = False := by
  simp only [cCur, cCount, eq_iff_iff, iff_false]; omega
@[wrrk] theorem cCur_ne_cBytes (f' : Nat) : (cCur = cBytes f') = False := by
  simp only [cCur, cBytes, eq_iff_iff, iff_false]; omega
@[wrrk] theorem cCur_ne_cHas (f' : Nat) : (cCur = cHas f') = False := by
  simp only [cCur, cHas, eq_iff_iff, iff_false]; omega
@[wrrk] theorem cCount_ne_cRecv (f : Nat) : (cCount f = cRecv) = False := by
  simp only [cCount, cRecv, eq_iff_iff, iff_false]; omega
@[wrrk] theorem cCount_ne_cCur (f : Nat) : (cCount f = cCur) = False := by
  simp only [cCount, cCur, eq_iff_iff, iff_false]; omega
@[wrrk] theorem cCount_inj (f : Nat) (f' : Nat) : (cCount f = cCount f') = (f = f') := by
  simp only [cCount, eq_iff_iff]; omega
@[wrrk] theorem cCount_ne_cBytes (f : Nat) (f' : Nat) : (cCount f = cBytes f') = False := by
  simp only [cCount, cBytes, eq_iff_iff, iff_false]; omega
@[wrrk] theorem cCount_ne_cHas (f : Nat) (f' : Nat) : (cCount f = cHas f') = False := by
  simp only [cCount, cHas, eq_iff_iff, iff_false]; omega
@[wrrk] theorem cBytes_ne_cRecv (f : Nat) : (cBytes f = cRecv) = False := by
  simp only [cBytes, cRecv, eq_iff_iff, iff_false]; omega
@[wrrk] theorem cBytes_ne_cCur (f : Nat) : (cBytes f = cCur) = False := by
  simp only [cBytes, cCur, eq_iff_iff, iff_false]; omega
@[wrrk] theorem cBytes_ne_cCount (f : Nat) (f' : Nat) : (cBytes f = cCount f') = False := by
  simp only [cBytes, cCount, eq_iff_iff, iff_false]; omega
@[wrrk] theorem cBytes_inj (f : Nat) (f' : Nat) : (cBytes f = cBytes f') = (f = f') := by
  simp only [cBytes, eq_iff_iff]; omega
@[wrrk] theorem cBytes_ne_cHas (f : Nat) (f' : Nat) : (cBytes f = cHas f') = False := by
  simp only [cBytes, cHas, eq_iff_iff, iff_false]; omega
@[wrrk] theorem cHas_ne_cRecv (f : Nat) : (cHas f = cRecv) = False := by
  simp only [cHas, cRecv, eq_iff_iff, iff_false]; omega
@[wrrk] theorem cHas_ne_cCur (f : Nat) : (cHas f = cCur) = False := by
  simp only [cHas, cCur, eq_iff_iff, iff_false]; omega
@[wrrk] theorem cHas_ne_cCount (f : Nat) (f' : Nat) : (cHas f = cCount f') = False := by
  simp only [cHas, cCount, eq_iff_iff, iff_false]; omega
@[wrrk] theorem cHas_ne_cBytes (f : Nat) (f' : Nat) : (cHas f = cBytes f') = False := by
  simp only [cHas, cBytes, eq_iff_iff, iff_false]; omega
@[wrrk] theorem cHas_inj (f : Nat) (f' : Nat) : (cHas f = cHas f') = (f = f') := by
  simp only [cHas, eq_iff_iff]; omega
@[wrrk] theorem flowStore_inj (f f' : Nat) : (flowStore f = flowStore f') = (f = f') :=
  propext ⟨fun h => by unfold flowStore at h; omega, fun h => by rw [h]⟩
@[wrrk] theorem flowStore_ne_zero (f : Nat) : (flowStore f = 0) = False :=
  propext ⟨fun h => by unfold flowStore at h; omega, False.elim⟩
@[wrrk] theorem zero_ne_flowStore (f : Nat) : (0 = flowStore f) = False :=
  propext ⟨fun h => by unfold flowStore at h; omega, False.elim⟩
@[wrrk] theorem tokStore_eq : tokStore = 0 := rfl

theorem mem_addKey (l : List Nat) (k x : Nat) : x ∈ addKey l k ↔ x ∈ l ∨ x = k := by
  unfold addKey
  split
  · rename_i h
    constructor
    · exact Or.inl
    · rintro (h1 | rfl)
      · exact h1
      · exact List.elem_iff.mp h |> fun h' => by simpa using h
  · simp

/-! ## bursts: reading attributes does not change the state -/

theorem runBurst_call (p : EvId) (c : Call ℚ St) (k : Reply → Burst ℚ St) (S : KS) :
    runBurst p (.call c k) S = runBurst p (k (doCall S p c).2) (noteErr p (doCall S p c)) := rfl

theorem runBurst_loadInt (p : EvId) (k : Nat) (n : Int) (cont : Int → Burst ℚ St) (S : KS)
    (h : lookup S.shared k = .int n) : runBurst p (loadInt k cont) S = runBurst p (cont n) S := by
  simp [loadInt, runBurst_call, doCall_load, noteErr, h]

theorem runBurst_addInt (p : EvId) (k : Nat) (n d : Int) (cont : Burst ℚ St) (S : KS)
    (h : lookup S.shared k = .int n) :
    runBurst p (addInt k d cont) S =
      runBurst p cont { S with shared := (k, .int (n + d)) :: S.shared.filter (·.1 != k) } := by
  simp [addInt, loadInt, runBurst_call, doCall_load, doCall_store, noteErr, h]

theorem runBurst_sumCounts (p : EvId) (c : Nat → Int) (S : KS) (k : Int → Burst ℚ St) :
    ∀ (n f : Nat) (acc : Int), (∀ j, f ≤ j → j < f + n → lookup S.shared (cCount j) = .int (c j)) →
      runBurst p (sumCounts f n acc k) S = runBurst p (k (acc + sumFrom c f n)) S
  | 0, f, acc, _ => by simp [sumCounts, sumFrom]
  | n + 1, f, acc, h => by
    rw [sumCounts, runBurst_loadInt p _ (c f) _ S (h f (Nat.le_refl _) (by omega)),
      runBurst_sumCounts p c S k n (f + 1) (acc + c f) (fun j h1 h2 => h j (by omega) (by omega))]
    simp [sumFrom, Int.add_assoc]

/-- `self.total_packets` reads the `F` counters -/
theorem runBurst_total (p : EvId) (F : Nat) (c : Nat → Int) (S : KS) (k : Int → Burst ℚ St)
    (h : ∀ f, f < F → lookup S.shared (cCount f) = .int (c f)) :
    runBurst p (totalPackets F k) S = runBurst p (k (sumFrom c 0 F)) S := by
  rw [totalPackets, runBurst_sumCounts p c S k F 0 0 (fun j _ h2 => h j (by omega))]
  simp

/-- the two `for` loops of `WRR.run` only read: they end at the first iteration that finds its class backlogged (whose store
exists: the `assert` holds), or behind the last entry -/
theorem runBurst_scanW (p : EvId) (c : Nat → Int) (onEnd : Burst ℚ St) (S : KS) :
    ∀ (ws : List (Nat × Nat)) (m jj : Nat), (∀ e ∈ ws, lookup S.shared (cCount e.1) = .int (c e.1)) →
      (∀ e ∈ ws, 0 < c e.1 → lookup S.shared (cHas e.1) = .int 1) →
      runBurst p (scanW onEnd m jj ws) S =
        match firstHit c m jj ws with
        | some (m', jj', f) => runBurst p (runTake m' jj' f) S
        | none => runBurst p onEnd S
  | [], m, jj, _, _ => by simp [scanW, firstHit]
  | (f, w) :: rest, m, jj, h, hh => by
    have ih := runBurst_scanW p c onEnd S rest (m + 1) 0 (fun x hx => h x (List.mem_cons_of_mem _ hx))
      (fun x hx => hh x (List.mem_cons_of_mem _ hx))
    have hl := h (f, w) List.mem_cons_self
    by_cases hjw : jj < w
    · by_cases hpos : 0 < c f
      · simp only [scanW, firstHit, hjw, hpos, if_true, and_self]
        rw [runBurst_loadInt p _ (c f) _ S hl]
        simp only [hpos, if_true]
        rw [runBurst_loadInt p _ 1 _ S (hh (f, w) List.mem_cons_self hpos)]
        simp
      · simp only [scanW, firstHit, hjw, hpos, if_true, and_false, if_false]
        rw [runBurst_loadInt p _ (c f) _ S hl]
        simp only [hpos, if_false]
        rw [ih]
    · simp only [scanW, firstHit, hjw, if_false, false_and]
      rw [ih]

/-- **a burst of `WRR.run` from entry `m`, iteration `jj` of its loops**: the rest of the pass, `total_packets`, the next
pass -/
theorem runBurst_pass (p : EvId) (F : Nat) (a : A) (ws : List (Nat × Nat)) (m jj : Nat) (S : KS)
    (hc : ∀ f, f < F → lookup S.shared (cCount f) = .int (a.cnt f)) (hfl : ∀ e ∈ ws, e.1 < F)
    (hh : ∀ e ∈ ws, 0 < a.cnt e.1 → lookup S.shared (cHas e.1) = .int 1) :
    runBurst p (runPass F ws m jj) S =
      match a.loop F ws m jj with
      | .hit m' jj' f => runBurst p (runTake m' jj' f) S
      | .idle => runBurst p runWait S
      | .hang => runBurst p (.raise hangErr) S := by
  have hsub : ∀ e ∈ ws.drop m, e ∈ ws := fun e he => List.mem_of_mem_drop he
  unfold runPass A.loop
  rw [runBurst_scanW p a.cnt _ S _ m jj (fun e he => hc e.1 (hfl e (hsub e he))) (fun e he => hh e (hsub e he))]
  cases h1 : firstHit a.cnt m jj (ws.drop m) with
  | some jf => rfl
  | none =>
    simp only [endPass]
    rw [runBurst_total p F a.cnt S _ hc]
    by_cases ht : a.total F = 0
    · have ht' : sumFrom a.cnt 0 F = 0 := ht
      simp only [ht', ht, if_true]
    · have ht' : ¬ sumFrom a.cnt 0 F = 0 := ht
      simp only [ht', ht, if_false]
      rw [runBurst_scanW p a.cnt _ S _ 0 0 (fun e he => hc e.1 (hfl e he)) hh]
      cases h2 : firstHit a.cnt 0 0 ws with
      | some jf => rfl
      | none =>
        simp only [endPass2]
        rw [runBurst_total p F a.cnt S _ hc]
        simp only [ht', if_false]

end WRRK
