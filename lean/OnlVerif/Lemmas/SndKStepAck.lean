import OnlVerif.Lemmas.SndKFragPut
/-!
# The TCP sender on the kernel model: the script delivers an ACK into `put` (LTS action `ack`)
-/

set_option linter.unusedSimpArgs false

namespace SndK
open SenderOnK TcpSender

theorem le_of_pymax {x y z : ℚ} (h : Num.pymax x y = z) : x ≤ z := by
  unfold Num.pymax at h
  split at h
  · rename_i hl; rw [← h]; exact le_of_lt hl
  · rw [h]

/-- the timeout before a delivery is processed: the script calls `put(ack)` and sleeps until the next delivery -/
theorem kstep_scrWait {cfg : Cfg} (fuel : Nat) {s : KS} {a : A} {q : QEntry ℚ} {rest : List (QEntry ℚ)} {x : Ack} {r : Script}
    (hk : KI none s a) (hiT : AInv cfg (aTick a q.time)) (hp : popMin s.agenda = some (q, rest))
    (hph : a.scr = .wait x r q) : StepGoal cfg fuel s (aTick a q.time).S a.txs := by
  have hsc := hk.k.scr
  simp only [kernOf, hph, ScrEv] at hsc
  obtain ⟨hev, hpr, hpe⟩ := hsc
  have ow : Owned s q.ev 2 := Or.inr (Or.inl ⟨hev.1, hev.2.1⟩)
  have harg : argOf s 2 q.ev .none = .value .none := by unfold argOf; rw [hev.1]; simp
  have h1 := scr_start hk hp (by rw [hph]; rfl) hev ow hpe (.value .none)
  have hstep := step_resume (body cfg) fuel hp hev.2.1 hev.2.2 hpr
  rw [harg] at hstep
  have hsT : ScrA (aTick a q.time) (.wait x r q) := by
    have := hiT.scr; rwa [show (aTick a q.time).scr = a.scr from rfl, hph] at this
  obtain ⟨_, w2, w3, w4⟩ := hsT
  have hok : AckOk (aScrRun a q).S x := ⟨w2, w3⟩
  obtain ⟨s2, a2, outs, r2, h2, hack, htxs, rel⟩ := frag_put (cfg := cfg) (a := aScrRun a q) h1 hiT.inv hiT.kind hiT.mpos
    (hiT.tks ▸ hiT.tkeys) x hok
  obtain ⟨S2, run2, scr2, pend2, tks2, tmp2, tph2, tmc2, putAt2, txs2, cur2⟩ := a2
  obtain ⟨rrun, rscr, rtks, rtmp, rtph, rcur, rtok, rsub, rtm, fk, fm, fs, fn, fb, fp, fnow⟩ := rel
  simp only at rrun rscr rtks rtmp rtph rcur rtok rsub fk fm fs fn fb fp fnow htxs hack
  subst rrun rscr rtks rtmp rtph rcur
  have hnow2 : s2.now = q.time := h2.k.now.trans fnow
  obtain ⟨S, ph', e1, e2, ⟨v, e3⟩, e4⟩ := scr_loop_end (body cfg) fuel
    (a := ⟨S2, (aScrRun a q).run, (aScrRun a q).scr, pend2, (aScrRun a q).tks, (aScrRun a q).tmp, (aScrRun a q).tph, tmc2,
      putAt2, txs2, (aScrRun a q).cur⟩)
    (pr := { st := .scr q.time (some x) r, target := some q.ev }) (e := q.ev) (r := r) h2 rfl rfl rfl
    (by rw [hnow2]; exact w4)
  have hS : step (body cfg) (fuel + 1) s = .ok S := by
    have e1' : TimerK.afterBurst (body cfg) 2 fuel { st := .scr q.time (some x) r, target := some q.ev }
        (runBurst 2 (body cfg (.scr q.time (some x) r) (.value .none)) (startSt s q rest 2 (.value .none))) = S := by
      show TimerK.afterBurst (body cfg) 2 fuel _ (runBurst 2 (sndPut cfg (aScrRun a q).S.now x (scrLoop q.time r)) _) = S
      rw [r2]
      have e1c := e1
      rw [hnow2] at e1c
      exact e1c
    rw [hstep, e1']
    exact closeEvent_ok e3
  have hinv2 : Inv S2 := (ackStep_safe hiT.inv x w2).2 _ _ hack
  refine ⟨S, _, [.ack x], outs, hS, e2, ?_, runLts_one hack, htxs,
    fun y hy => by simp only [List.mem_singleton] at hy; subst hy; exact w2⟩
  -- the invariants
  have hrT : RunA (aTick a q.time) a.run := hiT.run
  refine ⟨hinv2, fk.trans hiT.kind, fm.trans hiT.mss, fs.trans hiT.size, hiT.mpos, hiT.spos, hiT.dvd, ?_, ?_, ?_, ?_, rfl, ?_, ?_,
    ?_, ?_, ?_⟩
  · show a.tks = segKeys cfg.mss S2.next_seq
    rw [fn]; exact hiT.tks
  · show cfg.mss ∣ S2.next_seq
    rw [fn]; exact hiT.nmul
  · show S2.send_buffer ≤ cfg.size
    rw [fb]; exact hiT.bufle
  · show (AL.keys S2.timers).Sublist a.tks
    exact rsub.trans hiT.tkeys
  · -- run
    show RunA _ a.run
    cases hrun : a.run with
    | init q0 =>
      rw [hrun] at hrT
      exact ⟨hrT.1.trans fnow.symm, hrT.2.1, fp.trans hrT.2.2⟩
    | blocked g t0 =>
      rw [hrun] at hrT
      obtain ⟨b1, b2, b3, b4⟩ := hrT
      refine ⟨fp.trans b1, by show t0 ≤ S2.now; rw [fnow]; exact b2, ?_, ?_⟩
      · show S2.tokens ≤ pend2.length
        rcases rtok with ⟨p1, t, _⟩ | ⟨q', p1, _, _, t, _⟩
        · rw [p1, t]; exact b3
        · rw [p1, t, List.length_append]
          have : a.S.tokens ≤ a.pend.length := b3
          show a.S.tokens + 1 ≤ a.pend.length + 1
          omega
      · intro hpos
        show putAt2 = S2.now
        rw [fnow]
        rcases rtok with ⟨_, t, pa⟩ | ⟨_, _, _, _, _, pa⟩
        · rw [pa]; exact b4 (by rw [t] at hpos; exact hpos)
        · exact pa
    | handed g t0 q0 =>
      rw [hrun] at hrT
      obtain ⟨d1, d2, d3, d4⟩ := hrT
      refine ⟨d1.trans fnow.symm, d2, fp.trans d3, ?_⟩
      show Num.pymax t0 putAt2 = S2.now
      rw [fnow]
      rcases rtok with ⟨_, _, pa⟩ | ⟨_, _, _, _, _, pa⟩
      · rw [pa]; exact d4
      · rw [pa]; exact pymax_of_le (le_of_pymax d4)
    | ending q0 => rw [hrun] at hrT; exact ⟨fp.trans hrT.1, hrT.2⟩
    | done => rw [hrun] at hrT; exact fp.trans hrT
    | running => rw [hrun] at hrT; exact hrT.elim
  · -- script
    exact scrA_next (by rw [hnow2]; exact w4) e4
  · -- pending puts
    intro u hu
    have hu' : u ∈ pend2 := hu
    show u.time = S2.now ∧ u.prio = NORMAL
    rw [fnow]
    rcases rtok with ⟨p1, _, _⟩ | ⟨q', p1, t1, t2, _, _⟩
    · rw [p1] at hu'; exact hiT.pend u hu'
    · rw [p1] at hu'
      rcases List.mem_append.mp hu' with h | h
      · exact hiT.pend u h
      · simp only [List.mem_singleton] at h
        subst h
        exact ⟨t1, t2⟩
  · -- timers
    intro seq hs
    have ht := hiT.tm seq hs
    rcases rtm seq with ⟨g1, g2⟩ | ⟨g1, g2, g3⟩
    · exact ht.congr g1 g2 rfl fnow
    · cases hg : AL.get? seq (aTick a q.time).S.timers with
      | none =>
        have : AL.get? seq (aScrRun a q).S.timers = none := hg
        rw [this] at g2; cases g2
      | some rr =>
        obtain ⟨l1, l2, l3⟩ := ht.live hg
        have g3' : tmc2 seq = { a.tmc seq with stopped := true, expire := q.time } := g3
        refine TmA.of_dead g1 ⟨by show (tmc2 seq).stopped = true; rw [g3'],
          by show (tmc2 seq).expire ≤ S2.now; rw [g3', fnow]; exact le_refl _, ?_⟩
        have l3' : (match a.tph seq with
          | .init q0 => q0.time = q.time ∧ q0.prio = URGENT ∧ q.time < (a.tmc seq).expire
          | .sleep _ q0 => q0.time = (a.tmc seq).expire ∧ q0.prio = NORMAL
          | _ => False) := l3
        show (match a.tph seq with
          | .init q0 => q0.time = S2.now ∧ q0.prio = URGENT
          | .sleep _ q0 => q0.prio = NORMAL
          | .ending q0 => q0.prio = NORMAL
          | .gone => True
          | .running => False)
        rw [fnow]
        cases hph2 : a.tph seq with
        | init q0 => rw [hph2] at l3'; exact ⟨l3'.1, l3'.2.1⟩
        | sleep t0 q0 => rw [hph2] at l3'; exact l3'.2
        | ending q0 => rw [hph2] at l3'; exact l3'.elim
        | gone => trivial
        | running => rw [hph2] at l3'; exact l3'.elim
  · -- the ghost cell
    show putAt2 ≤ S2.now
    rw [fnow]
    rcases rtok with ⟨_, _, pa⟩ | ⟨_, _, _, _, _, pa⟩
    · rw [pa]; exact hiT.putAt
    · rw [pa]

end SndK
