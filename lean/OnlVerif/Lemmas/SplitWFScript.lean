import OnlVerif.Lemmas.SplitWFProg
import OnlVerif.Lemmas.SplitScript
/-!
# Script programs name no id they have not been given (C03, stage 3)

Every program of the script language satisfies `ScopedProg (IdSt.none SSt)`: event ids flow only from API replies into
the shared slots and from there into API calls; local states hold no id; the value literals of the program text are not
event ids (`ProgsClosed`).  So the domain hypothesis `ScopedRun` holds for every script run from a well-scoped state.
-/

namespace SplitWF

abbrev IS : IdSt SSt := IdSt.none SSt

theorem valBelow_idFree (n : Nat) (v : Val) (h : v.idFree = true) : valBelow n v := by
  cases v <;> first | trivial | cases h

theorem logS_scoped (n : Nat) (what : String) (v : Val) (k : Burst ℚ SSt) (hv : valBelow n v)
    (hk : ∀ m, BurstScoped IS m k) : BurstScoped IS n (logS what v k) :=
  BurstScoped.call n (.log what v) _ hv (fun m _ _ _ => hk m)

theorem bindSlot_scoped (n : Nat) (slot : Nat) (r : Reply) (next : Burst ℚ SSt) (hr : replyBelow n r)
    (hn : ∀ m, BurstScoped IS m next) : BurstScoped IS n (bindSlot slot r next) := by
  cases r with
  | ev e => exact BurstScoped.call n (.store slot (.ev e)) _ hr (fun m _ _ _ => hn m)
  | unit => exact hn n
  | err x => exact hn n
  | val v => exact hn n

theorem withSlot_scoped (n : Nat) (slot : Nat) (next : Burst ℚ SSt) (f : EvId → Burst ℚ SSt)
    (hn : ∀ m, BurstScoped IS m next) (hf : ∀ m e, e < m → BurstScoped IS m (f e)) :
    BurstScoped IS n (withSlot slot next f) := by
  refine BurstScoped.call n (.load slot) _ trivial ?_
  intro m r _ hr
  cases r with
  | val v =>
    cases v with
    | ev e => exact hf m e hr
    | none => exact hn m
    | int i => exact hn m
    | str s => exact hn m
    | cv l => exact hn m
    | preempted a b c => exact hn m
    | frozen s => exact hn m
  | ev e => exact hn m
  | unit => exact hn m
  | err x => exact hn m

theorem loadAll_scoped (sl : List Nat) : ∀ (n : Nat) (acc : List EvId) (k : List EvId → Burst ℚ SSt),
    (∀ e ∈ acc, e < n) → (∀ m es, (∀ e ∈ es, e < m) → BurstScoped IS m (k es)) → BurstScoped IS n (loadAll sl acc k) := by
  induction sl with
  | nil =>
    intro n acc k hacc hk
    exact hk n acc.reverse (fun e he => hacc e (List.mem_reverse.mp he))
  | cons s rest ih =>
    intro n acc k hacc hk
    refine BurstScoped.call n (.load s) _ trivial ?_
    intro m r hnm hr
    have hacc' : ∀ e ∈ acc, e < m := fun e he => Nat.lt_of_lt_of_le (hacc e he) hnm
    cases r with
    | val v =>
      cases v with
      | ev e =>
        refine ih m (e :: acc) k ?_ hk
        intro x hx
        rcases List.mem_cons.mp hx with rfl | hx
        · exact hr
        · exact hacc' x hx
      | none => exact ih m acc k hacc' hk
      | int i => exact ih m acc k hacc' hk
      | str s => exact ih m acc k hacc' hk
      | cv l => exact ih m acc k hacc' hk
      | preempted a b c => exact ih m acc k hacc' hk
      | frozen s => exact ih m acc k hacc' hk
    | ev e => exact ih m acc k hacc' hk
    | unit => exact ih m acc k hacc' hk
    | err x => exact ih m acc k hacc' hk

theorem excBelow_int (n : Nat) (ty : String) (arg : Int) : excBelow n ⟨ty, [.int arg]⟩ := by
  intro v hv
  simp only [List.mem_singleton] at hv
  subst hv
  trivial

theorem execL_scoped (name prog : Nat) : ∀ (is : List (Instr ℚ)) (pc : Nat), (∀ i ∈ is, Instr.closed i = true) →
    ∀ n, BurstScoped IS n (execL name prog pc is) := by
  intro is
  induction is with
  | nil => intro pc _ n; exact BurstScoped.ret n .none trivial
  | cons i is ih =>
    intro pc hc n
    have hnext : ∀ m, BurstScoped IS m (execL name prog (pc + 1) is) :=
      ih (pc + 1) (fun j hj => hc j (List.mem_cons_of_mem _ hj))
    have hi := hc i List.mem_cons_self
    cases i with
    | timeout slot d v =>
      exact BurstScoped.call n (.timeout d v) _ (valBelow_idFree n v hi) (fun m r _ hr => bindSlot_scoped m slot r _ hr hnext)
    | event slot => exact BurstScoped.call n .event _ trivial (fun m r _ hr => bindSlot_scoped m slot r _ hr hnext)
    | succeed slot v =>
      refine withSlot_scoped n slot _ _ hnext ?_
      intro m e he
      exact BurstScoped.call m (.succeed e v) _ ⟨he, valBelow_idFree m v hi⟩ (fun m' _ _ _ => hnext m')
    | fail slot ty arg =>
      refine withSlot_scoped n slot _ _ hnext ?_
      intro m e he
      exact BurstScoped.call m (.fail e ⟨ty, [.int arg]⟩) _ ⟨he, excBelow_int m ty arg⟩ (fun m' _ _ _ => hnext m')
    | spawn slot p nm =>
      exact BurstScoped.call n (Call.spawn ({ name := nm, prog := p, pc := 0 } : SSt)) _ trivial
        (fun m r _ hr => bindSlot_scoped m slot r _ hr hnext)
    | interrupt slot cause =>
      refine withSlot_scoped n slot _ _ hnext ?_
      intro m e _
      exact BurstScoped.call m (.interrupt e (.int cause)) _ trivial (fun m' _ _ _ => hnext m')
    | probe slot tag =>
      refine withSlot_scoped n slot _ _ hnext ?_
      intro m e _
      exact BurstScoped.call m (.probe e tag) _ trivial (fun m' _ _ _ => hnext m')
    | log tag => exact logS_scoped n "log" (.int tag) _ trivial hnext
    | yield slot h =>
      refine withSlot_scoped n slot _ _ hnext ?_
      intro m e he
      exact BurstScoped.yield m e _ he trivial
    | cond all slot ops =>
      refine loadAll_scoped ops n [] _ (fun e he => by cases he) ?_
      intro m es hes
      exact BurstScoped.call m (.cond all es) _ hes (fun m' r _ hr => bindSlot_scoped m' slot r _ hr hnext)
    | request slot res prio pre =>
      exact BurstScoped.call n (.request res prio pre) _ trivial (fun m r _ hr => bindSlot_scoped m slot r _ hr hnext)
    | release slot res rs =>
      refine withSlot_scoped n rs _ _ hnext ?_
      intro m e he
      exact BurstScoped.call m (.release res e) _ he (fun m' r _ hr => bindSlot_scoped m' slot r _ hr hnext)
    | cancel slot =>
      refine withSlot_scoped n slot _ _ hnext ?_
      intro m e _
      exact BurstScoped.call m (.cancel e) _ trivial (fun m' _ _ _ => hnext m')
    | exit slot res =>
      refine withSlot_scoped n slot _ _ hnext ?_
      intro m e he
      refine BurstScoped.call m (.cancel e) _ trivial ?_
      intro m' r hm' _
      have he' : e < m' := Nat.lt_of_lt_of_le he hm'
      cases r with
      | err x => exact hnext m'
      | ev e' => exact BurstScoped.call m' (.release res e) _ he' (fun m'' _ _ _ => hnext m'')
      | unit => exact BurstScoped.call m' (.release res e) _ he' (fun m'' _ _ _ => hnext m'')
      | val v => exact BurstScoped.call m' (.release res e) _ he' (fun m'' _ _ _ => hnext m'')
    | cput slot res a => exact BurstScoped.call n (.cput res a) _ trivial (fun m r _ hr => bindSlot_scoped m slot r _ hr hnext)
    | cget slot res a => exact BurstScoped.call n (.cget res a) _ trivial (fun m r _ hr => bindSlot_scoped m slot r _ hr hnext)
    | sput slot res it => exact BurstScoped.call n (.sput res it) _ trivial (fun m r _ hr => bindSlot_scoped m slot r _ hr hnext)
    | sget slot res f => exact BurstScoped.call n (.sget res f) _ trivial (fun m r _ hr => bindSlot_scoped m slot r _ hr hnext)
    | ret v => exact BurstScoped.ret n v (valBelow_idFree n v hi)
    | raise ty arg => exact BurstScoped.raise n _ (excBelow_int n ty arg)
    | retev slot =>
      refine withSlot_scoped n slot _ _ (fun m => BurstScoped.ret m .none trivial) ?_
      intro m e he
      exact BurstScoped.ret m (.ev e) he

theorem cont_scoped (progs : Progs ℚ) (h : ProgsClosed progs) (st : SSt) (n : Nat) : BurstScoped IS n (cont progs st) := by
  unfold cont
  apply execL_scoped
  intro i hi
  exact h st.prog i (List.mem_of_mem_drop hi)

/-- **every script program names only ids it has been given** -/
theorem script_scopedProg (progs : Progs ℚ) (h : ProgsClosed progs) : ScopedProg IS (_root_.body progs) := by
  intro n st r _ hr
  cases r with
  | start => exact logS_scoped n "start" .none _ trivial (cont_scoped progs h st)
  | value v => exact logS_scoped n "got" v _ hr (cont_scoped progs h st)
  | exc x =>
    show BurstScoped IS n (logS s!"exc {x.ty}" (x.args.headD .none) _)
    have hh : valBelow n (x.args.headD .none) := by
      have hx : excBelow n x := hr
      cases ha : x.args with
      | nil => trivial
      | cons a as => exact hx a (by rw [ha]; exact List.mem_cons_self)
    refine BurstScoped.call n _ _ hh ?_
    intro m _ hnm _
    cases hp : st.pend with
    | none => exact cont_scoped progs h st m
    | some sh =>
      obtain ⟨slot, hd⟩ := sh
      split
      · refine withSlot_scoped m _ _ _ (cont_scoped progs h st) ?_
        intro m' e he
        exact BurstScoped.yield m' e _ he trivial
      · exact BurstScoped.ret m (.int 0) trivial
      · exact BurstScoped.raise m x (excBelow.mono hr hnm)
      · split
        · exact cont_scoped progs h _ m
        · exact cont_scoped progs h st m
      · exact cont_scoped progs h st m

/-- the domain hypothesis holds for every script run from a well-scoped state -/
theorem script_scopedRun (progs : Progs ℚ) (h : ProgsClosed progs) (fuel : Nat) (s0 : KState ℚ SSt) (h0 : WS IS s0) :
    ScopedRun IS (_root_.body progs) fuel s0 :=
  ScopedProg.run (script_scopedProg progs h) fuel s0 h0

end SplitWF
