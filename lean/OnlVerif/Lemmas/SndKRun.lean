import OnlVerif.Lemmas.SndKStepAck
/-!
# The TCP sender on the kernel model: one iteration of the sending loop of `run`
-/

set_option linter.unusedSimpArgs false

namespace SndK
open SenderOnK TcpSender TcpScalar
open TimerK (lookup)

/-- what holds of a configuration while `run` executes its sending loop: `AInv` without the clause about `run` itself -/
structure ARun (cfg : Cfg) (a : A) : Prop where
  inv : Inv a.S
  kind : a.S.kind = cfg.kind
  mss : a.S.mss = cfg.mss
  size : a.S.size = some cfg.size
  mpos : 0 < cfg.mss
  spos : 0 < cfg.size
  dvd : cfg.mss ∣ cfg.size
  tks : a.tks = segKeys cfg.mss a.S.next_seq
  nmul : cfg.mss ∣ a.S.next_seq
  bufle : a.S.send_buffer ≤ cfg.size
  tkeys : (AL.keys a.S.timers).Sublist a.tks
  proc : a.S.proc = .runnable
  scr : ScrA a a.scr
  pend : ∀ u ∈ a.pend, u.time = a.S.now ∧ u.prio = NORMAL
  tm : ∀ seq ∈ a.tks, TmA a seq
  putAt : a.putAt ≤ a.S.now

theorem segKeys_succ {mss next : Nat} (hm : 0 < mss) (hd : mss ∣ next) :
    segKeys mss (next + mss) = segKeys mss next ++ [next] := by
  obtain ⟨k, rfl⟩ := hd
  unfold segKeys
  have e1 : (mss * k + mss) / mss = k + 1 := by
    rw [show mss * k + mss = mss * (k + 1) by ring]
    exact Nat.mul_div_cancel_left _ hm
  have e2 : mss * k / mss = k := Nat.mul_div_cancel_left _ hm
  rw [e1, e2, List.range_succ, List.map_append]
  simp [Nat.mul_comm]

theorem not_mem_segKeys {mss next : Nat} (hm : 0 < mss) : next ∉ segKeys mss next := by
  unfold segKeys
  simp only [List.mem_map, List.mem_range, not_exists, not_and]
  intro i hi he
  have : i * mss < next := by
    calc i * mss < (next / mss) * mss := Nat.mul_lt_mul_of_pos_right hi hm
    _ ≤ next := Nat.div_mul_le_self _ _
  omega

theorem mem_segKeys_lt {mss next k : Nat} (h : k ∈ segKeys mss next) (hm : 0 < mss) : k < next := by
  unfold segKeys at h
  simp only [List.mem_map, List.mem_range] at h
  obtain ⟨i, hi, rfl⟩ := h
  calc i * mss < (next / mss) * mss := Nat.mul_lt_mul_of_pos_right hi hm
  _ ≤ next := Nat.div_mul_le_self _ _

variable {s : KS} {a : A}

/-- `while self.next_seq >= self.send_buffer: self.send_buffer += packet_size` -/
theorem frag_refill {cfg : Cfg} {act : Option EvId} {p : EvId} (h : KI act s a) (hr : ARun cfg a)
    (hnd : ¬ (cfg.size != 0 && decide (a.S.next_seq ≥ cfg.size)) = true) :
    ∃ s', (∀ cont : Nat → B ℚ, runBurst p (sndRefill cfg a.S.next_seq (a.S.next_seq + 2) a.S.send_buffer cont) s =
        runBurst p (cont a.S.refill.send_buffer) s') ∧ KI act s' { a with S := a.S.refill } ∧
      s'.events.size = s.events.size ∧ s'.eid = s.eid := by
  have hps : a.S.pktSize = pktSize cfg a.S.next_seq := by
    unfold Sender.pktSize pktSize
    rw [hr.size, hr.mss]
  have hlt : a.S.next_seq < cfg.size := by
    have h0 : (cfg.size != 0) = true := by
      have := hr.spos
      simp only [bne_iff_ne, ne_eq]; omega
    rw [h0, Bool.true_and] at hnd
    simpa using hnd
  have hpos : 0 < pktSize cfg a.S.next_seq := by
    unfold pktSize
    have h0 : (cfg.size != 0) = true := by
      have := hr.spos
      simp only [bne_iff_ne, ne_eq]; omega
    rw [h0, if_pos rfl]
    have := hr.mpos
    omega
  unfold Sender.refill
  by_cases hge : a.S.next_seq ≥ a.S.send_buffer
  · rw [if_pos hge]
    refine ⟨_, fun cont => ?_, (h.set_buf (a.S.send_buffer + a.S.pktSize)), rfl, rfl⟩
    have hn2 : ¬ a.S.next_seq ≥ a.S.send_buffer + pktSize cfg a.S.next_seq := by
      have := hr.inv.buf; omega
    show runBurst p (sndRefill cfg a.S.next_seq (a.S.next_seq + 1 + 1) a.S.send_buffer cont) s = _
    rw [sndRefill, if_pos hge, rb_storeNat, sndRefill, if_neg hn2, hps]
  · rw [if_neg hge]
    refine ⟨s, fun cont => ?_, h, rfl, rfl⟩
    show runBurst p (sndRefill cfg a.S.next_seq (a.S.next_seq + 1 + 1) a.S.send_buffer cont) s = _
    rw [sndRefill, if_neg hge]

/-- the flow-done test of the LTS is the test of the program -/
theorem flowDone_eq {cfg : Cfg} (hr : ARun cfg a) :
    a.S.flowDone = (cfg.size != 0 && decide (a.S.next_seq ≥ cfg.size)) := by
  unfold Sender.flowDone
  rw [hr.size]

/-- the send guard of the LTS after the refill is the guard the program evaluates -/
theorem guard_eq {cfg : Cfg} (hr : ARun cfg a) :
    a.S.refill.guard = TCPPacketGenerator.run_send_guard (Num.ofNat a.S.next_seq : ℚ) (Num.ofNat cfg.mss)
      (Num.ofNat a.S.refill.send_buffer) (Num.ofNat a.S.last_ack) a.S.cc.cwnd := by
  obtain ⟨_, fb, _, _, _, ff, fg, fh, _, _, _⟩ := refill_frame a.S
  unfold Sender.guard
  rw [ff, fh, fg, fb, hr.mss]

/-- the configuration after one segment has been sent (`P`, `eid`: the next free event index and agenda counter) -/
def aEmit (a : A) (mss : Nat) (P eid : Nat) : A :=
  { a with
    S := { a.S.refill with sent := AL.set a.S.next_seq a.S.now a.S.refill.sent, next_seq := a.S.next_seq + mss,
                            timers := AL.set a.S.next_seq (Sender.arm a.S.now a.S.est.rto) a.S.refill.timers }
    txs := a.txs ++ [(a.S.next_seq, a.S.now)]
    tks := a.tks ++ [a.S.next_seq]
    tmp := upd a.tmp a.S.next_seq P
    tph := upd a.tph a.S.next_seq (.init ⟨a.S.now, URGENT, eid, P + 1⟩)
    tmc := upd a.tmc a.S.next_seq ⟨false, a.S.now + a.S.est.rto, a.S.est.rto, a.S.now⟩ }

/-- **one iteration of the sending loop that sends a segment** -/
theorem run_iter_sent {cfg : Cfg} (h : KI (some 0) s a) (hr : ARun cfg a) (n : Nat)
    (hnd : ¬ (cfg.size != 0 && decide (a.S.next_seq ≥ cfg.size)) = true) (hg : a.S.refill.guard = true) :
    ∃ s1, runBurst 0 (sndRun cfg a.S.now (n + 1)) s = runBurst 0 (sndRun cfg a.S.now n) s1 ∧
      KI (some 0) s1 (aEmit a cfg.mss s.events.size s.eid) ∧
      a.S.sendStep = .sent (aEmit a cfg.mss s.events.size s.eid).S
        { seq := a.S.next_seq, size := cfg.mss, stamp := a.S.now, kind := .new } := by
  obtain ⟨fa, fb, fc, fd, fe, ff, fg, fh, fi, fj, fk⟩ := refill_frame a.S
  obtain ⟨s1, r1, h1, hz1, hz2⟩ := frag_refill (p := 0) h hr hnd
  have h2 := h1.set_sent a.S.next_seq a.S.now
  have h3 := h2.log 0 a.S.next_seq
  have h4 := h3.set_next (a.S.next_seq + cfg.mss)
  have hrto : 0 < a.S.est.rto := hr.inv.rto_pos
  have hnx : a.S.next_seq ∉ a.tks := by rw [hr.tks]; exact not_mem_segKeys hr.mpos
  obtain ⟨s5, r5, h5⟩ := frag_mkTimer (seq := a.S.next_seq) (tmo := a.S.est.rto) h4 hnx hrto
  have h6 := h5.set_tin a.S.next_seq (Sender.arm a.S.now a.S.est.rto)
  refine ⟨_, ?_, h6.congr ?_, ?_⟩
  · show runBurst 0 (loadNat cNext _) s = _
    rw [rb_loadNat h.c.next, if_neg hnd, rb_loadNat h.c.buf, r1, rb_loadNat h1.c.lack,
      rb_loadTime (cCwnd_cell h1.c.cc)]
    have hg' : TCPPacketGenerator.run_send_guard (Num.ofNat a.S.next_seq : ℚ) (Num.ofNat cfg.mss)
        (Num.ofNat a.S.refill.send_buffer) (Num.ofNat a.S.refill.last_ack) a.S.refill.cc.cwnd = true := by
      rw [fg, fb, ← guard_eq hr]; exact hg
    rw [if_pos hg', rb_storeTime, rb_log, rb_storeNat, rb_loadTime (x := a.S.est.rto) (by rw [h4.c.rto]; exact congrArg _ (by rw [fe]))]
    have := r5 (storeNat (cTmIn a.S.next_seq) 1 (sndRun cfg a.S.now n))
    rw [show ({ a with S := a.S.refill } : A).S.now = a.S.now from fi] at this
    rw [this, rb_storeNat]
    rfl
  · unfold aEmit
    have e1 : ∀ (S : KS) (o : Obs ℚ), (S.emit o).events = S.events := fun _ _ => rfl
    have e2 : ∀ (S : KS) (o : Obs ℚ), (S.emit o).eid = S.eid := fun _ _ => rfl
    simp only [fi, fe, ff, setCell_events, setCell_eid, e1, e2, hz1, hz2]
  · unfold Sender.sendStep
    have hfd : a.S.flowDone = false := by rw [flowDone_eq hr]; simpa using hnd
    rw [hfd]
    simp only [Bool.false_eq_true, if_false, hg, if_true]
    rw [emit_ok (s := a.S.refill) (by rw [fe]; exact hrto)]
    simp only [aEmit, ff, fh, fi, fe, hr.mss]

end SndK
