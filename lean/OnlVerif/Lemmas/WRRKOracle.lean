import OnlVerif.Lemmas.WRRKRefine
import Mathlib.Data.List.Nodup
/-!
# The WRR scheduler on the kernel model: the put / serve / out history of every run passes the property's oracle

`OInv` relates the state of the oracle (`WRROnK.ostep`) after the history so far to the configuration: its waiting queues are
the per-flow stores (plus the packet `run` has taken and not yet printed), its packet in transmission is the sender's, and
what the next `serve` / `out` observation must satisfy is already determined by the phase of `run`.
-/

set_option linter.unusedSimpArgs false

namespace WRRK
open WRROnK QEntry

variable (F : Nat) (flow size : Int → Nat) (cfg : WRR.Cfg ℚ)

/-- the packet `run` has taken from `stores[f]` whose `serve` observation is still to come -/
def heldH (a : A) (f : Nat) : List Int :=
  match a.run with
  | .H _ _ _ id _ => if flow id = f then [id] else []
  | _ => []

/-- the arrivals the source has still to make -/
def srcFuture (now : ℚ) : SPhase → List (Int × ℚ)
  | .init _ arr => arrivalsFrom now arr
  | .wait id rest q => (id, q.time) :: arrivalsFrom q.time rest
  | _ => []

/-- the `put` observations of a history -/
def obsPuts : List (HEv ℚ) → List (Int × ℚ)
  | [] => []
  | .put id t :: r => (id, t) :: obsPuts r
  | _ :: r => obsPuts r

/-- the decision that led to the packet of entry `m`, iteration `jj`, seen from the oracle's visit `(cm, cj)`: the visit goes
on, or it is over and every entry in between has nothing waiting from an earlier instant -/
def Decided (now : ℚ) (o : OSt ℚ) (m jj : Nat) : Prop :=
  (m = o.cm ∧ jj = o.cj ∧ o.cj < weightAt cfg.weights o.cm) ∨
  (jj = 0 ∧ (m ≠ o.cm ∨ weightAt cfg.weights o.cm ≤ o.cj) ∧
    (weightAt cfg.weights o.cm ≤ o.cj ∨ ∀ x ∈ o.waiting (flowAt cfg.weights o.cm), x.2 = now) ∧
    ∀ j' ∈ skipped cfg.weights.length (o.cm + 1) m, ∀ x ∈ o.waiting (flowAt cfg.weights j'), x.2 = now)

/-- what the phase of `run` says about the oracle -/
def PhO (now : ℚ) (o : OSt ℚ) : RPhase → Prop
  | .init _ => o.busy = none ∧ (∀ f, f < F → ∀ x ∈ o.waiting f, x.2 = now) ∧ o.cm = 0 ∧ o.cj = 0
  | .W _ => o.busy = none ∧ (∀ f, f < F → ∀ x ∈ o.waiting f, x.2 = now) ∧ o.cm = 0 ∧ o.cj = 0
  | .K _ _ => o.busy = none ∧ (∀ f, f < F → ∀ x ∈ o.waiting f, x.2 = now) ∧ o.cm = 0 ∧ o.cj = 0
  | .H _ m jj _ _ => o.busy = none ∧ (o.lastOut = some now ∨ ∀ f, f < F → ∀ x ∈ o.waiting f, x.2 = now) ∧
      Decided cfg now o m jj
  | .S _ m jj id _ => o.busy = some (id, now) ∧ o.cm = m ∧ o.cj = jj + 1
  | .T _ _ m jj id q => ∃ s0, o.busy = some (id, s0) ∧ q.time = s0 + txTime size cfg.rate id ∧ o.cm = m ∧ o.cj = jj + 1
  | .F _ m jj _ _ => o.busy = none ∧ o.lastOut = some now ∧ o.cm = m ∧ o.cj = jj + 1

/-- the oracle has accepted the history and is in the state the configuration stands for -/
structure OInv (arrivals : List (ℚ × Int)) (a : A) (now : ℚ) (hist : List (HEv ℚ)) (o : OSt ℚ) : Prop where
  run : orun F flow size cfg oInit hist = some o
  wq : ∀ f, f < F → (o.waiting f).map (·.1) = heldH flow a f ++ a.items f
  wt : ∀ f, f < F → ∀ x ∈ o.waiting f, x.2 ≤ now
  ph : PhO F size cfg now o a.run
  fut : obsPuts hist ++ srcFuture now a.src = arrivalsFrom 0 arrivals

variable {F flow size cfg}

theorem orun_append (o : OSt ℚ) (l1 l2 : List (HEv ℚ)) :
    orun F flow size cfg o (l1 ++ l2) = (orun F flow size cfg o l1).bind fun o' => orun F flow size cfg o' l2 := by
  induction l1 generalizing o with
  | nil => rfl
  | cons x r ih =>
    simp only [List.cons_append, orun]
    cases ostep F flow size cfg o x with
    | none => rfl
    | some o' => simp [ih]

theorem obsPuts_append (l1 l2 : List (HEv ℚ)) : obsPuts (l1 ++ l2) = obsPuts l1 ++ obsPuts l2 := by
  induction l1 with
  | nil => rfl
  | cons x r ih => cases x <;> simp [obsPuts, ih]

theorem eqT_iff (x y : ℚ) : eqT x y ↔ x = y := by
  unfold eqT
  constructor
  · intro h; exact le_antisymm (not_lt.mp h.2) (not_lt.mp h.1)
  · rintro rfl; exact ⟨lt_irrefl _, lt_irrefl _⟩

theorem srcFuture_srcNext (t : ℚ) (eid ev : Nat) (arr : List (ℚ × Int)) (now : ℚ) :
    srcFuture now (srcNext t eid ev arr) = arrivalsFrom t arr := by
  cases arr with
  | nil => rfl
  | cons x r => obtain ⟨gap, id⟩ := x; rfl

variable {arrivals : List (ℚ × Int)} {a : A} {now : ℚ} {q : QEntry ℚ} {hist : List (HEv ℚ)} {o : OSt ℚ}

/-- a waiting queue whose ids are `[]` is empty -/
theorem waiting_nil (ho : OInv F flow size cfg arrivals a now hist o) {f : Nat} (hf : f < F) (hh : heldH flow a f = [])
    (hi : a.items f = []) : o.waiting f = [] := by
  have := ho.wq f hf
  rw [hh, hi] at this
  exact List.map_eq_nil_iff.mp this

/-- **letting the clock advance to the next entry changes nothing** -/
theorem OInv.advance (hi : AInv flow F cfg a now) (hq : IsMin a q) (ho : OInv F flow size cfg arrivals a now hist o) :
    OInv F flow size cfg arrivals a q.time hist o := by
  rcases eq_or_lt_of_le (hi.now_le hq) with h | h
  · rw [← h]; exact ho
  have hne : ∀ x ∈ a.entries, x.time ≠ now := fun x hx hxt => absurd (hi.time_eq hq hx hxt) (ne_of_gt h)
  have hp := hi.run
  have hph := ho.ph
  refine ⟨ho.run, ho.wq, fun f hf x hx => le_trans (ho.wt f hf x hx) (le_of_lt h), ?_, ?_⟩
  · cases hr : a.run with
    | init q0 => rw [hr] at hp; exact absurd hp.1 (hne q0 (mem_run (by simp [hr, RPhase.entries])))
    | K g q0 => rw [hr] at hp; exact absurd hp.1 (hne q0 (mem_run (by simp [hr, RPhase.entries])))
    | H g m jj id q0 => rw [hr] at hp; exact absurd hp.1 (hne q0 (mem_run (by simp [hr, RPhase.entries])))
    | S p m jj id q0 => rw [hr] at hp; exact absurd hp.1 (hne q0 (mem_run (by simp [hr, RPhase.entries])))
    | F p m jj id q0 => rw [hr] at hp; exact absurd hp.1 (hne q0 (mem_run (by simp [hr, RPhase.entries])))
    | T p t m jj id q0 => rw [hr] at hph; exact hph
    | W g =>
      rw [hr] at hp hph
      have htk : a.tokens = 0 := by
        by_contra hc
        obtain ⟨u, hu⟩ := hp.2.1 hc
        exact hne u (mem_pend hu) (hi.pend _ hu).1
      refine ⟨hph.1, ?_, hph.2.2⟩
      intro f hf x hx
      have := waiting_nil ho hf (by simp [heldH, hr]) (hp.1 htk f hf)
      rw [this] at hx; cases hx
  · have hs := hi.src
    cases hsrc : a.src with
    | init q0 arr => rw [hsrc] at hs; exact absurd hs.1 (hne q0 (mem_src (by simp [hsrc, SPhase.entries])))
    | wait id rest q0 => have := ho.fut; rw [hsrc] at this; exact this
    | ending q0 => have := ho.fut; rw [hsrc] at this; exact this
    | done => have := ho.fut; rw [hsrc] at this; exact this

/-! ## what a hit of the scan means -/

theorem mem_skipped_lt {n c j j' : Nat} (hj : j < n) (h : j' ∈ skipped n c j) : j' < n := by
  unfold skipped at h
  split at h
  · have := List.mem_range'_1.mp h; omega
  · rcases List.mem_append.mp h with h | h
    · have := List.mem_range'_1.mp h; omega
    · have := List.mem_range.mp h; omega

theorem getElem?_drop_sub {β : Type} (l : List β) (p j' : Nat) (h : p ≤ j') : (l.drop p)[j' - p]? = l[j']? := by
  rw [List.getElem?_drop]; congr 1; omega

/-- **the decision of `run`**: resuming at entry `m0`, iteration `j0`, it either goes on with this visit, or the visit is over
(allowance used up, or the class not backlogged) and no entry the cyclic order visits before the entry it serves has a
positive weight and a backlog -/
theorem loop_hit_cases {a : A} {ws : List (Nat × Nat)} {m0 j0 m' jj' f : Nat} (h : a.loop F ws m0 j0 = .hit m' jj' f) :
    (m' = m0 ∧ jj' = j0) ∨
    (jj' = 0 ∧ (m' ≠ m0 ∨ ∀ f0 w0, ws[m0]? = some (f0, w0) → w0 ≤ j0) ∧
      (∀ f0 w0, ws[m0]? = some (f0, w0) → w0 ≤ j0 ∨ ¬ 0 < a.cnt f0) ∧
      ∀ j' ∈ skipped ws.length (m0 + 1) m', ∀ e, ws[j']? = some e → ¬ (0 < e.2 ∧ 0 < a.cnt e.1)) := by
  have hhead : ∀ {P : Nat → Nat → Prop}, (∀ f0 w0, (ws.drop m0)[0]? = some (f0, w0) → P f0 w0) →
      ∀ f0 w0, ws[m0]? = some (f0, w0) → P f0 w0 := by
    intro P hP f0 w0 h0
    exact hP f0 w0 (by rw [List.getElem?_drop]; simpa using h0)
  unfold A.loop at h
  cases h1 : firstHit a.cnt m0 j0 (ws.drop m0) with
  | some jf =>
    rw [h1] at h
    obtain ⟨m1, j1, f1⟩ := jf
    simp only [LoopEnd.hit.injEq] at h
    obtain ⟨rfl, rfl, rfl⟩ := h
    obtain ⟨hle, -, -, hc⟩ := firstHit_spec _ _ _ _ _ _ _ h1
    rcases hc with hc | ⟨hlt, hj, hh, hb⟩
    · exact Or.inl hc
    · refine Or.inr ⟨hj, Or.inl (by omega), ?_, ?_⟩
      · intro f0 w0 h0
        have := hhead (P := fun f0 w0 => ¬ (j0 < w0 ∧ 0 < a.cnt f0)) hh f0 w0 h0
        by_cases hw : w0 ≤ j0
        · exact Or.inl hw
        · exact Or.inr (fun hp => this ⟨by omega, hp⟩)
      · intro j' hj' e he
        unfold skipped at hj'
        rw [if_pos (by omega)] at hj'
        have hr := List.mem_range'_1.mp hj'
        exact hb (j' - m0) (by omega) (by omega) e (by rw [getElem?_drop_sub _ _ _ (by omega)]; exact he)
  | none =>
    rw [h1] at h
    simp only at h
    by_cases ht : a.total F = 0
    · rw [if_pos ht] at h; cases h
    · rw [if_neg ht] at h
      cases h2 : firstHit a.cnt 0 0 ws with
      | none => rw [h2] at h; cases h
      | some jf =>
        rw [h2] at h
        obtain ⟨m1, j1, f1⟩ := jf
        simp only [LoopEnd.hit.injEq] at h
        obtain ⟨rfl, rfl, rfl⟩ := h
        obtain ⟨-, hj, ⟨w, g1, gw⟩, g2, g3⟩ := firstHit_spec0 _ _ _ _ _ _ h2
        simp only [Nat.sub_zero] at g1 g3
        obtain ⟨hh, htail⟩ := firstHit_none _ _ _ _ h1
        have hlater : ∀ k, m0 < k → ∀ e, ws[k]? = some e → ¬ (0 < e.2 ∧ 0 < a.cnt e.1) := by
          intro k hk e he
          apply htail e
          rw [List.tail_drop]
          exact List.mem_of_getElem? (by rw [getElem?_drop_sub _ _ _ (show m0 + 1 ≤ k by omega)]; exact he)
        have hle : m1 ≤ m0 := by
          by_contra hgt
          exact hlater m1 (by omega) _ g1 ⟨gw, g2⟩
        refine Or.inr ⟨hj, ?_, ?_, ?_⟩
        · by_cases hmm : m1 = m0
          · right
            intro f0 w0 h0
            subst hmm
            rw [g1] at h0
            simp only [Option.some.injEq, Prod.mk.injEq] at h0
            obtain ⟨rfl, rfl⟩ := h0
            have := hhead (P := fun f0 w0 => ¬ (j0 < w0 ∧ 0 < a.cnt f0)) hh _ _ g1
            by_contra hw
            exact this ⟨by omega, g2⟩
          · exact Or.inl hmm
        · intro f0 w0 h0
          have := hhead (P := fun f0 w0 => ¬ (j0 < w0 ∧ 0 < a.cnt f0)) hh f0 w0 h0
          by_cases hw : w0 ≤ j0
          · exact Or.inl hw
          · exact Or.inr (fun hp => this ⟨by omega, hp⟩)
        · intro j' hj' e he
          unfold skipped at hj'
          rw [if_neg (by omega)] at hj'
          rcases List.mem_append.mp hj' with hm | hm
          · exact hlater j' (by have := (List.mem_range'_1.mp hm).1; omega) e he
          · exact g3 j' (List.mem_range.mp hm) e he

/-! ## every configuration step keeps the oracle's invariant -/

theorem heldH_none {a : A} (h : ∀ g m jj id q0, a.run ≠ .H g m jj id q0) (f : Nat) : heldH flow a f = [] := by
  unfold heldH
  cases hr : a.run <;> first | rfl | exact absurd hr (h _ _ _ _ _)

theorem getD_of_lt (ws : List (Nat × Nat)) {j : Nat} (h : j < ws.length) : ws[j]? = some (ws.getD j (0, 0)) := by
  rw [List.getD_eq_getElem?_getD, List.getElem?_eq_getElem h]; rfl

theorem weightAt_of_ge (ws : List (Nat × Nat)) {j : Nat} (h : ws.length ≤ j) : weightAt ws j = 0 := by
  unfold weightAt
  rw [List.getD_eq_getElem?_getD, List.getElem?_eq_none_iff.mpr h]; rfl

/-- the new configuration after the server has taken the head of `stores[f]`: the oracle does not move -/
theorem oinv_hit (hi : AInv flow F cfg a q.time) (ho : OInv F flow size cfg arrivals a q.time hist o) {m jj f : Nat} {id : Int}
    {is : List Int} (hh : ∀ g m jj id q0, a.run ≠ .H g m jj id q0) (hbusy : o.busy = none)
    (hwc : o.lastOut = some q.time ∨ ∀ f, f < F → ∀ x ∈ o.waiting f, x.2 = q.time)
    (hdec : Decided cfg q.time o m jj) (hf : f < F) (hit : a.items f = id :: is) :
    OInv F flow size cfg arrivals { a with run := .H n m jj id ⟨q.time, NORMAL, e, n⟩, items := upd a.items f is } q.time hist o := by
  have hfl : flow id = f := hi.flowOK f hf id (by rw [hit]; simp)
  refine ⟨ho.run, ?_, ho.wt, ⟨hbusy, hwc, hdec⟩, ho.fut⟩
  intro f' hf'
  have := ho.wq f' hf'
  rw [heldH_none hh] at this
  simp only [heldH, hfl]
  by_cases hff : f = f'
  · subst hff
    simp only [if_true, upd_same]
    rw [this, hit]; rfl
  · simp only [hff, if_false, upd_ne _ _ _ _ (Ne.symm hff)]
    exact this

/-- nothing waits in the store of a flow that is not backlogged while `run` holds no packet -/
theorem waiting_nil_of_cnt (hi : AInv flow F cfg a q.time) (ho : OInv F flow size cfg arrivals a q.time hist o)
    (hh : ∀ g m jj id q0, a.run ≠ .H g m jj id q0) (hheld : a.run.held = none) {f : Nat} (hf : f < F) (hc : ¬ 0 < a.cnt f) :
    o.waiting f = [] := by
  have h0 := cnt_nonneg hi hf
  have hcn := hi.cntOK _ hf
  simp only [heldCnt, hheld] at hcn
  have hem : a.items f = [] := List.eq_nil_of_length_eq_zero (by omega)
  exact waiting_nil ho hf (heldH_none hh _) hem

/-- what the oracle knows of a decision taken after a transmission (its visit is the loop's resume point) -/
theorem decided_of_loop (hi : AInv flow F cfg a q.time) (ho : OInv F flow size cfg arrivals a q.time hist o)
    (hh : ∀ g m jj id q0, a.run ≠ .H g m jj id q0) (hheld : a.run.held = none) {m' jj' f : Nat}
    (hs : a.loop F cfg.weights o.cm o.cj = .hit m' jj' f) : Decided cfg q.time o m' jj' := by
  obtain ⟨⟨w, hw1, hw2⟩, hpos⟩ := loop_hit_spec hs
  have hmn : m' < cfg.weights.length := (List.getElem?_eq_some_iff.mp hw1).1
  rcases loop_hit_cases hs with ⟨rfl, rfl⟩ | ⟨hj, hne, hov, hsk⟩
  · left
    refine ⟨rfl, rfl, ?_⟩
    have : weightAt cfg.weights o.cm = w := by
      unfold weightAt
      rw [List.getD_eq_getElem?_getD, hw1]; rfl
    rw [this]; exact hw2
  · right
    refine ⟨hj, ?_, ?_, ?_⟩
    · rcases hne with hne | hne
      · exact Or.inl hne
      · by_cases hlt : o.cm < cfg.weights.length
        · exact Or.inr (hne _ _ (getD_of_lt _ hlt))
        · exact Or.inr (by rw [weightAt_of_ge _ (by omega)]; exact Nat.zero_le _)
    · by_cases hlt : o.cm < cfg.weights.length
      · rcases hov _ _ (getD_of_lt _ hlt) with h1 | h1
        · exact Or.inl h1
        · right
          intro x hx
          have hfF : flowAt cfg.weights o.cm < F := entry_lt hi (List.mem_of_getElem? (getD_of_lt _ hlt))
          rw [waiting_nil_of_cnt hi ho hh hheld hfF h1] at hx
          cases hx
      · exact Or.inl (by rw [weightAt_of_ge _ (by omega)]; exact Nat.zero_le _)
    · intro j' hj' x hx
      have hlt := mem_skipped_lt hmn hj'
      have he := getD_of_lt cfg.weights hlt
      have hfF : flowAt cfg.weights j' < F := entry_lt hi (List.mem_of_getElem? he)
      have hnp := hsk j' hj' _ he
      have hwpos := hi.table.2 _ (List.mem_of_getElem? he)
      rw [waiting_nil_of_cnt hi ho hh hheld hfF (fun hp => hnp ⟨hwpos, hp⟩)] at hx
      cases hx

/-- what the oracle knows of a decision taken after a wake-up: everything that waits was put in this instant -/
theorem decided_of_wake (hall : ∀ f, f < F → ∀ x ∈ o.waiting f, x.2 = q.time) (hi : AInv flow F cfg a q.time)
    (hcm : o.cm = 0) (hcj : o.cj = 0) {m' jj' f : Nat} (hs : a.loop F cfg.weights 0 0 = .hit m' jj' f) :
    Decided cfg q.time o m' jj' := by
  obtain ⟨⟨w, hw1, hw2⟩, hpos⟩ := loop_hit_spec hs
  have hmn : m' < cfg.weights.length := (List.getElem?_eq_some_iff.mp hw1).1
  have hallAt : ∀ j', j' < cfg.weights.length → ∀ x ∈ o.waiting (flowAt cfg.weights j'), x.2 = q.time := by
    intro j' hlt x hx
    exact hall _ (entry_lt hi (List.mem_of_getElem? (getD_of_lt _ hlt))) x hx
  rcases loop_hit_cases hs with ⟨rfl, rfl⟩ | ⟨hj, hne, hov, hsk⟩
  · left
    refine ⟨hcm.symm, hcj.symm, ?_⟩
    have : weightAt cfg.weights 0 = w := by
      unfold weightAt
      rw [List.getD_eq_getElem?_getD, hw1]; rfl
    rw [hcm, hcj, this]; exact hw2
  · right
    rw [hcm, hcj]
    refine ⟨hj, ?_, ?_, ?_⟩
    · rcases hne with hne | hne
      · exact Or.inl hne
      · by_cases hlt : 0 < cfg.weights.length
        · exact Or.inr (hne _ _ (getD_of_lt _ hlt))
        · exact Or.inr (by rw [weightAt_of_ge _ (by omega)])
    · by_cases hlt : 0 < cfg.weights.length
      · exact Or.inr (hallAt 0 hlt)
      · exact Or.inl (by rw [weightAt_of_ge _ (by omega)])
    · intro j' hj' x hx
      exact hallAt j' (mem_skipped_lt hmn hj') x hx

/-- the server goes idle (blocks or takes a token) with every store empty: the oracle notes the idle period -/
theorem oinv_idle (ho : OInv F flow size cfg arrivals a q.time hist o) (r : RPhase)
    (hr : (∃ g, r = .W g) ∨ (∃ g q0, r = .K g q0)) (hh : ∀ g m jj id q0, a.run ≠ .H g m jj id q0) (hbusy : o.busy = none)
    (hall : ∀ f, f < F → a.items f = []) (tk : Nat) :
    OInv F flow size cfg arrivals { a with run := r, tokens := tk } q.time (hist ++ [.idle q.time]) { o with cm := 0, cj := 0 } := by
  have hw : ∀ f, f < F → o.waiting f = [] := fun f hf => waiting_nil ho hf (heldH_none hh f) (hall f hf)
  have hH : ∀ f, heldH flow ({ a with run := r, tokens := tk } : A) f = [] := by
    intro f
    rcases hr with ⟨g, rfl⟩ | ⟨g, q0, rfl⟩ <;> rfl
  have hok : IdleOK F o := by
    refine ⟨by simp [hbusy], ?_⟩
    intro f hf
    rw [hw f (List.mem_range.mp hf)]; rfl
  refine ⟨?_, ?_, ho.wt, ?_, ?_⟩
  · rw [orun_append, ho.run]
    simp [orun, ostep, hok]
  · intro f hf
    rw [hH f, ← heldH_none hh f]
    exact ho.wq f hf
  · have hemp : ∀ f, f < F → ∀ x ∈ o.waiting f, x.2 = q.time := by
      intro f hf x hx; rw [hw f hf] at hx; cases hx
    rcases hr with ⟨g, rfl⟩ | ⟨g, q0, rfl⟩ <;> exact ⟨hbusy, hemp, rfl, rfl⟩
  · simpa [obsPuts_append, obsPuts] using ho.fut

theorem setQ_same (w : Nat → List (Int × ℚ)) (f : Nat) (l : List (Int × ℚ)) : setQ w f l f = l := by simp [setQ]
theorem setQ_ne (w : Nat → List (Int × ℚ)) (f f' : Nat) (l : List (Int × ℚ)) (h : f' ≠ f) : setQ w f l f' = w f' := by
  simp [setQ, h]

/-- the oracle after a `put` -/
theorem oinv_put (hi : AInv flow F cfg a q.time) (ho : OInv F flow size cfg arrivals a q.time hist o) {id : Int}
    {arr : List (ℚ × Int)} (h : a.src = .wait id arr q) (a' : A) (hrun : a'.run = a.run)
    (hitems : a'.items = upd a.items (flow id) (a.items (flow id) ++ [id])) (eid ev : Nat)
    (hsrc : a'.src = srcNext q.time eid ev arr) :
    ∃ o', OInv F flow size cfg arrivals a' q.time (hist ++ [.put id q.time]) o' := by
  refine ⟨{ o with waiting := setQ o.waiting (flow id) (o.waiting (flow id) ++ [(id, q.time)]) }, ?_, ?_, ?_, ?_, ?_⟩
  · rw [orun_append, ho.run]; rfl
  · intro f hf
    have hH : heldH flow a' f = heldH flow a f := by simp [heldH, hrun]
    rw [hH, hitems]
    by_cases hff : f = flow id
    · subst hff
      simp only [setQ_same, upd_same, List.map_append, List.map_cons, List.map_nil, ho.wq _ hf, List.append_assoc]
    · simp only [setQ_ne _ _ _ _ hff, upd_ne _ _ _ _ hff, ho.wq f hf]
  · intro f hf x hx
    by_cases hff : f = flow id
    · subst hff
      simp only [setQ_same, List.mem_append, List.mem_singleton] at hx
      rcases hx with hx | rfl
      · exact ho.wt _ hf x hx
      · exact le_refl _
    · simp only [setQ_ne _ _ _ _ hff] at hx
      exact ho.wt f hf x hx
  · have hmem : ∀ f, f < F → ∀ x ∈ setQ o.waiting (flow id) (o.waiting (flow id) ++ [(id, q.time)]) f,
        x ∈ o.waiting f ∨ x.2 = q.time := by
      intro f hf x hx
      by_cases hff : f = flow id
      · subst hff
        simp only [setQ_same, List.mem_append, List.mem_singleton] at hx
        rcases hx with hx | rfl
        · exact Or.inl hx
        · exact Or.inr rfl
      · simp only [setQ_ne _ _ _ _ hff] at hx
        exact Or.inl hx
    have hph := ho.ph
    rw [hrun]
    cases hr : a.run with
    | init q0 => rw [hr] at hph; exact ⟨hph.1, fun f hf x hx => (hmem f hf x hx).elim (hph.2.1 f hf x) (fun h => h), hph.2.2⟩
    | W g => rw [hr] at hph; exact ⟨hph.1, fun f hf x hx => (hmem f hf x hx).elim (hph.2.1 f hf x) (fun h => h), hph.2.2⟩
    | K g q0 => rw [hr] at hph; exact ⟨hph.1, fun f hf x hx => (hmem f hf x hx).elim (hph.2.1 f hf x) (fun h => h), hph.2.2⟩
    | H g m0 j0 id0 q0 =>
      rw [hr] at hph
      obtain ⟨h1, h2, h6⟩ := hph
      have hmem' : ∀ f, ∀ x ∈ setQ o.waiting (flow id) (o.waiting (flow id) ++ [(id, q.time)]) f,
          x ∈ o.waiting f ∨ x.2 = q.time := by
        intro f x hx
        by_cases hff : f = flow id
        · subst hff
          simp only [setQ_same, List.mem_append, List.mem_singleton] at hx
          rcases hx with hx | rfl
          · exact Or.inl hx
          · exact Or.inr rfl
        · simp only [setQ_ne _ _ _ _ hff] at hx
          exact Or.inl hx
      refine ⟨h1, ?_, ?_⟩
      · rcases h2 with h2 | h2
        · exact Or.inl h2
        · exact Or.inr (fun f hf x hx => (hmem f hf x hx).elim (h2 f hf x) (fun h => h))
      · rcases h6 with h6 | ⟨g1, g2, g3, g4⟩
        · exact Or.inl h6
        · refine Or.inr ⟨g1, g2, ?_, fun j' hj' x hx => (hmem' _ x hx).elim (g4 j' hj' x) (fun h => h)⟩
          rcases g3 with g3 | g3
          · exact Or.inl g3
          · exact Or.inr (fun x hx => (hmem' _ x hx).elim (g3 x) (fun h => h))
    | S p m0 j0 id0 q0 => rw [hr] at hph; exact hph
    | T p t m0 j0 id0 q0 => rw [hr] at hph; exact hph
    | F p m0 j0 id0 q0 => rw [hr] at hph; exact hph
  · rw [obsPuts_append, hsrc, srcFuture_srcNext]
    have := ho.fut
    rw [h] at this
    simp only [srcFuture] at this
    simp only [obsPuts, List.append_assoc, List.cons_append, List.nil_append]
    exact this

/-- **every configuration step keeps the oracle's invariant**: the observations of the step are accepted -/
theorem oinv_step {a' : A} {new : List (HEv ℚ)} (hi : AInv flow F cfg a q.time)
    (ho : OInv F flow size cfg arrivals a q.time hist o) (hs : AStep F flow size cfg n e a q a' new) :
    ∃ o', OInv F flow size cfg arrivals a' q.time (hist ++ new) o' := by
  have hrun := hi.run
  have hph := ho.ph
  cases hs with
  | runInit h =>
    rw [h] at hph hrun
    have := oinv_idle (size := size) ho (.W n) (Or.inl ⟨n, rfl⟩) (by simp [h]) hph.1 (fun f _ => hrun.2.2.2.2.1 f) a.tokens
    exact ⟨_, by simpa using this⟩
  | wakeHit g m' jj' f id is h hs hf hit =>
    rw [h] at hph
    have hdec := decided_of_wake hph.2.1 hi hph.2.2.1 hph.2.2.2 hs
    exact ⟨o, by simpa using oinv_hit hi ho (by simp [h]) hph.1 (Or.inr hph.2.1) hdec hf hit⟩
  | wakeBlock g h hs htk =>
    rw [h] at hph
    have := oinv_idle (size := size) ho (.W n) (Or.inl ⟨n, rfl⟩) (by simp [h]) hph.1
      (empty_of_total_zero hi (by simp [h, RPhase.held]) (loop_idle_total hs)) a.tokens
    exact ⟨_, by simpa using this⟩
  | wakeTok g t h hs htk =>
    rw [h] at hph
    have := oinv_idle (size := size) ho (.K n ⟨q.time, NORMAL, e, n⟩) (Or.inr ⟨_, _, rfl⟩) (by simp [h]) hph.1
      (empty_of_total_zero hi (by simp [h, RPhase.held]) (loop_idle_total hs)) t
    exact ⟨_, by simpa using this⟩
  | pktResume g m jj id h =>
    rw [h] at hph hrun
    obtain ⟨h1, h2, h6⟩ := hph
    have hfid := hrun.2.2.2.1
    obtain ⟨w, hpos, hjw⟩ := hrun.2.2.2.2
    have hmlt : m < cfg.weights.length := (List.getElem?_eq_some_iff.mp hpos).1
    have hidx : posOf cfg.weights (flow id) = m := by
      have hget : (cfg.weights.map (·.1))[m]? = some (flow id) := by simp [hpos]
      have hlt' : m < (cfg.weights.map (·.1)).length := by simpa using hmlt
      have hg : (cfg.weights.map (·.1))[m] = flow id := (List.getElem?_eq_some_iff.mp hget).2
      unfold posOf
      rw [← hg]
      exact List.Nodup.idxOf_getElem (flows_nodup hi) m hlt'
    have hwq := ho.wq (flow id) hfid
    simp only [heldH, h, if_true, List.singleton_append] at hwq
    have hcont : Continues cfg.weights o m ↔ (m = o.cm ∧ jj = o.cj ∧ o.cj < weightAt cfg.weights o.cm) := by
      unfold Continues
      constructor
      · rintro ⟨g1, g2⟩
        rcases h6 with h6 | ⟨-, g3, -⟩
        · exact h6
        · rcases g3 with g3 | g3
          · exact absurd g1 g3
          · omega
      · rintro ⟨g1, -, g3⟩; exact ⟨g1, g3⟩
    have hok : ServeOK F flow cfg.weights o id q.time := by
      refine ⟨by simp [h1], ?_, ⟨by rw [hidx]; exact hmlt, ?_⟩, ?_⟩
      · cases hw : o.waiting (flow id) with
        | nil => rw [hw] at hwq; simp at hwq
        | cons x r => rw [hw] at hwq; simp only [List.map_cons, List.cons.injEq] at hwq; simp [hwq.1]
      · rw [hidx]
        rcases h6 with h6 | ⟨-, -, g3, g4⟩
        · exact Or.inl (hcont.mpr h6)
        · right
          refine ⟨?_, ?_⟩
          · rcases g3 with g3 | g3
            · exact Or.inl g3
            · exact Or.inr (fun x hx => by rw [g3 x hx]; exact lt_irrefl _)
          · intro j' hj' x hx
            rw [g4 j' hj' x hx]
            exact lt_irrefl _
      · rcases h2 with h2 | h2
        · left; rw [h2]; exact (eqT_iff _ _).mpr rfl
        · right; intro f hf x hx; exact (eqT_iff _ _).mpr (h2 f (List.mem_range.mp hf) x hx)
    by_cases hc : Continues cfg.weights o m
    · obtain ⟨g1, g2, g3⟩ := hcont.mp hc
      refine ⟨{ o with waiting := setQ o.waiting (flow id) (o.waiting (flow id)).tail, busy := some (id, q.time),
                       cj := o.cj + 1 }, ?_, ?_, ?_, ⟨rfl, g1.symm, by show o.cj + 1 = jj + 1; omega⟩, ?_⟩
      · rw [orun_append, ho.run]
        simp [orun, ostep, hok, hidx, hc]
      · intro f hf
        simp only [heldH, List.nil_append]
        by_cases hff : f = flow id
        · subst hff
          simp only [setQ_same, List.map_tail, hwq, List.tail_cons]
        · simp only [setQ_ne _ _ _ _ hff]
          have := ho.wq f hf
          simp only [heldH, h, Ne.symm hff, if_false, List.nil_append] at this
          exact this
      · intro f hf x hx
        by_cases hff : f = flow id
        · subst hff
          simp only [setQ_same] at hx
          exact ho.wt _ hf x (List.mem_of_mem_tail hx)
        · simp only [setQ_ne _ _ _ _ hff] at hx
          exact ho.wt f hf x hx
      · simpa [obsPuts_append, obsPuts] using ho.fut
    · have hj0 : jj = 0 := by
        rcases h6 with h6 | ⟨g1, -⟩
        · exact absurd (hcont.mpr h6) hc
        · exact g1
      refine ⟨{ o with waiting := setQ o.waiting (flow id) (o.waiting (flow id)).tail, busy := some (id, q.time),
                       cm := posOf cfg.weights (flow id), cj := 1 }, ?_, ?_, ?_, ⟨rfl, hidx, by show 1 = jj + 1; omega⟩, ?_⟩
      · rw [orun_append, ho.run]
        simp [orun, ostep, hok, hidx, hc]
      · intro f hf
        simp only [heldH, List.nil_append]
        by_cases hff : f = flow id
        · subst hff
          simp only [setQ_same, List.map_tail, hwq, List.tail_cons]
        · simp only [setQ_ne _ _ _ _ hff]
          have := ho.wq f hf
          simp only [heldH, h, Ne.symm hff, if_false, List.nil_append] at this
          exact this
      · intro f hf x hx
        by_cases hff : f = flow id
        · subst hff
          simp only [setQ_same] at hx
          exact ho.wt _ hf x (List.mem_of_mem_tail hx)
        · simp only [setQ_ne _ _ _ _ hff] at hx
          exact ho.wt f hf x hx
      · simpa [obsPuts_append, obsPuts] using ho.fut
  | sendInit p m jj id h =>
    rw [h] at hph
    refine ⟨o, by simpa using ho.run, ?_, ho.wt, ⟨q.time, hph.1, rfl, hph.2⟩, by simpa using ho.fut⟩
    intro f hf
    have := ho.wq f hf
    simp only [heldH, h] at this
    simpa [heldH] using this
  | sendFire p t m jj id h =>
    rw [h] at hph
    obtain ⟨s0, hb, hq0, hcur⟩ := hph
    have hok : OutOK size cfg.rate o id q.time := by
      simp only [OutOK, hb, true_and]
      exact (eqT_iff _ _).mpr hq0
    refine ⟨{ o with busy := none, lastOut := some q.time }, ?_, ?_, ho.wt, ⟨rfl, rfl, hcur⟩, ?_⟩
    · rw [orun_append, ho.run]
      simp [orun, ostep, hok]
    · intro f hf
      have := ho.wq f hf
      simp only [heldH, h] at this
      simpa [heldH] using this
    · simpa [obsPuts_append, obsPuts] using ho.fut
  | doneHit p m jj id0 m' jj' f id is h hs hf hit =>
    rw [h] at hph
    have hs' : a.loop F cfg.weights o.cm o.cj = .hit m' jj' f := by rw [hph.2.2.1, hph.2.2.2]; exact hs
    have hdec := decided_of_loop hi ho (by simp [h]) (by simp [h, RPhase.held]) hs'
    exact ⟨o, by simpa using oinv_hit hi ho (by simp [h]) hph.1 (Or.inl hph.2.1) hdec hf hit⟩
  | doneBlock p m jj id0 h hs htk =>
    rw [h] at hph
    have := oinv_idle (size := size) ho (.W n) (Or.inl ⟨n, rfl⟩) (by simp [h]) hph.1
      (empty_of_total_zero hi (by simp [h, RPhase.held]) (loop_idle_total hs)) a.tokens
    exact ⟨_, by simpa using this⟩
  | doneTok p m jj id0 t h hs htk =>
    rw [h] at hph
    have := oinv_idle (size := size) ho (.K n ⟨q.time, NORMAL, e, n⟩) (Or.inr ⟨_, _, rfl⟩) (by simp [h]) hph.1
      (empty_of_total_zero hi (by simp [h, RPhase.held]) (loop_idle_total hs)) t
    exact ⟨_, by simpa using this⟩
  | srcInit arr h =>
    refine ⟨o, by simpa using ho.run, ho.wq, ho.wt, ho.ph, ?_⟩
    have := ho.fut
    rw [h] at this
    have hs := hi.src
    rw [h] at hs
    simp only [List.append_nil, srcFuture_srcNext]
    simp only [srcFuture] at this
    exact this
  | srcPutTok id arr h htot => exact oinv_put hi ho h _ rfl rfl _ _ rfl
  | srcPutPlain id arr h htot => exact oinv_put hi ho h _ rfl rfl _ _ rfl
  | srcEnd h =>
    refine ⟨o, by simpa using ho.run, ho.wq, ho.wt, ho.ph, ?_⟩
    have := ho.fut
    rw [h] at this
    simpa [srcFuture] using this
  | pendNoop r l1 l2 hpe hno => exact ⟨o, by simpa using ho.run, ho.wq, ho.wt, ho.ph, by simpa using ho.fut⟩
  | pendHand g t l1 l2 hpe h htk =>
    rw [h] at hph
    refine ⟨o, by simpa using ho.run, ?_, ho.wt, hph, by simpa using ho.fut⟩
    intro f hf
    have := ho.wq f hf
    simp only [heldH, h] at this
    simpa [heldH] using this

end WRRK
