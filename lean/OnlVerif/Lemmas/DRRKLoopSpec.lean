import OnlVerif.Lemmas.DRRKAbs
/-!
# The DRR scheduler on the kernel model: what the loops of `DRR.run` (as the functions `innerAt`, `visitFrom`, `passes`) do

`EndOK`: a piece of the loops that ends the burst has found what it ends with (a backlogged class whose credit is positive,
without a parked head: `get`; with an affordable parked head: `send`; `total_packets == 0`: `idle`); the credits only grow;
a pass that ends nothing has added its quantum to every backlogged class and found its parked head unaffordable; hence
(`passes_no_hang`) `k + 1` passes always end the burst when `1500·k` bounds the parked packets.
-/

set_option linter.unusedSimpArgs false

namespace DRRK
open DRROnK QEntry

section
variable (Q : Nat → ℚ) (size : Int → Nat) (ccnt : Nat → Int) (hol : Nat → Option Int) (t : ℚ) (total : Int)
variable (ws : List (Nat × Nat))

/-- what is known of the way a piece of the loops ends the burst (`none`: it does not) -/
def EndOK (L' : LS) : Option LoopEnd → Prop
  | some (.get m c) => (∃ w, ws[m]? = some (c, w)) ∧ hol c = none ∧ 0 < L'.dfc c ∧ 0 < ccnt c
  | some (.send m c id pk) => pk = true ∧ (∃ w, ws[m]? = some (c, w)) ∧ hol c = some id ∧
      (Num.ofNat (size id) : ℚ) ≤ L'.dfc c ∧ 0 < ccnt c
  | some .idle => total = 0
  | some .hang => False
  | none => True

variable {Q size ccnt hol t total ws}

theorem visitAdd_dfc_le (hQ : ∀ c, 0 ≤ Q c) (c : Nat) (L : LS) (f : Nat) : L.dfc f ≤ (visitAdd Q ccnt t c L).dfc f := by
  unfold visitAdd
  split
  · show L.dfc f ≤ upd L.dfc c (L.dfc c + Q c) f
    by_cases hf : f = c
    · subst hf; rw [upd_same]; linarith [hQ f]
    · rw [upd_ne _ _ _ _ hf]
  · exact le_refl _

theorem visitAdd_dfc_ne (c : Nat) (L : LS) (f : Nat) (hf : f ≠ c) : (visitAdd Q ccnt t c L).dfc f = L.dfc f := by
  unfold visitAdd
  split
  · exact upd_ne _ _ _ _ hf
  · rfl

theorem visitAdd_dfc_same (c : Nat) (L : LS) (hc : 0 < ccnt c) : (visitAdd Q ccnt t c L).dfc c = L.dfc c + Q c := by
  unfold visitAdd
  rw [if_pos hc]
  exact upd_same _ _ _

theorem visitAdd_dfc_skip (c : Nat) (L : LS) (hc : ¬ 0 < ccnt c) : visitAdd Q ccnt t c L = L := by
  unfold visitAdd
  rw [if_neg hc]

theorem innerAt_dfc (m c : Nat) (L : LS) : (innerAt size ccnt hol t m c L).1.dfc = L.dfc := by
  unfold innerAt
  split
  · split
    · split <;> rfl
    · rfl
  · rfl

theorem innerAt_ok {m c w : Nat} (hm : ws[m]? = some (c, w)) (L : LS) :
    EndOK size ccnt hol total ws (innerAt size ccnt hol t m c L).1 (innerAt size ccnt hol t m c L).2 := by
  unfold innerAt
  by_cases hcond : Num.zero < L.dfc c ∧ 0 < ccnt c
  · rw [if_pos hcond]
    cases hh : hol c with
    | none => exact ⟨⟨w, hm⟩, hh, by simpa [zero_eq'] using hcond.1, hcond.2⟩
    | some id =>
      by_cases hle : (Num.ofNat (size id) : ℚ) ≤ L.dfc c
      · simp only [hle, if_true]
        exact ⟨rfl, ⟨w, hm⟩, hh, hle, hcond.2⟩
      · simp only [hle, if_false]
        trivial
  · rw [if_neg hcond]; trivial

/-- the inner `while` lets the `for` loop go on: the class is empty, or has no credit, or its parked head is unaffordable -/
theorem innerAt_none {m c : Nat} {L L' : LS} (h : innerAt size ccnt hol t m c L = (L', none)) :
    L'.dfc = L.dfc ∧ (0 < L.dfc c → 0 < ccnt c → ∃ id, hol c = some id ∧ ¬ (Num.ofNat (size id) : ℚ) ≤ L.dfc c) := by
  unfold innerAt at h
  by_cases hcond : Num.zero < L.dfc c ∧ 0 < ccnt c
  · rw [if_pos hcond] at h
    cases hh : hol c with
    | none => rw [hh] at h; simp at h
    | some id =>
      rw [hh] at h
      by_cases hle : (Num.ofNat (size id) : ℚ) ≤ L.dfc c
      · simp [hle] at h
      · simp only [hle, if_false, Prod.mk.injEq, and_true] at h
        subst h
        exact ⟨rfl, fun _ _ => ⟨id, rfl, hle⟩⟩
  · rw [if_neg hcond] at h
    simp only [Prod.mk.injEq, and_true] at h
    subst h
    refine ⟨rfl, fun h1 h2 => absurd ⟨by simpa [zero_eq'] using h1, h2⟩ hcond⟩

theorem visitFrom_ok (hQ : ∀ c, 0 ≤ Q c) : ∀ (ws' : List (Nat × Nat)) (m : Nat) (L : LS), ws.drop m = ws' →
    EndOK size ccnt hol total ws (visitFrom Q size ccnt hol t m ws' L).1 (visitFrom Q size ccnt hol t m ws' L).2 ∧
    ∀ f, L.dfc f ≤ (visitFrom Q size ccnt hol t m ws' L).1.dfc f
  | [], m, L, _ => by simp [visitFrom, EndOK]
  | (c, w) :: rest, m, L, hd => by
    have hm : ws[m]? = some (c, w) := by
      have := congrArg List.head? hd
      simpa [List.head?_drop] using this
    have hd' : ws.drop (m + 1) = rest := by
      have := congrArg List.tail hd
      simpa [List.tail_drop] using this
    have h1 := innerAt_ok (size := size) (ccnt := ccnt) (hol := hol) (t := t) (total := total) hm (visitAdd Q ccnt t c L)
    have h2 := innerAt_dfc (size := size) (ccnt := ccnt) (hol := hol) (t := t) m c (visitAdd Q ccnt t c L)
    have h3 := visitAdd_dfc_le (ccnt := ccnt) (t := t) hQ c L
    rw [visitFrom]
    cases hr : innerAt size ccnt hol t m c (visitAdd Q ccnt t c L) with
    | mk L' oe =>
      rw [hr] at h1 h2
      cases oe with
      | some e => exact ⟨h1, fun f => by rw [h2]; exact h3 f⟩
      | none =>
        have ih := visitFrom_ok hQ rest (m + 1) L' hd'
        exact ⟨ih.1, fun f => le_trans (by rw [h2]; exact h3 f) (ih.2 f)⟩

/-- a `for` loop that runs to its end leaves the credit of the classes it does not visit alone -/
theorem visitFrom_none_other : ∀ (ws' : List (Nat × Nat)) (m : Nat) (L L' : LS),
    visitFrom Q size ccnt hol t m ws' L = (L', none) → ∀ c, c ∉ ws'.map (·.1) → L'.dfc c = L.dfc c
  | [], m, L, L', h, c, _ => by simp [visitFrom] at h; rw [h]
  | (c0, w) :: rest, m, L, L', h, c, hc => by
    rw [visitFrom] at h
    cases hr : innerAt size ccnt hol t m c0 (visitAdd Q ccnt t c0 L) with
    | mk L1 oe =>
      rw [hr] at h
      cases oe with
      | some e => simp at h
      | none =>
        simp only at h
        have hne : c ≠ c0 := fun hh => hc (by simp [hh])
        have h1 := (innerAt_none hr).1
        rw [visitFrom_none_other rest (m + 1) L1 L' h c (fun hh => hc (by simp only [List.map_cons, List.mem_cons]; exact Or.inr hh)),
          h1, visitAdd_dfc_ne _ _ _ hne]

/-- **a pass that ends nothing**: every backlogged class it visits got its quantum and has a parked head the new credit
does not cover -/
theorem visitFrom_none (hQ : ∀ c, 0 < Q c) : ∀ (ws' : List (Nat × Nat)) (m : Nat) (L L' : LS),
    visitFrom Q size ccnt hol t m ws' L = (L', none) → (ws'.map (·.1)).Nodup →
    ∀ c ∈ ws'.map (·.1), 0 < ccnt c → 0 ≤ L.dfc c →
      L'.dfc c = L.dfc c + Q c ∧ ∃ id, hol c = some id ∧ ¬ (Num.ofNat (size id) : ℚ) ≤ L'.dfc c
  | [], m, L, L', _, _, c, hc, _, _ => by simp at hc
  | (c0, w) :: rest, m, L, L', h, hnd, c, hc, hpos, h0 => by
    rw [visitFrom] at h
    simp only [List.map_cons, List.nodup_cons] at hnd
    cases hr : innerAt size ccnt hol t m c0 (visitAdd Q ccnt t c0 L) with
    | mk L1 oe =>
      rw [hr] at h
      cases oe with
      | some e => simp at h
      | none =>
        simp only at h
        obtain ⟨h1, h2⟩ := innerAt_none hr
        by_cases hcc : c = c0
        · subst hcc
          have hother := visitFrom_none_other rest (m + 1) L1 L' h c hnd.1
          have hd1 : L1.dfc c = L.dfc c + Q c := by rw [h1, visitAdd_dfc_same _ _ hpos]
          have hpos1 : 0 < (visitAdd Q ccnt t c L).dfc c := by
            rw [visitAdd_dfc_same _ _ hpos]; linarith [hQ c]
          obtain ⟨id, hid, hle⟩ := h2 hpos1 hpos
          refine ⟨by rw [hother, hd1], id, hid, ?_⟩
          rw [hother, hd1, ← visitAdd_dfc_same (Q := Q) (t := t) _ L hpos]
          exact hle
        · have hc' : c ∈ rest.map (·.1) := by
            simp only [List.map_cons, List.mem_cons] at hc
            exact hc.resolve_left hcc
          have hd1 : L1.dfc c = L.dfc c := by rw [h1, visitAdd_dfc_ne _ _ _ hcc]
          have := visitFrom_none hQ rest (m + 1) L1 L' h hnd.2 c hc' hpos (by rw [hd1]; exact h0)
          rw [hd1] at this
          exact this

/-- **the passes end the burst**: with `total_packets > 0` some declared class is backlogged; if `1500·k` (more than) covers
its parked head, `k + 1` passes suffice -/
theorem passes_no_hang (hQ : ∀ c, 1500 ≤ Q c) (hnd : (ws.map (·.1)).Nodup) (htot : 0 ≤ total) :
    ∀ (k : Nat) (L : LS), (∀ c ∈ ws.map (·.1), 0 ≤ L.dfc c) →
      (0 < total → ∃ c ∈ ws.map (·.1), 0 < ccnt c ∧ ∀ id, hol c = some id → (Num.ofNat (size id) : ℚ) ≤ L.dfc c + 1500 * k) →
      (passes Q size ccnt hol t total ws (k + 1) L).2 ≠ .hang := by
  have hQ0 : ∀ c, 0 < Q c := fun c => by linarith [hQ c]
  have hQ0' : ∀ c, 0 ≤ Q c := fun c => le_of_lt (hQ0 c)
  intro k
  induction k with
  | zero =>
    intro L h0 hI
    rw [passes]
    by_cases hpos : 0 < total
    · rw [if_pos hpos]
      cases hr : visitFrom Q size ccnt hol t 0 ws L with
      | mk L' oe =>
        cases oe with
        | some e =>
          have := (visitFrom_ok (size := size) (ccnt := ccnt) (hol := hol) (t := t) (total := total) (ws := ws) hQ0' ws 0 L (by simp)).1
          rw [hr] at this
          intro he
          simp only at he
          subst he
          exact this
        | none =>
          exfalso
          obtain ⟨c, hc, hcp, hI'⟩ := hI hpos
          obtain ⟨h1, id, hid, hle⟩ := visitFrom_none hQ0 ws 0 L L' hr hnd c hc hcp (h0 c hc)
          have := hI' id hid
          apply hle
          rw [h1]
          simp only [Nat.cast_zero, mul_zero, add_zero] at this
          linarith [hQ0 c]
    · rw [if_neg hpos]
      have : total = 0 := by omega
      simp [this]
  | succ k ih =>
    intro L h0 hI
    rw [passes]
    by_cases hpos : 0 < total
    · rw [if_pos hpos]
      cases hr : visitFrom Q size ccnt hol t 0 ws L with
      | mk L' oe =>
        cases oe with
        | some e =>
          have := (visitFrom_ok (size := size) (ccnt := ccnt) (hol := hol) (t := t) (total := total) (ws := ws) hQ0' ws 0 L (by simp)).1
          rw [hr] at this
          intro he
          simp only at he
          subst he
          exact this
        | none =>
          simp only
          have hmono := (visitFrom_ok (size := size) (ccnt := ccnt) (hol := hol) (t := t) (total := total) (ws := ws) hQ0' ws 0 L (by simp)).2
          rw [hr] at hmono
          refine ih L' (fun c hc => le_trans (h0 c hc) (hmono c)) ?_
          intro _
          obtain ⟨c, hc, hcp, hI'⟩ := hI hpos
          obtain ⟨h1, id, hid, hle⟩ := visitFrom_none hQ0 ws 0 L L' hr hnd c hc hcp (h0 c hc)
          refine ⟨c, hc, hcp, ?_⟩
          intro id' hid'
          rw [hid] at hid'
          cases hid'
          have := hI' id hid
          rw [h1]
          push_cast at this ⊢
          linarith [hQ c]
    · rw [if_neg hpos]
      have : total = 0 := by omega
      simp [this]

theorem passes_ok (hQ : ∀ c, 0 ≤ Q c) : ∀ (k : Nat) (L : LS),
    ((passes Q size ccnt hol t total ws k L).2 ≠ .hang →
      EndOK size ccnt hol total ws (passes Q size ccnt hol t total ws k L).1 (some (passes Q size ccnt hol t total ws k L).2)) ∧
    ∀ f, L.dfc f ≤ (passes Q size ccnt hol t total ws k L).1.dfc f
  | 0, L => by simp [passes]
  | k + 1, L => by
    rw [passes]
    by_cases hpos : 0 < total
    · rw [if_pos hpos]
      have h1 := visitFrom_ok (size := size) (ccnt := ccnt) (hol := hol) (t := t) (total := total) (ws := ws) hQ ws 0 L (by simp)
      cases hr : visitFrom Q size ccnt hol t 0 ws L with
      | mk L' oe =>
        rw [hr] at h1
        cases oe with
        | some e => exact ⟨fun _ => h1.1, h1.2⟩
        | none =>
          have ih := passes_ok hQ k L'
          exact ⟨ih.1, fun f => le_trans (h1.2 f) (ih.2 f)⟩
    · rw [if_neg hpos]
      by_cases hz : total = 0
      · simp [hz, EndOK]
      · simp [hz]

end

end DRRK
