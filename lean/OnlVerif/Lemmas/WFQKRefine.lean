import OnlVerif.Lemmas.WFQKRun
import OnlVerif.Lemmas.WFQKSound
import OnlVerif.Lemmas.WFQKLts
import OnlVerif.Lemmas.WFQKAbsFun
/-!
# The WFQ scheduler on the kernel model: the combined invariant, every reachable kernel state is the image of an
admissible run of the StampServer LTS, `run()` returns
-/

set_option linter.unusedSimpArgs false

namespace WFQK
open WFQOnK QEntry Stamp

variable {N scale F : Nat} {flow size : Int → Nat} {cfg : WfqCfg ℚ} {d1 L : Nat} {arrivals : List (ℚ × Int)}
variable {s : KS} {a : A} {q : QEntry ℚ} {rest : List (QEntry ℚ)}

/-- two accepted action sequences compose -/
theorem runActs_compose {σ : Type} (d : Sched ℚ σ) : ∀ (as bs : List (StAct ℚ)) (s s1 s2 : StState ℚ σ)
    (i1 o1 i2 o2 : List SPkt), runActs d s as = .ok (s1, i1, o1) → runActs d s1 bs = .ok (s2, i2, o2) →
    runActs d s (as ++ bs) = .ok (s2, i1 ++ i2, o1 ++ o2)
  | [], bs, s, s1, s2, i1, o1, i2, o2, h1, h2 => by
    simp only [runActs, Except.ok.injEq, Prod.mk.injEq] at h1
    obtain ⟨rfl, rfl, rfl⟩ := h1
    simpa using h2
  | x :: as, bs, s, s1, s2, i1, o1, i2, o2, h1, h2 => by
    simp only [runActs] at h1
    split at h1
    · cases h1
    · rename_i s3 o h3
      split at h1
      · cases h1
      · rename_i s4 i4 o4 h4
        simp only [Except.ok.injEq, Prod.mk.injEq] at h1
        obtain ⟨rfl, rfl, rfl⟩ := h1
        have := runActs_compose d as bs s3 s4 s2 i4 o4 i2 o2 h4 h2
        simp only [List.cons_append, runActs, h3, this, List.append_assoc]

/-- the kernel state `s` is the sound configuration `a`, whose ghost `put` list is the one of the history -/
structure Inv (N scale F : Nat) (flow size : Int → Nat) (cfg : WfqCfg ℚ) (d1 L : Nat) (s : KS) (a : A) : Prop where
  k : KInv N scale size cfg.rate F s a
  ai : AInv N scale size F flow cfg d1 L a s.now
  l : LInv a (histOf s.trace)

/-- **one kernel step**: it is `.ok`, keeps the invariant, uses one unit of the step budget, and is a sequence of actions the
LTS accepts from `toM a` to `toM a'` in which the packets `put` / sent out are those the kernel step reports -/
theorem inv_step_lts (fuel : Nat) (h : Inv N scale F flow size cfg d1 L s a) (hp : popMin s.agenda = some (q, rest)) :
    ∃ s' a' new, step (prog F flow size cfg N scale) (fuel + 1) s = .ok s' ∧ Inv N scale F flow size cfg d1 L s' a' ∧ a'.mu + 1 ≤ a.mu ∧
      AStep N scale size F flow cfg s.events.size s.eid a q a' new ∧ s'.now = q.time ∧
      histOf s'.trace = histOf s.trace ++ new ∧
      ∃ acts, runActs (WFQ.sched cfg) (toM size F flow cfg a s.now) acts =
        .ok (toM size F flow cfg a' s'.now, putPk size flow new, outPk size flow new) := by
  obtain ⟨s', a', new, h1, h2, h3, h4, h5⟩ := kstep (size := size) fuel h.k h.ai hp
  have hmin := (isMin_of_pop h.k hp).1
  obtain ⟨g1, g2⟩ := astep_sound h.ai hmin h3
  obtain ⟨acts0, h0⟩ := lts_advance (size := size) h.ai hmin
  obtain ⟨acts, h7⟩ := lts_step (h.ai.advance hmin) h3
  refine ⟨s', a', new, h1, ⟨h2, by rw [h4]; exact g1, by rw [h5]; exact linv_step h.l h3⟩, g2, h3, h4, h5,
    acts0 ++ acts, ?_⟩
  rw [h4]
  have := runActs_compose _ _ _ _ _ _ _ _ _ _ h0 h7
  simpa using this

theorem inv_init (hc : CfgOK F cfg) (hg : GridOK scale size F cfg d1 L arrivals) (hw : WorkOK N size F flow cfg d1 arrivals) :
    Inv N scale F flow size cfg d1 L (initState F arrivals) (a0 arrivals) := by
  obtain ⟨h1, h2, h3⟩ := kinv_init (N := N) (scale := scale) (size := size) hc arrivals
  refine ⟨h1, by rw [h2]; exact ainv_init hc hg hw, by rw [h3]; exact linv_init arrivals⟩

/-- **every state reachable by kernel steps is a sound configuration, and the run so far is an admissible run of the LTS**
from the state of a fresh `VC` to the configuration's LTS state, in which the packets that entered are those handed to `put`
and the packets that left are those handed to `out.put`, in the order of the trace -/
theorem reach_lts (fuel : Nat) (hc : CfgOK F cfg) (hg : GridOK scale size F cfg d1 L arrivals) (hw : WorkOK N size F flow cfg d1 arrivals)
    {s : KS} (h : KReach (prog F flow size cfg N scale) (fuel + 1) (initState F arrivals) s) :
    ∃ a acts, Inv N scale F flow size cfg d1 L s a ∧
      runActs (WFQ.sched cfg) (WFQ.start 0) acts =
        .ok (toM size F flow cfg a s.now, putPk size flow (histOf s.trace), outPk size flow (histOf s.trace)) := by
  induction h with
  | init =>
    have hi := inv_init (N := N) (flow := flow) hc hg hw
    obtain ⟨-, h2, h3⟩ := kinv_init (N := N) (scale := scale) (size := size) hc arrivals
    refine ⟨a0 arrivals, [], hi, ?_⟩
    rw [h2, h3, toM_a0]; rfl
  | @step s s' _ hs ih =>
    obtain ⟨a, acts, hi, hrun⟩ := ih
    cases hp : popMin s.agenda with
    | none => simp [_root_.step, hp, StepResult.state?] at hs
    | some qr =>
      obtain ⟨q, rest⟩ := qr
      obtain ⟨s'', a', new, h1, h2, -, -, -, h6, acts', h7⟩ := inv_step_lts (size := size) fuel hi hp
      rw [h1] at hs
      simp only [StepResult.state?, Option.some.injEq] at hs
      subst hs
      refine ⟨a', acts ++ acts', h2, ?_⟩
      have := runActs_compose _ _ _ _ _ _ _ _ _ _ hrun h7
      rw [this, h6, putPk_append, outPk_append]

theorem popMin_none {l : List (QEntry ℚ)} (h : popMin l = none) : l = [] := by
  cases l with
  | nil => rfl
  | cons x xs =>
    unfold popMin at h
    cases hp : popMin xs with
    | none => rw [hp] at h; cases h
    | some mr => rw [hp] at h; simp only at h; split at h <;> cases h

/-- **`run()` returns**: with more step budget than the configuration needs, `runLoop` ends with an empty agenda, in a state
reachable by kernel steps -/
theorem run_returns (fuel : Nat) (s0 : KS) : ∀ (n : Nat) (s : KS) (a : A), Inv N scale F flow size cfg d1 L s a → a.mu < n →
    KReach (prog F flow size cfg N scale) (fuel + 1) s0 s →
    ∃ sF aF, runLoop (prog F flow size cfg N scale) (fuel + 1) none n s = .returned .none sF ∧
      Inv N scale F flow size cfg d1 L sF aF ∧ sF.agenda = [] ∧ KReach (prog F flow size cfg N scale) (fuel + 1) s0 sF
  | 0, _, _, _, hmu, _ => absurd hmu (Nat.not_lt_zero _)
  | n + 1, s, a, h, hmu, hre => by
    cases hp : popMin s.agenda with
    | none =>
      refine ⟨s, a, ?_, h, popMin_none hp, hre⟩
      simp [_root_.runLoop, _root_.step, hp]
    | some qr =>
      obtain ⟨q, rest⟩ := qr
      obtain ⟨s', a', new, h1, h2, h3, -⟩ := inv_step_lts (size := size) fuel h hp
      have := run_returns fuel s0 n s' a' h2 (by omega) (KReach.step hre (by rw [h1]; rfl))
      simpa [_root_.runLoop, h1] using this

end WFQK
