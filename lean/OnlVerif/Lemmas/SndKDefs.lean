import OnlVerif.Lemmas.TimerKFrame
import OnlVerif.Lemmas.TcpSender
import OnlVerif.Tcp.SenderOnK
/-!
# The TCP sender on the kernel model: canonical configurations (definitions)

A configuration `A` describes a kernel state of the program `SenderOnK.body`: the state `S` of the sender LTS it stands for
(`Tcp/CC.lean`), where `run`, the network script and the `Timer` process of every segment are suspended (with the agenda entry
that will resume them), the `StorePut` events that are triggered and not yet processed, the attributes of every `Timer` object
(which outlives its entry in `self.timers`), the ghost cell and the transmissions so far.  `KI act s a` says that the kernel
state `s` *is* the configuration `a` while process `act` is executing a burst (`none`: between two kernel steps): it pins down
every part of `s` that `Environment.step` and the generators can read.  It is the conjunction of `KK` (agenda, events, process
records, the wake-up store, the trace - everything but the cells; it depends only on the *structural* part `Kern` of the
configuration) and `CellsOK` (the attribute cells).
-/

namespace SndK
open SenderOnK
open TimerK (lookup)

deriving instance DecidableEq for QEntry

abbrev St := SnSt ℚ
abbrev KS := KState ℚ St
abbrev Ack := AckIn ℚ
abbrev Script := List (ℚ × AckIn ℚ)

/-- where `TCPPacketGenerator.run` is -/
inductive RPhase where
  /-- not started: its `Initialize` entry `q` is in the agenda -/
  | init (q : QEntry ℚ)
  /-- blocked in `cwnd_avaialbe.get()` (event `g`), called at `t0` -/
  | blocked (g : EvId) (t0 : ℚ)
  /-- that `get` has been served with a token: entry `q` -/
  | handed (g : EvId) (t0 : ℚ) (q : QEntry ℚ)
  /-- the generator has returned: its process event is triggered (entry `q`) -/
  | ending (q : QEntry ℚ)
  | done
  /-- it is executing a burst -/
  | running

/-- where the network script is -/
inductive SPhase where
  | init (q : QEntry ℚ) (rest : Script)
  /-- sleeping on the timeout (entry `q`) after which it delivers `a`; `rest` still to come -/
  | wait (a : Ack) (rest : Script) (q : QEntry ℚ)
  | ending (q : QEntry ℚ)
  | done
  | running

/-- where the process of a `Timer` is -/
inductive TPh where
  /-- not started: its `Initialize` entry `q` is in the agenda -/
  | init (q : QEntry ℚ)
  /-- sleeping on timeout `t` (entry `q`, due at `q.time`) -/
  | sleep (t : EvId) (q : QEntry ℚ)
  /-- the generator has returned: its process event is triggered (entry `q`) -/
  | ending (q : QEntry ℚ)
  | gone
  | running

def RPhase.entries : RPhase → List (QEntry ℚ)
  | .init q => [q]
  | .handed _ _ q => [q]
  | .ending q => [q]
  | _ => []

def SPhase.entries : SPhase → List (QEntry ℚ)
  | .init q _ => [q]
  | .wait _ _ q => [q]
  | .ending q => [q]
  | _ => []

def TPh.entries : TPh → List (QEntry ℚ)
  | .init q => [q]
  | .sleep _ q => [q]
  | .ending q => [q]
  | _ => []

/-- the `get_queue` of the wake-up store -/
def RPhase.getQ : RPhase → List EvId
  | .blocked g _ => [g]
  | _ => []

/-- `g x := v` -/
def upd {β : Type} (g : Nat → β) (k : Nat) (v : β) : Nat → β := fun x => if x = k then v else g x

@[simp] theorem upd_same {β : Type} (g : Nat → β) (k : Nat) (v : β) : upd g k v k = v := by simp [upd]
theorem upd_ne {β : Type} (g : Nat → β) (k k' : Nat) (v : β) (h : k' ≠ k) : upd g k v k' = g k' := by simp [upd, h]
theorem upd_apply {β : Type} (g : Nat → β) (k k' : Nat) (v : β) : upd g k v k' = if k' = k then v else g k' := rfl

/-- the structural part of a configuration: everything the kernel-side invariant `KK` reads -/
structure Kern where
  run : RPhase
  scr : SPhase
  /-- the `StorePut` events that are triggered and not yet processed -/
  pend : List (QEntry ℚ)
  /-- the segments sent so far (the keys ever inserted into `timers`), in order -/
  keys : List Nat
  /-- the process of the `Timer` of a segment -/
  tmp : Nat → EvId
  tph : Nat → TPh
  /-- `len(cwnd_avaialbe.items)` -/
  tokens : Nat
  now : ℚ
  /-- the `tx` observations so far -/
  txs : List (Nat × ℚ)
  /-- the event whose callbacks are being run (`none`: between two kernel steps) -/
  cur : Option EvId

/-- the entries of the timer processes -/
def tmEntries (keys : List Nat) (tph : Nat → TPh) : List (QEntry ℚ) := keys.flatMap fun seq => (tph seq).entries

def Kern.entries (κ : Kern) : List (QEntry ℚ) :=
  κ.run.entries ++ (κ.scr.entries ++ (κ.pend ++ tmEntries κ.keys κ.tph))

/-- the events of a list of entries -/
def evs (l : List (QEntry ℚ)) : List EvId := l.map (·.ev)

/-- kind, callbacks and outcome of a live event -/
def EvIs (s : KS) (e : EvId) (k : Kind) (cbs : List Cb) (out : Option Outcome) : Prop :=
  (s.ev e).kind = k ∧ (s.ev e).cbs = some cbs ∧ (s.ev e).out = out

/-- the record of an unbounded `Store` -/
def storeRec (getQ : List EvId) (items : List Int) : ResRec :=
  { kind := .store, capacity := none, getQ := getQ, items := items }

def okNone : Option Outcome := some (.ok .none)

/-! ## the kernel side of a configuration -/

def RunEv (s : KS) : RPhase → Prop
  | .init q => q.ev = 1 ∧ EvIs s 1 (.init 0) [.resume 0] okNone ∧
      s.proc? 0 = some { st := .runStart q.time, target := some 1 } ∧ EvIs s 0 .proc [] none
  | .blocked g t0 => EvIs s g (.get 0) [.trigPut 0, .resume 0] none ∧
      s.proc? 0 = some { st := .runGet t0, target := some g } ∧ EvIs s 0 .proc [] none
  | .handed g t0 q => q.ev = g ∧ EvIs s g (.get 0) [.trigPut 0, .resume 0] (some (.ok (.int 1))) ∧
      s.proc? 0 = some { st := .runGet t0, target := some g } ∧ EvIs s 0 .proc [] none
  | .ending q => q.ev = 0 ∧ EvIs s 0 .proc [] okNone
  | .done => (s.ev 0).kind = .proc ∧ (s.ev 0).out = okNone
  | .running => EvIs s 0 .proc [] none

def ScrEv (s : KS) : SPhase → Prop
  | .init q rest => q.ev = 3 ∧ EvIs s 3 (.init 2) [.resume 2] okNone ∧
      s.proc? 2 = some { st := .scr q.time none rest, target := some 3 } ∧ EvIs s 2 .proc [] none
  | .wait a rest q => EvIs s q.ev .timeout [.resume 2] okNone ∧
      s.proc? 2 = some { st := .scr q.time (some a) rest, target := some q.ev } ∧ EvIs s 2 .proc [] none
  | .ending q => q.ev = 2 ∧ EvIs s 2 .proc [] okNone
  | .done => True
  | .running => EvIs s 2 .proc [] none

/-- the `Timer` process `p` of segment `seq` -/
def TmEv (s : KS) (seq : Nat) (p : EvId) : TPh → Prop
  | .init q => q.ev = p + 1 ∧ EvIs s (p + 1) (.init p) [.resume p] okNone ∧
      s.proc? p = some { st := .tmStart seq q.time, target := some (p + 1) } ∧ EvIs s p .proc [] none
  | .sleep t q => q.ev = t ∧ EvIs s t .timeout [.resume p] okNone ∧
      s.proc? p = some { st := .tmSleep seq q.time, target := some t } ∧ EvIs s p .proc [] none
  | .ending q => q.ev = p ∧ EvIs s p .proc [] okNone
  | .gone => True
  | .running => EvIs s p .proc [] none

/-- which generator a local state belongs to: 0 = the script, 1 = `run`, `2 + seq` = the `Timer` of segment `seq` -/
def tagOf : St → Nat
  | .scr _ _ _ => 0
  | .runStart _ => 1
  | .runGet _ => 1
  | .tmStart seq _ => 2 + seq
  | .tmSleep seq _ => 2 + seq

/-- `p` is a process event and its generator is the one with tag `n` (process records are never removed) -/
def ProcTag (s : KS) (p : EvId) (n : Nat) : Prop :=
  (s.ev p).kind = .proc ∧ ∃ pr, s.proc? p = some pr ∧ tagOf pr.st = n

/-- a pending `StorePut` of the wake-up store -/
def PendEv (s : KS) (u : QEntry ℚ) : Prop := EvIs s u.ev (.put 0) [.trigGet 0] okNone

/-- the `(seq, now)` a `tx` observation stands for -/
theorem txOf1_tx (p : EvId) (seq : Nat) (t : ℚ) : txOf1 (Obs.log p "tx" (.int seq) t) = some (seq, t) := by
  simp [txOf1]

/-- the kernel state `s` has the structure `κ` while `act` is executing -/
structure KK (act : Option EvId) (s : KS) (κ : Kern) : Prop where
  act : s.active = act
  now : s.now = κ.now
  wf : AgendaWF s
  ag : s.agenda.Perm κ.entries
  rsz : 0 < s.resources.size
  tok : s.res 0 = storeRec κ.run.getQ (List.replicate κ.tokens 1)
  run : RunEv s κ.run
  scr : ScrEv s κ.scr
  pend : ∀ u ∈ κ.pend, PendEv s u
  pnd : (evs κ.pend).Nodup
  tm : ∀ seq ∈ κ.keys, TmEv s seq (κ.tmp seq) (κ.tph seq)
  pt0 : ProcTag s 0 1
  pt2 : ProcTag s 2 0
  ptm : ∀ seq ∈ κ.keys, ProcTag s (κ.tmp seq) (2 + seq)
  knd : κ.keys.Nodup
  tx : txsOf s.trace = κ.txs
  cur : ∀ e, κ.cur = some e → (s.ev e).cbs = none ∧ ∃ v, (s.ev e).out = some (.ok v)

/-! ## configurations -/

/-- the attributes of a `Timer` object -/
structure TmC where
  stopped : Bool
  expire : ℚ
  timeout : ℚ
  start : ℚ

instance : Inhabited TmC := ⟨{ stopped := true, expire := 0, timeout := 0, start := 0 }⟩

structure A where
  /-- the state of the sender LTS -/
  S : Sender ℚ
  run : RPhase
  scr : SPhase
  pend : List (QEntry ℚ)
  /-- the segments whose `Timer` has been created, in order (between two kernel steps: the candidate keys below `next_seq`) -/
  tks : List Nat
  /-- the process of the `Timer` of a segment, where it is, and the attributes of the `Timer` object -/
  tmp : Nat → EvId
  tph : Nat → TPh
  tmc : Nat → TmC
  /-- (ghost cell) the instant of the last `cwnd_avaialbe.put` -/
  putAt : ℚ
  txs : List (Nat × ℚ)
  cur : Option EvId

/-- the structural part of a configuration -/
def kernOf (a : A) : Kern :=
  { run := a.run, scr := a.scr, pend := a.pend, keys := a.tks, tmp := a.tmp, tph := a.tph,
    tokens := a.S.tokens, now := a.S.now, txs := a.txs, cur := a.cur }

/-- what a cell holds for an optional time -/
def optEnc : Option ℚ → Val
  | some t => TimeCell.enc t
  | none => .none

/-- the attribute cells of a configuration -/
structure CellsOK (s : KS) (a : A) : Prop where
  next : lookup s.shared cNext = .int a.S.next_seq
  buf : lookup s.shared cBuf = .int a.S.send_buffer
  lack : lookup s.shared cLack = .int a.S.last_ack
  dup : lookup s.shared cDup = .int a.S.dupack
  rtt : lookup s.shared cRtt = TimeCell.enc a.S.est.rtt_estimate
  dev : lookup s.shared cDev = TimeCell.enc a.S.est.est_deviation
  rto : lookup s.shared cRto = TimeCell.enc a.S.est.rto
  cc : ∀ x ∈ ccCells a.S.cc, lookup s.shared x.1 = x.2
  putAt : lookup s.shared cPutAt = TimeCell.enc a.putAt
  sent : ∀ seq, lookup s.shared (cSent seq) = optEnc (AL.get? seq a.S.sent)
  tin : ∀ seq, lookup s.shared (cTmIn seq) = if (AL.get? seq a.S.timers).isSome then .int 1 else .none
  stopped : ∀ seq ∈ a.tks, lookup s.shared (cTmStopped seq) = .int (if (a.tmc seq).stopped then 1 else 0)
  expire : ∀ seq ∈ a.tks, lookup s.shared (cTmExpire seq) = TimeCell.enc (a.tmc seq).expire
  timeout : ∀ seq ∈ a.tks, lookup s.shared (cTmTimeout seq) = TimeCell.enc (a.tmc seq).timeout
  start : ∀ seq ∈ a.tks, lookup s.shared (cTmStart seq) = TimeCell.enc (a.tmc seq).start
  proc : ∀ seq ∈ a.tks, lookup s.shared (cTmProc seq) = .ev (a.tmp seq)

/-- the kernel state `s` has the configuration `a` while `act` is executing -/
structure KI (act : Option EvId) (s : KS) (a : A) : Prop where
  k : KK act s (kernOf a)
  c : CellsOK s a

end SndK
