import OnlVerif.Lemmas.CondRun
/-!
# The value of a condition: what the step that processes it leaves in `_value`
-/

namespace Cond
variable {σ : Type}

open Once (lt_of_isCond isCond_congr lt_of_cbs_some ev_default)

/-- `_populate_value` of `c` looks only at the kinds of events `≤ c` and at whether events `< c` are processed -/
theorem populate_congr_lt {s s' : KState ℚ σ} (hold : ∀ c e, e ∈ ops s c → e < c) :
    ∀ (fuel : Nat) (c : EvId), (∀ y, y ≤ c → (s'.ev y).kind = (s.ev y).kind) →
      (∀ y, y < c → s'.processed y = s.processed y) → populate fuel s' c = populate fuel s c
  | 0, _, _, _ => rfl
  | fuel + 1, c, hk, hp => by
    rw [populate_succ, populate_succ, ops_congr (hk c (Nat.le_refl _))]
    apply flatMap_congr'
    intro e he
    have hec := hold c e he
    rw [isCond_congr (hk e (Nat.le_of_lt hec)), hp e hec]
    split
    · exact populate_congr_lt hold fuel e (fun y hy => hk y (Nat.le_trans hy (Nat.le_of_lt hec)))
        (fun y hy => hp y (Nat.lt_trans hy hec))
    · rfl

/-- `_build_value` of a condition that has succeeded stores the `ConditionValue` of the leaves processed by now -/
theorem condBuild_out_ok (x : KState ℚ σ) (c : EvId) (w : Val) (ho : (x.ev c).out = some (.ok w)) :
    ((condBuild x c).ev c).out = some (.ok (.cv (populate (c + 1) x c))) := by
  have hr : Rm (fun d => Under x d c) x (removeChecks (c + 1) c x) := Rm.removeChecks x (c + 1) c x (Shape.refl x)
  have hpop : populate (c + 1) (removeChecks (c + 1) c x) c = populate (c + 1) x c :=
    populate_congr hr.shape hr.processed (c + 1) c
  rw [condBuild_eq]
  have ho1 : ((removeChecks (c + 1) c x).ev c).out = some (.ok w) := by rw [hr.out]; exact ho
  have hlt : c < (removeChecks (c + 1) c x).events.size := Once.lt_of_out _ c (by rw [ho1]; simp)
  rw [ho1]
  simp only
  rw [ev_setOut, if_pos ⟨rfl, hlt⟩, hpop]

/-- **the step that processes a condition which has succeeded leaves in its `_value` the `ConditionValue` of exactly
the leaves that are processed at that moment** (in the state before the step: a condition is not its own leaf) -/
theorem step_builds_value (body : σ → Resume → Burst ℚ σ) (fuel : Nat) {s s' : KState ℚ σ} (hi : Once.Inv0 false s)
    (hc : Inv0 s) (hsafe : Once.SafeStep body fuel s) (hdom : DomStep body fuel s) (q : QEntry ℚ) (rest : List (QEntry ℚ))
    (hq : popMin s.agenda = some (q, rest)) (hne : ops s q.ev ≠ []) (v : Val) (hok : (s.ev q.ev).out = some (.ok v))
    (hs : (step body fuel s).state? = some s') :
    (s'.ev q.ev).out = some (.ok (.cv (populate (q.ev + 1) s q.ev))) := by
  unfold _root_.step at hs
  unfold Once.SafeStep at hsafe
  unfold DomStep at hdom
  rw [hq] at hs hsafe hdom
  simp only at hs hsafe hdom
  split at hs
  · rename_i hnone
    exact absurd hnone (hi.pop_unprocessed q rest hq)
  · rename_i L hL
    rw [hL] at hsafe hdom
    simp only at hsafe hdom
    rw [closeEvent_state] at hs
    cases hs
    have hlt : q.ev < s.events.size := lt_of_cbs_some s _ L hL
    -- the `build` callback is in the list, once
    have hbc := hc.bld_cnt q.ev L hL hne
    have hbm : Cb.build q.ev ∈ L := List.count_pos_iff.mp (by omega)
    obtain ⟨pre, post, hsplit⟩ := List.append_of_mem hbm
    rw [hsplit] at hsafe hdom ⊢
    rw [List.foldl_append, List.foldl_cons]
    have h1 := Once.Inv.openEvent hi q rest hq L hL
    have c1 : CInv L q.ev (_root_.openEvent s q rest) := CInv.openEvent hc hi q rest L hL
    rw [hsplit] at h1 c1
    -- up to the `build` callback
    obtain ⟨i2, c2, m2⟩ := CInv.foldCbs_prefix body fuel pre (.build q.ev :: post)
      { rem := pre ++ .build q.ev :: post, e0 := q.ev, run := none, lv := false, strict := false }
      { s := _root_.openEvent s q rest } rfl rfl rfl rfl h1 c1 hsafe hdom
    have hsafe2 := safeCbs_append body fuel q.ev pre (.build q.ev :: post) _ hsafe
    have hdom2 := domCbs_append body fuel q.ev pre (.build q.ev :: post) _ hdom
    have hev2 : EvMono (_root_.openEvent s q rest) (pre.foldl (_root_.runCb body fuel q.ev) { s := _root_.openEvent s q rest }).s :=
      EvMono.krel.foldCbs body fuel q.ev pre { s := _root_.openEvent s q rest }
    have hun2 : Unproc (_root_.openEvent s q rest) (pre.foldl (_root_.runCb body fuel q.ev) { s := _root_.openEvent s q rest }).s :=
      Unproc.krel.foldCbs body fuel q.ev pre { s := _root_.openEvent s q rest }
    generalize pre.foldl (_root_.runCb body fuel q.ev) { s := _root_.openEvent s q rest } = lp
      at i2 c2 m2 hsafe2 hdom2 hev2 hun2 ⊢
    -- the state before the pop and the state in which `build` runs agree below the condition
    have hopen : ∀ y, (_root_.openEvent s q rest).ev y = if y = q.ev then { s.ev q.ev with cbs := none } else s.ev y := by
      intro y; rw [ev_openEvent]
      by_cases h : y = q.ev
      · rw [if_pos ⟨h, hlt⟩, if_pos h]
      · rw [if_neg (fun hh => h hh.1), if_neg h]
    have hsz : s.events.size ≤ (_root_.openEvent s q rest).events.size := by
      unfold _root_.openEvent; simp
    have hkind : ∀ y, y ≤ q.ev → (lp.s.ev y).kind = (s.ev y).kind := by
      intro y hy
      have hylt : y < s.events.size := Nat.lt_of_le_of_lt hy hlt
      rw [hev2.kind y (Nat.lt_of_lt_of_le hylt hsz), hopen]
      split
      · rename_i h; rw [h]
      · rfl
    have hproc : ∀ y, y < q.ev → lp.s.processed y = s.processed y := by
      intro y hy
      have hylt : y < s.events.size := Nat.lt_trans hy hlt
      have hyne : y ≠ q.ev := Nat.ne_of_lt hy
      have ho : ((_root_.openEvent s q rest).ev y).cbs = (s.ev y).cbs := by rw [hopen, if_neg hyne]
      apply processed_congr
      constructor
      · intro hn
        by_contra hcon
        exact hun2 y (by rw [ho]; exact hcon) hn
      · intro hn
        exact hev2.processed y (Nat.lt_of_lt_of_le hylt hsz) (by rw [ho]; exact hn)
    have hpop : populate (q.ev + 1) lp.s q.ev = populate (q.ev + 1) s q.ev :=
      populate_congr_lt hc.older (q.ev + 1) q.ev hkind hproc
    -- the outcome of the condition is still a success when `build` runs
    have hopenOut : ((_root_.openEvent s q rest).ev q.ev).out = some (.ok v) := by rw [hopen, if_pos rfl]; exact hok
    have hokp : ∃ w, (lp.s.ev q.ev).out = some (.ok w) := by
      rcases m2.out q.ev _ hopenOut with h | ⟨_, _, w, _, hw⟩
      · exact ⟨v, h⟩
      · exact ⟨w, hw⟩
    obtain ⟨w, hw⟩ := hokp
    -- `build`
    obtain ⟨c3, _⟩ := c2.condBuild_cb
    have i3 := Once.Inv.runCb body fuel lp (.build q.ev) post
      (g := { rem := .build q.ev :: post, e0 := q.ev, run := none, lv := false, strict := false })
      rfl rfl (fun h => by cases h) i2 hsafe2.1 (fun h => by cases h)
    have hval : ((_root_.runCb body fuel q.ev lp (.build q.ev)).s.ev q.ev).out =
        some (.ok (.cv (populate (q.ev + 1) s q.ev))) := by
      show ((condBuild lp.s q.ev).ev q.ev).out = _
      rw [condBuild_out_ok lp.s q.ev w hw, hpop]
    have c3' : CInv post q.ev (_root_.runCb body fuel q.ev lp (.build q.ev)).s := c3
    -- the rest of the callbacks
    obtain ⟨_, m4⟩ := CInv.foldCbs body fuel post { rem := post, e0 := q.ev, run := none, lv := false, strict := false }
      (_root_.runCb body fuel q.ev lp (.build q.ev)) rfl rfl rfl rfl i3 c3' hsafe2.2 hdom2.2
    rcases m4.out q.ev _ hval with h | ⟨hm, _⟩
    · exact h
    · have := c2.rem_bld_cnt q.ev
      rw [List.count_cons_self] at this
      have hpos := List.count_pos_iff.mpr hm
      omega

end Cond
