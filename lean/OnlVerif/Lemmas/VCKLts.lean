import OnlVerif.Lemmas.VCKAbs
import OnlVerif.Lemmas.StampCodeQ
/-!
# The VirtualClock scheduler on the kernel model: every configuration step is accepted by the StampServer LTS

`toM a now` (`VCKDefs.lean`) is the LTS state (`Net/StampServer.lean` with the record `VC.sched`) a configuration stands
for.  For each constructor of `AStep` the LTS accepts the corresponding action (`init`, `put`, `handoff`, `resume`,
`sendInit`, `sendFire`, `sendDone`, or nothing) from `toM a` to `toM a'`; and the clock advance is an accepted `tick`.
-/

set_option linter.unusedSimpArgs false
set_option linter.unusedVariables false

namespace VCK
open VCOnK QEntry

/-! ## Python dicts whose keys are known -/

section dict
variable {β : Type}

theorem lookup_dictOf (keys : List Nat) (g : Nat → β) (f : Nat) :
    Stamp.lookup (dictOf keys g) f = if f ∈ keys then some (g f) else none := by
  induction keys with
  | nil => simp [dictOf, Stamp.lookup]
  | cons k r ih =>
    simp only [dictOf, List.map_cons, Stamp.lookup, List.mem_cons]
    by_cases hk : k = f
    · subst hk; simp
    · have : ¬ f = k := fun h => hk h.symm
      simp only [hk, if_false, this, false_or]
      exact ih

/-- a dict built over the keys of another one -/
theorem map_keys_eq {γ : Type} (l : List (Nat × γ)) (g : Nat → β) :
    (l.map fun kv => (kv.1, g kv.1)) = dictOf (l.map (·.1)) g := by
  simp [dictOf, List.map_map, Function.comp_def]

theorem lookup_map_keys {γ : Type} (l : List (Nat × γ)) (g : Nat → β) (k : Nat) :
    Stamp.lookup (l.map fun kv => (kv.1, g kv.1)) k = if k ∈ l.map (·.1) then some (g k) else none := by
  rw [map_keys_eq, lookup_dictOf]

theorem mem_keys_of_lookup {γ : Type} (l : List (Nat × γ)) (k : Nat) (v : γ) (h : Stamp.lookup l k = some v) :
    k ∈ l.map (·.1) := by
  induction l with
  | nil => simp [Stamp.lookup] at h
  | cons x r ih =>
    obtain ⟨a, b⟩ := x
    simp only [Stamp.lookup] at h
    by_cases hk : a = k
    · simp [hk]
    · simp only [hk, if_false] at h
      simp [ih h]

theorem addKey_cons_ne (k f : Nat) (r : List Nat) (h : k ≠ f) : addKey (k :: r) f = k :: addKey r f := by
  unfold addKey
  have : (k :: r).contains f = r.contains f := by
    simp only [List.contains_cons]
    have : (f == k) = false := by simpa using fun h' => h h'.symm
    simp [this]
  rw [this]
  split <;> rfl

theorem addKey_of_mem (keys : List Nat) (f : Nat) (h : f ∈ keys) : addKey keys f = keys := by
  unfold addKey
  simp [h]

theorem addKey_of_not_mem (keys : List Nat) (f : Nat) (h : f ∉ keys) : addKey keys f = keys ++ [f] := by
  unfold addKey
  simp [h]

theorem mem_addKey_l (keys : List Nat) (f k : Nat) : k ∈ addKey keys f ↔ k ∈ keys ∨ k = f := by
  by_cases h : f ∈ keys
  · rw [addKey_of_mem _ _ h]
    constructor
    · exact Or.inl
    · rintro (h1 | rfl)
      · exact h1
      · exact h
  · rw [addKey_of_not_mem _ _ h]; simp

theorem setKey_dictOf (keys : List Nat) (hn : keys.Nodup) (g : Nat → β) (f : Nat) (v : β) :
    Stamp.setKey (dictOf keys g) f v = dictOf (addKey keys f) (upd g f v) := by
  induction keys with
  | nil => simp [dictOf, Stamp.setKey, addKey]
  | cons k r ih =>
    have hk := List.nodup_cons.mp hn
    by_cases hkf : k = f
    · subst hkf
      rw [addKey_of_mem _ _ List.mem_cons_self]
      simp only [dictOf, List.map_cons, Stamp.setKey, if_true, upd_same, List.cons.injEq, true_and]
      apply List.map_congr_left
      intro x hx
      have : x ≠ k := fun h => hk.1 (h ▸ hx)
      rw [upd_ne _ _ _ _ this]
    · rw [addKey_cons_ne _ _ _ hkf]
      simp only [dictOf, List.map_cons, Stamp.setKey, hkf, if_false, upd_ne _ _ _ _ hkf, List.cons.injEq, true_and]
      exact ih hk.2

/-- `d[k] = v` on a dict over the keys of `l` when `k` is one of them -/
theorem setKey_map_keys {γ : Type} (l : List (Nat × γ)) (hn : (l.map (·.1)).Nodup) (g : Nat → β) (k : Nat) (v : β)
    (hk : k ∈ l.map (·.1)) :
    Stamp.setKey (l.map fun kv => (kv.1, g kv.1)) k v = l.map fun kv => (kv.1, upd g k v kv.1) := by
  rw [map_keys_eq, map_keys_eq, setKey_dictOf _ hn, addKey_of_mem _ _ hk]

theorem bump_dictOf (keys : List Nat) (hn : keys.Nodup) (c : Nat → Int) (f : Nat) (d : Int) (h0 : f ∉ keys → c f = 0) :
    Stamp.bump (dictOf keys c) f d = dictOf (addKey keys f) (upd c f (c f + d)) := by
  induction keys with
  | nil => simp [dictOf, Stamp.bump, addKey, h0 (by simp)]
  | cons k r ih =>
    have hk := List.nodup_cons.mp hn
    by_cases hkf : k = f
    · subst hkf
      rw [addKey_of_mem _ _ List.mem_cons_self]
      simp only [dictOf, List.map_cons, Stamp.bump, if_true, upd_same, List.cons.injEq, true_and]
      apply List.map_congr_left
      intro x hx
      have : x ≠ k := fun h => hk.1 (h ▸ hx)
      rw [upd_ne _ _ _ _ this]
    · rw [addKey_cons_ne _ _ _ hkf]
      simp only [dictOf, List.map_cons, Stamp.bump, hkf, if_false, upd_ne _ _ _ _ hkf, List.cons.injEq, true_and]
      exact ih hk.2 (fun h => h0 (by simp [h, Ne.symm hkf]))

end dict

/-! ## the keys of `queue_count` -/

section keys
variable {flow : Int → Nat}

theorem keysOf_append (ids : List Int) (id : Int) : keysOf flow (ids ++ [id]) = addKey (keysOf flow ids) (flow id) := by
  simp [keysOf, List.foldl_append]

theorem addKey_nodup (l : List Nat) (k : Nat) (h : l.Nodup) : (addKey l k).Nodup := by
  by_cases hk : k ∈ l
  · rw [addKey_of_mem _ _ hk]; exact h
  · rw [addKey_of_not_mem _ _ hk]
    exact List.nodup_append.mpr ⟨h, by simp, by
      intro x hx y hy hxy
      simp only [List.mem_singleton] at hy
      exact hk (hy ▸ hxy ▸ hx)⟩

theorem keysOf_nodup (ids : List Int) : (keysOf flow ids).Nodup := by
  have : ∀ (ids : List Int) (acc : List Nat), acc.Nodup → (ids.foldl (fun l id => addKey l (flow id)) acc).Nodup := by
    intro ids
    induction ids with
    | nil => intro acc h; exact h
    | cons x r ih => intro acc h; exact ih _ (addKey_nodup _ _ h)
  exact this ids [] List.nodup_nil

/-- the flow of a packet that has been `put` is a key -/
theorem mem_keysOf_l (ids : List Int) (id : Int) (h : id ∈ ids) : flow id ∈ keysOf flow ids := by
  have : ∀ (ids : List Int) (acc : List Nat), (flow id ∈ acc ∨ id ∈ ids) →
      flow id ∈ ids.foldl (fun l id => addKey l (flow id)) acc := by
    intro ids
    induction ids with
    | nil =>
      intro acc h
      rcases h with h | h
      · exact h
      · simp at h
    | cons x r ih =>
      intro acc h
      simp only [List.foldl_cons]
      apply ih
      rcases h with h | h
      · exact Or.inl ((mem_addKey_l _ _ _).mpr (Or.inl h))
      · rcases List.mem_cons.mp h with rfl | h
        · exact Or.inl ((mem_addKey_l _ _ _).mpr (Or.inr rfl))
        · exact Or.inr h
  exact this ids [] (Or.inr h)

theorem A.keys_nodup (a : A) : (a.keys flow).Nodup := keysOf_nodup _

end keys

/-! ## the `PriorityStore` hands out an item with a minimal `(stamp, arrival)` key -/

section pick
variable {N scale F : Nat} {flow size : Int → Nat} {cfg : VcCfg ℚ} {a : A} {now : ℚ}

/-- along the `put`s ids increase and arrival instants do not decrease -/
theorem mono_cases {l : List PutRec} (hm : l.Pairwise fun x y => x.1 < y.1 ∧ x.2.1 ≤ y.2.1) {x y : PutRec}
    (hx : x ∈ l) (hy : y ∈ l) (hxy : x.1 ≤ y.1) : x = y ∨ (x.1 < y.1 ∧ x.2.1 ≤ y.2.1) := by
  induction l with
  | nil => simp at hx
  | cons h t ih =>
    obtain ⟨h1, h2⟩ := List.pairwise_cons.mp hm
    rcases List.mem_cons.mp hx with rfl | hx'
    · rcases List.mem_cons.mp hy with rfl | hy'
      · exact Or.inl rfl
      · exact Or.inr (h1 y hy')
    · rcases List.mem_cons.mp hy with rfl | hy'
      · have := (h1 x hx').1
        omega
      · exact ih h2 hx' hy'

theorem takeId_map (l : List PutRec) (w : PutRec) (hw : w ∈ l) (hinj : ∀ x ∈ l, x.1.toNat = w.1.toNat → x = w) :
    Stamp.takeId w.1.toNat (l.map (itemW flow size)) = some (itemW flow size w, (l.erase w).map (itemW flow size)) := by
  induction l with
  | nil => simp at hw
  | cons x xs ih =>
    by_cases hx : x.1.toNat = w.1.toNat
    · have := hinj x List.mem_cons_self hx
      subst this
      simp [Stamp.takeId, itemW, pktOf]
    · have hne : x ≠ w := fun h => hx (by rw [h])
      have hw' : w ∈ xs := by
        rcases List.mem_cons.mp hw with h | h
        · exact absurd h.symm hne
        · exact h
      have hid : ¬ (itemW flow size x).pkt.id = w.1.toNat := hx
      have he : (x :: xs).erase w = x :: xs.erase w := by
        rw [List.erase_cons_tail]
        simpa using hne
      simp only [List.map_cons, Stamp.takeId, hid, if_false, he]
      rw [ih hw' (fun y hy => hinj y (List.mem_cons_of_mem _ hy))]

/-- **what `K`'s `PriorityStore` hands out is accepted by the LTS**: the least integer carries a minimal key -/
theorem pick_least (hi : AInv N scale F flow cfg a now) {w : PutRec} (hw : IsLeast N scale a.items w) :
    Stamp.pick (a.items.map (itemW flow size)) w.1.toNat =
      .ok (itemW flow size w, (a.items.erase w).map (itemW flow size)) := by
  have hwp : w ∈ a.puts := hi.sub.subset hw.1
  obtain ⟨-, hw0, hwN, -, hwG⟩ := hi.putOK w hwp
  apply Stamp.pick_ok_of_min
  · apply takeId_map _ _ hw.1
    intro x hx hxw
    have hxp : x ∈ a.puts := hi.sub.subset hx
    obtain ⟨-, hx0, -, -, -⟩ := hi.putOK x hxp
    have hxe : x.1 = w.1 := by omega
    rcases mono_cases hi.mono hxp hwp (le_of_eq hxe) with h | h
    · exact h
    · omega
  · intro y hy
    obtain ⟨x, hx, rfl⟩ := List.mem_map.mp hy
    have hxp : x ∈ a.puts := hi.sub.subset hx
    obtain ⟨-, hx0, hxN, -, hxG⟩ := hi.putOK x hxp
    obtain ⟨h1, h2⟩ := stampItem_le hi.grid.1 hwG hxG hw0 hx0 hxN (hw.2 x hx)
    rintro (h | ⟨h3, h4⟩)
    · exact absurd h (not_lt.mpr h1)
    · have hle : w.1 ≤ x.1 := h2 h3.symm
      have h5 : w.2.1 ≤ x.2.1 := by
        rcases mono_cases hi.mono hwp hxp hle with h | h
        · rw [h]
        · exact h.2
      exact absurd h4 (not_lt.mpr h5)

end pick

/-! ## runs of the LTS -/

section lts
variable {N scale F : Nat} {flow size : Int → Nat} {cfg : VcCfg ℚ} {a a' : A} {now t : ℚ} {q : QEntry ℚ} {n e : Nat}
  {new : List (HEv ℚ)}

/-- what the LTS side of a configuration step delivers: an accepted action sequence into the new configuration's LTS
state, with the packets that entered and left -/
def LtsOK (flow size : Int → Nat) (cfg : VcCfg ℚ) (a : A) (t : ℚ) (a' : A) (ins outs : List SPkt) : Prop :=
  ∃ acts, Stamp.runActs (VC.sched cfg) (toM flow size cfg a t) acts = .ok (toM flow size cfg a' t, ins, outs)

theorem ltsOK_nothing (h : toM flow size cfg a' t = toM flow size cfg a t) : LtsOK flow size cfg a t a' [] [] :=
  ⟨[], by rw [h]; rfl⟩

theorem ltsOK_one (act : StAct ℚ) (o : StOut)
    (h : Stamp.step (VC.sched cfg) (toM flow size cfg a t) act = .ok (toM flow size cfg a' t, o)) :
    LtsOK flow size cfg a t a' (Stamp.entered act o) (Stamp.left o) := by
  refine ⟨[act], ?_⟩
  simp only [Stamp.runActs, h, List.append_nil]

theorem issueGet_none {σ : Type} (s : StState ℚ σ) (h : s.items = []) :
    Stamp.issueGet s none = .ok { s with getPending := true } := by
  unfold Stamp.issueGet
  simp only [h]

theorem issueGet_some {σ : Type} (s : StState ℚ σ) (id : Nat) (it : Item ℚ) (rest : List (Item ℚ))
    (h : Stamp.pick s.items id = .ok (it, rest)) :
    Stamp.issueGet s (some id) = .ok { s with items := rest, handed := some it } := by
  cases hitems : s.items with
  | nil => rw [hitems] at h; simp [Stamp.pick, Stamp.takeId] at h
  | cons x xs =>
    rw [hitems] at h
    simp only [Stamp.issueGet, hitems, h]

theorem txTime_eq (id : Int) : Stamp.txTime (VC.sched cfg) (pktOf flow size id) = VCOnK.txTime size cfg.rate id := rfl

theorem txTime_nonneg_l (hr : 0 < cfg.rate) (id : Int) : 0 ≤ VCOnK.txTime size cfg.rate id := by
  unfold VCOnK.txTime
  rw [Num.ofNat_rat]
  exact div_nonneg (Nat.cast_nonneg _) (le_of_lt hr)

/-- `put` of a packet of a configured flow does not raise, and computes what `AStep.srcPut` says -/
theorem put_toM (hi : AInv N scale F flow cfg a now) {id : Int} (hf : flow id < F) (t : ℚ) (total : Int) :
    VC.put cfg (toM flow size cfg a t).sch t total (pktOf flow size id) =
      .ok ({ vc := cfg.vticks.map fun kv =>
               (kv.1, upd a.vc (flow id) (VC.vcOf (a.vc (flow id)) t (vtOf cfg (flow id)) (size id)) kv.1),
             aux := cfg.vticks.map fun kv =>
               (kv.1, upd a.aux (flow id) (VC.auxOf t (a.aux (flow id)) (vtOf cfg (flow id))) kv.1) },
           VC.auxOf t (a.aux (flow id)) (vtOf cfg (flow id))) := by
  obtain ⟨vt, hvt, -⟩ := hi.cfgOK.vt _ hf
  have hk : flow id ∈ cfg.vticks.map (·.1) := mem_keys_of_lookup _ _ _ hvt
  unfold VC.put
  simp only [pktOf, toM, hi.cfgOK.f2c _ hf, lookup_map_keys, hk, if_true, hvt, vtOf, Option.getD_some,
    setKey_map_keys _ hi.cfgOK.nodup _ _ _ hk]

theorem doPut_toM (hi : AInv N scale F flow cfg a now) {id : Int} (hf : flow id < F) (t : ℚ) :
    Stamp.doPut (VC.sched cfg) (toM flow size cfg a t) (pktOf flow size id) =
      .ok (Stamp.enqueue (toM flow size cfg a t)
            { vc := cfg.vticks.map fun kv =>
                (kv.1, upd a.vc (flow id) (VC.vcOf (a.vc (flow id)) t (vtOf cfg (flow id)) (size id)) kv.1),
              aux := cfg.vticks.map fun kv =>
                (kv.1, upd a.aux (flow id) (VC.auxOf t (a.aux (flow id)) (vtOf cfg (flow id))) kv.1) }
            (VC.auxOf t (a.aux (flow id)) (vtOf cfg (flow id))) (pktOf flow size id), .accepted) := by
  have h : (VC.sched cfg).onPut (toM flow size cfg a t).sch (toM flow size cfg a t).now
      (Stamp.qcTotal (toM flow size cfg a t).queueCount) (pktOf flow size id) = _ :=
    put_toM (size := size) hi hf t (Stamp.qcTotal (toM flow size cfg a t).queueCount)
  unfold Stamp.doPut
  rw [h]

theorem keys_snoc (w : PutRec) : keysOf flow ((a.puts ++ [w]).map (·.1)) = addKey (a.keys flow) (flow w.1) := by
  rw [List.map_append, List.map_singleton, keysOf_append]
  rfl

/-- **every configuration step is accepted by the LTS** -/
theorem ltsOK_step (hi : AInv N scale F flow cfg a q.time) (h : AStep N scale flow size cfg n e a q a' new) :
    LtsOK flow size cfg a q.time a' (putPk flow size new) (outPk flow size new) := by
  have hrun := hi.run
  cases h with
  | runInit h =>
    rw [h] at hrun
    obtain ⟨-, -, -, hit, -, -⟩ := hrun
    refine ltsOK_one (.init none) .nothing ?_
    have hst : (toM flow size cfg a q.time).started = false := by simp [toM, h]
    simp only [Stamp.step, Stamp.doInit, hst, Bool.false_eq_true, if_false]
    rw [issueGet_none _ (by simp [toM, hit])]
    simp only [toM, h, hit, A.keys]
  | pktResume g w h =>
    refine ltsOK_one .resume .nothing ?_
    have hh : (toM flow size cfg a q.time).handed = some (itemW flow size w) := by simp [toM, h]
    simp only [Stamp.step, Stamp.doResume, hh]
    simp only [toM, h, itemW, A.keys]
  | sendInit p id h =>
    refine ltsOK_one .sendInit .nothing ?_
    have hsp : (toM flow size cfg a q.time).spawned = some (pktOf flow size id) := by simp [toM, h]
    have hr : Num.eqb (VC.sched cfg).rate (Num.zero : ℚ) = false := by
      rw [Bool.eq_false_iff]
      intro hc
      rw [Num.eqb_iff, zero_eq'] at hc
      exact absurd hc (ne_of_gt hi.cfgOK.rate)
    have hneg : ¬ VCOnK.txTime size cfg.rate id < (Num.zero : ℚ) := by
      rw [zero_eq']
      exact not_lt.mpr (txTime_nonneg_l hi.cfgOK.rate id)
    simp only [Stamp.step, Stamp.doSendInit, hsp, hr, Bool.false_eq_true, if_false, hneg, txTime_eq]
    simp only [toM, h, Option.map_some, A.keys]
  | sendFire p t id h =>
    rw [h] at hrun
    obtain ⟨-, hcur, hfid, w, hw, hwid⟩ := hrun
    have hk : flow id ∈ a.keys flow := by
      subst hwid
      exact mem_keysOf_l _ _ (List.mem_map.mpr ⟨w, hw, rfl⟩)
    refine ltsOK_one .sendFire (.depart (pktOf flow size id)) ?_
    have htx : (toM flow size cfg a q.time).tx = some (pktOf flow size id, q.time) := by simp [toM, h]
    have hnow : (toM flow size cfg a q.time).now = q.time := rfl
    simp only [Stamp.step, Stamp.doSendFire, htx, hnow, lt_irrefl, if_false, Stamp.release]
    have hk' : addKey (keysOf flow (List.map (fun x => x.1) a.puts)) (flow id) = keysOf flow (List.map (fun x => x.1) a.puts) :=
      addKey_of_mem _ _ hk
    simp only [toM, h, pktOf, A.keys, bump_dictOf _ (keysOf_nodup _) _ _ _ (fun h0 => absurd hk h0), hk', Option.map_none]
  | doneHit p id0 w h hw =>
    refine ltsOK_one (.sendDone (some w.1.toNat)) .nothing ?_
    have hf : (toM flow size cfg a q.time).fin = some (pktOf flow size id0) := by simp [toM, h]
    have hpk := pick_least (size := size) hi hw
    simp only [Stamp.step, Stamp.doSendDone, hf, VC.sched, VC.done]
    rw [issueGet_some _ _ _ _ (by simpa [toM] using hpk)]
    simp only [toM, h, A.keys]
  | doneBlock p id0 h hit =>
    refine ltsOK_one (.sendDone none) .nothing ?_
    have hf : (toM flow size cfg a q.time).fin = some (pktOf flow size id0) := by simp [toM, h]
    simp only [Stamp.step, Stamp.doSendDone, hf, VC.sched, VC.done]
    rw [issueGet_none _ (by simp [toM, hit])]
    simp only [toM, h, A.keys]
  | srcInit arr h => exact ltsOK_nothing rfl
  | srcPut id arr h =>
    have hs := hi.src
    rw [h] at hs
    obtain ⟨-, hwk, -, -⟩ := hs
    have hfid : flow id < F := (hwk.gap (0, id) List.mem_cons_self).2.1
    have h0c : flow id ∉ a.keys flow → a.cnt (flow id) = 0 := fun hk => (hi.keysOK _ hk).1
    have h0b : flow id ∉ a.keys flow → a.byt (flow id) = 0 := fun hk => (hi.keysOK _ hk).2
    show LtsOK flow size cfg a q.time _ (Stamp.entered (.put (pktOf flow size id)) .accepted) (Stamp.left .accepted)
    refine ltsOK_one (.put (pktOf flow size id)) .accepted ?_
    simp only [Stamp.step]
    rw [doPut_toM hi hfid]
    simp only [Stamp.enqueue, toM, A.keys, keysOf_append, putRec, pktOf, bump_dictOf _ (keysOf_nodup _) _ _ _ h0c,
      bump_dictOf _ (keysOf_nodup _) _ _ _ h0b, List.map_append, List.map_singleton, itemW]
  | srcEnd h => exact ltsOK_nothing rfl
  | pendNoop l1 l2 hpe hno => exact ltsOK_nothing rfl
  | pendHand g w l1 l2 hpe h hw =>
    refine ltsOK_one (.handoff w.1.toNat) .nothing ?_
    have hg : (toM flow size cfg a q.time).getPending = true := by simp [toM, h]
    have hpk := pick_least (size := size) hi hw
    have hpk' : Stamp.pick (toM flow size cfg a q.time).items w.1.toNat = _ := hpk
    simp only [Stamp.step, Stamp.doHandoff, hg, if_true, hpk']
    simp only [toM, h, A.keys]

/-- each configuration step is a (possibly empty) action sequence the LTS accepts, ending in the LTS state of the new
configuration -/
theorem lts_step {h0 : List (HEv ℚ)} (hi : AInv N scale F flow cfg a q.time) (hl : LInv a h0)
    (h : AStep N scale flow size cfg n e a q a' new) :
    ∃ acts, Stamp.runActs (VC.sched cfg) (toM flow size cfg a q.time) acts =
      .ok (toM flow size cfg a' q.time, putPk flow size new, outPk flow size new) :=
  ltsOK_step hi h

/-! ## the clock -/

/-- the LTS accepts the clock advance to the next entry -/
theorem lts_tick (hi : AInv N scale F flow cfg a now) (hq : IsMin a q) (h : now < q.time) :
    Stamp.step (VC.sched cfg) (toM flow size cfg a now) (.tick q.time) = .ok (toM flow size cfg a q.time, .nothing) := by
  have hne : ∀ x ∈ a.entries, x.time ≠ now := fun x hx hxt => absurd (hi.time_eq hq hx hxt) (ne_of_gt h)
  have hp := hi.run
  have hok : Stamp.tickOk (toM flow size cfg a now) q.time = none := by
    rw [Stamp.tickOk_iff]
    cases hr : a.run with
    | init q0 => rw [hr] at hp; exact absurd hp.1 (hne q0 (mem_run (by simp [hr, RPhase.entries])))
    | H g w q0 => rw [hr] at hp; exact absurd hp.1 (hne q0 (mem_run (by simp [hr, RPhase.entries])))
    | S p id q0 => rw [hr] at hp; exact absurd hp.1 (hne q0 (mem_run (by simp [hr, RPhase.entries])))
    | F p id q0 => rw [hr] at hp; exact absurd hp.1 (hne q0 (mem_run (by simp [hr, RPhase.entries])))
    | T p t id q0 =>
      have h2 : q.time ≤ q0.time := not_keyLt_time (hq.2 q0 (mem_run (by simp [hr, RPhase.entries])))
      refine ⟨le_of_lt h, by simp [toM, hr], by simp [toM, hr], by simp [toM, hr], by simp [toM, hr],
        by simp [toM, hr], ?_⟩
      intro p' due htx
      simp only [toM, hr, Option.some.injEq, Prod.mk.injEq] at htx
      rw [← htx.2]; exact h2
    | W g =>
      rw [hr] at hp
      refine ⟨le_of_lt h, by simp [toM, hr], by simp [toM, hr], by simp [toM, hr], by simp [toM, hr], ?_,
        by simp [toM, hr]⟩
      rintro ⟨-, hit⟩
      have hit' : a.items ≠ [] := by
        intro hc; apply hit; simp [toM, hc]
      obtain ⟨u, hu⟩ := List.exists_mem_of_ne_nil _ (hp.1 hit')
      exact hne u (mem_pend hu) (hi.pend _ hu).1
  simp only [Stamp.step, Stamp.doTick, hok]
  rfl

/-- the clock advance to the next entry is an accepted `tick` (or nothing) -/
theorem lts_advance (hi : AInv N scale F flow cfg a now) (hq : IsMin a q) :
    ∃ acts, Stamp.runActs (VC.sched cfg) (toM flow size cfg a now) acts = .ok (toM flow size cfg a q.time, [], []) := by
  rcases eq_or_lt_of_le (hi.now_le hq) with h | h
  · exact ⟨[], by rw [← h]; rfl⟩
  · refine ⟨[.tick q.time], ?_⟩
    simp only [Stamp.runActs, lts_tick hi hq h]
    rfl

/-- the initial configuration stands for the initial LTS state -/
theorem toM_a0 (arrivals : List (ℚ × Int)) : toM flow size cfg (a0 arrivals) 0 = VC.start cfg 0 := by
  simp [toM, a0, VC.start, Stamp.init, VC.init0, A.keys, keysOf, dictOf, zero_eq']

/-! ## histories -/

theorem putPk_append (l1 l2 : List (HEv ℚ)) : putPk flow size (l1 ++ l2) = putPk flow size l1 ++ putPk flow size l2 := by
  simp [putPk, List.filterMap_append]

theorem outPk_append (l1 l2 : List (HEv ℚ)) : outPk flow size (l1 ++ l2) = outPk flow size l1 ++ outPk flow size l2 := by
  simp [outPk, List.filterMap_append]

/-- the history-linked part of the invariant is preserved by a configuration step -/
theorem linv_step_l {h0 : List (HEv ℚ)} (hl : LInv a h0) (h : AStep N scale flow size cfg n e a q a' new) :
    LInv a' (h0 ++ new) := by
  cases h <;> first
    | exact ⟨by simpa [List.filterMap_append] using hl.puts, by simpa [List.filterMap_append] using hl.stamps, hl.recv⟩
    | (refine ⟨?_, ?_, ?_⟩
       · simp [List.filterMap_append, hl.puts, putRec]
       · simp [List.filterMap_append, hl.stamps, putRec]
       · simp [hl.recv])

end lts

end VCK
