import OnlVerif.Lemmas.PortKAbs
/-!
# The Port on the kernel model: every configuration step is sound

For each constructor of `AStep`: the abstract invariant is kept (with the departures appended), the step budget
drops by one, and the LTS accepts the corresponding actions (`init`, `put`, `handoff`, `resume`, `fire`, or nothing).
All statements are at the instant of the processed entry (`AInv.advance` / `lts_advance` bring the clock there).
-/

set_option linter.unusedSimpArgs false

namespace PortK
open PortOnK QEntry

variable {size : Int → Nat} {rate : ℚ} {ql : Option Int}
variable {arrivals : List (ℚ × Int)} {a : A} {outs : List (Int × ℚ)} {q : QEntry ℚ}

/-- what a sound configuration step delivers -/
def StepOK (size : Int → Nat) (rate : ℚ) (ql : Option Int) (arrivals : List (ℚ × Int)) (a : A) (q : QEntry ℚ) (outs : List (Int × ℚ))
    (a' : A) (new : List (Int × ℚ)) : Prop :=
  AInv size rate ql arrivals a' q.time (outs ++ new) ∧ a'.mu + 1 ≤ a.mu ∧
  ∃ acts insI, a'.accIds = a.accIds ++ insI ∧
    Fifo.runActs (Port.dev (cfg rate ql)) (toF size a q.time) acts =
      .ok (toF size a' q.time, insI.map Int.toNat, new.map (·.1.toNat))

theorem stepOK_portInit (hi : AInv size rate ql arrivals a q.time outs) (g : EvId) (h : a.port = .init q) :
    StepOK size rate ql arrivals a q outs { a with port := .W g } [] := by
  have hp := hi.port
  rw [h] at hp
  obtain ⟨-, -, hit, hpe, hl⟩ := hp
  refine ⟨⟨trivial, hi.src, hi.pend, ?_, hi.last, ?_, ?_, hi.puts, hi.nput, hi.nacc, hi.accnone⟩, ?_, [.init], [], by simp, ?_⟩
  · intro _ hne; exact absurd hit hne
  · intro x hx
    apply hi.due
    simp only [A.entries, PPhase.entries, List.nil_append] at hx
    simp [A.entries, hx]
  · intro hql
    have := hi.ghost hql
    simp only [pred, h, hit, List.append_nil] at this ⊢
    exact this
  · simp [A.mu, h, PPhase.mu]; omega
  · simp [Fifo.runActs, Fifo.step, toF, h, hit, Fifo.issueGet, Fifo.entered, Fifo.left]

theorem stepOK_srcEnd (hi : AInv size rate ql arrivals a q.time outs) (h : a.src = .ending q) :
    StepOK size rate ql arrivals a q outs { a with src := .done } [] := by
  refine ⟨⟨hi.port, trivial, hi.pend, hi.idle, hi.last, ?_, ?_, ?_, hi.nput, hi.nacc, hi.accnone⟩, ?_, [], [], by simp, ?_⟩
  · intro x hx
    apply hi.due
    simp only [A.entries, SPhase.entries, List.nil_append] at hx
    simp only [A.entries, List.mem_append]
    rcases List.mem_append.mp hx with hx | hx
    · exact Or.inl hx
    · exact Or.inr (Or.inr hx)
  · intro hql
    have := hi.ghost hql
    simp only [pred, afterQ, h, SPhase.todo, List.append_nil] at this ⊢
    exact this
  · have := hi.puts
    simp only [h, SPhase.ids] at this ⊢
    exact this
  · simp [A.mu, h, SPhase.mu]; omega
  · simp [Fifo.runActs, toF]

/-- entries of the old configuration without the port's / source's / pending one stay entries -/
theorem due_of_sub {a a' : A} {t : ℚ} (hd : ∀ x ∈ a.entries, t ≤ x.time)
    (hsub : ∀ x ∈ a'.entries, x ∈ a.entries ∨ t ≤ x.time) : ∀ x ∈ a'.entries, t ≤ x.time := by
  intro x hx
  rcases hsub x hx with h | h
  · exact hd x h
  · exact h

theorem stepOK_srcInitEnd (hi : AInv size rate ql arrivals a q.time outs) (q' : QEntry ℚ) (h : a.src = .init q [])
    (ht : q'.time = q.time) (hp : q'.prio = NORMAL) :
    StepOK size rate ql arrivals a q outs { a with src := .ending q' } [] := by
  refine ⟨⟨hi.port, ⟨ht, hp⟩, hi.pend, hi.idle, hi.last, ?_, ?_, ?_, hi.nput, hi.nacc, hi.accnone⟩, ?_, [], [], by simp, ?_⟩
  · apply due_of_sub hi.due
    intro x hx
    simp only [A.entries, SPhase.entries, List.mem_append, List.mem_singleton] at hx ⊢
    rcases hx with hx | hx | hx
    · exact Or.inl (Or.inl hx)
    · exact Or.inr (by rw [hx, ht])
    · exact Or.inl (Or.inr (Or.inr hx))
  · intro hql
    have := hi.ghost hql
    simp only [pred, afterQ, h, SPhase.todo, List.append_nil, departures] at this ⊢
    exact this
  · have := hi.puts
    simp only [h, SPhase.ids, List.map_nil] at this ⊢
    exact this
  · simp [A.mu, h, SPhase.mu]; omega
  · simp [Fifo.runActs, toF]

theorem stepOK_srcInitWait (hi : AInv size rate ql arrivals a q.time outs) (q' : QEntry ℚ) (gap : ℚ) (id : Int)
    (rest : List (ℚ × Int)) (h : a.src = .init q ((gap, id) :: rest)) (ht : q'.time = q.time + gap)
    (hp : q'.prio = NORMAL) :
    StepOK size rate ql arrivals a q outs { a with src := .wait id rest q' } [] := by
  have hs := hi.src
  rw [h] at hs
  obtain ⟨-, -, hg, hpe⟩ := hs
  have hgap : 0 ≤ gap := hg (gap, id) (by simp)
  refine ⟨⟨hi.port, ⟨hp, fun x hx => hg x (List.mem_cons_of_mem _ hx), ?_⟩, hi.pend, hi.idle, hi.last, ?_, ?_, ?_,
    hi.nput, hi.nacc, hi.accnone⟩, ?_, [], [], by simp, ?_⟩
  · intro u hu; simp only at hu; rw [hpe] at hu; cases hu
  · apply due_of_sub hi.due
    intro x hx
    simp only [A.entries, SPhase.entries, List.mem_append, List.mem_singleton] at hx ⊢
    rcases hx with hx | hx | hx
    · exact Or.inl (Or.inl hx)
    · exact Or.inr (by rw [hx, ht]; linarith)
    · exact Or.inl (Or.inr (Or.inr hx))
  · intro hql
    have := hi.ghost hql
    simp only [pred, afterQ, h, SPhase.todo, ht, departures_shift size rate _ q.time gap, List.append_nil] at this ⊢
    exact this
  · have := hi.puts
    simp only [h, SPhase.ids, List.map_cons] at this ⊢
    exact this
  · simp [A.mu, h, SPhase.mu]; omega
  · simp [Fifo.runActs, toF]

theorem stepOK_putIdle (hi : AInv size rate ql arrivals a q.time outs) (h : a.pend = some q)
    (hw : a.port.getQ = [] ∨ a.items = []) :
    StepOK size rate ql arrivals a q outs { a with pend := none } [] := by
  have hp := hi.port
  have hs := hi.src
  refine ⟨⟨?_, ?_, ?_, ?_, hi.last, ?_, ?_, hi.puts, hi.nput, hi.nacc, hi.accnone⟩, ?_, [], [], by simp, ?_⟩
  · cases hport : a.port with
    | init q0 => rw [hport] at hp; rw [hp.2.2.2.1] at h; cases h
    | W g => trivial
    | H g id q0 => rw [hport] at hp; exact hp
    | T t id q0 => rw [hport] at hp; exact hp
  · cases hsrc : a.src with
    | init q0 arr => rw [hsrc] at hs; rw [hs.2.2.2] at h; cases h
    | wait id rest q0 => rw [hsrc] at hs; exact ⟨hs.1, hs.2.1, fun u hu => by cases hu⟩
    | ending q0 => rw [hsrc] at hs; exact hs
    | done => trivial
  · intro u hu; cases hu
  · intro hidle hne
    exfalso
    cases hport : a.port with
    | init q0 => rw [hport] at hp; exact hne hp.2.2.1
    | W g => rcases hw with hw | hw
             · simp [hport, PPhase.getQ] at hw
             · exact hne hw
    | H g id q0 => simp [hport, PPhase.idle] at hidle
    | T t id q0 => simp [hport, PPhase.idle] at hidle
  · apply due_of_sub hi.due
    intro x hx
    simp only [A.entries, Option.toList, List.mem_append] at hx ⊢
    rcases hx with hx | hx | hx
    · exact Or.inl (Or.inl hx)
    · exact Or.inl (Or.inr (Or.inl hx))
    · cases hx
  · intro hql
    have := hi.ghost hql
    simp only [pred, afterQ, List.append_nil] at this ⊢
    exact this
  · simp [A.mu, h]; omega
  · simp [Fifo.runActs, toF]

theorem stepOK_putHand (hi : AInv size rate ql arrivals a q.time outs) (q' : QEntry ℚ) (g : EvId) (i : Int) (is : List Int)
    (h : a.pend = some q) (hw : a.port = .W g) (hit : a.items = i :: is) (ht : q'.time = q.time ∧ q'.prio = NORMAL) :
    StepOK size rate ql arrivals a q outs { a with pend := none, port := .H g i q', items := is } [] := by
  have hs := hi.src
  refine ⟨⟨ht, ?_, ?_, ?_, hi.last, ?_, ?_, hi.puts, hi.nput, hi.nacc, hi.accnone⟩, ?_, [.handoff], [], by simp, ?_⟩
  · cases hsrc : a.src with
    | init q0 arr => rw [hsrc] at hs; rw [hs.2.2.2] at h; cases h
    | wait id rest q0 => rw [hsrc] at hs; exact ⟨hs.1, hs.2.1, fun u hu => by cases hu⟩
    | ending q0 => rw [hsrc] at hs; exact hs
    | done => trivial
  · intro u hu; cases hu
  · intro hidle; simp [PPhase.idle] at hidle
  · apply due_of_sub hi.due
    intro x hx
    simp only [A.entries, PPhase.entries, Option.toList, List.mem_append, List.mem_singleton] at hx ⊢
    rcases hx with hx | hx | hx
    · exact Or.inr (by rw [hx, ht.1])
    · exact Or.inl (Or.inr (Or.inl hx))
    · cases hx
  · intro hql
    have := hi.ghost hql
    simp only [pred, afterQ, hw, hit, serve, serveEnd, List.append_nil, List.cons_append] at this ⊢
    exact this
  · simp [A.mu, h, hw, hit, PPhase.mu]; omega
  · simp [Fifo.runActs, Fifo.step, toF, hw, hit, Fifo.entered, Fifo.left]

theorem stepOK_serveTx (hr : 0 < rate) (hi : AInv size rate ql arrivals a q.time outs) (q' : QEntry ℚ) (g t : EvId) (id : Int)
    (h : a.port = .H g id q) (ht : q'.time = q.time + txTime size rate id ∧ q'.prio = NORMAL) :
    StepOK size rate ql arrivals a q outs { a with port := .T t id q', busy := true, bsz := size id } [] := by
  have htx := tx_eq_txTime size rate hr id
  refine ⟨⟨ht.2, hi.src, hi.pend, ?_, hi.last, ?_, ?_, hi.puts, hi.nput, hi.nacc, hi.accnone⟩, ?_, [.resume 0 0], [], by simp, ?_⟩
  · intro hidle; simp [PPhase.idle] at hidle
  · apply due_of_sub hi.due
    intro x hx
    simp only [A.entries, PPhase.entries, List.mem_append, List.mem_singleton] at hx ⊢
    rcases hx with hx | hx
    · refine Or.inr ?_
      rw [hx, ht.1, ← htx]
      have := tx_nonneg size rate id
      linarith
    · exact Or.inl (Or.inr hx)
  · intro hql
    have := hi.ghost hql
    simp only [pred, afterQ, h, ht.1, ← htx, List.append_nil] at this ⊢
    exact this
  · simp [A.mu, h, PPhase.mu]; omega
  · have hz : (Num.zero : ℚ) < rate := by rw [zero_eq']; exact hr
    simp [Fifo.runActs, Fifo.step, toF, h, Port.dev, Port.onResume, cfg, hz, Fifo.proceed, Port.txTime, pktOf, txTime, ht.1,
      Fifo.entered, Fifo.left]

theorem stepOK_fireIdle (hi : AInv size rate ql arrivals a q.time outs) (t g : EvId) (id : Int)
    (h : a.port = .T t id q) (hit : a.items = []) :
    StepOK size rate ql arrivals a q outs
      { a with port := .W g, bytes := a.bytes - (size id : Int), busy := false, bsz := 0, last := some q.time }
      [(id, q.time)] := by
  refine ⟨⟨trivial, hi.src, hi.pend, ?_, ?_, ?_, ?_, hi.puts, hi.nput, hi.nacc, hi.accnone⟩, ?_, [.fire], [], by simp, ?_⟩
  · intro _ hne; exact absurd hit hne
  · intro d hd; cases hd; exact le_refl _
  · apply due_of_sub hi.due
    intro x hx
    simp only [A.entries, PPhase.entries, List.nil_append] at hx
    exact Or.inl (by simp [A.entries, hx])
  · intro hql
    have := hi.ghost hql
    simp only [pred, afterQ, h, hit, serve, serveEnd, List.append_nil, List.nil_append, List.append_assoc,
      List.cons_append] at this ⊢
    exact this
  · simp [A.mu, h, PPhase.mu]; omega
  · simp [Fifo.runActs, Fifo.step, toF, h, hit, Port.dev, Port.onFire, Port.onDone, Fifo.proceed, Fifo.issueGet, pktOf,
      Fifo.entered, Fifo.left]

theorem stepOK_fireNext (hi : AInv size rate ql arrivals a q.time outs) (q' : QEntry ℚ) (t g : EvId) (id i : Int)
    (is : List Int) (h : a.port = .T t id q) (hit : a.items = i :: is) (ht : q'.time = q.time ∧ q'.prio = NORMAL) :
    StepOK size rate ql arrivals a q outs
      { a with port := .H g i q', items := is, bytes := a.bytes - (size id : Int), busy := false, bsz := 0,
               last := some q.time } [(id, q.time)] := by
  refine ⟨⟨ht, hi.src, hi.pend, ?_, ?_, ?_, ?_, hi.puts, hi.nput, hi.nacc, hi.accnone⟩, ?_, [.fire], [], by simp, ?_⟩
  · intro hidle; simp [PPhase.idle] at hidle
  · intro d hd; cases hd; exact le_refl _
  · apply due_of_sub hi.due
    intro x hx
    simp only [A.entries, PPhase.entries, List.mem_append, List.mem_singleton] at hx ⊢
    rcases hx with hx | hx
    · exact Or.inr (by rw [hx, ht.1])
    · exact Or.inl (Or.inr hx)
  · intro hql
    have := hi.ghost hql
    simp only [pred, afterQ, h, hit, serve, serveEnd, List.append_nil, List.nil_append, List.append_assoc,
      List.cons_append] at this ⊢
    exact this
  · simp [A.mu, h, hit, PPhase.mu]; omega
  · simp [Fifo.runActs, Fifo.step, toF, h, hit, Port.dev, Port.onFire, Port.onDone, Fifo.proceed, Fifo.issueGet, pktOf,
      Fifo.entered, Fifo.left]

/-- an arrival at `t` joins a queue that is served until after `t`: it leaves behind the queue -/
theorem busy_put (F t : ℚ) (items : List Int) (id : Int) (rest : List (ℚ × Int)) (h : t ≤ F) :
    serve size rate F items ++ departures size rate (some (serveEnd size rate F items)) t ((0, id) :: rest) =
      serve size rate F (items ++ [id]) ++
        departures size rate (some (serveEnd size rate F (items ++ [id]))) t rest := by
  rw [departures_busy size rate _ _ _ _ (le_trans h (le_serveEnd size rate F items)), serve_append, serveEnd_append,
    List.append_assoc]
  rfl

theorem todo_wait (id : Int) (rest : List (ℚ × Int)) (q : QEntry ℚ) (t : ℚ) :
    (SPhase.wait id rest q).todo t = (q.time, (0, id) :: rest) := rfl

/-- **an arrival** (`Port.put` by the source, which then goes on to `S'`) -/
theorem stepOK_srcPut (hi : AInv size rate ql arrivals a q.time outs) (hq : IsMin a q) (u : QEntry ℚ) (id : Int)
    (rest : List (ℚ × Int)) (S' : SPhase) (h : a.src = .wait id rest q) (hn : a.pend = none)
    (hacc : ∀ l, ql = some l → ¬ l < a.bytes + (size id : Int))
    (hu : u.time = q.time ∧ u.prio = NORMAL) (hS : SrcA (some u) q.time S')
    (hdue : ∀ x ∈ S'.entries, q.time ≤ x.time)
    (htodo : ∀ p, departures size rate p q.time rest = departures size rate p (S'.todo q.time).1 (S'.todo q.time).2)
    (hids : S'.ids = rest.map (·.2)) (hmu : S'.mu = 4 * rest.length + 1) :
    StepOK size rate ql arrivals a q outs
      { a with src := S', pend := some u, items := a.items ++ [id], bytes := a.bytes + (size id : Int),
               recv := a.recv + 1, putIds := a.putIds ++ [id], accIds := a.accIds ++ [id] } [] := by
  have hp := hi.port
  have hs := hi.src
  rw [h] at hs
  have hnotinit : ∀ q0, a.port ≠ .init q0 := by
    intro q0 hport
    rw [hport] at hp
    refine hi.not_prio_lt hq (mem_port (by simp [hport, PPhase.entries])) hp.1 ?_
    rw [hp.2.1, hs.1]; decide
  refine ⟨⟨?_, hS, ?_, ?_, hi.last, ?_, ?_, ?_, ?_, ?_, ?_⟩, ?_, [.put (pktOf size id)], [id], rfl, ?_⟩
  · cases hport : a.port with
    | init q0 => exact absurd hport (hnotinit q0)
    | W g => trivial
    | H g i0 q0 => rw [hport] at hp; exact hp
    | T t i0 q0 => rw [hport] at hp; exact hp
  · intro u' hu'; cases hu'; exact hu
  · intro _ _; rfl
  · intro x hx
    simp only [A.entries, Option.toList, List.mem_append, List.mem_singleton] at hx
    rcases hx with hx | hx | hx
    · exact hi.due x (mem_port hx)
    · exact hdue x hx
    · rw [hx, hu.1]
  · intro hql
    have hg := hi.ghost hql
    rw [← hg, List.append_nil]
    congr 1
    unfold pred
    cases hport : a.port with
    | init q0 => exact absurd hport (hnotinit q0)
    | H g i0 q0 =>
      have hF : q.time ≤ q.time + tx size rate i0 := by have := tx_nonneg size rate i0; linarith
      simp only [afterQ, h, todo_wait, busy_put _ _ _ _ _ hF, htodo]
    | T t i0 q0 =>
      have hF : q.time ≤ q0.time := hi.due q0 (mem_port (by simp [hport, PPhase.entries]))
      simp only [afterQ, h, todo_wait, busy_put _ _ _ _ _ hF, htodo]
    | W g =>
      cases hit : a.items with
      | nil =>
        simp only [afterQ, h, todo_wait, List.nil_append, serve, serveEnd, departures_idle size rate _ _ _ _ hi.last, htodo,
          List.cons_append]
      | cons j js =>
        simp only [afterQ, h, todo_wait, List.cons_append, ← hit]
        rw [busy_put _ _ _ _ _ (le_refl q.time), htodo]
        generalize hl : a.items ++ [id] = l
        cases l with
        | nil => simp [hit] at hl
        | cons x xs => rfl
  · have := hi.puts
    rw [h] at this
    show arrivals.map (·.2) = (a.putIds ++ [id]) ++ S'.ids
    rw [hids, this]
    simp [SPhase.ids]
  · simp [hi.nput]
  · have := hi.nacc
    simp only [List.length_append, List.length_singleton]
    omega
  · intro hql
    show a.accIds ++ [id] = a.putIds ++ [id]
    rw [hi.accnone hql]
  · simp only [A.mu, h, hn]
    rw [hmu]
    simp [SPhase.mu]; omega
  · have htd : Port.tailDrop (cfg rate ql) a.bytes a.items.length (size id) = false := by
      unfold Port.tailDrop cfg
      cases hql : ql with
      | none => rfl
      | some l => simp [hacc l hql]
    simp only [cfg] at htd
    simp [Fifo.runActs, Fifo.step, toF, Port.dev, Port.admitPkt, Port.admitPlain, htd, Port.accept, pktOf,
      Fifo.entered, Fifo.left, cfg]

theorem stepOK_srcPutEnd (hi : AInv size rate ql arrivals a q.time outs) (hq : IsMin a q) (u q' : QEntry ℚ) (id : Int)
    (h : a.src = .wait id [] q) (hn : a.pend = none) (hacc : ∀ l, ql = some l → ¬ l < a.bytes + (size id : Int))
    (hu : u.time = q.time ∧ u.prio = NORMAL) (ht : q'.time = q.time ∧ q'.prio = NORMAL) :
    StepOK size rate ql arrivals a q outs
      { a with src := .ending q', pend := some u, items := a.items ++ [id], bytes := a.bytes + (size id : Int),
               recv := a.recv + 1, putIds := a.putIds ++ [id], accIds := a.accIds ++ [id] } [] := by
  refine stepOK_srcPut hi hq u id [] (.ending q') h hn hacc hu ht ?_ ?_ rfl rfl
  · intro x hx; simp only [SPhase.entries, List.mem_singleton] at hx; rw [hx, ht.1]
  · intro p; rfl

theorem stepOK_srcPutWait (hi : AInv size rate ql arrivals a q.time outs) (hq : IsMin a q) (u q' : QEntry ℚ) (id : Int)
    (gap : ℚ) (id' : Int) (rest : List (ℚ × Int)) (h : a.src = .wait id ((gap, id') :: rest) q) (hn : a.pend = none)
    (hacc : ∀ l, ql = some l → ¬ l < a.bytes + (size id : Int))
    (hu : u.time = q.time ∧ u.prio = NORMAL) (ht : q'.time = q.time + gap ∧ q'.prio = NORMAL) (ho : u.eid < q'.eid) :
    StepOK size rate ql arrivals a q outs
      { a with src := .wait id' rest q', pend := some u, items := a.items ++ [id], bytes := a.bytes + (size id : Int),
               recv := a.recv + 1, putIds := a.putIds ++ [id], accIds := a.accIds ++ [id] } [] := by
  have hs := hi.src
  rw [h] at hs
  have hgap : 0 ≤ gap := hs.2.1 (gap, id') (by simp)
  refine stepOK_srcPut hi hq u id ((gap, id') :: rest) (.wait id' rest q') h hn hacc hu
    ⟨ht.2, fun x hx => hs.2.1 x (List.mem_cons_of_mem _ hx), ?_⟩ ?_ ?_ rfl ?_
  · intro u' hu'; cases hu'; exact ho
  · intro x hx; simp only [SPhase.entries, List.mem_singleton] at hx; rw [hx, ht.1]; linarith
  · intro p; simp only [SPhase.todo, ht.1, departures_shift size rate p q.time gap]
  · simp [SPhase.mu]; omega

/-- **a refused arrival** (`byte_size + size > qlimit`; the source then goes on to `S'`) -/
theorem stepOK_srcDrop (hi : AInv size rate ql arrivals a q.time outs) (id : Int) (l : Int)
    (rest : List (ℚ × Int)) (S' : SPhase) (h : a.src = .wait id rest q) (hn : a.pend = none)
    (hl : ql = some l) (hdrop : l < a.bytes + (size id : Int)) (hS : SrcA none q.time S')
    (hdue : ∀ x ∈ S'.entries, q.time ≤ x.time)
    (hids : S'.ids = rest.map (·.2)) (hmu : S'.mu = 4 * rest.length + 1) :
    StepOK size rate ql arrivals a q outs
      { a with src := S', recv := a.recv + 1, putIds := a.putIds ++ [id], dropped := a.dropped + 1 } [] := by
  refine ⟨⟨hi.port, ?_, hi.pend, hi.idle, hi.last, ?_, ?_, ?_, ?_, ?_, ?_⟩, ?_, [.put (pktOf size id)], [], by simp, ?_⟩
  · show SrcA a.pend q.time S'
    rw [hn]; exact hS
  · intro x hx
    simp only [A.entries, List.mem_append] at hx
    rcases hx with hx | hx | hx
    · exact hi.due x (mem_port hx)
    · exact hdue x hx
    · exact hi.due x (by simp [A.entries, hx])
  · intro hql; rw [hl] at hql; cases hql
  · have := hi.puts
    rw [h] at this
    show arrivals.map (·.2) = (a.putIds ++ [id]) ++ S'.ids
    rw [hids, this]
    simp [SPhase.ids]
  · simp [hi.nput]
  · have := hi.nacc
    show a.accIds.length + (a.dropped + 1) = a.recv + 1
    omega
  · intro hql; rw [hl] at hql; cases hql
  · simp only [A.mu, h, hn]
    rw [hmu]
    simp [SPhase.mu]; omega
  · have htd : Port.tailDrop (cfg rate ql) a.bytes a.items.length (size id) = true := by
      unfold Port.tailDrop cfg
      simp [hl, hdrop]
    simp only [cfg] at htd
    simp [Fifo.runActs, Fifo.step, toF, Port.dev, Port.admitPkt, Port.admitPlain, htd, Port.refuse, pktOf,
      Fifo.entered, Fifo.left, cfg]

theorem stepOK_srcDropEnd (hi : AInv size rate ql arrivals a q.time outs) (q' : QEntry ℚ) (id : Int) (l : Int)
    (h : a.src = .wait id [] q) (hn : a.pend = none) (hl : ql = some l) (hdrop : l < a.bytes + (size id : Int))
    (ht : q'.time = q.time ∧ q'.prio = NORMAL) :
    StepOK size rate ql arrivals a q outs
      { a with src := .ending q', recv := a.recv + 1, putIds := a.putIds ++ [id], dropped := a.dropped + 1 } [] := by
  refine stepOK_srcDrop hi id l [] (.ending q') h hn hl hdrop ht ?_ rfl rfl
  intro x hx; simp only [SPhase.entries, List.mem_singleton] at hx; rw [hx, ht.1]

theorem stepOK_srcDropWait (hi : AInv size rate ql arrivals a q.time outs) (q' : QEntry ℚ) (id : Int)
    (gap : ℚ) (id' : Int) (rest : List (ℚ × Int)) (l : Int) (h : a.src = .wait id ((gap, id') :: rest) q)
    (hn : a.pend = none) (hl : ql = some l) (hdrop : l < a.bytes + (size id : Int))
    (ht : q'.time = q.time + gap ∧ q'.prio = NORMAL) :
    StepOK size rate ql arrivals a q outs
      { a with src := .wait id' rest q', recv := a.recv + 1, putIds := a.putIds ++ [id],
               dropped := a.dropped + 1 } [] := by
  have hs := hi.src
  rw [h] at hs
  have hgap : 0 ≤ gap := hs.2.1 (gap, id') (by simp)
  refine stepOK_srcDrop hi id l ((gap, id') :: rest) (.wait id' rest q') h hn hl hdrop
    ⟨ht.2, fun x hx => hs.2.1 x (List.mem_cons_of_mem _ hx), fun u hu => by cases hu⟩ ?_ rfl ?_
  · intro x hx; simp only [SPhase.entries, List.mem_singleton] at hx; rw [hx, ht.1]; linarith
  · simp [SPhase.mu]; omega

theorem tx_eq_zero (hr : ¬ 0 < rate) (id : Int) : tx size rate id = 0 := by
  unfold tx txDelay
  rw [zero_eq', if_neg hr]

theorem stepOK_serveNowIdle (hi : AInv size rate ql arrivals a q.time outs) (g g' : EvId) (id : Int)
    (h : a.port = .H g id q) (hr : ¬ 0 < rate) (hit : a.items = []) :
    StepOK size rate ql arrivals a q outs
      { a with port := .W g', bytes := a.bytes - (size id : Int), busy := false, bsz := 0, last := some q.time }
      [(id, q.time)] := by
  have htx := tx_eq_zero (size := size) hr id
  refine ⟨⟨trivial, hi.src, hi.pend, ?_, ?_, ?_, ?_, hi.puts, hi.nput, hi.nacc, hi.accnone⟩, ?_, [.resume 0 0], [], by simp, ?_⟩
  · intro _ hne; exact absurd hit hne
  · intro d hd; cases hd; exact le_refl _
  · apply due_of_sub hi.due
    intro x hx
    simp only [A.entries, PPhase.entries, List.nil_append] at hx
    exact Or.inl (by simp [A.entries, hx])
  · intro hql
    have := hi.ghost hql
    simp only [pred, afterQ, h, hit, htx, add_zero, serve, serveEnd, List.append_nil, List.nil_append, List.append_assoc,
      List.cons_append] at this ⊢
    exact this
  · simp [A.mu, h, PPhase.mu]; omega
  · have hz : ¬ (Num.zero : ℚ) < rate := by rw [zero_eq']; exact hr
    simp [Fifo.runActs, Fifo.step, toF, h, hit, Port.dev, Port.onResume, Port.onDone, cfg, hz, Fifo.proceed, Fifo.issueGet,
      pktOf, Fifo.entered, Fifo.left]

theorem stepOK_serveNowNext (hi : AInv size rate ql arrivals a q.time outs) (q' : QEntry ℚ) (g g' : EvId) (id i : Int)
    (is : List Int) (h : a.port = .H g id q) (hr : ¬ 0 < rate) (hit : a.items = i :: is)
    (ht : q'.time = q.time ∧ q'.prio = NORMAL) :
    StepOK size rate ql arrivals a q outs
      { a with port := .H g' i q', items := is, bytes := a.bytes - (size id : Int), busy := false, bsz := 0,
               last := some q.time } [(id, q.time)] := by
  have htx := tx_eq_zero (size := size) hr id
  refine ⟨⟨ht, hi.src, hi.pend, ?_, ?_, ?_, ?_, hi.puts, hi.nput, hi.nacc, hi.accnone⟩, ?_, [.resume 0 0], [], by simp, ?_⟩
  · intro hidle; simp [PPhase.idle] at hidle
  · intro d hd; cases hd; exact le_refl _
  · apply due_of_sub hi.due
    intro x hx
    simp only [A.entries, PPhase.entries, List.mem_append, List.mem_singleton] at hx ⊢
    rcases hx with hx | hx
    · exact Or.inr (by rw [hx, ht.1])
    · exact Or.inl (Or.inr hx)
  · intro hql
    have := hi.ghost hql
    simp only [pred, afterQ, h, hit, htx, add_zero, serve, serveEnd, List.append_nil, List.nil_append, List.append_assoc,
      List.cons_append] at this ⊢
    exact this
  · simp [A.mu, h, hit, PPhase.mu]; omega
  · have hz : ¬ (Num.zero : ℚ) < rate := by rw [zero_eq']; exact hr
    simp [Fifo.runActs, Fifo.step, toF, h, hit, Port.dev, Port.onResume, Port.onDone, cfg, hz, Fifo.proceed, Fifo.issueGet,
      pktOf, Fifo.entered, Fifo.left]

/-- accepted runs compose -/
theorem runActs_append {δ : Type} (d : Dev ℚ δ) (as bs : List (FAct ℚ)) (s s1 s2 : FState ℚ δ)
    (i1 o1 i2 o2 : List Nat) (h1 : Fifo.runActs d s as = .ok (s1, i1, o1)) (h2 : Fifo.runActs d s1 bs = .ok (s2, i2, o2)) :
    Fifo.runActs d s (as ++ bs) = .ok (s2, i1 ++ i2, o1 ++ o2) := by
  induction as generalizing s i1 o1 with
  | nil =>
    simp only [Fifo.runActs, Except.ok.injEq, Prod.mk.injEq] at h1
    obtain ⟨rfl, rfl, rfl⟩ := h1
    simpa using h2
  | cons x xs ih =>
    simp only [Fifo.runActs, List.cons_append] at h1 ⊢
    split at h1
    · cases h1
    · rename_i s' o hst
      split at h1
      · cases h1
      · rename_i s'' ins outs hr
        simp only [Except.ok.injEq, Prod.mk.injEq] at h1
        obtain ⟨rfl, rfl, rfl⟩ := h1
        rw [ih s' ins outs hr]
        simp

/-- **every configuration step is sound**: invariant kept, one unit of budget used, accepted by the LTS -/
theorem astep_sound {now : ℚ} {a' : A} {new : List (Int × ℚ)}
    (hi : AInv size rate ql arrivals a now outs) (hq : IsMin a q) (hs : AStep size rate ql a q a' new) :
    AInv size rate ql arrivals a' q.time (outs ++ new) ∧ a'.mu + 1 ≤ a.mu ∧
    ∃ acts insI, a'.accIds = a.accIds ++ insI ∧
      Fifo.runActs (Port.dev (cfg rate ql)) (toF size a now) acts =
        .ok (toF size a' q.time, insI.map Int.toNat, new.map (·.1.toNat)) := by
  have hi' := hi.advance hq
  obtain ⟨acts0, h0⟩ := lts_advance hi hq
  have key : StepOK size rate ql arrivals a q outs a' new := by
    cases hs with
    | portInit g h => exact stepOK_portInit hi' g h
    | srcInitEnd q' h ht hp => exact stepOK_srcInitEnd hi' q' h ht hp
    | srcInitWait q' gap id rest h ht hp => exact stepOK_srcInitWait hi' q' gap id rest h ht hp
    | srcPutEnd u q' id h hn hacc hu ht => exact stepOK_srcPutEnd hi' hq u q' id h hn hacc hu ht
    | srcPutWait u q' id gap id' rest h hn hacc hu ht ho =>
      exact stepOK_srcPutWait hi' hq u q' id gap id' rest h hn hacc hu ht ho
    | srcDropEnd q' id l h hn hl hdrop ht => exact stepOK_srcDropEnd hi' q' id l h hn hl hdrop ht
    | srcDropWait q' id gap id' rest l h hn hl hdrop ht =>
      exact stepOK_srcDropWait hi' q' id gap id' rest l h hn hl hdrop ht
    | putIdle h hw => exact stepOK_putIdle hi' h hw
    | putHand q' g i is h hw hit ht => exact stepOK_putHand hi' q' g i is h hw hit ht
    | serveTx q' g t id h hr ht => exact stepOK_serveTx hr hi' q' g t id h ht
    | serveNowIdle g g' id h hr hit => exact stepOK_serveNowIdle hi' g g' id h hr hit
    | serveNowNext q' g g' id i is h hr hit ht => exact stepOK_serveNowNext hi' q' g g' id i is h hr hit ht
    | fireIdle t g id h hit => exact stepOK_fireIdle hi' t g id h hit
    | fireNext q' t g id i is h hit ht => exact stepOK_fireNext hi' q' t g id i is h hit ht
    | srcEnd h => exact stepOK_srcEnd hi' h
  obtain ⟨h1, h2, acts, insI, h3, h4⟩ := key
  refine ⟨h1, h2, acts0 ++ acts, insI, h3, ?_⟩
  have := runActs_append _ _ _ _ _ _ _ _ _ _ h0 h4
  simpa using this

end PortK
