import OnlVerif.Lemmas.REDKDefs
import OnlVerif.Lemmas.REDKAttr
/-!
# Generator → REDPort → sink on the kernel model: what each kernel operation of the program does

Every lemma rewrites an operation applied to an arbitrary state `s` into `{ s with … }` with explicit fields, under
the local facts the operation reads (the store record, the process record, the attribute cell).
-/

set_option linter.unusedSimpArgs false

namespace REDK
open REDOnK

/-! ## association lists (`shared`, `procs`) -/

@[simp] theorem lookup_cons_same (l : List (Nat × Val)) (k : Nat) (v : Val) : lookup ((k, v) :: l) k = v := by
  simp [lookup]

theorem lookup_cons_ne (l : List (Nat × Val)) (k k' : Nat) (v : Val) (h : k' ≠ k) :
    lookup ((k', v) :: l) k = lookup l k := by
  simp [lookup, List.find?_cons, h]

theorem find?_filter_ne {α} (l : List (Nat × α)) (k k' : Nat) (h : k' ≠ k) :
    (l.filter (·.1 != k')).find? (·.1 == k) = l.find? (·.1 == k) := by
  induction l with
  | nil => rfl
  | cons x xs ih =>
    by_cases hx : x.1 = k'
    · have h1 : (x.1 != k') = false := by simp [hx]
      have h2 : (x.1 == k) = false := by rw [hx]; simpa using h
      rw [List.filter_cons_of_neg (by simpa using hx), List.find?_cons_of_neg (by simpa using h2), ih]
    · have h1 : (x.1 != k') = true := by simp [hx]
      rw [List.filter_cons_of_pos (by simpa using hx)]
      by_cases hk : x.1 = k
      · rw [List.find?_cons_of_pos (by simpa using hk), List.find?_cons_of_pos (by simpa using hk)]
      · rw [List.find?_cons_of_neg (by simpa using hk), List.find?_cons_of_neg (by simpa using hk), ih]

theorem lookup_filter_ne (l : List (Nat × Val)) (k k' : Nat) (h : k' ≠ k) :
    lookup (l.filter (·.1 != k')) k = lookup l k := by
  unfold lookup
  rw [find?_filter_ne _ _ _ h]

/-- `lookup` after a `Call.store` -/
theorem lookup_store (l : List (Nat × Val)) (k k' : Nat) (v : Val) :
    lookup ((k', v) :: l.filter (·.1 != k')) k = if k = k' then v else lookup l k := by
  by_cases h : k = k'
  · subst h; simp
  · rw [if_neg h, lookup_cons_ne _ _ _ _ (Ne.symm h), lookup_filter_ne _ _ _ (Ne.symm h)]

def plookup {σ} (l : List (EvId × ProcRec σ)) (p : EvId) : Option (ProcRec σ) := (l.find? (·.1 == p)).map (·.2)

theorem proc?_eq {σ} (s : KState ℚ σ) (p : EvId) : s.proc? p = plookup s.procs p := rfl

theorem plookup_set {σ} (l : List (EvId × ProcRec σ)) (p p' : EvId) (r : ProcRec σ) :
    plookup ((p', r) :: l.filter (·.1 != p')) p = if p = p' then some r else plookup l p := by
  by_cases h : p = p'
  · subst h; simp [plookup]
  · rw [if_neg h]
    unfold plookup
    rw [List.find?_cons_of_neg (by simp [Ne.symm h]), find?_filter_ne _ _ _ (Ne.symm h)]

/-! ## `resume` and `step` without duplicated sub-terms -/

/-- what `_resume` does once the burst has run -/
def afterBurst {σ} (body : σ → Resume → Burst ℚ σ) (p : EvId) (fuel : Nat) (pr : ProcRec σ) :
    KState ℚ σ × Term σ → KState ℚ σ
  | (s', .returned v) => finishProc s' p pr (.ok v)
  | (s', .raised x) => finishProc s' p pr (.fail x)
  | (s', .yielded e' st') =>
    match register (s'.setProc p { st := st', target := some e' }) p e' with
    | some s3 => s3
    | none => resume body p fuel e' (s'.setProc p { st := st', target := some e' })

theorem resume_eq {σ} (body : σ → Resume → Burst ℚ σ) (p : EvId) (fuel : Nat) (e : EvId) (s : KState ℚ σ)
    (pr : ProcRec σ) (hp : s.proc? p = some pr) :
    resume body p (fuel + 1) e s =
      afterBurst body p fuel pr (runBurst p (body pr.st (resumeArg s p e))
        ((deliverSt s p e).emit (.resumed p (resumeArg s p e) (deliverSt s p e).now))) := by
  simp only [resume, hp, deliver]
  generalize runBurst p (body pr.st (resumeArg s p e))
    ((deliverSt s p e).emit (.resumed p (resumeArg s p e) (deliverSt s p e).now)) = bt
  obtain ⟨s', t⟩ := bt
  cases t with
  | yielded e' st' =>
    simp only [afterBurst]
    cases register (s'.setProc p { st := st', target := some e' }) p e' <;> rfl
  | returned v => simp only [afterBurst]
  | raised x => simp only [afterBurst]

theorem step_eq {σ} (body : σ → Resume → Burst ℚ σ) (fuel : Nat) (s : KState ℚ σ) (q : QEntry ℚ)
    (rest : List (QEntry ℚ)) (cbs : List Cb) (hp : popMin s.agenda = some (q, rest))
    (hc : (s.ev q.ev).cbs = some cbs) :
    step body fuel s = closeEvent (cbs.foldl (runCb body fuel q.ev) { s := openEvent s q rest }) q.ev := by
  unfold step
  rw [hp]
  simp only [hc]

/-! ## the kernel operations of the program -/

theorem push_setIfInBounds_size {α} (a : Array α) (x y : α) :
    (a.push x).setIfInBounds a.size y = a.push y := by
  apply Array.ext_getElem?
  intro i
  simp only [Array.getElem?_setIfInBounds, Array.getElem?_push, Array.size_push]
  by_cases h : a.size = i
  · subst h; simp
  · have h' : ¬ i = a.size := fun hh => h hh.symm
    simp [h, h']

theorem push_setIfInBounds_size' {α} (a : Array α) (n : Nat) (x y : α) (h : n = a.size) :
    (a.push x).setIfInBounds n y = a.push y := by
  subst h; exact push_setIfInBounds_size a x y

theorem getD0_set (a : Array ResRec) (x : ResRec) (h : 0 < a.size) : (a.setIfInBounds 0 x).getD 0 default = x := by
  rw [getD_setIfInBounds]; simp [h]

@[simp] theorem isStoreKind_store : isStoreKind .store = true := rfl
@[simp] theorem isPrioKind_store : isPrioKind .store = false := rfl
@[simp] theorem store_beq_preemptive : (ResKind.store == ResKind.preemptive) = false := rfl
@[simp] theorem store_beq_fstore : (ResKind.store == ResKind.fstore) = false := rfl

theorem doCall_load (s : KS) (self : EvId) (k : Nat) : doCall s self (.load k) = (s, .val (lookup s.shared k)) := rfl

theorem doCall_store (s : KS) (self : EvId) (k : Nat) (v : Val) :
    doCall s self (.store k v) = ({ s with shared := (k, v) :: s.shared.filter (·.1 != k) }, .unit) := rfl

theorem doCall_log (s : KS) (self : EvId) (what : String) (i : Int) :
    doCall s self (.log what (.int i)) = ({ s with trace := s.trace.push (.log self what (.int i) s.now) }, .unit) := rfl

theorem doCall_timeout (s : KS) (self : EvId) (d : ℚ) (v : Val) (hd : 0 ≤ d) :
    doCall s self (.timeout d v) =
      ({ s with
          events := s.events.push { kind := .timeout, cbs := some [], out := some (.ok v), label := s.nlabel + 1 }
          nlabel := s.nlabel + 1
          agenda := { time := s.now + d, prio := NORMAL, eid := s.eid, ev := s.events.size } :: s.agenda
          eid := s.eid + 1 }, .ev s.events.size) := by
  have : ¬ d < Num.zero := by rw [zero_eq']; exact not_lt.mpr hd
  simp [doCall, this, KState.newLabelled, KState.schedule]

theorem doCall_sput (s : KS) (self : EvId) (item : Int) (hsz : 0 < s.resources.size)
    (hk : (s.res 0).kind = .store) (hc : (s.res 0).capacity = none) (hq : (s.res 0).putQ = []) :
    doCall s self (.sput 0 item) =
      ({ s with
          events := s.events.push { kind := .put 0, cbs := some [.trigGet 0], out := some (.ok .none), label := s.nlabel + 1,
                                     req := some { res := 0, item := item, time := s.now, proc := s.active } }
          nlabel := s.nlabel + 1
          resources := s.resources.setIfInBounds 0 { s.res 0 with items := (s.res 0).items ++ [item] }
          agenda := { time := s.now, prio := NORMAL, eid := s.eid, ev := s.events.size } :: s.agenda
          eid := s.eid + 1 }, .ev s.events.size) := by
  rcases hrr : s.resources.getD 0 default with ⟨k, c, pq, gq, us, lv, its⟩
  simp only [KState.res, hrr] at hk hc hq
  subst hk hc hq
  simp [doCall, hrr, mkPut, KState.newLabelled, enqPut, KState.setPutQ, KState.setRes, KState.res,
    triggerPut, scanPut, doPut, prePut, canPut, hasRoom, applyPut, KState.setItems, KState.trigger, KState.setOut, KState.schedule,
    KState.setEv, KState.ev, reqOf, KState.triggered, dropPutQ, getD0_set, hsz, getD_push, getD_setIfInBounds, zero_eq', push_setIfInBounds_size]

theorem doCall_sget_miss (s : KS) (self : EvId) (hsz : 0 < s.resources.size)
    (hk : (s.res 0).kind = .store) (hq : (s.res 0).getQ = []) (hi : (s.res 0).items = []) :
    doCall s self (.sget 0 0) =
      ({ s with
          events := s.events.push { kind := .get 0, cbs := some [.trigPut 0], out := none, label := s.nlabel + 1,
                                     req := some { res := 0, time := s.now, proc := s.active } }
          nlabel := s.nlabel + 1
          resources := s.resources.setIfInBounds 0 { s.res 0 with getQ := [s.events.size] } }, .ev s.events.size) := by
  rcases hrr : s.resources.getD 0 default with ⟨k, c, pq, gq, us, lv, its⟩
  simp only [KState.res, hrr] at hk hq hi
  subst hk hq hi
  simp [doCall, hrr, mkGet, KState.newLabelled, enqGet, KState.setGetQ, KState.setRes, KState.res,
    triggerGet, scanGet, doGet, getItem, KState.triggered, KState.ev, getD0_set, hsz, getD_push]

theorem doCall_sget_hit (s : KS) (self : EvId) (hsz : 0 < s.resources.size)
    (hk : (s.res 0).kind = .store) (hq : (s.res 0).getQ = []) (hi : (s.res 0).items ≠ []) :
    doCall s self (.sget 0 0) =
      ({ s with
          events := s.events.push { kind := .get 0, cbs := some [.trigPut 0], out := some (.ok (.int ((s.res 0).items.headD 0))),
                                     label := s.nlabel + 1, req := some { res := 0, time := s.now, proc := s.active } }
          nlabel := s.nlabel + 1
          resources := s.resources.setIfInBounds 0 { s.res 0 with items := (s.res 0).items.tail }
          agenda := { time := s.now, prio := NORMAL, eid := s.eid, ev := s.events.size } :: s.agenda
          eid := s.eid + 1 }, .ev s.events.size) := by
  rcases hrr : s.resources.getD 0 default with ⟨k, c, pq, gq, us, lv, its⟩
  simp only [KState.res, hrr] at hk hq hi
  subst hk hq
  cases its with
  | nil => exact absurd rfl hi
  | cons i is =>
  simp [doCall, hrr, mkGet, KState.newLabelled, enqGet, KState.setGetQ, KState.setRes, KState.res,
    triggerGet, scanGet, doGet, getItem, takeOut, KState.setItems, KState.trigger, KState.setOut, KState.schedule,
    KState.setEv, KState.triggered, KState.ev, dropGetQ, getD0_set, hsz, getD_push, getD_setIfInBounds, zero_eq', push_setIfInBounds_size]

theorem triggerPut_none (s : KS) (hq : (s.res 0).putQ = []) : triggerPut s 0 = s := by
  simp [triggerPut, hq, scanPut]

theorem triggerGet_none (s : KS) (hq : (s.res 0).getQ = []) : triggerGet s 0 = s := by
  simp [triggerGet, hq, scanGet]

theorem triggerGet_empty (s : KS) (g : EvId) (hk : (s.res 0).kind = .store) (hq : (s.res 0).getQ = [g])
    (hi : (s.res 0).items = []) (hg : (s.ev g).out = none) : triggerGet s 0 = s := by
  simp [triggerGet, hq, scanGet, doGet, getItem, hk, hi, KState.triggered, hg]

theorem triggerGet_hand (s : KS) (g : EvId) (i : Int) (is : List Int) (hsz : 0 < s.resources.size)
    (hgs : g < s.events.size)
    (hk : (s.res 0).kind = .store) (hq : (s.res 0).getQ = [g]) (hi : (s.res 0).items = i :: is) :
    triggerGet s 0 =
      { s with
          events := s.events.setIfInBounds g { s.ev g with out := some (.ok (.int i)) }
          resources := s.resources.setIfInBounds 0 { s.res 0 with items := is, getQ := [] }
          agenda := { time := s.now, prio := NORMAL, eid := s.eid, ev := g } :: s.agenda
          eid := s.eid + 1 } := by
  rcases hrr : s.resources.getD 0 default with ⟨k, c, pq, gq, us, lv, its⟩
  simp only [KState.res, hrr] at hk hq hi
  subst hk hq hi
  simp [hrr, KState.setGetQ, KState.setRes, KState.res,
    triggerGet, scanGet, doGet, getItem, takeOut, KState.setItems, KState.trigger, KState.setOut, KState.schedule,
    KState.setEv, KState.triggered, KState.ev, dropGetQ, getD0_set, hsz, hgs, getD_push, getD_setIfInBounds, zero_eq', push_setIfInBounds_size]

/-! ## the cell codec at `ℚ` -/

@[simp] theorem dec_enc (x : ℚ) : (TimeCell.dec (TimeCell.enc x : Val) : Option ℚ) = some x := by
  show some (mkRat (if (if x.num < 0 then 1 else 0) = 1 then -((x.num.natAbs : ℕ) : ℤ) else ((x.num.natAbs : ℕ) : ℤ)) x.den) = some x
  congr 1
  by_cases h : x.num < 0
  · simp only [h, if_true]
    rw [Int.ofNat_natAbs_of_nonpos (le_of_lt h), neg_neg, Rat.mkRat_self]
  · simp only [h, if_false]
    simp only [show ((0 : ℕ) = 1) = False from by simp, if_false]
    rw [Int.natAbs_of_nonneg (not_lt.mp h), Rat.mkRat_self]

theorem doCall_log_enc (s : KS) (self : EvId) (what : String) (x : ℚ) :
    doCall s self (.log what (TimeCell.enc x)) =
      ({ s with trace := s.trace.push (.log self what (TimeCell.enc x) s.now) }, .unit) := rfl

/-- the loop head of the generator in terms of `genNext` -/
theorem genLoop_eq (c : Cfg ℚ) (now : ℚ) (n : Nat) (gaps : List ℚ) (sizes : List Nat) (us : List ℚ) :
    genLoop c now n gaps sizes us =
      match genNext c now gaps sizes with
      | some (gap, z, gaps', sizes') =>
        .call (.timeout gap .none) fun rp => match rp with
          | .ev e => .yield e (.genWait (now + gap) n z gaps' sizes' us)
          | rp => bad rp
      | none => .ret .none := by
  unfold genLoop genNext
  cases Gen.running c.finish now <;> cases gaps <;> cases sizes <;> simp
  funext rp; cases rp <;> rfl

/-- the draws as `REDPort.put` consumes them, folded: one decision `dropQ` on the attached draw -/
theorem redDecide_eq (c : Cfg ℚ) (id : Int) (z : Nat) (avg : ℚ) (us : List ℚ) (cont : List ℚ → Burst ℚ St)
    (hd : needsDraw c avg = true → us ≠ []) :
    redDecide c id z avg us cont =
      if needsDraw c avg then
        .call (.log "draw" (TimeCell.enc (uAtt c avg us))) fun _ =>
        .call (.log "u" (TimeCell.enc (uAtt c avg us))) fun _ =>
        if dropQ c avg (uAtt c avg us) then redRefuse id (cont (usAfter c avg us)) else redAccept id z (cont (usAfter c avg us))
      else
        .call (.log "u" (TimeCell.enc (uAtt c avg us))) fun _ =>
        if dropQ c avg (uAtt c avg us) then redRefuse id (cont (usAfter c avg us)) else redAccept id z (cont (usAfter c avg us)) := by
  unfold redDecide needsDraw uAtt usAfter dropQ Port.redDrop needsDraw
  by_cases h1 : (Num.ofNat c.qlimit : ℚ) ≤ avg
  · simp [h1, noDraw, zero_eq']
  · by_cases h2 : c.maxTh ≤ avg
    · have hne : us ≠ [] := hd (by simp [needsDraw, h1, h2])
      obtain ⟨u, us', rfl⟩ := List.exists_cons_of_ne_nil hne
      simp [h1, h2, withDraw]
    · by_cases h3 : c.minTh ≤ avg
      · have hne : us ≠ [] := hd (by simp [needsDraw, h1, h2, h3])
        obtain ⟨u, us', rfl⟩ := List.exists_cons_of_ne_nil hne
        simp [h1, h2, h3, withDraw]
      · simp [h1, h2, h3, noDraw, zero_eq']

/-- `current_queue_size` on a flat state -/
theorem loadCur_eq (c : Cfg ℚ) (cont : Nat → Burst ℚ St) :
    loadCur c cont = loadInt (if c.limitBytes then cByteSize else cLen) fun b => cont b.toNat := by
  unfold loadCur
  cases c.limitBytes <;> simp

attribute [redk] deliverSt resumeArg body portDone portServe sinkPut redPut redRefuse redAccept loadCur_eq genLoop_eq genEmit genBegin loadInt loadSc portLoop runBurst noteErr
  KState.emit afterBurst register KState.processed KState.setProc KState.addCb KState.setEv KState.ev KState.res
  openEvent closeEvent finishProc KState.trigger KState.setOut KState.schedule runCb List.foldl
  cByteSize cReceived cBusy cBusySize cDropped cAvg cLen cSinkCnt cSinkBytes storeId portProc genProc storeRec
  doCall_load doCall_store doCall_log doCall_log_enc dec_enc doCall_timeout doCall_sput doCall_sget_miss doCall_sget_hit
  lookup_store plookup_set getD_push getD_setIfInBounds getD0_set push_setIfInBounds_size push_setIfInBounds_size' zero_eq'

end REDK
