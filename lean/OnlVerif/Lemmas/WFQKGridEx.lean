import OnlVerif.Lemmas.WFQKGrid
import Mathlib.Data.Nat.Factorial.Basic
import Mathlib.Tactic.FieldSimp
/-!
# Every WFQ configuration with whole weights and every finite rational workload lies on the two grids
-/

namespace WFQK
open WFQOnK

/-- a rational whose denominator divides `D` lies on the grid `ℤ / D` -/
theorem onGrid_of_den_dvd {D : Nat} (x : ℚ) (h : x.den ∣ D) (hD : 0 < D) : OnGrid D x := by
  obtain ⟨k, rfl⟩ := h
  refine ⟨x.num * k, ?_⟩
  have hd : (x.den : ℚ) ≠ 0 := by exact_mod_cast x.den_nz
  have hk : (k : ℚ) ≠ 0 := by
    intro h0
    have : k = 0 := by exact_mod_cast h0
    subst this; simp at hD
  have hx : x = x.num / x.den := (Rat.num_div_den x).symm
  conv_lhs => rw [hx]
  push_cast
  field_simp

/-- the product of the denominators of a list of rationals -/
def denProd : List ℚ → Nat
  | [] => 1
  | x :: r => x.den * denProd r

theorem denProd_pos : ∀ l : List ℚ, 0 < denProd l
  | [] => Nat.one_pos
  | x :: r => Nat.mul_pos x.den_pos (denProd_pos r)

theorem den_dvd_denProd : ∀ (l : List ℚ) (x : ℚ), x ∈ l → x.den ∣ denProd l
  | y :: r, x, h => by
    rcases List.mem_cons.mp h with rfl | h
    · exact Dvd.intro _ rfl
    · exact Dvd.dvd.mul_left (den_dvd_denProd r x h) _

/-- a grid for the instants: the product of the denominators of the gaps and of the transmission times -/
def d1Of (size : Int → Nat) (cfg : WfqCfg ℚ) (arrivals : List (ℚ × Int)) : Nat :=
  denProd (arrivals.map (·.1) ++ arrivals.map fun x => txTime size cfg.rate x.2)

/-- a common multiple of every possible weight sum -/
def LOf (F : Nat) (cfg : WfqCfg ℚ) : Nat := (wTotal F cfg).factorial

/-- **every configuration and every finite workload of rationals lies on the grids**: the hypothesis `GridOK` of the theorems
is met by `d1 := d1Of size cfg arrivals`, `L := LOf F cfg`, `scale := d1 · L` -/
theorem gridOK_of (size : Int → Nat) (F : Nat) (cfg : WfqCfg ℚ) (arrivals : List (ℚ × Int)) :
    GridOK (d1Of size cfg arrivals * LOf F cfg) size F cfg (d1Of size cfg arrivals) (LOf F cfg) arrivals := by
  have hp := denProd_pos (arrivals.map (·.1) ++ arrivals.map fun x => txTime size cfg.rate x.2)
  refine ⟨hp, Nat.factorial_pos _, rfl, ?_, ?_, ?_⟩
  · intro k h1 h2
    exact Nat.dvd_factorial (by omega) h2
  · intro x hx
    exact onGrid_of_den_dvd _ (den_dvd_denProd _ _ (List.mem_append_left _ (List.mem_map_of_mem hx))) hp
  · intro x hx
    exact onGrid_of_den_dvd _ (den_dvd_denProd _ _ (List.mem_append_right _
      (List.mem_map.mpr ⟨x, hx, rfl⟩))) hp

end WFQK
