import Mathlib.Tactic.Linarith
import Mathlib.Tactic.Ring
import Mathlib.Tactic.FieldSimp
import Mathlib.Algebra.Order.Field.Rat
import OnlVerif.Lemmas.VCKDefs
/-!
# The integer code of a rational stamp preserves the order on the grid `ℤ / scale`

At `ℚ`, `StampCode.code scale x = ⌊x · scale⌋`; for `x = k / scale` this is `k`, so on the grid the code is injective and
monotone, and the integers `stampItem scale N x i` (`0 ≤ i < N`) are ordered lexicographically by `(x, i)`.
-/

namespace VCK

variable {N scale : Nat}

theorem code_grid (hs : 0 < scale) (k : ℤ) : StampCode.code scale ((k : ℚ) / (scale : ℚ)) = k := by
  have hne : (scale : ℚ) ≠ 0 := by exact_mod_cast (Nat.pos_iff_ne_zero.mp hs)
  show ((k : ℚ) / (scale : ℚ) * (scale : ℚ)).floor = k
  rw [div_mul_cancel₀ _ hne]
  exact Rat.floor_intCast k

/-- a grid point is its code over `scale` -/
theorem OnGrid.eq_code {x : ℚ} (hs : 0 < scale) (hx : OnGrid scale x) :
    x = ((StampCode.code scale x : ℤ) : ℚ) / (scale : ℚ) := by
  obtain ⟨k, rfl⟩ := hx
  rw [code_grid hs]

theorem code_lt_iff {x y : ℚ} (hs : 0 < scale) (hx : OnGrid scale x) (hy : OnGrid scale y) :
    x < y ↔ StampCode.code scale x < StampCode.code scale y := by
  obtain ⟨k, rfl⟩ := hx
  obtain ⟨l, rfl⟩ := hy
  have hpos : (0 : ℚ) < (scale : ℚ) := by exact_mod_cast hs
  rw [code_grid hs, code_grid hs, div_lt_div_iff_of_pos_right hpos]
  exact Int.cast_lt

theorem code_le_iff {x y : ℚ} (hs : 0 < scale) (hx : OnGrid scale x) (hy : OnGrid scale y) :
    x ≤ y ↔ StampCode.code scale x ≤ StampCode.code scale y := by
  rw [← not_lt, ← not_lt, code_lt_iff hs hy hx]

theorem code_eq_iff {x y : ℚ} (hs : 0 < scale) (hx : OnGrid scale x) (hy : OnGrid scale y) :
    x = y ↔ StampCode.code scale x = StampCode.code scale y := by
  constructor
  · intro h; rw [h]
  · intro h
    rw [hx.eq_code hs, hy.eq_code hs, h]

/-- `c * N + i` with `0 ≤ i < N` is ordered lexicographically -/
theorem lex_of_le {c d i j : ℤ} (hi0 : 0 ≤ i) (hj0 : 0 ≤ j) (hjN : j < N)
    (h : c * (N : ℤ) + i ≤ d * (N : ℤ) + j) : c ≤ d ∧ (c = d → i ≤ j) := by
  constructor
  · by_contra hc
    have hc' : d + 1 ≤ c := by omega
    have : (d + 1) * (N : ℤ) ≤ c * (N : ℤ) := Int.mul_le_mul_of_nonneg_right hc' (by omega)
    have h2 : (d + 1) * (N : ℤ) = d * (N : ℤ) + (N : ℤ) := by ring
    omega
  · intro hcd
    subst hcd
    omega

/-- the integers carried by the `PriorityStore` are ordered by `(stamp, packet number)` -/
theorem stampItem_le {x y : ℚ} {i j : ℤ} (hs : 0 < scale) (hx : OnGrid scale x) (hy : OnGrid scale y)
    (hi0 : 0 ≤ i) (hj0 : 0 ≤ j) (hjN : j < N)
    (h : stampItem scale N x i ≤ stampItem scale N y j) : x ≤ y ∧ (x = y → i ≤ j) := by
  obtain ⟨h1, h2⟩ := lex_of_le hi0 hj0 hjN h
  exact ⟨(code_le_iff hs hx hy).mpr h1, fun hxy => h2 ((code_eq_iff hs hx hy).mp hxy)⟩

theorem itemPkt_stampItem {x : ℚ} {i : ℤ} (hi0 : 0 ≤ i) (hiN : i < N) : itemPkt N (stampItem scale N x i) = i := by
  unfold itemPkt stampItem
  rw [Int.add_comm, Int.add_mul_emod_self_right]
  exact Int.emod_eq_of_lt hi0 hiN

end VCK
