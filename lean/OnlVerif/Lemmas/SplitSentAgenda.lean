import OnlVerif.Lemmas.SplitSent
import OnlVerif.Lemmas.Agenda
/-!
# Popping from an agenda that carries the sentinel entry (C03, stage 3)

The agenda of the model is a list, newest entry first: its `eid`s are strictly decreasing (`SortedAg`).  The sentinel entry
sits between the entries pushed after it and those pushed before it.  Renaming the `eid`s of the later ones by `+1`
preserves the key order, so `popMin` pops from the split agenda the entry it pops from the uninterrupted agenda — unless
the sentinel's key `(t, URGENT, eid0)` is smaller, in which case it pops the sentinel and leaves the rest.
-/

variable {σ : Type}

open QEntry

/-- newest first: `eid`s strictly decreasing along the agenda, all below the counter -/
structure SortedAg (s : KState ℚ σ) : Prop where
  sorted : s.agenda.Pairwise (fun a b => b.eid < a.eid)
  below : ∀ x ∈ s.agenda, x.eid < s.eid

theorem SortedAg.krel : KRel (fun s s' : KState ℚ σ => SortedAg s → SortedAg s') where
  refl _ := id
  trans h1 h2 := h2 ∘ h1
  emit _ _ := fun h => ⟨h.sorted, h.below⟩
  active _ _ := fun h => ⟨h.sorted, h.below⟩
  shared _ _ := fun h => ⟨h.sorted, h.below⟩
  setProc _ _ _ := fun h => ⟨h.sorted, h.below⟩
  newEv _ _ _ := fun h => ⟨h.sorted, h.below⟩
  newLabelled _ _ _ := fun h => ⟨h.sorted, h.below⟩
  newReq _ _ _ _ _ := fun h => ⟨h.sorted, h.below⟩
  schedule s e p d _ _ := fun h => by
    refine ⟨?_, ?_⟩
    · show ({ time := s.now + d, prio := p, eid := s.eid, ev := e } :: s.agenda).Pairwise _
      exact List.pairwise_cons.mpr ⟨fun x hx => h.below x hx, h.sorted⟩
    · intro x hx
      show x.eid < s.eid + 1
      rcases List.mem_cons.mp hx with rfl | hx
      · exact Nat.lt_succ_self _
      · exact Nat.lt_succ_of_lt (h.below x hx)
  setOut _ _ _ := fun h => ⟨h.sorted, h.below⟩
  defuse _ _ := fun h => ⟨h.sorted, h.below⟩
  bumpCount _ _ := fun h => ⟨h.sorted, h.below⟩
  setUsage _ _ := fun h => ⟨h.sorted, h.below⟩
  eraseCb _ _ _ := fun h => ⟨h.sorted, h.below⟩
  addCb _ _ _ _ := fun h => ⟨h.sorted, h.below⟩
  eraseUser _ _ _ := fun h => ⟨h.sorted, h.below⟩
  addUser _ _ _ _ _ := fun h => ⟨h.sorted, h.below⟩
  addLevel _ _ _ _ _ := fun h => ⟨h.sorted, h.below⟩
  subLevel _ _ _ _ _ := fun h => ⟨h.sorted, h.below⟩
  addItem _ _ _ _ _ := fun h => ⟨h.sorted, h.below⟩
  tailItems _ _ := fun h => ⟨h.sorted, h.below⟩
  eraseItem _ _ _ := fun h => ⟨h.sorted, h.below⟩
  dropPutQ _ _ _ := fun h => ⟨h.sorted, h.below⟩
  dropGetQ _ _ _ := fun h => ⟨h.sorted, h.below⟩
  enqPut _ _ _ _ := fun h => ⟨h.sorted, h.below⟩
  enqGet _ _ _ _ := fun h => ⟨h.sorted, h.below⟩

/-- what `popMin` leaves is the agenda without the popped entry, in the same order -/
theorem popMin_sublist : ∀ (l : List (QEntry ℚ)) (m : QEntry ℚ) (rest : List (QEntry ℚ)),
    popMin l = some (m, rest) → rest.Sublist l
  | [], m, rest, h => by simp [popMin] at h
  | x :: xs, m, rest, h => by
    unfold popMin at h
    cases hp : popMin xs with
    | none =>
      rw [hp] at h
      simp only [Option.some.injEq, Prod.mk.injEq] at h
      rw [← h.2]
      exact List.nil_sublist _
    | some mr =>
      obtain ⟨m', rest'⟩ := mr
      rw [hp] at h
      have ih := popMin_sublist xs m' rest' hp
      simp only at h
      split at h
      · simp only [Option.some.injEq, Prod.mk.injEq] at h
        rw [← h.2]
        exact ih.cons_cons x
      · simp only [Option.some.injEq, Prod.mk.injEq] at h
        rw [← h.2]
        exact List.sublist_cons_self x xs

theorem popMin_none_iff (l : List (QEntry ℚ)) : popMin l = none ↔ l = [] := by
  cases l with
  | nil => simp [popMin]
  | cons x xs =>
    simp only [reduceCtorEq, iff_false]
    unfold popMin
    cases popMin xs with
    | none => simp
    | some mr => simp only; split <;> simp

theorem popMin_cons (x : QEntry ℚ) (xs : List (QEntry ℚ)) :
    popMin (x :: xs) = match popMin xs with
      | none => some (x, [])
      | some (m, rest) => if m.lt x then some (m, x :: rest) else some (x, xs) := by
  conv => lhs; rw [popMin]
  cases popMin xs with
  | none => rfl
  | some mr => simp only

namespace SplitCfg
variable (c : SplitCfg σ)

theorem rnEntry_eid_lt (a b : QEntry ℚ) : (c.rnEntry a).eid < (c.rnEntry b).eid ↔ a.eid < b.eid := by
  unfold rnEntry
  show (if c.eid0 ≤ a.eid then a.eid + 1 else a.eid) < (if c.eid0 ≤ b.eid then b.eid + 1 else b.eid) ↔ _
  split <;> split <;> omega

theorem rnEntry_lt (a b : QEntry ℚ) : (c.rnEntry a).lt (c.rnEntry b) = a.lt b := by
  unfold QEntry.lt
  have h := c.rnEntry_eid_lt a b
  have h1 : (c.rnEntry a).time = a.time := rfl
  have h2 : (c.rnEntry b).time = b.time := rfl
  have h3 : (c.rnEntry a).prio = a.prio := rfl
  have h4 : (c.rnEntry b).prio = b.prio := rfl
  have hd : decide ((c.rnEntry a).eid < (c.rnEntry b).eid) = decide (a.eid < b.eid) := decide_eq_decide.mpr h
  rw [h1, h2, h3, h4, hd]

theorem rnEntry_eid_ne (a : QEntry ℚ) : (c.rnEntry a).eid ≠ c.eid0 := by
  unfold rnEntry
  show (if c.eid0 ≤ a.eid then a.eid + 1 else a.eid) ≠ c.eid0
  split <;> omega

/-- popping from a renamed agenda -/
theorem popMin_map (l : List (QEntry ℚ)) :
    popMin (l.map c.rnEntry) = (popMin l).map (fun mr => (c.rnEntry mr.1, mr.2.map c.rnEntry)) := by
  induction l with
  | nil => rfl
  | cons x xs ih =>
    simp only [List.map_cons]
    unfold popMin
    rw [ih]
    cases popMin xs with
    | none => rfl
    | some mr =>
      simp only [Option.map_some, c.rnEntry_lt]
      split <;> rfl

theorem insSent_of_old (l : List (QEntry ℚ)) (h : ∀ x ∈ l, x.eid < c.eid0) :
    c.insSent l = c.sentEntry :: l.map c.rnEntry := by
  cases l with
  | nil => rfl
  | cons x xs => rw [insSent, if_pos (h x List.mem_cons_self)]

theorem sent_total (a : QEntry ℚ) : c.sentEntry.lt (c.rnEntry a) = !(c.rnEntry a).lt c.sentEntry := by
  have hne : c.sentEntry.eid ≠ (c.rnEntry a).eid := fun h => c.rnEntry_eid_ne a h.symm
  rcases KeyLt.total hne with h | h
  · have h1 := (lt_iff _ _).mpr h
    have h2 : (c.rnEntry a).lt c.sentEntry = false := by
      cases hh : (c.rnEntry a).lt c.sentEntry
      · rfl
      · exact absurd ((lt_iff _ _).mp hh) h.asymm
    rw [h1, h2]; rfl
  · have h1 := (lt_iff _ _).mpr h
    have h2 : c.sentEntry.lt (c.rnEntry a) = false := by
      cases hh : c.sentEntry.lt (c.rnEntry a)
      · rfl
      · exact absurd ((lt_iff _ _).mp hh) h.asymm
    rw [h1, h2]; rfl

/-- **popping from the agenda that carries the sentinel** -/
theorem popMin_insSent (l : List (QEntry ℚ)) (hs : l.Pairwise (fun a b => b.eid < a.eid)) :
    popMin (c.insSent l) =
      match popMin l with
      | none => some (c.sentEntry, [])
      | some (m, rest) =>
        if (c.rnEntry m).lt c.sentEntry then some (c.rnEntry m, c.insSent rest)
        else some (c.sentEntry, l.map c.rnEntry) := by
  induction l with
  | nil => rfl
  | cons x xs ih =>
    have hs' := (List.pairwise_cons.mp hs)
    by_cases hx : x.eid < c.eid0
    · -- the sentinel is in front of everything
      have hall : ∀ y ∈ x :: xs, y.eid < c.eid0 := by
        intro y hy
        rcases List.mem_cons.mp hy with rfl | hy
        · exact hx
        · exact Nat.lt_trans (hs'.1 y hy) hx
      rw [c.insSent_of_old _ hall, popMin_cons c.sentEntry, c.popMin_map]
      cases hp : popMin (x :: xs) with
      | none => exact absurd ((popMin_none_iff _).mp hp) (by simp)
      | some mr =>
        obtain ⟨m, rest⟩ := mr
        simp only [Option.map_some]
        have hsub := popMin_sublist _ _ _ hp
        have hrest : c.insSent rest = c.sentEntry :: rest.map c.rnEntry :=
          c.insSent_of_old rest (fun y hy => hall y (hsub.subset hy))
        rw [hrest]
    · rw [insSent, if_neg hx, popMin_cons (c.rnEntry x), ih hs'.2, popMin_cons x xs]
      cases hp : popMin xs with
      | none =>
        have : xs = [] := (popMin_none_iff _).mp hp
        subst this
        simp only [List.map_nil, List.map_cons]
        rw [c.sent_total x]
        cases (c.rnEntry x).lt c.sentEntry <;> rfl
      | some mr =>
        obtain ⟨m, rest⟩ := mr
        simp only
        have hmem : m ∈ xs := ((popMin_spec xs m rest hp).1.symm.subset List.mem_cons_self)
        have hne : m.eid ≠ x.eid := Nat.ne_of_lt (hs'.1 m hmem)
        have hxm : x.lt m = !m.lt x := by
          rcases KeyLt.total hne with h | h
          · rw [(lt_iff _ _).mpr h]
            cases hh : x.lt m
            · rfl
            · exact absurd ((lt_iff _ _).mp hh) h.asymm
          · rw [(lt_iff _ _).mpr h]
            cases hh : m.lt x
            · rfl
            · exact absurd ((lt_iff _ _).mp hh) h.asymm
        by_cases hms : (c.rnEntry m).lt c.sentEntry = true
        · simp only [hms, if_true, c.rnEntry_lt]
          by_cases hmx : m.lt x = true
          · simp only [hmx, if_true]
            rw [insSent, if_neg hx]
            simp only [hms, if_true]
          · simp only [hmx, if_false, Bool.false_eq_true]
            have hxm' : x.lt m = true := by rw [hxm]; simpa using hmx
            have : (c.rnEntry x).lt c.sentEntry = true := by
              rw [lt_iff]
              have h1 : KeyLt (c.rnEntry x) (c.rnEntry m) := (lt_iff _ _).mp (by rw [c.rnEntry_lt]; exact hxm')
              exact h1.trans ((lt_iff _ _).mp hms)
            simp only [this, if_true]
        · simp only [hms, if_false, Bool.false_eq_true, List.map_cons]
          have hsm : c.sentEntry.lt (c.rnEntry m) = true := by rw [c.sent_total]; simpa using hms
          by_cases hsx : c.sentEntry.lt (c.rnEntry x) = true
          · simp only [hsx, if_true]
            have hxs : (c.rnEntry x).lt c.sentEntry = false := by
              have := c.sent_total x
              rw [hsx] at this
              simpa using this.symm
            by_cases hmx : m.lt x = true
            · simp only [hmx, if_true, hms, Bool.false_eq_true, if_false, List.map_cons]
            · simp only [hmx, Bool.false_eq_true, if_false, hxs, List.map_cons]
          · simp only [hsx, Bool.false_eq_true, if_false]
            have hxs : (c.rnEntry x).lt c.sentEntry = true := by
              have := c.sent_total x
              cases hh : (c.rnEntry x).lt c.sentEntry
              · rw [hh] at this; simp at this; exact absurd this hsx
              · rfl
            have hxm' : KeyLt (c.rnEntry x) (c.rnEntry m) := ((lt_iff _ _).mp hxs).trans ((lt_iff _ _).mp hsm)
            have hxm2 : x.lt m = true := by rw [← c.rnEntry_lt]; exact (lt_iff _ _).mpr hxm'
            have hmx : m.lt x = false := by
              rw [hxm] at hxm2
              simpa using hxm2
            simp only [hmx, Bool.false_eq_true, if_false, hxs, if_true]

end SplitCfg
