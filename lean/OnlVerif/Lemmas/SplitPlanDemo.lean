import OnlVerif.Lemmas.SplitPlanMain
import OnlVerif.Lemmas.SplitWFScript
/-!
# A concrete split plan with two numeric stops (non-vacuity of the C03 plan theorems)

Two script processes contend for a `Resource` of capacity 1.  `A` (started from outside) creates two timeouts and an
`AllOf` condition over them, spawns `B`, waits for the condition, requests the resource, holds it for 3 and releases it.
`B` sleeps 1, requests the resource (gets it first), holds it for 2, releases it and returns 7.  The run is cut as
`step()×3; run(until=2); run(until=<the condition>); run(until=4); step(); run(until=<A>)`.  The hypotheses of
`split_plan_transparent` are met: the programs are script programs with id-free literals (hence id-opaque and scoped),
the initial state is an empty environment plus one outside spawn; that every piece returns normally is computed by the
kernel.
-/

namespace SplitPlanDemo
open SplitWF SplitPlan

def progA : Array (Instr ℚ) := #[
  .timeout 0 1 .none, .timeout 1 2 (.int 5), .cond true 2 [0, 1], .spawn 3 1 2, .yield 2 0, .log 10,
  .request 4 0 0 true, .yield 4 0, .timeout 5 3 .none, .yield 5 0, .release 6 0 4, .log 11, .ret .none]

def progB : Array (Instr ℚ) := #[
  .timeout 7 1 .none, .yield 7 0, .request 8 0 0 true, .yield 8 0, .log 20, .timeout 9 2 .none, .yield 9 0,
  .release 10 0 8, .log 21, .ret (.int 7)]

def progs : Progs ℚ := #[progA, progB]

def rs : Array ResRec := #[{ kind := .resource, capacity := some 1 }]

/-- `env = Environment(0)`, one `Resource(capacity=1)`, `env.process(A)` -/
def s0 : KState ℚ SSt := initState 0 rs [{ name := 1, prog := 0, pc := 0 }]

/-- ids are those of the split run: 4 = the condition, 0 = the process `A` -/
def plan : List Piece := [.step 3, .untilTime 2, .untilEvent 4, .untilTime 4, .step 1, .untilEvent 0]

theorem progsClosed_of_all (ps : Progs ℚ) (h : ps.toList.all (fun pr => pr.toList.all Instr.closed) = true) :
    ProgsClosed ps := by
  intro p i hi
  by_cases hp : p < ps.size
  · have hget : ps.getD p #[] = ps[p] := by
      rw [Array.getD_eq_getD_getElem?, Array.getElem?_eq_getElem hp]; rfl
    rw [hget] at hi
    rw [List.all_eq_true] at h
    have := h ps[p] (Array.getElem_mem_toList hp)
    rw [List.all_eq_true] at this
    exact this i hi
  · have hget : ps.getD p #[] = #[] := by
      rw [Array.getD_eq_getD_getElem?, Array.getElem?_eq_none (Nat.le_of_not_lt hp)]; rfl
    rw [hget] at hi
    cases hi

theorem progs_closed : ProgsClosed progs := progsClosed_of_all progs (by decide)

theorem rs_empty : ∀ r, (rs.getD r default).putQ = [] ∧ (rs.getD r default).getQ = [] ∧ (rs.getD r default).users = [] := by
  intro r
  cases r with
  | zero => exact ⟨rfl, rfl, rfl⟩
  | succ r =>
    have : rs.getD (r + 1) default = default := by
      rw [Array.getD_eq_getD_getElem?, Array.getElem?_eq_none (by simp [rs])]; rfl
    rw [this]
    exact ⟨rfl, rfl, rfl⟩

theorem s0_facts : WS IS s0 ∧ SortedAg s0 ∧ AllStopFree s0 ∧ 2 * 1 ≤ s0.events.size :=
  initState_facts 0 rs _ rs_empty (fun _ _ => trivial)

theorem s0_pos : 0 < s0.events.size := Nat.lt_of_lt_of_le (by decide) s0_facts.2.2.2

/-- the script programs are id-opaque at every split index -/
theorem body_opaque : ∀ u, 0 < u → BodySim (shAt u) (IS.rn u) (body progs) :=
  fun u _ => script_bodySim (shAt u) progs progs_closed

/-- … and name only ids they have been given -/
theorem run_scoped : ScopedRun IS (body progs) 5 s0 := script_scopedRun progs progs_closed 5 s0 s0_facts.1

/-- computed by the kernel: every piece of the plan returns normally; the split run leaves 22 observations, 16 event records
(14 of the uninterrupted run + 2 sentinels) and the 2 processes -/
theorem plan_returns : (execPlan (body progs) 5 100 plan s0).map (fun s => (s.trace.size, s.events.size, s.procs.length)) =
    some (22, 16, 2) := by decide +kernel

theorem plan_stops : numStops plan = 2 := rfl

end SplitPlanDemo
