import OnlVerif.Lemmas.GenScalar
import OnlVerif.Net.StampServer
import OnlVerif.Net.MultiQueue
import OnlVerif.Generated.SchedTx
/-!
# Bridge between the *generated* transmission delay of `Scheduler.send_packet` and the `txTime` of the two scheduler LTSs

`Generated/SchedTx.lean` is rewritten from `onl/scheduler/base.py` on every `./check C12` ("transmits one packet at a time for
exactly 8*size/rate" is C12's clause; the stamp rules of WFQ / VirtualClock are C14's: `Generated/Sched.lean`).
-/

namespace GenSchedTx

/-- the stamp family (WFQ, VirtualClock): `StampServer`'s `txTime` -/
theorem send_delay_eq {σ : Type} (d : Sched ℚ σ) (p : SPkt) :
    Gen.Scheduler.send_delay { rate := d.rate } p.size = Stamp.txTime d p := by
  unfold Gen.Scheduler.send_delay Stamp.txTime
  simp only [Num.ofInt_rat, Num.ofNat_rat']
  push_cast
  ring

/-- the multi-queue family (SP, RR, WRR, DRR): `MultiQueueServer`'s `txTime` -/
theorem mq_send_delay_eq {κ : Type} (sc : MQ.Sched ℚ κ) (p : MPkt) :
    Gen.Scheduler.send_delay { rate := sc.rate } p.size = MQ.txTime sc p := by
  unfold Gen.Scheduler.send_delay MQ.txTime
  simp only [Num.ofInt_rat, Num.ofNat_rat']
  push_cast
  ring

end GenSchedTx
