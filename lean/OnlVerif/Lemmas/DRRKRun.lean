import OnlVerif.Lemmas.DRRKAbsStep
import OnlVerif.Lemmas.ResStep
/-!
# The DRR scheduler on the kernel model: every kernel step is a configuration step; whole runs
-/

set_option linter.unusedSimpArgs false

namespace DRRK
open DRROnK QEntry
open TimerK (lookup plookup proc?_eq)

variable {F : Nat} {Q : Nat → ℚ} {flow size : Int → Nat} {cfg : DRR.Cfg ℚ} {Lmax P : Nat}
variable {s : KS} {a : A} {q : QEntry ℚ} {rest : List (QEntry ℚ)}

/-- what `popMin` returns is a minimal entry of the configuration -/
theorem isMin_of_pop (hk : KInv flow F Q s a) (hp : popMin s.agenda = some (q, rest)) :
    IsMin a q ∧ a.entries.Perm (q :: rest) := by
  have sp := popMin_spec _ _ _ hp
  have hperm : a.entries.Perm (q :: rest) := hk.ag.symm.trans sp.1
  refine ⟨⟨hperm.symm.subset List.mem_cons_self, ?_⟩, hperm⟩
  intro x hx
  rcases List.mem_cons.mp (hperm.subset hx) with rfl | hx
  · exact KeyLt.irrefl _
  · exact sp.2 x hx

theorem perm_run (hr : a.run.entries = [q]) (hperm : a.entries.Perm (q :: rest)) :
    rest.Perm (a.src.entries ++ pendEntries a.pend) := by
  simp only [A.entries, hr, List.singleton_append] at hperm
  exact hperm.cons_inv.symm

theorem perm_src (hr : a.src.entries = [q]) (hperm : a.entries.Perm (q :: rest)) :
    rest.Perm (a.run.entries ++ pendEntries a.pend) := by
  have : (q :: (a.run.entries ++ pendEntries a.pend)).Perm (q :: rest) := by
    refine List.Perm.trans ?_ hperm
    simp only [A.entries, hr, List.singleton_append]
    exact List.perm_middle.symm
  exact this.cons_inv.symm

theorem perm_pend {r : ResId} {l1 l2 : List (QEntry ℚ × ResId)} (hpe : a.pend = l1 ++ (q, r) :: l2)
    (hperm : a.entries.Perm (q :: rest)) : rest.Perm (a.run.entries ++ (a.src.entries ++ pendEntries (l1 ++ l2))) := by
  have : (q :: (a.run.entries ++ (a.src.entries ++ pendEntries (l1 ++ l2)))).Perm (q :: rest) := by
    refine List.Perm.trans ?_ hperm
    simp only [A.entries, hpe, pendEntries, List.map_append, List.map_cons]
    classical
    rw [List.perm_iff_count]
    intro z
    simp only [List.count_cons, List.count_append]
    omega
  exact this.cons_inv.symm

/-- `_trigger_get` of a pending `StorePut` that can serve nobody leaves the state alone -/
theorem triggerGet_noop (hk : KInv flow F Q s a) {r : Nat} {l1 l2 : List (QEntry ℚ × ResId)}
    (hpe : a.pend = l1 ++ (q, r) :: l2) (hno : ¬ (r = 0 ∧ a.tokens ≠ 0 ∧ ∃ g, a.run = .W g)) :
    triggerGet (openEvent s q rest) r = openEvent s q rest := by
  have hu : (q, r) ∈ a.pend := by rw [hpe]; simp
  obtain ⟨⟨hkind, hcbs, hout⟩, hrlt⟩ := hk.pend (q, r) hu
  by_cases hr0 : r = 0
  · subst hr0
    have htok := hk.tok
    simp only [KState.res] at htok
    cases hrun : a.run with
    | W g =>
      have htk : a.tokens = 0 := by
        by_contra hc
        exact hno ⟨rfl, hc, g, hrun⟩
      rw [hrun, htk] at htok
      simp only [RPhase.getQ, List.replicate] at htok
      have hr := hk.run
      rw [hrun] at hr
      obtain ⟨nrun, nsrc, npend, drun, dsrc⟩ := (ids_nodup_iff a).mp hk.nd
      obtain ⟨hqmem, -⟩ := pend_split_facts hpe npend
      have hgq : g ≠ q.ev := by
        intro h
        have := (drun g (by simp [hrun, drrids])).2
        exact this (h ▸ hqmem)
      have hgo := hr.1.2.2
      simp only [KState.ev] at hgo
      exact triggerGet_empty _ 0 g htok (by ksimp [hgq, hgo])
    | init q0 => rw [hrun] at htok; exact triggerGet_none _ 0 _ htok
    | K g q0 => rw [hrun] at htok; exact triggerGet_none _ 0 _ htok
    | H g i id q0 => rw [hrun] at htok; exact triggerGet_none _ 0 _ htok
    | S p i id q0 => rw [hrun] at htok; exact triggerGet_none _ 0 _ htok
    | T p t i id q0 => rw [hrun] at htok; exact triggerGet_none _ 0 _ htok
    | F p i id q0 => rw [hrun] at htok; exact triggerGet_none _ 0 _ htok
  · have hf : r - 1 < F := by
      have : r < F + 1 := hrlt
      omega
    have hst := hk.st (r - 1) hf
    have hrr : flowStore (r - 1) = r := by unfold flowStore; omega
    rw [hrr] at hst
    simp only [KState.res] at hst
    exact triggerGet_none _ r _ hst


/-- the burst ends with a `get`: the store of that class is not empty -/
theorem get_facts {a1 : A} {now : ℚ} (hm : MidInv F flow size cfg Lmax P a1 now) {L : LS} {m' c' : Nat}
    (hE : EndOK size a1.ccnt a1.hol (a1.total F) cfg.weights L (some (.get m' c'))) :
    c' < F ∧ ∃ id' is, a1.items c' = id' :: is ∧ flow id' = c' := by
  obtain ⟨⟨w, hw⟩, hhol, -, hcpos⟩ := hE
  have hc' : c' < F := entry_lt hm.table (List.mem_of_getElem? hw)
  have h1 := hm.cntOK c' hc'
  rw [holCnt_none hhol, ← hm.ccntOK c' hc'] at h1
  cases hit : a1.items c' with
  | nil => rw [hit] at h1; simp at h1; omega
  | cons id' is => exact ⟨hc', id', is, rfl, (hm.flowOK c' hc' id' (by rw [hit]; simp)).1⟩

theorem hol_flows {now : ℚ} (hi : AInv flow F size cfg Lmax P a now) :
    ∀ e ∈ cfg.weights, ∀ id, a.hol e.1 = some id → flow id = e.1 :=
  fun e he id h => (hi.holOK e.1 (entry_lt hi.table he) id h).1

/-- **one kernel step = one configuration step** -/
theorem kstep (fuel : Nat) (hk : KInv flow F (qOf cfg) s a) (hi0 : AInv flow F size cfg Lmax P a s.now)
    (hp : popMin s.agenda = some (q, rest)) :
    ∃ s' a' new, step (prog F flow size cfg P) (fuel + 1) s = .ok s' ∧ KInv flow F (qOf cfg) s' a' ∧
      AStep F flow size cfg P s.events.size s.eid a q a' new ∧
      s'.now = q.time ∧ histOf s'.trace = histOf s.trace ++ new := by
  obtain ⟨hmin, hperm⟩ := isMin_of_pop hk hp
  have hi := hi0.advance hmin
  have hF : ∀ x ∈ cfg.weights, x.1 < F := fun x hx => entry_lt hi.table hx
  have hfl := hol_flows hi
  have hq := hmin.1
  simp only [A.entries, List.mem_append] at hq
  unfold prog
  rcases hq with hq | hq | hq
  · -- an entry of the server
    have hrun := hi.run
    cases hr : a.run with
    | W g => simp [hr, RPhase.entries] at hq
    | init q0 =>
      simp only [hr, RPhase.entries, List.mem_singleton] at hq; subst hq
      have hrest := perm_run (by simp [hr, RPhase.entries]) hperm
      rw [hr] at hrun
      obtain ⟨-, -, htk, -, hit, hcn, -, -, hhol⟩ := hrun
      have hst : StartsAt a q .top := Or.inl hr
      rcases burst_cases hi hst with ⟨g, m, id, he, -⟩ | ⟨a1, e0, L, fin, hm, -, hsb, -, hne, hE, hbe, htop⟩
      · cases he
      · cases fin with
        | hang => exact absurd rfl hne
        | get m' c' =>
          obtain ⟨⟨w, hw⟩, -, -, hcpos⟩ := hE
          have hc' := entry_lt hm.table (List.mem_of_getElem? hw)
          rw [hm.ccntOK c' hc', hsb.cnt, hcn c'] at hcpos
          exact absurd hcpos (lt_irrefl _)
        | send m' c' id' pk =>
          obtain ⟨-, -, hh, -⟩ := hE
          rw [htop rfl, hhol c'] at hh
          cases hh
        | idle =>
          obtain ⟨s', h1, h2, h3, h4⟩ := kstep_runInit (size := size) (rate := cfg.rate) fuel hk hr hF hfl hbe rfl htk hp hrest
          exact ⟨s', _, _, h1, h2, AStep.burstBlock a q .top _ hst hbe rfl htk, h3, by rw [h4, List.append_assoc]⟩
    | K g q0 =>
      simp only [hr, RPhase.entries, List.mem_singleton] at hq; subst hq
      have hrest := perm_run (by simp [hr, RPhase.entries]) hperm
      rw [hr] at hrun
      have hst : StartsAt a q .top := Or.inr ⟨g, hr⟩
      rcases burst_cases hi hst with ⟨g', m, id, he, -⟩ | ⟨a1, e0, L, fin, hm, -, hsb, -, hne, hE, hbe, htop⟩
      · cases he
      · cases fin with
        | hang => exact absurd rfl hne
        | get m' c' =>
          obtain ⟨hc', id', is, hit, hfl'⟩ := get_facts hm hE
          rw [hsb.items] at hit
          obtain ⟨s', h1, h2, h3, h4⟩ := kstep_wakeGet (size := size) (rate := cfg.rate) fuel hk hr hF hfl hbe rfl hc' hit hfl' hp hrest
          exact ⟨s', _, _, h1, h2, AStep.burstGet a q .top _ m' c' id' is hst hbe rfl hc' hit, h3, h4⟩
        | send m' c' id' pk =>
          obtain ⟨-, ⟨w, hw⟩, hh, -⟩ := hE
          have hc' := entry_lt hm.table (List.mem_of_getElem? hw)
          rw [htop rfl, hrun.2.2.2 c' hc'] at hh
          cases hh
        | idle =>
          cases htk : a.tokens with
          | zero =>
            obtain ⟨s', h1, h2, h3, h4⟩ := kstep_wakeBlock (size := size) (rate := cfg.rate) fuel hk hr hF hfl hbe rfl htk hp hrest
            exact ⟨s', _, _, h1, h2, AStep.burstBlock a q .top _ hst hbe rfl htk, h3, by rw [h4, List.append_assoc]⟩
          | succ t =>
            obtain ⟨s', h1, h2, h3, h4⟩ := kstep_wakeTok (size := size) (rate := cfg.rate) fuel hk hr hF hfl hbe rfl htk hp hrest
            exact ⟨s', _, _, h1, h2, AStep.burstTok a q .top _ t hst hbe rfl htk, h3, by rw [h4, List.append_assoc]⟩
    | H g m id q0 =>
      simp only [hr, RPhase.entries, List.mem_singleton] at hq; subst hq
      have hrest := perm_run (by simp [hr, RPhase.entries]) hperm
      rw [hr] at hrun
      obtain ⟨-, -, -, hpk, ⟨w, hw⟩, hhol, -⟩ := hrun
      obtain ⟨wrest, hws⟩ := drop_of_getElem? hw
      have hst : StartsAt a q (.got m id) := ⟨g, hr⟩
      rcases burst_cases hi hst with ⟨g', m1, id1, he, -, -, hbe⟩ | ⟨a1, e0, L, fin, hm, -, hsb, -, hne, hE, hbe, htop⟩
      · cases he
        obtain ⟨s', h1, h2, h3, h4⟩ := kstep_gotSend (size := size) (rate := cfg.rate) fuel hk hr hF hfl hws hhol hpk.1 hbe rfl hp hrest
        exact ⟨s', _, _, h1, h2, AStep.burstSend a q (.got m id) _ m (flow id) id false hst hbe rfl, h3, by rw [h4, List.append_assoc]⟩
      · cases fin with
        | hang => exact absurd rfl hne
        | get m' c' =>
          obtain ⟨hc', id', is, hit, hfl'⟩ := get_facts hm hE
          rw [hsb.items] at hit
          obtain ⟨s', h1, h2, h3, h4⟩ := kstep_gotGet (size := size) (rate := cfg.rate) fuel hk hr hF hfl hws hhol hpk.1 hbe rfl hc' hit hfl' hp hrest
          exact ⟨s', _, _, h1, h2, AStep.burstGet a q (.got m id) _ m' c' id' is hst hbe rfl hc' hit, h3, h4⟩
        | send m' c' id' pk =>
          obtain ⟨s', h1, h2, h3, h4⟩ := kstep_gotSend (size := size) (rate := cfg.rate) fuel hk hr hF hfl hws hhol hpk.1 hbe rfl hp hrest
          exact ⟨s', _, _, h1, h2, AStep.burstSend a q (.got m id) _ m' c' id' pk hst hbe rfl, h3, by rw [h4, List.append_assoc]⟩
        | idle =>
          exfalso
          -- the packet `run` resumed with is parked or booked … and `total_packets == 0`?
          have hemp := mid_empty hm hE
          have h1 := hi.cntOK (flow id) hpk.1
          rw [heldCnt_some (show a.run.held = some id by simp [hr, RPhase.held]), if_pos rfl] at h1
          have h2 := hm.cntOK (flow id) hpk.1
          rw [(hemp _ hpk.1).1, holCnt_none (hemp _ hpk.1).2, hsb.cnt] at h2
          have h5 : 0 ≤ holCnt a (flow id) := by unfold holCnt; split <;> omega
          simp at h2
          omega
    | S p m id q0 =>
      simp only [hr, RPhase.entries, List.mem_singleton] at hq; subst hq
      have hrest := perm_run (by simp [hr, RPhase.entries]) hperm
      obtain ⟨s', h1, h2, h3, h4⟩ := kstep_sendInit (size := size) (ws := cfg.weights) (P := P) fuel hi.rate hk hr hp hrest
      exact ⟨s', _, [], h1, h2, AStep.sendInit a q p m id hr, h3, by simpa using h4⟩
    | T p t m id q0 =>
      simp only [hr, RPhase.entries, List.mem_singleton] at hq; subst hq
      have hrest := perm_run (by simp [hr, RPhase.entries]) hperm
      rw [hr] at hrun
      obtain ⟨s', h1, h2, h3, h4⟩ := kstep_sendFire (size := size) (rate := cfg.rate) (ws := cfg.weights) (P := P) fuel hk hr hrun.2.2.1.1 hp hrest
      exact ⟨s', _, _, h1, h2, AStep.sendFire a q p t m id hr, h3, h4⟩
    | F p m id q0 =>
      simp only [hr, RPhase.entries, List.mem_singleton] at hq; subst hq
      have hrest := perm_run (by simp [hr, RPhase.entries]) hperm
      rw [hr] at hrun
      obtain ⟨-, -, -, hpk, ⟨w, hw⟩, hhol, -⟩ := hrun
      obtain ⟨wrest, hws⟩ := drop_of_getElem? hw
      have hst : StartsAt a q (.done m id) := ⟨p, hr⟩
      rcases burst_cases hi hst with ⟨g', m1, id1, he, -⟩ | ⟨a1, e0, L, fin, hm, -, hsb, -, hne, hE, hbe, htop⟩
      · cases he
      · cases fin with
        | hang => exact absurd rfl hne
        | get m' c' =>
          obtain ⟨hc', id', is, hit, hfl'⟩ := get_facts hm hE
          rw [hsb.items] at hit
          obtain ⟨s', h1, h2, h3, h4⟩ := kstep_doneGet (size := size) (rate := cfg.rate) fuel hk hr hF hfl hws hbe rfl hc' hit hfl' hp hrest
          exact ⟨s', _, _, h1, h2, AStep.burstGet a q (.done m id) _ m' c' id' is hst hbe rfl hc' hit, h3, h4⟩
        | send m' c' id' pk =>
          obtain ⟨s', h1, h2, h3, h4⟩ := kstep_doneSend (size := size) (rate := cfg.rate) fuel hk hr hF hfl hws hbe rfl hp hrest
          exact ⟨s', _, _, h1, h2, AStep.burstSend a q (.done m id) _ m' c' id' pk hst hbe rfl, h3, by rw [h4, List.append_assoc]⟩
        | idle =>
          cases htk : a.tokens with
          | zero =>
            obtain ⟨s', h1, h2, h3, h4⟩ := kstep_doneBlock (size := size) (rate := cfg.rate) fuel hk hr hF hfl hws hbe rfl htk hp hrest
            exact ⟨s', _, _, h1, h2, AStep.burstBlock a q (.done m id) _ hst hbe rfl htk, h3, by rw [h4, List.append_assoc]⟩
          | succ t =>
            obtain ⟨s', h1, h2, h3, h4⟩ := kstep_doneTok (size := size) (rate := cfg.rate) fuel hk hr hF hfl hws hbe rfl htk hp hrest
            exact ⟨s', _, _, h1, h2, AStep.burstTok a q (.done m id) _ t hst hbe rfl htk, h3, by rw [h4, List.append_assoc]⟩
  · -- an entry of the source
    have hsa := hi.src
    cases hsrc : a.src with
    | done => simp [hsrc, SPhase.entries] at hq
    | init q0 arr =>
      simp only [hsrc, SPhase.entries, List.mem_singleton] at hq; subst hq
      have hrest := perm_src (by simp [hsrc, SPhase.entries]) hperm
      rw [hsrc] at hsa
      obtain ⟨s', h1, h2, h3, h4⟩ := kstep_srcInit (size := size) (rate := cfg.rate) (ws := cfg.weights) (P := P) fuel hk hsrc
        (fun x hx => (hsa.2.2 x hx).1) hp hrest
      exact ⟨s', _, [], h1, h2, AStep.srcInit a q arr hsrc, h3, by simpa using h4⟩
    | ending q0 =>
      simp only [hsrc, SPhase.entries, List.mem_singleton] at hq; subst hq
      have hrest := perm_src (by simp [hsrc, SPhase.entries]) hperm
      obtain ⟨s', h1, h2, h3, h4⟩ := kstep_srcEnd (size := size) (rate := cfg.rate) (ws := cfg.weights) (P := P) fuel hk hsrc hp hrest
      exact ⟨s', _, [], h1, h2, AStep.srcEnd a q hsrc, h3, by simpa using h4⟩
    | wait id arr q0 =>
      simp only [hsrc, SPhase.entries, List.mem_singleton] at hq; subst hq
      have hrest := perm_src (by simp [hsrc, SPhase.entries]) hperm
      rw [hsrc] at hsa
      obtain ⟨-, hpk, hw⟩ := hsa
      by_cases htot : a.total F = 0
      · obtain ⟨s', h1, h2, h3, h4⟩ := kstep_srcPutTok (size := size) (rate := cfg.rate) (ws := cfg.weights) (P := P) fuel hk hsrc hpk.1 htot
          (fun x hx => (hw x hx).1) hp hrest
        exact ⟨s', _, _, h1, h2, AStep.srcPutTok a q id arr hsrc htot, h3, h4⟩
      · obtain ⟨s', h1, h2, h3, h4⟩ := kstep_srcPutPlain (size := size) (rate := cfg.rate) (ws := cfg.weights) (P := P) fuel hk hsrc hpk.1 htot
          (fun x hx => (hw x hx).1) hp hrest
        exact ⟨s', _, _, h1, h2, AStep.srcPutPlain a q id arr hsrc htot, h3, h4⟩
  · -- a pending `StorePut` event
    simp only [pendEntries, List.mem_map] at hq
    obtain ⟨u, hu, rfl⟩ := hq
    obtain ⟨l1, l2, hpe⟩ := List.append_of_mem hu
    obtain ⟨q1, r⟩ := u
    have hrest := perm_pend hpe hperm
    by_cases hh : r = 0 ∧ a.tokens ≠ 0 ∧ ∃ g, a.run = .W g
    · obtain ⟨rfl, htk, g, hr⟩ := hh
      obtain ⟨t, ht⟩ := Nat.exists_eq_succ_of_ne_zero htk
      obtain ⟨s', h1, h2, h3, h4⟩ := kstep_pendHand (size := size) (rate := cfg.rate) (ws := cfg.weights) (P := P) fuel hk hpe hr ht hp hrest
      exact ⟨s', _, [], h1, h2, AStep.pendHand a q1 g t l1 l2 hpe hr ht, h3, by simpa using h4⟩
    · obtain ⟨s', h1, h2, h3, h4⟩ := kstep_pendNoop (size := size) (rate := cfg.rate) (ws := cfg.weights) (P := P) fuel hk hpe
        (triggerGet_noop hk hpe hh) hp hrest
      exact ⟨s', _, [], h1, h2, AStep.pendNoop a q1 r l1 l2 hpe hh, h3, by simpa using h4⟩

/-! ## the combined invariant -/

/-- the kernel state `s` is the configuration `a`, and `a` is sound -/
structure Inv (F : Nat) (flow size : Int → Nat) (cfg : DRR.Cfg ℚ) (Lmax P : Nat) (s : KS) (a : A) : Prop where
  k : KInv flow F (qOf cfg) s a
  a : AInv flow F size cfg Lmax P a s.now

/-- **one kernel step**: it is `.ok`, is a configuration step, keeps the invariant and uses one unit of the step budget -/
theorem inv_step (fuel : Nat) (h : Inv F flow size cfg Lmax P s a) (hp : popMin s.agenda = some (q, rest)) :
    ∃ s' a' new, step (prog F flow size cfg P) (fuel + 1) s = .ok s' ∧ Inv F flow size cfg Lmax P s' a' ∧ a'.mu F + 1 ≤ a.mu F ∧
      AStep F flow size cfg P s.events.size s.eid a q a' new ∧ s'.now = q.time ∧ histOf s'.trace = histOf s.trace ++ new := by
  obtain ⟨s', a', new, h1, h2, h3, h4, h5⟩ := kstep fuel h.k h.a hp
  obtain ⟨g1, g2⟩ := astep_sound h.a (isMin_of_pop h.k hp).1 h3
  exact ⟨s', a', new, h1, ⟨h2, by rw [h4]; exact g1⟩, g2, h3, h4, h5⟩

theorem popMin_none {l : List (QEntry ℚ)} (h : popMin l = none) : l = [] := by
  cases l with
  | nil => rfl
  | cons x xs =>
    unfold popMin at h
    cases hp : popMin xs with
    | none => rw [hp] at h; cases h
    | some mr => rw [hp] at h; simp only at h; split at h <;> cases h

/-- **`run()` returns**: with more step budget than the configuration needs, `runLoop` ends with an empty agenda, in a state
reachable by kernel steps -/
theorem run_returns (fuel : Nat) (s0 : KS) : ∀ (n : Nat) (s : KS) (a : A), Inv F flow size cfg Lmax P s a → a.mu F < n →
    KReach (prog F flow size cfg P) (fuel + 1) s0 s →
    ∃ sF aF, runLoop (prog F flow size cfg P) (fuel + 1) none n s = .returned .none sF ∧
      Inv F flow size cfg Lmax P sF aF ∧ sF.agenda = [] ∧ KReach (prog F flow size cfg P) (fuel + 1) s0 sF
  | 0, _, _, _, hmu, _ => absurd hmu (Nat.not_lt_zero _)
  | n + 1, s, a, h, hmu, hre => by
    cases hp : popMin s.agenda with
    | none =>
      refine ⟨s, a, ?_, h, popMin_none hp, hre⟩
      simp [runLoop, step, hp]
    | some qr =>
      obtain ⟨q, rest⟩ := qr
      obtain ⟨s', a', new, h1, h2, h3, -⟩ := inv_step fuel h hp
      have := run_returns fuel s0 n s' a' h2 (by omega) (KReach.step hre (by rw [h1]; rfl))
      simpa [runLoop, h1] using this

/-! ## the initial state -/

/-- the configuration of the initial state -/
def a0 (arrivals : List (ℚ × Int)) : A :=
  { run := .init ⟨0, URGENT, 0, 1⟩, src := .init ⟨0, URGENT, 1, 3⟩ arrivals, pend := [], tokens := 0, items := fun _ => [],
    cnt := fun _ => 0, byt := fun _ => 0, recv := 0, cur := none, keys := [], ccnt := fun _ => 0, dfc := fun _ => 0,
    hol := fun _ => none, forf := fun _ => 0 }

/-- the cells `DRR.__init__` writes for a declared class -/
theorem lookup_classCells (v : List (Nat × Val)) : ∀ (ws : List (Nat × Nat)) (c w : Nat), (ws.map (·.1)).Nodup → (c, w) ∈ ws →
    lookup (classCells cfg ws ++ v) (cCount c) = .int 0 ∧ lookup (classCells cfg ws ++ v) (cBytes c) = .int 0 ∧
    lookup (classCells cfg ws ++ v) (cCls c) = .int 0 ∧ lookup (classCells cfg ws ++ v) (cDef c) = TimeCell.enc (0 : ℚ) ∧
    lookup (classCells cfg ws ++ v) (cHol c) = .none ∧
    lookup (classCells cfg ws ++ v) (cQuant c) = TimeCell.enc (DRR.quantumW cfg w) ∧
    lookup (classCells cfg ws ++ v) (cForf c) = TimeCell.enc (0 : ℚ)
  | [], c, w, _, h => by cases h
  | (c0, w0) :: rest, c, w, hnd, h => by
    simp only [List.map_cons, List.nodup_cons] at hnd
    simp only [classCells, List.cons_append]
    by_cases hc : c = c0
    · subst hc
      have hw : w = w0 := by
        rcases List.mem_cons.mp h with h | h
        · cases h; rfl
        · exact absurd (List.mem_map_of_mem (f := (·.1)) h) hnd.1
      subst hw
      ksimp [TimerK.lookup_cons]
    · have hin : (c, w) ∈ rest := by
        rcases List.mem_cons.mp h with h | h
        · cases h; exact absurd rfl hc
        · exact h
      have ih := lookup_classCells v rest c w hnd.2 hin
      ksimp [TimerK.lookup_cons, hc, ih.1, ih.2.1, ih.2.2.1, ih.2.2.2.1, ih.2.2.2.2.1, ih.2.2.2.2.2.1, ih.2.2.2.2.2.2]

theorem getD_replicate (n r : Nat) (h : r < n) :
    ((List.replicate n storeRes).toArray : Array ResRec).getD r default = storeRec [] [] := by
  simp [Array.getD_eq_getD_getElem?, h, storeRes, storeRec]

/-- the quantum `DRR.__init__` computes for a declared class -/
theorem weight_of (ht : FlowsOK F cfg) {c : Nat} (hc : c < F) : ∃ w, (c, w) ∈ cfg.weights ∧ qOf cfg c = DRR.quantumW cfg w := by
  obtain ⟨w, hw⟩ := DRR.lookup_of_mem_keys cfg.weights c ((mem_flows ht c).mpr hc)
  refine ⟨w, DRR.mem_of_lookup _ _ _ hw, ?_⟩
  simp [qOf, DRR.quantum, hw]

theorem inv_init (arrivals : List (ℚ × Int)) (hw : WorkOK flow F size Lmax arrivals) (ht : FlowsOK F cfg) (hr : 0 < cfg.rate)
    (hP : ∃ k, P = k + 1 ∧ Lmax ≤ 1500 * k) :
    Inv F flow size cfg Lmax P (initState F cfg arrivals) (a0 arrivals) := by
  simp only [initState, List.foldl, doCall_spawn, zero_eq']
  refine ⟨⟨⟨?_, ?_, ?_⟩, ?_, ?_, ?_, ?_, ?_, ?_, ?_, ?_, ⟨?_, ?_, ?_, ?_, ?_, ?_, ?_, ?_, ?_⟩⟩,
    ⟨?_, ?_, ?_, ?_, ?_, ?_, ?_, ?_, ?_, ?_, ht, hr, hP⟩⟩
  · intro q hq; simp at hq; rcases hq with rfl | rfl <;> simp
  · intro q hq; simp at hq; rcases hq with rfl | rfl <;> simp
  · simp
  · simp only [A.entries, a0, RPhase.entries, SPhase.entries, pendEntries, List.map_nil, List.append_nil, List.singleton_append]
    exact List.Perm.swap _ _ _
  · simp
  · simp only [KState.res, a0, RPhase.getQ, List.replicate]
    exact getD_replicate (F + 1) 0 (by omega)
  · intro f hf
    simp only [KState.res, a0]
    exact getD_replicate (F + 1) (flowStore f) (by unfold flowStore; omega)
  · refine ⟨rfl, ?_, ?_, ?_⟩
    · simp [EvIs, KState.ev]
    · simp [proc?_eq, plookup]
    · simp [EvIs, KState.ev]
  · refine ⟨rfl, ?_, ?_, ?_⟩
    · simp [EvIs, KState.ev]
    · simp [proc?_eq, plookup]
    · simp [EvIs, KState.ev]
  · intro u hu; cases hu
  · simp [a0, drrids]
  · ksimp [a0, TimerK.lookup_cons]
  · ksimp [a0, TimerK.lookup_cons]
  · intro f hf
    obtain ⟨w, hmem, -⟩ := weight_of ht hf
    have := (lookup_classCells (cfg := cfg) [] cfg.weights f w (flows_nodup ht) hmem).1
    simp only [List.append_nil] at this
    ksimp [a0, TimerK.lookup_cons, this]
  · intro f hf
    obtain ⟨w, hmem, -⟩ := weight_of ht hf
    have := (lookup_classCells (cfg := cfg) [] cfg.weights f w (flows_nodup ht) hmem).2.1
    simp only [List.append_nil] at this
    ksimp [a0, TimerK.lookup_cons, this]
  · intro f hf
    obtain ⟨w, hmem, -⟩ := weight_of ht hf
    have := (lookup_classCells (cfg := cfg) [] cfg.weights f w (flows_nodup ht) hmem).2.2.1
    simp only [List.append_nil] at this
    ksimp [a0, TimerK.lookup_cons, this]
  · intro f hf
    obtain ⟨w, hmem, -⟩ := weight_of ht hf
    have := (lookup_classCells (cfg := cfg) [] cfg.weights f w (flows_nodup ht) hmem).2.2.2.1
    simp only [List.append_nil] at this
    ksimp [a0, TimerK.lookup_cons, this]
  · intro f hf
    obtain ⟨w, hmem, -⟩ := weight_of ht hf
    have := (lookup_classCells (cfg := cfg) [] cfg.weights f w (flows_nodup ht) hmem).2.2.2.2.1
    simp only [List.append_nil] at this
    ksimp [a0, TimerK.lookup_cons, this]
  · intro f hf
    obtain ⟨w, hmem, hq⟩ := weight_of ht hf
    have := (lookup_classCells (cfg := cfg) [] cfg.weights f w (flows_nodup ht) hmem).2.2.2.2.2.1
    simp only [List.append_nil] at this
    ksimp [a0, TimerK.lookup_cons, this, hq]
  · intro f hf
    obtain ⟨w, hmem, -⟩ := weight_of ht hf
    have := (lookup_classCells (cfg := cfg) [] cfg.weights f w (flows_nodup ht) hmem).2.2.2.2.2.2
    simp only [List.append_nil] at this
    ksimp [a0, TimerK.lookup_cons, this]
  · exact ⟨rfl, rfl, rfl, rfl, fun _ => rfl, fun _ => rfl, rfl, rfl, fun _ => rfl⟩
  · exact ⟨rfl, rfl, hw⟩
  · intro u hu; cases hu
  · intro x hx
    simp [A.entries, a0, RPhase.entries, SPhase.entries, pendEntries] at hx
    rcases hx with rfl | rfl <;> simp
  · intro f hf; simp [a0, heldCnt, holCnt, RPhase.held]
  · intro f hf; simp [a0, unbookedCnt, RPhase.unbooked]
  · intro f hf i hi; simp [a0] at hi
  · intro f hf i hi; simp [a0] at hi
  · exact ⟨fun f hf => by simp [a0] at hf, fun f hf _ => ⟨rfl, rfl, rfl⟩⟩
  · intro f hf; simp [a0]

theorem a0_mu (arrivals : List (ℚ × Int)) : (a0 arrivals).mu F = 10 * arrivals.length + 3 := by
  have : waitingFrom (fun _ => ([] : List Int)) (fun _ => (none : Option Int)) 0 F = 0 :=
    waitingFrom_zero _ _ _ _ (fun _ _ _ => ⟨rfl, rfl⟩)
  simp [A.mu, a0, RPhase.mu, SPhase.mu, this]
  omega

/-- **every state reachable by kernel steps is a sound configuration** -/
theorem reach_inv (fuel : Nat) {arrivals : List (ℚ × Int)} (hw : WorkOK flow F size Lmax arrivals) (ht : FlowsOK F cfg)
    (hr : 0 < cfg.rate) (hP : ∃ k, P = k + 1 ∧ Lmax ≤ 1500 * k) {s : KS}
    (h : KReach (prog F flow size cfg P) (fuel + 1) (initState F cfg arrivals) s) :
    ∃ a, Inv F flow size cfg Lmax P s a := by
  induction h with
  | init => exact ⟨a0 arrivals, inv_init arrivals hw ht hr hP⟩
  | @step s s' _ hs ih =>
    obtain ⟨a, hi⟩ := ih
    cases hp : popMin s.agenda with
    | none => simp [step, hp, StepResult.state?] at hs
    | some qr =>
      obtain ⟨q, rest⟩ := qr
      obtain ⟨s'', a', new, h1, h2, -⟩ := inv_step fuel hi hp
      rw [h1] at hs
      simp only [StepResult.state?, Option.some.injEq] at hs
      subst hs
      exact ⟨a', h2⟩

end DRRK
