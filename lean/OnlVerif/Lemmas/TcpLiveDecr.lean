import OnlVerif.Lemmas.TcpLiveMeasure
/-!
# Every fair step of the closed loop decreases the termination measure (C16)
-/

open TcpScalar TcpSender TcpSink TcpLoop

namespace TcpLive

variable {n : Nat} {l l' : Loop ℚ}

/-! ## the loop steps, as equations -/

theorem own_step {act : Act ℚ} (hs : l.step (.own act) = some l') :
    ∃ s' outs, Loop.isAck act = false ∧ l.snd.step act = .ok s' outs ∧
      l'.snd = s' ∧ l'.sink = l.sink ∧ l'.data = l.data ++ outs ∧ l'.acks = l.acks := by
  unfold Loop.step at hs
  simp only at hs
  split_ifs at hs with hack
  cases hst : l.snd.step act with
  | reject w => rw [hst] at hs; cases hs
  | error e => rw [hst] at hs; cases hs
  | ok s' outs =>
    rw [hst] at hs
    injection hs with hs
    subst hs
    exact ⟨s', outs, by simpa using hack, rfl, rfl, rfl, rfl, rfl⟩

theorem deliver_step (h : LInv n l) (hs : l.step .deliver = some l') :
    ∃ tx rest p, l.data = tx :: rest ∧ IsPrefix (packetArrived l.sink tx.seq tx.size) p ∧
      l'.snd = l.snd ∧ l'.sink = packetArrived l.sink tx.seq tx.size ∧ l'.data = rest ∧
      l'.acks = l.acks ++ [Loop.ackFor tx p] := by
  unfold Loop.step at hs
  simp only at hs
  cases hd : l.data with
  | nil => rw [hd] at hs; cases hs
  | cons tx rest =>
    rw [hd] at hs
    simp only at hs
    obtain ⟨hsep', _⟩ := packetArrived_spec l.sink tx.seq tx.size h.sink
    obtain ⟨p, hn, hp⟩ := ackOf_isPrefix _ hsep' (packetArrived_ne_nil l.sink tx.seq tx.size)
    have hput : TcpSink.put l.sink tx.seq tx.size = (packetArrived l.sink tx.seq tx.size, .ok p) := by
      unfold TcpSink.put; simp only [hn]
    rw [hput] at hs
    injection hs with hs
    subst hs
    exact ⟨tx, rest, p, rfl, hp, rfl, rfl, rfl, rfl⟩

theorem ack_step (hs : l.step .ackArrive = some l') :
    ∃ x rest s' outs, l.acks = x :: rest ∧ l.snd.step (.ack x) = .ok s' outs ∧
      l'.snd = s' ∧ l'.sink = l.sink ∧ l'.data = l.data ++ outs ∧ l'.acks = rest := by
  unfold Loop.step at hs
  simp only at hs
  cases hd : l.acks with
  | nil => rw [hd] at hs; cases hs
  | cons x rest =>
    rw [hd] at hs
    simp only at hs
    cases hst : l.snd.step (.ack x) with
    | reject w => rw [hst] at hs; cases hs
    | error e => rw [hst] at hs; cases hs
    | ok s' outs =>
      rw [hst] at hs
      injection hs with hs
      subst hs
      exact ⟨x, rest, s', outs, rfl, hst, rfl, rfl, rfl, rfl⟩

/-! ## frame lemmas for the middle components -/

theorem mu_frame (ip : InPipe l' ↔ InPipe l) (hT : l'.snd.timers = l.snd.timers) (hP : l'.snd.last_ack = l.snd.last_ack)
    (hn : l'.snd.now = l.snd.now) (hr : l'.snd.est.rto = l.snd.est.rto) :
    muG l' = muG l ∧ muV l' = muV l ∧ muC l' = muC l := by
  unfold muG muV muC
  by_cases hip : InPipe l
  · have hip' := ip.mpr hip
    simp only [if_pos hip, if_pos hip', hT, hn, and_self]
  · have hip' : ¬ InPipe l' := fun c => hip (ip.mp c)
    simp only [if_neg hip, if_neg hip', hT, hP, hn, hr, and_self]

theorem mu_frame_mono (imp : InPipe l → InPipe l') (hT : l'.snd.timers = l.snd.timers)
    (hP : l'.snd.last_ack = l.snd.last_ack) (hn : l'.snd.now = l.snd.now) (hr : l'.snd.est.rto = l.snd.est.rto) :
    muG l' < muG l ∨ (muG l' = muG l ∧ muV l' = muV l ∧ muC l' = muC l) := by
  by_cases hip : InPipe l
  · exact Or.inr (mu_frame ⟨fun _ => hip, fun _ => imp hip⟩ hT hP hn hr)
  · by_cases hip' : InPipe l'
    · left
      unfold muG
      rw [if_pos hip', if_neg hip]
      exact Nat.zero_lt_one
    · exact Or.inr (mu_frame ⟨fun c => absurd c hip', fun c => absurd c hip⟩ hT hP hn hr)

theorem wd_append (P : Nat) (a b : List (Tx ℚ)) : wd P (a ++ b) = wd P a + wd P b := by
  unfold wd; rw [List.map_append, List.sum_append]

theorem wa_append (P : Nat) (a b : List (AckIn ℚ)) : wa P (a ++ b) = wa P a + wa P b := by
  unfold wa; rw [List.map_append, List.sum_append]

/-! ## `run` resumes -/

theorem decr_wake {fuel : Nat} (h : LInv n l) (hs : l.step (.own (.wake fuel)) = some l') : Lt5 (mu n l') (mu n l) := by
  obtain ⟨s', outs, _, hst, f1, f2, f3, f4⟩ := own_step hs
  obtain ⟨hp, w⟩ := wake_spec h.s hst
  rw [lt5_iff]
  by_cases ho : outs = []
  · subst ho
    rw [List.append_nil] at f3
    have hns : s'.next_seq = l.snd.next_seq := by simpa using w.next_seq
    have e1 : muA n l' = muA n l := by
      unfold muA
      rw [f1, f2, w.last_ack, hns]
    have ip : InPipe l' ↔ InPipe l := by
      unfold InPipe
      rw [f1, f3, f4, w.last_ack]
    obtain ⟨e2, e3, e4⟩ := mu_frame ip (by rw [f1]; exact w.quiet rfl) (by rw [f1]; exact w.last_ack)
      (by rw [f1]; exact w.now) (by rw [f1, w.est])
    have e5 : muW l' < muW l := by
      unfold muW
      rw [f1, f3, f4, w.last_ack]
      have := w.procm hp
      unfold pm
      rw [hp]
      simp only [if_true]
      omega
    simp only [mu]
    omega
  · left
    have hlen : 0 < outs.length * l.snd.mss := Nat.mul_pos (List.length_pos_iff.mpr ho) h.s.mpos
    have := w.sinv.ns_le
    have := w.next_seq
    simp only [mu]
    unfold muA
    rw [f1, f2, w.last_ack]
    omega

/-! ## a wake-up token is handed over -/

theorem decr_handoff (hs : l.step (.own .handoff) = some l') : Lt5 (mu n l') (mu n l) := by
  obtain ⟨s', outs, _, hst, f1, f2, f3, f4⟩ := own_step hs
  obtain ⟨hb, htok, rfl, rfl⟩ := handoff_spec hst
  rw [List.append_nil] at f3
  rw [lt5_iff]
  have e1 : muA n l' = muA n l := by
    unfold muA
    rw [f1, f2]
  have ip : InPipe l' ↔ InPipe l := by
    unfold InPipe
    rw [f1, f3, f4]
  obtain ⟨e2, e3, e4⟩ := mu_frame ip (by rw [f1]) (by rw [f1]) (by rw [f1]) (by rw [f1])
  have e5 : muW l' < muW l := by
    unfold muW
    rw [f1, f3, f4]
    unfold pm
    show _ + (2 * (l.snd.tokens - 1) + if Proc.runnable = Proc.runnable then 1 else 0) < _
    rw [hb]
    simp
    omega
  simp only [mu]
  omega

/-! ## a retransmission timer expires -/

theorem decr_fire {q : Nat} (h : LInv n l) (hs : l.step (.own (.fire q)) = some l') : Lt5 (mu n l') (mu n l) := by
  obtain ⟨s', outs, _, hst, f1, f2, f3, f4⟩ := own_step hs
  obtain ⟨tr, S, ht, _, hwake, _, _, rfl, rfl⟩ := fire_spec h.s.inv hst
  obtain ⟨nt, hnt⟩ : ∃ nt : TimerRec ℚ, nt =
      { expiry := l.snd.now + l.snd.est.rto * 2, wake := l.snd.now + l.snd.est.rto * 2, live := true } := ⟨_, rfl⟩
  have hntw : nt.wake = l.snd.now + l.snd.est.rto * 2 := by rw [hnt]
  rw [← hnt] at f1
  clear hst hnt
  rw [lt5_iff]
  have hrto := h.s.inv.rto_pos
  have e1 : muA n l' = muA n l := by
    unfold muA
    rw [f1, f2]
  have imp : InPipe l → InPipe l' := by
    unfold InPipe
    rw [f1, f3, f4]
    rintro (⟨tx, htx, e⟩ | hh)
    · exact Or.inl ⟨tx, List.mem_append_left _ htx, e⟩
    · exact Or.inr hh
  by_cases hip : InPipe l
  · have hip' := imp hip
    have e2 : muG l' = muG l := by unfold muG; rw [if_pos hip, if_pos hip']
    have e3 : muV l' = muV l := by unfold muV; rw [if_pos hip, if_pos hip']
    have e4 : muC l' < muC l := by
      unfold muC
      rw [if_pos hip, if_pos hip', f1]
      dsimp only
      have hc := AL.countP_set (fun kv : Nat × TimerRec ℚ => decide (kv.2.wake ≤ l.snd.now)) nt ht
      have h1 : decide (tr.wake ≤ l.snd.now) = true := by rw [hwake]; simp
      have h2 : decide (nt.wake ≤ l.snd.now) = false := by
        rw [decide_eq_false_iff_not, hntw]; intro hc; linarith
      simp only [h1, h2, if_true] at hc
      unfold due
      simp at hc
      omega
    simp only [mu]
    omega
  · by_cases hq : q = l.snd.last_ack
    · have hip' : InPipe l' := by
        unfold InPipe
        rw [f1, f3]
        left
        exact ⟨_, List.mem_append_right _ (List.mem_singleton.mpr rfl), hq⟩
      have : muG l' < muG l := by unfold muG; rw [if_pos hip', if_neg hip]; exact Nat.zero_lt_one
      simp only [mu]
      omega
    · have hip' : ¬ InPipe l' := by
        unfold InPipe at hip ⊢
        rw [f1, f3, f4]
        rintro (⟨tx, htx, e⟩ | hh)
        · rcases List.mem_append.mp htx with h1 | h1
          · exact hip (Or.inl ⟨tx, h1, e⟩)
          · simp only [List.mem_singleton] at h1
            subst h1
            exact hq e
        · exact hip (Or.inr hh)
      have e2 : muG l' = muG l := by unfold muG; rw [if_neg hip, if_neg hip']
      have hqk : q ∈ AL.keys l.snd.timers := AL.mem_of_get?_some ht
      have hPk : l.snd.last_ack ∈ AL.keys l.snd.timers := by
        apply h.s.tm
        have := h.s.tge q hqk
        have := (h.s.tk q hqk).2
        omega
      obtain ⟨trP, hP⟩ := AL.get?_isSome_of_mem hPk
      have hw : wakeOf l.snd.timers l.snd.last_ack = trP.wake := by unfold wakeOf; rw [hP]
      have hnow : l.snd.now ≤ trP.wake := (h.s.live _ (AL.pair_mem_of_get?_some hP)).2.2
      have e3 : muV l' < muV l := by
        unfold muV
        rw [if_neg hip, if_neg hip', f1]
        dsimp only
        have hw' : wakeOf (AL.set q nt l.snd.timers) l.snd.last_ack = trP.wake := by
          unfold wakeOf
          rw [AL.get?_set_ne _ _ (Ne.symm hq), hP]
        rw [hw', hw]
        have hc := AL.countP_set (fun kv : Nat × TimerRec ℚ => decide (kv.1 ≠ l.snd.last_ack) && decide (kv.2.wake ≤ trP.wake))
          nt ht
        have h1 : (decide (q ≠ l.snd.last_ack) && decide (tr.wake ≤ trP.wake)) = true := by
          rw [hwake]; simp [hq, hnow]
        simp only [h1, if_true] at hc
        unfold cnt
        by_cases hN : need trP.wake l.snd.now l.snd.est.rto = 0
        · have hz := need_zero _ _ _ hrto hN
          have h2 : (decide (q ≠ l.snd.last_ack) && decide (nt.wake ≤ trP.wake)) = false := by
            rw [hntw]; simp [hq]; exact hz
          simp only [h2, Bool.false_eq_true, if_false] at hc
          have := need_double_le trP.wake l.snd.now l.snd.est.rto hrto
          omega
        · have := need_double trP.wake l.snd.now l.snd.est.rto hrto (Nat.pos_of_ne_zero hN)
          have : (if (decide (q ≠ l.snd.last_ack) && decide (nt.wake ≤ trP.wake)) = true then 1 else 0) ≤ 1 := by
            split_ifs <;> omega
          omega
      simp only [mu]
      omega

/-! ## the clock advances to the next timer -/

theorem decr_tick {t : ℚ} (h : LInv n l) (hd : l.data = []) (ha : l.acks = []) (hlt : l.snd.now < t)
    (hex : ∃ kv ∈ l.snd.timers, kv.2.live = true ∧ Num.eqb kv.2.wake t = true)
    (hs : l.step (.own (.tick t)) = some l') : Lt5 (mu n l') (mu n l) := by
  obtain ⟨s', outs, _, hst, f1, f2, f3, f4⟩ := own_step hs
  obtain ⟨_, _, _, hov, rfl, rfl⟩ := tick_spec hst
  rw [List.append_nil] at f3
  rw [lt5_iff]
  have hrto := h.s.inv.rto_pos
  have e1 : muA n l' = muA n l := by
    unfold muA
    rw [f1, f2]
  have hip : ¬ InPipe l := by unfold InPipe; rw [hd, ha]; simp
  have hip' : ¬ InPipe l' := by unfold InPipe; rw [f3, f4, hd, ha]; simp
  have e2 : muG l' = muG l := by unfold muG; rw [if_neg hip, if_neg hip']
  have hge : ∀ kv ∈ l.snd.timers, t ≤ kv.2.wake := by
    intro kv hkv
    have a := (h.s.live kv hkv).1
    unfold Sender.overdue at hov
    have := (List.any_eq_false.mp hov) kv hkv
    simp only [a, Bool.true_and, decide_eq_true_eq] at this
    exact not_lt.mp this
  have e3 : muV l' ≤ muV l := by
    unfold muV
    rw [if_neg hip, if_neg hip', f1]
    dsimp only
    have := need_mono_now (wakeOf l.snd.timers l.snd.last_ack) l.snd.now t l.snd.est.rto hrto hlt.le
    omega
  have e4 : muC l' < muC l := by
    unfold muC
    rw [if_neg hip, if_neg hip', f1]
    dsimp only
    have a1 := fut_add_due l.snd.timers l.snd.now
    have a2 := fut_add_due l.snd.timers t
    have d0 : due l.snd.timers l.snd.now = 0 := by
      unfold due
      rw [List.countP_eq_zero]
      intro kv hkv
      have := hge kv hkv
      simp only [decide_eq_true_eq, not_le]
      linarith
    have d1 : 0 < due l.snd.timers t := by
      unfold due
      rw [List.countP_pos_iff]
      obtain ⟨kv, hkv, _, he⟩ := hex
      exact ⟨kv, hkv, by simp [(eqb_iff _ _).mp he]⟩
    omega
  simp only [mu]
  omega

/-! ## the head of the data path reaches the sink -/

theorem decr_deliver (h : LInv n l) (hs : l.step .deliver = some l') : Lt5 (mu n l') (mu n l) := by
  have h' := LInv_step h hs
  obtain ⟨tx, rest, p, hd, hp, f1, f2, f3, f4⟩ := deliver_step h hs
  obtain ⟨hsep', hcov'⟩ := packetArrived_spec l.sink tx.seq tx.size h.sink
  obtain ⟨m1, m2, m3⟩ := marks n h
  obtain ⟨m1', m2', m3'⟩ := marks n h'
  have hpp : pfx l'.sink = p := by rw [f2]; exact isPrefix_unique (pfx_isPrefix hsep') hp
  have hmono : pfx l.sink ≤ p := isPrefix_mono (pfx_isPrefix h.sink) hp (fun b hb => (hcov' b).mpr (Or.inl hb))
  rw [hpp, f1] at m2'
  rw [lt5_iff]
  by_cases hgain : pfx l.sink < p
  · left
    simp only [mu]
    unfold muA
    rw [hpp, f1]
    omega
  · have hpe : p = pfx l.sink := by omega
    have e1 : muA n l' = muA n l := by
      unfold muA
      rw [hpp, f1, hpe]
    obtain ⟨t1, _, _, _⟩ := h.data tx (by rw [hd]; exact List.mem_cons_self)
    have hself : Covers (packetArrived l.sink tx.seq tx.size) tx.seq :=
      (hcov' _).mpr (Or.inr ⟨Nat.le_refl _, by rw [t1]; have := h.s.mpos; omega⟩)
    have key : tx.seq = l.snd.last_ack → l.snd.last_ack < p := by
      intro e
      rcases Nat.lt_or_ge l.snd.last_ack p with c | c
      · exact c
      · exfalso
        have e2 : p = tx.seq := by omega
        exact hp.2 (e2 ▸ hself)
    have hackno : (Loop.ackFor tx p).ackno = p := rfl
    have imp : InPipe l → InPipe l' := by
      unfold InPipe
      rw [f1, f3, f4, hd]
      rintro (⟨y, hy, e⟩ | ⟨a, ha, e⟩)
      · rcases List.mem_cons.mp hy with rfl | hy
        · exact Or.inr ⟨Loop.ackFor y p, by simp, key e⟩
        · exact Or.inl ⟨y, hy, e⟩
      · exact Or.inr ⟨a, List.mem_append_left _ ha, e⟩
    have e5 : muW l' < muW l := by
      unfold muW
      rw [f1, f3, f4, hd, wa_append]
      unfold wd wa
      simp only [List.map_cons, List.sum_cons, List.map_nil, List.sum_nil, hackno]
      by_cases e : tx.seq = l.snd.last_ack
      · have := key e
        have e' : ¬ p = l.snd.last_ack := by omega
        rw [if_pos e, if_neg e']
        omega
      · rw [if_neg e]
        split_ifs <;> omega
    rcases mu_frame_mono imp (by rw [f1]) (by rw [f1]) (by rw [f1]) (by rw [f1]) with g | ⟨g2, g3, g4⟩
    · simp only [mu]
      omega
    · simp only [mu]
      omega

/-! ## the head of the ACK path reaches the sender -/

theorem decr_ack (h : LInv n l) (hs : l.step .ackArrive = some l') : Lt5 (mu n l') (mu n l) := by
  obtain ⟨x, rest, s', outs, hd, hst, f1, f2, f3, f4⟩ := ack_step hs
  have ox := h.acks x (by rw [hd]; exact List.mem_cons_self)
  have g := ox.good h
  obtain ⟨m1, m2, m3⟩ := marks n h
  rw [lt5_iff]
  cases ack_cases h.s.inv g.ok hst with
  | stale hlt _ _ => exact absurd hlt (Nat.not_lt.mpr g.ge)
  | new T S hne e1 hT hsub e2 =>
    left
    subst e1
    simp only [mu]
    unfold muA
    rw [f1, f2]
    dsimp only
    have := g.ge
    have := g.le
    omega
  | early hdup h2 e1 e2 =>
    subst e1 e2
    rw [List.append_nil] at f3
    have e1 : muA n l' = muA n l := by
      unfold muA
      rw [f1, f2]
    have ip : InPipe l' ↔ InPipe l := by
      unfold InPipe
      rw [f1, f3, f4, hd]
      dsimp only
      constructor
      · rintro (hh | ⟨a, ha, e⟩)
        · exact Or.inl hh
        · exact Or.inr ⟨a, List.mem_cons_of_mem _ ha, e⟩
      · rintro (hh | ⟨a, ha, e⟩)
        · exact Or.inl hh
        · rcases List.mem_cons.mp ha with rfl | ha
          · omega
          · exact Or.inr ⟨a, ha, e⟩
    obtain ⟨e2, e3, e4⟩ := mu_frame ip (by rw [f1]) (by rw [f1]) (by rw [f1]) (by rw [f1])
    have e5 : muW l' < muW l := by
      unfold muW
      rw [f1, f3, f4, hd]
      dsimp only
      unfold wa pm
      simp only [List.map_cons, List.sum_cons, hdup, if_true]
      omega
    simp only [mu]
    omega
  | dup c S hdup h2 hc hci hk e1 e2 _ =>
    subst e1
    have e1 : muA n l' = muA n l := by
      unfold muA
      rw [f1, f2]
    have imp : InPipe l → InPipe l' := by
      unfold InPipe
      rw [f1, f3, f4, hd]
      dsimp only
      rintro (⟨y, hy, e⟩ | ⟨a, ha, e⟩)
      · exact Or.inl ⟨y, List.mem_append_left _ hy, e⟩
      · rcases List.mem_cons.mp ha with rfl | ha
        · omega
        · exact Or.inr ⟨a, ha, e⟩
    have hwo : wd l.snd.last_ack outs ≤ 1 := by
      rcases e2 with e2 | ⟨_, e2⟩ <;> subst e2 <;> simp [wd]
    have e5 : muW l' < muW l := by
      unfold muW
      rw [f1, f3, f4, hd, wd_append]
      dsimp only
      unfold wa pm
      simp only [List.map_cons, List.sum_cons, hdup, if_true]
      omega
    rcases mu_frame_mono imp (by rw [f1]) (by rw [f1]) (by rw [f1]) (by rw [f1]) with g | ⟨g2, g3, g4⟩
    · simp only [mu]
      omega
    · simp only [mu]
      omega

/-- **every fair step decreases the measure** -/
theorem fair_decreases {a : LAct ℚ} (h : LInv n l) (hf : Loop.Fair l a) (hs : l.step a = some l') :
    Lt5 (mu n l') (mu n l) := by
  cases hf with
  | wake fuel => exact decr_wake h hs
  | handoff => exact decr_handoff hs
  | fire q => exact decr_fire h hs
  | deliver => exact decr_deliver h hs
  | ackArrive => exact decr_ack h hs
  | tick t hd ha hlt hex => exact decr_tick h hd ha hlt hex hs

end TcpLive
