import Lean.Meta.Tactic.Simp.RegisterCommand
/-! simp set used to execute the kernel model symbolically on the Port program -/
register_simp_attr portk
