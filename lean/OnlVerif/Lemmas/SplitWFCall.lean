import OnlVerif.Lemmas.SplitWFOps
/-!
# Well-scopedness is kept by every API call and by whole bursts (C03, stage 3)

`ws_doCall`: a call that names existing ids only leaves a well-scoped state, and its reply names existing ids only.
`ws_runBurst`: the same for a whole burst under the run-level hypothesis `ScopedBurst`.
-/

variable {σ : Type}

namespace SplitWF
variable {I : IdSt σ} {s : KState ℚ σ}

/-- a fresh record without callbacks and request data -/
theorem recBelow_fresh (n i : Nat) (k : Kind) (hk : kindBelow n i k) (o : Option Outcome) (ho : ∀ x, o = some x → outBelow n x) :
    recBelow n i { kind := k, cbs := some [], out := o } := by
  refine ⟨hk, ?_, ho, fun rq hrq => (by cases hrq)⟩
  intro l hl cb hcb
  simp only [Option.some.injEq] at hl
  subst hl
  cases hcb

theorem freezeVal_below (s : KState ℚ σ) (n : Nat) (v : Val) (h : valBelow n v) : valBelow n (freezeVal s v) := by
  cases v <;> first | exact h | trivial

theorem ws_request (h : WS I s) (r : ResId) (rq : ReqData ℚ) (hp : rq.proc = s.active) (hr : rq.releaseOf < s.events.size + 1) :
    WS I (mkPut s r rq).1 ∧ replyBelow (mkPut s r rq).1.events.size (.ev (mkPut s r rq).2) := by
  refine ⟨ws_mkPut h r rq ⟨?_, hr⟩, ?_⟩
  · intro p hpp
    rw [hp] at hpp
    exact Nat.lt_succ_of_lt (h.active p hpp)
  · rw [(size_mkPut s r rq).1]
    exact (size_mkPut s r rq).2

theorem ws_get (h : WS I s) (r : ResId) (rq : ReqData ℚ) (hp : rq.proc = s.active) (hr : rq.releaseOf < s.events.size + 1) :
    WS I (mkGet s r rq).1 ∧ replyBelow (mkGet s r rq).1.events.size (.ev (mkGet s r rq).2) := by
  refine ⟨ws_mkGet h r rq ⟨?_, hr⟩, ?_⟩
  · intro p hpp
    rw [hp] at hpp
    exact Nat.lt_succ_of_lt (h.active p hpp)
  · rw [(size_mkGet s r rq).1]
    exact (size_mkGet s r rq).2

/-- **every API call that names existing ids only keeps the state well-scoped, and its reply names existing ids only** -/
theorem ws_doCall (h : WS I s) (self : EvId) (c : Call ℚ σ) (hself : ∀ w v, c = .log w v → self < s.events.size)
    (hc : callBelow I s.events.size c) :
    WS I (doCall s self c).1 ∧ replyBelow (doCall s self c).1.events.size (doCall s self c).2 := by
  have h1 : SB I (s.events.size + 1) s := SB.mono h (Nat.le_succ _)
  cases c <;> simp only [doCall]
  case timeout d v =>
    split
    · exact ⟨h, excBelow_valueErr _ _⟩
    · refine ⟨WS.of_le ((h1.newLabelled _ (recBelow_fresh _ _ .timeout trivial _ ?_)).schedule _ _ _ (Nat.lt_succ_self _)) ?_, ?_⟩
      · intro x hx
        simp only [Option.some.injEq] at hx
        subst hx
        exact valBelow.mono hc (Nat.le_succ _)
      · simp [KState.newLabelled, KState.schedule]
      · show s.events.size < _
        simp [KState.newLabelled, KState.schedule]
  case event =>
    refine ⟨WS.of_le (h1.newLabelled _ (recBelow_fresh _ _ .plain trivial _ (fun x hx => by cases hx))) ?_, ?_⟩
    · simp [KState.newLabelled]
    · show s.events.size < _
      simp [KState.newLabelled]
  case succeed e v =>
    split
    · exact ⟨h, excBelow_runtimeErr _ _⟩
    · exact ⟨WS.of_le (SB.trigger h e _ hc.1 hc.2) (by simp [KState.trigger, KState.schedule, KState.setOut, KState.setEv]), trivial⟩
  case fail e x =>
    split
    · exact ⟨h, excBelow_runtimeErr _ _⟩
    · exact ⟨WS.of_le (SB.trigger h e _ hc.1 hc.2) (by simp [KState.trigger, KState.schedule, KState.setOut, KState.setEv]), trivial⟩
  case spawn st =>
    have h2 : SB I (s.events.size + 2) s := SB.mono h (Nat.le_add_right _ _)
    have ha := h2.newLabelled { kind := .proc, cbs := some [], out := none } (recBelow_fresh _ _ .proc trivial _ (fun x hx => by cases hx))
    have hb := ha.setProc s.events.size { st := st, target := some (s.events.size + 1) }
      (Nat.lt_add_of_pos_right (by decide))
      (fun t ht => by simp only [Option.some.injEq] at ht; subst ht; exact Nat.lt_succ_self _) (I.mono hc (Nat.le_add_right _ _))
    have hsz : ((s.newLabelled { kind := .proc, cbs := some [], out := none }).1.setProc s.events.size
        { st := st, target := some (s.events.size + 1) }).events.size = s.events.size + 1 := by
      simp [KState.newLabelled, KState.setProc]
    have hc' := hb.newEv { kind := .init s.events.size, cbs := some [.resume s.events.size], out := some (.ok .none) } (by
      rw [hsz]
      refine ⟨Nat.lt_add_of_pos_right (n := s.events.size) (k := 2) (by decide), ?_, ?_, fun rq hrq => (by cases hrq)⟩
      · intro l hl cb hcb
        simp only [Option.some.injEq] at hl
        subst hl
        rw [List.mem_singleton] at hcb
        subst hcb
        exact Nat.lt_add_of_pos_right (n := s.events.size) (k := 2) (by decide)
      · intro o ho
        simp only [Option.some.injEq] at ho
        subst ho
        trivial)
    refine ⟨WS.of_le (hc'.schedule (s.events.size + 1) URGENT Num.zero (Nat.lt_succ_self _)) ?_, ?_⟩
    · simp [KState.newLabelled, KState.setProc, KState.newEv, KState.schedule]
    · show s.events.size < _
      simp only [KState.newLabelled, KState.setProc, KState.newEv, KState.schedule, Array.size_push]
      exact Nat.lt_succ_of_lt (Nat.lt_succ_self _)
  case interrupt p cause =>
    split
    · exact ⟨h, trivial⟩
    · rename_i hk
      have hp : p < s.events.size := Once.lt_of_proc s p (by simpa using hk)
      have hw := ws_mkInterrupt h p cause hp hc
      have he := mkInterrupt_err_below s p cause
      generalize mkInterrupt s p cause = r at hw he ⊢
      obtain ⟨s1, o⟩ := r
      cases o with
      | none => exact ⟨hw, trivial⟩
      | some x => exact ⟨hw, he x _ rfl⟩
  case probe e tag =>
    split
    · exact ⟨h, trivial⟩
    · exact ⟨WS.of_le (SB.addCb h e _ trivial) (by simp [KState.addCb, KState.setEv]), trivial⟩
  case cond all ops =>
    refine ⟨ws_mkCond h all ops hc, ?_⟩
    show (mkCond s all ops).2 < _
    rw [(size_mkCond s all ops).1]
    exact (size_mkCond s all ops).2
  case request r prio pre =>
    split
    · exact ⟨h, excBelow_attrErr _⟩
    · exact ws_request h r _ rfl (Nat.succ_pos _)
  case release r req =>
    split
    · exact ⟨h, excBelow_attrErr _⟩
    · exact ws_get h r _ rfl (Nat.lt_succ_of_lt hc)
  case cancel e =>
    have hw := ws_cancelReq h e
    have he := cancelReq_err_below s e
    generalize cancelReq s e = r at hw he ⊢
    obtain ⟨s1, o⟩ := r
    cases o with
    | none => exact ⟨hw, trivial⟩
    | some x => exact ⟨hw, he x _ rfl⟩
  case cput r a =>
    split
    · exact ⟨h, excBelow_attrErr _⟩
    · split
      · exact ⟨h, excBelow_valueErr _ _⟩
      · exact ws_request h r _ rfl (Nat.succ_pos _)
  case cget r a =>
    split
    · exact ⟨h, excBelow_attrErr _⟩
    · split
      · exact ⟨h, excBelow_valueErr _ _⟩
      · exact ws_get h r _ rfl (Nat.succ_pos _)
  case sput r it =>
    split
    · exact ⟨h, excBelow_attrErr _⟩
    · exact ws_request h r _ rfl (Nat.succ_pos _)
  case sget r f =>
    split
    · exact ⟨h, excBelow_attrErr _⟩
    · exact ws_get h r _ rfl (Nat.succ_pos _)
  case log what v =>
    exact ⟨SB.emit h _ ⟨hself what v rfl, freezeVal_below s _ v hc⟩, trivial⟩
  case load k =>
    refine ⟨h, ?_⟩
    cases hf : s.shared.find? (·.1 == k) with
    | none => trivial
    | some kv => exact h.shared kv (List.mem_of_find?_eq_some hf)
  case store k v =>
    refine ⟨SB.withShared h _ ?_, trivial⟩
    intro kv hkv
    rcases List.mem_cons.mp hkv with rfl | hm
    · exact hc
    · exact h.shared kv (List.mem_of_mem_filter hm)

theorem ws_noteErr (self : EvId) (sr : KState ℚ σ × Reply) (h : WS I sr.1) (hself : self < sr.1.events.size)
    (hr : replyBelow sr.1.events.size sr.2) : WS I (noteErr self sr) := by
  unfold noteErr
  split
  · rename_i x hx
    rw [hx] at hr
    exact SB.emit h _ ⟨hself, hr⟩
  · exact h

theorem size_noteErr (self : EvId) (sr : KState ℚ σ × Reply) : (noteErr self sr).events.size = sr.1.events.size := by
  unfold noteErr
  split <;> rfl

/-- **a burst that names existing ids only keeps the state well-scoped, and what it ends with names existing ids only** -/
theorem ws_runBurst (self : EvId) (b : Burst ℚ σ) (s : KState ℚ σ) (h : WS I s) (hself : self < s.events.size)
    (hb : ScopedBurst I self b s) :
    WS I (runBurst self b s).1 ∧ termBelow I (runBurst self b s).1.events.size (runBurst self b s).2 := by
  induction b generalizing s with
  | call c k ih =>
    simp only [runBurst]
    obtain ⟨hc, hrest⟩ := hb
    have hd := ws_doCall h self c (fun _ _ _ => hself) hc
    have hg : s.events.size ≤ (doCall s self c).1.events.size := (Grow.krel.doCall s self c).2
    have hself' : self < (doCall s self c).1.events.size := Nat.lt_of_lt_of_le hself hg
    refine ih _ _ (ws_noteErr self _ hd.1 hself' hd.2) ?_ hrest
    rw [size_noteErr]
    exact hself'
  | yield e st => exact ⟨h, hb⟩
  | ret v => exact ⟨h, hb⟩
  | raise x => exact ⟨h, hb⟩

end SplitWF
