import OnlVerif.Lemmas.TBKFrame
/-!
# The token bucket on the kernel model: kernel steps that run `TokenBucket.run`

Each lemma executes `Environment.step` of the kernel model symbolically on a state with configuration `a` whose next
agenda entry belongs to the shaper (its `Initialize`, the `StoreGet` it waits for, one of its two timeouts), and shows that
the resulting state has the configuration the lemma names.
-/

set_option linter.unusedSimpArgs false

namespace TBK
open TBOnK
open TimerK (lookup plookup afterBurst resume_eq step_eq dec_enc)

variable {size : Int → Nat} {cfg : TbCfg ℚ}
variable {s : KS} {a : A} {q : QEntry ℚ} {rest : List (QEntry ℚ)}

theorem tokenWait_nonneg (hg : TokenBucket.Good cfg) (lv : ℚ) (id : Int) (h : lv < (size id : ℚ)) :
    0 ≤ TokenBucket.tokenWait cfg lv (pktOf size id) := by
  unfold TokenBucket.tokenWait pktOf
  simp only [Num.ofNat_rat]
  have : 0 ≤ ((size id : ℚ) - lv) * 8 := by nlinarith
  exact div_nonneg (by simpa using this) (le_of_lt hg.rate)

theorem peakWait_nonneg {k : ℚ} (hk : 0 < k) (id : Int) : 0 ≤ TokenBucket.peakWait k (pktOf size id) := by
  unfold TokenBucket.peakWait pktOf
  simp only [Num.ofNat_rat]
  exact div_nonneg (by positivity) (le_of_lt hk)

set_option hygiene false in
/-- `KInv` after a burst of `run` that ends in a sleep (no new `get`) -/
macro "leaf_sleep" e0:term : tactic => `(tactic| (
  refine ⟨⟨?_, ?_, ?_, ?_, ?_, ?_, ?_, ?_, ?_, ?_, ?_, ?_, ?_⟩, ?_⟩
  · exact wf_push1 hwf.1 _ rfl rfl rfl rfl (by first | exact le_refl _ | (show q.time ≤ q.time + _; linarith))
  · simp only [A.entries, RPhase.entries, List.singleton_append]
    exact List.Perm.cons _ hrest
  · exact hk.rsz
  · have := hk.res; rw [hph] at this; exact this
  · refine ⟨rfl, ?_, ?_, ?_⟩
    · bsimp [EvIs]
    · bsimp
    · bsimp [EvIs, hpk, hpc, hpo, Nat.ne_of_lt h0lt, h0e, Ne.symm h0e]
  · refine (hk.keep_src_pend [$e0] (by evkeep) ?_ ?_).1
    · intro e he; simp only [List.mem_singleton]; rintro rfl; exact he.elim de.1 de.2
    · bsimp
  · refine (hk.keep_src_pend [$e0] (by evkeep) ?_ ?_).2
    · intro e he; simp only [List.mem_singleton]; rintro rfl; exact he.elim de.1 de.2
    · bsimp
  · have hnd := hk.nd
    simp only [tbids, hph] at hnd ⊢
    grind
  · bsimp [hc0, stamp_ne]
  · bsimp [hc1, stamp_ne]
  · bsimp [hc2, stamp_ne, Num.ofNat_rat, zero_eq']
  · bsimp [hc3, stamp_ne]
  · intro k hk'
    bsimp [hk.ct k hk', stamp_ne]
  · simp [histOf_push]))

set_option hygiene false in
/-- `KInv` after a burst of `run` that ends in `store.get()` on the empty store -/
macro "leaf_miss" e0:term : tactic => `(tactic| (
  refine ⟨⟨?_, ?_, ?_, ?_, ?_, ?_, ?_, ?_, ?_, ?_, ?_, ?_, ?_⟩, ?_⟩
  · exact wf_same hwf.1 rfl rfl rfl
  · simp only [A.entries, RPhase.entries, List.nil_append]
    exact hrest
  · bsimp [hrsz]
  · bsimp [KState.res, getD_setIfInBounds, RPhase.getQ, hrsz, hit]
  · refine ⟨?_, ?_, ?_⟩
    · bsimp [EvIs]
    · bsimp
    · bsimp [EvIs, hpk, hpc, hpo, Nat.ne_of_lt h0lt, h0e, Ne.symm h0e]
  · refine (hk.keep_src_pend [$e0] (by evkeep) ?_ ?_).1
    · intro e he; simp only [List.mem_singleton]; rintro rfl; exact he.elim de.1 de.2
    · bsimp
  · refine (hk.keep_src_pend [$e0] (by evkeep) ?_ ?_).2
    · intro e he; simp only [List.mem_singleton]; rintro rfl; exact he.elim de.1 de.2
    · bsimp
  · have hnd := hk.nd
    simp only [tbids, hph] at hnd ⊢
    grind
  · bsimp [hc0, stamp_ne]
  · bsimp [hc1, stamp_ne]
  · bsimp [hc2, stamp_ne, Num.ofNat_rat, zero_eq']
  · bsimp [hc3, stamp_ne]
  · intro k hk'
    bsimp [hk.ct k hk', stamp_ne]
  · simp [histOf_push]))

set_option hygiene false in
/-- `KInv` after a burst of `run` that ends in `store.get()` served at once with the head of the store -/
macro "leaf_hit" e0:term : tactic => `(tactic| (
  refine ⟨⟨?_, ?_, ?_, ?_, ?_, ?_, ?_, ?_, ?_, ?_, ?_, ?_, ?_⟩, ?_⟩
  · exact wf_push1 hwf.1 _ rfl rfl rfl rfl (le_refl _)
  · simp only [A.entries, RPhase.entries, List.singleton_append]
    exact List.Perm.cons _ hrest
  · bsimp [hrsz]
  · bsimp [KState.res, getD_setIfInBounds, RPhase.getQ, hrsz]
  · refine ⟨rfl, ?_, ?_, ?_⟩
    · bsimp [EvIs]
    · bsimp
    · bsimp [EvIs, hpk, hpc, hpo, Nat.ne_of_lt h0lt, h0e, Ne.symm h0e]
  · refine (hk.keep_src_pend [$e0] (by evkeep) ?_ ?_).1
    · intro e he; simp only [List.mem_singleton]; rintro rfl; exact he.elim de.1 de.2
    · bsimp
  · refine (hk.keep_src_pend [$e0] (by evkeep) ?_ ?_).2
    · intro e he; simp only [List.mem_singleton]; rintro rfl; exact he.elim de.1 de.2
    · bsimp
  · have hnd := hk.nd
    simp only [tbids, hph] at hnd ⊢
    grind
  · bsimp [hc0, stamp_ne]
  · bsimp [hc1, stamp_ne]
  · bsimp [hc2, stamp_ne, Num.ofNat_rat, zero_eq']
  · bsimp [hc3, stamp_ne]
  · intro k hk'
    bsimp [hk.ct k hk', stamp_ne]
  · simp [histOf_push]))

/-- the `Initialize` event of `run`: the store is empty, it blocks in `store.get()` -/
theorem kstep_runInit (fuel : Nat) (hk : KInv s a) (hph : a.run = .init q) (hit : a.items = [])
    (hp : popMin s.agenda = some (q, rest)) (hrest : rest.Perm (a.src.entries ++ a.pend)) :
    ∃ s', step (body size cfg) (fuel + 1) s = .ok s' ∧
      KInv s' { a with run := .W s.events.size q.time } ∧
      s'.now = q.time ∧ histOf s'.trace = histOf s.trace := by
  have hr := hk.run
  rw [hph] at hr
  obtain ⟨hqe, ⟨hkind, hcbs, hout⟩, hproc0, ⟨hpk, hpc, hpo⟩⟩ := hr
  have hgs : 1 < s.events.size := KState.lt_of_cbs hcbs
  have hwf := openEvent_wf s q rest hk.wf hp
  have hlt := hk.idlt
  have hres := hk.res
  have hrsz := hk.rsz
  have hc0 := hk.c0; have hc1 := hk.c1; have hc2 := hk.c2; have hc3 := hk.c3
  simp only [cRecv_val, cSent_val, cLevel_val, cUpd_val] at hc0 hc1 hc2 hc3
  rw [hph, hit] at hres
  simp only [KState.res, RPhase.getQ] at hres
  rw [step_eq _ _ _ _ _ _ hp (hqe ▸ hcbs)]
  simp only [List.foldl, runCb]
  rw [resume_eq _ _ _ _ _ _ (show (openEvent s q rest).proc? 0 = _ from hproc0)]
  simp only [KState.ev] at hkind hcbs hout hpk hpc hpo
  bsimp [hqe, hgs, hkind, hcbs, hout, Nat.ne_of_lt hgs, doCall_sget_miss (r := 0), hres, hrsz]
  obtain ⟨nrun, nsrc, npend, drun, dsrc⟩ := (ids_nodup_iff a).mp hk.nd
  simp only [hph, tbids] at nrun drun hlt
  obtain ⟨d0, de⟩ := drun
  have h0e : ¬ 0 = 1 := by decide
  have h0lt := hlt.1
  leaf_miss 1

/-! ## the `StoreGet` event of `run`: it has the packet, refills the bucket and decides -/

/-- not enough tokens: `run` sleeps until the missing ones have accumulated -/
theorem kstep_serveTok (fuel : Nat) (hg : TokenBucket.Good cfg) (hk : KInv s a) {g : EvId} {id : Int} {t0 : ℚ}
    (hph : a.run = .H g id q t0) (hid : id.toNat < a.cts.length) (hnow : max t0 (a.ctOf id) = q.time)
    (hlt' : refillA cfg a q.time < (size id : ℚ))
    (hp : popMin s.agenda = some (q, rest)) (hrest : rest.Perm (a.src.entries ++ a.pend)) :
    ∃ s', step (body size cfg) (fuel + 1) s = .ok s' ∧
      KInv s' { a with
        run := .T1 s.events.size id (⟨q.time + TokenBucket.tokenWait cfg (refillA cfg a q.time) (pktOf size id), NORMAL, s.eid, s.events.size⟩ : QEntry ℚ)
        level := refillA cfg a q.time, upd := q.time } ∧
      s'.now = q.time ∧ histOf s'.trace = histOf s.trace := by
  have hr := hk.run
  rw [hph] at hr
  obtain ⟨hqe, ⟨hkind, hcbs, hout⟩, hproc0, ⟨hpk, hpc, hpo⟩⟩ := hr
  have hgs : g < s.events.size := KState.lt_of_cbs hcbs
  have hwf := openEvent_wf s q rest hk.wf hp
  have hlt := hk.idlt
  have hres := hk.res
  have hrsz := hk.rsz
  have hc0 := hk.c0; have hc1 := hk.c1; have hc2 := hk.c2; have hc3 := hk.c3
  simp only [cRecv_val, cSent_val, cLevel_val, cUpd_val] at hc0 hc1 hc2 hc3
  have hcell : lookup s.shared (10 + id.toNat) = TimeCell.enc (a.ctOf id) := hk.ct _ hid
  rw [hph] at hres
  simp only [KState.res, RPhase.getQ] at hres
  rw [step_eq _ _ _ _ _ _ hp (hqe ▸ hcbs)]
  simp only [List.foldl, runCb]
  rw [triggerPut_none (openEvent s q rest) 0 [] a.items hres]
  rw [resume_eq _ _ _ _ _ _ (show (openEvent s q rest).proc? 0 = _ from hproc0)]
  simp only [KState.ev] at hkind hcbs hout hpk hpc hpo
  obtain ⟨nrun, nsrc, npend, drun, dsrc⟩ := (ids_nodup_iff a).mp hk.nd
  simp only [hph, tbids] at nrun drun hlt
  obtain ⟨d0, de⟩ := drun
  have h0e : ¬ 0 = g := nrun
  have h0lt := hlt.1
  have hlv : Num.pymin cfg.bucket (a.level + cfg.rate * (q.time - a.upd) / 8) = refillA cfg a q.time := by
    simp [refillA, Num.ofNat_rat]
  have hd := tokenWait_nonneg (size := size) hg _ id hlt'
  have hlt'' := hlt'
  bsimp [hqe, hgs, hkind, hcbs, hout, Nat.ne_of_lt hgs, hcell, hc2, hc3, Num.pymax_eq, hnow, hlv, hlt'', hd, stamp_ne, Num.ofNat_rat]
  leaf_sleep g

/-- enough tokens and a peak rate: the tokens are debited, `run` sleeps for the peak spacing -/
theorem kstep_servePeak (fuel : Nat) (hpk' : PeakOK cfg) (hk : KInv s a) {g : EvId} {id : Int} {t0 k : ℚ}
    (hph : a.run = .H g id q t0) (hid : id.toNat < a.cts.length) (hnow : max t0 (a.ctOf id) = q.time)
    (hlt' : ¬ refillA cfg a q.time < (size id : ℚ)) (hpeak : TokenBucket.peakOn cfg = some k)
    (hp : popMin s.agenda = some (q, rest)) (hrest : rest.Perm (a.src.entries ++ a.pend)) :
    ∃ s', step (body size cfg) (fuel + 1) s = .ok s' ∧
      KInv s' { a with
        run := .T2 s.events.size id (⟨q.time + TokenBucket.peakWait k (pktOf size id), NORMAL, s.eid, s.events.size⟩ : QEntry ℚ) 0
        level := refillA cfg a q.time - (size id : ℚ), upd := q.time } ∧
      s'.now = q.time ∧ histOf s'.trace = histOf s.trace := by
  have hr := hk.run
  rw [hph] at hr
  obtain ⟨hqe, ⟨hkind, hcbs, hout⟩, hproc0, ⟨hpk, hpc, hpo⟩⟩ := hr
  have hgs : g < s.events.size := KState.lt_of_cbs hcbs
  have hwf := openEvent_wf s q rest hk.wf hp
  have hlt := hk.idlt
  have hres := hk.res
  have hrsz := hk.rsz
  have hc0 := hk.c0; have hc1 := hk.c1; have hc2 := hk.c2; have hc3 := hk.c3
  simp only [cRecv_val, cSent_val, cLevel_val, cUpd_val] at hc0 hc1 hc2 hc3
  have hcell : lookup s.shared (10 + id.toNat) = TimeCell.enc (a.ctOf id) := hk.ct _ hid
  rw [hph] at hres
  simp only [KState.res, RPhase.getQ] at hres
  rw [step_eq _ _ _ _ _ _ hp (hqe ▸ hcbs)]
  simp only [List.foldl, runCb]
  rw [triggerPut_none (openEvent s q rest) 0 [] a.items hres]
  rw [resume_eq _ _ _ _ _ _ (show (openEvent s q rest).proc? 0 = _ from hproc0)]
  simp only [KState.ev] at hkind hcbs hout hpk hpc hpo
  obtain ⟨nrun, nsrc, npend, drun, dsrc⟩ := (ids_nodup_iff a).mp hk.nd
  simp only [hph, tbids] at nrun drun hlt
  obtain ⟨d0, de⟩ := drun
  have h0e : ¬ 0 = g := nrun
  have h0lt := hlt.1
  have hlv : Num.pymin cfg.bucket (a.level + cfg.rate * (q.time - a.upd) / 8) = refillA cfg a q.time := by
    simp [refillA, Num.ofNat_rat]
  have hd := peakWait_nonneg (size := size) (hpk' k hpeak) id
  have hlt'' := hlt'
  bsimp [hqe, hgs, hkind, hcbs, hout, Nat.ne_of_lt hgs, hcell, hc2, hc3, Num.pymax_eq, hnow, hlv, hlt'', hd, hpeak, stamp_ne,
    Num.ofNat_rat]
  leaf_sleep g

/-- enough tokens, no peak rate, nothing else waits: the packet is forwarded at once, `run` blocks in `store.get()` -/
theorem kstep_serveOutMiss (fuel : Nat) (hk : KInv s a) {g : EvId} {id : Int} {t0 : ℚ}
    (hph : a.run = .H g id q t0) (hid : id.toNat < a.cts.length) (hnow : max t0 (a.ctOf id) = q.time)
    (hlt' : ¬ refillA cfg a q.time < (size id : ℚ)) (hpeak : TokenBucket.peakOn cfg = none) (hit : a.items = [])
    (hp : popMin s.agenda = some (q, rest)) (hrest : rest.Perm (a.src.entries ++ a.pend)) :
    ∃ s', step (body size cfg) (fuel + 1) s = .ok s' ∧
      KInv s' { a with run := .W s.events.size q.time, level := refillA cfg a q.time - (size id : ℚ), upd := q.time,
                       sent := a.sent + 1 } ∧
      s'.now = q.time ∧ histOf s'.trace = histOf s.trace ++ [.out id q.time] := by
  have hr := hk.run
  rw [hph] at hr
  obtain ⟨hqe, ⟨hkind, hcbs, hout⟩, hproc0, ⟨hpk, hpc, hpo⟩⟩ := hr
  have hgs : g < s.events.size := KState.lt_of_cbs hcbs
  have hwf := openEvent_wf s q rest hk.wf hp
  have hlt := hk.idlt
  have hres := hk.res
  have hrsz := hk.rsz
  have hc0 := hk.c0; have hc1 := hk.c1; have hc2 := hk.c2; have hc3 := hk.c3
  simp only [cRecv_val, cSent_val, cLevel_val, cUpd_val] at hc0 hc1 hc2 hc3
  have hcell : lookup s.shared (10 + id.toNat) = TimeCell.enc (a.ctOf id) := hk.ct _ hid
  rw [hph] at hres
  simp only [KState.res, RPhase.getQ] at hres
  rw [step_eq _ _ _ _ _ _ hp (hqe ▸ hcbs)]
  simp only [List.foldl, runCb]
  rw [triggerPut_none (openEvent s q rest) 0 [] a.items hres]
  rw [resume_eq _ _ _ _ _ _ (show (openEvent s q rest).proc? 0 = _ from hproc0)]
  simp only [KState.ev] at hkind hcbs hout hpk hpc hpo
  obtain ⟨nrun, nsrc, npend, drun, dsrc⟩ := (ids_nodup_iff a).mp hk.nd
  simp only [hph, tbids] at nrun drun hlt
  obtain ⟨d0, de⟩ := drun
  have h0e : ¬ 0 = g := nrun
  have h0lt := hlt.1
  have hlv : Num.pymin cfg.bucket (a.level + cfg.rate * (q.time - a.upd) / 8) = refillA cfg a q.time := by
    simp [refillA, Num.ofNat_rat]
  have hlt'' := hlt'
  rw [hit] at hres
  bsimp [hqe, hgs, hkind, hcbs, hout, Nat.ne_of_lt hgs, hcell, hc1, hc2, hc3, Num.pymax_eq, hnow, hlv, hlt'', hpeak, stamp_ne,
    Num.ofNat_rat, doCall_sget_miss (r := 0), hres, hrsz]
  leaf_miss g

/-- enough tokens, no peak rate, another packet waits: the packet is forwarded at once, `run` takes the next one -/
theorem kstep_serveOutHit (fuel : Nat) (hk : KInv s a) {g : EvId} {id : Int} {t0 : ℚ} {i : Int} {is : List Int}
    (hph : a.run = .H g id q t0) (hid : id.toNat < a.cts.length) (hnow : max t0 (a.ctOf id) = q.time)
    (hlt' : ¬ refillA cfg a q.time < (size id : ℚ)) (hpeak : TokenBucket.peakOn cfg = none) (hit : a.items = i :: is)
    (hp : popMin s.agenda = some (q, rest)) (hrest : rest.Perm (a.src.entries ++ a.pend)) :
    ∃ s', step (body size cfg) (fuel + 1) s = .ok s' ∧
      KInv s' { a with run := .H s.events.size i ⟨q.time, NORMAL, s.eid, s.events.size⟩ q.time, items := is,
                       level := refillA cfg a q.time - (size id : ℚ), upd := q.time, sent := a.sent + 1 } ∧
      s'.now = q.time ∧ histOf s'.trace = histOf s.trace ++ [.out id q.time] := by
  have hr := hk.run
  rw [hph] at hr
  obtain ⟨hqe, ⟨hkind, hcbs, hout⟩, hproc0, ⟨hpk, hpc, hpo⟩⟩ := hr
  have hgs : g < s.events.size := KState.lt_of_cbs hcbs
  have hwf := openEvent_wf s q rest hk.wf hp
  have hlt := hk.idlt
  have hres := hk.res
  have hrsz := hk.rsz
  have hc0 := hk.c0; have hc1 := hk.c1; have hc2 := hk.c2; have hc3 := hk.c3
  simp only [cRecv_val, cSent_val, cLevel_val, cUpd_val] at hc0 hc1 hc2 hc3
  have hcell : lookup s.shared (10 + id.toNat) = TimeCell.enc (a.ctOf id) := hk.ct _ hid
  rw [hph] at hres
  simp only [KState.res, RPhase.getQ] at hres
  rw [step_eq _ _ _ _ _ _ hp (hqe ▸ hcbs)]
  simp only [List.foldl, runCb]
  rw [triggerPut_none (openEvent s q rest) 0 [] a.items hres]
  rw [resume_eq _ _ _ _ _ _ (show (openEvent s q rest).proc? 0 = _ from hproc0)]
  simp only [KState.ev] at hkind hcbs hout hpk hpc hpo
  obtain ⟨nrun, nsrc, npend, drun, dsrc⟩ := (ids_nodup_iff a).mp hk.nd
  simp only [hph, tbids] at nrun drun hlt
  obtain ⟨d0, de⟩ := drun
  have h0e : ¬ 0 = g := nrun
  have h0lt := hlt.1
  have hlv : Num.pymin cfg.bucket (a.level + cfg.rate * (q.time - a.upd) / 8) = refillA cfg a q.time := by
    simp [refillA, Num.ofNat_rat]
  have hlt'' := hlt'
  rw [hit] at hres
  bsimp [hqe, hgs, hkind, hcbs, hout, Nat.ne_of_lt hgs, hcell, hc1, hc2, hc3, Num.pymax_eq, hnow, hlv, hlt'', hpeak, stamp_ne,
    Num.ofNat_rat, doCall_sget_hit (r := 0) (i := i) (is := is), hres, hrsz]
  leaf_hit g

/-! ## the token wait is over -/

/-- the tokens have accumulated (the bucket is now empty) and there is a peak rate: `run` sleeps for the peak spacing -/
theorem kstep_tokPeak (fuel : Nat) (hpk' : PeakOK cfg) (hk : KInv s a) {t : EvId} {id : Int} {k : ℚ}
    (hph : a.run = .T1 t id q) (hpeak : TokenBucket.peakOn cfg = some k)
    (hp : popMin s.agenda = some (q, rest)) (hrest : rest.Perm (a.src.entries ++ a.pend)) :
    ∃ s', step (body size cfg) (fuel + 1) s = .ok s' ∧
      KInv s' { a with
        run := .T2 s.events.size id (⟨q.time + TokenBucket.peakWait k (pktOf size id), NORMAL, s.eid, s.events.size⟩ : QEntry ℚ) 1
        level := 0, upd := q.time } ∧
      s'.now = q.time ∧ histOf s'.trace = histOf s.trace := by
  have hr := hk.run
  rw [hph] at hr
  obtain ⟨hqe, ⟨hkind, hcbs, hout⟩, hproc0, ⟨hpk, hpc, hpo⟩⟩ := hr
  have hgs : t < s.events.size := KState.lt_of_cbs hcbs
  have hwf := openEvent_wf s q rest hk.wf hp
  have hlt := hk.idlt
  have hres := hk.res
  have hrsz := hk.rsz
  have hc0 := hk.c0; have hc1 := hk.c1; have hc2 := hk.c2; have hc3 := hk.c3
  simp only [cRecv_val, cSent_val, cLevel_val, cUpd_val] at hc0 hc1 hc2 hc3
  rw [hph] at hres
  simp only [KState.res, RPhase.getQ] at hres
  rw [step_eq _ _ _ _ _ _ hp (hqe ▸ hcbs)]
  simp only [List.foldl, runCb]
  rw [resume_eq _ _ _ _ _ _ (show (openEvent s q rest).proc? 0 = _ from hproc0)]
  simp only [KState.ev] at hkind hcbs hout hpk hpc hpo
  obtain ⟨nrun, nsrc, npend, drun, dsrc⟩ := (ids_nodup_iff a).mp hk.nd
  simp only [hph, tbids] at nrun drun hlt
  obtain ⟨d0, de⟩ := drun
  have h0e : ¬ 0 = t := nrun
  have h0lt := hlt.1
  have hd := peakWait_nonneg (size := size) (hpk' k hpeak) id
  bsimp [hqe, hgs, hkind, hcbs, hout, Nat.ne_of_lt hgs, hc2, hc3, hd, hpeak, stamp_ne]
  leaf_sleep t

/-- the tokens have accumulated, no peak rate, nothing else waits: the packet is forwarded, `run` blocks -/
theorem kstep_tokOutMiss (fuel : Nat) (hk : KInv s a) {t : EvId} {id : Int}
    (hph : a.run = .T1 t id q) (hpeak : TokenBucket.peakOn cfg = none) (hit : a.items = [])
    (hp : popMin s.agenda = some (q, rest)) (hrest : rest.Perm (a.src.entries ++ a.pend)) :
    ∃ s', step (body size cfg) (fuel + 1) s = .ok s' ∧
      KInv s' { a with run := .W s.events.size q.time, level := 0, upd := q.time, sent := a.sent + 1 } ∧
      s'.now = q.time ∧ histOf s'.trace = histOf s.trace ++ [.out id q.time] := by
  have hr := hk.run
  rw [hph] at hr
  obtain ⟨hqe, ⟨hkind, hcbs, hout⟩, hproc0, ⟨hpk, hpc, hpo⟩⟩ := hr
  have hgs : t < s.events.size := KState.lt_of_cbs hcbs
  have hwf := openEvent_wf s q rest hk.wf hp
  have hlt := hk.idlt
  have hres := hk.res
  have hrsz := hk.rsz
  have hc0 := hk.c0; have hc1 := hk.c1; have hc2 := hk.c2; have hc3 := hk.c3
  simp only [cRecv_val, cSent_val, cLevel_val, cUpd_val] at hc0 hc1 hc2 hc3
  rw [hph] at hres
  simp only [KState.res, RPhase.getQ] at hres
  rw [step_eq _ _ _ _ _ _ hp (hqe ▸ hcbs)]
  simp only [List.foldl, runCb]
  rw [resume_eq _ _ _ _ _ _ (show (openEvent s q rest).proc? 0 = _ from hproc0)]
  simp only [KState.ev] at hkind hcbs hout hpk hpc hpo
  obtain ⟨nrun, nsrc, npend, drun, dsrc⟩ := (ids_nodup_iff a).mp hk.nd
  simp only [hph, tbids] at nrun drun hlt
  obtain ⟨d0, de⟩ := drun
  have h0e : ¬ 0 = t := nrun
  have h0lt := hlt.1
  rw [hit] at hres
  bsimp [hqe, hgs, hkind, hcbs, hout, Nat.ne_of_lt hgs, hc1, hc2, hc3, hpeak, stamp_ne, doCall_sget_miss (r := 0), hres, hrsz]
  leaf_miss t

/-- the tokens have accumulated, no peak rate, another packet waits: the packet is forwarded, `run` takes the next one -/
theorem kstep_tokOutHit (fuel : Nat) (hk : KInv s a) {t : EvId} {id : Int} {i : Int} {is : List Int}
    (hph : a.run = .T1 t id q) (hpeak : TokenBucket.peakOn cfg = none) (hit : a.items = i :: is)
    (hp : popMin s.agenda = some (q, rest)) (hrest : rest.Perm (a.src.entries ++ a.pend)) :
    ∃ s', step (body size cfg) (fuel + 1) s = .ok s' ∧
      KInv s' { a with run := .H s.events.size i ⟨q.time, NORMAL, s.eid, s.events.size⟩ q.time, items := is,
                       level := 0, upd := q.time, sent := a.sent + 1 } ∧
      s'.now = q.time ∧ histOf s'.trace = histOf s.trace ++ [.out id q.time] := by
  have hr := hk.run
  rw [hph] at hr
  obtain ⟨hqe, ⟨hkind, hcbs, hout⟩, hproc0, ⟨hpk, hpc, hpo⟩⟩ := hr
  have hgs : t < s.events.size := KState.lt_of_cbs hcbs
  have hwf := openEvent_wf s q rest hk.wf hp
  have hlt := hk.idlt
  have hres := hk.res
  have hrsz := hk.rsz
  have hc0 := hk.c0; have hc1 := hk.c1; have hc2 := hk.c2; have hc3 := hk.c3
  simp only [cRecv_val, cSent_val, cLevel_val, cUpd_val] at hc0 hc1 hc2 hc3
  rw [hph] at hres
  simp only [KState.res, RPhase.getQ] at hres
  rw [step_eq _ _ _ _ _ _ hp (hqe ▸ hcbs)]
  simp only [List.foldl, runCb]
  rw [resume_eq _ _ _ _ _ _ (show (openEvent s q rest).proc? 0 = _ from hproc0)]
  simp only [KState.ev] at hkind hcbs hout hpk hpc hpo
  obtain ⟨nrun, nsrc, npend, drun, dsrc⟩ := (ids_nodup_iff a).mp hk.nd
  simp only [hph, tbids] at nrun drun hlt
  obtain ⟨d0, de⟩ := drun
  have h0e : ¬ 0 = t := nrun
  have h0lt := hlt.1
  rw [hit] at hres
  bsimp [hqe, hgs, hkind, hcbs, hout, Nat.ne_of_lt hgs, hc1, hc2, hc3, hpeak, stamp_ne,
    doCall_sget_hit (r := 0) (i := i) (is := is), hres, hrsz]
  leaf_hit t

/-! ## the peak spacing is over -/

theorem kstep_peakOutMiss (fuel : Nat) (hk : KInv s a) {t : EvId} {id : Int} {k : Nat}
    (hph : a.run = .T2 t id q k) (hit : a.items = [])
    (hp : popMin s.agenda = some (q, rest)) (hrest : rest.Perm (a.src.entries ++ a.pend)) :
    ∃ s', step (body size cfg) (fuel + 1) s = .ok s' ∧
      KInv s' { a with run := .W s.events.size q.time, sent := a.sent + 1 } ∧
      s'.now = q.time ∧ histOf s'.trace = histOf s.trace ++ [.out id q.time] := by
  have hr := hk.run
  rw [hph] at hr
  obtain ⟨hqe, ⟨hkind, hcbs, hout⟩, hproc0, ⟨hpk, hpc, hpo⟩⟩ := hr
  have hgs : t < s.events.size := KState.lt_of_cbs hcbs
  have hwf := openEvent_wf s q rest hk.wf hp
  have hlt := hk.idlt
  have hres := hk.res
  have hrsz := hk.rsz
  have hc0 := hk.c0; have hc1 := hk.c1; have hc2 := hk.c2; have hc3 := hk.c3
  simp only [cRecv_val, cSent_val, cLevel_val, cUpd_val] at hc0 hc1 hc2 hc3
  rw [hph] at hres
  simp only [KState.res, RPhase.getQ] at hres
  rw [step_eq _ _ _ _ _ _ hp (hqe ▸ hcbs)]
  simp only [List.foldl, runCb]
  rw [resume_eq _ _ _ _ _ _ (show (openEvent s q rest).proc? 0 = _ from hproc0)]
  simp only [KState.ev] at hkind hcbs hout hpk hpc hpo
  obtain ⟨nrun, nsrc, npend, drun, dsrc⟩ := (ids_nodup_iff a).mp hk.nd
  simp only [hph, tbids] at nrun drun hlt
  obtain ⟨d0, de⟩ := drun
  have h0e : ¬ 0 = t := nrun
  have h0lt := hlt.1
  rw [hit] at hres
  bsimp [hqe, hgs, hkind, hcbs, hout, Nat.ne_of_lt hgs, hc1, stamp_ne, doCall_sget_miss (r := 0), hres, hrsz]
  leaf_miss t

theorem kstep_peakOutHit (fuel : Nat) (hk : KInv s a) {t : EvId} {id : Int} {k : Nat} {i : Int} {is : List Int}
    (hph : a.run = .T2 t id q k) (hit : a.items = i :: is)
    (hp : popMin s.agenda = some (q, rest)) (hrest : rest.Perm (a.src.entries ++ a.pend)) :
    ∃ s', step (body size cfg) (fuel + 1) s = .ok s' ∧
      KInv s' { a with run := .H s.events.size i ⟨q.time, NORMAL, s.eid, s.events.size⟩ q.time, items := is,
                       sent := a.sent + 1 } ∧
      s'.now = q.time ∧ histOf s'.trace = histOf s.trace ++ [.out id q.time] := by
  have hr := hk.run
  rw [hph] at hr
  obtain ⟨hqe, ⟨hkind, hcbs, hout⟩, hproc0, ⟨hpk, hpc, hpo⟩⟩ := hr
  have hgs : t < s.events.size := KState.lt_of_cbs hcbs
  have hwf := openEvent_wf s q rest hk.wf hp
  have hlt := hk.idlt
  have hres := hk.res
  have hrsz := hk.rsz
  have hc0 := hk.c0; have hc1 := hk.c1; have hc2 := hk.c2; have hc3 := hk.c3
  simp only [cRecv_val, cSent_val, cLevel_val, cUpd_val] at hc0 hc1 hc2 hc3
  rw [hph] at hres
  simp only [KState.res, RPhase.getQ] at hres
  rw [step_eq _ _ _ _ _ _ hp (hqe ▸ hcbs)]
  simp only [List.foldl, runCb]
  rw [resume_eq _ _ _ _ _ _ (show (openEvent s q rest).proc? 0 = _ from hproc0)]
  simp only [KState.ev] at hkind hcbs hout hpk hpc hpo
  obtain ⟨nrun, nsrc, npend, drun, dsrc⟩ := (ids_nodup_iff a).mp hk.nd
  simp only [hph, tbids] at nrun drun hlt
  obtain ⟨d0, de⟩ := drun
  have h0e : ¬ 0 = t := nrun
  have h0lt := hlt.1
  rw [hit] at hres
  bsimp [hqe, hgs, hkind, hcbs, hout, Nat.ne_of_lt hgs, hc1, stamp_ne, doCall_sget_hit (r := 0) (i := i) (is := is), hres, hrsz]
  leaf_hit t

end TBK
