import OnlVerif.Lemmas.StampFairRun
/-!
# WFQ with a static backlog that arrives as a *burst* at one instant `t0`

`StampFairRun.Static` wants all arrivals before any other action.  On the simulation kernel the arrivals of one
instant are interleaved with the other actions of that instant: the first packet is handed to the blocked loop
(`handoff`, `resume`, `sendInit`) before the second arrives.  No transmission can end within the instant (sizes are
positive), so at most one packet — the *early* packet `e` — is taken out of the store before all arrivals are in.

`FairB c L t0 s outs`: invariant of runs from a fresh scheduler in which every `put` is executed at instant `t0`
(`fairB_step_put` has the premise `s.now = t0`), with arbitrary interleaving of the other actions
(`fairB_step_noput`).  `fairB_bound`: for two backlogged classes the normalised service taken differs by at most
`8L/w_i + 8L/w_j`.
-/

namespace WFQ
open Stamp

/-! ### small facts -/

theorem bitsOf_perm (c : WfqCfg ℚ) (k : Nat) {l1 l2 : List SPkt} (h : l1.Perm l2) : bitsOf c k l1 = bitsOf c k l2 := by
  induction h with
  | nil => rfl
  | cons x _ ih => simp [ih]
  | swap x y l => simp only [bitsOf_cons]; ring
  | trans _ _ ih1 ih2 => rw [ih1, ih2]

/-- at most one packet of size at most `L` -/
theorem bitsOf_le_of_short (c : WfqCfg ℚ) (k : Nat) (L : Nat) (e : List SPkt) (h1 : e.length ≤ 1)
    (h2 : ∀ x ∈ e, x.size ≤ L) : bitsOf c k e ≤ 8 * (L : ℚ) := by
  have hL : (0 : ℚ) ≤ L := by exact_mod_cast Nat.zero_le _
  match e, h1, h2 with
  | [], _, _ => simp only [bitsOf_nil]; linarith
  | [x], _, h2 =>
    have : (x.size : ℚ) ≤ L := by exact_mod_cast h2 x (by simp)
    simp only [bitsOf_cons, bitsOf_nil, add_zero]
    split <;> linarith
  | _ :: _ :: _, h1, _ => simp at h1

theorem inHand_enqueue (s : WState) (sch : WfqSt ℚ) (stamp : ℚ) (p : SPkt) :
    inHand (enqueue s sch stamp p) = inHand s := rfl

theorem items_enqueue (s : WState) (sch : WfqSt ℚ) (stamp : ℚ) (p : SPkt) :
    (enqueue s sch stamp p).items = s.items ++ [{ stamp := stamp, arr := s.now, pkt := p }] := rfl

theorem held_enqueue (s : WState) (sch : WfqSt ℚ) (stamp : ℚ) (p : SPkt) :
    held (enqueue s sch stamp p) = held s ++ [p] := by
  simp [held, inHand, waiting, enqueue]

/-! ### the invariant -/

/-- **burst phase** (the instant `t0` has not been left): nothing has departed, no transmission has ended, a
transmission in progress ends strictly after `t0`; and once something has arrived, the clock stands at `t0`,
virtual time is still 0, the last event was at `t0`, and the finish time of every class is the normalised size of
all its packets (taken or waiting) -/
def BurstC (c : WfqCfg ℚ) (t0 : ℚ) (s : WState) (outs : List SPkt) : Prop :=
  outs = [] ∧ s.fin = none ∧ (∀ p due, s.tx = some (p, due) → t0 < due) ∧
    (held s ≠ [] → s.now = t0 ∧ s.sch.vtime = 0 ∧ s.sch.lastTime = t0 ∧
      ∀ k w, lookup c.weights k = some w →
        ∃ F, lookup s.sch.finish k = some F ∧ F * c.rate * w = bitsOf c k (held s))

/-- invariant of burst runs: `outs` = the packets that have left so far -/
structure FairB (c : WfqCfg ℚ) (L : Nat) (t0 : ℚ) (s : WState) (outs : List SPkt) : Prop where
  ginv : GInv s
  winv : WInv c s
  conf : ∀ it ∈ s.items, ∃ k w, clsOf c it.pkt.flow = some k ∧ lookup c.weights k = some w
  size : ∀ it ∈ s.items, 0 < it.pkt.size ∧ it.pkt.size ≤ L
  hand : ∀ m ∈ inHand s, 0 < m.size ∧ m.size ≤ L
  /-- stamps are the cumulative normalised service of the class (every arrival saw virtual time 0) -/
  chain : ∀ k w, lookup c.weights k = some w → Chain c k w (bitsOf c k (outs ++ inHand s)) s.items
  /-- the early packets `e` (at most one): apart from them, nothing taken so far had a stamp above any waiting
  stamp; while the instant `t0` has not been left, everything taken is early -/
  early : ∃ e : List SPkt, e.length ≤ 1 ∧ (∀ x ∈ e, x.size ≤ L) ∧
    (∀ k w, lookup c.weights k = some w → ∀ y ∈ s.items,
      bitsOf c k (outs ++ inHand s) - bitsOf c k e ≤ y.stamp * c.rate * w) ∧
    (s.now ≤ t0 → e = inHand s)
  burst : s.now ≤ t0 → BurstC c t0 s outs

theorem FairB.stamp_nonneg {c : WfqCfg ℚ} (hp : Pos c) {L : Nat} {t0 : ℚ} {s : WState} {outs : List SPkt}
    (h : FairB c L t0 s outs) (y : Item ℚ) (hy : y ∈ s.items) : 0 ≤ y.stamp := by
  obtain ⟨k, w, hk, hw⟩ := h.conf y hy
  have hb := (chain_bounds c k w _ s.items (h.chain k w hw) y hy hk).1
  have h1 := bitsOf_nonneg c k (outs ++ inHand s)
  have h2 : (0 : ℚ) ≤ y.pkt.size := by exact_mod_cast Nat.zero_le _
  have hrw := mul_pos hp.rate (hp.w k w hw)
  by_contra hneg
  have : y.stamp * (c.rate * w) < 0 := mul_neg_of_neg_of_pos (not_le.mp hneg) hrw
  linarith [mul_assoc y.stamp c.rate w]

/-- a fresh scheduler, whatever its clock -/
theorem fairB_start' (c : WfqCfg ℚ) (L : Nat) (t0 t : ℚ) : FairB c L t0 (WFQ.start t) [] := by
  refine ⟨init_ginv _ _, init_winv c t, ?_, ?_, ?_, ?_, ⟨[], by simp, by simp, ?_, ?_⟩, ?_⟩
  · intro it hit; simp [start, Stamp.init] at hit
  · intro it hit; simp [start, Stamp.init] at hit
  · intro m hm; simp [start, Stamp.init, inHand] at hm
  · intro k w _; simp [start, Stamp.init, Chain]
  · intro k w _ y hy; simp [start, Stamp.init] at hy
  · intro _; simp [start, Stamp.init, inHand]
  · intro _
    refine ⟨rfl, rfl, ?_, ?_⟩
    · intro p due h; simp [start, Stamp.init] at h
    · intro hne; exact absurd (by simp [start, Stamp.init, held, inHand, waiting]) hne

theorem fairB_start (c : WfqCfg ℚ) (L : Nat) (t0 : ℚ) (_h0 : 0 ≤ t0) : FairB c L t0 (WFQ.start 0) [] :=
  fairB_start' c L t0 0

/-! ### the bound -/

/-- service *taken* (transmission started or completed): one direction -/
theorem fairB_started_le {c : WfqCfg ℚ} (hp : Pos c) {L : Nat} {t0 : ℚ} {s : WState} {outs : List SPkt}
    (h : FairB c L t0 s outs) (i j : Nat) (wi wj : ℚ) (hwi : lookup c.weights i = some wi)
    (hwj : lookup c.weights j = some wj) (hbi : Backlogged c s i) :
    bitsOf c j (outs ++ inHand s) / wj - bitsOf c i (outs ++ inHand s) / wi ≤
      8 * (L : ℚ) / wi + 8 * (L : ℚ) / wj := by
  obtain ⟨y, hy, _, hye⟩ := chain_head c i wi _ s.items (h.chain i wi hwi) hbi
  obtain ⟨e, he1, he2, he3, _⟩ := h.early
  have hlow := he3 j wj hwj y hy
  have hE := bitsOf_le_of_short c j L e he1 he2
  have hsz := (h.size y hy).2
  have hszq : (y.pkt.size : ℚ) ≤ L := by exact_mod_cast hsz
  have hwip := hp.w i wi hwi
  have hwjp := hp.w j wj hwj
  have h1 : bitsOf c j (outs ++ inHand s) / wj ≤ y.stamp * c.rate + 8 * (L : ℚ) / wj := by
    rw [div_le_iff₀ hwjp]
    have : (y.stamp * c.rate + 8 * (L : ℚ) / wj) * wj = y.stamp * c.rate * wj + 8 * (L : ℚ) := by
      field_simp
    linarith
  have h2 : y.stamp * c.rate - 8 * (L : ℚ) / wi ≤ bitsOf c i (outs ++ inHand s) / wi := by
    rw [le_div_iff₀ hwip]
    have : (y.stamp * c.rate - 8 * (L : ℚ) / wi) * wi = y.stamp * c.rate * wi - 8 * (L : ℚ) := by
      field_simp
    linarith
  linarith

/-- **the bound, service started**: two backlogged classes differ in normalised service taken by at most one
maximal packet each -/
theorem fairB_bound {c : WfqCfg ℚ} (hp : Pos c) {L : Nat} {t0 : ℚ} {s : WState} {outs : List SPkt}
    (h : FairB c L t0 s outs) (i j : Nat) (wi wj : ℚ) (hwi : lookup c.weights i = some wi)
    (hwj : lookup c.weights j = some wj) (hbi : Backlogged c s i) (hbj : Backlogged c s j) :
    |bitsOf c i (outs ++ inHand s) / wi - bitsOf c j (outs ++ inHand s) / wj| ≤
      8 * (L : ℚ) / wi + 8 * (L : ℚ) / wj := by
  have h1 := fairB_started_le hp h i j wi wj hwi hwj hbi
  have h2 := fairB_started_le hp h j i wj wi hwj hwi hbj
  exact abs_le.mpr ⟨by linarith, by linarith⟩

/-! ### steps that are not arrivals -/

theorem burstC_of_perm {c : WfqCfg ℚ} {t0 : ℚ} {s s' : WState} {outs : List SPkt} (hb : BurstC c t0 s outs)
    (hsch : s'.sch = s.sch) (hfin : s'.fin = s.fin) (htx : ∀ p due, s'.tx = some (p, due) → t0 < due)
    (hnow : s'.now = s.now) (hperm : (held s).Perm (held s')) : BurstC c t0 s' outs := by
  obtain ⟨h1, h2, _, h4⟩ := hb
  refine ⟨h1, by rw [hfin]; exact h2, htx, ?_⟩
  intro hne
  have hne0 : held s ≠ [] := by
    intro hc
    rw [hc] at hperm
    exact hne hperm.symm.eq_nil
  obtain ⟨a1, a2, a3, a4⟩ := h4 hne0
  rw [hnow, hsch]
  refine ⟨a1, a2, a3, fun k w hw => ?_⟩
  obtain ⟨F, hF, hFe⟩ := a4 k w hw
  exact ⟨F, hF, by rw [hFe]; exact bitsOf_perm c k hperm⟩

theorem fairB_same {c : WfqCfg ℚ} {L : Nat} {t0 : ℚ} {s s' : WState} {outs outs' : List SPkt}
    (h : FairB c L t0 s outs) (hg' : GInv s') (hw' : WInv c s') (hr : outs' ++ inHand s' = outs ++ inHand s)
    (hit : s'.items = s.items) (hsub : ∀ m ∈ inHand s', m ∈ inHand s)
    (hb : s'.now ≤ t0 → s.now ≤ t0 ∧ inHand s' = inHand s ∧ BurstC c t0 s' outs') : FairB c L t0 s' outs' := by
  obtain ⟨e, he1, he2, he3, he4⟩ := h.early
  refine ⟨hg', hw', ?_, ?_, ?_, ?_, ⟨e, he1, he2, ?_, ?_⟩, ?_⟩
  · rw [hit]; exact h.conf
  · rw [hit]; exact h.size
  · intro m hm; exact h.hand m (hsub m hm)
  · rw [hr, hit]; exact h.chain
  · rw [hr, hit]; exact he3
  · intro hle
    obtain ⟨h1, h2, _⟩ := hb hle
    rw [h2]; exact he4 h1
  · intro hle; exact (hb hle).2.2

/-- a service decision: the first one within the burst instant takes the early packet, every other one is
minimal among all packets of the backlog that have not been taken -/
theorem fairB_pick {c : WfqCfg ℚ} (hp : Pos c) {L : Nat} {t0 : ℚ} {s s' : WState} {outs : List SPkt} {id : Nat}
    {it : Item ℚ} {rest : List (Item ℚ)} (h : FairB c L t0 s outs) (hin : inHand s = [])
    (hpk : Picked s.items id it rest) (hg' : GInv s') (hw' : WInv c s') (hin' : inHand s' = [it.pkt])
    (hit' : s'.items = rest) (hnow : s'.now = s.now) (hb : s.now ≤ t0 → BurstC c t0 s' outs) :
    FairB c L t0 s' outs := by
  obtain ⟨pre, post, hl, rfl, _, hmin⟩ := hpk
  have hmem : it ∈ s.items := by rw [hl]; simp
  have hsub : ∀ x ∈ pre ++ post, x ∈ s.items := by
    intro x hx
    rw [hl]
    rcases List.mem_append.mp hx with hx | hx
    · exact List.mem_append_left _ hx
    · exact List.mem_append_right _ (List.mem_cons_of_mem _ hx)
  have hmsz := (h.size it hmem).1
  have hminpre : ∀ x ∈ pre, it.stamp ≤ x.stamp := fun x hx =>
    hmin.stamp_le (by rw [hl]; exact List.mem_append_left _ hx)
  have hch : ∀ k w, lookup c.weights k = some w → Chain c k w (bitsOf c k outs) (pre ++ it :: post) := by
    intro k w hw
    have := h.chain k w hw
    rw [hin, List.append_nil, hl] at this
    exact this
  obtain ⟨e, he1, he2, he3, he4⟩ := h.early
  refine ⟨hg', hw', ?_, ?_, ?_, ?_, ?_, ?_⟩
  · rw [hit']; exact fun x hx => h.conf x (hsub x hx)
  · rw [hit']; exact fun x hx => h.size x (hsub x hx)
  · intro m hm
    rw [hin'] at hm
    simp only [List.mem_singleton] at hm
    subst hm
    exact h.size it hmem
  · intro k w hw
    rw [hin', hit']
    have hrw := mul_pos hp.rate (hp.w k w hw)
    have hr := chain_remove c k w _ hrw pre post it (hch k w hw) hminpre hmsz
    simp only [bitsOf_append, bitsOf_cons, bitsOf_nil, add_zero]
    by_cases hk : clsOf c it.pkt.flow = some k
    · rw [if_pos hk]; exact (hr.1 hk).2
    · rw [if_neg hk, add_zero]; exact hr.2 hk
  · by_cases hle : s.now ≤ t0
    · -- the early packet
      refine ⟨[it.pkt], by simp, ?_, ?_, ?_⟩
      · intro x hx
        simp only [List.mem_singleton] at hx
        subst hx
        exact (h.size it hmem).2
      · intro k w hw y hy
        rw [hit'] at hy
        rw [hin', (h.burst hle).1]
        simp only [List.nil_append, sub_self]
        exact mul_nonneg (mul_nonneg (h.stamp_nonneg hp y (hsub y hy)) (le_of_lt hp.rate)) (le_of_lt (hp.w k w hw))
      · intro _; exact hin'.symm
    · refine ⟨e, he1, he2, ?_, ?_⟩
      · intro k w hw y hy
        rw [hit'] at hy
        rw [hin']
        have hrw := mul_pos hp.rate (hp.w k w hw)
        have hE := bitsOf_nonneg c k e
        have hnew : bitsOf c k (outs ++ [it.pkt]) - bitsOf c k e ≤ it.stamp * c.rate * w := by
          have hr := chain_remove c k w _ hrw pre post it (hch k w hw) hminpre hmsz
          simp only [bitsOf_append, bitsOf_cons, bitsOf_nil, add_zero]
          by_cases hk : clsOf c it.pkt.flow = some k
          · rw [if_pos hk]; linarith [(hr.1 hk).1]
          · rw [if_neg hk, add_zero]
            have := he3 k w hw it hmem
            rw [hin, List.append_nil] at this
            exact this
        have h2 : it.stamp ≤ y.stamp := hmin.stamp_le (hsub y hy)
        have : it.stamp * (c.rate * w) ≤ y.stamp * (c.rate * w) := mul_le_mul_of_nonneg_right h2 (le_of_lt hrw)
        linarith [mul_assoc y.stamp c.rate w, mul_assoc it.stamp c.rate w]
      · intro hle'
        rw [hnow] at hle'
        exact absurd hle' hle
  · intro hle
    rw [hnow] at hle
    exact hb hle

theorem txTime_pos {c : WfqCfg ℚ} (hp : Pos c) (p : SPkt) (hs : 0 < p.size) : 0 < txTime (sched c) p := by
  show (0 : ℚ) < ((p.size * 8 : ℕ) : ℚ) / c.rate
  apply div_pos _ hp.rate
  have : 0 < p.size * 8 := by omega
  exact_mod_cast this

/-- **`FairB` is kept by every step that is not an arrival.** -/
theorem fairB_step_noput {c : WfqCfg ℚ} (hp : Pos c) {L : Nat} {t0 : ℚ} {s s' : WState} {a : StAct ℚ} {o : StOut}
    {outs : List SPkt} (h : FairB c L t0 s outs) (ht : Trans (sched c) s a s' o) (hnp : ∀ p, a ≠ .put p) :
    FairB c L t0 s' (outs ++ left o) := by
  have hg' := (step_ginv h.ginv ht).1
  have hperm := (step_ginv h.ginv ht).2
  have hw' := step_winv h.ginv h.winv ht
  have hs := h.ginv.shape
  cases ht with
  | put p sch stamp h1 => exact absurd rfl (hnp p)
  | initBlock h1 h2 =>
    simp only [left, List.append_nil]
    refine fairB_same h hg' hw' (by simp [inHand]) rfl (fun m hm => by simpa [inHand] using hm) ?_
    intro hle
    refine ⟨hle, by simp [inHand], ?_⟩
    exact burstC_of_perm (h.burst hle) rfl rfl (h.burst hle).2.2.1 rfl (by simpa [entered, left] using hperm)
  | initServe id it rest h1 h2 =>
    have hx := hs.of_not_started h1
    simp only [left, List.append_nil]
    refine fairB_pick hp h (by simp [inHand, hx]) h2 hg' hw' (by simp [inHand, hx]) rfl rfl ?_
    intro hle
    exact burstC_of_perm (h.burst hle) rfl rfl (h.burst hle).2.2.1 rfl (by simpa [entered, left] using hperm)
  | handoff id it rest h1 h2 =>
    have hx := hs.of_getPending h1
    simp only [left, List.append_nil]
    refine fairB_pick hp h (by simp [inHand, hx]) h2 hg' hw' (by simp [inHand, hx]) rfl rfl ?_
    intro hle
    exact burstC_of_perm (h.burst hle) rfl rfl (h.burst hle).2.2.1 rfl (by simpa [entered, left] using hperm)
  | resume it h1 =>
    have hx := hs.of_handed h1
    simp only [left, List.append_nil]
    refine fairB_same h hg' hw' (by simp [inHand, hx, h1]) rfl (fun m hm => by simpa [inHand, hx, h1] using hm) ?_
    intro hle
    refine ⟨hle, by simp [inHand, hx, h1], ?_⟩
    exact burstC_of_perm (h.burst hle) rfl rfl (h.burst hle).2.2.1 rfl (by simpa [entered, left] using hperm)
  | sendInit p h1 h2 h3 =>
    have hx := hs.of_spawned h1
    simp only [left, List.append_nil]
    refine fairB_same h hg' hw' (by simp [inHand, hx, h1]) rfl (fun m hm => by simpa [inHand, hx, h1] using hm) ?_
    intro hle
    refine ⟨hle, by simp [inHand, hx, h1], ?_⟩
    have hle0 : s.now ≤ t0 := hle
    have hne : held s ≠ [] := by simp [held, inHand, h1]
    have hn0 := ((h.burst hle0).2.2.2 hne).1
    have hps := (h.hand p (by simp [inHand, h1])).1
    have htp := txTime_pos hp p hps
    refine burstC_of_perm (h.burst hle0) rfl rfl ?_ rfl (by simpa [entered, left] using hperm)
    intro q due heq
    simp only [Option.some.injEq, Prod.mk.injEq] at heq
    obtain ⟨_, rfl⟩ := heq
    linarith
  | sendFire p due h1 h2 =>
    have hx := hs.of_tx h1
    refine fairB_same h hg' hw' (by simp [left, inHand, hx, h1, release]) rfl
      (fun m hm => by simp [inHand, hx, release] at hm) ?_
    intro hle
    have hle0 : s.now ≤ t0 := hle
    have := (h.burst hle0).2.2.1 p due h1
    linarith
  | doneBlock p sch h1 h2 h3 =>
    have hx := hs.of_fin h1
    simp only [left, List.append_nil]
    refine fairB_same h hg' hw' (by simp [inHand, hx]) rfl (fun m hm => by simp [inHand, hx] at hm) ?_
    intro hle
    have hle0 : s.now ≤ t0 := hle
    have := (h.burst hle0).2.1
    rw [h1] at this
    cases this
  | doneServe p sch id it rest h1 h2 h3 =>
    have hx := hs.of_fin h1
    simp only [left, List.append_nil]
    refine fairB_pick hp h (by simp [inHand, hx]) h3 hg' hw' (by simp [inHand, hx]) rfl rfl ?_
    intro hle
    have := (h.burst hle).2.1
    rw [h1] at this
    cases this
  | tick t h1 =>
    simp only [left, List.append_nil]
    refine fairB_same h hg' hw' (by simp [inHand]) rfl (fun m hm => by simpa [inHand] using hm) ?_
    intro hle
    have hle1 : t ≤ t0 := hle
    have hle0 : s.now ≤ t0 := le_trans h1.1 hle1
    refine ⟨hle0, by simp [inHand], ?_⟩
    obtain ⟨b1, b2, b3, b4⟩ := h.burst hle0
    refine ⟨b1, b2, b3, ?_⟩
    intro hne
    have hne0 : held s ≠ [] := hne
    obtain ⟨a1, a2, a3, a4⟩ := b4 hne0
    have h11 := h1.1
    exact ⟨le_antisymm hle1 (by rw [← a1]; exact h11), a2, a3, a4⟩
  | sample b =>
    simp only [left, List.append_nil]
    exact h

/-! ### an arrival at the instant `t0` -/

/-- **One more arrival at the instant `t0` keeps `FairB`**, whatever has happened within the instant. -/
theorem fairB_step_put {c : WfqCfg ℚ} (hp : Pos c) {L : Nat} {t0 : ℚ} {s s' : WState} {p : SPkt} {o : StOut}
    {outs : List SPkt} (h : FairB c L t0 s outs) (hnow : s.now = t0) (hsz : 0 < p.size ∧ p.size ≤ L)
    (ht : Trans (sched c) s (.put p) s' o) : FairB c L t0 s' outs ∧ o = .accepted := by
  subst hnow
  have hg' := (step_ginv h.ginv ht).1
  have hw' := step_winv h.ginv h.winv ht
  obtain ⟨hout, hfin, htx, hlive⟩ := h.burst (le_refl _)
  subst hout
  obtain ⟨e, he1, he2, he3, he4⟩ := h.early
  have hee := he4 (le_refl _)
  subst hee
  cases ht with
  | put _ sch stamp h1 =>
    refine ⟨?_, rfl⟩
    obtain ⟨k, st1, f, w, hk, ha, hf, hwt, hz, rfl, rfl⟩ := put_spec c _ _ _ _ _ _ h1
    have hwpos := hp.w k w hwt
    have hrw := mul_pos hp.rate hwpos
    -- after `advance`: virtual time 0, finish times = normalised class sizes
    have hadv : st1.vtime = 0 ∧ ∀ k' w', lookup c.weights k' = some w' →
        ∃ F, lookup st1.finish k' = some F ∧ F * c.rate * w' = bitsOf c k' (held s) := by
      rcases advance_spec c _ _ _ _ ha with ⟨h0, rfl⟩ | ⟨hne, _, _, rfl⟩
      · have hh := h.winv.tot.zero_iff.mp h0
        refine ⟨by simp [resetVtime, zero_eq_q], ?_⟩
        intro k' w' hw'
        exact ⟨0, by simp [resetVtime, lookup_zeroFinish, hw'], by simp [hh]⟩
      · have hhe : held s ≠ [] := fun hc => hne (h.winv.tot.zero_iff.mpr hc)
        obtain ⟨_, hv, hl, hfinish⟩ := hlive hhe
        refine ⟨?_, hfinish⟩
        simp only [hv, hl, sub_self, zero_div, add_zero]
    obtain ⟨F0, hF0, hF0e⟩ := hadv.2 k w hwt
    rw [hf] at hF0; cases hF0
    have hf0 : 0 ≤ f := by
      have hb := bitsOf_nonneg c k (held s)
      rw [← hF0e] at hb
      by_contra hneg
      have : f * (c.rate * w) < 0 := mul_neg_of_neg_of_pos (not_le.mp hneg) hrw
      linarith [mul_assoc f c.rate w]
    -- the new stamp
    have hstamp : stampOf c f st1.vtime w p.size * c.rate * w = bitsOf c k (held s) + 8 * (p.size : ℚ) := by
      rw [stampOf_eq, hadv.1, max_eq_left hf0, ← hF0e]
      have hne : c.rate * w ≠ 0 := ne_of_gt hrw
      have e : 8 * (p.size : ℚ) / (c.rate * w) * (c.rate * w) = 8 * (p.size : ℚ) := div_mul_cancel₀ _ hne
      calc (f + 8 * (p.size : ℚ) / (c.rate * w)) * c.rate * w
          = f * c.rate * w + 8 * (p.size : ℚ) / (c.rate * w) * (c.rate * w) := by ring
        _ = f * c.rate * w + 8 * (p.size : ℚ) := by rw [e]
    have hst0 : 0 ≤ stampOf c f st1.vtime w p.size := by
      have hb := bitsOf_nonneg c k (held s)
      have hps : (0 : ℚ) ≤ p.size := by exact_mod_cast Nat.zero_le _
      by_contra hneg
      have : stampOf c f st1.vtime w p.size * (c.rate * w) < 0 := mul_neg_of_neg_of_pos (not_le.mp hneg) hrw
      linarith [mul_assoc (stampOf c f st1.vtime w p.size) c.rate w]
    refine ⟨hg', hw', ?_, ?_, ?_, ?_, ⟨inHand s, he1, he2, ?_, ?_⟩, ?_⟩
    · intro it hit
      simp only [enqueue, List.mem_append, List.mem_singleton] at hit
      rcases hit with hit | rfl
      · exact h.conf it hit
      · exact ⟨k, w, hk, hwt⟩
    · intro it hit
      simp only [enqueue, List.mem_append, List.mem_singleton] at hit
      rcases hit with hit | rfl
      · exact h.size it hit
      · exact hsz
    · intro m hm
      rw [inHand_enqueue] at hm
      exact h.hand m hm
    · intro k' w' hw'
      rw [inHand_enqueue, items_enqueue, chain_snoc]
      refine ⟨h.chain k' w' hw', ?_⟩
      intro hk'
      simp only [clsOf] at hk'
      rw [hk] at hk'
      cases hk'
      rw [hwt] at hw'; cases hw'
      rw [hstamp]
      simp [held, waiting]
    · intro k' w' hw' y hy
      rw [inHand_enqueue]
      rw [items_enqueue] at hy
      simp only [List.mem_append, List.mem_singleton] at hy
      rcases hy with hy | rfl
      · exact he3 k' w' hw' y hy
      · simp only [List.nil_append, sub_self]
        exact mul_nonneg (mul_nonneg hst0 (le_of_lt hp.rate)) (le_of_lt (hp.w k' w' hw'))
    · intro _; rw [inHand_enqueue]
    · intro _
      refine ⟨rfl, hfin, htx, fun _ => ⟨rfl, hadv.1, rfl, ?_⟩⟩
      intro k' w' hwk
      show ∃ F, lookup (setKey st1.finish k _) k' = some F ∧ _
      rw [lookup_setKey, held_enqueue, bitsOf_append, bitsOf_cons, bitsOf_nil, add_zero]
      by_cases hkk : k' = k
      · subst hkk
        rw [hwt] at hwk; cases hwk
        refine ⟨stampOf c f st1.vtime w p.size, by simp, ?_⟩
        simp only [clsOf, hk, if_true]
        exact hstamp
      · obtain ⟨F', hF', hF'e⟩ := hadv.2 k' w' hwk
        refine ⟨F', by simp [hkk, hF'], ?_⟩
        have : ¬ clsOf c p.flow = some k' := by
          simp only [clsOf, hk, Option.some.injEq]
          exact fun e => hkk e.symm
        rw [if_neg this, add_zero]
        exact hF'e

/-! ### runs -/

theorem fairB_runActs_noput {c : WfqCfg ℚ} (hp : Pos c) {L : Nat} {t0 : ℚ} (as : List (StAct ℚ)) (hnp : NoPut as)
    {s s' : WState} {outs ins outs' : List SPkt} (h : FairB c L t0 s outs)
    (hr : runActs (sched c) s as = .ok (s', ins, outs')) : FairB c L t0 s' (outs ++ outs') := by
  induction as generalizing s outs ins outs' with
  | nil =>
    simp only [runActs, Except.ok.injEq, Prod.mk.injEq] at hr
    obtain ⟨rfl, _, rfl⟩ := hr
    simpa using h
  | cons a as ih =>
    simp only [runActs] at hr
    split at hr
    · cases hr
    · rename_i s1 o hstep
      split at hr
      · cases hr
      · rename_i s2 ins2 outs2 h2
        simp only [Except.ok.injEq, Prod.mk.injEq] at hr
        obtain ⟨rfl, _, rfl⟩ := hr
        have h1 := fairB_step_noput hp h (step_trans _ _ _ _ _ hstep) (hnp a (by simp))
        have := ih (fun b hb => hnp b (List.mem_cons_of_mem _ hb)) h1 h2
        simpa [List.append_assoc] using this

/-- a scheduler that accounts for no packet (after whatever history) is the start of a burst run: `outs` counts
the departures from here on -/
theorem fairB_of_empty {c : WfqCfg ℚ} {L : Nat} {t0 : ℚ} {s : WState} (hg : GInv s) (hw : WInv c s)
    (he : held' s = []) : FairB c L t0 s [] := by
  have h1 : inHand s = [] ∧ waiting s = [] ∧ finL s = [] := by
    simp only [held', held, List.append_eq_nil_iff] at he
    exact ⟨he.1.1, he.1.2, he.2⟩
  have hit : s.items = [] := by simpa [waiting] using h1.2.1
  have hfin : s.fin = none := by
    cases hx : s.fin with
    | none => rfl
    | some x => have := h1.2.2; simp [finL, hx] at this
  have htx : s.tx = none := by
    cases hx : s.tx with
    | none => rfl
    | some x =>
      obtain ⟨p, due⟩ := x
      have := h1.1
      simp [inHand, hx] at this
  refine ⟨hg, hw, ?_, ?_, ?_, ?_, ⟨[], by simp, by simp, ?_, ?_⟩, ?_⟩
  · rw [hit]; simp
  · rw [hit]; simp
  · rw [h1.1]; simp
  · intro k w _; rw [hit]; trivial
  · intro k w _ y hy; rw [hit] at hy; simp at hy
  · intro _; exact h1.1.symm
  · intro _
    refine ⟨rfl, hfin, ?_, ?_⟩
    · intro p due h; rw [htx] at h; cases h
    · intro hne; exact absurd (by simp [held, h1.1, h1.2.1]) hne

/-- along the run of `as` from `s`, every `put` is executed at the instant `t0` and carries a size in `(0, L]` -/
def PutsAt (c : WfqCfg ℚ) (L : Nat) (t0 : ℚ) : WState → List (StAct ℚ) → Prop
  | _, [] => True
  | s, a :: as => (∀ p, a = .put p → s.now = t0 ∧ 0 < p.size ∧ p.size ≤ L) ∧
      ∀ s1 o, step (sched c) s a = .ok (s1, o) → PutsAt c L t0 s1 as

/-- actions without arrivals are a burst run -/
theorem putsAt_of_noPut (c : WfqCfg ℚ) (L : Nat) (t0 : ℚ) (as : List (StAct ℚ)) (hnp : NoPut as) (s : WState) :
    PutsAt c L t0 s as := by
  induction as generalizing s with
  | nil => trivial
  | cons a as ih =>
    refine ⟨fun p hpa => absurd hpa (hnp a (by simp) p), fun s1 _ _ => ?_⟩
    exact ih (fun b hb => hnp b (List.mem_cons_of_mem _ hb)) s1

/-- **`FairB` along any run whose arrivals all happen at the instant `t0`**, interleaved at will -/
theorem fairB_runActs {c : WfqCfg ℚ} (hp : Pos c) {L : Nat} {t0 : ℚ} (as : List (StAct ℚ))
    {s s' : WState} {outs ins outs' : List SPkt} (h : FairB c L t0 s outs) (hpa : PutsAt c L t0 s as)
    (hr : runActs (sched c) s as = .ok (s', ins, outs')) : FairB c L t0 s' (outs ++ outs') := by
  induction as generalizing s outs ins outs' with
  | nil =>
    simp only [runActs, Except.ok.injEq, Prod.mk.injEq] at hr
    obtain ⟨rfl, _, rfl⟩ := hr
    simpa using h
  | cons a as ih =>
    simp only [runActs] at hr
    split at hr
    · cases hr
    · rename_i s1 o hstep
      split at hr
      · cases hr
      · rename_i s2 ins2 outs2 h2
        simp only [Except.ok.injEq, Prod.mk.injEq] at hr
        obtain ⟨rfl, _, rfl⟩ := hr
        have ht := step_trans _ _ _ _ _ hstep
        have hpa1 := hpa.2 s1 o hstep
        have h1 : FairB c L t0 s1 (outs ++ left o) := by
          by_cases hput : ∃ p, a = .put p
          · obtain ⟨p, rfl⟩ := hput
            obtain ⟨hn, hsz⟩ := hpa.1 p rfl
            obtain ⟨hf, rfl⟩ := fairB_step_put hp h hn hsz ht
            simpa [left] using hf
          · exact fairB_step_noput hp h ht (fun p hc => hput ⟨p, hc⟩)
        have := ih h1 hpa1 h2
        simpa [List.append_assoc] using this

/-- **Static-backlog fairness for a burst, service started**: from a fresh scheduler, all arrivals at one instant
`t0` — interleaved at will with the other actions of that instant —, sizes in `(0, L]`: two classes that are still
backlogged differ in normalised service taken by at most `8L/w_i + 8L/w_j`. -/
theorem burst_backlog_fair_started (c : WfqCfg ℚ) (hp : Pos c) (L : Nat) (t0 t : ℚ) (as : List (StAct ℚ))
    (hpa : PutsAt c L t0 (start t) as) (s : WState) (ins outs : List SPkt)
    (hr : runActs (sched c) (start t) as = .ok (s, ins, outs))
    (i j : Nat) (wi wj : ℚ) (hwi : lookup c.weights i = some wi) (hwj : lookup c.weights j = some wj)
    (hbi : Backlogged c s i) (hbj : Backlogged c s j) :
    |bitsOf c i (outs ++ inHand s) / wi - bitsOf c j (outs ++ inHand s) / wj| ≤
      8 * (L : ℚ) / wi + 8 * (L : ℚ) / wj := by
  have hf := fairB_runActs hp as (fairB_start' c L t0 t) hpa hr
  rw [List.nil_append] at hf
  exact fairB_bound hp hf i j wi wj hwi hwj hbi hbj

end WFQ
