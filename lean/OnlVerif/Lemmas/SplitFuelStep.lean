import OnlVerif.Lemmas.SplitSentStep
import OnlVerif.Lemmas.SplitFuel
import OnlVerif.Lemmas.EventMono
/-!
# The fuel hypothesis of a step follows from two invariants of the state at the start of the step (C03, stage 3)

`CondWF s` — operands are older than their condition — and `BuildAlloc s` — a `_build_value` callback belongs to an allocated
condition.  Kinds never change (`EvMono`), so the conditions that existed at the start of the step stay well-formed all
through its callback loop, whatever the program creates meanwhile.
-/

variable {σ : Type}

/-- every `Condition._build_value` callback registered anywhere belongs to an allocated condition -/
def BuildAlloc (s : KState ℚ σ) : Prop :=
  ∀ e cbs cd, (s.ev e).cbs = some cbs → Cb.build cd ∈ cbs → @LT.lt Nat _ cd s.events.size

namespace SplitCfg
variable (c : SplitCfg σ)

theorem loopFuelOK_of_wf (body : σ → Resume → Burst ℚ σ) (fuel : Nat) (e : EvId) (s0 : KState ℚ σ) (h0 : CondWF s0)
    (cbs : List Cb) (hb : ∀ cd, Cb.build cd ∈ cbs → @LT.lt Nat _ cd s0.events.size) (l : LoopSt ℚ σ) (hm : EvMono s0 l.s) :
    c.loopFuelOK body fuel e cbs l := by
  induction cbs generalizing l with
  | nil => trivial
  | cons cb cs ih =>
    refine ⟨?_, ih (fun cd h => hb cd (List.mem_cons_of_mem _ h)) _ (hm.trans (EvMono.krel.runCb body fuel e l cb))⟩
    cases cb with
    | build cd =>
      have hcd := hb cd List.mem_cons_self
      refine c.FuelOK_of_condWFBelow s0.events.size l.s ?_ cd hcd
      exact (h0 _).of_kind (fun x hx => hm.kind x hx)
    | _ => trivial

/-- **the fuel hypothesis of a step holds in every state that satisfies the two invariants** -/
theorem stepFuelOK_of_wf (body : σ → Resume → Burst ℚ σ) (fuel : Nat) (s : KState ℚ σ) (h1 : CondWF s) (h2 : BuildAlloc s) :
    c.stepFuelOK body fuel s := by
  unfold stepFuelOK
  cases hp : popMin s.agenda with
  | none => trivial
  | some mr =>
    obtain ⟨m, rest⟩ := mr
    simp only
    cases hc : (s.ev m.ev).cbs with
    | none => trivial
    | some cbs =>
      simp only
      refine c.loopFuelOK_of_wf body fuel m.ev s h1 cbs (fun cd h => h2 m.ev cbs cd hc h) _ ?_
      have := EvMono.of_setEv s m.ev { s.ev m.ev with cbs := none } rfl (fun _ => rfl)
      exact ⟨this.size_le, this.kind, this.processed⟩

end SplitCfg
