import Mathlib.Data.List.Basic
import Mathlib.Data.List.Nodup
import Mathlib.Data.List.Range
import Mathlib.Tactic.Ring
import Mathlib.Tactic.Linarith
import OnlVerif.Lemmas.RouteFib
/-! # Lemmas about the structural fat tree (`OnlVerif/Net/FatTree.lean`): numbering, counts, degrees, adjacency -/

namespace FatTree
open Route

/-! ### flattening nested ranges -/

theorem length_flatMap_const {α β : Type} (l : List α) (f : α → List β) (c : Nat) (h : ∀ x ∈ l, (f x).length = c) :
    (l.flatMap f).length = l.length * c := by
  induction l with
  | nil => simp
  | cons x r ih =>
    rw [List.flatMap_cons, List.length_append, h x List.mem_cons_self,
      ih (fun y hy => h y (List.mem_cons_of_mem _ hy)), List.length_cons]
    ring

theorem range_flat (a b off : Nat) :
    (List.range a).flatMap (fun i => (List.range b).map fun j => off + i * b + j)
      = (List.range (a * b)).map fun x => off + x := by
  induction a with
  | zero => simp
  | succ a ih =>
    rw [List.range_succ, List.flatMap_append, ih]
    have e : (a + 1) * b = a * b + b := by ring
    rw [e, List.range_add, List.map_append, List.map_map]
    simp only [List.flatMap_cons, List.flatMap_nil, List.append_nil]
    congr 1
    apply List.map_congr_left
    intro j _
    simp only [Function.comp]
    ring

/-! ### the node list is numbered `0, 1, 2, …` in order -/

theorem cores_num (h : Nat) : (cores (2 * h)).map (FNode.num (2 * h)) = List.range (h * h) := by
  have hh : 2 * h / 2 = h := by omega
  simp only [cores, hh, List.map_flatMap, List.map_map]
  have := range_flat h h 0
  simp only [Nat.zero_add, List.map_id'] at this
  rw [← this]
  apply List.flatMap_congr
  intro a _
  apply List.map_congr_left
  intro b _
  simp [FNode.num, hh]

theorem podSwitches_num (h : Nat) :
    (podSwitches (2 * h)).map (FNode.num (2 * h)) = (List.range (2 * h * (2 * h))).map fun x => h * h + x := by
  have hh : 2 * h / 2 = h := by omega
  rw [← range_flat (2 * h) (2 * h) (h * h)]
  simp only [podSwitches, aggrsOf, edgesOf, hh, List.map_flatMap, List.map_append, List.map_map]
  apply List.flatMap_congr
  intro p _
  have e : 2 * h = h + h := by ring
  conv_rhs => rw [e, List.range_add, List.map_append, List.map_map]
  congr 1
  · apply List.map_congr_left
    intro i _
    simp only [Function.comp, FNode.num, hh]
    ring
  · apply List.map_congr_left
    intro j _
    simp only [Function.comp, FNode.num, hh]
    ring

theorem hosts_num (h : Nat) :
    (hosts (2 * h)).map (FNode.num (2 * h))
      = (List.range (2 * h * (h * h))).map fun x => h * h + 2 * h * (2 * h) + x := by
  have hh : 2 * h / 2 = h := by omega
  rw [← range_flat (2 * h) (h * h) (h * h + 2 * h * (2 * h))]
  simp only [hosts, hostsOf, hh, List.map_flatMap, List.map_map]
  apply List.flatMap_congr
  intro p _
  rw [← range_flat h h (h * h + 2 * h * (2 * h) + p * (h * h))]
  apply List.flatMap_congr
  intro j _
  apply List.map_congr_left
  intro m _
  simp only [Function.comp, FNode.num, hh]
  ring

/-- **node ids**: the `i`-th node the constructor creates gets id `i` -/
theorem nodes_num (h : Nat) : (nodes (2 * h)).map (FNode.num (2 * h)) = List.range (nNodes (2 * h)) := by
  have hh : 2 * h / 2 = h := by omega
  simp only [nodes, List.map_append, cores_num, podSwitches_num, hosts_num, nNodes, hh]
  have e : h ^ 2 + 2 * h * (2 * h) + 2 * h * h * h = h * h + (2 * h * (2 * h) + 2 * h * (h * h)) := by ring
  rw [e, List.range_add, List.range_add, List.map_append, List.map_map, List.append_assoc]
  congr 2
  apply List.map_congr_left
  intro x _
  simp only [Function.comp]
  ring

theorem nodes_length (h : Nat) : (nodes (2 * h)).length = nNodes (2 * h) := by
  have := congrArg List.length (nodes_num h)
  simpa using this

theorem num_injOn (h : Nat) : ∀ a ∈ nodes (2 * h), ∀ b ∈ nodes (2 * h),
    FNode.num (2 * h) a = FNode.num (2 * h) b → a = b := by
  have hn : ((nodes (2 * h)).map (FNode.num (2 * h))).Nodup := by
    rw [nodes_num]; exact List.nodup_range
  intro a ha b hb e
  exact List.inj_on_of_nodup_map hn ha hb e

/-! ### membership -/

theorem mem_cores (k : Nat) (n : FNode) : n ∈ cores k ↔ ∃ a b, a < k / 2 ∧ b < k / 2 ∧ n = .core a b := by
  simp only [cores, List.mem_flatMap, List.mem_map, List.mem_range]
  constructor
  · rintro ⟨a, ha, b, hb, rfl⟩; exact ⟨a, b, ha, hb, rfl⟩
  · rintro ⟨a, b, ha, hb, rfl⟩; exact ⟨a, ha, b, hb, rfl⟩

theorem mem_podSwitches (k : Nat) (n : FNode) :
    n ∈ podSwitches k ↔ ∃ p i, p < k ∧ i < k / 2 ∧ (n = .aggr p i ∨ n = .edge p i) := by
  simp only [podSwitches, aggrsOf, edgesOf, List.mem_flatMap, List.mem_append, List.mem_map, List.mem_range]
  constructor
  · rintro ⟨p, hp, ⟨i, hi, rfl⟩ | ⟨i, hi, rfl⟩⟩
    · exact ⟨p, i, hp, hi, Or.inl rfl⟩
    · exact ⟨p, i, hp, hi, Or.inr rfl⟩
  · rintro ⟨p, i, hp, hi, rfl | rfl⟩
    · exact ⟨p, hp, Or.inl ⟨i, hi, rfl⟩⟩
    · exact ⟨p, hp, Or.inr ⟨i, hi, rfl⟩⟩

theorem mem_hosts (k : Nat) (n : FNode) :
    n ∈ hosts k ↔ ∃ p j m, p < k ∧ j < k / 2 ∧ m < k / 2 ∧ n = .host p j m := by
  simp only [hosts, hostsOf, List.mem_flatMap, List.mem_map, List.mem_range]
  constructor
  · rintro ⟨p, hp, j, hj, m, hm, rfl⟩; exact ⟨p, j, m, hp, hj, hm, rfl⟩
  · rintro ⟨p, j, m, hp, hj, hm, rfl⟩; exact ⟨p, hp, j, hj, m, hm, rfl⟩

theorem mem_nodes (k : Nat) (n : FNode) : n ∈ nodes k ↔ n.Valid k := by
  simp only [nodes, List.mem_append, mem_cores, mem_podSwitches, mem_hosts]
  cases n with
  | core a b =>
    simp only [FNode.Valid]
    constructor
    · rintro ((⟨a', b', ha, hb, e⟩ | ⟨_, _, _, _, e | e⟩) | ⟨_, _, _, _, _, _, e⟩) <;> cases e
      exact ⟨ha, hb⟩
    · rintro ⟨ha, hb⟩; exact Or.inl (Or.inl ⟨a, b, ha, hb, rfl⟩)
  | aggr p i =>
    simp only [FNode.Valid]
    constructor
    · rintro ((⟨_, _, _, _, e⟩ | ⟨p', i', hp, hi, e | e⟩) | ⟨_, _, _, _, _, _, e⟩) <;> cases e
      exact ⟨hp, hi⟩
    · rintro ⟨hp, hi⟩; exact Or.inl (Or.inr ⟨p, i, hp, hi, Or.inl rfl⟩)
  | edge p j =>
    simp only [FNode.Valid]
    constructor
    · rintro ((⟨_, _, _, _, e⟩ | ⟨p', i', hp, hi, e | e⟩) | ⟨_, _, _, _, _, _, e⟩) <;> cases e
      exact ⟨hp, hi⟩
    · rintro ⟨hp, hi⟩; exact Or.inl (Or.inr ⟨p, j, hp, hi, Or.inr rfl⟩)
  | host p j m =>
    simp only [FNode.Valid]
    constructor
    · rintro ((⟨_, _, _, _, e⟩ | ⟨_, _, _, _, e | e⟩) | ⟨p', j', m', hp, hj, hm, e⟩) <;> cases e
      exact ⟨hp, hj, hm⟩
    · rintro ⟨hp, hj, hm⟩; exact Or.inr ⟨p, j, m, hp, hj, hm, rfl⟩

/-! ### counts per layer -/

theorem filter_of_layer (L : List FNode) (l0 l : Layer) (h : ∀ n ∈ L, n.layer = l0) :
    L.filter (fun n => n.layer = l) = if l = l0 then L else [] := by
  by_cases e : l = l0
  · subst e
    rw [if_pos rfl]
    apply List.filter_eq_self.mpr
    intro n hn
    simp [h n hn]
  · rw [if_neg e]
    apply List.filter_eq_nil_iff.mpr
    intro n hn
    simp only [h n hn, decide_eq_true_eq]
    exact fun h' => e h'.symm

theorem layer_cores (k : Nat) : ∀ n ∈ cores k, n.layer = .core := by
  intro n hn
  obtain ⟨a, b, _, _, rfl⟩ := (mem_cores k n).mp hn
  rfl

theorem layer_hosts (k : Nat) : ∀ n ∈ hosts k, n.layer = .leaf := by
  intro n hn
  obtain ⟨p, j, m, _, _, _, rfl⟩ := (mem_hosts k n).mp hn
  rfl

theorem layer_aggrsOf (k p : Nat) : ∀ n ∈ aggrsOf k p, n.layer = .aggregation := by
  intro n hn
  simp only [aggrsOf, List.mem_map] at hn
  obtain ⟨_, _, rfl⟩ := hn
  rfl

theorem layer_edgesOf (k p : Nat) : ∀ n ∈ edgesOf k p, n.layer = .edge := by
  intro n hn
  simp only [edgesOf, List.mem_map] at hn
  obtain ⟨_, _, rfl⟩ := hn
  rfl

theorem layer_hostsOf (k p j : Nat) : ∀ n ∈ hostsOf k p j, n.layer = .leaf := by
  intro n hn
  simp only [hostsOf, List.mem_map] at hn
  obtain ⟨_, _, rfl⟩ := hn
  rfl

theorem filter_layer_pods (k : Nat) (l : Layer) :
    (podSwitches k).filter (fun n => n.layer = l) =
      if l = .aggregation then (List.range k).flatMap (aggrsOf k)
      else if l = .edge then (List.range k).flatMap (edgesOf k) else [] := by
  simp only [podSwitches, List.filter_flatMap, List.filter_append,
    filter_of_layer _ _ l (layer_aggrsOf k _), filter_of_layer _ _ l (layer_edgesOf k _)]
  cases l <;> simp

theorem cores_length (k : Nat) : (cores k).length = (k / 2) * (k / 2) := by
  unfold cores
  rw [length_flatMap_const _ _ (k / 2) (by intro x _; simp)]
  simp

theorem hosts_length (k : Nat) : (hosts k).length = k * ((k / 2) * (k / 2)) := by
  unfold hosts
  rw [length_flatMap_const _ _ ((k / 2) * (k / 2))]
  · simp
  · intro p _
    rw [length_flatMap_const _ _ (k / 2) (by intro x _; simp [hostsOf])]
    simp

theorem aggrs_length (k : Nat) : ((List.range k).flatMap (aggrsOf k)).length = k * (k / 2) := by
  rw [length_flatMap_const _ _ (k / 2) (by intro x _; simp [aggrsOf])]
  simp

theorem edges_length (k : Nat) : ((List.range k).flatMap (edgesOf k)).length = k * (k / 2) := by
  rw [length_flatMap_const _ _ (k / 2) (by intro x _; simp [edgesOf])]
  simp

theorem ofLayer_length (k : Nat) (l : Layer) :
    (ofLayer k l).length = match l with
      | .core => (k / 2) * (k / 2)
      | .aggregation => k * (k / 2)
      | .edge => k * (k / 2)
      | .leaf => k * ((k / 2) * (k / 2)) := by
  simp only [ofLayer, nodes, List.filter_append, filter_of_layer _ _ l (layer_cores k), filter_layer_pods,
    filter_of_layer _ _ l (layer_hosts k), List.length_append]
  cases l <;> simp [-List.length_flatMap, cores_length, aggrs_length, edges_length, hosts_length]

/-! ### adjacency: degree, validity, symmetry, no duplicates -/

theorem nbrs_length (k : Nat) (n : FNode) :
    (nbrs k n).length = match n with
      | .host .. => 1
      | .core .. => k
      | _ => k / 2 + k / 2 := by
  cases n <;> simp [nbrs, aggrsOf, edgesOf, hostsOf]

theorem nbrs_valid (k : Nat) (n : FNode) (hn : n.Valid k) : ∀ m ∈ nbrs k n, m.Valid k := by
  cases n with
  | core a b =>
    intro m hm
    simp only [nbrs, List.mem_map, List.mem_range] at hm
    obtain ⟨p, hp, rfl⟩ := hm
    exact ⟨hp, hn.1⟩
  | aggr p i =>
    intro m hm
    simp only [nbrs, edgesOf, List.mem_append, List.mem_map, List.mem_range] at hm
    rcases hm with ⟨j, hj, rfl⟩ | ⟨b, hb, rfl⟩
    · exact ⟨hn.1, hj⟩
    · exact ⟨hn.2, hb⟩
  | edge p j =>
    intro m hm
    simp only [nbrs, aggrsOf, hostsOf, List.mem_append, List.mem_map, List.mem_range] at hm
    rcases hm with ⟨i, hi, rfl⟩ | ⟨x, hx, rfl⟩
    · exact ⟨hn.1, hi⟩
    · exact ⟨hn.1, hn.2, hx⟩
  | host p j m =>
    intro x hx
    simp only [nbrs, List.mem_singleton] at hx
    subst hx
    exact ⟨hn.1, hn.2.1⟩

theorem nbrs_symm (k : Nat) (u v : FNode) (hu : u.Valid k) (hv : v ∈ nbrs k u) : u ∈ nbrs k v := by
  cases u with
  | core a b =>
    simp only [nbrs, List.mem_map, List.mem_range] at hv
    obtain ⟨p, hp, rfl⟩ := hv
    simp only [nbrs, edgesOf, List.mem_append, List.mem_map, List.mem_range]
    exact Or.inr ⟨b, hu.2, rfl⟩
  | aggr p i =>
    simp only [nbrs, edgesOf, List.mem_append, List.mem_map, List.mem_range] at hv
    rcases hv with ⟨j, hj, rfl⟩ | ⟨b, hb, rfl⟩
    · simp only [nbrs, aggrsOf, hostsOf, List.mem_append, List.mem_map, List.mem_range]
      exact Or.inl ⟨i, hu.2, rfl⟩
    · simp only [nbrs, List.mem_map, List.mem_range]
      exact ⟨p, hu.1, rfl⟩
  | edge p j =>
    simp only [nbrs, aggrsOf, hostsOf, List.mem_append, List.mem_map, List.mem_range] at hv
    rcases hv with ⟨i, hi, rfl⟩ | ⟨m, hm, rfl⟩
    · simp only [nbrs, edgesOf, List.mem_append, List.mem_map, List.mem_range]
      exact Or.inl ⟨j, hu.2, rfl⟩
    · simp [nbrs]
  | host p j m =>
    simp only [nbrs, List.mem_singleton] at hv
    subst hv
    simp only [nbrs, aggrsOf, hostsOf, List.mem_append, List.mem_map, List.mem_range]
    exact Or.inr ⟨m, hu.2.2, rfl⟩

theorem nbrs_nodup (k : Nat) (n : FNode) : (nbrs k n).Nodup := by
  cases n with
  | core a b =>
    simp only [nbrs]
    exact List.Nodup.map (fun x y e => by cases e; rfl) List.nodup_range
  | aggr p i =>
    simp only [nbrs, edgesOf]
    rw [List.nodup_append]
    refine ⟨List.Nodup.map (fun x y e => by cases e; rfl) List.nodup_range,
      List.Nodup.map (fun x y e => by cases e; rfl) List.nodup_range, ?_⟩
    intro a ha b hb
    simp only [List.mem_map] at ha hb
    obtain ⟨_, _, rfl⟩ := ha
    obtain ⟨_, _, rfl⟩ := hb
    simp
  | edge p j =>
    simp only [nbrs, aggrsOf, hostsOf]
    rw [List.nodup_append]
    refine ⟨List.Nodup.map (fun x y e => by cases e; rfl) List.nodup_range,
      List.Nodup.map (fun x y e => by cases e; rfl) List.nodup_range, ?_⟩
    intro a ha b hb
    simp only [List.mem_map] at ha hb
    obtain ⟨_, _, rfl⟩ := ha
    obtain ⟨_, _, rfl⟩ := hb
    simp
  | host p j m => simp [nbrs]

/-- hosts attached to an edge switch -/
theorem edge_hosts (k p j : Nat) :
    ((nbrs k (.edge p j)).filter fun n => n.layer = .leaf) = hostsOf k p j := by
  simp only [nbrs, List.filter_append, filter_of_layer _ _ .leaf (layer_aggrsOf k p),
    filter_of_layer _ _ .leaf (layer_hostsOf k p j)]
  simp

/-! ### the fat tree as a `Graph` -/

theorem dget_graph (h : Nat) (n : FNode) (hn : n ∈ nodes (2 * h)) :
    dget (graph (2 * h)) (n.num (2 * h)) = some ((nbrs (2 * h) n).map (FNode.num (2 * h))) := by
  unfold graph
  have inj := num_injOn h
  generalize nodes (2 * h) = L at hn inj
  induction L with
  | nil => simp at hn
  | cons x r ih =>
    by_cases e : x.num (2 * h) = n.num (2 * h)
    · have : x = n := inj x List.mem_cons_self n hn e
      subst this
      simp [dget]
    · simp only [List.map_cons, dget, if_neg e]
      rcases List.mem_cons.mp hn with rfl | hr
      · exact absurd rfl e
      · exact ih hr (fun a ha b hb => inj a (List.mem_cons_of_mem _ ha) b (List.mem_cons_of_mem _ hb))

theorem dget_graph_some (h : Nat) (i : Nat) (ns : List Nat) (hd : dget (graph (2 * h)) i = some ns) :
    ∃ n ∈ nodes (2 * h), n.num (2 * h) = i ∧ ns = (nbrs (2 * h) n).map (FNode.num (2 * h)) := by
  have hm := dget_mem _ _ _ hd
  unfold graph at hm
  obtain ⟨n, hn, e⟩ := List.mem_map.mp hm
  cases e
  exact ⟨n, hn, rfl, rfl⟩

/-- the fat tree's neighbour lists (as id lists) have no duplicates: `ports_bijective` and `fib_walk` apply to it -/
theorem graph_ok (h : Nat) : GraphOK (graph (2 * h)) := by
  intro i ns hd
  obtain ⟨n, hn, _, rfl⟩ := dget_graph_some h i ns hd
  apply List.Nodup.map_on _ (nbrs_nodup _ n)
  intro a ha b hb e
  have hv := (mem_nodes _ n).mp hn
  exact num_injOn h a ((mem_nodes _ a).mpr (nbrs_valid _ n hv a ha)) b ((mem_nodes _ b).mpr (nbrs_valid _ n hv b hb)) e

theorem graph_degree_le (h : Nat) : ∀ i ns, dget (graph (2 * h)) i = some ns → ns.length ≤ 2 * h := by
  intro i ns hd
  obtain ⟨n, hn, _, rfl⟩ := dget_graph_some h i ns hd
  have hv := (mem_nodes _ n).mp hn
  have hh : 2 * h / 2 = h := by omega
  rw [List.length_map, nbrs_length]
  cases n with
  | core a b => simp
  | aggr p i => simp only [hh]; omega
  | edge p j => simp only [hh]; omega
  | host p j m =>
    have := hv.1
    simp only; omega

end FatTree
