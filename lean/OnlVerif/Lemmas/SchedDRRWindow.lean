import Mathlib.Tactic.FieldSimp
import Mathlib.Tactic.Ring
import OnlVerif.Lemmas.SchedDRRFair
/-!
# DRR: reachable states are `Good`; windows in which two classes stay backlogged; the fairness arithmetic
-/

namespace DRR
open MQ

/-! ### the credit keys never change -/

theorem dsettles_dkeys (cfg : Cfg ℚ) (s s' : St) (hs : DSettles cfg s s') :
    s'.ctl.deficit.map (·.1) = s.ctl.deficit.map (·.1) := by
  induction hs with
  | topGo s s' _ _ _ ih => exact ih
  | topBlock s _ _ => unfold blockOnToken; split <;> rfl
  | topSpin s s' _ _ _ _ ih => exact ih
  | roundEnd s i s' _ _ _ ih => exact ih
  | visitAdd s i cls n d q s' _ _ _ hd _ _ ih =>
    rw [ih]; exact keys_setKey_present _ _ _ _ hd
  | visitSkip s i cls n s' _ _ _ _ ih => exact ih
  | innerExit s i cls n d s' _ _ _ _ _ ih => exact ih
  | innerGet s i cls n d s' _ _ _ _ _ _ hg =>
    unfold issueGet at hg
    split at hg
    · simp only [Except.ok.injEq] at hg; subst hg; rfl
    · cases hg
  | takeSend s i cls n d p _ _ _ _ _ _ _ _ => rfl
  | takePark s i cls n d p s' _ _ _ _ _ _ _ _ _ ih => exact ih

theorem dtrans_dkeys (cfg : Cfg ℚ) (s s' : St) (a : MAct ℚ) (o : MOut ℚ) (ht : DTrans cfg s a s' o) :
    s'.ctl.deficit.map (·.1) = s.ctl.deficit.map (·.1) := by
  cases ht with
  | init _ _ hs => have := dsettles_dkeys cfg _ s' hs; exact this
  | put p cls n _ _ =>
    have : ∀ (t : St), (enqueue (countIn (postToken t) p) cls p).ctl = t.ctl := by
      intro t; unfold postToken; split <;> rfl
    rw [this]
  | tokenHandoff n _ _ => rfl
  | wake _ _ hs => have := dsettles_dkeys cfg _ s' hs; exact this
  | resumeSend cls p i d _ _ _ _ _ => rfl
  | resumePark cls p i d _ _ _ _ _ _ _ hs => have := dsettles_dkeys cfg _ s' hs; exact this
  | sendInit p _ => rfl
  | sendFire p due _ _ => rfl
  | sendDone p i cls n d _ _ _ _ hd hs =>
    rw [dsettles_dkeys cfg _ s' hs]
    show (book s.ctl cls d n p).deficit.map (·.1) = _
    rw [book_deficit]; exact keys_setKey_present _ _ _ _ hd
  | tickIdle t _ _ _ => rfl
  | tickBusy t p due _ _ _ => rfl
  | sample inc => rfl

theorem lookup_of_mem_keys {β : Type} (m : List (Nat × β)) (c : Nat) (h : c ∈ m.map (·.1)) : ∃ v, lookup m c = some v := by
  induction m with
  | nil => simp at h
  | cons a r ih =>
    obtain ⟨k1, v1⟩ := a
    by_cases hk : k1 = c
    · exact ⟨v1, by simp [lookup, hk]⟩
    · simp only [List.map_cons, List.mem_cons] at h
      rcases h with h | h
      · exact absurd h.symm hk
      · obtain ⟨v, hv⟩ := ih h
        exact ⟨v, by simp [lookup, hk, hv]⟩

theorem mem_keys_of_lookup {β : Type} (m : List (Nat × β)) (c : Nat) (v : β) (h : lookup m c = some v) : c ∈ m.map (·.1) := by
  induction m with
  | nil => simp [lookup] at h
  | cons a r ih =>
    obtain ⟨k1, v1⟩ := a
    by_cases hk : k1 = c
    · simp [hk]
    · simp only [lookup, hk, if_false] at h
      simp [ih h]

/-! ### while a sender exists the loop waits at `sent i` -/

def TxPc (s : St) : Prop := ∀ p, inTx s p → ∃ i, s.ctl.pc = .sent i

theorem dsettles_txpc (cfg : Cfg ℚ) (s s' : St) (hs : DSettles cfg s s') (hno : ∀ p, ¬ inTx s p) : TxPc s' := by
  induction hs with
  | topGo s s' _ _ _ ih => exact ih hno
  | topBlock s _ _ =>
    intro p htx
    exfalso
    unfold blockOnToken at htx
    split at htx <;> (rcases htx with h1 | ⟨_, h1⟩ | h1 <;> cases h1)
  | topSpin s s' _ _ _ _ ih => exact ih hno
  | roundEnd s i s' _ _ _ ih => exact ih hno
  | visitAdd s i cls n d q s' _ _ _ _ _ _ ih => exact ih hno
  | visitSkip s i cls n s' _ _ _ _ ih => exact ih hno
  | innerExit s i cls n d s' _ _ _ _ _ ih => exact ih hno
  | innerGet s i cls n d s' _ _ _ _ _ _ hg =>
    unfold issueGet at hg
    split at hg
    · simp only [Except.ok.injEq] at hg; subst hg
      intro p htx
      rcases htx with h1 | ⟨_, h1⟩ | h1 <;> cases h1
    · cases hg
  | takeSend s i cls n d p _ _ _ _ _ _ _ _ => exact fun _ _ => ⟨i, rfl⟩
  | takePark s i cls n d p s' _ _ _ _ _ _ _ _ _ ih => exact ih hno

theorem dtrans_txpc (cfg : Cfg ℚ) (s s' : St) (a : MAct ℚ) (o : MOut ℚ) (ht : DTrans cfg s a s' o) (h : TxPc s) :
    TxPc s' := by
  have norun : ∀ (t : St), t.phase = .running → ∀ p, ¬ inTx t p := by
    intro t ht p htx
    rcases htx with h1 | ⟨_, h1⟩ | h1 <;> rw [ht] at h1 <;> cases h1
  cases ht with
  | init _ _ hs => exact dsettles_txpc cfg _ s' hs (norun _ rfl)
  | put p cls n _ _ =>
    have hctl : ∀ (t : St), (enqueue (countIn (postToken t) p) cls p).phase = t.phase ∧
        (enqueue (countIn (postToken t) p) cls p).ctl = t.ctl := by
      intro t; unfold postToken; split <;> exact ⟨rfl, rfl⟩
    obtain ⟨e1, e2⟩ := hctl { s with ctl := { s.ctl with classCount := setKey s.ctl.classCount cls (n + 1) } }
    intro q htx
    rw [e2]
    exact h q (by simpa [inTx, e1] using htx)
  | tokenHandoff n _ _ => intro p htx; rcases htx with h1 | ⟨_, h1⟩ | h1 <;> cases h1
  | wake _ _ hs => exact dsettles_txpc cfg _ s' hs (norun _ rfl)
  | resumeSend cls p i d _ _ _ _ _ => exact fun _ _ => ⟨i, rfl⟩
  | resumePark cls p i d _ _ _ _ _ _ _ hs => exact dsettles_txpc cfg _ s' hs (norun _ rfl)
  | sendInit p hp => exact fun _ _ => h p (Or.inl hp)
  | sendFire p due hp _ => exact fun _ _ => h p (Or.inr (Or.inl ⟨due, hp⟩))
  | sendDone p i cls n d _ _ _ _ _ hs => exact dsettles_txpc cfg _ s' hs (norun _ rfl)
  | tickIdle t _ h2 _ => intro p htx; exact h p htx
  | tickBusy t p due _ h2 _ => intro q htx; exact h q htx
  | sample inc => exact h

/-! ### reachable states -/

/-- every packet offered is at most `L` bytes -/
def ActOk (L : ℚ) (a : MAct ℚ) : Prop := ∀ p, a = .put p → (p.size : ℚ) ≤ L

structure Good (cfg : Cfg ℚ) (L : ℚ) (s : St) : Prop where
  inv : Inv (sched cfg) s
  small : ∀ c, ∀ p ∈ heldC (sched cfg) s c, (p.size : ℚ) ≤ L
  credit : Credit cfg L s
  ledger : LedgerK cfg s.ctl
  dkeys : s.ctl.deficit.map (·.1) = cfg.weights.map (·.1)
  txpc : TxPc s

theorem good_step (cfg : Cfg ℚ) (L : ℚ) (hL : 0 < L) (hq : ∀ cls q, quantum cfg cls = some q → 0 < q)
    (s s' : St) (a : MAct ℚ) (o : MOut ℚ) (h : Good cfg L s) (ha : ActOk L a)
    (hs : step (sched cfg) s a = .ok (s', o)) : Good cfg L s' := by
  have hi := step_inv (sched cfg) (DRR.lawful cfg) s s' a o h.inv hs
  have ht := step_dtrans cfg s s' a o hs
  have hsz : ∀ c p, s.phase = .pktHanded c p → (p.size : ℚ) ≤ L := by
    intro c p hp
    apply h.small c p
    have := h.inv.handClass c p hp
    simp [heldC, inHand, hp, this]
  refine ⟨hi.1, ?_, dtrans_credit cfg L hL hq s s' a o ht h.credit hsz, (dtrans_fair cfg L s s' a o ht h.credit h.ledger).1,
    by rw [dtrans_dkeys cfg s s' a o ht]; exact h.dkeys, dtrans_txpc cfg s s' a o ht h.txpc⟩
  intro c p hp
  have e := hi.2 c
  have hm : p ∈ leftC (sched cfg) o c ++ heldC (sched cfg) s' c := List.mem_append_right _ hp
  rw [← e] at hm
  rcases List.mem_append.mp hm with h1 | h1
  · exact h.small c p h1
  · cases a with
    | put q =>
      simp only [enteredC] at h1
      split at h1
      · simp only [List.mem_singleton] at h1; subst h1; exact ha p rfl
      · cases h1
    | _ => simp [enteredC] at h1

theorem lookup_map_const {β γ : Type} (l : List (Nat × β)) (z : γ) (c : Nat) (v : γ)
    (h : lookup (l.map fun e => (e.1, z)) c = some v) : v = z := by
  induction l with
  | nil => simp [lookup] at h
  | cons a r ih =>
    simp only [List.map_cons, lookup] at h
    split at h
    · exact (Option.some.inj h).symm
    · exact ih h

theorem good_init (cfg : Cfg ℚ) (L : ℚ) (hn : (cfg.weights.map (·.1)).Nodup) (t0 : ℚ) :
    Good cfg L (MQ.init (ctl0 cfg) t0 (counts0 cfg)) := by
  have hz : ∀ e ∈ counts0 cfg, e.2 = 0 := by
    intro e he
    simp only [counts0, List.mem_map] at he
    obtain ⟨x, _, rfl⟩ := he; rfl
  have h0 := init_inv (sched cfg) (ctl0 cfg) t0 (counts0 cfg) hz
  have hdz : ∀ c v, lookup (ctl0 cfg : Ctl ℚ).deficit c = some v → v = 0 := by
    intro c v hv
    have : v = Num.zero := lookup_map_const cfg.weights (Num.zero : ℚ) c v (by simpa [ctl0] using hv)
    rw [this, zero_eq']
  have hcz : ∀ c v, lookup (ctl0 cfg : Ctl ℚ).classCount c = some v → v = 0 :=
    fun c v hv => lookup_map_const cfg.weights (0 : Int) c v (by simpa [ctl0] using hv)
  refine ⟨h0.1, fun c p hp => (by rw [h0.2 c] at hp; cases hp), ?_, ?_, ?_,
    fun p htx => (by rcases htx with h1 | ⟨_, h1⟩ | h1 <;> cases h1)⟩
  · refine ⟨?_, ?_, ?_, ?_, ?_, ?_, ?_, ?_, ?_⟩
    · simpa [MQ.init, ctl0, List.map_map, Function.comp_def] using hn
    · intro c d hd; rw [hdz c d hd]
    · intro c d q _ hk; simp [MQ.init, ctl0, curKey] at hk
    · intro c d hd _; left; rw [hdz c d hd]
    · intro c n d _ hd _; rw [hdz c d hd]
    · intro i p c d hx; simp [MQ.init, ctl0] at hx
    · intro c p hp; simp [MQ.init, lookupD, lookup] at hp
    · intro c p i hx; cases hx
    · intro i p hx; simp [MQ.init, ctl0] at hx
  · intro c d q hd _
    rw [hdz c d hd]
    simp [MQ.init, ctl0, cnt, lookup, acc, zero_eq']
  · simp [MQ.init, ctl0, List.map_map, Function.comp_def]

/-- the state reached by an admissible run with packets of at most `L` bytes is `Good` -/
theorem good_run (cfg : Cfg ℚ) (L : ℚ) (hL : 0 < L) (hq : ∀ cls q, quantum cfg cls = some q → 0 < q)
    (as : List (MAct ℚ)) (s s' : St) (ins outs : List MPkt) (h : Good cfg L s) (ha : ∀ a ∈ as, ActOk L a)
    (hr : runActs (sched cfg) s as = .ok (s', ins, outs)) : Good cfg L s' := by
  induction as generalizing s ins outs with
  | nil =>
    simp only [runActs, Except.ok.injEq, Prod.mk.injEq] at hr
    obtain ⟨rfl, _, _⟩ := hr; exact h
  | cons a as ih =>
    simp only [runActs] at hr
    split at hr
    · cases hr
    · rename_i s1 o h1
      split at hr
      · cases hr
      · rename_i s2 ins2 outs2 h2
        simp only [Except.ok.injEq, Prod.mk.injEq] at hr
        obtain ⟨rfl, _, _⟩ := hr
        exact ih s1 ins2 outs2 (good_step cfg L hL hq s s1 a o h (ha a (by simp)) h1)
          (fun a' ha' => ha a' (List.mem_cons_of_mem _ ha')) h2

/-! ### windows -/

/-- entries `ia`, `ib` of `class_count` are the classes `a`, `b`, both backlogged -/
def Both (ia ib a b : Nat) (s : St) : Prop :=
  ∃ na nb, s.ctl.classCount[ia]? = some (a, na) ∧ s.ctl.classCount[ib]? = some (b, nb) ∧ 0 < na ∧ 0 < nb

/-- a stretch of an admissible run in every state of which `P` holds; the outputs are collected -/
inductive Window (cfg : Cfg ℚ) (L : ℚ) (P : St → Prop) : St → List (MOut ℚ) → St → Prop
  | nil (s : St) : P s → Window cfg L P s [] s
  | cons (s : St) (a : MAct ℚ) (s1 : St) (o : MOut ℚ) (outs : List (MOut ℚ)) (s2 : St) : P s → ActOk L a →
      step (sched cfg) s a = .ok (s1, o) → Window cfg L P s1 outs s2 → Window cfg L P s (o :: outs) s2

theorem window_head (cfg : Cfg ℚ) (L : ℚ) (P : St → Prop) (s s2 : St) (outs : List (MOut ℚ))
    (h : Window cfg L P s outs s2) : P s := by
  cases h <;> assumption

/-- bytes of class `c` among the departures in a list of outputs -/
def bytesOut (cfg : Cfg ℚ) (c : Nat) (outs : List (MOut ℚ)) : Int := (outs.map fun o => depB cfg o c).sum

theorem window_fair (cfg : Cfg ℚ) (L : ℚ) (hL : 0 < L) (hq : ∀ cls q, quantum cfg cls = some q → 0 < q)
    (ia ib a b : Nat) (s1 s2 : St) (outs : List (MOut ℚ)) (hw : Window cfg L (Both ia ib a b) s1 outs s2)
    (hg : Good cfg L s1) :
    Good cfg L s2 ∧ Both ia ib a b s2 ∧
    psi s2.ctl ia a - psi s2.ctl ib b = psi s1.ctl ia a - psi s1.ctl ib b ∧
    acc s2.ctl.forfeited a = acc s1.ctl.forfeited a ∧ acc s2.ctl.forfeited b = acc s1.ctl.forfeited b ∧
    (∀ c, cnt s2.ctl.sentBytes c + pend cfg s2 c = cnt s1.ctl.sentBytes c + pend cfg s1 c + bytesOut cfg c outs) := by
  induction hw with
  | nil s hp => exact ⟨hg, hp, rfl, rfl, rfl, fun c => by simp [bytesOut]⟩
  | cons s act s1 o outs s2 hp ha hs hw ih =>
    have hg1 := good_step cfg L hL hq s s1 act o hg ha hs
    obtain ⟨h1, h2, h3, h4, h5, h6⟩ := ih hg1
    have hf := dtrans_fair cfg L s s1 act o (step_dtrans cfg s s1 act o hs) hg.credit hg.ledger
    obtain ⟨na, nb, hia, hib, hna, hnb⟩ := window_head cfg L _ s1 s2 outs hw
    have hpa : Pos s1.ctl a := ⟨na, lookup_of_getElem _ hg1.credit.nodup ia a na hia, hna⟩
    have hpb : Pos s1.ctl b := ⟨nb, lookup_of_getElem _ hg1.credit.nodup ib b nb hib, hnb⟩
    refine ⟨h1, h2, ?_, ?_, ?_, fun c => ?_⟩
    · rw [h3]; exact hf.2.1 ia ib a b na nb hia hib hna hnb
    · rw [h4]; exact hf.2.2.1 a hpa
    · rw [h5]; exact hf.2.2.1 b hpb
    · rw [h6 c, hf.2.2.2 c]; simp only [bytesOut, List.map_cons, List.sum_cons]; omega

/-! ### the arithmetic -/

theorem fair_arith (Qa Qb L Ba Bb va1 va2 vb1 vb2 pa1 pa2 pb1 pb2 da1 da2 db1 db2 na1 na2 nb1 nb2 Sa1 Sa2 Sb1 Sb2 Fa Fb : ℚ)
    (hQa : 0 < Qa) (hQb : 0 < Qb) (hL : 0 < L)
    (la1 : Sa1 + da1 = Qa * va1 - Fa) (la2 : Sa2 + da2 = Qa * va2 - Fa)
    (lb1 : Sb1 + db1 = Qb * vb1 - Fb) (lb2 : Sb2 + db2 = Qb * vb2 - Fb)
    (aa : Sa2 + na2 = Sa1 + na1 + Ba) (ab : Sb2 + nb2 = Sb1 + nb1 + Bb)
    (hpsi : (va2 - pa2) - (vb2 - pb2) = (va1 - pa1) - (vb1 - pb1))
    (hpa1 : 0 ≤ pa1 ∧ pa1 ≤ 1) (hpa2 : 0 ≤ pa2 ∧ pa2 ≤ 1) (hpb1 : 0 ≤ pb1 ∧ pb1 ≤ 1) (hpb2 : 0 ≤ pb2 ∧ pb2 ≤ 1)
    (hda1 : 0 ≤ da1 ∧ da1 < Qa + L) (hda2 : 0 ≤ da2 ∧ da2 < Qa + L)
    (hdb1 : 0 ≤ db1 ∧ db1 < Qb + L) (hdb2 : 0 ≤ db2 ∧ db2 < Qb + L)
    (hna1 : 0 ≤ na1 ∧ na1 ≤ L) (hna2 : 0 ≤ na2 ∧ na2 ≤ L) (hnb1 : 0 ≤ nb1 ∧ nb1 ≤ L) (hnb2 : 0 ≤ nb2 ∧ nb2 ≤ L) :
    |Ba / Qa - Bb / Qb| < 4 + 3 * L * (1 / Qa + 1 / Qb) := by
  have hBa : Ba = Qa * (va2 - va1) - (da2 - da1) + (na2 - na1) := by linarith
  have hBb : Bb = Qb * (vb2 - vb1) - (db2 - db1) + (nb2 - nb1) := by linarith
  set u := 1 / Qa with hu
  set w := 1 / Qb with hw
  have hupos : 0 < u := by rw [hu]; exact one_div_pos.mpr hQa
  have hwpos : 0 < w := by rw [hw]; exact one_div_pos.mpr hQb
  have hQu : Qa * u = 1 := by rw [hu]; field_simp
  have hQw : Qb * w = 1 := by rw [hw]; field_simp
  have eA : Ba / Qa = (va2 - va1) - (da2 - da1) * u + (na2 - na1) * u := by
    rw [hBa, div_eq_mul_one_div, ← hu]
    have : (Qa * (va2 - va1) - (da2 - da1) + (na2 - na1)) * u =
        (Qa * u) * (va2 - va1) - (da2 - da1) * u + (na2 - na1) * u := by ring
    rw [this, hQu, one_mul]
  have eB : Bb / Qb = (vb2 - vb1) - (db2 - db1) * w + (nb2 - nb1) * w := by
    rw [hBb, div_eq_mul_one_div, ← hw]
    have : (Qb * (vb2 - vb1) - (db2 - db1) + (nb2 - nb1)) * w =
        (Qb * w) * (vb2 - vb1) - (db2 - db1) * w + (nb2 - nb1) * w := by ring
    rw [this, hQw, one_mul]
  -- bounds on the products
  have b1 : (da2 - da1) * u < 1 + L * u := by
    have : (da2 - da1) * u < (Qa + L) * u := mul_lt_mul_of_pos_right (by linarith [hda1.1, hda2.2]) hupos
    linarith [this, hQu, add_mul Qa L u]
  have b2 : -(1 + L * u) < (da2 - da1) * u := by
    have : (-(Qa + L)) * u < (da2 - da1) * u := mul_lt_mul_of_pos_right (by linarith [hda2.1, hda1.2]) hupos
    linarith [this, hQu, add_mul Qa L u, neg_mul (Qa + L) u]
  have b3 : (db2 - db1) * w < 1 + L * w := by
    have : (db2 - db1) * w < (Qb + L) * w := mul_lt_mul_of_pos_right (by linarith [hdb1.1, hdb2.2]) hwpos
    linarith [this, hQw, add_mul Qb L w]
  have b4 : -(1 + L * w) < (db2 - db1) * w := by
    have : (-(Qb + L)) * w < (db2 - db1) * w := mul_lt_mul_of_pos_right (by linarith [hdb2.1, hdb1.2]) hwpos
    linarith [this, hQw, add_mul Qb L w, neg_mul (Qb + L) w]
  have c1 : (na2 - na1) * u ≤ L * u := mul_le_mul_of_nonneg_right (by linarith [hna1.1, hna2.2]) hupos.le
  have c2 : -(L * u) ≤ (na2 - na1) * u := by
    have : (-L) * u ≤ (na2 - na1) * u := mul_le_mul_of_nonneg_right (by linarith [hna2.1, hna1.2]) hupos.le
    linarith [this, neg_mul L u]
  have c3 : (nb2 - nb1) * w ≤ L * w := mul_le_mul_of_nonneg_right (by linarith [hnb1.1, hnb2.2]) hwpos.le
  have c4 : -(L * w) ≤ (nb2 - nb1) * w := by
    have : (-L) * w ≤ (nb2 - nb1) * w := mul_le_mul_of_nonneg_right (by linarith [hnb2.1, hnb1.2]) hwpos.le
    linarith [this, neg_mul L w]
  have hLu : 0 < L * u := mul_pos hL hupos
  have hLw : 0 < L * w := mul_pos hL hwpos
  have e3 : 3 * L * (u + w) = 3 * (L * u) + 3 * (L * w) := by ring
  rw [eA, eB, e3, abs_lt]
  constructor <;> linarith [hpa1.1, hpa1.2, hpa2.1, hpa2.2, hpb1.1, hpb1.2, hpb2.1, hpb2.2]

end DRR
