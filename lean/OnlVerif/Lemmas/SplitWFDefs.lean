import OnlVerif.Lemmas.SplitFuelStep
import OnlVerif.Lemmas.SplitTime
import OnlVerif.Lemmas.ResStep
/-!
# Well-scoped kernel states (C03, stage 3): definitions

A state is *well-scoped* (`WS`) when it mentions no event id that has not been allocated yet — in callback lists, kinds,
process records, agenda, request data, values, resource queues/users, shared cells and trace — and when the operands of
every condition are older than the condition.  Python code cannot break this (ids are object references: a program
cannot name a future object); model programs can (`succeed (e + 1)`), so the theorems carry the *run-level* domain
hypothesis `ScopedRun`: every id a program passes to an API call, yields or returns exists at that moment.

* `IdSt σ` — how local process states (an abstract type `σ`) hold event ids: a renaming `rn u` (by `shAt u`) and a bound
  `below n`.  `IdSt.none`: local states hold no ids (script programs).
* `valBelow n`, `excBelow`, …, `recBelow n i`, `resBelow`, `obsBelow`, `callBelow` — "every id mentioned is `< n`".
* `SB I n s` — every id mentioned anywhere in `s` is `< n`, operands of a condition are older than the condition;
  `WS I s := SB I s.events.size s`.
* `ResumeAll P`, `IntrAll`, `CbAll`, `CbsAll`, `StepAll`, `RunAll` — "`P` holds of every burst a step executes"
  (mirrors the control flow of `resume` / `deliverInterrupt` / `runCb` / `step`, as `Once.SafeStep` does);
  `ScopedBurst`, `ScopedStep`, `ScopedRun` instantiate it with the domain hypothesis.
-/

variable {σ : Type}

/-- **local process states as containers of event ids**: `rn u` renames the ids kept in a local state by `shAt u`,
`below n st` says that every id kept in `st` is `< n` -/
structure IdSt (σ : Type) where
  rn : Nat → σ → σ
  below : Nat → σ → Prop
  mono : ∀ {n m : Nat} {st : σ}, below n st → n ≤ m → below m st
  /-- renaming at or above the bound changes nothing -/
  rn_below : ∀ {n u : Nat} {st : σ}, below n st → n ≤ u → rn u st = st
  /-- a renamed local state mentions ids below the bound plus one -/
  below_rn : ∀ {n u : Nat} {st : σ}, below n st → below (n + 1) (rn u st)

/-- local states that hold no event id at all (script programs: ids live in the shared slots) -/
def IdSt.none (σ : Type) : IdSt σ where
  rn := fun _ st => st
  below := fun _ _ => True
  mono := fun _ _ => trivial
  rn_below := fun _ _ => rfl
  below_rn := fun _ => trivial

namespace SplitWF

/-! ## "every id mentioned is below `n`" -/

def valBelow (n : Nat) : Val → Prop
  | .ev e => e < n
  | .cv keys => ∀ k ∈ keys, k < n
  | .preempted b r _ => (∀ p, b = some p → p < n) ∧ r < n
  | _ => True

def excBelow (n : Nat) (x : Exc) : Prop := ∀ v ∈ x.args, valBelow n v

def outBelow (n : Nat) : Outcome → Prop
  | .ok v => valBelow n v
  | .fail x => excBelow n x

def cbBelow (n : Nat) : Cb → Prop
  | .resume p => p < n
  | .intr iv => iv < n
  | .check c => c < n
  | .build c => c < n
  | _ => True

/-- the kind of the record at index `i`: the operands of a condition are older than the condition -/
def kindBelow (n i : Nat) : Kind → Prop
  | .init p => p < n
  | .intr p => p < n
  | .cond _ ops => ∀ o ∈ ops, o < i
  | _ => True

def reqBelow (n : Nat) (rq : ReqData ℚ) : Prop := (∀ p, rq.proc = some p → p < n) ∧ rq.releaseOf < n

structure recBelow (n i : Nat) (r : EvRec ℚ) : Prop where
  kind : kindBelow n i r.kind
  cbs : ∀ l, r.cbs = some l → ∀ cb ∈ l, cbBelow n cb
  out : ∀ o, r.out = some o → outBelow n o
  req : ∀ rq, r.req = some rq → reqBelow n rq

structure resBelow (n : Nat) (x : ResRec) : Prop where
  putQ : ∀ e ∈ x.putQ, e < n
  getQ : ∀ e ∈ x.getQ, e < n
  users : ∀ e ∈ x.users, e < n

def resumeBelow (n : Nat) : Resume → Prop
  | .start => True
  | .value v => valBelow n v
  | .exc x => excBelow n x

def replyBelow (n : Nat) : Reply → Prop
  | .ev e => e < n
  | .unit => True
  | .err x => excBelow n x
  | .val v => valBelow n v

def obsBelow (n : Nat) : Obs ℚ → Prop
  | .resumed p r _ => p < n ∧ resumeBelow n r
  | .log p _ v _ => p < n ∧ valBelow n v
  | .probe _ e o _ => e < n ∧ outBelow n o
  | .callErr p x _ => p < n ∧ excBelow n x
  | .ended p o _ => p < n ∧ outBelow n o

def termBelow (I : IdSt σ) (n : Nat) : Term σ → Prop
  | .yielded e st => e < n ∧ I.below n st
  | .returned v => valBelow n v
  | .raised x => excBelow n x

/-- **the domain hypothesis on one API call**: the ids it names exist.  (No condition on the target of `interrupt`,
`probe`, `cancel`: naming a non-existent id there has no effect in the model.) -/
def callBelow (I : IdSt σ) (n : Nat) : Call ℚ σ → Prop
  | .timeout _ v => valBelow n v
  | .succeed e v => e < n ∧ valBelow n v
  | .fail e x => e < n ∧ excBelow n x
  | .spawn st => I.below n st
  | .interrupt _ cause => valBelow n cause
  | .cond _ ops => ∀ o ∈ ops, o < n
  | .release _ req => req < n
  | .log _ v => valBelow n v
  | .store _ v => valBelow n v
  | _ => True

/-- every event id mentioned anywhere in `s` is below `n`; operands of a condition are older than the condition -/
structure SB (I : IdSt σ) (n : Nat) (s : KState ℚ σ) : Prop where
  events : ∀ i, recBelow n i (s.ev i)
  agenda : ∀ q ∈ s.agenda, q.ev < n
  procs : ∀ pr ∈ s.procs, pr.1 < n ∧ (∀ t, pr.2.target = some t → t < n) ∧ I.below n pr.2.st
  active : ∀ p, s.active = some p → p < n
  trace : ∀ o ∈ s.trace.toList, obsBelow n o
  shared : ∀ kv ∈ s.shared, valBelow n kv.2
  resources : ∀ r, resBelow n (s.res r)

/-- **well-scoped state**: no id is mentioned before it is allocated -/
def WS (I : IdSt σ) (s : KState ℚ σ) : Prop := SB I s.events.size s

/-! ## "`P` holds of every burst a step executes" -/

section mirror
variable (P : EvId → σ → Resume → KState ℚ σ → Prop) (body : σ → Resume → Burst ℚ σ)

/-- mirrors `resume`: `P p st r s` holds whenever process `p` with local state `st` is resumed with `r` in state `s` -/
def ResumeAll (p : EvId) : Nat → EvId → KState ℚ σ → Prop
  | 0, _, _ => True
  | fuel + 1, e, s =>
    match s.proc? p with
    | none => True
    | some pr =>
      P p pr.st (deliver s p e).2 ((deliver s p e).1.emit (.resumed p (deliver s p e).2 (deliver s p e).1.now)) ∧
      match (runBurst p (body pr.st (deliver s p e).2)
          ((deliver s p e).1.emit (.resumed p (deliver s p e).2 (deliver s p e).1.now))).2 with
      | .yielded e' st' =>
        match register ((runBurst p (body pr.st (deliver s p e).2)
            ((deliver s p e).1.emit (.resumed p (deliver s p e).2 (deliver s p e).1.now))).1.setProc p
              { st := st', target := some e' }) p e' with
        | some _ => True
        | none => ResumeAll p fuel e' ((runBurst p (body pr.st (deliver s p e).2)
            ((deliver s p e).1.emit (.resumed p (deliver s p e).2 (deliver s p e).1.now))).1.setProc p
              { st := st', target := some e' })
      | _ => True

/-- mirrors `deliverInterrupt` -/
def IntrAll (fuel : Nat) (iv p : EvId) (s : KState ℚ σ) : Prop :=
  if s.triggered p then True else
  match s.proc? p with
  | none => True
  | some pr =>
    match pr.target with
    | some t => ResumeAll P body p fuel iv (s.eraseCb t (.resume p))
    | none => ResumeAll P body p fuel iv s

/-- mirrors `runCb` -/
def CbAll (fuel : Nat) (e : EvId) (s : KState ℚ σ) : Cb → Prop
  | .resume p => ResumeAll P body p fuel e s
  | .intr iv =>
    match (s.ev iv).kind with
    | .intr p => IntrAll P body fuel iv p s
    | _ => True
  | _ => True

/-- mirrors the callback loop of `step` -/
def CbsAll (fuel : Nat) (e : EvId) : List Cb → LoopSt ℚ σ → Prop
  | [], _ => True
  | cb :: cbs, l => CbAll P body fuel e l.s cb ∧ CbsAll fuel e cbs (runCb body fuel e l cb)

/-- `P` holds of every burst the step taken from `s` executes -/
def StepAll (fuel : Nat) (s : KState ℚ σ) : Prop :=
  match popMin s.agenda with
  | none => True
  | some (q, rest) =>
    match (s.ev q.ev).cbs with
    | none => True
    | some cbs => CbsAll P body fuel q.ev cbs { s := openEvent s q rest }

/-- … of every step of the run from `s0` -/
def RunAll (fuel : Nat) (s0 : KState ℚ σ) : Prop :=
  ∀ s, KReach body fuel s0 s → StepAll P body fuel s

end mirror

/-- every API call executed by burst `b` of process `self`, started in state `s`, names existing ids only, and so does
what the burst ends with (the yielded event and local state, the returned value, the raised exception) -/
def ScopedBurst (I : IdSt σ) (self : EvId) : Burst ℚ σ → KState ℚ σ → Prop
  | .call c k, s => callBelow I s.events.size c ∧ ScopedBurst I self (k (doCall s self c).2) (noteErr self (doCall s self c))
  | .yield e st, s => e < s.events.size ∧ I.below s.events.size st
  | .ret v, s => valBelow s.events.size v
  | .raise x, s => excBelow s.events.size x

/-- **the step taken from `s` names existing ids only** -/
def ScopedStep (I : IdSt σ) (body : σ → Resume → Burst ℚ σ) (fuel : Nat) (s : KState ℚ σ) : Prop :=
  StepAll (fun p st r s => ScopedBurst I p (body st r) s) body fuel s

/-- **the domain hypothesis on a run**: every step taken from a state reachable from `s0` names existing ids only -/
def ScopedRun (I : IdSt σ) (body : σ → Resume → Burst ℚ σ) (fuel : Nat) (s0 : KState ℚ σ) : Prop :=
  ∀ s, KReach body fuel s0 s → ScopedStep I body fuel s

end SplitWF
