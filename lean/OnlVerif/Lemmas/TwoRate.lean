import Mathlib.Tactic.FieldSimp
import OnlVerif.Lemmas.FifoAux
import OnlVerif.Lemmas.Envelope
import OnlVerif.Lemmas.Truthy
import OnlVerif.Net.TwoRate
/-! # Invariants of the TwoRateTokenBucket model -/

namespace TwoRate
open Fifo Envelope

@[simp] theorem dev_admit (c : TrCfg ℚ) : (dev c).admitPkt = admitPkt := rfl
@[simp] theorem dev_onResume (c : TrCfg ℚ) : (dev c).onResume = onResume c := rfl
@[simp] theorem dev_onFire (c : TrCfg ℚ) : (dev c).onFire = onFire c := rfl
@[simp] theorem dev_onDone (c : TrCfg ℚ) : (dev c).onDone = onDone := rfl

theorem eight : (Num.ofNat 8 : ℚ) = 8 := by
  show ((8 : ℕ) : ℚ) = 8
  norm_num

theorem refillLevel_eq (cap level rate upd now : ℚ) :
    refillLevel cap level rate upd now = min cap (level + rate * (now - upd) / 8) := by
  unfold refillLevel
  rw [Num.pymin_eq, eight]

theorem tokenWait_eq (level rate : ℚ) (p : Pkt ℚ) : tokenWait level rate p = ((p.size : ℚ) - level) * 8 / rate := by
  unfold tokenWait
  rw [eight]; rfl

/-- committed level after the refill at `now` -/
def cmOf (c : TrCfg ℚ) (d : TrSt ℚ) (now : ℚ) : ℚ := min c.cbs (d.commit + c.cir * (now - d.upd) / 8)

/-- peak level after the refill at `now` -/
def pkOf (b k pl : ℚ) (d : TrSt ℚ) (now : ℚ) : ℚ := min b (pl + k * (now - d.upd) / 8)

/-- the three outcomes with PIR -/
theorem resumePir_cases (c : TrCfg ℚ) (d : TrSt ℚ) (now : ℚ) (p : Pkt ℚ) (k b pl : ℚ) :
    (pkOf b k pl d now < p.size ∧
      resumePir c d now p k b pl = (setLevels d (cmOf c d now) (some (pkOf b k pl d now)) now, p,
        .wait (tokenWait (pkOf b k pl d now) k p))) ∨
    (¬ pkOf b k pl d now < p.size ∧ cmOf c d now < p.size ∧
      resumePir c d now p k b pl = (payPeak d (pkOf b k pl d now) now p, paint p yellow, .emit)) ∨
    (¬ pkOf b k pl d now < p.size ∧ ¬ cmOf c d now < p.size ∧
      resumePir c d now p k b pl = (payBoth d (cmOf c d now) (pkOf b k pl d now) now p, paint p green, .emit)) := by
  unfold resumePir cmOf pkOf
  simp only [refillLevel_eq]
  by_cases h1 : min b (pl + k * (now - d.upd) / 8) < (Num.ofNat p.size : ℚ)
  · left; exact ⟨h1, (by rw [if_pos h1])⟩
  · right
    rw [if_neg h1]
    by_cases h2 : min c.cbs (d.commit + c.cir * (now - d.upd) / 8) < (Num.ofNat p.size : ℚ)
    · left; exact ⟨h1, h2, (by rw [if_pos h2])⟩
    · right; exact ⟨h1, h2, (by rw [if_neg h2])⟩

/-- the two outcomes without PIR -/
theorem resumeCir_cases (c : TrCfg ℚ) (d : TrSt ℚ) (now : ℚ) (p : Pkt ℚ) :
    (cmOf c d now < p.size ∧
      resumeCir c d now p = (setLevels d (cmOf c d now) d.peak now, p, .wait (tokenWait (cmOf c d now) c.cir p))) ∨
    (¬ cmOf c d now < p.size ∧ resumeCir c d now p = (payCommit d (cmOf c d now) now p, paint p green, .emit)) := by
  unfold resumeCir cmOf
  simp only [refillLevel_eq]
  by_cases h2 : min c.cbs (d.commit + c.cir * (now - d.upd) / 8) < (Num.ofNat p.size : ℚ)
  · left; exact ⟨h2, (by rw [if_pos h2])⟩
  · right; exact ⟨h2, (by rw [if_neg h2])⟩

theorem onResume_pir (c : TrCfg ℚ) (d : TrSt ℚ) (now x y : ℚ) (p : Pkt ℚ) (k b pl : ℚ) (hk : pirOn c = some k)
    (hb : pbsOn c = some b) (hpl : d.peak = some pl) : onResume c d now x y p = resumePir c d now p k b pl := by
  unfold onResume
  simp only [hk, hb, hpl]

theorem onResume_cir (c : TrCfg ℚ) (d : TrSt ℚ) (now x y : ℚ) (p : Pkt ℚ) (hk : pirOn c = none) :
    onResume c d now x y p = resumeCir c d now p := by
  unfold onResume
  simp only [hk]

theorem onFire_pir (c : TrCfg ℚ) (d : TrSt ℚ) (now : ℚ) (n : Nat) (p : Pkt ℚ) (k : ℚ) (hk : pirOn c = some k) :
    onFire c d now n p = (fireRed d now p, paint p red, .emit) := by
  unfold onFire
  simp only [hk]

theorem onFire_cir (c : TrCfg ℚ) (d : TrSt ℚ) (now : ℚ) (n : Nat) (p : Pkt ℚ) (hk : pirOn c = none) :
    onFire c d now n p = (fireYellow d now p, paint p yellow, .emit) := by
  unfold onFire
  simp only [hk]

theorem onResume_id (c : TrCfg ℚ) (d : TrSt ℚ) (now x y : ℚ) (p : Pkt ℚ) : (onResume c d now x y p).2.1.id = p.id := by
  unfold onResume
  cases hk : pirOn c with
  | none =>
    simp only
    rcases resumeCir_cases c d now p with ⟨_, h⟩ | ⟨_, h⟩ <;> (rw [h]; try rfl)
  | some k =>
    simp only
    cases hb : pbsOn c with
    | none => rfl
    | some b =>
      cases hpl : d.peak with
      | none => rfl
      | some pl =>
        simp only
        rcases resumePir_cases c d now p k b pl with ⟨_, h⟩ | ⟨_, _, h⟩ | ⟨_, _, h⟩ <;> rw [h] <;> rfl

theorem idPreserving (c : TrCfg ℚ) : IdPreserving (dev c) := by
  refine ⟨?_, ?_, ?_⟩
  · intro s now w p; rfl
  · intro s now x y p; exact onResume_id c s now x y p
  · intro s now k p
    simp only [dev_onFire, onFire]
    cases pirOn c <;> rfl

/-- the configurations the property speaks about: positive rates, non-negative bucket sizes, and a PBS
(necessarily non-zero: `assert self.pbs`) whenever a PIR is given -/
structure Good (c : TrCfg ℚ) : Prop where
  cir : 0 < c.cir
  cbs : 0 ≤ c.cbs
  pir : ∀ k, pirOn c = some k → 0 < k ∧ ∃ b, pbsOn c = some b ∧ 0 < b

/-- (instant, size) of every debit -/
def alls (l : List (ℚ × ℕ × ℕ)) : List (ℚ × ℕ) := l.map (fun e => (e.1, e.2.1))

/-- (instant, size) of the debits of green packets -/
def greens (l : List (ℚ × ℕ × ℕ)) : List (ℚ × ℕ) := alls (l.filter (fun e => e.2.2 == green))

@[simp] theorem alls_cons (t : ℚ) (s col : ℕ) (l : List (ℚ × ℕ × ℕ)) : alls ((t, s, col) :: l) = (t, s) :: alls l := rfl
theorem greens_green (t : ℚ) (s : ℕ) (l : List (ℚ × ℕ × ℕ)) : greens ((t, s, green) :: l) = (t, s) :: greens l := by
  simp [greens, alls, green]
theorem greens_yellow (t : ℚ) (s : ℕ) (l : List (ℚ × ℕ × ℕ)) : greens ((t, s, yellow) :: l) = greens l := by
  simp [greens, alls, green, yellow]
theorem greens_red (t : ℚ) (s : ℕ) (l : List (ℚ × ℕ × ℕ)) : greens ((t, s, red) :: l) = greens l := by
  simp [greens, alls, green, red]

/-- the invariant, over the clock, the device state and the server's timeout -/
structure P (c : TrCfg ℚ) (now : ℚ) (d : TrSt ℚ) (tx : Option (Pkt ℚ × ℚ × Nat)) : Prop where
  updLe : d.upd ≤ now
  c0 : 0 ≤ d.commit
  cB : d.commit ≤ c.cbs
  pk : ∀ k, pirOn c = some k → ∃ pl, d.peak = some pl ∧ 0 ≤ pl
  wPir : ∀ p due n k, tx = some (p, due, n) → pirOn c = some k →
    ∃ pl, d.peak = some pl ∧ due = d.upd + ((p.size : ℚ) - pl) * 8 / k ∧ pl < p.size
  wCir : ∀ p due n, tx = some (p, due, n) → pirOn c = none →
    due = d.upd + ((p.size : ℚ) - d.commit) * 8 / c.cir ∧ d.commit < p.size
  /-- green traffic against (CIR, CBS) -/
  gCred : Cred c.cbs c.cir d.commit d.upd (greens d.log)
  gConf : Conforms c.cbs c.cir (greens d.log)
  /-- all traffic against (PIR, PBS) -/
  sPir : ∀ k b, pirOn c = some k → pbsOn c = some b →
    ∃ pl, d.peak = some pl ∧ Cred b k pl d.upd (alls d.log) ∧ Conforms b k (alls d.log)
  /-- all traffic against (CIR, CBS) when no PIR is given -/
  sCir : pirOn c = none → Cred c.cbs c.cir d.commit d.upd (alls d.log) ∧ Conforms c.cbs c.cir (alls d.log)

theorem cm_facts (c : TrCfg ℚ) (hg : Good c) (now : ℚ) (d : TrSt ℚ) (h1 : d.upd ≤ now) (h2 : 0 ≤ d.commit) :
    0 ≤ cmOf c d now ∧ cmOf c d now ≤ c.cbs := by
  unfold cmOf
  refine ⟨le_min hg.cbs ?_, min_le_left _ _⟩
  have : 0 ≤ c.cir * (now - d.upd) := mul_nonneg (le_of_lt hg.cir) (by linarith)
  linarith [div_nonneg this (by norm_num : (0 : ℚ) ≤ 8)]

theorem pk_facts (b k pl now : ℚ) (d : TrSt ℚ) (hb : 0 < b) (hk : 0 < k) (h1 : d.upd ≤ now) (h2 : 0 ≤ pl) :
    0 ≤ pkOf b k pl d now := by
  unfold pkOf
  refine le_min (le_of_lt hb) ?_
  have : 0 ≤ k * (now - d.upd) := mul_nonneg (le_of_lt hk) (by linarith)
  linarith [div_nonneg this (by norm_num : (0 : ℚ) ≤ 8)]

/-- with PIR: a packet both / only the peak bucket covers is debited at once (green / yellow) -/
theorem P_pay_pir (c : TrCfg ℚ) (hg : Good c) (now : ℚ) (d d' : TrSt ℚ) (p : Pkt ℚ) (k b pl : ℚ) (col : ℕ)
    (h : P c now d none) (hk : pirOn c = some k) (hb : pbsOn c = some b) (hpl : d.peak = some pl)
    (hs : ¬ pkOf b k pl d now < p.size)
    (hcol : (col = green ∧ ¬ cmOf c d now < p.size ∧ d'.commit = cmOf c d now - p.size) ∨
            (col = yellow ∧ d'.commit = 0))
    (e2 : d'.peak = some (pkOf b k pl d now - p.size)) (e3 : d'.upd = now) (e4 : d'.log = (now, p.size, col) :: d.log) :
    P c now d' none := by
  obtain ⟨hk0, b', hb', hb0⟩ := hg.pir k hk
  rw [hb] at hb'; cases hb'
  obtain ⟨c0, cB⟩ := cm_facts c hg now d h.updLe h.c0
  have hs' : (p.size : ℚ) ≤ pkOf b k pl d now := not_lt.mp hs
  obtain ⟨pl', hpl', spc, spf⟩ := h.sPir k b hk hb
  rw [hpl] at hpl'; cases hpl'
  have hsd := bucket_debit (now := now) p.size spc spf hs'
  refine ⟨(by rw [e3]), ?_, ?_, ?_, fun _ _ _ _ hx => (by cases hx), fun _ _ _ hx => (by cases hx), ?_, ?_, ?_, ?_⟩
  · rcases hcol with ⟨_, hc, e1⟩ | ⟨_, e1⟩
    · rw [e1]; linarith [not_lt.mp hc]
    · rw [e1]
  · rcases hcol with ⟨_, hc, e1⟩ | ⟨_, e1⟩
    · rw [e1]; linarith [(Nat.cast_nonneg p.size : (0 : ℚ) ≤ p.size)]
    · rw [e1]; exact hg.cbs
  · intro k' _
    exact ⟨_, e2, (by linarith)⟩
  · rcases hcol with ⟨rfl, hc, e1⟩ | ⟨rfl, e1⟩
    · rw [e1, e3, e4, greens_green]
      exact (bucket_debit (now := now) p.size h.gCred h.gConf (not_lt.mp hc)).1
    · rw [e1, e3, e4, greens_yellow]
      exact bucket_lower h.gCred (le_of_lt hg.cir) h.updLe h.c0
  · rcases hcol with ⟨rfl, hc, e1⟩ | ⟨rfl, e1⟩
    · rw [e4, greens_green]
      exact (bucket_debit (now := now) p.size h.gCred h.gConf (not_lt.mp hc)).2
    · rw [e4, greens_yellow]; exact h.gConf
  · intro k' b' hk' hb'
    rw [hk] at hk'; cases hk'
    rw [hb] at hb'; cases hb'
    refine ⟨_, e2, ?_, ?_⟩
    · rw [e3, e4, alls_cons]; exact hsd.1
    · rw [e4, alls_cons]; exact hsd.2
  · intro hn; rw [hk] at hn; cases hn

/-- with PIR: the peak tokens are short, the server starts to wait for exactly the missing ones -/
theorem P_wait_pir (c : TrCfg ℚ) (hg : Good c) (now : ℚ) (d d' : TrSt ℚ) (p : Pkt ℚ) (k b pl : ℚ)
    (h : P c now d none) (hk : pirOn c = some k) (hb : pbsOn c = some b) (hpl : d.peak = some pl)
    (hs : pkOf b k pl d now < p.size)
    (e1 : d'.commit = cmOf c d now) (e2 : d'.peak = some (pkOf b k pl d now)) (e3 : d'.upd = now) (e4 : d'.log = d.log) :
    P c now d' (some (p, now + tokenWait (pkOf b k pl d now) k p, 0)) := by
  obtain ⟨hk0, b', hb', hb0⟩ := hg.pir k hk
  rw [hb] at hb'; cases hb'
  obtain ⟨c0, cB⟩ := cm_facts c hg now d h.updLe h.c0
  obtain ⟨pl', hpl', pl0⟩ := h.pk k hk
  rw [hpl] at hpl'; cases hpl'
  obtain ⟨pl', hpl', spc, spf⟩ := h.sPir k b hk hb
  rw [hpl] at hpl'; cases hpl'
  refine ⟨(by rw [e3]), (by rw [e1]; exact c0), (by rw [e1]; exact cB), ?_, ?_, ?_, ?_, (by rw [e4]; exact h.gConf), ?_, ?_⟩
  · intro k' _
    exact ⟨_, e2, pk_facts b k pl now d hb0 hk0 h.updLe pl0⟩
  · intro q due n k' hq hk'
    rw [hk] at hk'; cases hk'
    simp only [Option.some.injEq, Prod.mk.injEq] at hq
    obtain ⟨rfl, rfl, _⟩ := hq
    exact ⟨_, e2, (by rw [e3, tokenWait_eq]), hs⟩
  · intro q due n _ hn; rw [hk] at hn; cases hn
  · rw [e1, e3, e4]; exact bucket_refill h.gCred
  · intro k' b' hk' hb'
    rw [hk] at hk'; cases hk'
    rw [hb] at hb'; cases hb'
    exact ⟨_, e2, (by rw [e3, e4]; exact bucket_refill spc), (by rw [e4]; exact spf)⟩
  · intro hn; rw [hk] at hn; cases hn

/-- with PIR: the wait for peak tokens is over — the peak bucket is empty, the packet is red -/
theorem P_fire_pir (c : TrCfg ℚ) (hg : Good c) (now : ℚ) (d d' : TrSt ℚ) (p : Pkt ℚ) (n : Nat) (k : ℚ)
    (h : P c now d (some (p, now, n))) (hk : pirOn c = some k)
    (e1 : d'.commit = d.commit) (e2 : d'.peak = some 0) (e3 : d'.upd = now) (e4 : d'.log = (now, p.size, red) :: d.log) :
    P c now d' none := by
  obtain ⟨hk0, b, hb, hb0⟩ := hg.pir k hk
  obtain ⟨pl, hpl, hdue, _⟩ := h.wPir p now n k rfl hk
  obtain ⟨pl', hpl', spc, spf⟩ := h.sPir k b hk hb
  rw [hpl] at hpl'; cases hpl'
  have hsd := bucket_wait_debit p.size spc spf hk0 hdue
  refine ⟨(by rw [e3]), (by rw [e1]; exact h.c0), (by rw [e1]; exact h.cB), ?_, fun _ _ _ _ hx => (by cases hx),
    fun _ _ _ hx => (by cases hx), ?_, (by rw [e4, greens_red]; exact h.gConf), ?_, ?_⟩
  · intro k' _
    exact ⟨0, e2, le_refl _⟩
  · rw [e1, e3, e4, greens_red]
    exact bucket_lower h.gCred (le_of_lt hg.cir) h.updLe (le_refl _)
  · intro k' b' hk' hb'
    rw [hk] at hk'; cases hk'
    rw [hb] at hb'; cases hb'
    exact ⟨0, e2, (by rw [e3, e4, alls_cons]; exact hsd.1), (by rw [e4, alls_cons]; exact hsd.2)⟩
  · intro hn; rw [hk] at hn; cases hn

/-- without PIR: the committed bucket covers the packet (green) -/
theorem P_pay_cir (c : TrCfg ℚ) (hg : Good c) (now : ℚ) (d d' : TrSt ℚ) (p : Pkt ℚ)
    (h : P c now d none) (hk : pirOn c = none) (hs : ¬ cmOf c d now < p.size)
    (e1 : d'.commit = cmOf c d now - p.size) (e3 : d'.upd = now) (e4 : d'.log = (now, p.size, green) :: d.log) :
    P c now d' none := by
  obtain ⟨c0, cB⟩ := cm_facts c hg now d h.updLe h.c0
  have hs' : (p.size : ℚ) ≤ cmOf c d now := not_lt.mp hs
  obtain ⟨scc, scf⟩ := h.sCir hk
  have hgd := bucket_debit (now := now) p.size h.gCred h.gConf hs'
  have hsd := bucket_debit (now := now) p.size scc scf hs'
  refine ⟨(by rw [e3]), (by rw [e1]; linarith), ?_, ?_, fun _ _ _ _ hx => (by cases hx), fun _ _ _ hx => (by cases hx),
    ?_, (by rw [e4, greens_green]; exact hgd.2), ?_, ?_⟩
  · rw [e1]; linarith [(Nat.cast_nonneg p.size : (0 : ℚ) ≤ p.size)]
  · intro k hk'; rw [hk] at hk'; cases hk'
  · rw [e1, e3, e4, greens_green]; exact hgd.1
  · intro k b hk'; rw [hk] at hk'; cases hk'
  · intro _
    exact ⟨(by rw [e1, e3, e4, alls_cons]; exact hsd.1), (by rw [e4, alls_cons]; exact hsd.2)⟩

/-- without PIR: the committed tokens are short, the server starts to wait for exactly the missing ones -/
theorem P_wait_cir (c : TrCfg ℚ) (hg : Good c) (now : ℚ) (d d' : TrSt ℚ) (p : Pkt ℚ)
    (h : P c now d none) (hk : pirOn c = none) (hs : cmOf c d now < p.size)
    (e1 : d'.commit = cmOf c d now) (e3 : d'.upd = now) (e4 : d'.log = d.log) :
    P c now d' (some (p, now + tokenWait (cmOf c d now) c.cir p, 0)) := by
  obtain ⟨c0, cB⟩ := cm_facts c hg now d h.updLe h.c0
  obtain ⟨scc, scf⟩ := h.sCir hk
  refine ⟨(by rw [e3]), (by rw [e1]; exact c0), (by rw [e1]; exact cB), ?_, ?_, ?_, ?_, (by rw [e4]; exact h.gConf), ?_, ?_⟩
  · intro k hk'; rw [hk] at hk'; cases hk'
  · intro q due n k _ hk'; rw [hk] at hk'; cases hk'
  · intro q due n hq _
    simp only [Option.some.injEq, Prod.mk.injEq] at hq
    obtain ⟨rfl, rfl, _⟩ := hq
    exact ⟨(by rw [e1, e3, tokenWait_eq]), (by rw [e1]; exact hs)⟩
  · rw [e1, e3, e4]; exact bucket_refill h.gCred
  · intro k b hk'; rw [hk] at hk'; cases hk'
  · intro _
    exact ⟨(by rw [e1, e3, e4]; exact bucket_refill scc), (by rw [e4]; exact scf)⟩

/-- without PIR: the wait for committed tokens is over — the committed bucket is empty, the packet is yellow -/
theorem P_fire_cir (c : TrCfg ℚ) (hg : Good c) (now : ℚ) (d d' : TrSt ℚ) (p : Pkt ℚ) (n : Nat)
    (h : P c now d (some (p, now, n))) (hk : pirOn c = none)
    (e1 : d'.commit = 0) (e3 : d'.upd = now) (e4 : d'.log = (now, p.size, yellow) :: d.log) :
    P c now d' none := by
  obtain ⟨hdue, _⟩ := h.wCir p now n rfl hk
  obtain ⟨scc, scf⟩ := h.sCir hk
  have hsd := bucket_wait_debit p.size scc scf hg.cir hdue
  refine ⟨(by rw [e3]), (by rw [e1]), (by rw [e1]; exact hg.cbs), ?_, fun _ _ _ _ hx => (by cases hx),
    fun _ _ _ hx => (by cases hx), ?_, (by rw [e4, greens_yellow]; exact h.gConf), ?_, ?_⟩
  · intro k hk'; rw [hk] at hk'; cases hk'
  · rw [e1, e3, e4, greens_yellow]
    exact bucket_lower h.gCred (le_of_lt hg.cir) h.updLe h.c0
  · intro k b hk'; rw [hk] at hk'; cases hk'
  · intro _
    exact ⟨(by rw [e1, e3, e4, alls_cons]; exact hsd.1), (by rw [e4, alls_cons]; exact hsd.2)⟩

/-- counters only -/
theorem P_same (c : TrCfg ℚ) (now : ℚ) (d d' : TrSt ℚ) (tx : Option (Pkt ℚ × ℚ × Nat)) (h : P c now d tx)
    (e1 : d'.commit = d.commit) (e2 : d'.peak = d.peak) (e3 : d'.upd = d.upd) (e4 : d'.log = d.log) : P c now d' tx := by
  refine ⟨(by rw [e3]; exact h.updLe), (by rw [e1]; exact h.c0), (by rw [e1]; exact h.cB), (by rw [e2]; exact h.pk),
    (by rw [e2, e3]; exact h.wPir), (by rw [e1, e3]; exact h.wCir), (by rw [e1, e3, e4]; exact h.gCred),
    (by rw [e4]; exact h.gConf), (by rw [e2, e3, e4]; exact h.sPir), (by rw [e1, e3, e4]; exact h.sCir)⟩

def Inv (c : TrCfg ℚ) (s : FState ℚ (TrSt ℚ)) : Prop := P c s.now s.dev s.tx

theorem inv_issueGet (c : TrCfg ℚ) (s : FState ℚ (TrSt ℚ)) (h : Inv c s) : Inv c (issueGet s) := by
  unfold Inv
  rw [issueGet_now, issueGet_dev', issueGet_tx']
  exact h

theorem zero' : (Num.zero : ℚ) = 0 := zero_eq'

/-- every accepted step keeps the invariant -/
theorem step_inv (c : TrCfg ℚ) (hg : Good c) (s s' : FState ℚ (TrSt ℚ)) (a : FAct ℚ) (o : FOut ℚ)
    (hsh : Shape s) (hi : Inv c s) (hstep : step (dev c) s a = .ok (s', o)) : Inv c s' := by
  have ht := step_trans (dev c) s s' a o hstep
  clear hstep
  -- what `resume` does, by configuration
  have resume_pir : ∀ x y p k, s.handed = some p → pirOn c = some k → ∃ b pl, pbsOn c = some b ∧ s.dev.peak = some pl ∧
      onResume c s.dev s.now x y p = resumePir c s.dev s.now p k b pl ∧ P c s.now s.dev none := by
    intro x y p k hp hk
    obtain ⟨_, b, hb, _⟩ := hg.pir k hk
    obtain ⟨pl, hpl, _⟩ := hi.pk k hk
    have htx := (shape_of_handed hsh hp).2.2
    exact ⟨b, pl, hb, hpl, onResume_pir c s.dev s.now x y p k b pl hk hb hpl, htx ▸ hi⟩
  have fire_state : ∀ p due n, s.tx = some (p, due, n) → s.now = due → P c s.now s.dev (some (p, s.now, n)) := by
    intro p due n htx hnow
    have := hi
    unfold Inv at this
    rw [htx, ← hnow] at this
    exact this
  cases ht with
  | init h => exact inv_issueGet c _ hi
  | putAcc p h => exact P_same c s.now s.dev _ s.tx hi rfl rfl rfl rfl
  | putDrop p h => simp [dev_admit, admitPkt] at h
  | handoff p rest hg' hit => exact hi
  | resumeEmit x y p hp hn =>
    simp only [dev_onResume, dev_onDone] at hn ⊢
    apply inv_issueGet
    show P c s.now (onDone (onResume c s.dev s.now x y p).1 (onResume c s.dev s.now x y p).2.1) none
    cases hk : pirOn c with
    | some k =>
      obtain ⟨b, pl, hb, hpl, he, hP⟩ := resume_pir x y p k hp hk
      rw [he] at hn ⊢
      rcases resumePir_cases c s.dev s.now p k b pl with ⟨_, h⟩ | ⟨h1, _, h⟩ | ⟨h1, h2, h⟩
      · rw [h] at hn; cases hn
      · rw [h]
        exact P_pay_pir c hg s.now s.dev _ p k b pl yellow hP hk hb hpl h1 (Or.inr ⟨rfl, zero'⟩) rfl rfl rfl
      · rw [h]
        exact P_pay_pir c hg s.now s.dev _ p k b pl green hP hk hb hpl h1 (Or.inl ⟨rfl, h2, rfl⟩) rfl rfl rfl
    | none =>
      have htx := (shape_of_handed hsh hp).2.2
      have hP : P c s.now s.dev none := htx ▸ hi
      rw [onResume_cir c s.dev s.now x y p hk] at hn ⊢
      rcases resumeCir_cases c s.dev s.now p with ⟨_, h⟩ | ⟨h2, h⟩
      · rw [h] at hn; cases hn
      · rw [h]
        exact P_pay_cir c hg s.now s.dev _ p hP hk h2 rfl rfl rfl
  | resumeLose x y p hp hn =>
    exfalso
    simp only [dev_onResume] at hn
    cases hk : pirOn c with
    | some k =>
      obtain ⟨b, pl, hb, hpl, he, hP⟩ := resume_pir x y p k hp hk
      rw [he] at hn
      rcases resumePir_cases c s.dev s.now p k b pl with ⟨_, h⟩ | ⟨_, _, h⟩ | ⟨_, _, h⟩ <;> rw [h] at hn <;> cases hn
    | none =>
      rw [onResume_cir c s.dev s.now x y p hk] at hn
      rcases resumeCir_cases c s.dev s.now p with ⟨_, h⟩ | ⟨_, h⟩ <;> rw [h] at hn <;> cases hn
  | resumeWait x y p dt hp hn =>
    simp only [dev_onResume] at hn ⊢
    show P c s.now (onResume c s.dev s.now x y p).1 (some ((onResume c s.dev s.now x y p).2.1, s.now + dt, 0))
    cases hk : pirOn c with
    | some k =>
      obtain ⟨b, pl, hb, hpl, he, hP⟩ := resume_pir x y p k hp hk
      rw [he] at hn ⊢
      rcases resumePir_cases c s.dev s.now p k b pl with ⟨h1, h⟩ | ⟨_, _, h⟩ | ⟨_, _, h⟩
      · rw [h] at hn ⊢
        simp only [Next.wait.injEq] at hn
        subst hn
        exact P_wait_pir c hg s.now s.dev _ p k b pl hP hk hb hpl h1 rfl rfl rfl rfl
      · rw [h] at hn; cases hn
      · rw [h] at hn; cases hn
    | none =>
      have htx := (shape_of_handed hsh hp).2.2
      have hP : P c s.now s.dev none := htx ▸ hi
      rw [onResume_cir c s.dev s.now x y p hk] at hn ⊢
      rcases resumeCir_cases c s.dev s.now p with ⟨h1, h⟩ | ⟨_, h⟩
      · rw [h] at hn ⊢
        simp only [Next.wait.injEq] at hn
        subst hn
        exact P_wait_cir c hg s.now s.dev _ p hP hk h1 rfl rfl rfl
      · rw [h] at hn; cases hn
  | fireEmit p due n htx hnow hn =>
    simp only [dev_onFire, dev_onDone] at hn ⊢
    apply inv_issueGet
    show P c s.now (onDone (onFire c s.dev s.now n p).1 (onFire c s.dev s.now n p).2.1) none
    have hP := fire_state p due n htx hnow
    cases hk : pirOn c with
    | some k =>
      rw [onFire_pir c s.dev s.now n p k hk]
      exact P_fire_pir c hg s.now s.dev _ p n k hP hk rfl (by show some (Num.zero : ℚ) = some 0; rw [zero']) rfl rfl
    | none =>
      rw [onFire_cir c s.dev s.now n p hk]
      exact P_fire_cir c hg s.now s.dev _ p n hP hk zero' rfl rfl
  | fireLose p due n htx hnow hn =>
    exfalso
    simp only [dev_onFire, onFire] at hn
    cases hk : pirOn c <;> rw [hk] at hn <;> cases hn
  | fireWait p due n dt htx hnow hn =>
    exfalso
    simp only [dev_onFire, onFire] at hn
    cases hk : pirOn c <;> rw [hk] at hn <;> cases hn
  | tick t h1 h2 h3 h4 h5 =>
    exact ⟨le_trans hi.updLe h1, hi.c0, hi.cB, hi.pk, hi.wPir, hi.wCir, hi.gCred, hi.gConf, hi.sPir, hi.sCir⟩

/-! ### whole runs -/

theorem init_inv (c : TrCfg ℚ) (hg : Good c) (t0 : ℚ) (h0 : 0 ≤ t0) : Inv c (Fifo.init (st0 c) t0) := by
  have hz : (Num.zero : ℚ) = 0 := zero_eq'
  have hpbs : ∀ k, pirOn c = some k → ∃ b, pbsOn c = some b ∧ c.pbs = some b ∧ 0 < b := by
    intro k hk
    obtain ⟨_, b, hb, hb0⟩ := hg.pir k hk
    exact ⟨b, hb, ((Num.optOn_iff c.pbs b).mp hb).1, hb0⟩
  refine ⟨(by show (Num.zero : ℚ) ≤ t0; rw [hz]; exact h0), hg.cbs, le_refl _, ?_, fun _ _ _ _ hx => (by cases hx),
    fun _ _ _ hx => (by cases hx), cred_nil _ _ _ _, conforms_nil _ _, ?_, fun _ => ⟨cred_nil _ _ _ _, conforms_nil _ _⟩⟩
  · intro k hk
    obtain ⟨b, _, hb, hb0⟩ := hpbs k hk
    exact ⟨b, hb, le_of_lt hb0⟩
  · intro k b hk hb
    obtain ⟨b', hb', hbs, _⟩ := hpbs k hk
    rw [hb] at hb'; cases hb'
    exact ⟨b, hbs, cred_nil _ _ _ _, conforms_nil _ _⟩

/-- the invariant holds after every accepted action sequence -/
theorem run_inv (c : TrCfg ℚ) (hg : Good c) (t0 : ℚ) (h0 : 0 ≤ t0) (as : List (FAct ℚ)) (s : FState ℚ (TrSt ℚ))
    (ins outs : List Nat) (h : runActs (dev c) (Fifo.init (st0 c) t0) as = .ok (s, ins, outs)) :
    Shape s ∧ Inv c s := by
  refine run_induct (dev c) (fun s => Shape s ∧ Inv c s) ?_ as _ s ins outs
    ⟨Fifo.init_shape _ _, init_inv c hg t0 h0⟩ h
  intro s a s' o hP hs
  exact ⟨(step_conserves (dev c) (idPreserving c) s s' a o hP.1 hs).2, step_inv c hg s s' a o hP.1 hP.2 hs⟩

/-- what `resume` computes, by configuration, in a state that satisfies the invariant -/
theorem onResume_good (c : TrCfg ℚ) (hg : Good c) (s : FState ℚ (TrSt ℚ)) (hi : Inv c s) (x y : ℚ) (p : Pkt ℚ) :
    (∃ k b pl, pirOn c = some k ∧ pbsOn c = some b ∧ s.dev.peak = some pl ∧
      onResume c s.dev s.now x y p = resumePir c s.dev s.now p k b pl) ∨
    (pirOn c = none ∧ onResume c s.dev s.now x y p = resumeCir c s.dev s.now p) := by
  cases hk : pirOn c with
  | some k =>
    obtain ⟨_, b, hb, _⟩ := hg.pir k hk
    obtain ⟨pl, hpl, _⟩ := hi.pk k hk
    exact Or.inl ⟨k, b, pl, rfl, hb, hpl, onResume_pir c s.dev s.now x y p k b pl hk hb hpl⟩
  | none => exact Or.inr ⟨rfl, onResume_cir c s.dev s.now x y p hk⟩

/-- how one step changes the ghost log: it grows exactly when a packet is forwarded, by (now, size, colour) -/
def LogStep (s s' : FState ℚ (TrSt ℚ)) (o : FOut ℚ) : Prop :=
  match o with
  | .depart q => s'.dev.log = (s.now, q.size, q.color) :: s.dev.log
  | _ => s'.dev.log = s.dev.log

theorem log_step (c : TrCfg ℚ) (hg : Good c) (s s' : FState ℚ (TrSt ℚ)) (a : FAct ℚ) (o : FOut ℚ) (hi : Inv c s)
    (hstep : step (dev c) s a = .ok (s', o)) : LogStep s s' o ∧ o ≠ .dropped ∧ ∀ q, o ≠ .lost q := by
  have ht := step_trans (dev c) s s' a o hstep
  clear hstep
  unfold LogStep
  have triv : ∀ (o' : FOut ℚ), o' = .nothing ∨ o' = .accepted → o' ≠ .dropped ∧ ∀ q, o' ≠ .lost q := by
    intro o' h
    rcases h with rfl | rfl <;> exact ⟨fun h => (by cases h), fun q h => (by cases h)⟩
  cases ht with
  | init h => exact ⟨(by simp [issueGet_dev']), triv _ (Or.inl rfl)⟩
  | putAcc p h => exact ⟨rfl, triv _ (Or.inr rfl)⟩
  | putDrop p h => simp [dev_admit, admitPkt] at h
  | handoff p rest hg' hit => exact ⟨rfl, triv _ (Or.inl rfl)⟩
  | resumeEmit x y p hp hn =>
    simp only [dev_onResume, dev_onDone, issueGet_dev'] at hn ⊢
    refine ⟨?_, fun h => (by cases h), fun q h => (by cases h)⟩
    rcases onResume_good c hg s hi x y p with ⟨k, b, pl, _, _, _, he⟩ | ⟨_, he⟩
    · rw [he] at hn ⊢
      rcases resumePir_cases c s.dev s.now p k b pl with ⟨_, h⟩ | ⟨_, _, h⟩ | ⟨_, _, h⟩
      · rw [h] at hn; cases hn
      · rw [h]; rfl
      · rw [h]; rfl
    · rw [he] at hn ⊢
      rcases resumeCir_cases c s.dev s.now p with ⟨_, h⟩ | ⟨_, h⟩
      · rw [h] at hn; cases hn
      · rw [h]; rfl
  | resumeLose x y p hp hn =>
    exfalso
    simp only [dev_onResume] at hn
    rcases onResume_good c hg s hi x y p with ⟨k, b, pl, _, _, _, he⟩ | ⟨_, he⟩
    · rw [he] at hn
      rcases resumePir_cases c s.dev s.now p k b pl with ⟨_, h⟩ | ⟨_, _, h⟩ | ⟨_, _, h⟩ <;> rw [h] at hn <;> cases hn
    · rw [he] at hn
      rcases resumeCir_cases c s.dev s.now p with ⟨_, h⟩ | ⟨_, h⟩ <;> rw [h] at hn <;> cases hn
  | resumeWait x y p dt hp hn =>
    simp only [dev_onResume] at hn ⊢
    refine ⟨?_, triv _ (Or.inl rfl)⟩
    rcases onResume_good c hg s hi x y p with ⟨k, b, pl, _, _, _, he⟩ | ⟨_, he⟩
    · rw [he] at hn ⊢
      rcases resumePir_cases c s.dev s.now p k b pl with ⟨_, h⟩ | ⟨_, _, h⟩ | ⟨_, _, h⟩
      · rw [h]; rfl
      · rw [h] at hn; cases hn
      · rw [h] at hn; cases hn
    · rw [he] at hn ⊢
      rcases resumeCir_cases c s.dev s.now p with ⟨_, h⟩ | ⟨_, h⟩
      · rw [h]; rfl
      · rw [h] at hn; cases hn
  | fireEmit p due n htx hnow hn =>
    simp only [dev_onFire, dev_onDone, issueGet_dev'] at hn ⊢
    refine ⟨?_, fun h => (by cases h), fun q h => (by cases h)⟩
    cases hk : pirOn c with
    | some k => rw [onFire_pir c s.dev s.now n p k hk]; rfl
    | none => rw [onFire_cir c s.dev s.now n p hk]; rfl
  | fireLose p due n htx hnow hn =>
    exfalso
    simp only [dev_onFire, onFire] at hn
    cases hk : pirOn c <;> rw [hk] at hn <;> cases hn
  | fireWait p due n dt htx hnow hn =>
    exfalso
    simp only [dev_onFire, onFire] at hn
    cases hk : pirOn c <;> rw [hk] at hn <;> cases hn
  | tick t h1 h2 h3 h4 h5 => exact ⟨rfl, triv _ (Or.inl rfl)⟩

end TwoRate
