import OnlVerif.Lemmas.SplitPlan
/-!
# What a program and the harness can observe is unaffected by the numeric stops of a split plan (C03)

* the renamings of the stops compose: the trace of `stackT cs s` is the trace of `s` renamed by `stackρ cs`;
* the *view* of a trace — processes and events identified by their creation labels, values rendered (`renderSimple`,
  `freezeVal`: ids appear through labels only; a `Preempted` value through the label of the preempting process and the
  `usage_since` of the victim's request) — is literally the same in `stackT cs s` and in `s`; so is the view of the process
  table (which process waits for which event, in table order).
-/

variable {σ : Type}

/-! ## renamings compose -/

theorem rnVal_comp (f g : EvId → EvId) (v : Val) : rnVal f (rnVal g v) = rnVal (fun e => f (g e)) v := by
  cases v <;> simp only [rnVal, List.map_map, Option.map_map] <;> rfl

theorem rnExc_comp (f g : EvId → EvId) (x : Exc) : rnExc f (rnExc g x) = rnExc (fun e => f (g e)) x := by
  unfold rnExc
  simp only [List.map_map]
  congr 1
  apply List.map_congr_left
  intro v _
  exact rnVal_comp f g v

theorem rnOutcome_comp (f g : EvId → EvId) (o : Outcome) : rnOutcome f (rnOutcome g o) = rnOutcome (fun e => f (g e)) o := by
  cases o with
  | ok v => simp only [rnOutcome, rnVal_comp]
  | fail x => simp only [rnOutcome, rnExc_comp]

theorem rnResume_comp (f g : EvId → EvId) (r : Resume) : rnResume f (rnResume g r) = rnResume (fun e => f (g e)) r := by
  cases r with
  | start => rfl
  | value v => simp only [rnResume, rnVal_comp]
  | exc x => simp only [rnResume, rnExc_comp]

theorem rnObs_comp (f g : EvId → EvId) (o : Obs ℚ) : rnObs f (rnObs g o) = rnObs (fun e => f (g e)) o := by
  cases o <;> simp only [rnObs, rnResume_comp, rnVal_comp, rnOutcome_comp, rnExc_comp]

theorem rnObs_id (o : Obs ℚ) : rnObs (fun e => e) o = o := by
  have hv : ∀ v : Val, rnVal (fun e => e) v = v := by
    intro v; cases v <;> simp [rnVal]
  have hx : ∀ x : Exc, rnExc (fun e => e) x = x := by
    intro x
    unfold rnExc
    have : x.args.map (rnVal fun e => e) = x.args := by
      rw [List.map_congr_left (fun v _ => hv v), List.map_id']
    rw [this]
  have ho : ∀ o : Outcome, rnOutcome (fun e => e) o = o := by
    intro o; cases o <;> simp [rnOutcome, hv, hx]
  have hr : ∀ r : Resume, rnResume (fun e => e) r = r := by
    intro r; cases r <;> simp [rnResume, hv, hx]
  cases o <;> simp [rnObs, hv, hx, ho, hr]

/-- **the renamings of the numeric stops compose**: the trace of the split run is the trace of the uninterrupted run
renamed by `stackρ cs` -/
theorem trace_stackT (cs : List (SplitCfg σ)) (s : KState ℚ σ) : (stackT cs s).trace = s.trace.map (rnObs (stackρ cs)) := by
  induction cs with
  | nil =>
    show s.trace = s.trace.map (rnObs fun e => e)
    have : (rnObs fun e => e : Obs ℚ → Obs ℚ) = id := funext rnObs_id
    rw [this, Array.map_id]
  | cons c cs ih =>
    show (stackT cs s).trace.map (rnObs c.ρ) = _
    rw [ih, Array.map_map]
    congr 1
    funext o
    exact rnObs_comp c.ρ (stackρ cs) o

/-! ## views: what can be observed of values, observations, the process table -/

/-- a rendered value -/
inductive VView where
  | text (t : String)
  /-- `Preempted(by, usage_since, resource)`: the preempting process by its label -/
  | pre (byLabel : Option Nat) (since : Option ℚ) (res : ResId)

structure XView where
  ty : String
  args : List VView

inductive OutView where
  | ok (v : VView)
  | fail (x : XView)

inductive RView where
  | start
  | value (v : VView)
  | exc (x : XView)

/-- a rendered observation: processes and events by creation label -/
inductive OView where
  | resumed (p : Nat) (r : RView) (now : ℚ)
  | log (p : Nat) (what : String) (v : VView) (now : ℚ)
  | probe (tag : Nat) (e : Nat) (o : OutView) (now : ℚ)
  | callErr (p : Nat) (x : XView) (now : ℚ)
  | ended (p : Nat) (o : OutView) (now : ℚ)

def viewVal (s : KState ℚ σ) : Val → VView
  | .preempted b req res => .pre (b.map fun p => (s.ev p).label) (reqOf s req).usageSince res
  | .none => .text (renderSimple s .none)
  | .int i => .text (renderSimple s (.int i))
  | .str t => .text (renderSimple s (.str t))
  | .ev e => .text (renderSimple s (.ev e))
  | .cv keys => .text (renderSimple s (freezeVal s (.cv keys)))
  | .frozen t => .text (renderSimple s (.frozen t))

def viewExc (s : KState ℚ σ) (x : Exc) : XView := ⟨x.ty, x.args.map (viewVal s)⟩

def viewOut (s : KState ℚ σ) : Outcome → OutView
  | .ok v => .ok (viewVal s v)
  | .fail x => .fail (viewExc s x)

def viewResume (s : KState ℚ σ) : Resume → RView
  | .start => .start
  | .value v => .value (viewVal s v)
  | .exc x => .exc (viewExc s x)

def viewObs (s : KState ℚ σ) : Obs ℚ → OView
  | .resumed p r now => .resumed (s.ev p).label (viewResume s r) now
  | .log p what v now => .log (s.ev p).label what (viewVal s v) now
  | .probe tag e o now => .probe tag (s.ev e).label (viewOut s o) now
  | .callErr p x now => .callErr (s.ev p).label (viewExc s x) now
  | .ended p o now => .ended (s.ev p).label (viewOut s o) now

/-- **the rendered trace**: what the program and the harness have observed so far -/
def viewTrace (s : KState ℚ σ) : List OView := s.trace.toList.map (viewObs s)

/-- **the rendered process table**: every process (by label), in table order, with the event it waits for (by label) -/
def viewProcs (s : KState ℚ σ) : List (Nat × Option Nat) :=
  s.procs.map fun pr => ((s.ev pr.1).label, pr.2.target.map fun t => (s.ev t).label)

namespace SplitCfg
variable (c : SplitCfg σ) (q : Bool) (s : KState ℚ σ)

theorem viewVal_T (h : c.Inv s) (v : Val) : viewVal (c.T q s) (rnVal c.ρ v) = viewVal s v := by
  cases v with
  | preempted b req res =>
    simp only [rnVal, viewVal, c.r_reqOf q s h, rnReq_usageSince, Option.map_map]
    congr 1
    cases b with
    | none => rfl
    | some p => simp only [Option.map_some, Function.comp, c.label_T q s h]
  | none => rfl
  | int i => rfl
  | str t => rfl
  | ev e =>
    have := c.r_renderSimple q s h (.ev e)
    simp only [rnVal, viewVal] at this ⊢
    rw [this]
  | cv keys =>
    have h1 : freezeVal (c.T q s) (.cv (keys.map c.ρ)) = rnVal c.ρ (freezeVal s (.cv keys)) := c.r_freezeVal q s h (.cv keys)
    show VView.text (renderSimple (c.T q s) (freezeVal (c.T q s) (.cv (keys.map c.ρ)))) = _
    rw [h1, c.r_renderSimple q s h]
    rfl
  | frozen t => rfl

theorem viewExc_T (h : c.Inv s) (x : Exc) : viewExc (c.T q s) (rnExc c.ρ x) = viewExc s x := by
  unfold viewExc rnExc
  simp only [List.map_map]
  congr 1
  apply List.map_congr_left
  intro v _
  exact c.viewVal_T q s h v

theorem viewOut_T (h : c.Inv s) (o : Outcome) : viewOut (c.T q s) (rnOutcome c.ρ o) = viewOut s o := by
  cases o with
  | ok v => simp only [rnOutcome, viewOut, c.viewVal_T q s h]
  | fail x => simp only [rnOutcome, viewOut, c.viewExc_T q s h]

theorem viewResume_T (h : c.Inv s) (r : Resume) : viewResume (c.T q s) (rnResume c.ρ r) = viewResume s r := by
  cases r with
  | start => rfl
  | value v => simp only [rnResume, viewResume, c.viewVal_T q s h]
  | exc x => simp only [rnResume, viewResume, c.viewExc_T q s h]

theorem viewObs_T (h : c.Inv s) (o : Obs ℚ) : viewObs (c.T q s) (rnObs c.ρ o) = viewObs s o := by
  cases o <;>
    simp only [rnObs, viewObs, c.label_T q s h, c.viewResume_T q s h, c.viewVal_T q s h, c.viewOut_T q s h, c.viewExc_T q s h]

/-- **the rendered trace is unaffected by a numeric stop** -/
theorem viewTrace_T (h : c.Inv s) : viewTrace (c.T q s) = viewTrace s := by
  unfold viewTrace
  show ((s.trace.map (rnObs c.ρ)).toList).map (viewObs (c.T q s)) = _
  rw [Array.toList_map, List.map_map]
  apply List.map_congr_left
  intro o _
  exact c.viewObs_T q s h o

/-- **the rendered process table is unaffected by a numeric stop** -/
theorem viewProcs_T (h : c.Inv s) : viewProcs (c.T q s) = viewProcs s := by
  unfold viewProcs
  show (s.procs.map (fun pr => (c.ρ pr.1, rnProc c.ρ c.rσ pr.2))).map _ = _
  rw [List.map_map]
  apply List.map_congr_left
  intro pr _
  simp only [Function.comp, c.label_T q s h, rnProc_target, Option.map_map]
  congr 1
  cases pr.2.target with
  | none => rfl
  | some t => simp only [Option.map_some, Function.comp, c.label_T q s h]

end SplitCfg

namespace SplitPlan
variable {I : IdSt σ}

theorem viewTrace_stackT (cs : List (SplitCfg σ)) (s : KState ℚ σ) (h : StackOK I cs s) :
    viewTrace (stackT cs s) = viewTrace s := by
  induction cs with
  | nil => rfl
  | cons c cs ih =>
    show viewTrace (c.T false (stackT cs s)) = _
    rw [c.viewTrace_T false _ (inv_stackT c cs s h), ih h.2.2.2]

theorem viewProcs_stackT (cs : List (SplitCfg σ)) (s : KState ℚ σ) (h : StackOK I cs s) :
    viewProcs (stackT cs s) = viewProcs s := by
  induction cs with
  | nil => rfl
  | cons c cs ih =>
    show viewProcs (c.T false (stackT cs s)) = _
    rw [c.viewProcs_T false _ (inv_stackT c cs s h), ih h.2.2.2]

/-- the views do not read the clock -/
theorem viewTrace_splitState (cs : List (SplitCfg σ)) (s : KState ℚ σ) (x : ℚ) :
    viewTrace (splitState cs s x) = viewTrace (stackT cs s) := by
  unfold viewTrace
  apply List.map_congr_left
  intro o _
  have hv : ∀ v, viewVal (splitState cs s x) v = viewVal (stackT cs s) v := by
    intro v; cases v <;> rfl
  have hx : ∀ y, viewExc (splitState cs s x) y = viewExc (stackT cs s) y := by
    intro y; unfold viewExc; rw [List.map_congr_left (fun v _ => hv v)]
  have ho : ∀ y, viewOut (splitState cs s x) y = viewOut (stackT cs s) y := by
    intro y; cases y <;> simp only [viewOut, hv, hx]
  have hr : ∀ y, viewResume (splitState cs s x) y = viewResume (stackT cs s) y := by
    intro y; cases y <;> simp only [viewResume, hv, hx]
  cases o <;> simp only [viewObs, hv, hx, ho, hr] <;> rfl

theorem viewProcs_splitState (cs : List (SplitCfg σ)) (s : KState ℚ σ) (x : ℚ) :
    viewProcs (splitState cs s x) = viewProcs (stackT cs s) := rfl

end SplitPlan
